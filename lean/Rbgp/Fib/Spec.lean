/-
  Rbgp.Fib.Spec — C20 written from the property text as a reference checker over
  *observations*: per history step the requests seen on the `KernelHandle` channel
  (apply / register / unregister) and the contents of the RIB read back through the
  table's query API.  It imports the model only for its types (`Pfx`, `Op`, `Cfg`,
  `Vrf`, `Addr`, source constants) and calls no model function that computes an answer.

  Property (C20): after any history, replaying the FIB requests issued so far yields, for
  every IPv4/IPv6 prefix, exactly the next-hop set of the current best path and the paths
  tied with it before the router-id step (nothing if there is no eligible path), and for
  VPN prefixes the same in every VRF whose import targets match.  The number of next-hop
  tracking registrations outstanding for an address equals the number of peer-learned
  paths currently using it, and a path whose next hop is reported unreachable is excluded
  from selection until it is reported reachable again.
-/
import Rbgp.Fib.Model
namespace Rbgp.Fib.Spec
open Rbgp.Fib

/-- What can be read back about a stored path. -/
structure PathObs where
  src : Nat
  pid : Nat
  nh : Addr
  flt : Bool
  stale : Bool
  llgr : Bool      -- LLGR-stale (source marked, or LLGR_STALE community)
  lp : Nat
  asl : Nat        -- AS_PATH length
  org : Nat        -- ORIGIN
  eb : Bool
  cl : Nat
  rid : Nat
  rts : List Nat
  deriving DecidableEq, Repr, Inhabited

structure DestObs where
  pfx : Pfx
  paths : List PathObs
  deriving DecidableEq, Repr, Inhabited

structure FibReq where
  table : Nat
  pfx : Pfx
  nhs : List Addr
  deriving DecidableEq, Repr, Inhabited

structure StepObs where
  fib : List FibReq
  nht : List (Bool × Addr)      -- (true, a) = register a, (false, a) = unregister a
  rib : List DestObs
  deriving DecidableEq, Repr, Inhabited

inductive Verdict where
  | ok
  | fail (step : Nat) (clause : String)
  deriving DecidableEq, Repr

-- ---------------------------------------------------------------- replay of the request log

/-- FIB as replayed from the requests: (table, prefix) ↦ next hops of the last request. -/
abbrev Fib := List ((Nat × Pfx) × List Addr)
/-- outstanding registrations per address -/
abbrev Refs := List (Addr × Nat)

def fibGet (f : Fib) (t : Nat) (p : Pfx) : List Addr :=
  match f.find? (fun e => e.1 == (t, p)) with
  | some e => e.2
  | none => []

/-- an `apply` with an empty next-hop list is a withdraw: both leave "nothing" -/
def fibApply (f : Fib) (r : FibReq) : Fib :=
  ((r.table, r.pfx), r.nhs) :: f.filter (fun e => !(e.1 == (r.table, r.pfx)))

def fibReplay (f : Fib) (rs : List FibReq) : Fib := rs.foldl fibApply f

def refGet (r : Refs) (a : Addr) : Nat :=
  match r.find? (fun e => e.1 == a) with
  | some e => e.2
  | none => 0

def refSet (r : Refs) (a : Addr) (n : Nat) : Refs := (a, n) :: r.filter (fun e => !(e.1 == a))

/-- `none`: an unregister arrived for an address without outstanding registration. -/
def refReplay : Refs → List (Bool × Addr) → Option Refs
  | r, [] => some r
  | r, (true, a) :: rest => refReplay (refSet r a (refGet r a + 1)) rest
  | r, (false, a) :: rest =>
      if refGet r a = 0 then none else refReplay (refSet r a (refGet r a - 1)) rest

-- ---------------------------------------------------------------- the RIB side

/-- A stored path is eligible unless import policy rejected it or its next hop is currently
    reported unreachable (`unr` = addresses whose last report said unreachable). -/
def eligible (unr : List Addr) (ps : List PathObs) : List PathObs :=
  ps.filter (fun p => !p.flt && !unr.contains p.nh)

/-- `q` beats `p` in a decision step before the router-id step: not LLGR-stale over LLGR-stale,
    then higher LOCAL_PREF, shorter AS_PATH, lower ORIGIN, eBGP over iBGP, not
    graceful-restart-stale over stale, shorter CLUSTER_LIST. -/
def beats (q p : PathObs) : Bool :=
  if q.llgr != p.llgr then p.llgr
  else if q.lp != p.lp then q.lp > p.lp
  else if q.asl != p.asl then q.asl < p.asl
  else if q.org != p.org then q.org < p.org
  else if q.eb != p.eb then q.eb
  else if q.stale != p.stale then p.stale
  else q.cl < p.cl

/-- the best path and the paths tied with it before the router-id step -/
def ecmp (el : List PathObs) : List PathObs := el.filter (fun p => el.all (fun q => !beats q p))

/-- `q` beats `p` when the router-id step is included -/
def beatsRid (q p : PathObs) : Bool := beats q p || (!beats p q && q.rid < p.rid)

/-- the candidates for "the best path" (unique up to full ties) -/
def bests (el : List PathObs) : List PathObs := el.filter (fun p => el.all (fun q => !beatsRid q p))

def subset (a b : List Addr) : Bool := a.all (fun x => b.contains x)
def sameSet (a b : List Addr) : Bool := subset a b && subset b a

def ribGet (rib : List DestObs) (p : Pfx) : List PathObs :=
  match rib.find? (fun d => d.pfx == p) with
  | some d => d.paths
  | none => []

def rtMatch (v : Vrf) (p : PathObs) : Bool := p.rts.any (fun r => v.imp.contains r)

/-- learned from a peer: neither the local (API) nor the kernel-redistribution source -/
def peerLearned (src : Nat) : Bool := !(src == srcLocal || src == srcKernel)

/-- number of peer-learned stored paths using next hop `a` -/
def uses (rib : List DestObs) (a : Addr) : Nat :=
  (rib.map (fun d => (d.paths.filter (fun p => peerLearned p.src && p.nh == a)).length)).sum

-- ---------------------------------------------------------------- per-step clauses

/-- main table: every IPv4/IPv6 prefix (of a family that is not in restarting-speaker deferral) -/
def checkMainPfx (dfr : List Nat) (unr : List Addr) (fib : Fib) (rib : List DestObs) (p : Pfx) : Option String :=
  if p.isVpn || dfr.contains p.fam then none
  else
    let got := fibGet fib 0 p
    let want := (ecmp (eligible unr (ribGet rib p))).map (·.nh)
    if got.any (fun a => unr.contains a) then some "unreachable-nexthop-in-fib"
    else if !sameSet got want then some "fib-ne-ecmp"
    else none

/-- VPN prefix `p` in VRF `v` (table id > 0): the entry is the ECMP set when the best path is
    imported by the VRF, and absent otherwise (with several candidates for "the best path" that
    disagree about the VRF, either). -/
def checkVrfPfx (dfr : List Nat) (unr : List Addr) (fib : Fib) (rib : List DestObs) (v : Vrf) (p : Pfx) :
    Option String :=
  if !p.isVpn || v.tid == 0 || dfr.contains p.fam then none
  else
    let el := eligible unr (ribGet rib p)
    let got := fibGet fib v.tid p.local
    if got.any (fun a => unr.contains a) then some "unreachable-nexthop-in-vrf-fib"
    else if el.isEmpty then (if got.isEmpty then none else some "vrf-fib-not-withdrawn")
    else
      let allM := (bests el).all (rtMatch v)
      let anyM := (bests el).any (rtMatch v)
      let isEcmp := sameSet got ((ecmp el).map (·.nh))
      if allM then (if isEcmp then none else some "vrf-fib-ne-ecmp")
      else if !anyM then (if got.isEmpty then none else some "vrf-stale-entry")
      else (if isEcmp || got.isEmpty then none else some "vrf-fib-ne-ecmp")

/-- a replayed request for a table other than the main one must be for a configured VRF table and
    an IPv4/IPv6 prefix -/
def checkCell (cfg : Cfg) (e : (Nat × Pfx) × List Addr) : Option String :=
  if e.1.1 == 0 then none
  else if cfg.vrfs.any (fun v => v.tid == e.1.1) && e.1.2.fam ≤ 1 then none
  else some "fib-unexpected-cell"

def checkRef (refs : Refs) (rib : List DestObs) (a : Addr) : Option String :=
  if refGet refs a = uses rib a then none else some "refcount-ne-uses"

def firstSome {α} (f : α → Option String) : List α → Option String
  | [] => none
  | x :: xs => match f x with
    | some s => some s
    | none => firstSome f xs

/-- every prefix that is stored or has a replayed FIB entry (a VRF-local prefix stands for both VPN
    families) -/
def pfxsOf (fib : Fib) (rib : List DestObs) : List Pfx :=
  rib.map (·.pfx) ++ fib.map (fun e => e.1.2) ++ fib.map (fun e => (⟨2, e.1.2.id⟩ : Pfx)) ++
    fib.map (fun e => (⟨3, e.1.2.id⟩ : Pfx))

def addrsOf (refs : Refs) (rib : List DestObs) : List Addr :=
  refs.map (·.1) ++ rib.flatMap (fun d => d.paths.map (·.nh))

def checkStep (cfg : Cfg) (dfr : List Nat) (unr : List Addr) (fib : Fib) (refs : Refs) (rib : List DestObs) :
    Option String :=
  let ps := pfxsOf fib rib
  match firstSome (checkCell cfg) fib with
  | some s => some s
  | none =>
  match firstSome (checkMainPfx dfr unr fib rib) ps with
  | some s => some s
  | none =>
    match firstSome (fun v => firstSome (checkVrfPfx dfr unr fib rib v) ps) cfg.vrfs with
    | some s => some s
    | none => firstSome (checkRef refs rib) (addrsOf refs rib)

/-- reachability reports are part of the history -/
def report (unr : List Addr) : Op → List Addr
  | .nh a true => unr.filter (· != a)
  | .nh a false => a :: unr
  | _ => unr

/-- families released from deferral are part of the history -/
def undeferred (dfr : List Nat) : Op → List Nat
  | .undefer f => dfr.filter (· != f)
  | _ => dfr

def checkFrom (cfg : Cfg) : Nat → List Nat → Fib → Refs → List Addr → List Op → List StepObs → Verdict
  | _, _, _, _, _, [], [] => .ok
  | i, dfr, fib, refs, unr, op :: ops, s :: ss =>
      let unr' := report unr op
      let dfr' := undeferred dfr op
      let fib' := fibReplay fib s.fib
      match refReplay refs s.nht with
      | none => .fail i "unregister-without-registration"
      | some refs' =>
        match checkStep cfg dfr' unr' fib' refs' s.rib with
        | some c => .fail i c
        | none => checkFrom cfg (i + 1) dfr' fib' refs' unr' ops ss
  | i, _, _, _, _, _, _ => .fail i "trace-length-mismatch"

/-- The reference checker: case (configuration, history) and observation ↦ verdict. -/
def check (cfg : Cfg) (ops : List Op) (obs : List StepObs) : Verdict :=
  checkFrom cfg 0 cfg.defer [] [] [] ops obs

/-- When the tracking requests of the whole history were fed, in the order sent, to the kernel
    service: the count it ends with for every address is the number of peer-learned stored paths
    using the address. -/
def checkFeed (rib : List DestObs) (finals : List (Addr × Nat)) : Verdict :=
  if finals.all (fun e => uses rib e.1 == e.2) then .ok else .fail 0 "service-watched-ne-uses"

def lastRib (tr : List StepObs) : List DestObs :=
  match tr.getLast? with
  | some s => s.rib
  | none => []

/-- the reference checker with the optional service-feed observation -/
def checkAll (cfg : Cfg) (ops : List Op) (tr : List StepObs) (order : Bool)
    (feed : Option (List (Addr × Nat))) : Verdict :=
  if !order then .fail 0 "unregister-without-registration"
  else match check cfg ops tr, feed with
    | .ok, some fs => checkFeed (lastRib tr) fs
    | v, _ => v

-- ---------------------------------------------------------------- service-loop refinement

/-- What a correct reference-counting service must show for a request sequence: a register emits
    the initial reachability exactly when nothing was outstanding for the address, an unregister
    without outstanding registration is ignored. -/
def svcExpect : Refs → List (Bool × Addr) → List Bool × Refs
  | r, [] => ([], r)
  | r, (true, a) :: rest =>
      let (es, rf) := svcExpect (refSet r a (refGet r a + 1)) rest
      ((refGet r a == 0) :: es, rf)
  | r, (false, a) :: rest =>
      let (es, rf) := svcExpect (refSet r a (refGet r a - 1)) rest
      (false :: es, rf)

/-- observation of a service run: emission per request and the measured final count per address -/
def checkSvc (reqs : List (Bool × Addr)) (emits : List Bool) (finals : List (Addr × Nat)) : Verdict :=
  let (es, rf) := svcExpect [] reqs
  if es != emits then .fail 0 "service-emission-ne-first-registration"
  else if finals.all (fun e => refGet rf e.1 == e.2) then .ok
  else .fail 0 "service-refcount-ne-fold"

/-- the same with route events (`none`) in the sequence: while the kernel's answers do not change a
    route event emits nothing -/
def svcExpectE : Refs → List (Option (Bool × Addr)) → List Bool × Refs
  | r, [] => ([], r)
  | r, none :: rest =>
      let (es, rf) := svcExpectE r rest
      (false :: es, rf)
  | r, some (true, a) :: rest =>
      let (es, rf) := svcExpectE (refSet r a (refGet r a + 1)) rest
      ((refGet r a == 0) :: es, rf)
  | r, some (false, a) :: rest =>
      let (es, rf) := svcExpectE (refSet r a (refGet r a - 1)) rest
      (false :: es, rf)

def checkSvcE (reqs : List (Option (Bool × Addr))) (emits : List Bool) (finals : List (Addr × Nat)) : Verdict :=
  let (es, rf) := svcExpectE [] reqs
  if es != emits then .fail 0 "service-emission-ne-first-registration"
  else if finals.all (fun e => refGet rf e.1 == e.2) then .ok
  else .fail 0 "service-refcount-ne-fold"

end Rbgp.Fib.Spec
