import Rbgp.Fib.Model
import Rbgp.Fib.Spec
import Rbgp.Fib.Codec
namespace Rbgp.Fib
open List

theorem then_ne_lt (x y : Nat) (o : Ordering) :
    ((compare x y).then o ≠ Ordering.lt) ↔ (y < x ∨ (x = y ∧ o ≠ .lt)) := by
  rcases Nat.lt_trichotomy x y with h | h | h
  · simp [Nat.compare_eq_lt.mpr h, Ordering.then]; omega
  · simp [Ordering.then, h]
  · simp [Nat.compare_eq_gt.mpr h, Ordering.then]; omega

theorem cmp_ne_lt (x y : Nat) : (compare x y ≠ Ordering.lt) ↔ y ≤ x := by
  rcases Nat.lt_trichotomy x y with h | h | h
  · simp [Nat.compare_eq_lt.mpr h]; omega
  · simp [h]
  · simp [Nat.compare_eq_gt.mpr h]; omega

theorem cmpGe_iff (e a : Path) : cmpGe e a = true ↔
    (e.lp < a.lp ∨ (a.lp = e.lp ∧ (b2n e.eb < b2n a.eb ∨ (b2n a.eb = b2n e.eb ∧
      (b2n a.stale < b2n e.stale ∨ (b2n e.stale = b2n a.stale ∧
        (a.cl < e.cl ∨ (e.cl = a.cl ∧ a.rid ≤ e.rid)))))))) := by
  unfold cmpGe cmpPath
  simp only [bne_iff_ne, then_ne_lt, cmp_ne_lt]

theorem b2n_le (b : Bool) : b2n b ≤ 1 := by cases b <;> simp [b2n]
theorem b2n_inj {a b : Bool} : b2n a = b2n b ↔ a = b := by cases a <;> cases b <;> simp [b2n]

theorem cmpGe_refl (a : Path) : cmpGe a a = true := by
  rw [cmpGe_iff]; omega

theorem cmpGe_total {x y : Path} (h : cmpGe x y = false) : cmpGe y x = true := by
  have h' : ¬ (cmpGe x y = true) := by simp [h]
  rw [cmpGe_iff] at h' ⊢
  omega

theorem cmpGe_trans {x y z : Path} (h1 : cmpGe y x = true) (h2 : cmpGe z y = true) : cmpGe z x = true := by
  rw [cmpGe_iff] at *
  omega

/-- strictly-less is transitive against ≥ : x < a (¬ x ≥ a) and b ≥ a give ¬ x ≥ b -/
theorem cmpGe_lt_of_lt_of_ge {x a b : Path} (h1 : cmpGe x a = false) (h2 : cmpGe b a = true) :
    cmpGe x b = false := by
  have h1' : ¬ (cmpGe x a = true) := by simp [h1]
  apply Bool.eq_false_iff.mpr
  intro hc
  rw [cmpGe_iff] at h1' h2 hc
  omega

/-- the list is in table order: every later element is not better -/
def Sorted (l : List Path) : Prop := l.Pairwise (fun x y => cmpGe y x = true)

theorem mem_insertSorted {e x : Path} {l : List Path} : x ∈ insertSorted e l ↔ x = e ∨ x ∈ l := by
  induction l with
  | nil => simp [insertSorted]
  | cons a t ih =>
    unfold insertSorted
    split
    · simp only [mem_cons, ih]; grind
    · simp only [mem_cons]

theorem insertSorted_perm (e : Path) (l : List Path) : (insertSorted e l).Perm (e :: l) := by
  induction l with
  | nil => simp [insertSorted]
  | cons a t ih =>
    unfold insertSorted
    split
    · exact (Perm.cons a ih).trans (Perm.swap e a t)
    · exact Perm.refl _

theorem insertSorted_sorted {e : Path} {l : List Path} (h : Sorted l) : Sorted (insertSorted e l) := by
  induction l with
  | nil => simp [insertSorted, Sorted]
  | cons a t ih =>
    unfold Sorted at h
    rw [pairwise_cons] at h
    unfold insertSorted
    split
    · rename_i hge
      unfold Sorted
      rw [pairwise_cons]
      refine ⟨?_, ih h.2⟩
      intro y hy
      rcases mem_insertSorted.mp hy with rfl | hy
      · exact hge
      · exact h.1 y hy
    · rename_i hlt
      have hlt : cmpGe e a = false := by simpa using hlt
      unfold Sorted
      rw [pairwise_cons, pairwise_cons]
      refine ⟨?_, h⟩
      intro y hy
      rcases mem_cons.mp hy with rfl | hy
      · exact cmpGe_total hlt
      · exact cmpGe_trans (cmpGe_total hlt) (h.1 y hy)


theorem Sorted.tail {a : Path} {l : List Path} (h : Sorted (a :: l)) : Sorted l := by
  unfold Sorted at *; exact (pairwise_cons.mp h).2

theorem Sorted.filter {l : List Path} (P : Path → Bool) (h : Sorted l) : Sorted (l.filter P) :=
  Pairwise.filter P h

theorem Sorted.sublist {l l' : List Path} (hs : l' <+ l) (h : Sorted l) : Sorted l' :=
  Pairwise.sublist hs h

/-- inserting commutes with filtering a sorted list -/
theorem filter_insertSorted {e : Path} {l : List Path} (P : Path → Bool) (h : Sorted l) :
    (insertSorted e l).filter P = if P e then insertSorted e (l.filter P) else l.filter P := by
  induction l with
  | nil => simp [insertSorted]; split <;> simp_all
  | cons a t ih =>
    have ht := h.tail
    unfold Sorted at h
    rw [pairwise_cons] at h
    by_cases hge : cmpGe e a = true
    · -- e goes after a
      have e1 : insertSorted e (a :: t) = a :: insertSorted e t := by simp [insertSorted, hge]
      rw [e1, filter_cons, ih ht]
      by_cases hpa : P a = true
      · simp only [hpa, if_true, filter_cons]
        split
        · simp [insertSorted, hge]
        · rfl
      · simp only [hpa, filter_cons]
        simp
    · -- e goes before a: every later element is strictly after e
      have hlt : cmpGe e a = false := by simpa using hge
      have e1 : insertSorted e (a :: t) = e :: a :: t := by simp [insertSorted, hlt]
      rw [e1]
      have hall : ∀ y ∈ (a :: t).filter P, cmpGe e y = false := by
        intro y hy
        have hy' := (mem_filter.mp hy).1
        rcases mem_cons.mp hy' with rfl | hy'
        · exact hlt
        · exact cmpGe_lt_of_lt_of_ge hlt (h.1 y hy')
      by_cases hpe : P e = true
      · simp only [hpe, if_true]
        rw [filter_cons]; simp only [hpe, if_true]
        generalize hf : (a :: t).filter P = f at hall
        cases f with
        | nil => simp [insertSorted]
        | cons b f' => simp [insertSorted, hall b (by simp)]
      · rw [filter_cons]; simp [hpe]

theorem insertSorted_append_of_ge {e : Path} {l : List Path} (h : ∀ a ∈ l, cmpGe e a = true) :
    insertSorted e l = l ++ [e] := by
  induction l with
  | nil => simp [insertSorted]
  | cons a t ih =>
    simp only [insertSorted, h a (by simp), if_true, cons_append]
    rw [ih (fun x hx => h x (by simp [hx]))]

theorem foldl_insertSorted_sorted (l acc : List Path) (h : Sorted acc) :
    Sorted (l.foldl (fun acc p => insertSorted p acc) acc) := by
  induction l generalizing acc with
  | nil => simpa
  | cons a t ih => exact ih _ (insertSorted_sorted h)

theorem sortPaths_sorted (l : List Path) : Sorted (sortPaths l) :=
  foldl_insertSorted_sorted l [] (by simp [Sorted])

theorem foldl_insertSorted_of_sorted (l acc : List Path) (h : Sorted (acc ++ l)) :
    l.foldl (fun acc p => insertSorted p acc) acc = acc ++ l := by
  induction l generalizing acc with
  | nil => simp
  | cons a t ih =>
    have h1 : insertSorted a acc = acc ++ [a] := by
      apply insertSorted_append_of_ge
      intro x hx
      unfold Sorted at h
      rw [pairwise_append] at h
      exact h.2.2 x hx a (by simp)
    simp only [foldl_cons, h1]
    rw [ih (acc ++ [a]) (by simpa using h)]
    simp

/-- a stable sort leaves a sorted list alone -/
theorem sortPaths_of_sorted {l : List Path} (h : Sorted l) : sortPaths l = l := by
  have := foldl_insertSorted_of_sorted l [] (by simpa using h)
  simpa [sortPaths] using this

theorem filter_foldl_insertSorted (P : Path → Bool) (l acc : List Path) (h : Sorted acc) :
    (l.foldl (fun acc p => insertSorted p acc) acc).filter P =
      (l.filter P).foldl (fun acc p => insertSorted p acc) (acc.filter P) := by
  induction l generalizing acc with
  | nil => simp
  | cons a t ih =>
    simp only [foldl_cons]
    rw [ih _ (insertSorted_sorted h), filter_insertSorted P h]
    by_cases hpa : P a = true
    · simp [hpa]
    · simp [hpa]

/-- filtering commutes with the stable sort -/
theorem filter_sortPaths (P : Path → Bool) (l : List Path) :
    (sortPaths l).filter P = sortPaths (l.filter P) := by
  simpa [sortPaths] using filter_foldl_insertSorted P l [] (by simp [Sorted])

theorem mem_foldl_insertSorted {x : Path} (l acc : List Path) :
    x ∈ l.foldl (fun acc p => insertSorted p acc) acc ↔ x ∈ l ∨ x ∈ acc := by
  induction l generalizing acc with
  | nil => simp
  | cons a t ih => simp only [foldl_cons, ih, mem_insertSorted, mem_cons]; grind

theorem sortPaths_perm (l : List Path) : (sortPaths l).Perm l := by
  have : ∀ acc : List Path, (l.foldl (fun acc p => insertSorted p acc) acc).Perm (l ++ acc) := by
    induction l with
    | nil => intro acc; simp
    | cons a t ih =>
      intro acc
      simp only [foldl_cons]
      refine (ih _).trans ?_
      refine (Perm.append_left t (insertSorted_perm a acc)).trans ?_
      simp [perm_middle]
  simpa [sortPaths] using this []


-- ---------------------------------------------------------------- extract

theorem extract_none {f : Path → Bool} {l : List Path} (h : extract f l = none) : ∀ a ∈ l, f a = false := by
  induction l with
  | nil => simp
  | cons a t ih =>
    unfold extract at h
    split at h
    · simp at h
    · rename_i hfa
      split at h
      · simp at h
      · rename_i hn
        intro x hx
        rcases mem_cons.mp hx with rfl | hx
        · simpa using hfa
        · exact ih hn x hx

theorem extract_some {f : Path → Bool} {l : List Path} {r : Path} {rest : List Path}
    (h : extract f l = some (r, rest)) : f r = true ∧ l.Perm (r :: rest) ∧ rest <+ l := by
  induction l generalizing rest with
  | nil => simp [extract] at h
  | cons a t ih =>
    unfold extract at h
    split at h
    · rename_i hfa
      simp only [Option.some.injEq, Prod.mk.injEq] at h
      obtain ⟨rfl, rfl⟩ := h
      exact ⟨hfa, Perm.refl _, sublist_cons_self _ _⟩
    · split at h
      · rename_i r' t' hs
        simp only [Option.some.injEq, Prod.mk.injEq] at h
        obtain ⟨rfl, rfl⟩ := h
        obtain ⟨h1, h2, h3⟩ := ih hs
        exact ⟨h1, (Perm.cons a h2).trans (Perm.swap _ _ _), h3.cons_cons a⟩
      · simp at h

theorem extract_filter_of_not {f P : Path → Bool} {l : List Path} {r : Path} {rest : List Path}
    (h : extract f l = some (r, rest)) (hp : P r = false) : rest.filter P = l.filter P := by
  induction l generalizing rest with
  | nil => simp [extract] at h
  | cons a t ih =>
    unfold extract at h
    split at h
    · simp only [Option.some.injEq, Prod.mk.injEq] at h
      obtain ⟨rfl, rfl⟩ := h
      simp [hp]
    · split at h
      · rename_i r' t' hs
        simp only [Option.some.injEq, Prod.mk.injEq] at h
        obtain ⟨rfl, rfl⟩ := h
        simp [filter_cons, ih hs]
      · simp at h

theorem extract_mem {f : Path → Bool} {l : List Path} {r : Path} {rest : List Path}
    (h : extract f l = some (r, rest)) : r ∈ l ∧ ∀ x ∈ rest, x ∈ l := by
  obtain ⟨_, h2, h3⟩ := extract_some h
  exact ⟨h2.mem_iff.mpr (by simp), fun x hx => h3.subset hx⟩

-- ---------------------------------------------------------------- eligible / best

def elig (p : Path) : Bool := !p.flt && !p.inv

theorem eligible_eq (l : List Path) : eligible l = l.filter elig := rfl

theorem bestKey_none {l : List Path} : bestKey l = none ↔ eligible l = [] := by
  unfold bestKey
  cases h : eligible l <;> simp

theorem bestId_none {l : List Path} : bestId l = none ↔ eligible l = [] := by
  unfold bestId
  cases h : eligible l <;> simp

theorem head?_isSome_false {l : List Path} : l.head?.isSome = false ↔ l = [] := by
  cases l <;> simp

theorem eligible_insertSorted {e : Path} {l : List Path} (h : Sorted l) :
    eligible (insertSorted e l) = if elig e then insertSorted e (eligible l) else eligible l := by
  simp only [eligible_eq]; exact filter_insertSorted elig h

theorem Sorted.eligible {l : List Path} (h : Sorted l) : Sorted (eligible l) := h.filter _

/-- `NlriChange` is sent to the kernel handle -/
def sent (c : Change) : Bool := c.bestChanged || (c.anyChanged && c.paths.head?.isSome)

/-- What every table function guarantees about the change it reports for destination `p`:
    the change carries the new eligible list, and when no FIB request results the eligible list
    is the old one. -/
def ChOK (p : Pfx) (ps ps' : List Path) : Option Change → Prop
  | some c => c.pfx = p ∧ c.paths = eligible ps' ∧ (sent c = false → eligible ps' = eligible ps)
  | none => eligible ps' = eligible ps

theorem bne_false_none {α} [BEq α] [LawfulBEq α] {a b : Option α} (h : (a != b) = false) (hb : b = none) : a = none := by
  have : a = b := by simpa using h
  rw [this, hb]

theorem chOK_mk {p : Pfx} {ps ps' : List Path} {bc ac : Bool}
    (hbc : bc = false → eligible ps' = [] → eligible ps = [])
    (hne : bc = false → ac = false → eligible ps' = eligible ps) :
    ChOK p ps ps' (if !bc && !ac then none else some (mkChange p bc ac ps')) := by
  cases bc <;> cases ac <;> simp [ChOK, mkChange, sent] at *
  · exact hne
  · intro h
    rw [h, hbc h]


-- ---------------------------------------------------------------- per-destination table functions

theorem insertPaths_spec (p : Pfx) {ps : List Path} (e : Path) (hs : Sorted ps) :
    Sorted (insertPaths p ps e).1 ∧ ChOK p ps (insertPaths p ps e).1 (insertPaths p ps e).2 := by
  unfold insertPaths
  split
  · dsimp only
    rename_i r rest hx
    obtain ⟨_, _, hsub⟩ := extract_some hx
    have hsr : Sorted rest := hs.sublist hsub
    refine ⟨insertSorted_sorted hsr, ?_⟩
    apply chOK_mk
    · intro hbc hnil
      exact bestKey_none.mp (bne_false_none hbc (bestKey_none.mpr hnil))
    · intro _ hac
      have hac' : e.flt = true ∧ r.flt = true := by simpa using hac
      rw [eligible_insertSorted hsr]
      have : elig { e with uid := r.uid } = false := by simp [elig, hac'.1]
      simp only [this]
      simp only [eligible_eq]
      exact extract_filter_of_not hx (by simp [elig, hac'.2])
  · dsimp only
    rename_i hx
    refine ⟨insertSorted_sorted hs, ?_⟩
    apply chOK_mk
    · intro hbc hnil
      exact bestKey_none.mp (bne_false_none hbc (bestKey_none.mpr hnil))
    · intro _ hac
      have hac' : e.flt = true := by simpa using hac
      rw [eligible_insertSorted hs]
      have : elig e = false := by simp [elig, hac']
      simp [this]

theorem removePaths_spec (p : Pfx) {ps : List Path} (src pid : Nat) (hs : Sorted ps)
    {rest : List Path} {ch : Option Change} {nh : Addr}
    (h : removePaths p ps src pid = some (rest, ch, nh)) :
    Sorted rest ∧ ChOK p ps rest ch := by
  unfold removePaths at h
  split at h
  · simp at h
  · rename_i r rest' hx
    obtain ⟨_, hperm, hsub⟩ := extract_some hx
    dsimp only at h
    split at h
    · rename_i hemp
      simp only [Option.some.injEq, Prod.mk.injEq] at h
      obtain ⟨rfl, rfl, rfl⟩ := h
      have hnil : rest' = [] := by simpa using hemp
      subst hnil
      refine ⟨by simp [Sorted], ?_⟩
      by_cases hf : r.flt = true
      · simp only [hf, Bool.not_true, ChOK]
        have : ps.filter elig = ([] : List Path).filter elig := (extract_filter_of_not hx (by simp [elig, hf])).symm
        simpa [eligible_eq] using this.symm
      · have hf' : r.flt = false := by simpa using hf
        simp [hf', ChOK, sent, eligible]
    · simp only [Option.some.injEq, Prod.mk.injEq] at h
      obtain ⟨rfl, rfl, rfl⟩ := h
      refine ⟨hs.sublist hsub, ?_⟩
      apply chOK_mk
      · intro hbc hnil
        exact bestKey_none.mp (bne_false_none hbc (bestKey_none.mpr hnil))
      · intro _ hac
        have hac' : r.flt = true := by simpa using hac
        simp only [eligible_eq]
        exact extract_filter_of_not hx (by simp [elig, hac'])

theorem filter_filter_of_imp {P Q : Path → Bool} {l : List Path} (h : ∀ x ∈ l, P x = true → Q x = true) :
    (l.filter Q).filter P = l.filter P := by
  rw [filter_filter]
  apply filter_congr
  intro x hx
  cases hp : P x
  · simp
  · simp [h x hx hp]

theorem dropPaths_spec (p : Pfx) {ps : List Path} (sel : Path → Bool) (hs : Sorted ps) :
    Sorted (dropPaths p ps sel).1 ∧ ChOK p ps (dropPaths p ps sel).1 (dropPaths p ps sel).2.1 := by
  unfold dropPaths
  split
  · exact ⟨hs, rfl⟩
  · dsimp only
    split
    · rename_i hno
      refine ⟨hs.filter _, ?_⟩
      simp only [ChOK, eligible_eq]
      apply filter_filter_of_imp
      intro x hx hel
      cases hsx : sel x
      · simp
      · exfalso
        have hel' : x.flt = false ∧ x.inv = false := by simpa [elig] using hel
        have : (ps.any fun e => sel e && (!e.flt && !e.inv)) = true :=
          any_eq_true.mpr ⟨x, hx, by simp [hsx, hel'.1, hel'.2]⟩
        simp [this] at hno
    · split
      · rename_i hemp
        have hnil : ps.filter (fun e => !sel e) = [] := by simpa using hemp
        refine ⟨hs.filter _, ?_⟩
        simp [ChOK, sent, hnil, eligible]
      · refine ⟨hs.filter _, ?_⟩
        have := @chOK_mk p ps (ps.filter (fun e => !sel e)) (bestId ps != bestId (ps.filter (fun e => !sel e))) true
          (by intro hbc hnil; exact bestId_none.mp (bne_false_none hbc (bestId_none.mpr hnil)))
          (by intro _ h; simp at h)
        simpa using this

theorem filter_map_of_fix {P : Path → Bool} {g : Path → Path} {l : List Path}
    (h : ∀ x ∈ l, g x = x ∨ (P x = false ∧ P (g x) = false)) : (l.map g).filter P = l.filter P := by
  induction l with
  | nil => simp
  | cons a t ih =>
    have iht := ih (fun x hx => h x (by simp [hx]))
    rcases h a (by simp) with ha | ⟨h1, h2⟩
    · simp [filter_cons, ha, iht]
    · simp [filter_cons, h1, h2, iht]

theorem chOK_restale {p : Pfx} {ps S : List Path} {bc anyUnf : Bool}
    (hbc : bc = false → eligible S = [] → eligible ps = [])
    (hne : bc = false → anyUnf = false → eligible S = eligible ps) :
    ChOK p ps S (if bc || anyUnf then some (mkChange p bc anyUnf S) else none) := by
  cases bc <;> cases anyUnf <;> simp [ChOK, mkChange, sent] at *
  · exact hne
  · intro h
    rw [h, hbc h]

theorem restalePaths_spec (p : Pfx) {ps : List Path} (k : Nat) (hs : Sorted ps) :
    Sorted (restalePaths p ps k).1 ∧ ChOK p ps (restalePaths p ps k).1 (restalePaths p ps k).2 := by
  unfold restalePaths
  split
  · exact ⟨hs, rfl⟩
  · dsimp only
    refine ⟨sortPaths_sorted _, ?_⟩
    apply chOK_restale
    · intro hbc hnil
      exact bestId_none.mp (bne_false_none hbc (bestId_none.mpr hnil))
    · intro _ hany
      simp only [eligible_eq]
      rw [filter_sortPaths]
      have hmap : (ps.map fun e => if fromAddr k e then { e with stale := true } else e).filter elig = ps.filter elig := by
        apply filter_map_of_fix
        intro x hx
        by_cases hf : fromAddr k x = true
        · right
          have hflt : x.flt = true := by
            cases h : x.flt
            · exfalso
              have : (ps.any fun e => fromAddr k e && !e.flt) = true :=
                any_eq_true.mpr ⟨x, hx, by simp [hf, h]⟩
              simp [this] at hany
            · rfl
          simp [elig, hf, hflt]
        · left; simp [hf]
      rw [hmap]
      exact sortPaths_of_sorted (hs.filter _)

theorem Sorted.map_of_cmp {g : Path → Path} {l : List Path} (h : Sorted l)
    (hg : ∀ x y, cmpGe (g y) (g x) = cmpGe y x) : Sorted (l.map g) := by
  unfold Sorted at *
  rw [pairwise_map]
  exact h.imp (fun {a b} hab => by rw [hg]; exact hab)

theorem cmpGe_congr {x y x' y' : Path}
    (hx : x'.lp = x.lp ∧ x'.eb = x.eb ∧ x'.stale = x.stale ∧ x'.cl = x.cl ∧ x'.rid = x.rid)
    (hy : y'.lp = y.lp ∧ y'.eb = y.eb ∧ y'.stale = y.stale ∧ y'.cl = y.cl ∧ y'.rid = y.rid) :
    cmpGe y' x' = cmpGe y x := by
  unfold cmpGe cmpPath
  rw [hx.1, hx.2.1, hx.2.2.1, hx.2.2.2.1, hx.2.2.2.2, hy.1, hy.2.1, hy.2.2.1, hy.2.2.2.1, hy.2.2.2.2]

theorem validityPaths_spec (p : Pfx) {ps : List Path} (a : Addr) (r : Bool) (hs : Sorted ps) :
    Sorted (validityPaths p ps a r).1 ∧ ChOK p ps (validityPaths p ps a r).1 (validityPaths p ps a r).2 := by
  unfold validityPaths
  dsimp only
  split
  · exact ⟨hs, rfl⟩
  · refine ⟨?_, ?_⟩
    · apply hs.map_of_cmp
      intro x y
      apply cmpGe_congr <;> (split <;> simp)
    · have := @chOK_mk p ps (ps.map fun e => if e.nh == a then { e with inv := !r } else e)
        (bestKey ps != bestKey (ps.map fun e => if e.nh == a then { e with inv := !r } else e)) true
        (by intro hbc hnil; exact bestKey_none.mp (bne_false_none hbc (bestKey_none.mpr hnil)))
        (by intro _ h; simp at h)
      simpa using this


-- ---------------------------------------------------------------- replaying FIB requests
open Spec

abbrev Key := Nat × Pfx

theorem find?_filter_ne {κ β} [BEq κ] [LawfulBEq κ] [DecidableEq κ] (f : List (κ × β)) (k k' : κ) :
    (f.filter (fun e => !(e.1 == k))).find? (fun e => e.1 == k') =
      if k' = k then none else f.find? (fun e => e.1 == k') := by
  induction f with
  | nil => simp
  | cons a t ih =>
    rw [filter_cons, find?_cons]
    by_cases ha : a.1 = k
    · have e1 : (a.1 == k) = true := by simp [ha]
      simp only [e1, Bool.not_true, Bool.false_eq_true, if_false, ih]
      by_cases hk : k' = k
      · simp [hk]
      · have e2 : (a.1 == k') = false := by
          apply beq_eq_false_iff_ne.mpr
          rw [ha]; exact fun h => hk h.symm
        simp [hk, e2]
    · have e1 : (a.1 == k) = false := beq_eq_false_iff_ne.mpr ha
      simp only [e1, Bool.not_false, if_true, find?_cons, ih]
      by_cases ha' : a.1 = k'
      · have e2 : (a.1 == k') = true := by simp [ha']
        have hk : ¬ k' = k := by rw [← ha']; exact ha
        simp [e2, hk]
      · have e2 : (a.1 == k') = false := beq_eq_false_iff_ne.mpr ha'
        simp [e2]

theorem fibGet_apply (f : Fib) (r : FibReq) (t : Nat) (q : Pfx) :
    fibGet (fibApply f r) t q = if (r.table, r.pfx) = (t, q) then r.nhs else fibGet f t q := by
  unfold fibGet fibApply
  by_cases h : (r.table, r.pfx) = (t, q)
  · simp [h]
  · have h' : ¬ (t, q) = (r.table, r.pfx) := fun e => h e.symm
    rw [find?_cons]
    have : ((r.table, r.pfx) == (t, q)) = false := by simpa using h
    simp only [this, find?_filter_ne, h', if_false, h]

/-- next hops of the last request for a key, if any -/
def lastNhs : List FibReq → Key → Option (List Addr)
  | [], _ => none
  | r :: rs, k =>
    match lastNhs rs k with
    | some n => some n
    | none => if (r.table, r.pfx) = k then some r.nhs else none

theorem fibGet_replay (fib : Fib) (rs : List FibReq) (t : Nat) (q : Pfx) :
    fibGet (fibReplay fib rs) t q = (lastNhs rs (t, q)).getD (fibGet fib t q) := by
  induction rs generalizing fib with
  | nil => simp [fibReplay, lastNhs]
  | cons r rs ih =>
    have : fibReplay fib (r :: rs) = fibReplay (fibApply fib r) rs := by simp [fibReplay]
    rw [this, ih, fibGet_apply]
    simp only [lastNhs]
    cases h : lastNhs rs (t, q) with
    | some n => simp
    | none =>
      by_cases hk : (r.table, r.pfx) = (t, q)
      · simp [hk]
      · simp [hk]

theorem lastNhs_append (a b : List FibReq) (k : Key) :
    lastNhs (a ++ b) k = (lastNhs b k).or (lastNhs a k) := by
  induction a with
  | nil => simp [lastNhs]
  | cons r a ih =>
    simp only [cons_append, lastNhs, ih]
    cases hb : lastNhs b k <;> cases ha : lastNhs a k <;> simp

theorem lastNhs_none_of_forall {rs : List FibReq} {k : Key} (h : ∀ r ∈ rs, (r.table, r.pfx) ≠ k) :
    lastNhs rs k = none := by
  induction rs with
  | nil => simp [lastNhs]
  | cons r rs ih =>
    simp only [lastNhs, ih (fun x hx => h x (by simp [hx]))]
    simp [h r (by simp)]

/-- when every request for key `k` in the list carries the same next hops -/
theorem lastNhs_const {rs : List FibReq} {k : Key} {n : List Addr}
    (h : ∀ r ∈ rs, (r.table, r.pfx) = k → r.nhs = n) :
    lastNhs rs k = if rs.any (fun r => (r.table, r.pfx) == k) then some n else none := by
  induction rs with
  | nil => simp [lastNhs]
  | cons r rs ih =>
    have iht := ih (fun x hx => h x (by simp [hx]))
    simp only [lastNhs, iht, any_cons]
    by_cases hany : (rs.any fun r => (r.table, r.pfx) == k) = true
    · simp [hany]
    · have hany' : (rs.any fun r => (r.table, r.pfx) == k) = false := by simpa using hany
      simp only [hany', if_false, Bool.or_false]
      by_cases hk : (r.table, r.pfx) = k
      · simp [hk, h r (by simp) hk]
      · simp [hk]


-- ---------------------------------------------------------------- requests of `distribute`
open Codec

theorem fibReqs_append (a b : List Req) : fibReqs (a ++ b) = fibReqs a ++ fibReqs b := by
  induction a with
  | nil => simp [fibReqs]
  | cons r a ih => cases r <;> simp [fibReqs, ih]

theorem nhtReqs_append (a b : List Req) : nhtReqs (a ++ b) = nhtReqs a ++ nhtReqs b := by
  induction a with
  | nil => simp [nhtReqs]
  | cons r a ih => cases r <;> simp [nhtReqs, ih]

theorem mem_fibReqs {rs : List Req} {x : FibReq} : x ∈ fibReqs rs ↔ Req.apply x.table x.pfx x.nhs ∈ rs := by
  induction rs with
  | nil => simp [fibReqs]
  | cons r rs ih =>
    cases r with
    | apply t q n =>
      simp only [fibReqs, mem_cons, ih, Req.apply.injEq]
      constructor
      · rintro (h | h)
        · left; subst h; simp
        · right; exact h
      · rintro (h | h)
        · left; cases x; simp_all
        · right; exact h
    | reg a => simp [fibReqs, ih]
    | unreg a => simp [fibReqs, ih]

theorem fibReqs_nil_of_no_apply {rs : List Req} (h : ∀ r ∈ rs, ∀ t q n, r ≠ Req.apply t q n) : fibReqs rs = [] := by
  induction rs with
  | nil => simp [fibReqs]
  | cons r rs ih =>
    cases r with
    | apply t q n => exact absurd rfl (h _ (by simp) t q n)
    | reg a => simp [fibReqs, ih (fun x hx => h x (by simp [hx]))]
    | unreg a => simp [fibReqs, ih (fun x hx => h x (by simp [hx]))]

theorem nhtReqs_nil_of_apply {rs : List Req} (h : ∀ r ∈ rs, ∃ t q n, r = Req.apply t q n) : nhtReqs rs = [] := by
  induction rs with
  | nil => simp [nhtReqs]
  | cons r rs ih =>
    obtain ⟨t, q, n, rfl⟩ := h r (by simp)
    simp [nhtReqs, ih (fun x hx => h x (by simp [hx]))]

/-- the next hops a FIB request for the eligible list `E` carries -/
def want (E : List Path) : List Addr := (ecmpPaths E).map (·.nh)

theorem want_nil : want [] = [] := rfl
theorem want_cons_ne (b : Path) (t : List Path) : want (b :: t) ≠ [] := by
  simp [want, ecmpPaths, takeWhile_cons]

/-- the cells of the replayed FIB that belong to prefix `p` -/
def owned (p : Pfx) (k : Key) : Prop := k = (0, p) ∨ (p.isVpn = true ∧ k.1 ≠ 0 ∧ k.2 = p.local)

theorem owned_inj {p q : Pfx} {k : Key} (hp : owned p k) (hq : owned q k) : p = q := by
  rcases hp with rfl | ⟨hv, h0, hl⟩
  · rcases hq with h | ⟨_, h0', _⟩
    · simpa using h
    · simp at h0'
  · rcases hq with rfl | ⟨hv', _, hl'⟩
    · simp at h0
    · cases p; cases q
      simp only [Pfx.isVpn, beq_iff_eq] at hv hv'
      simp only [Pfx.local] at hl hl'
      rw [hl] at hl'
      simp_all

theorem changeNhs_eq (c : Change) : changeNhs c = want c.paths := by
  unfold changeNhs
  cases h : c.paths <;> simp [want, ecmpPaths]

theorem distribute_all_apply (cfg : Cfg) (c : Change) :
    ∀ r ∈ distribute cfg c, ∃ t q, r = Req.apply t q (want c.paths) ∧ owned c.pfx (t, q) ∧ sent c = true := by
  intro r hr
  unfold distribute at hr
  split at hr
  · rename_i hs
    rw [changeNhs_eq] at hr
    rcases mem_cons.mp hr with rfl | hr
    · exact ⟨0, c.pfx, rfl, Or.inl rfl, hs⟩
    · split at hr
      · rename_i hv
        obtain ⟨v, _, hv2⟩ := mem_filterMap.mp hr
        split at hv2
        · simp at hv2
        · rename_i ht
          split at hv2
          · simp only [Option.some.injEq] at hv2
            subst hv2
            exact ⟨v.tid, c.pfx.local, rfl, Or.inr ⟨hv, by simpa using ht, rfl⟩, hs⟩
          · simp at hv2
      · simp at hr
  · simp at hr

theorem distribute_main_mem (cfg : Cfg) (c : Change) (hs : sent c = true) :
    Req.apply 0 c.pfx (want c.paths) ∈ distribute cfg c := by
  unfold distribute
  have hs' : (c.bestChanged || c.anyChanged && c.paths.head?.isSome) = true := hs
  simp only [hs', if_true, changeNhs_eq]
  simp

theorem distribute_vrf_mem (cfg : Cfg) (c : Change) (hs : sent c = true) (hv : c.pfx.isVpn = true)
    {v : Vrf} (hmem : v ∈ cfg.vrfs) (ht : v.tid ≠ 0)
    (hc : want c.paths = [] ∨ ∃ b t, c.paths = b :: t ∧ canImport v b.rts = true) :
    Req.apply v.tid c.pfx.local (want c.paths) ∈ distribute cfg c := by
  unfold distribute
  have hs' : (c.bestChanged || c.anyChanged && c.paths.head?.isSome) = true := hs
  simp only [hs', if_true, changeNhs_eq, hv]
  apply mem_cons_of_mem
  apply mem_filterMap.mpr
  refine ⟨v, hmem, ?_⟩
  have ht' : (v.tid == 0) = false := by simpa using ht
  simp only [ht', Bool.false_eq_true, if_false]
  rcases hc with hc | ⟨b, t, hc, himp⟩
  · simp [hc]
  · simp [bestImports, hc, himp]

/-- Effect of replaying the FIB requests of one change on any cell. -/
theorem fibGet_distribute (cfg : Cfg) (fib : Fib) (c : Change) (t : Nat) (q : Pfx) :
    fibGet (fibReplay fib (fibReqs (distribute cfg c))) t q =
      if Req.apply t q (want c.paths) ∈ distribute cfg c then want c.paths else fibGet fib t q := by
  rw [fibGet_replay]
  have hconst : ∀ r ∈ fibReqs (distribute cfg c), (r.table, r.pfx) = (t, q) → r.nhs = want c.paths := by
    intro r hr _
    obtain ⟨t', q', he, _, _⟩ := distribute_all_apply cfg c _ (mem_fibReqs.mp hr)
    simp only [Req.apply.injEq] at he
    exact he.2.2
  rw [lastNhs_const hconst]
  by_cases hm : Req.apply t q (want c.paths) ∈ distribute cfg c
  · have : (fibReqs (distribute cfg c)).any (fun r => (r.table, r.pfx) == (t, q)) = true := by
      apply any_eq_true.mpr
      exact ⟨⟨t, q, want c.paths⟩, mem_fibReqs.mpr hm, by simp⟩
    simp [this, hm]
  · have : (fibReqs (distribute cfg c)).any (fun r => (r.table, r.pfx) == (t, q)) = false := by
      apply Bool.eq_false_iff.mpr
      intro h
      obtain ⟨r, hr, hk⟩ := any_eq_true.mp h
      have hk' : (r.table, r.pfx) = (t, q) := by simpa using hk
      have hn := hconst r hr hk'
      apply hm
      have := mem_fibReqs.mp hr
      simp only [Prod.mk.injEq] at hk'
      rw [hk'.1, hk'.2, hn] at this
      exact this
    simp [this, hm]


-- ---------------------------------------------------------------- FIB cells of one prefix

/-- The replayed FIB is in step with the eligible list `E` of prefix `p`: main table, and for a VPN
    prefix every VRF with a table. -/
structure CellsOK (cfg : Cfg) (fib : Fib) (p : Pfx) (E : List Path) : Prop where
  main : fibGet fib 0 p = want E
  vrfNil : p.isVpn = true → E = [] → ∀ v ∈ cfg.vrfs, v.tid ≠ 0 → fibGet fib v.tid p.local = []
  vrfImp : p.isVpn = true → ∀ b t, E = b :: t → ∀ v ∈ cfg.vrfs, v.tid ≠ 0 →
    canImport v b.rts = true → fibGet fib v.tid p.local = want E

/-- `CellsOK` only reads the cells owned by the prefix. -/
theorem CellsOK.transfer {cfg : Cfg} {fib fib' : Fib} {p : Pfx} {E : List Path} (h : CellsOK cfg fib p E)
    (hag : ∀ k, owned p k → fibGet fib' k.1 k.2 = fibGet fib k.1 k.2) : CellsOK cfg fib' p E := by
  refine ⟨?_, ?_, ?_⟩
  · rw [hag (0, p) (Or.inl rfl)]; exact h.main
  · intro hv he v hm ht
    rw [hag (v.tid, p.local) (Or.inr ⟨hv, ht, rfl⟩)]; exact h.vrfNil hv he v hm ht
  · intro hv b t he v hm ht hi
    rw [hag (v.tid, p.local) (Or.inr ⟨hv, ht, rfl⟩)]; exact h.vrfImp hv b t he v hm ht hi

theorem distOpt_owned (cfg : Cfg) {p : Pfx} {ps ps' : List Path} {ch : Option Change} (hc : ChOK p ps ps' ch) :
    ∀ r ∈ fibReqs (distOpt cfg ch), owned p (r.table, r.pfx) := by
  intro r hr
  cases ch with
  | none => simp [distOpt, fibReqs] at hr
  | some c =>
    obtain ⟨t, q, he, ho, _⟩ := distribute_all_apply cfg c _ (mem_fibReqs.mp hr)
    simp only [Req.apply.injEq] at he
    rw [he.1, he.2.1, ← hc.1]; exact ho

/-- Replaying the FIB requests caused by a change of destination `p` re-establishes `CellsOK`. -/
theorem cells_distOpt (cfg : Cfg) {fib : Fib} {p : Pfx} {ps ps' : List Path} {ch : Option Change}
    (hc : ChOK p ps ps' ch) (h : CellsOK cfg fib p (eligible ps)) :
    CellsOK cfg (fibReplay fib (fibReqs (distOpt cfg ch))) p (eligible ps') := by
  cases ch with
  | none =>
    simp only [ChOK] at hc
    rw [hc]; simpa [distOpt, fibReqs, fibReplay] using h
  | some c =>
    obtain ⟨hp, hpaths, hun⟩ := hc
    simp only [distOpt]
    cases hs : sent c with
    | false =>
      have hnil : distribute cfg c = [] := by
        unfold distribute
        have : (c.bestChanged || c.anyChanged && c.paths.head?.isSome) = false := hs
        simp [this]
      rw [hnil, hun hs]; simpa [fibReqs, fibReplay] using h
    | true =>
      subst hp
      rw [← hpaths]
      refine ⟨?_, ?_, ?_⟩
      · rw [fibGet_distribute]; simp [distribute_main_mem cfg c hs]
      · intro hv he v hm ht
        rw [fibGet_distribute]
        have := distribute_vrf_mem cfg c hs hv hm ht (Or.inl (by rw [he]; rfl))
        rw [if_pos this, he]; rfl
      · intro hv b t he v hm ht hi
        rw [fibGet_distribute]
        have := distribute_vrf_mem cfg c hs hv hm ht (Or.inr ⟨b, t, he, hi⟩)
        simp [this]


-- ---------------------------------------------------------------- reference counts

theorem refGet_refSet (r : Refs) (a b : Addr) (n : Nat) :
    refGet (refSet r a n) b = if b = a then n else refGet r b := by
  unfold refGet refSet
  by_cases h : b = a
  · subst h; simp
  · have h' : ¬ a = b := fun e => h e.symm
    rw [find?_cons]
    have : (a == b) = false := by simpa using h'
    simp only [this, find?_filter_ne, h, if_false]

theorem refReplay_append (r : Refs) (a b : List (Bool × Addr)) :
    refReplay r (a ++ b) = (refReplay r a).bind (fun r' => refReplay r' b) := by
  induction a generalizing r with
  | nil => simp [refReplay]
  | cons x a ih =>
    obtain ⟨k, ad⟩ := x
    cases k
    · simp only [cons_append, refReplay]
      split
      · simp
      · exact ih _
    · simp only [cons_append, refReplay]; exact ih _

/-- number of peer-learned paths of a destination using next hop `a` -/
def usesPaths (a : Addr) (ps : List Path) : Nat := (ps.filter (fun p => isPeer p.src && p.nh == a)).length

theorem usesPaths_perm {a : Addr} {l l' : List Path} (h : l.Perm l') : usesPaths a l = usesPaths a l' :=
  (h.filter _).length_eq

theorem usesPaths_cons (a : Addr) (x : Path) (l : List Path) :
    usesPaths a (x :: l) = usesPaths a l + (if isPeer x.src = true ∧ x.nh = a then 1 else 0) := by
  unfold usesPaths
  by_cases h : isPeer x.src = true ∧ x.nh = a
  · simp [filter_cons, h.1, h.2]
  · have : (isPeer x.src && x.nh == a) = false := by
      cases h1 : isPeer x.src <;> simp_all
    simp [filter_cons, this, h]

theorem usesPaths_map {a : Addr} {g : Path → Path} {l : List Path}
    (hg : ∀ x, (g x).src = x.src ∧ (g x).nh = x.nh) : usesPaths a (l.map g) = usesPaths a l := by
  induction l with
  | nil => rfl
  | cons x l ih => simp [usesPaths_cons, ih, hg x]

/-- replay of `register new; unregister old?` -/
theorem refReplay_reg_unreg {refs : Refs} {c : Addr → Nat} (nh : Addr) (old : Option Addr)
    (h : ∀ a, refGet refs a = c a + (match old with | some o => if a = o then 1 else 0 | none => 0)) :
    ∃ refs', refReplay refs ((true, nh) :: (match old with | some o => [(false, o)] | none => [])) = some refs' ∧
      ∀ a, refGet refs' a = c a + (if a = nh then 1 else 0) := by
  cases old with
  | none =>
    have e : refReplay refs [(true, nh)] = some (refSet refs nh (refGet refs nh + 1)) := by simp [refReplay]
    refine ⟨_, e, ?_⟩
    intro a
    rw [refGet_refSet]
    have := h a
    have hn := h nh
    simp only at this hn
    by_cases ha : a = nh
    · subst ha; simp; omega
    · simp [ha]; omega
  | some o =>
    have ho := h o
    simp only [if_true] at ho
    have hne : refGet (refSet refs nh (refGet refs nh + 1)) o ≠ 0 := by
      rw [refGet_refSet]; split <;> omega
    have e : refReplay refs [(true, nh), (false, o)] = some (refSet (refSet refs nh (refGet refs nh + 1)) o
        (refGet (refSet refs nh (refGet refs nh + 1)) o - 1)) := by simp [refReplay, hne]
    refine ⟨_, e, ?_⟩
    intro a
    simp only [refGet_refSet]
    have ha := h a
    have hn := h nh
    simp only at ha hn
    by_cases h1 : a = o <;> by_cases h2 : a = nh <;> by_cases h3 : o = nh <;>
      simp [h1, h2, h3] at ha hn ho ⊢ <;> (try subst_vars) <;> (try simp_all) <;> omega

def countAddr (a : Addr) (l : List Addr) : Nat := (l.filter (· == a)).length

theorem refReplay_unregs {refs : Refs} {c : Addr → Nat} (l : List Addr)
    (h : ∀ a, refGet refs a = c a + countAddr a l) :
    ∃ refs', refReplay refs (l.map (fun a => (false, a))) = some refs' ∧ ∀ a, refGet refs' a = c a := by
  induction l generalizing refs with
  | nil => exact ⟨refs, by simp [refReplay], by intro a; simpa [countAddr] using h a⟩
  | cons x l ih =>
    have hx := h x
    have hne : refGet refs x ≠ 0 := by simp [countAddr] at hx; omega
    simp only [map_cons, refReplay, hne, if_false]
    apply ih
    intro a
    rw [refGet_refSet]
    have := h a
    by_cases ha : a = x
    · subst ha; simp [countAddr] at this ⊢; omega
    · have hxa : ¬ x = a := fun e => ha e.symm
      simp [ha, countAddr, filter_cons, hxa] at this ⊢; omega

end Rbgp.Fib
