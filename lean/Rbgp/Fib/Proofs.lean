import Rbgp.Fib.Model
import Rbgp.Fib.Spec
import Rbgp.Fib.Codec
namespace Rbgp.Fib
open List

theorem then_ne_lt (x y : Nat) (o : Ordering) :
    ((compare x y).then o ≠ Ordering.lt) ↔ (y < x ∨ (x = y ∧ o ≠ .lt)) := by
  rcases Nat.lt_trichotomy x y with h | h | h
  · simp [Nat.compare_eq_lt.mpr h, Ordering.then]; omega
  · simp [Ordering.then, h]
  · simp [Nat.compare_eq_gt.mpr h, Ordering.then]; omega

theorem cmp_ne_lt (x y : Nat) : (compare x y ≠ Ordering.lt) ↔ y ≤ x := by
  rcases Nat.lt_trichotomy x y with h | h | h
  · simp [Nat.compare_eq_lt.mpr h]; omega
  · simp [h]
  · simp [Nat.compare_eq_gt.mpr h]; omega

theorem cmpGe_iff (e a : Path) : cmpGe e a = true ↔
    (b2n a.isLl < b2n e.isLl ∨ (b2n e.isLl = b2n a.isLl ∧
    (e.lp < a.lp ∨ (a.lp = e.lp ∧
    (a.asl < e.asl ∨ (e.asl = a.asl ∧
    (a.org < e.org ∨ (e.org = a.org ∧
    (b2n e.eb < b2n a.eb ∨ (b2n a.eb = b2n e.eb ∧
      (b2n a.stale < b2n e.stale ∨ (b2n e.stale = b2n a.stale ∧
        (a.cl < e.cl ∨ (e.cl = a.cl ∧ a.rid ≤ e.rid)))))))))))))) := by
  unfold cmpGe cmpPath
  simp only [bne_iff_ne, then_ne_lt, cmp_ne_lt]

theorem b2n_le (b : Bool) : b2n b ≤ 1 := by cases b <;> simp [b2n]
theorem b2n_inj {a b : Bool} : b2n a = b2n b ↔ a = b := by cases a <;> cases b <;> simp [b2n]

theorem cmpGe_refl (a : Path) : cmpGe a a = true := by
  rw [cmpGe_iff]; omega

theorem cmpGe_total {x y : Path} (h : cmpGe x y = false) : cmpGe y x = true := by
  have h' : ¬ (cmpGe x y = true) := by simp [h]
  rw [cmpGe_iff] at h' ⊢
  omega

theorem cmpGe_trans {x y z : Path} (h1 : cmpGe y x = true) (h2 : cmpGe z y = true) : cmpGe z x = true := by
  rw [cmpGe_iff] at *
  omega

/-- strictly-less is transitive against ≥ : x < a (¬ x ≥ a) and b ≥ a give ¬ x ≥ b -/
theorem cmpGe_lt_of_lt_of_ge {x a b : Path} (h1 : cmpGe x a = false) (h2 : cmpGe b a = true) :
    cmpGe x b = false := by
  have h1' : ¬ (cmpGe x a = true) := by simp [h1]
  apply Bool.eq_false_iff.mpr
  intro hc
  rw [cmpGe_iff] at h1' h2 hc
  omega

/-- the list is in table order: every later element is not better -/
def Sorted (l : List Path) : Prop := l.Pairwise (fun x y => cmpGe y x = true)

theorem mem_insertSorted {e x : Path} {l : List Path} : x ∈ insertSorted e l ↔ x = e ∨ x ∈ l := by
  induction l with
  | nil => simp [insertSorted]
  | cons a t ih =>
    unfold insertSorted
    split
    · simp only [mem_cons, ih]; grind
    · simp only [mem_cons]

theorem insertSorted_perm (e : Path) (l : List Path) : (insertSorted e l).Perm (e :: l) := by
  induction l with
  | nil => simp [insertSorted]
  | cons a t ih =>
    unfold insertSorted
    split
    · exact (Perm.cons a ih).trans (Perm.swap e a t)
    · exact Perm.refl _

theorem insertSorted_sorted {e : Path} {l : List Path} (h : Sorted l) : Sorted (insertSorted e l) := by
  induction l with
  | nil => simp [insertSorted, Sorted]
  | cons a t ih =>
    unfold Sorted at h
    rw [pairwise_cons] at h
    unfold insertSorted
    split
    · rename_i hge
      unfold Sorted
      rw [pairwise_cons]
      refine ⟨?_, ih h.2⟩
      intro y hy
      rcases mem_insertSorted.mp hy with rfl | hy
      · exact hge
      · exact h.1 y hy
    · rename_i hlt
      have hlt : cmpGe e a = false := by simpa using hlt
      unfold Sorted
      rw [pairwise_cons, pairwise_cons]
      refine ⟨?_, h⟩
      intro y hy
      rcases mem_cons.mp hy with rfl | hy
      · exact cmpGe_total hlt
      · exact cmpGe_trans (cmpGe_total hlt) (h.1 y hy)


theorem Sorted.tail {a : Path} {l : List Path} (h : Sorted (a :: l)) : Sorted l := by
  unfold Sorted at *; exact (pairwise_cons.mp h).2

theorem Sorted.filter {l : List Path} (P : Path → Bool) (h : Sorted l) : Sorted (l.filter P) :=
  Pairwise.filter P h

theorem Sorted.sublist {l l' : List Path} (hs : l' <+ l) (h : Sorted l) : Sorted l' :=
  Pairwise.sublist hs h

/-- inserting commutes with filtering a sorted list -/
theorem filter_insertSorted {e : Path} {l : List Path} (P : Path → Bool) (h : Sorted l) :
    (insertSorted e l).filter P = if P e then insertSorted e (l.filter P) else l.filter P := by
  induction l with
  | nil => simp [insertSorted]; split <;> simp_all
  | cons a t ih =>
    have ht := h.tail
    unfold Sorted at h
    rw [pairwise_cons] at h
    by_cases hge : cmpGe e a = true
    · -- e goes after a
      have e1 : insertSorted e (a :: t) = a :: insertSorted e t := by simp [insertSorted, hge]
      rw [e1, filter_cons, ih ht]
      by_cases hpa : P a = true
      · simp only [hpa, if_true, filter_cons]
        split
        · simp [insertSorted, hge]
        · rfl
      · simp only [hpa, filter_cons]
        simp
    · -- e goes before a: every later element is strictly after e
      have hlt : cmpGe e a = false := by simpa using hge
      have e1 : insertSorted e (a :: t) = e :: a :: t := by simp [insertSorted, hlt]
      rw [e1]
      have hall : ∀ y ∈ (a :: t).filter P, cmpGe e y = false := by
        intro y hy
        have hy' := (mem_filter.mp hy).1
        rcases mem_cons.mp hy' with rfl | hy'
        · exact hlt
        · exact cmpGe_lt_of_lt_of_ge hlt (h.1 y hy')
      by_cases hpe : P e = true
      · simp only [hpe, if_true]
        rw [filter_cons]; simp only [hpe, if_true]
        generalize hf : (a :: t).filter P = f at hall
        cases f with
        | nil => simp [insertSorted]
        | cons b f' => simp [insertSorted, hall b (by simp)]
      · rw [filter_cons]; simp [hpe]

theorem insertSorted_append_of_ge {e : Path} {l : List Path} (h : ∀ a ∈ l, cmpGe e a = true) :
    insertSorted e l = l ++ [e] := by
  induction l with
  | nil => simp [insertSorted]
  | cons a t ih =>
    simp only [insertSorted, h a (by simp), if_true, cons_append]
    rw [ih (fun x hx => h x (by simp [hx]))]

theorem foldl_insertSorted_sorted (l acc : List Path) (h : Sorted acc) :
    Sorted (l.foldl (fun acc p => insertSorted p acc) acc) := by
  induction l generalizing acc with
  | nil => simpa
  | cons a t ih => exact ih _ (insertSorted_sorted h)

theorem sortPaths_sorted (l : List Path) : Sorted (sortPaths l) :=
  foldl_insertSorted_sorted l [] (by simp [Sorted])

theorem foldl_insertSorted_of_sorted (l acc : List Path) (h : Sorted (acc ++ l)) :
    l.foldl (fun acc p => insertSorted p acc) acc = acc ++ l := by
  induction l generalizing acc with
  | nil => simp
  | cons a t ih =>
    have h1 : insertSorted a acc = acc ++ [a] := by
      apply insertSorted_append_of_ge
      intro x hx
      unfold Sorted at h
      rw [pairwise_append] at h
      exact h.2.2 x hx a (by simp)
    simp only [foldl_cons, h1]
    rw [ih (acc ++ [a]) (by simpa using h)]
    simp

/-- a stable sort leaves a sorted list alone -/
theorem sortPaths_of_sorted {l : List Path} (h : Sorted l) : sortPaths l = l := by
  have := foldl_insertSorted_of_sorted l [] (by simpa using h)
  simpa [sortPaths] using this

theorem filter_foldl_insertSorted (P : Path → Bool) (l acc : List Path) (h : Sorted acc) :
    (l.foldl (fun acc p => insertSorted p acc) acc).filter P =
      (l.filter P).foldl (fun acc p => insertSorted p acc) (acc.filter P) := by
  induction l generalizing acc with
  | nil => simp
  | cons a t ih =>
    simp only [foldl_cons]
    rw [ih _ (insertSorted_sorted h), filter_insertSorted P h]
    by_cases hpa : P a = true
    · simp [hpa]
    · simp [hpa]

/-- filtering commutes with the stable sort -/
theorem filter_sortPaths (P : Path → Bool) (l : List Path) :
    (sortPaths l).filter P = sortPaths (l.filter P) := by
  simpa [sortPaths] using filter_foldl_insertSorted P l [] (by simp [Sorted])

theorem mem_foldl_insertSorted {x : Path} (l acc : List Path) :
    x ∈ l.foldl (fun acc p => insertSorted p acc) acc ↔ x ∈ l ∨ x ∈ acc := by
  induction l generalizing acc with
  | nil => simp
  | cons a t ih => simp only [foldl_cons, ih, mem_insertSorted, mem_cons]; grind

theorem sortPaths_perm (l : List Path) : (sortPaths l).Perm l := by
  have : ∀ acc : List Path, (l.foldl (fun acc p => insertSorted p acc) acc).Perm (l ++ acc) := by
    induction l with
    | nil => intro acc; simp
    | cons a t ih =>
      intro acc
      simp only [foldl_cons]
      refine (ih _).trans ?_
      refine (Perm.append_left t (insertSorted_perm a acc)).trans ?_
      simp [perm_middle]
  simpa [sortPaths] using this []


-- ---------------------------------------------------------------- extract

theorem extract_none {f : Path → Bool} {l : List Path} (h : extract f l = none) : ∀ a ∈ l, f a = false := by
  induction l with
  | nil => simp
  | cons a t ih =>
    unfold extract at h
    split at h
    · simp at h
    · rename_i hfa
      split at h
      · simp at h
      · rename_i hn
        intro x hx
        rcases mem_cons.mp hx with rfl | hx
        · simpa using hfa
        · exact ih hn x hx

theorem extract_some {f : Path → Bool} {l : List Path} {r : Path} {rest : List Path}
    (h : extract f l = some (r, rest)) : f r = true ∧ l.Perm (r :: rest) ∧ rest <+ l := by
  induction l generalizing rest with
  | nil => simp [extract] at h
  | cons a t ih =>
    unfold extract at h
    split at h
    · rename_i hfa
      simp only [Option.some.injEq, Prod.mk.injEq] at h
      obtain ⟨rfl, rfl⟩ := h
      exact ⟨hfa, Perm.refl _, sublist_cons_self _ _⟩
    · split at h
      · rename_i r' t' hs
        simp only [Option.some.injEq, Prod.mk.injEq] at h
        obtain ⟨rfl, rfl⟩ := h
        obtain ⟨h1, h2, h3⟩ := ih hs
        exact ⟨h1, (Perm.cons a h2).trans (Perm.swap _ _ _), h3.cons_cons a⟩
      · simp at h

theorem extract_filter_of_not {f P : Path → Bool} {l : List Path} {r : Path} {rest : List Path}
    (h : extract f l = some (r, rest)) (hp : P r = false) : rest.filter P = l.filter P := by
  induction l generalizing rest with
  | nil => simp [extract] at h
  | cons a t ih =>
    unfold extract at h
    split at h
    · simp only [Option.some.injEq, Prod.mk.injEq] at h
      obtain ⟨rfl, rfl⟩ := h
      simp [hp]
    · split at h
      · rename_i r' t' hs
        simp only [Option.some.injEq, Prod.mk.injEq] at h
        obtain ⟨rfl, rfl⟩ := h
        simp [filter_cons, ih hs]
      · simp at h

theorem extract_mem {f : Path → Bool} {l : List Path} {r : Path} {rest : List Path}
    (h : extract f l = some (r, rest)) : r ∈ l ∧ ∀ x ∈ rest, x ∈ l := by
  obtain ⟨_, h2, h3⟩ := extract_some h
  exact ⟨h2.mem_iff.mpr (by simp), fun x hx => h3.subset hx⟩

-- ---------------------------------------------------------------- eligible / best

def elig (p : Path) : Bool := !p.flt && !p.inv

theorem eligible_eq (l : List Path) : eligible l = l.filter elig := rfl

theorem bestKey_none {l : List Path} : bestKey l = none ↔ eligible l = [] := by
  unfold bestKey
  cases h : eligible l <;> simp

theorem bestId_none {l : List Path} : bestId l = none ↔ eligible l = [] := by
  unfold bestId
  cases h : eligible l <;> simp

theorem head?_isSome_false {l : List Path} : l.head?.isSome = false ↔ l = [] := by
  cases l <;> simp

theorem eligible_insertSorted {e : Path} {l : List Path} (h : Sorted l) :
    eligible (insertSorted e l) = if elig e then insertSorted e (eligible l) else eligible l := by
  simp only [eligible_eq]; exact filter_insertSorted elig h

theorem Sorted.eligible {l : List Path} (h : Sorted l) : Sorted (eligible l) := h.filter _

/-- `NlriChange` is sent to the kernel handle -/
def sent (c : Change) : Bool := c.bestChanged || (c.anyChanged && c.paths.head?.isSome)

/-- What every table function guarantees about the change it reports for destination `p`:
    the change carries the new eligible list, and when no FIB request results the eligible list
    is the old one. -/
def ChOK (p : Pfx) (ps ps' : List Path) : Option Change → Prop
  | some c => c.pfx = p ∧ c.paths = eligible ps' ∧ (sent c = false → eligible ps' = eligible ps)
  | none => eligible ps' = eligible ps

theorem bne_false_none {α} [BEq α] [LawfulBEq α] {a b : Option α} (h : (a != b) = false) (hb : b = none) : a = none := by
  have : a = b := by simpa using h
  rw [this, hb]

theorem chOK_mk {p : Pfx} {ps ps' : List Path} {bc ac : Bool}
    (hbc : bc = false → eligible ps' = [] → eligible ps = [])
    (hne : bc = false → ac = false → eligible ps' = eligible ps) :
    ChOK p ps ps' (if !bc && !ac then none else some (mkChange p bc ac ps')) := by
  cases bc <;> cases ac <;> simp [ChOK, mkChange, sent] at *
  · exact hne
  · intro h
    rw [h, hbc h]


-- ---------------------------------------------------------------- per-destination table functions

theorem insertPaths_spec (p : Pfx) {ps : List Path} (e : Path) (hs : Sorted ps) :
    Sorted (insertPaths p ps e).1 ∧ ChOK p ps (insertPaths p ps e).1 (insertPaths p ps e).2 := by
  unfold insertPaths
  split
  · dsimp only
    rename_i r rest hx
    obtain ⟨_, _, hsub⟩ := extract_some hx
    have hsr : Sorted rest := hs.sublist hsub
    refine ⟨insertSorted_sorted hsr, ?_⟩
    apply chOK_mk
    · intro hbc hnil
      exact bestKey_none.mp (bne_false_none hbc (bestKey_none.mpr hnil))
    · intro _ hac
      have hac' : e.flt = true ∧ r.flt = true := by simpa using hac
      rw [eligible_insertSorted hsr]
      have : elig { e with uid := r.uid } = false := by simp [elig, hac'.1]
      simp only [this]
      simp only [eligible_eq]
      exact extract_filter_of_not hx (by simp [elig, hac'.2])
  · dsimp only
    rename_i hx
    refine ⟨insertSorted_sorted hs, ?_⟩
    apply chOK_mk
    · intro hbc hnil
      exact bestKey_none.mp (bne_false_none hbc (bestKey_none.mpr hnil))
    · intro _ hac
      have hac' : e.flt = true := by simpa using hac
      rw [eligible_insertSorted hs]
      have : elig e = false := by simp [elig, hac']
      simp [this]

theorem removePaths_spec (p : Pfx) {ps : List Path} (src pid : Nat) (hs : Sorted ps)
    {rest : List Path} {ch : Option Change} {nh : Addr}
    (h : removePaths p ps src pid = some (rest, ch, nh)) :
    Sorted rest ∧ ChOK p ps rest ch := by
  unfold removePaths at h
  split at h
  · simp at h
  · rename_i r rest' hx
    obtain ⟨_, hperm, hsub⟩ := extract_some hx
    dsimp only at h
    split at h
    · rename_i hemp
      simp only [Option.some.injEq, Prod.mk.injEq] at h
      obtain ⟨rfl, rfl, rfl⟩ := h
      have hnil : rest' = [] := by simpa using hemp
      subst hnil
      refine ⟨by simp [Sorted], ?_⟩
      by_cases hf : r.flt = true
      · simp only [hf, Bool.not_true, ChOK]
        have : ps.filter elig = ([] : List Path).filter elig := (extract_filter_of_not hx (by simp [elig, hf])).symm
        simpa [eligible_eq] using this.symm
      · have hf' : r.flt = false := by simpa using hf
        simp [hf', ChOK, sent, eligible]
    · simp only [Option.some.injEq, Prod.mk.injEq] at h
      obtain ⟨rfl, rfl, rfl⟩ := h
      refine ⟨hs.sublist hsub, ?_⟩
      apply chOK_mk
      · intro hbc hnil
        exact bestKey_none.mp (bne_false_none hbc (bestKey_none.mpr hnil))
      · intro _ hac
        have hac' : r.flt = true := by simpa using hac
        simp only [eligible_eq]
        exact extract_filter_of_not hx (by simp [elig, hac'])

theorem filter_filter_of_imp {P Q : Path → Bool} {l : List Path} (h : ∀ x ∈ l, P x = true → Q x = true) :
    (l.filter Q).filter P = l.filter P := by
  rw [filter_filter]
  apply filter_congr
  intro x hx
  cases hp : P x
  · simp
  · simp [h x hx hp]

theorem dropPaths_spec (p : Pfx) {ps : List Path} (sel : Path → Bool) (hs : Sorted ps) :
    Sorted (dropPaths p ps sel).1 ∧ ChOK p ps (dropPaths p ps sel).1 (dropPaths p ps sel).2.1 := by
  unfold dropPaths
  split
  · exact ⟨hs, rfl⟩
  · dsimp only
    split
    · rename_i hno
      refine ⟨hs.filter _, ?_⟩
      simp only [ChOK, eligible_eq]
      apply filter_filter_of_imp
      intro x hx hel
      cases hsx : sel x
      · simp
      · exfalso
        have hel' : x.flt = false ∧ x.inv = false := by simpa [elig] using hel
        have : (ps.any fun e => sel e && (!e.flt && !e.inv)) = true :=
          any_eq_true.mpr ⟨x, hx, by simp [hsx, hel'.1, hel'.2]⟩
        simp [this] at hno
    · split
      · rename_i hemp
        have hnil : ps.filter (fun e => !sel e) = [] := by simpa using hemp
        refine ⟨hs.filter _, ?_⟩
        simp [ChOK, sent, hnil, eligible]
      · refine ⟨hs.filter _, ?_⟩
        have := @chOK_mk p ps (ps.filter (fun e => !sel e)) (bestId ps != bestId (ps.filter (fun e => !sel e))) true
          (by intro hbc hnil; exact bestId_none.mp (bne_false_none hbc (bestId_none.mpr hnil)))
          (by intro _ h; simp at h)
        simpa using this

theorem filter_map_of_fix {P : Path → Bool} {g : Path → Path} {l : List Path}
    (h : ∀ x ∈ l, g x = x ∨ (P x = false ∧ P (g x) = false)) : (l.map g).filter P = l.filter P := by
  induction l with
  | nil => simp
  | cons a t ih =>
    have iht := ih (fun x hx => h x (by simp [hx]))
    rcases h a (by simp) with ha | ⟨h1, h2⟩
    · simp [filter_cons, ha, iht]
    · simp [filter_cons, h1, h2, iht]

theorem chOK_restale {p : Pfx} {ps S : List Path} {bc anyUnf : Bool}
    (hbc : bc = false → eligible S = [] → eligible ps = [])
    (hne : bc = false → anyUnf = false → eligible S = eligible ps) :
    ChOK p ps S (if bc || anyUnf then some (mkChange p bc anyUnf S) else none) := by
  cases bc <;> cases anyUnf <;> simp [ChOK, mkChange, sent] at *
  · exact hne
  · intro h
    rw [h, hbc h]

/-- marking (stale / LLGR-stale) the peer's paths, all of which are filtered, leaves the eligible
    list alone even after re-sorting -/
theorem eligible_sort_mark {ps : List Path} (k : Nat) (mark : Path → Path)
    (hm : ∀ x, (mark x).flt = x.flt ∧ (mark x).inv = x.inv) (hs : Sorted ps)
    (hany : (ps.any fun e => fromAddr k e && !e.flt) = false) :
    eligible (sortPaths (ps.map fun e => if fromAddr k e then mark e else e)) = eligible ps := by
  simp only [eligible_eq]
  rw [filter_sortPaths]
  have hmap : (ps.map fun e => if fromAddr k e then mark e else e).filter elig = ps.filter elig := by
    apply filter_map_of_fix
    intro x hx
    by_cases hf : fromAddr k x = true
    · right
      have hflt : x.flt = true := by
        cases h : x.flt
        · exfalso
          have : (ps.any fun e => fromAddr k e && !e.flt) = true :=
            any_eq_true.mpr ⟨x, hx, by simp [hf, h]⟩
          simp [this] at hany
        · rfl
      simp [elig, hf, hflt, (hm x).1]
    · left; simp [hf]
  rw [hmap]
  exact sortPaths_of_sorted (hs.filter _)

theorem restalePaths_spec (p : Pfx) {ps : List Path} (k : Nat) (mark : Path → Path)
    (hm : ∀ x, (mark x).flt = x.flt ∧ (mark x).inv = x.inv) (hs : Sorted ps) :
    Sorted (restalePaths p ps k mark).1 ∧
      ChOK p ps (restalePaths p ps k mark).1 (restalePaths p ps k mark).2 := by
  unfold restalePaths
  split
  · exact ⟨hs, rfl⟩
  · dsimp only
    refine ⟨sortPaths_sorted _, ?_⟩
    apply chOK_restale
    · intro hbc hnil
      exact bestId_none.mp (bne_false_none hbc (bestId_none.mpr hnil))
    · intro _ hany
      exact eligible_sort_mark k mark hm hs hany

/-- the changes `restale_llgr` reports for destination `p`: all carry the new eligible list, and if
    none of them results in a request the eligible list is the old one -/
def ChsOK (p : Pfx) (ps ps' : List Path) (chs : List Change) : Prop :=
  (∀ c ∈ chs, c.pfx = p ∧ c.paths = eligible ps') ∧
  ((∀ c ∈ chs, sent c = false) → eligible ps' = eligible ps)

theorem restaleLlgrPaths_spec (p : Pfx) {ps : List Path} (k : Nat) (hs : Sorted ps) :
    Sorted (restaleLlgrPaths p ps k).1 ∧ ChsOK p ps (restaleLlgrPaths p ps k).1 (restaleLlgrPaths p ps k).2 := by
  unfold restaleLlgrPaths
  split
  · exact ⟨hs, by simp [ChsOK]⟩
  · dsimp only
    refine ⟨sortPaths_sorted _, ?_⟩
    have hmark : ∀ x, (markLlgr x).flt = x.flt ∧ (markLlgr x).inv = x.inv := fun x => ⟨rfl, rfl⟩
    have hel := eligible_sort_mark (ps := ps) k markLlgr hmark hs
    generalize sortPaths (ps.map fun e => if fromAddr k e then markLlgr e else e) = S at hel ⊢
    generalize (ps.any fun e => fromAddr k e && !e.flt) = anyUnf at hel ⊢
    unfold llgrChanges
    dsimp only
    split
    · -- nothing reported
      rename_i hcond
      have hc : ((bestId ps != bestId S) || headFrom k (eligible S)) = false ∧ anyUnf = false := by
        simpa [Bool.or_eq_false_iff] using hcond
      exact ⟨by simp, fun _ => hel hc.2⟩
    · split
      · -- one change, no eligible path of the peer
        refine ⟨by intro c hc; simp at hc; subst hc; exact ⟨rfl, rfl⟩, ?_⟩
        intro hall
        have hsent := hall _ (mem_singleton.mpr rfl)
        simp only [sent, Bool.or_eq_false_iff, Bool.and_eq_false_iff] at hsent
        obtain ⟨⟨hbc1, _⟩, hrest⟩ := hsent
        rcases hrest with h | h
        · exact hel h
        · have hnil := head?_isSome_false.mp h
          rw [hnil, bestId_none.mp (bne_false_none hbc1 (bestId_none.mpr hnil))]
      · -- one change per eligible path of the peer: the list is not empty, every change is sent
        rename_i hn
        refine ⟨?_, ?_⟩
        · intro c hc
          obtain ⟨i, _, rfl⟩ := mem_map.mp hc
          exact ⟨rfl, rfl⟩
        · intro hall
          exfalso
          have hpos : 0 < ((eligible S).filter (fromAddr k)).length := by
            have : ((eligible S).filter (fromAddr k)).length ≠ 0 := by simpa using hn
            omega
          have hne : eligible S ≠ [] := by
            intro h; rw [h] at hpos; simp at hpos
          have := hall _ (mem_map.mpr ⟨0, by simpa using hpos, rfl⟩)
          cases he : eligible S with
          | nil => exact hne he
          | cons b t => simp [sent, he] at this

theorem Sorted.map_of_cmp {g : Path → Path} {l : List Path} (h : Sorted l)
    (hg : ∀ x y, cmpGe (g y) (g x) = cmpGe y x) : Sorted (l.map g) := by
  unfold Sorted at *
  rw [pairwise_map]
  exact h.imp (fun {a b} hab => by rw [hg]; exact hab)

/-- the fields the ranking reads -/
def rankEq (x' x : Path) : Prop :=
  x'.isLl = x.isLl ∧ x'.lp = x.lp ∧ x'.asl = x.asl ∧ x'.org = x.org ∧ x'.eb = x.eb ∧ x'.stale = x.stale ∧
    x'.cl = x.cl ∧ x'.rid = x.rid

theorem cmpGe_congr {x y x' y' : Path} (hx : rankEq x' x) (hy : rankEq y' y) : cmpGe y' x' = cmpGe y x := by
  obtain ⟨a1, a2, a3, a4, a5, a6, a7, a8⟩ := hx
  obtain ⟨b1, b2, b3, b4, b5, b6, b7, b8⟩ := hy
  unfold cmpGe cmpPath
  rw [a1, a2, a3, a4, a5, a6, a7, a8, b1, b2, b3, b4, b5, b6, b7, b8]

theorem validityPaths_spec (p : Pfx) {ps : List Path} (a : Addr) (r : Bool) (hs : Sorted ps) :
    Sorted (validityPaths p ps a r).1 ∧ ChOK p ps (validityPaths p ps a r).1 (validityPaths p ps a r).2 := by
  unfold validityPaths
  dsimp only
  split
  · exact ⟨hs, rfl⟩
  · refine ⟨?_, ?_⟩
    · apply hs.map_of_cmp
      intro x y
      apply cmpGe_congr <;> (split <;> simp [rankEq, Path.isLl])
    · have := @chOK_mk p ps (ps.map fun e => if e.nh == a then { e with inv := !r } else e)
        (bestKey ps != bestKey (ps.map fun e => if e.nh == a then { e with inv := !r } else e)) true
        (by intro hbc hnil; exact bestKey_none.mp (bne_false_none hbc (bestKey_none.mpr hnil)))
        (by intro _ h; simp at h)
      simpa using this


-- ---------------------------------------------------------------- replaying FIB requests
open Spec

abbrev Key := Nat × Pfx

theorem find?_filter_ne {κ β} [BEq κ] [LawfulBEq κ] [DecidableEq κ] (f : List (κ × β)) (k k' : κ) :
    (f.filter (fun e => !(e.1 == k))).find? (fun e => e.1 == k') =
      if k' = k then none else f.find? (fun e => e.1 == k') := by
  induction f with
  | nil => simp
  | cons a t ih =>
    rw [filter_cons, find?_cons]
    by_cases ha : a.1 = k
    · have e1 : (a.1 == k) = true := by simp [ha]
      simp only [e1, Bool.not_true, Bool.false_eq_true, if_false, ih]
      by_cases hk : k' = k
      · simp [hk]
      · have e2 : (a.1 == k') = false := by
          apply beq_eq_false_iff_ne.mpr
          rw [ha]; exact fun h => hk h.symm
        simp [hk, e2]
    · have e1 : (a.1 == k) = false := beq_eq_false_iff_ne.mpr ha
      simp only [e1, Bool.not_false, if_true, find?_cons, ih]
      by_cases ha' : a.1 = k'
      · have e2 : (a.1 == k') = true := by simp [ha']
        have hk : ¬ k' = k := by rw [← ha']; exact ha
        simp [e2, hk]
      · have e2 : (a.1 == k') = false := beq_eq_false_iff_ne.mpr ha'
        simp [e2]

theorem fibGet_apply (f : Fib) (r : FibReq) (t : Nat) (q : Pfx) :
    fibGet (fibApply f r) t q = if (r.table, r.pfx) = (t, q) then r.nhs else fibGet f t q := by
  unfold fibGet fibApply
  by_cases h : (r.table, r.pfx) = (t, q)
  · simp [h]
  · have h' : ¬ (t, q) = (r.table, r.pfx) := fun e => h e.symm
    rw [find?_cons]
    have : ((r.table, r.pfx) == (t, q)) = false := by simpa using h
    simp only [this, find?_filter_ne, h', if_false, h]

/-- next hops of the last request for a key, if any -/
def lastNhs : List FibReq → Key → Option (List Addr)
  | [], _ => none
  | r :: rs, k =>
    match lastNhs rs k with
    | some n => some n
    | none => if (r.table, r.pfx) = k then some r.nhs else none

theorem fibGet_replay (fib : Fib) (rs : List FibReq) (t : Nat) (q : Pfx) :
    fibGet (fibReplay fib rs) t q = (lastNhs rs (t, q)).getD (fibGet fib t q) := by
  induction rs generalizing fib with
  | nil => simp [fibReplay, lastNhs]
  | cons r rs ih =>
    have : fibReplay fib (r :: rs) = fibReplay (fibApply fib r) rs := by simp [fibReplay]
    rw [this, ih, fibGet_apply]
    simp only [lastNhs]
    cases h : lastNhs rs (t, q) with
    | some n => simp
    | none =>
      by_cases hk : (r.table, r.pfx) = (t, q)
      · simp [hk]
      · simp [hk]

theorem fibReplay_append (fib : Fib) (a b : List FibReq) :
    fibReplay fib (a ++ b) = fibReplay (fibReplay fib a) b := by simp [fibReplay, foldl_append]

theorem lastNhs_append (a b : List FibReq) (k : Key) :
    lastNhs (a ++ b) k = (lastNhs b k).or (lastNhs a k) := by
  induction a with
  | nil => simp [lastNhs]
  | cons r a ih =>
    simp only [cons_append, lastNhs, ih]
    cases hb : lastNhs b k <;> cases ha : lastNhs a k <;> simp

theorem lastNhs_none_of_forall {rs : List FibReq} {k : Key} (h : ∀ r ∈ rs, (r.table, r.pfx) ≠ k) :
    lastNhs rs k = none := by
  induction rs with
  | nil => simp [lastNhs]
  | cons r rs ih =>
    simp only [lastNhs, ih (fun x hx => h x (by simp [hx]))]
    simp [h r (by simp)]

/-- when every request for key `k` in the list carries the same next hops -/
theorem lastNhs_const {rs : List FibReq} {k : Key} {n : List Addr}
    (h : ∀ r ∈ rs, (r.table, r.pfx) = k → r.nhs = n) :
    lastNhs rs k = if rs.any (fun r => (r.table, r.pfx) == k) then some n else none := by
  induction rs with
  | nil => simp [lastNhs]
  | cons r rs ih =>
    have iht := ih (fun x hx => h x (by simp [hx]))
    simp only [lastNhs, iht, any_cons]
    by_cases hany : (rs.any fun r => (r.table, r.pfx) == k) = true
    · simp [hany]
    · have hany' : (rs.any fun r => (r.table, r.pfx) == k) = false := by simpa using hany
      simp only [hany', if_false, Bool.or_false]
      by_cases hk : (r.table, r.pfx) = k
      · simp [hk, h r (by simp) hk]
      · simp [hk]


-- ---------------------------------------------------------------- requests of `distribute`
open Codec

theorem fibReqs_append (a b : List Req) : fibReqs (a ++ b) = fibReqs a ++ fibReqs b := by
  induction a with
  | nil => simp [fibReqs]
  | cons r a ih => cases r <;> simp [fibReqs, ih]

theorem nhtReqs_append (a b : List Req) : nhtReqs (a ++ b) = nhtReqs a ++ nhtReqs b := by
  induction a with
  | nil => simp [nhtReqs]
  | cons r a ih => cases r <;> simp [nhtReqs, ih]

theorem mem_fibReqs {rs : List Req} {x : FibReq} : x ∈ fibReqs rs ↔ Req.apply x.table x.pfx x.nhs ∈ rs := by
  induction rs with
  | nil => simp [fibReqs]
  | cons r rs ih =>
    cases r with
    | apply t q n =>
      simp only [fibReqs, mem_cons, ih, Req.apply.injEq]
      constructor
      · rintro (h | h)
        · left; subst h; simp
        · right; exact h
      · rintro (h | h)
        · left; cases x; simp_all
        · right; exact h
    | reg a => simp [fibReqs, ih]
    | unreg a => simp [fibReqs, ih]

theorem fibReqs_nil_of_no_apply {rs : List Req} (h : ∀ r ∈ rs, ∀ t q n, r ≠ Req.apply t q n) : fibReqs rs = [] := by
  induction rs with
  | nil => simp [fibReqs]
  | cons r rs ih =>
    cases r with
    | apply t q n => exact absurd rfl (h _ (by simp) t q n)
    | reg a => simp [fibReqs, ih (fun x hx => h x (by simp [hx]))]
    | unreg a => simp [fibReqs, ih (fun x hx => h x (by simp [hx]))]

theorem nhtReqs_nil_of_apply {rs : List Req} (h : ∀ r ∈ rs, ∃ t q n, r = Req.apply t q n) : nhtReqs rs = [] := by
  induction rs with
  | nil => simp [nhtReqs]
  | cons r rs ih =>
    obtain ⟨t, q, n, rfl⟩ := h r (by simp)
    simp [nhtReqs, ih (fun x hx => h x (by simp [hx]))]

/-- the next hops a FIB request for the eligible list `E` carries -/
def want (E : List Path) : List Addr := (ecmpPaths E).map (·.nh)

theorem want_nil : want [] = [] := rfl
theorem want_cons_ne (b : Path) (t : List Path) : want (b :: t) ≠ [] := by
  simp [want, ecmpPaths, takeWhile_cons]

/-- the cells of the replayed FIB that belong to prefix `p` -/
def owned (p : Pfx) (k : Key) : Prop := k = (0, p) ∨ (p.isVpn = true ∧ k.1 ≠ 0 ∧ k.2 = p.local)

theorem owned_inj {p q : Pfx} {k : Key} (hp : owned p k) (hq : owned q k) : p = q := by
  rcases hp with rfl | ⟨hv, h0, hl⟩
  · rcases hq with h | ⟨_, h0', _⟩
    · simpa using h
    · simp at h0'
  · rcases hq with rfl | ⟨hv', _, hl'⟩
    · simp at h0
    · cases p with | mk pf pi => cases q with | mk qf qi =>
      simp only [Pfx.isVpn, Bool.or_eq_true, beq_iff_eq] at hv hv'
      simp only [Pfx.local] at hl hl'
      rw [hl] at hl'
      simp only [Pfx.mk.injEq] at hl' ⊢
      rcases hv with rfl | rfl <;> rcases hv' with rfl | rfl <;> simp_all

theorem changeNhs_eq (c : Change) : changeNhs c = want c.paths := by
  unfold changeNhs
  cases h : c.paths <;> simp [want, ecmpPaths]

/-- what a VRF's table holds for eligible list `E`: the ECMP next hops when the best path is imported -/
def vrfWant (v : Vrf) (E : List Path) : List Addr :=
  match E with
  | b :: _ => if canImport v b.rts then want E else []
  | [] => []

theorem vrfNhs_eq (v : Vrf) (c : Change) :
    (if bestImports v c then changeNhs c else []) = vrfWant v c.paths := by
  rw [changeNhs_eq]
  unfold bestImports vrfWant
  cases h : c.paths <;> simp <;> rfl

theorem vrfsDistinct_inj {l : List Vrf} (h : vrfsDistinct l = true) {v w : Vrf} (hv : v ∈ l) (hw : w ∈ l)
    (ht : v.tid = w.tid) (h0 : v.tid ≠ 0) : v = w := by
  induction l with
  | nil => simp at hv
  | cons a t ih =>
    simp only [vrfsDistinct, Bool.and_eq_true, Bool.or_eq_true, beq_iff_eq, all_eq_true, bne_iff_ne] at h
    rcases mem_cons.mp hv with hva | hvt
    · rcases mem_cons.mp hw with hwa | hwt
      · rw [hva, hwa]
      · rcases h.1 with h1 | h1
        · exact absurd (hva ▸ h1) h0
        · exact absurd (hva ▸ ht).symm (h1 w hwt)
    · rcases mem_cons.mp hw with hwa | hwt
      · rcases h.1 with h1 | h1
        · exact absurd (ht ▸ hwa ▸ h1) h0
        · exact absurd (hwa ▸ ht) (h1 v hvt)
      · exact ih h.2 hvt hwt

theorem distribute_all_apply (cfg : Cfg) (c : Change) :
    ∀ r ∈ distribute cfg c, sent c = true ∧
      (r = Req.apply 0 c.pfx (want c.paths) ∨
       (c.pfx.isVpn = true ∧ ∃ v ∈ cfg.vrfs, v.tid ≠ 0 ∧ r = Req.apply v.tid c.pfx.local (vrfWant v c.paths))) := by
  intro r hr
  unfold distribute at hr
  split at hr
  · rename_i hs
    refine ⟨hs, ?_⟩
    rw [changeNhs_eq] at hr
    rcases mem_cons.mp hr with rfl | hr
    · left; rfl
    · right
      split at hr
      · rename_i hv
        obtain ⟨v, hvm, hv2⟩ := mem_filterMap.mp hr
        split at hv2
        · simp at hv2
        · rename_i ht
          simp only [Option.some.injEq] at hv2
          subst hv2
          exact ⟨hv, v, hvm, by simpa using ht, by rw [← changeNhs_eq, vrfNhs_eq]⟩
      · simp at hr
  · simp at hr

theorem distribute_owned (cfg : Cfg) (c : Change) :
    ∀ r ∈ fibReqs (distribute cfg c), owned c.pfx (r.table, r.pfx) := by
  intro r hr
  obtain ⟨_, h | ⟨hv, v, _, ht, h⟩⟩ := distribute_all_apply cfg c _ (mem_fibReqs.mp hr)
  · simp only [Req.apply.injEq] at h
    rw [h.1, h.2.1]; exact Or.inl rfl
  · simp only [Req.apply.injEq] at h
    rw [h.1, h.2.1]; exact Or.inr ⟨hv, ht, rfl⟩

/-- a request goes to the main table or to the table of a configured VRF, for an IPv4/IPv6 prefix -/
def goodKey (cfg : Cfg) (k : Key) : Prop :=
  k.1 = 0 ∨ ((cfg.vrfs.any (fun v => v.tid == k.1)) = true ∧ k.2.fam ≤ 1)

theorem distribute_good (cfg : Cfg) (c : Change) :
    ∀ r ∈ fibReqs (distribute cfg c), goodKey cfg (r.table, r.pfx) := by
  intro r hr
  obtain ⟨_, h | ⟨_, v, hv, _, h⟩⟩ := distribute_all_apply cfg c _ (mem_fibReqs.mp hr)
  · simp only [Req.apply.injEq] at h
    left; exact h.1
  · simp only [Req.apply.injEq] at h
    right
    refine ⟨any_eq_true.mpr ⟨v, hv, by simp [h.1]⟩, ?_⟩
    rw [h.2.1]; simp only [Pfx.local]; split <;> omega

theorem fibReplay_keys {cfg : Cfg} (rs : List FibReq) :
    ∀ fib : Fib, (∀ e ∈ fib, goodKey cfg e.1) → (∀ r ∈ rs, goodKey cfg (r.table, r.pfx)) →
      ∀ e ∈ fibReplay fib rs, goodKey cfg e.1 := by
  induction rs with
  | nil => intro fib h _; simpa [fibReplay] using h
  | cons r rs ih =>
    intro fib h hr
    have : fibReplay fib (r :: rs) = fibReplay (fibApply fib r) rs := by simp [fibReplay]
    rw [this]
    apply ih _ _ (fun x hx => hr x (by simp [hx]))
    intro e he
    unfold fibApply at he
    rcases mem_cons.mp he with rfl | he
    · exact hr r (by simp)
    · exact h e (mem_filter.mp he).1

/-- every replayed request leaves an entry with its key -/
theorem fibReplay_mem_key (rs : List FibReq) : ∀ fib : Fib, ∀ r ∈ rs, ∃ e ∈ fibReplay fib rs, e.1 = (r.table, r.pfx) := by
  induction rs with
  | nil => intro fib r hr; simp at hr
  | cons x rs ih =>
    intro fib r hr
    have e0 : fibReplay fib (x :: rs) = fibReplay (fibApply fib x) rs := by simp [fibReplay]
    rw [e0]
    rcases mem_cons.mp hr with rfl | hr
    · -- the entry of `r` survives unless overwritten by a later request with the same key
      have : ∀ (rs : List FibReq) (f : Fib), (∃ e ∈ f, e.1 = (r.table, r.pfx)) →
          ∃ e ∈ fibReplay f rs, e.1 = (r.table, r.pfx) := by
        intro rs
        induction rs with
        | nil => intro f h; simpa [fibReplay] using h
        | cons y ys ihy =>
          intro f ⟨e, he, hk⟩
          have e1 : fibReplay f (y :: ys) = fibReplay (fibApply f y) ys := by simp [fibReplay]
          rw [e1]
          apply ihy
          by_cases hy : (y.table, y.pfx) = (r.table, r.pfx)
          · exact ⟨((y.table, y.pfx), y.nhs), by simp [fibApply], hy⟩
          · refine ⟨e, ?_, hk⟩
            unfold fibApply
            apply mem_cons_of_mem
            apply mem_filter.mpr
            refine ⟨he, ?_⟩
            rw [hk]
            have : ((r.table, r.pfx) == (y.table, y.pfx)) = false := by
              apply beq_eq_false_iff_ne.mpr; exact fun e => hy e.symm
            simp [this]
      exact this rs _ ⟨((r.table, r.pfx), r.nhs), by simp [fibApply], rfl⟩
    · exact ih _ r hr

theorem fibReplay_reqs_good {cfg : Cfg} (reqs : List Req) (fib : Fib)
    (h : ∀ e ∈ fibReplay fib (fibReqs reqs), goodKey cfg e.1) :
    ∀ r ∈ fibReqs reqs, goodKey cfg (r.table, r.pfx) := by
  intro r hr
  obtain ⟨e, he, hk⟩ := fibReplay_mem_key (fibReqs reqs) fib r hr
  rw [← hk]; exact h e he

theorem distribute_main_mem (cfg : Cfg) (c : Change) (hs : sent c = true) :
    Req.apply 0 c.pfx (want c.paths) ∈ distribute cfg c := by
  unfold distribute
  have hs' : (c.bestChanged || c.anyChanged && c.paths.head?.isSome) = true := hs
  simp only [hs', if_true, changeNhs_eq]
  simp

theorem distribute_vrf_mem (cfg : Cfg) (c : Change) (hs : sent c = true) (hv : c.pfx.isVpn = true)
    {v : Vrf} (hmem : v ∈ cfg.vrfs) (ht : v.tid ≠ 0) :
    Req.apply v.tid c.pfx.local (vrfWant v c.paths) ∈ distribute cfg c := by
  unfold distribute
  have hs' : (c.bestChanged || c.anyChanged && c.paths.head?.isSome) = true := hs
  simp only [hs', if_true, hv]
  apply mem_cons_of_mem
  apply mem_filterMap.mpr
  refine ⟨v, hmem, ?_⟩
  have ht' : (v.tid == 0) = false := by simpa using ht
  simp only [ht', Bool.false_eq_true, if_false, vrfNhs_eq]

/-- after replaying the requests of a sent change the main-table cell holds the ECMP next hops -/
theorem fibGet_distribute_main (cfg : Cfg) (fib : Fib) (c : Change) (hs : sent c = true) :
    fibGet (fibReplay fib (fibReqs (distribute cfg c))) 0 c.pfx = want c.paths := by
  rw [fibGet_replay]
  have hconst : ∀ r ∈ fibReqs (distribute cfg c), (r.table, r.pfx) = (0, c.pfx) → r.nhs = want c.paths := by
    intro r hr hk
    obtain ⟨_, h | ⟨_, v, _, ht, h⟩⟩ := distribute_all_apply cfg c _ (mem_fibReqs.mp hr)
    · simp only [Req.apply.injEq] at h; exact h.2.2
    · simp only [Req.apply.injEq] at h
      simp only [Prod.mk.injEq] at hk
      exact absurd (h.1 ▸ hk.1) ht
  rw [lastNhs_const hconst]
  have : (fibReqs (distribute cfg c)).any (fun r => (r.table, r.pfx) == (0, c.pfx)) = true :=
    any_eq_true.mpr ⟨⟨0, c.pfx, want c.paths⟩, mem_fibReqs.mpr (distribute_main_mem cfg c hs), by simp⟩
  simp [this]

/-- ... and the cell of every VRF with a table holds them when the VRF imports the best path and
    nothing otherwise -/
theorem fibGet_distribute_vrf (cfg : Cfg) (hd : vrfsDistinct cfg.vrfs = true) (fib : Fib) (c : Change)
    (hs : sent c = true) (hv : c.pfx.isVpn = true) {v : Vrf} (hm : v ∈ cfg.vrfs) (ht : v.tid ≠ 0) :
    fibGet (fibReplay fib (fibReqs (distribute cfg c))) v.tid c.pfx.local = vrfWant v c.paths := by
  rw [fibGet_replay]
  have hconst : ∀ r ∈ fibReqs (distribute cfg c), (r.table, r.pfx) = (v.tid, c.pfx.local) →
      r.nhs = vrfWant v c.paths := by
    intro r hr hk
    simp only [Prod.mk.injEq] at hk
    obtain ⟨_, h | ⟨_, w, hw, _, h⟩⟩ := distribute_all_apply cfg c _ (mem_fibReqs.mp hr)
    · simp only [Req.apply.injEq] at h
      exact absurd (hk.1 ▸ h.1) ht
    · simp only [Req.apply.injEq] at h
      have : v = w := vrfsDistinct_inj hd hm hw (by rw [← hk.1, h.1]) ht
      rw [this]; exact h.2.2
  rw [lastNhs_const hconst]
  have : (fibReqs (distribute cfg c)).any (fun r => (r.table, r.pfx) == (v.tid, c.pfx.local)) = true :=
    any_eq_true.mpr ⟨⟨v.tid, c.pfx.local, vrfWant v c.paths⟩,
      mem_fibReqs.mpr (distribute_vrf_mem cfg c hs hv hm ht), by simp⟩
  simp [this]

-- ---------------------------------------------------------------- FIB cells of one prefix

/-- The replayed FIB is in step with the eligible list `E` of prefix `p`: main table, and for a VPN
    prefix every VRF with a table. -/
structure CellsOK (cfg : Cfg) (fib : Fib) (p : Pfx) (E : List Path) : Prop where
  main : fibGet fib 0 p = want E
  vrf : p.isVpn = true → ∀ v ∈ cfg.vrfs, v.tid ≠ 0 → fibGet fib v.tid p.local = vrfWant v E

/-- `CellsOK` only reads the cells owned by the prefix. -/
theorem CellsOK.transfer {cfg : Cfg} {fib fib' : Fib} {p : Pfx} {E : List Path} (h : CellsOK cfg fib p E)
    (hag : ∀ k, owned p k → fibGet fib' k.1 k.2 = fibGet fib k.1 k.2) : CellsOK cfg fib' p E := by
  refine ⟨?_, ?_⟩
  · rw [hag (0, p) (Or.inl rfl)]; exact h.main
  · intro hv v hm ht
    rw [hag (v.tid, p.local) (Or.inr ⟨hv, ht, rfl⟩)]; exact h.vrf hv v hm ht

theorem distOpt_owned (cfg : Cfg) {p : Pfx} {ps ps' : List Path} {ch : Option Change} (hc : ChOK p ps ps' ch) :
    ∀ r ∈ fibReqs (distOpt cfg ch), owned p (r.table, r.pfx) := by
  intro r hr
  cases ch with
  | none => simp [distOpt, fibReqs] at hr
  | some c => rw [← hc.1]; exact distribute_owned cfg c r hr

/-- Replaying the FIB requests of one change that carries eligible list `E'` of destination `p`. -/
theorem cells_distribute (cfg : Cfg) (hd : vrfsDistinct cfg.vrfs = true) {fib : Fib} {c : Change}
    (hs : sent c = true) : CellsOK cfg (fibReplay fib (fibReqs (distribute cfg c))) c.pfx c.paths :=
  ⟨fibGet_distribute_main cfg fib c hs, fun hv _ hm ht => fibGet_distribute_vrf cfg hd fib c hs hv hm ht⟩

theorem distribute_unsent (cfg : Cfg) {c : Change} (hs : sent c = false) : distribute cfg c = [] := by
  unfold distribute
  have : (c.bestChanged || c.anyChanged && c.paths.head?.isSome) = false := hs
  simp [this]

/-- Replaying the FIB requests caused by a change of destination `p` re-establishes `CellsOK`. -/
theorem cells_distOpt (cfg : Cfg) (hd : vrfsDistinct cfg.vrfs = true) {fib : Fib} {p : Pfx} {ps ps' : List Path}
    {ch : Option Change} (hc : ChOK p ps ps' ch) (h : CellsOK cfg fib p (eligible ps)) :
    CellsOK cfg (fibReplay fib (fibReqs (distOpt cfg ch))) p (eligible ps') := by
  cases ch with
  | none =>
    simp only [ChOK] at hc
    rw [hc]; simpa [distOpt, fibReqs, fibReplay] using h
  | some c =>
    obtain ⟨hp, hpaths, hun⟩ := hc
    simp only [distOpt]
    cases hs : sent c with
    | false =>
      rw [distribute_unsent cfg hs, hun hs]; simpa [fibReqs, fibReplay] using h
    | true =>
      subst hp
      rw [← hpaths]
      exact cells_distribute cfg hd hs

-- ---------------------------------------------------------------- reference counts

theorem refGet_refSet (r : Refs) (a b : Addr) (n : Nat) :
    refGet (refSet r a n) b = if b = a then n else refGet r b := by
  unfold refGet refSet
  by_cases h : b = a
  · subst h; simp
  · have h' : ¬ a = b := fun e => h e.symm
    rw [find?_cons]
    have : (a == b) = false := by simpa using h'
    simp only [this, find?_filter_ne, h, if_false]

theorem refReplay_append (r : Refs) (a b : List (Bool × Addr)) :
    refReplay r (a ++ b) = (refReplay r a).bind (fun r' => refReplay r' b) := by
  induction a generalizing r with
  | nil => simp [refReplay]
  | cons x a ih =>
    obtain ⟨k, ad⟩ := x
    cases k
    · simp only [cons_append, refReplay]
      split
      · simp
      · exact ih _
    · simp only [cons_append, refReplay]; exact ih _

/-- number of peer-learned paths of a destination using next hop `a` -/
def usesPaths (a : Addr) (ps : List Path) : Nat := (ps.filter (fun p => isPeer p.src && p.nh == a)).length

theorem usesPaths_perm {a : Addr} {l l' : List Path} (h : l.Perm l') : usesPaths a l = usesPaths a l' :=
  (h.filter _).length_eq

theorem usesPaths_cons (a : Addr) (x : Path) (l : List Path) :
    usesPaths a (x :: l) = usesPaths a l + (if isPeer x.src = true ∧ x.nh = a then 1 else 0) := by
  unfold usesPaths
  by_cases h : isPeer x.src = true ∧ x.nh = a
  · simp [filter_cons, h.1, h.2]
  · have : (isPeer x.src && x.nh == a) = false := by
      cases h1 : isPeer x.src <;> simp_all
    simp [filter_cons, this, h]

theorem usesPaths_map {a : Addr} {g : Path → Path} {l : List Path}
    (hg : ∀ x, (g x).src = x.src ∧ (g x).nh = x.nh) : usesPaths a (l.map g) = usesPaths a l := by
  induction l with
  | nil => rfl
  | cons x l ih => simp [usesPaths_cons, ih, hg x]

/-- replay of `register new; unregister old?` -/
theorem refReplay_reg_unreg {refs : Refs} {c : Addr → Nat} (nh : Addr) (old : Option Addr)
    (h : ∀ a, refGet refs a = c a + (match old with | some o => if a = o then 1 else 0 | none => 0)) :
    ∃ refs', refReplay refs ((true, nh) :: (match old with | some o => [(false, o)] | none => [])) = some refs' ∧
      ∀ a, refGet refs' a = c a + (if a = nh then 1 else 0) := by
  cases old with
  | none =>
    have e : refReplay refs [(true, nh)] = some (refSet refs nh (refGet refs nh + 1)) := by simp [refReplay]
    refine ⟨_, e, ?_⟩
    intro a
    rw [refGet_refSet]
    have := h a
    have hn := h nh
    simp only at this hn
    by_cases ha : a = nh
    · subst ha; simp; omega
    · simp [ha]; omega
  | some o =>
    have ho := h o
    simp only [if_true] at ho
    have hne : refGet (refSet refs nh (refGet refs nh + 1)) o ≠ 0 := by
      rw [refGet_refSet]; split <;> omega
    have e : refReplay refs [(true, nh), (false, o)] = some (refSet (refSet refs nh (refGet refs nh + 1)) o
        (refGet (refSet refs nh (refGet refs nh + 1)) o - 1)) := by simp [refReplay, hne]
    refine ⟨_, e, ?_⟩
    intro a
    simp only [refGet_refSet]
    have ha := h a
    have hn := h nh
    simp only at ha hn
    by_cases h1 : a = o <;> by_cases h2 : a = nh <;> by_cases h3 : o = nh <;>
      simp [h1, h2, h3] at ha hn ho ⊢ <;> (try subst_vars) <;> (try simp_all) <;> omega

def countAddr (a : Addr) (l : List Addr) : Nat := (l.filter (· == a)).length

theorem refReplay_unregs {refs : Refs} {c : Addr → Nat} (l : List Addr)
    (h : ∀ a, refGet refs a = c a + countAddr a l) :
    ∃ refs', refReplay refs (l.map (fun a => (false, a))) = some refs' ∧ ∀ a, refGet refs' a = c a := by
  induction l generalizing refs with
  | nil => exact ⟨refs, by simp [refReplay], by intro a; simpa [countAddr] using h a⟩
  | cons x l ih =>
    have hx := h x
    have hne : refGet refs x ≠ 0 := by simp [countAddr] at hx; omega
    simp only [map_cons, refReplay, hne, if_false]
    apply ih
    intro a
    rw [refGet_refSet]
    have := h a
    by_cases ha : a = x
    · subst ha; simp [countAddr] at this ⊢; omega
    · have hxa : ¬ x = a := fun e => ha e.symm
      simp [ha, countAddr, filter_cons, hxa] at this ⊢; omega


-- ---------------------------------------------------------------- one destination, one operation

/-- the NEXTHOP_INVALID flag of every stored path says whether its next hop is currently reported
    unreachable -/
def FlagsOK (unr : List Addr) (ps : List Path) : Prop := ∀ x ∈ ps, x.inv = unr.contains x.nh

/-- the eligible list as far as the FIB is concerned: nothing while the family is deferring -/
def visE (dfr : Bool) (ps : List Path) : List Path := if dfr then [] else eligible ps

/-- What one operation on destination `p` (paths `ps` ↦ `ps'`, requests `reqs`) preserves. -/
structure LocalOK (cfg : Cfg) (dfr dfr' : Bool) (unr' : List Addr) (p : Pfx) (ps ps' : List Path) (reqs : List Req) : Prop where
  sorted : Sorted ps'
  flags : FlagsOK unr' ps'
  cells : ∀ fib, CellsOK cfg fib p (visE dfr ps) → CellsOK cfg (fibReplay fib (fibReqs reqs)) p (visE dfr' ps')
  owned : ∀ r ∈ fibReqs reqs, owned p (r.table, r.pfx)
  good : ∀ r ∈ fibReqs reqs, goodKey cfg (r.table, r.pfx)
  refs : ∀ (refs : Refs) (K : Addr → Nat), (∀ a, refGet refs a = usesPaths a ps + K a) →
    ∃ refs', refReplay refs (nhtReqs reqs) = some refs' ∧ ∀ a, refGet refs' a = usesPaths a ps' + K a

theorem samePath_isPeer {src pid : Nat} {r : Path} (h : samePath src pid r = true) : isPeer r.src = isPeer src := by
  simp only [samePath, Bool.and_eq_true, beq_iff_eq] at h
  have h1 := h.1
  unfold addrKey at h1
  cases hr : isPeer r.src <;> cases hs : isPeer src <;> simp [hr, hs] at h1 ⊢
  · rw [← h1] at hs; simp [isPeer, srcLocal] at hs
  · rw [h1] at hr; simp [isPeer, srcLocal] at hr

theorem fromAddr_isPeer {k : Nat} (hk : k < 100) {x : Path} (h : fromAddr k x = true) : isPeer x.src = true := by
  unfold fromAddr addrKey at h
  cases hp : isPeer x.src
  · simp [hp, srcLocal] at h; omega
  · rfl

theorem insertPaths_fst (p : Pfx) (ps : List Path) (e : Path) :
    (insertPaths p ps e).1 = match extract (samePath e.src e.pid) ps with
      | some (r, rest) => insertSorted { e with uid := r.uid } rest
      | none => insertSorted e ps := by
  unfold insertPaths
  cases hx : extract (samePath e.src e.pid) ps with
  | none => rfl
  | some rr => rfl

/-- bookkeeping of uses around an insertion: a common base plus the replaced / the new path -/
theorem insertPaths_uses (p : Pfx) (ps : List Path) (e : Path) :
    ∃ base : Addr → Nat,
      (∀ a, usesPaths a ps = base a + (match lookupNexthop ps e.src e.pid with
          | some o => if isPeer e.src = true ∧ o = a then 1 else 0 | none => 0)) ∧
      (∀ a, usesPaths a (insertPaths p ps e).1 = base a + (if isPeer e.src = true ∧ e.nh = a then 1 else 0)) := by
  rw [insertPaths_fst]
  unfold lookupNexthop
  cases hx : extract (samePath e.src e.pid) ps with
  | none =>
    refine ⟨fun a => usesPaths a ps, by simp, ?_⟩
    intro a
    simp only
    rw [usesPaths_perm (insertSorted_perm e ps), usesPaths_cons]
  | some rr =>
    obtain ⟨r, rest⟩ := rr
    obtain ⟨hsame, hperm, _⟩ := extract_some hx
    have hpeer := samePath_isPeer hsame
    refine ⟨fun a => usesPaths a rest, ?_, ?_⟩
    · intro a
      simp only
      rw [usesPaths_perm hperm, usesPaths_cons, hpeer]
    · intro a
      simp only
      rw [usesPaths_perm (insertSorted_perm _ rest), usesPaths_cons]

theorem nhtReqs_nhtRegister (src : Nat) (nh : Addr) (old : Option Addr) :
    nhtReqs (nhtRegister src nh old) =
      if isPeer src then (true, nh) :: (match old with | some o => [(false, o)] | none => []) else [] := by
  unfold nhtRegister
  cases isPeer src <;> cases old <;> simp [nhtReqs]

theorem fibReqs_nhtRegister (src : Nat) (nh : Addr) (old : Option Addr) : fibReqs (nhtRegister src nh old) = [] := by
  unfold nhtRegister
  cases isPeer src <;> cases old <;> simp [fibReqs]

theorem nhtReqs_distribute (cfg : Cfg) (c : Change) : nhtReqs (distribute cfg c) = [] := by
  apply nhtReqs_nil_of_apply
  intro r hr
  obtain ⟨_, h | ⟨_, v, _, _, h⟩⟩ := distribute_all_apply cfg c r hr
  · exact ⟨_, _, _, h⟩
  · exact ⟨_, _, _, h⟩

theorem nhtReqs_distD (cfg : Cfg) (dfr : Bool) (ch : Option Change) : nhtReqs (distD cfg dfr ch) = [] := by
  unfold distD
  cases dfr
  · cases ch with
    | none => simp [distOpt, nhtReqs]
    | some c => simpa [distOpt] using nhtReqs_distribute cfg c
  · simp [nhtReqs]

theorem distD_owned (cfg : Cfg) (dfr : Bool) {p : Pfx} {ps ps' : List Path} {ch : Option Change}
    (hc : ChOK p ps ps' ch) : ∀ r ∈ fibReqs (distD cfg dfr ch), owned p (r.table, r.pfx) := by
  unfold distD
  cases dfr
  · exact distOpt_owned cfg hc
  · simp [fibReqs]

theorem distD_good (cfg : Cfg) (dfr : Bool) (ch : Option Change) :
    ∀ r ∈ fibReqs (distD cfg dfr ch), goodKey cfg (r.table, r.pfx) := by
  unfold distD
  cases dfr
  · cases ch with
    | none => simp [distOpt, fibReqs]
    | some c => exact distribute_good cfg c
  · simp [fibReqs]

theorem cells_distD (cfg : Cfg) (hd : vrfsDistinct cfg.vrfs = true) (dfr : Bool) {fib : Fib} {p : Pfx}
    {ps ps' : List Path} {ch : Option Change} (hc : ChOK p ps ps' ch) (h : CellsOK cfg fib p (visE dfr ps)) :
    CellsOK cfg (fibReplay fib (fibReqs (distD cfg dfr ch))) p (visE dfr ps') := by
  unfold distD
  cases dfr
  · exact cells_distOpt cfg hd hc h
  · simpa [visE, fibReqs, fibReplay] using h

theorem FlagsOK.insert {unr : List Addr} {e : Path} {l : List Path} (he : e.inv = unr.contains e.nh)
    (h : FlagsOK unr l) : FlagsOK unr (insertSorted e l) := by
  intro x hx
  rcases mem_insertSorted.mp hx with rfl | hx
  · exact he
  · exact h x hx

theorem FlagsOK.subset {unr : List Addr} {l l' : List Path} (hs : ∀ x ∈ l', x ∈ l) (h : FlagsOK unr l) :
    FlagsOK unr l' := fun x hx => h x (hs x hx)

/-- Core of `insert_route` and of one soft-reset re-insertion: path `e` (flag consistent with the
    reports) is inserted, `nht` being the tracking requests issued for it. -/
theorem insertLike_local (cfg : Cfg) (hd : vrfsDistinct cfg.vrfs = true) (dfr : Bool) {unr : List Addr} (p : Pfx) {ps : List Path} (e : Path) (nht : List Req)
    (hs : Sorted ps) (hf : FlagsOK unr ps) (he : e.inv = unr.contains e.nh)
    (hnf : fibReqs nht = [])
    (hnht : ∀ (refs : Refs) (c : Addr → Nat),
      (∀ a, refGet refs a = c a + (match lookupNexthop ps e.src e.pid with
          | some o => if isPeer e.src = true ∧ o = a then 1 else 0 | none => 0)) →
      ∃ refs', refReplay refs (nhtReqs nht) = some refs' ∧
        ∀ a, refGet refs' a = c a + (if isPeer e.src = true ∧ e.nh = a then 1 else 0)) :
    LocalOK cfg dfr dfr unr p ps (insertPaths p ps e).1 (nht ++ distD cfg dfr (insertPaths p ps e).2) := by
  obtain ⟨hsorted, hch⟩ := insertPaths_spec p e hs
  refine ⟨hsorted, ?_, ?_, ?_, ?_, ?_⟩
  · rw [insertPaths_fst]
    cases hx : extract (samePath e.src e.pid) ps with
    | none => exact hf.insert he
    | some rr =>
      obtain ⟨r, rest⟩ := rr
      exact (hf.subset (extract_mem hx).2).insert he
  · intro fib hc
    rw [fibReqs_append, hnf, nil_append]
    exact cells_distD cfg hd dfr hch hc
  · intro r hr
    rw [fibReqs_append, hnf, nil_append] at hr
    exact distD_owned cfg dfr hch r hr
  · intro r hr
    rw [fibReqs_append, hnf, nil_append] at hr
    exact distD_good cfg dfr _ r hr
  · intro refs K hr
    rw [nhtReqs_append, nhtReqs_distD, append_nil]
    obtain ⟨base, hb1, hb2⟩ := insertPaths_uses p ps e
    obtain ⟨refs', h1, h2⟩ := hnht refs (fun a => base a + K a) (by intro a; rw [hr a, hb1 a]; omega)
    exact ⟨refs', h1, by intro a; rw [h2 a, hb2 a]; omega⟩


theorem LocalOK.refl (cfg : Cfg) (dfr : Bool) {unr : List Addr} (p : Pfx) {ps : List Path} (hs : Sorted ps) (hf : FlagsOK unr ps) :
    LocalOK cfg dfr dfr unr p ps ps [] :=
  ⟨hs, hf, fun fib h => by simpa [fibReqs, fibReplay] using h, by simp [fibReqs], by simp [fibReqs],
   fun refs K h => ⟨refs, by simp [nhtReqs, refReplay], h⟩⟩

theorem LocalOK.trans {cfg : Cfg} {d1 d2 d3 : Bool} {unr : List Addr} {p : Pfx} {ps ps1 ps2 : List Path}
    {r1 r2 : List Req}
    (h1 : LocalOK cfg d1 d2 unr p ps ps1 r1) (h2 : LocalOK cfg d2 d3 unr p ps1 ps2 r2) :
    LocalOK cfg d1 d3 unr p ps ps2 (r1 ++ r2) := by
  refine ⟨h2.sorted, h2.flags, ?_, ?_, ?_, ?_⟩
  · intro fib hc
    have := h2.cells _ (h1.cells fib hc)
    simpa [fibReqs_append, fibReplay, foldl_append] using this
  · intro r hr
    rw [fibReqs_append] at hr
    rcases mem_append.mp hr with hr | hr
    · exact h1.owned r hr
    · exact h2.owned r hr
  · intro r hr
    rw [fibReqs_append] at hr
    rcases mem_append.mp hr with hr | hr
    · exact h1.good r hr
    · exact h2.good r hr
  · intro refs K hr
    obtain ⟨refs1, e1, g1⟩ := h1.refs refs K hr
    obtain ⟨refs2, e2, g2⟩ := h2.refs refs1 K g1
    exact ⟨refs2, by rw [nhtReqs_append, refReplay_append, e1]; exact e2, g2⟩

theorem insertDest_local (cfg : Cfg) (hd : vrfsDistinct cfg.vrfs = true) (dfr : Bool) {unr : List Addr}
    (policy : Policy) (invalid : List Addr) (p : Pfx)
    {ps : List Path} (src sid pid : Nat) (nh0 : Addr) (att : Attrs) (fresh : Nat)
    (hs : Sorted ps) (hf : FlagsOK unr ps) (hinv : ∀ a, invalid.contains a = unr.contains a) :
    LocalOK cfg dfr dfr unr p ps (insertDest cfg dfr policy invalid p ps src sid pid nh0 att fresh).1
      (insertDest cfg dfr policy invalid p ps src sid pid nh0 att fresh).2 := by
  unfold insertDest
  dsimp only
  apply insertLike_local cfg hd dfr p _ _ hs hf
  · exact hinv _
  · exact fibReqs_nhtRegister _ _ _
  · intro refs c h
    dsimp only at h ⊢
    rw [nhtReqs_nhtRegister]
    cases hp : isPeer src with
    | false =>
      refine ⟨refs, by simp [refReplay], ?_⟩
      intro a
      have := h a
      simp only [hp] at this ⊢
      cases hl : lookupNexthop ps src pid <;> simp [hl] at this ⊢ <;> exact this
    | true =>
      simp only [if_true]
      have h' : ∀ a, refGet refs a = c a + (match lookupNexthop ps src pid with
          | some o => if a = o then 1 else 0 | none => 0) := by
        intro a
        have := h a
        simp only [hp, true_and] at this
        cases hl : lookupNexthop ps src pid with
        | none => simpa [hl] using this
        | some o =>
          simp only [hl] at this ⊢
          by_cases hao : a = o
          · subst hao; simpa using this
          · have : ¬ o = a := fun e => hao e.symm
            simp_all
      obtain ⟨refs', e1, g1⟩ := refReplay_reg_unreg (applyImport policy src nh0).2 _ h'
      refine ⟨refs', e1, ?_⟩
      intro a
      rw [g1 a]
      by_cases ha : a = (applyImport policy src nh0).2
      · subst ha; simp
      · have : ¬ (applyImport policy src nh0).2 = a := fun e => ha e.symm
        simp [ha, this]

theorem softOne_local (cfg : Cfg) (hd : vrfsDistinct cfg.vrfs = true) (dfr : Bool) {unr : List Addr}
    (policy : Policy) (invalid : List Addr) (p : Pfx)
    {ps : List Path} (old : Path)
    (hs : Sorted ps) (hf : FlagsOK unr ps) (hinv : ∀ a, invalid.contains a = unr.contains a) :
    LocalOK cfg dfr dfr unr p ps (softOne cfg dfr policy invalid p ps old).1 (softOne cfg dfr policy invalid p ps old).2 := by
  unfold softOne
  dsimp only
  apply insertLike_local cfg hd dfr p _ _ hs hf
  · exact hinv _
  · split
    · cases lookupNexthop ps old.src old.pid <;> simp [fibReqs]
    · simp [fibReqs]
  · intro refs c h
    dsimp only at h ⊢
    cases hp : isPeer old.src with
    | false =>
      simp only [Bool.false_and, Bool.false_eq_true, if_false]
      refine ⟨refs, by simp [nhtReqs, refReplay], ?_⟩
      intro a
      have := h a
      simp only [hp] at this ⊢
      cases hl : lookupNexthop ps old.src old.pid <;> simp [hl] at this ⊢ <;> exact this
    | true =>
      simp only [Bool.true_and]
      by_cases hsame : lookupNexthop ps old.src old.pid = some (applyImport policy old.src old.nh).2
      · -- policy left the next hop alone: nothing is sent
        simp only [hsame, bne_self_eq_false, Bool.false_eq_true, if_false]
        refine ⟨refs, by simp [nhtReqs, refReplay], ?_⟩
        intro a
        have := h a
        simpa [hp, hsame] using this
      · have hne : (lookupNexthop ps old.src old.pid != some (applyImport policy old.src old.nh).2) = true := by
          simpa using hsame
        simp only [hne, if_true]
        have h' : ∀ a, refGet refs a = c a + (match lookupNexthop ps old.src old.pid with
            | some o => if a = o then 1 else 0 | none => 0) := by
          intro a
          have := h a
          simp only [hp, true_and] at this
          cases hl : lookupNexthop ps old.src old.pid with
          | none => simpa [hl] using this
          | some o =>
            simp only [hl] at this ⊢
            by_cases hao : a = o
            · subst hao; simpa using this
            · have : ¬ o = a := fun e => hao e.symm
              simp_all
        obtain ⟨refs', e1, g1⟩ := refReplay_reg_unreg (applyImport policy old.src old.nh).2 _ h'
        refine ⟨refs', ?_, ?_⟩
        · rw [← e1]
          cases lookupNexthop ps old.src old.pid <;> simp [nhtReqs]
        · intro a
          rw [g1 a]
          by_cases ha : a = (applyImport policy old.src old.nh).2
          · subst ha; simp
          · have : ¬ (applyImport policy old.src old.nh).2 = a := fun e => ha e.symm
            simp [ha, this]

theorem softPaths_local (cfg : Cfg) (hd : vrfsDistinct cfg.vrfs = true) (dfr : Bool) {unr : List Addr}
    (policy : Policy) (invalid : List Addr) (p : Pfx)
    (todo : List Path) {ps : List Path}
    (hs : Sorted ps) (hf : FlagsOK unr ps) (hinv : ∀ a, invalid.contains a = unr.contains a) :
    LocalOK cfg dfr dfr unr p ps (softPaths cfg dfr policy invalid p todo ps).1
      (softPaths cfg dfr policy invalid p todo ps).2 := by
  induction todo generalizing ps with
  | nil => exact LocalOK.refl cfg dfr p hs hf
  | cons o os ih =>
    have h1 := softOne_local cfg hd dfr policy invalid p o hs hf hinv
    have h2 := ih h1.sorted h1.flags
    exact h1.trans h2


theorem nhtReqs_map_unreg (l : List Addr) : nhtReqs (l.map Req.unreg) = l.map (fun a => (false, a)) := by
  induction l with
  | nil => rfl
  | cons a l ih => simp [nhtReqs, ih]

theorem fibReqs_map_unreg (l : List Addr) : fibReqs (l.map Req.unreg) = [] := by
  induction l with
  | nil => rfl
  | cons a l ih => simp [fibReqs, ih]

theorem removePaths_extract {p : Pfx} {ps : List Path} {src pid : Nat} {rest : List Path}
    {ch : Option Change} {nh : Addr} (h : removePaths p ps src pid = some (rest, ch, nh)) :
    ∃ r, extract (samePath src pid) ps = some (r, rest) ∧ nh = r.nh := by
  unfold removePaths at h
  split at h
  · simp at h
  · rename_i r rest' hx
    dsimp only at h
    split at h <;>
    · simp only [Option.some.injEq, Prod.mk.injEq] at h
      obtain ⟨rfl, _, rfl⟩ := h
      exact ⟨r, hx, rfl⟩

theorem removeDest_local (cfg : Cfg) (hd : vrfsDistinct cfg.vrfs = true) (dfr : Bool) {unr : List Addr} (p : Pfx)
    {ps : List Path} (src pid : Nat) (hs : Sorted ps) (hf : FlagsOK unr ps) :
    LocalOK cfg dfr dfr unr p ps (removeDest cfg dfr p ps src pid).1 (removeDest cfg dfr p ps src pid).2 := by
  unfold removeDest
  cases hr : removePaths p ps src pid with
  | none => exact LocalOK.refl cfg dfr p hs hf
  | some x =>
    obtain ⟨rest, ch, oldNh⟩ := x
    dsimp only
    obtain ⟨hsorted, hch⟩ := removePaths_spec p src pid hs hr
    obtain ⟨r, hx, rfl⟩ := removePaths_extract hr
    obtain ⟨hsame, hperm, _⟩ := extract_some hx
    have hnf : fibReqs (if isPeer src = true then [Req.unreg r.nh] else []) = [] := by
      split <;> simp [fibReqs]
    refine ⟨hsorted, hf.subset (extract_mem hx).2, ?_, ?_, ?_, ?_⟩
    · intro fib hc
      rw [fibReqs_append, hnf, append_nil]
      exact cells_distD cfg hd dfr hch hc
    · intro q hq
      rw [fibReqs_append, hnf, append_nil] at hq
      exact distD_owned cfg dfr hch q hq
    · intro q hq
      rw [fibReqs_append, hnf, append_nil] at hq
      exact distD_good cfg dfr _ q hq
    · intro refs K hrf
      rw [nhtReqs_append, nhtReqs_distD, nil_append]
      have hu : ∀ a, usesPaths a ps = usesPaths a rest + (if isPeer src = true ∧ r.nh = a then 1 else 0) := by
        intro a
        rw [usesPaths_perm hperm, usesPaths_cons, samePath_isPeer hsame]
      cases hp : isPeer src with
      | false =>
        refine ⟨refs, by simp [nhtReqs, refReplay], ?_⟩
        intro a
        rw [hrf a, hu a]; simp [hp]
      | true =>
        simp only [if_true]
        have := @refReplay_unregs refs (fun a => usesPaths a rest + K a) [r.nh] (by
          intro a
          rw [hrf a, hu a]
          simp only [hp, true_and, countAddr, filter_cons, filter_nil]
          by_cases h : r.nh = a
          · simp [h]; try omega
          · simp [h])
        simpa [nhtReqs] using this

theorem dropPaths_fst (p : Pfx) (ps : List Path) (sel : Path → Bool) :
    (dropPaths p ps sel).1 = ps.filter (fun e => !sel e) := by
  unfold dropPaths
  split
  · rename_i h
    have : ∀ x ∈ ps, sel x = false := by simpa using h
    symm
    apply filter_eq_self.mpr
    intro x hx; simp [this x hx]
  · dsimp only
    split
    · rfl
    · split <;> rfl

theorem dropPaths_nhs (p : Pfx) (ps : List Path) (sel : Path → Bool) :
    (dropPaths p ps sel).2.2 = (ps.filter sel).map (·.nh) := by
  unfold dropPaths
  split
  · rename_i h
    have : ∀ x ∈ ps, sel x = false := by simpa using h
    have : ps.filter sel = [] := by
      apply filter_eq_nil_iff.mpr
      intro x hx; simp [this x hx]
    simp [this]
  · dsimp only
    split
    · rfl
    · split <;> rfl

theorem usesPaths_split (a : Addr) (ps : List Path) (sel : Path → Bool) :
    usesPaths a ps = usesPaths a (ps.filter (fun e => !sel e)) + usesPaths a (ps.filter sel) := by
  induction ps with
  | nil => rfl
  | cons x l ih =>
    cases hx : sel x
    · simp [filter_cons, hx, usesPaths_cons, ih]; omega
    · simp [filter_cons, hx, usesPaths_cons, ih]; omega

theorem usesPaths_eq_count {a : Addr} {l : List Path} (h : ∀ x ∈ l, isPeer x.src = true) :
    usesPaths a l = countAddr a (l.map (·.nh)) := by
  induction l with
  | nil => rfl
  | cons x l ih =>
    rw [usesPaths_cons, ih (fun y hy => h y (by simp [hy]))]
    simp only [map_cons, countAddr, filter_cons, h x (by simp), true_and]
    by_cases hx : x.nh = a <;> simp [hx]

theorem dropDest_local (cfg : Cfg) (hd : vrfsDistinct cfg.vrfs = true) (deferring : List Nat) {unr : List Addr}
    (sel : Path → Bool) (p : Pfx) {ps : List Path}
    (hsel : ∀ x, sel x = true → isPeer x.src = true)
    (hs : Sorted ps) (hf : FlagsOK unr ps) :
    LocalOK cfg (dfrOf deferring p) (dfrOf deferring p) unr p ps (dropDest cfg deferring sel p ps).1 (dropDest cfg deferring sel p ps).2 := by
  unfold dropDest
  dsimp only
  generalize dfrOf deferring p = dfr
  obtain ⟨hsorted, hch⟩ := dropPaths_spec p sel hs
  refine ⟨hsorted, ?_, ?_, ?_, ?_, ?_⟩
  · rw [dropPaths_fst]
    exact hf.subset (fun x hx => (mem_filter.mp hx).1)
  · intro fib hc
    rw [fibReqs_append, fibReqs_map_unreg, append_nil]
    exact cells_distD cfg hd dfr hch hc
  · intro q hq
    rw [fibReqs_append, fibReqs_map_unreg, append_nil] at hq
    exact distD_owned cfg dfr hch q hq
  · intro q hq
    rw [fibReqs_append, fibReqs_map_unreg, append_nil] at hq
    exact distD_good cfg dfr _ q hq
  · intro refs K hrf
    rw [nhtReqs_append, nhtReqs_distD, nil_append, nhtReqs_map_unreg, dropPaths_nhs, dropPaths_fst]
    apply refReplay_unregs
    intro a
    rw [hrf a, usesPaths_split a ps sel,
      usesPaths_eq_count (l := ps.filter sel) (fun x hx => hsel x (mem_filter.mp hx).2)]
    omega

theorem restalePaths_fst (p : Pfx) (ps : List Path) (k : Nat) (mark : Path → Path) :
    (restalePaths p ps k mark).1.Perm (ps.map (fun e => if fromAddr k e then mark e else e)) := by
  unfold restalePaths
  split
  · rename_i h
    have : ∀ x ∈ ps, fromAddr k x = false := by simpa using h
    have hm : ps.map (fun e => if fromAddr k e then mark e else e) = ps := by
      conv => rhs; rw [← map_id ps]
      apply map_congr_left
      intro x hx; simp [this x hx]
    rw [hm]
  · exact sortPaths_perm _

theorem flags_of_perm_map {unr : List Addr} {ps ps' : List Path} {g : Path → Path} (hperm : ps'.Perm (ps.map g))
    (hg : ∀ x, (g x).inv = x.inv ∧ (g x).nh = x.nh) (hf : FlagsOK unr ps) : FlagsOK unr ps' := by
  intro x hx
  obtain ⟨y, hy, rfl⟩ := mem_map.mp (hperm.mem_iff.mp hx)
  rw [(hg y).1, (hg y).2]; exact hf y hy

theorem uses_of_perm_map {a : Addr} {ps ps' : List Path} {g : Path → Path} (hperm : ps'.Perm (ps.map g))
    (hg : ∀ x, (g x).src = x.src ∧ (g x).nh = x.nh) : usesPaths a ps' = usesPaths a ps := by
  rw [usesPaths_perm hperm, usesPaths_map hg]

theorem restaleDest_local (cfg : Cfg) (hd : vrfsDistinct cfg.vrfs = true) (deferring : List Nat) {unr : List Addr}
    (k : Nat) (p : Pfx) {ps : List Path} (hs : Sorted ps) (hf : FlagsOK unr ps) :
    LocalOK cfg (dfrOf deferring p) (dfrOf deferring p) unr p ps (restaleDest cfg deferring k p ps).1 (restaleDest cfg deferring k p ps).2 := by
  unfold restaleDest
  dsimp only
  generalize dfrOf deferring p = dfr
  obtain ⟨hsorted, hch⟩ := restalePaths_spec p k markStale (fun x => ⟨rfl, rfl⟩) hs
  have hperm := restalePaths_fst p ps k markStale
  refine ⟨hsorted, ?_, fun fib hc => cells_distD cfg hd dfr hch hc, distD_owned cfg dfr hch, distD_good cfg dfr _, ?_⟩
  · exact flags_of_perm_map hperm (fun x => by split <;> simp [markStale]) hf
  · intro refs K hrf
    rw [nhtReqs_distD]
    refine ⟨refs, by simp [refReplay], ?_⟩
    intro a
    rw [hrf a, uses_of_perm_map hperm (fun x => by split <;> simp [markStale])]

theorem cells_chs_keep (cfg : Cfg) (hd : vrfsDistinct cfg.vrfs = true) {p : Pfx} {E' : List Path} (chs : List Change)
    (hc : ∀ c ∈ chs, c.pfx = p ∧ c.paths = E') :
    ∀ fib, CellsOK cfg fib p E' → CellsOK cfg (fibReplay fib (fibReqs (chs.flatMap (distribute cfg)))) p E' := by
  induction chs with
  | nil => intro fib h; simpa [fibReqs, fibReplay] using h
  | cons c t ih =>
    intro fib h
    rw [flatMap_cons, fibReqs_append, fibReplay_append]
    apply ih (fun x hx => hc x (by simp [hx]))
    obtain ⟨hp, hpa⟩ := hc c (by simp)
    cases hs : sent c with
    | false => rw [distribute_unsent cfg hs]; simpa [fibReqs, fibReplay] using h
    | true => rw [← hp, ← hpa]; exact cells_distribute cfg hd hs

theorem cells_chs_set (cfg : Cfg) (hd : vrfsDistinct cfg.vrfs = true) {p : Pfx} {E' : List Path} (chs : List Change)
    (hc : ∀ c ∈ chs, c.pfx = p ∧ c.paths = E') (hex : ∃ c ∈ chs, sent c = true) :
    ∀ fib, CellsOK cfg (fibReplay fib (fibReqs (chs.flatMap (distribute cfg)))) p E' := by
  induction chs with
  | nil => obtain ⟨c, hc', _⟩ := hex; simp at hc'
  | cons c t ih =>
    intro fib
    rw [flatMap_cons, fibReqs_append, fibReplay_append]
    obtain ⟨hp, hpa⟩ := hc c (by simp)
    cases hs : sent c with
    | true =>
      apply cells_chs_keep cfg hd t (fun x hx => hc x (by simp [hx]))
      rw [← hp, ← hpa]; exact cells_distribute cfg hd hs
    | false =>
      rw [distribute_unsent cfg hs]
      apply ih (fun x hx => hc x (by simp [hx]))
      obtain ⟨x, hx, hsx⟩ := hex
      rcases mem_cons.mp hx with rfl | hx
      · rw [hs] at hsx; simp at hsx
      · exact ⟨x, hx, hsx⟩

theorem restaleLlgrPaths_fst (p : Pfx) (ps : List Path) (k : Nat) :
    (restaleLlgrPaths p ps k).1.Perm (ps.map (fun e => if fromAddr k e then markLlgr e else e)) := by
  unfold restaleLlgrPaths
  split
  · rename_i h
    have : ∀ x ∈ ps, fromAddr k x = false := by simpa using h
    have hm : ps.map (fun e => if fromAddr k e then markLlgr e else e) = ps := by
      conv => rhs; rw [← map_id ps]
      apply map_congr_left
      intro x hx; simp [this x hx]
    rw [hm]
  · exact sortPaths_perm _

theorem llgrDest_local (cfg : Cfg) (hd : vrfsDistinct cfg.vrfs = true) (deferring : List Nat) {unr : List Addr}
    (k : Nat) (hk : k < 100) (p : Pfx) {ps : List Path} (hs : Sorted ps) (hf : FlagsOK unr ps) :
    LocalOK cfg (dfrOf deferring p) (dfrOf deferring p) unr p ps (llgrDest cfg deferring k p ps).1
      (llgrDest cfg deferring k p ps).2 := by
  unfold llgrDest
  dsimp only
  obtain ⟨hsorted, hall, hun⟩ := restaleLlgrPaths_spec p k hs
  have hperm := restaleLlgrPaths_fst p ps k
  have hflags : FlagsOK unr (restaleLlgrPaths p ps k).1 :=
    flags_of_perm_map hperm (fun x => by split <;> simp [markLlgr]) hf
  have h1 : LocalOK cfg (dfrOf deferring p) (dfrOf deferring p) unr p ps (restaleLlgrPaths p ps k).1
      (if dfrOf deferring p then [] else (restaleLlgrPaths p ps k).2.flatMap (distribute cfg)) := by
    refine ⟨hsorted, hflags, ?_, ?_, ?_, ?_⟩
    · intro fib hc
      cases hdf : dfrOf deferring p with
      | true => simpa [visE, hdf, fibReqs, fibReplay] using hc
      | false =>
        simp only [visE, hdf, Bool.false_eq_true, if_false] at hc ⊢
        by_cases hex : ∃ c ∈ (restaleLlgrPaths p ps k).2, sent c = true
        · exact cells_chs_set cfg hd _ hall hex fib
        · have hno : ∀ c ∈ (restaleLlgrPaths p ps k).2, sent c = false := by
            intro c hc'
            cases h : sent c
            · rfl
            · exact absurd ⟨c, hc', h⟩ hex
          exact cells_chs_keep cfg hd _ hall fib (by rw [hun hno]; exact hc)
    · intro r hr
      split at hr
      · simp [fibReqs] at hr
      · obtain ⟨x, hx⟩ := mem_fibReqs.mp hr |> mem_flatMap.mp
        rw [← (hall x hx.1).1]
        exact distribute_owned cfg x r (mem_fibReqs.mpr hx.2)
    · intro r hr
      split at hr
      · simp [fibReqs] at hr
      · obtain ⟨x, hx⟩ := mem_fibReqs.mp hr |> mem_flatMap.mp
        exact distribute_good cfg x r (mem_fibReqs.mpr hx.2)
    · intro refs K hrf
      have hn : nhtReqs (if dfrOf deferring p then [] else (restaleLlgrPaths p ps k).2.flatMap (distribute cfg)) = [] := by
        split
        · rfl
        · apply nhtReqs_nil_of_apply
          intro r hr
          obtain ⟨x, _, hx⟩ := mem_flatMap.mp hr
          obtain ⟨_, h | ⟨_, v, _, _, h⟩⟩ := distribute_all_apply cfg x r hx
          · exact ⟨_, _, _, h⟩
          · exact ⟨_, _, _, h⟩
      rw [hn]
      refine ⟨refs, by simp [refReplay], ?_⟩
      intro a
      rw [hrf a, uses_of_perm_map hperm (fun x => by split <;> simp [markLlgr])]
  have h2 := dropDest_local cfg hd deferring (fun e => fromAddr k e && e.nollgr) p
    (fun x hx => fromAddr_isPeer hk (by simp only [Bool.and_eq_true] at hx; exact hx.1)) hsorted hflags
  exact h1.trans h2

/-- end of deferral: the destinations of the released family get their requests -/
theorem undeferDest_local (cfg : Cfg) (hd : vrfsDistinct cfg.vrfs = true) (deferring : List Nat) {unr : List Addr}
    (f : Nat) (p : Pfx) {ps : List Path} (hs : Sorted ps) (hf : FlagsOK unr ps) :
    LocalOK cfg (dfrOf deferring p) (dfrOf (deferring.filter (· != f)) p) unr p ps (undeferDest cfg f p ps).1
      (undeferDest cfg f p ps).2 := by
  unfold undeferDest
  dsimp only
  have hn : ∀ l : List Req, (∀ r ∈ l, ∃ t q n, r = Req.apply t q n) → ∀ (refs : Refs) (K : Addr → Nat),
      (∀ a, refGet refs a = usesPaths a ps + K a) →
      ∃ refs', refReplay refs (nhtReqs l) = some refs' ∧ ∀ a, refGet refs' a = usesPaths a ps + K a := by
    intro l hl refs K h
    rw [nhtReqs_nil_of_apply hl]
    exact ⟨refs, by simp [refReplay], h⟩
  by_cases hpf : p.fam = f
  · -- the released family
    have hd' : dfrOf (deferring.filter (· != f)) p = false := by
      simp [dfrOf, hpf]
    rw [hd']
    cases he : (eligible ps).isEmpty with
    | true =>
      have hnil : eligible ps = [] := by simpa using he
      simp only [hpf, beq_self_eq_true, he, Bool.not_true, Bool.and_false, Bool.false_eq_true, if_false]
      refine ⟨hs, hf, ?_, by simp [fibReqs], by simp [fibReqs], hn [] (by simp)⟩
      intro fib hc
      have : visE (dfrOf deferring p) ps = [] := by unfold visE; split <;> simp [hnil]
      rw [this] at hc
      simpa [visE, hnil, fibReqs, fibReplay] using hc
    | false =>
      simp only [hpf, beq_self_eq_true, he, Bool.not_false, Bool.and_self, if_true]
      have hsent : sent (⟨p, true, true, eligible ps⟩ : Change) = true := by simp [sent]
      refine ⟨hs, hf, ?_, ?_, distribute_good cfg _, hn _ ?_⟩
      · intro fib _
        simpa [visE] using cells_distribute cfg hd (fib := fib) hsent
      · exact distribute_owned cfg ⟨p, true, true, eligible ps⟩
      · intro r hr
        obtain ⟨_, h | ⟨_, v, _, _, h⟩⟩ := distribute_all_apply cfg _ r hr
        · exact ⟨_, _, _, h⟩
        · exact ⟨_, _, _, h⟩
  · have hb : (p.fam == f) = false := by simpa using hpf
    have hd' : dfrOf (deferring.filter (· != f)) p = dfrOf deferring p := by
      simp only [dfrOf, contains_eq_mem, mem_filter, bne_iff_ne, ne_eq, hpf, not_false_eq_true, and_true]
    rw [hd']
    simp only [hb, Bool.false_and, Bool.false_eq_true, if_false]
    exact LocalOK.refl cfg _ p hs hf

/-- reachability reports, as the reference checker folds them -/
theorem report_contains (unr : List Addr) (a : Addr) (r : Bool) (b : Addr) :
    (report unr (.nh a r)).contains b = if b = a then !r else unr.contains b := by
  cases r
  · simp only [report, contains_cons]
    by_cases h : b = a
    · simp [h]
    · simp [h]
  · simp only [report]
    by_cases h : b = a
    · subst h; simp
    · simp only [h, if_false]
      simp [h]

theorem validityDest_local (cfg : Cfg) (hd : vrfsDistinct cfg.vrfs = true) (deferring : List Nat) {unr : List Addr}
    (a : Addr) (r : Bool) (p : Pfx) {ps : List Path} (hs : Sorted ps) (hf : FlagsOK unr ps) :
    LocalOK cfg (dfrOf deferring p) (dfrOf deferring p) (report unr (.nh a r)) p ps (validityDest cfg deferring a r p ps).1
      (validityDest cfg deferring a r p ps).2 := by
  unfold validityDest
  dsimp only
  generalize dfrOf deferring p = dfr
  obtain ⟨hsorted, hch⟩ := validityPaths_spec p a r hs
  refine ⟨hsorted, ?_, fun fib hc => cells_distD cfg hd dfr hch hc, distD_owned cfg dfr hch, distD_good cfg dfr _, ?_⟩
  · unfold validityPaths
    dsimp only
    split
    · rename_i hno
      intro x hx
      rw [report_contains]
      by_cases hxa : x.nh = a
      · have : ∀ y ∈ ps, ¬ (y.nh = a ∧ y.inv ≠ !r) := by simpa using hno
        have := this x hx
        simp only [hxa, if_true]
        cases hxi : x.inv <;> cases r <;> simp_all
      · simp only [hxa, if_false]; exact hf x hx
    · intro x hx
      obtain ⟨y, hy, rfl⟩ := mem_map.mp hx
      rw [report_contains]
      by_cases hya : y.nh = a
      · simp [hya]
      · have : (y.nh == a) = false := by simpa using hya
        simp only [this, Bool.false_eq_true, if_false, hya]
        exact hf y hy
  · intro refs K hrf
    rw [nhtReqs_distD]
    refine ⟨refs, by simp [refReplay], ?_⟩
    intro b
    rw [hrf b]
    unfold validityPaths
    dsimp only
    split
    · rfl
    · rw [usesPaths_map]
      intro x; split <;> simp


-- ---------------------------------------------------------------- destinations

def keys (ds : List Dest) : List Pfx := ds.map (·.pfx)

def usesAll (a : Addr) (ds : List Dest) : Nat := (ds.map (fun d => usesPaths a d.paths)).sum

theorem lookupDest_cons (d : Dest) (ds : List Dest) (p : Pfx) :
    lookupDest (d :: ds) p = if d.pfx = p then d.paths else lookupDest ds p := by
  unfold lookupDest
  rw [find?_cons]
  by_cases h : d.pfx = p
  · simp [h]
  · have : (d.pfx == p) = false := by simpa using h
    simp [this, h]

theorem lookupDest_of_not_mem {ds : List Dest} {p : Pfx} (h : p ∉ keys ds) : lookupDest ds p = [] := by
  induction ds with
  | nil => rfl
  | cons d ds ih =>
    simp only [keys, map_cons, mem_cons, not_or] at h
    rw [lookupDest_cons, if_neg (fun e => h.1 e.symm)]
    exact ih h.2

theorem lookupDest_mem {ds : List Dest} {d : Dest} (hn : (keys ds).Nodup) (hd : d ∈ ds) :
    lookupDest ds d.pfx = d.paths := by
  induction ds with
  | nil => simp at hd
  | cons x ds ih =>
    simp only [keys, map_cons, nodup_cons] at hn
    rw [lookupDest_cons]
    rcases mem_cons.mp hd with rfl | hd
    · simp
    · have : x.pfx ≠ d.pfx := by
        intro e; apply hn.1; rw [e]; exact mem_map.mpr ⟨d, hd, rfl⟩
      rw [if_neg this]; exact ih hn.2 hd

theorem lookupDest_cases (ds : List Dest) (p : Pfx) :
    lookupDest ds p = [] ∨ ∃ d ∈ ds, d.pfx = p ∧ d.paths = lookupDest ds p := by
  induction ds with
  | nil => left; rfl
  | cons x ds ih =>
    rw [lookupDest_cons]
    by_cases h : x.pfx = p
    · right; exact ⟨x, by simp, h, by simp [h]⟩
    · rw [if_neg h]
      rcases ih with h0 | ⟨d, hd, h1, h2⟩
      · left; exact h0
      · right; exact ⟨d, by simp [hd], h1, h2⟩

theorem lookupDest_filter_ne (ds : List Dest) (p q : Pfx) :
    lookupDest (ds.filter (fun d => !(d.pfx == p))) q = if q = p then [] else lookupDest ds q := by
  induction ds with
  | nil => simp [lookupDest]
  | cons d ds ih =>
    rw [filter_cons]
    by_cases hd : d.pfx = p
    · simp only [hd, beq_self_eq_true, Bool.not_true, Bool.false_eq_true, if_false, ih, lookupDest_cons]
      by_cases hq : q = p
      · simp [hq]
      · have : ¬ p = q := fun e => hq e.symm
        simp [hq, this]
    · have : (d.pfx == p) = false := by simpa using hd
      simp only [this, Bool.not_false, if_true, lookupDest_cons, ih]
      by_cases hq : q = p
      · subst hq; simp [hd]
      · simp [hq]

theorem lookupDest_map_replace (ds : List Dest) (p : Pfx) (x : List Path) (q : Pfx) :
    lookupDest (ds.map (fun d => if (d.pfx == p) = true then (⟨p, x⟩ : Dest) else d)) q =
      if q = p then (if (ds.any fun d => d.pfx == p) = true then x else []) else lookupDest ds q := by
  induction ds with
  | nil => simp [lookupDest]
  | cons d ds ih =>
    rw [map_cons, lookupDest_cons, lookupDest_cons, ih, any_cons]
    by_cases hd : d.pfx = p
    · simp only [hd, beq_self_eq_true, if_true, Bool.true_or]
      by_cases hq : q = p
      · simp [hq]
      · have : ¬ p = q := fun e => hq e.symm
        simp [hq, this]
    · have hb : (d.pfx == p) = false := by simpa using hd
      simp only [hb, Bool.false_eq_true, if_false, Bool.false_or]
      by_cases hq : q = p
      · subst hq; simp [hd]
      · simp [hq]

theorem lookupDest_append_single (ds : List Dest) (p : Pfx) (x : List Path) (q : Pfx) (hnot : p ∉ keys ds) :
    lookupDest (ds ++ [⟨p, x⟩]) q = if q = p then x else lookupDest ds q := by
  induction ds with
  | nil =>
    simp only [nil_append, lookupDest_cons]
    by_cases hq : q = p
    · simp [hq]
    · have : ¬ p = q := fun e => hq e.symm
      simp [hq, this, lookupDest]
  | cons d ds ih =>
    simp only [keys, map_cons, mem_cons, not_or] at hnot
    rw [cons_append, lookupDest_cons, lookupDest_cons, ih hnot.2]
    by_cases hd : d.pfx = q
    · have : ¬ q = p := by rw [← hd]; exact fun e => hnot.1 e.symm
      simp [hd, this]
    · simp [hd]

theorem lookupDest_setDest (ds : List Dest) (p : Pfx) (x : List Path) (q : Pfx) :
    lookupDest (setDest ds p x) q = if q = p then x else lookupDest ds q := by
  unfold setDest
  split
  · rename_i hx
    have hx' : x = [] := by simpa using hx
    rw [lookupDest_filter_ne, hx']
  · split
    · rename_i hany
      rw [lookupDest_map_replace, if_pos hany]
    · rename_i hany
      apply lookupDest_append_single
      intro hm
      obtain ⟨d, hd, he⟩ := mem_map.mp hm
      apply hany
      exact any_eq_true.mpr ⟨d, hd, by simp [he]⟩

theorem mem_setDest {ds : List Dest} {p : Pfx} {x : List Path} {d : Dest} (h : d ∈ setDest ds p x) :
    d ∈ ds ∨ d = ⟨p, x⟩ := by
  unfold setDest at h
  split at h
  · left; exact (mem_filter.mp h).1
  · split at h
    · obtain ⟨e, he, rfl⟩ := mem_map.mp h
      split
      · right; rfl
      · left; exact he
    · rcases mem_append.mp h with h | h
      · left; exact h
      · right; simpa using h

theorem keys_setDest_nodup {ds : List Dest} (p : Pfx) (x : List Path) (hn : (keys ds).Nodup) :
    (keys (setDest ds p x)).Nodup := by
  unfold setDest
  split
  · exact (hn.sublist ((filter_sublist).map _))
  · split
    · have : keys (ds.map fun d => if (d.pfx == p) = true then ⟨p, x⟩ else d) = keys ds := by
        simp only [keys, map_map]
        apply map_congr_left
        intro d _
        simp only [Function.comp]
        split
        · rename_i h
          have : d.pfx = p := by simpa using h
          exact this.symm
        · rfl
      rw [this]; exact hn
    · rename_i hany
      simp only [keys, map_append, map_cons, map_nil]
      apply nodup_append.mpr
      refine ⟨hn, by simp, ?_⟩
      intro a ha b hb
      simp only [mem_cons, not_mem_nil, or_false] at hb
      subst hb
      intro e; subst e
      obtain ⟨d, hd, he⟩ := mem_map.mp ha
      apply hany
      exact any_eq_true.mpr ⟨d, hd, by simp [he]⟩

theorem usesAll_setDest {ds : List Dest} (a : Addr) (p : Pfx) (x : List Path) (hn : (keys ds).Nodup) :
    usesAll a (setDest ds p x) + usesPaths a (lookupDest ds p) = usesAll a ds + usesPaths a x := by
  induction ds with
  | nil =>
    unfold setDest
    cases x with
    | nil => simp [usesAll, lookupDest, usesPaths]
    | cons y ys => simp [usesAll, lookupDest, usesPaths]
  | cons d ds ih =>
    simp only [keys, map_cons, nodup_cons] at hn
    have ih' := ih hn.2
    rw [lookupDest_cons]
    by_cases hd : d.pfx = p
    · -- p is the head; it does not occur in the tail
      have hnot : p ∉ keys ds := by rw [← hd]; exact hn.1
      have hl : lookupDest ds p = [] := lookupDest_of_not_mem hnot
      have hnone : ∀ e ∈ ds, (e.pfx == p) = false := by
        intro e he
        apply beq_eq_false_iff_ne.mpr
        intro h; apply hnot; rw [← h]; exact mem_map.mpr ⟨e, he, rfl⟩
      rw [if_pos hd]
      unfold setDest
      split
      · rename_i hx
        have hx' : x = [] := by simpa using hx
        have : (d :: ds).filter (fun e => !(e.pfx == p)) = ds := by
          rw [filter_cons]; simp only [hd, beq_self_eq_true, Bool.not_true, Bool.false_eq_true, if_false]
          apply filter_eq_self.mpr
          intro e he; simp [hnone e he]
        rw [this, hx']; simp [usesAll, usesPaths]; omega
      · have hany : ((d :: ds).any fun e => e.pfx == p) = true := by simp [any_cons, hd]
        rw [if_pos hany]
        have : (d :: ds).map (fun e => if (e.pfx == p) = true then (⟨p, x⟩ : Dest) else e) = ⟨p, x⟩ :: ds := by
          rw [map_cons]; simp only [hd, beq_self_eq_true, if_true]
          congr 1
          conv => rhs; rw [← map_id ds]
          apply map_congr_left
          intro e he; simp [hnone e he]
        rw [this]; simp [usesAll]; omega
    · rw [if_neg hd]
      have hb : (d.pfx == p) = false := by simpa using hd
      have key : usesAll a (setDest (d :: ds) p x) = usesPaths a d.paths + usesAll a (setDest ds p x) := by
        unfold setDest
        split
        · rw [filter_cons]; simp [hb, usesAll]
        · by_cases hany : (ds.any fun e => e.pfx == p) = true
          · have : ((d :: ds).any fun e => e.pfx == p) = true := by simp [any_cons, hany]
            rw [if_pos this, if_pos hany, map_cons]; simp [hb, usesAll]
          · have : ¬ ((d :: ds).any fun e => e.pfx == p) = true := by simpa [any_cons, hb] using hany
            rw [if_neg this, if_neg hany]; simp [usesAll]
      rw [key]
      have : usesAll a (d :: ds) = usesPaths a d.paths + usesAll a ds := by simp [usesAll]
      rw [this]; omega


-- ---------------------------------------------------------------- traversals

theorem trav_cons (f : Pfx → List Path → List Path × List Req) (d : Dest) (ds : List Dest) :
    trav f (d :: ds) =
      ((if (f d.pfx d.paths).1.isEmpty then (trav f ds).1 else ⟨d.pfx, (f d.pfx d.paths).1⟩ :: (trav f ds).1),
       (f d.pfx d.paths).2 ++ (trav f ds).2) := rfl

theorem keys_trav_sublist (f : Pfx → List Path → List Path × List Req) (ds : List Dest) :
    (keys (trav f ds).1).Sublist (keys ds) := by
  induction ds with
  | nil => simp [trav, keys]
  | cons d ds ih =>
    rw [trav_cons]
    dsimp only
    split
    · exact ih.trans (by simp [keys])
    · simp only [keys, map_cons]; exact ih.cons_cons _

theorem mem_trav {f : Pfx → List Path → List Path × List Req} {ds : List Dest} {d' : Dest}
    (h : d' ∈ (trav f ds).1) : ∃ d ∈ ds, d' = ⟨d.pfx, (f d.pfx d.paths).1⟩ := by
  induction ds with
  | nil => simp [trav] at h
  | cons d ds ih =>
    rw [trav_cons] at h
    dsimp only at h
    split at h
    · obtain ⟨e, he, rfl⟩ := ih h
      exact ⟨e, by simp [he], rfl⟩
    · rcases mem_cons.mp h with rfl | h
      · exact ⟨d, by simp, rfl⟩
      · obtain ⟨e, he, rfl⟩ := ih h
        exact ⟨e, by simp [he], rfl⟩

theorem lookupDest_trav (f : Pfx → List Path → List Path × List Req) (hnil : ∀ q, (f q []).1 = [])
    {ds : List Dest} (hn : (keys ds).Nodup) (p : Pfx) :
    lookupDest (trav f ds).1 p = (f p (lookupDest ds p)).1 := by
  induction ds with
  | nil => simp [trav, lookupDest, hnil]
  | cons d ds ih =>
    simp only [keys, map_cons, nodup_cons] at hn
    rw [trav_cons, lookupDest_cons]
    dsimp only
    by_cases hd : d.pfx = p
    · subst hd
      have hnot : d.pfx ∉ keys (trav f ds).1 := fun hm => hn.1 ((keys_trav_sublist f ds).subset hm)
      simp only [if_true]
      split
      · rename_i he
        rw [lookupDest_of_not_mem hnot]
        exact (by simpa using he : (f d.pfx d.paths).1 = []).symm
      · rw [lookupDest_cons]; simp
    · rw [if_neg hd]
      split
      · exact ih hn.2
      · rw [lookupDest_cons, if_neg hd]; exact ih hn.2

theorem usesAll_cons (a : Addr) (d : Dest) (ds : List Dest) :
    usesAll a (d :: ds) = usesPaths a d.paths + usesAll a ds := by simp [usesAll]

theorem trav_refs {cfg : Cfg} {D D' : Pfx → Bool} {unr' : List Addr} (f : Pfx → List Path → List Path × List Req)
    {ds : List Dest}
    (hloc : ∀ d ∈ ds, LocalOK cfg (D d.pfx) (D' d.pfx) unr' d.pfx d.paths (f d.pfx d.paths).1 (f d.pfx d.paths).2)
    (refs : Refs) (K : Addr → Nat) (h : ∀ a, refGet refs a = usesAll a ds + K a) :
    ∃ refs', refReplay refs (nhtReqs (trav f ds).2) = some refs' ∧
      ∀ a, refGet refs' a = usesAll a (trav f ds).1 + K a := by
  induction ds generalizing refs K with
  | nil => exact ⟨refs, by simp [trav, nhtReqs, refReplay], by simpa [trav] using h⟩
  | cons d ds ih =>
    rw [trav_cons]
    dsimp only
    obtain ⟨refs1, e1, g1⟩ := (hloc d (by simp)).refs refs (fun a => usesAll a ds + K a)
      (by intro a; rw [h a, usesAll_cons]; omega)
    obtain ⟨refs2, e2, g2⟩ := ih (fun e he => hloc e (by simp [he])) refs1
      (fun a => usesPaths a (f d.pfx d.paths).1 + K a) (by intro a; rw [g1 a]; omega)
    refine ⟨refs2, by rw [nhtReqs_append, refReplay_append, e1]; exact e2, ?_⟩
    intro a
    rw [g2 a]
    split
    · rename_i he
      have : (f d.pfx d.paths).1 = [] := by simpa using he
      rw [this]; simp [usesPaths]
    · rw [usesAll_cons]; dsimp only; omega

theorem trav_good {cfg : Cfg} {D D' : Pfx → Bool} {unr' : List Addr} (f : Pfx → List Path → List Path × List Req)
    {ds : List Dest}
    (hloc : ∀ d ∈ ds, LocalOK cfg (D d.pfx) (D' d.pfx) unr' d.pfx d.paths (f d.pfx d.paths).1 (f d.pfx d.paths).2) :
    ∀ r ∈ fibReqs (trav f ds).2, goodKey cfg (r.table, r.pfx) := by
  induction ds with
  | nil => simp [trav, fibReqs]
  | cons d ds ih =>
    intro r hr
    rw [trav_cons, fibReqs_append] at hr
    rcases mem_append.mp hr with hr | hr
    · exact (hloc d (by simp)).good r hr
    · exact ih (fun e he => hloc e (by simp [he])) r hr

/-- requests owned by one prefix leave every cell they do not own alone -/
theorem fibGet_frame {p : Pfx} {rs : List FibReq} (fib : Fib) (ho : ∀ r ∈ rs, owned p (r.table, r.pfx))
    {k : Key} (hk : ¬ owned p k) : fibGet (fibReplay fib rs) k.1 k.2 = fibGet fib k.1 k.2 := by
  rw [fibGet_replay, lastNhs_none_of_forall]
  · rfl
  · intro r hr e
    apply hk
    have : k = (r.table, r.pfx) := by rw [e]
    rw [this]; exact ho r hr

theorem trav_fib {cfg : Cfg} {D D' : Pfx → Bool} {unr' : List Addr} (f : Pfx → List Path → List Path × List Req)
    {ds : List Dest} (hn : (keys ds).Nodup)
    (hloc : ∀ d ∈ ds, LocalOK cfg (D d.pfx) (D' d.pfx) unr' d.pfx d.paths (f d.pfx d.paths).1 (f d.pfx d.paths).2)
    (fib : Fib) :
    (∀ k : Key, (∀ d ∈ ds, ¬ owned d.pfx k) →
        fibGet (fibReplay fib (fibReqs (trav f ds).2)) k.1 k.2 = fibGet fib k.1 k.2) ∧
    (∀ d ∈ ds, CellsOK cfg fib d.pfx (visE (D d.pfx) d.paths) →
        CellsOK cfg (fibReplay fib (fibReqs (trav f ds).2)) d.pfx (visE (D' d.pfx) (f d.pfx d.paths).1)) := by
  induction ds generalizing fib with
  | nil => exact ⟨fun k _ => by simp [trav, fibReqs, fibReplay], fun d hd => by simp at hd⟩
  | cons d ds ih =>
    simp only [keys, map_cons, nodup_cons] at hn
    have hl := hloc d (by simp)
    obtain ⟨ihA, ihB⟩ := ih hn.2 (fun e he => hloc e (by simp [he]))
      (fibReplay fib (fibReqs (f d.pfx d.paths).2))
    have hreq : fibReqs (trav f (d :: ds)).2 = fibReqs (f d.pfx d.paths).2 ++ fibReqs (trav f ds).2 := by
      rw [trav_cons, fibReqs_append]
    rw [hreq, fibReplay_append]
    constructor
    · intro k hk
      rw [ihA k (fun e he => hk e (by simp [he]))]
      exact fibGet_frame fib hl.owned (hk d (by simp))
    · intro e he hc
      rcases mem_cons.mp he with rfl | he
      · -- the head: its cells are set by its own requests and untouched by the rest
        apply (hl.cells fib hc).transfer
        intro k hk
        apply ihA k
        intro e' he' hown
        have : e.pfx = e'.pfx := owned_inj hk hown
        apply hn.1; rw [this]; exact mem_map.mpr ⟨e', he', rfl⟩
      · apply ihB e he
        apply hc.transfer
        intro k hk
        apply fibGet_frame fib hl.owned
        intro hown
        have : d.pfx = e.pfx := owned_inj hown hk
        apply hn.1; rw [this]; exact mem_map.mpr ⟨e, he, rfl⟩


-- ---------------------------------------------------------------- the global invariant

/-- Model state `st`, the replay (`fib`, `refs`) of all requests issued so far and the reachability
    reports so far (`unr`) are in step. -/
structure Inv (cfg : Cfg) (st : St) (fib : Fib) (refs : Refs) (unr : List Addr) : Prop where
  nodup : (keys st.dests).Nodup
  sorted : ∀ d ∈ st.dests, Sorted d.paths
  flags : ∀ d ∈ st.dests, FlagsOK unr d.paths
  cells : ∀ p, CellsOK cfg fib p (visE (dfrOf st.deferring p) (lookupDest st.dests p))
  refs : ∀ a, refGet refs a = usesAll a st.dests
  inval : ∀ a, st.invalid.contains a = unr.contains a
  keys : ∀ e ∈ fib, goodKey cfg e.1

theorem Inv.sorted_lookup {cfg st fib refs unr} (h : Inv cfg st fib refs unr) (p : Pfx) :
    Sorted (lookupDest st.dests p) := by
  rcases lookupDest_cases st.dests p with h0 | ⟨d, hd, _, h2⟩
  · rw [h0]; simp [Sorted]
  · rw [← h2]; exact h.sorted d hd

theorem Inv.flags_lookup {cfg st fib refs unr} (h : Inv cfg st fib refs unr) (p : Pfx) :
    FlagsOK unr (lookupDest st.dests p) := by
  rcases lookupDest_cases st.dests p with h0 | ⟨d, hd, _, h2⟩
  · rw [h0]; intro x hx; simp at hx
  · rw [← h2]; exact h.flags d hd

/-- an operation on the single destination `p` -/
theorem inv_setDest {cfg : Cfg} {st : St} {fib : Fib} {refs : Refs} {unr : List Addr}
    (h : Inv cfg st fib refs unr) (p : Pfx) {ps' : List Path} {reqs : List Req}
    (hl : LocalOK cfg (dfrOf st.deferring p) (dfrOf st.deferring p) unr p (lookupDest st.dests p) ps' reqs) (st' : St)
    (hd : st'.dests = setDest st.dests p ps') (hi : st'.invalid = st.invalid) (hdf : st'.deferring = st.deferring) :
    ∃ refs', refReplay refs (nhtReqs reqs) = some refs' ∧
      Inv cfg st' (fibReplay fib (fibReqs reqs)) refs' unr := by
  have hu1 := fun a => usesAll_setDest a p [] h.nodup
  have hu2 := fun a => usesAll_setDest a p ps' h.nodup
  obtain ⟨refs', e1, g1⟩ := hl.refs refs (fun a => usesAll a (setDest st.dests p []))
    (by intro a; rw [h.refs a]; have := hu1 a; have e0 : usesPaths a [] = 0 := rfl; rw [e0] at this; omega)
  refine ⟨refs', e1, ?_⟩
  refine ⟨?_, ?_, ?_, ?_, ?_, ?_, fibReplay_keys _ _ h.keys hl.good⟩
  · rw [hd]; exact keys_setDest_nodup p ps' h.nodup
  · intro d hdm
    rw [hd] at hdm
    rcases mem_setDest hdm with hdm | rfl
    · exact h.sorted d hdm
    · exact hl.sorted
  · intro d hdm
    rw [hd] at hdm
    rcases mem_setDest hdm with hdm | rfl
    · exact h.flags d hdm
    · exact hl.flags
  · intro q
    rw [hd, hdf, lookupDest_setDest]
    by_cases hq : q = p
    · subst hq; simp only [if_true]; exact hl.cells fib (h.cells q)
    · simp only [hq, if_false]
      apply (h.cells q).transfer
      intro k hk
      apply fibGet_frame fib hl.owned
      intro hown
      exact hq (owned_inj hk hown)
  · intro a
    rw [g1 a, hd]
    have h1 := hu1 a; have h2 := hu2 a
    have e0 : usesPaths a [] = 0 := rfl
    rw [e0] at h1; omega
  · intro a; rw [hi]; exact h.inval a

/-- an operation applied to every destination -/
theorem inv_trav {cfg : Cfg} {st : St} {fib : Fib} {refs : Refs} {unr unr' : List Addr}
    (h : Inv cfg st fib refs unr) (f : Pfx → List Path → List Path × List Req) (st' : St)
    (hloc : ∀ q ps, Sorted ps → FlagsOK unr ps →
      LocalOK cfg (dfrOf st.deferring q) (dfrOf st'.deferring q) unr' q ps (f q ps).1 (f q ps).2)
    (hnil : ∀ q, (f q []).1 = [])
    (hd : st'.dests = (trav f st.dests).1) (hi : ∀ a, st'.invalid.contains a = unr'.contains a) :
    ∃ refs', refReplay refs (nhtReqs (trav f st.dests).2) = some refs' ∧
      Inv cfg st' (fibReplay fib (fibReqs (trav f st.dests).2)) refs' unr' := by
  have hlocd : ∀ d ∈ st.dests, LocalOK cfg (dfrOf st.deferring d.pfx) (dfrOf st'.deferring d.pfx) unr' d.pfx d.paths
      (f d.pfx d.paths).1 (f d.pfx d.paths).2 :=
    fun d hdm => hloc d.pfx d.paths (h.sorted d hdm) (h.flags d hdm)
  obtain ⟨refs', e1, g1⟩ := trav_refs f hlocd refs (fun _ => 0) (by intro a; rw [h.refs a]; simp)
  obtain ⟨hA, hB⟩ := trav_fib f h.nodup hlocd fib
  refine ⟨refs', e1, ?_⟩
  refine ⟨?_, ?_, ?_, ?_, ?_, hi, fibReplay_keys _ _ h.keys (trav_good f hlocd)⟩
  · rw [hd]; exact h.nodup.sublist (keys_trav_sublist f st.dests)
  · intro d hdm
    rw [hd] at hdm
    obtain ⟨e, he, rfl⟩ := mem_trav hdm
    exact (hlocd e he).sorted
  · intro d hdm
    rw [hd] at hdm
    obtain ⟨e, he, rfl⟩ := mem_trav hdm
    exact (hlocd e he).flags
  · intro q
    rw [hd, lookupDest_trav f hnil h.nodup]
    by_cases hq : q ∈ keys st.dests
    · obtain ⟨d, hdm, rfl⟩ := mem_map.mp hq
      have hc := h.cells d.pfx
      rw [lookupDest_mem h.nodup hdm] at hc ⊢
      exact hB d hdm hc
    · have hc := h.cells q
      rw [lookupDest_of_not_mem hq] at hc ⊢
      have hn0 : (f q []).1 = [] := hnil q
      rw [hn0]
      have hv : ∀ b : Bool, visE b ([] : List Path) = [] := by intro b; cases b <;> rfl
      rw [hv] at hc ⊢
      apply hc.transfer
      intro k hk
      apply hA k
      intro d hdm hown
      apply hq
      rw [owned_inj hk hown]; exact mem_map.mpr ⟨d, hdm, rfl⟩
  · intro a; rw [g1 a, hd]; simp


theorem invalid_update_contains (inv unr : List Addr) (a : Addr) (r : Bool) (h : ∀ b, inv.contains b = unr.contains b) (b : Addr) :
    (if r then inv.filter (· != a) else if inv.contains a then inv else a :: inv).contains b =
      (report unr (.nh a r)).contains b := by
  rw [report_contains]
  cases r
  · simp only [Bool.false_eq_true, if_false, Bool.not_false]
    by_cases hb : b = a
    · subst hb
      split
      · rename_i hc; simpa using hc
      · simp
    · simp only [hb, if_false, ← h b]
      split
      · rfl
      · simp [hb]
  · simp only [if_true, Bool.not_true]
    by_cases hb : b = a
    · subst hb; simp
    · have := h b
      simp only [contains_eq_mem, decide_eq_decide] at this
      simp [hb, this]

theorem wf_peer_lt {cfg : Cfg} (hc : cfg.wf = true) {k : Nat} (hk : k < cfg.peers.length) : k < 100 := by
  simp only [Cfg.wf, Bool.and_eq_true, decide_eq_true_eq] at hc
  omega

theorem wf_distinct {cfg : Cfg} (hc : cfg.wf = true) : vrfsDistinct cfg.vrfs = true := by
  simp only [Cfg.wf, Bool.and_eq_true] at hc
  exact hc.1.2

/-- history as the reference checker folds it: the families still in deferral -/
theorem undeferred_eq (dfr : List Nat) (op : Op) :
    undeferred dfr op = match op with | .undefer f => dfr.filter (· != f) | _ => dfr := by
  cases op <;> rfl

/-- Every history step keeps the invariant; the tracking requests never unregister an address
    without outstanding registration. -/
theorem step_inv {cfg : Cfg} {st : St} {fib : Fib} {refs : Refs} {unr : List Addr}
    (hc : cfg.wf = true) (op : Op) (hop : op.wf cfg = true) (h : Inv cfg st fib refs unr) :
    ∃ refs', refReplay refs (nhtReqs (step cfg st op).2) = some refs' ∧
      Inv cfg (step cfg st op).1 (fibReplay fib (fibReqs (step cfg st op).2)) refs' (report unr op) ∧
      (step cfg st op).1.deferring = undeferred st.deferring op := by
  have hd := wf_distinct hc
  have wrap : ∀ {st' : St} {reqs : List Req} {unr' : List Addr},
      (∃ refs', refReplay refs (nhtReqs reqs) = some refs' ∧ Inv cfg st' (fibReplay fib (fibReqs reqs)) refs' unr') →
      st'.deferring = undeferred st.deferring op →
      ∃ refs', refReplay refs (nhtReqs reqs) = some refs' ∧ Inv cfg st' (fibReplay fib (fibReqs reqs)) refs' unr' ∧
        st'.deferring = undeferred st.deferring op := by
    intro st' reqs unr' ⟨r, e, i⟩ hdf
    exact ⟨r, e, i, hdf⟩
  cases op with
  | ins src p pid nh att =>
    exact wrap (inv_setDest h p (insertDest_local cfg hd _ st.policy st.invalid p src (sidOf st src) pid nh att st.next
      (h.sorted_lookup p) (h.flags_lookup p) h.inval) _ rfl rfl rfl) rfl
  | rm src p pid =>
    exact wrap (inv_setDest h p (removeDest_local cfg hd _ p src pid (h.sorted_lookup p) (h.flags_lookup p)) _ rfl rfl rfl) rfl
  | down k =>
    have hk : k < 100 := wf_peer_lt hc (by simpa [Op.wf] using hop)
    exact wrap (inv_trav h (dropDest cfg st.deferring (fromAddr k)) _
      (fun q ps hs hf => dropDest_local cfg hd st.deferring _ q (fun x hx => fromAddr_isPeer hk hx) hs hf)
      (fun q => by simp [dropDest, dropPaths]) rfl h.inval) rfl
  | drop k =>
    have hk : k < 100 := wf_peer_lt hc (by simpa [Op.wf] using hop)
    exact wrap (inv_trav h (dropDest cfg st.deferring (fromAddr k)) _
      (fun q ps hs hf => dropDest_local cfg hd st.deferring _ q (fun x hx => fromAddr_isPeer hk hx) hs hf)
      (fun q => by simp [dropDest, dropPaths]) rfl h.inval) rfl
  | stale k =>
    exact wrap (inv_trav h (restaleDest cfg st.deferring k) _
      (fun q ps hs hf => restaleDest_local cfg hd st.deferring k q hs hf)
      (fun q => by simp [restaleDest, restalePaths]) rfl h.inval) rfl
  | purge k =>
    have hk : k < 100 := wf_peer_lt hc (by simpa [Op.wf] using hop)
    exact wrap (inv_trav h (dropDest cfg st.deferring (fun e => fromAddr k e && e.stale)) _
      (fun q ps hs hf => dropDest_local cfg hd st.deferring _ q
        (fun x hx => fromAddr_isPeer hk (by simp only [Bool.and_eq_true] at hx; exact hx.1)) hs hf)
      (fun q => by simp [dropDest, dropPaths]) rfl h.inval) rfl
  | llgr k =>
    have hk : k < 100 := wf_peer_lt hc (by simpa [Op.wf] using hop)
    exact wrap (inv_trav h (llgrDest cfg st.deferring k) _
      (fun q ps hs hf => llgrDest_local cfg hd st.deferring k hk q hs hf)
      (fun q => by simp [llgrDest, restaleLlgrPaths, dropDest, dropPaths]) rfl h.inval) rfl
  | lpurge k =>
    have hk : k < 100 := wf_peer_lt hc (by simpa [Op.wf] using hop)
    exact wrap (inv_trav h (dropDest cfg st.deferring (fun e => fromAddr k e && e.llgr)) _
      (fun q ps hs hf => dropDest_local cfg hd st.deferring _ q
        (fun x hx => fromAddr_isPeer hk (by simp only [Bool.and_eq_true] at hx; exact hx.1)) hs hf)
      (fun q => by simp [dropDest, dropPaths]) rfl h.inval) rfl
  | soft k =>
    exact wrap (inv_trav h (softDest cfg st.deferring st.policy st.invalid k) _
      (fun q ps hs hf => softPaths_local cfg hd _ st.policy st.invalid q _ hs hf h.inval)
      (fun q => by simp [softDest, softPaths]) rfl h.inval) rfl
  | pol rules =>
    refine ⟨refs, by simp [step, nhtReqs, refReplay], ?_, rfl⟩
    simpa [step, fibReqs, fibReplay, report] using
      (⟨h.nodup, h.sorted, h.flags, h.cells, h.refs, h.inval, h.keys⟩ : Inv cfg { st with policy := rules } fib refs unr)
  | nh a r =>
    exact wrap (inv_trav h (validityDest cfg st.deferring a r) _
      (fun q ps hs hf => validityDest_local cfg hd st.deferring a r q hs hf)
      (fun q => by simp [validityDest, validityPaths]) rfl
      (fun b => invalid_update_contains st.invalid unr a r h.inval b)) rfl
  | undefer f =>
    exact wrap (inv_trav h (undeferDest cfg f) _
      (fun q ps hs hf => undeferDest_local cfg hd st.deferring f q hs hf)
      (fun q => by simp [undeferDest]) rfl h.inval) rfl
  | insl src p pid nh att =>
    by_cases hl : limitAdmits (lookupDest st.dests p) (sidOf st src) = true
    · have e : step cfg st (.insl src p pid nh att) = insertRoute cfg st src p pid nh att := by simp [step, hl]
      rw [e]
      exact wrap (inv_setDest h p (insertDest_local cfg hd _ st.policy st.invalid p src (sidOf st src) pid nh att st.next
        (h.sorted_lookup p) (h.flags_lookup p) h.inval) _ rfl rfl rfl) rfl
    · have e : step cfg st (.insl src p pid nh att) = (st, []) := by simp [step, hl]
      rw [e]
      exact ⟨refs, by simp [nhtReqs, refReplay], by simpa [fibReqs, fibReplay, report] using h, rfl⟩
  | gdown k m =>
    have hk : k < 100 := wf_peer_lt hc (by simp only [Op.wf, Bool.and_eq_true, decide_eq_true_eq] at hop; exact hop.1)
    exact wrap (inv_trav h (gdownDest cfg st.deferring k m) _
      (fun q ps hs hf => by
        unfold gdownDest
        split
        · exact restaleDest_local cfg hd st.deferring k q hs hf
        · exact dropDest_local cfg hd st.deferring _ q (fun x hx => fromAddr_isPeer hk hx) hs hf)
      (fun q => by unfold gdownDest; split <;> simp [restaleDest, restalePaths, dropDest, dropPaths]) rfl h.inval) rfl
  | purgef k f =>
    have hk : k < 100 := wf_peer_lt hc (by simp only [Op.wf, Bool.and_eq_true, decide_eq_true_eq] at hop; exact hop.1)
    exact wrap (inv_trav h (purgefDest cfg st.deferring k f) _
      (fun q ps hs hf => by
        unfold purgefDest
        split
        · exact dropDest_local cfg hd st.deferring _ q
            (fun x hx => fromAddr_isPeer hk (by simp only [Bool.and_eq_true] at hx; exact hx.1)) hs hf
        · exact LocalOK.refl cfg _ q hs hf)
      (fun q => by unfold purgefDest; split <;> simp [dropDest, dropPaths]) rfl h.inval) rfl

theorem inv_init (cfg : Cfg) : Inv cfg (St.init cfg) [] [] [] := by
  refine ⟨by simp [St.init, keys], by simp [St.init], by simp [St.init], ?_, by simp [St.init, refGet, usesAll], by simp [St.init], by simp⟩
  intro p
  have : visE (dfrOf (St.init cfg).deferring p) (lookupDest (St.init cfg).dests p) = [] := by
    simp only [St.init, lookupDest, find?_nil, visE, eligible, filter_nil]; exact ite_self _
  rw [this]
  exact ⟨rfl, fun _ _ _ _ => rfl⟩

-- ---------------------------------------------------------------- model order vs. the property's order

theorem beats_iff (q p : PathObs) : beats q p = true ↔
    (b2n q.llgr < b2n p.llgr ∨ (b2n q.llgr = b2n p.llgr ∧
    (p.lp < q.lp ∨ (p.lp = q.lp ∧
    (q.asl < p.asl ∨ (q.asl = p.asl ∧
    (q.org < p.org ∨ (q.org = p.org ∧
    (b2n p.eb < b2n q.eb ∨ (b2n p.eb = b2n q.eb ∧
      (b2n q.stale < b2n p.stale ∨ (b2n q.stale = b2n p.stale ∧ q.cl < p.cl)))))))))))) := by
  unfold beats
  by_cases h0 : q.llgr = p.llgr
  · have e0 : (q.llgr != p.llgr) = false := by simp [h0]
    simp only [e0, Bool.false_eq_true, if_false, h0, true_and, Nat.lt_irrefl, false_or]
    by_cases h1 : q.lp = p.lp
    · have e1 : (q.lp != p.lp) = false := by simp [h1]
      simp only [e1, Bool.false_eq_true, if_false, h1, true_and, Nat.lt_irrefl, false_or]
      by_cases h2 : q.asl = p.asl
      · have e2 : (q.asl != p.asl) = false := by simp [h2]
        simp only [e2, Bool.false_eq_true, if_false, h2, true_and, Nat.lt_irrefl, false_or]
        by_cases h3 : q.org = p.org
        · have e3 : (q.org != p.org) = false := by simp [h3]
          simp only [e3, Bool.false_eq_true, if_false, h3, true_and, Nat.lt_irrefl, false_or]
          cases h4 : q.eb <;> cases h5 : p.eb <;> cases h6 : q.stale <;> cases h7 : p.stale <;> simp [b2n]
        · have e3 : (q.org != p.org) = true := by simpa using h3
          simp [h3]
      · have e2 : (q.asl != p.asl) = true := by simpa using h2
        simp [h2]
    · have e1 : (q.lp != p.lp) = true := by simpa using h1
      have h1' : ¬ p.lp = q.lp := fun e => h1 e.symm
      simp [h1, h1']
  · have e0 : (q.llgr != p.llgr) = true := by simpa using h0
    simp only [e0, if_true]
    cases hq : q.llgr <;> cases hp : p.llgr <;> simp_all [b2n]

theorem ecmpKey_eq_iff (x y : Path) : ecmpKey x = ecmpKey y ↔
    (b2n x.isLl = b2n y.isLl ∧ x.lp = y.lp ∧ x.asl = y.asl ∧ x.org = y.org ∧ b2n x.eb = b2n y.eb ∧
      b2n x.stale = b2n y.stale ∧ x.cl = y.cl) := by
  simp only [ecmpKey, Prod.mk.injEq, b2n_inj]

theorem not_beats_of_ge {x y : Path} (h : cmpGe y x = true) : beats (pathObs y) (pathObs x) = false := by
  apply Bool.eq_false_iff.mpr
  intro hb
  rw [beats_iff] at hb
  rw [cmpGe_iff] at h
  simp only [pathObs] at hb
  omega

theorem key_eq_of_ge_not_beats {x y : Path} (h : cmpGe y x = true)
    (hb : beats (pathObs x) (pathObs y) = false) : ecmpKey x = ecmpKey y := by
  have hb' : ¬ beats (pathObs x) (pathObs y) = true := by simp [hb]
  rw [beats_iff] at hb'
  rw [cmpGe_iff] at h
  rw [ecmpKey_eq_iff]
  simp only [pathObs] at hb'
  have := b2n_le x.eb; have := b2n_le y.eb; have := b2n_le x.stale; have := b2n_le y.stale
  have := b2n_le x.isLl; have := b2n_le y.isLl
  omega

theorem beats_congr (q p p' : PathObs) (h0 : p.llgr = p'.llgr) (h1 : p.lp = p'.lp) (ha : p.asl = p'.asl)
    (ho : p.org = p'.org) (h2 : p.eb = p'.eb) (h3 : p.stale = p'.stale)
    (h4 : p.cl = p'.cl) : beats q p = beats q p' := by
  unfold beats; rw [h0, h1, ha, ho, h2, h3, h4]

theorem beats_congr_key {p b : Path} (h : ecmpKey p = ecmpKey b) (q : PathObs) :
    beats q (pathObs p) = beats q (pathObs b) := by
  rw [ecmpKey_eq_iff] at h
  exact beats_congr q _ _ (b2n_inj.mp h.1) h.2.1 h.2.2.1 h.2.2.2.1 (b2n_inj.mp h.2.2.2.2.1)
    (b2n_inj.mp h.2.2.2.2.2.1) h.2.2.2.2.2.2

theorem key_sandwich {b x y : Path} (h1 : cmpGe x b = true) (h2 : cmpGe y x = true)
    (h : ecmpKey y = ecmpKey b) : ecmpKey x = ecmpKey b := by
  rw [ecmpKey_eq_iff] at *
  rw [cmpGe_iff] at h1 h2
  omega

theorem rid_le_of_ge_not_beats {q b : Path} (h : cmpGe q b = true)
    (hb : beats (pathObs b) (pathObs q) = false) : b.rid ≤ q.rid := by
  have hb' : ¬ beats (pathObs b) (pathObs q) = true := by simp [hb]
  rw [beats_iff] at hb'
  rw [cmpGe_iff] at h
  simp only [pathObs] at hb'
  omega

theorem takeWhile_eq_filter_of_closed {P : Path → Bool} {l : List Path}
    (h : l.Pairwise (fun x y => P y = true → P x = true)) : l.takeWhile P = l.filter P := by
  induction l with
  | nil => rfl
  | cons a t ih =>
    rw [pairwise_cons] at h
    rw [takeWhile_cons, filter_cons]
    cases hp : P a
    · simp only [Bool.false_eq_true, if_false]
      symm
      apply filter_eq_nil_iff.mpr
      intro y hy hpy
      have := h.1 y hy hpy
      simp [hp] at this
    · simp only [if_true]; rw [ih h.2]

/-- in table order the paths tied with the head before the router-id step are a leading run -/
theorem ecmpPaths_eq_filter {b : Path} {t : List Path} (hs : Sorted (b :: t)) :
    ecmpPaths (b :: t) = (b :: t).filter (fun p => ecmpKey p == ecmpKey b) := by
  unfold ecmpPaths
  apply takeWhile_eq_filter_of_closed
  have hmin : ∀ x ∈ b :: t, cmpGe x b = true := by
    intro x hx
    rcases mem_cons.mp hx with rfl | hx
    · exact cmpGe_refl _
    · unfold Sorted at hs; exact (pairwise_cons.mp hs).1 x hx
  unfold Sorted at hs
  have : ∀ x y, x ∈ b :: t → y ∈ b :: t → cmpGe y x = true →
      (ecmpKey y == ecmpKey b) = true → (ecmpKey x == ecmpKey b) = true := by
    intro x y hx _ hxy hy
    have hy' : ecmpKey y = ecmpKey b := by simpa using hy
    simpa using key_sandwich (hmin x hx) hxy hy'
  exact hs.imp_of_mem (fun {x y} hx hy hxy => this x y hx hy hxy)

/-- The property's "best path and the paths tied with it before the router-id step" is what
    `ecmp_paths` yields on a list in table order. -/
theorem spec_ecmp_eq {E : List Path} (hs : Sorted E) :
    Spec.ecmp (E.map pathObs) = (ecmpPaths E).map pathObs := by
  cases E with
  | nil => rfl
  | cons b t =>
    rw [ecmpPaths_eq_filter hs]
    unfold Spec.ecmp
    rw [filter_map]
    congr 1
    apply filter_congr
    intro p hp
    have hmin : ∀ x ∈ b :: t, cmpGe x b = true := by
      intro x hx
      rcases mem_cons.mp hx with rfl | hx
      · exact cmpGe_refl _
      · unfold Sorted at hs; exact (pairwise_cons.mp hs).1 x hx
    simp only [Function.comp]
    cases hk : (ecmpKey p == ecmpKey b)
    · -- p is not tied with the head: the head beats it
      apply Bool.eq_false_iff.mpr
      intro hall
      have hall' := all_eq_true.mp hall (pathObs b) (mem_map.mpr ⟨b, by simp, rfl⟩)
      have hnb : beats (pathObs b) (pathObs p) = false := by simpa using hall'
      have := key_eq_of_ge_not_beats (hmin p hp) hnb
      simp [this] at hk
    · have hk' : ecmpKey p = ecmpKey b := by simpa using hk
      apply all_eq_true.mpr
      intro q hq
      obtain ⟨x, hx, rfl⟩ := mem_map.mp hq
      rw [beats_congr_key hk', not_beats_of_ge (hmin x hx)]
      rfl

/-- the head of the eligible list in table order is a best path in the property's sense -/
theorem head_mem_bests {b : Path} {t : List Path} (hs : Sorted (b :: t)) :
    pathObs b ∈ Spec.bests ((b :: t).map pathObs) := by
  unfold Spec.bests
  apply mem_filter.mpr
  refine ⟨mem_map.mpr ⟨b, by simp, rfl⟩, ?_⟩
  apply all_eq_true.mpr
  intro q hq
  obtain ⟨x, hx, rfl⟩ := mem_map.mp hq
  have hge : cmpGe x b = true := by
    rcases mem_cons.mp hx with rfl | hx
    · exact cmpGe_refl _
    · unfold Sorted at hs; exact (pairwise_cons.mp hs).1 x hx
  unfold beatsRid
  rw [not_beats_of_ge hge]
  cases hb : beats (pathObs b) (pathObs x)
  · have := rid_le_of_ge_not_beats hge hb
    simp only [pathObs] at this ⊢
    simp only [Bool.false_or, Bool.not_false, Bool.true_and, Bool.not_eq_true']
    exact decide_eq_false (by omega)
  · simp


-- ---------------------------------------------------------------- the reference checker on model runs

theorem ribGet_map (ds : List Dest) (p : Pfx) :
    ribGet (ds.map destObs) p = (lookupDest ds p).map pathObs := by
  induction ds with
  | nil => rfl
  | cons d ds ih =>
    rw [lookupDest_cons]
    unfold ribGet at ih ⊢
    rw [map_cons, find?_cons]
    by_cases h : d.pfx = p
    · simp [destObs, h]
    · have : ((destObs d).pfx == p) = false := by simpa [destObs] using h
      simp only [this, h, if_false]
      exact ih

theorem uses_map (ds : List Dest) (a : Addr) : uses (ds.map destObs) a = usesAll a ds := by
  unfold uses usesAll
  rw [map_map]
  congr 1
  apply map_congr_left
  intro d _
  simp only [Function.comp, destObs, usesPaths, filter_map, length_map]
  rfl

theorem spec_eligible_map {unr : List Addr} {ps : List Path} (hf : FlagsOK unr ps) :
    Spec.eligible unr (ps.map pathObs) = (eligible ps).map pathObs := by
  unfold Spec.eligible eligible
  rw [filter_map]
  congr 1
  apply filter_congr
  intro x hx
  simp only [Function.comp, pathObs, hf x hx]

theorem firstSome_none {α} {f : α → Option String} {l : List α} (h : ∀ x ∈ l, f x = none) :
    firstSome f l = none := by
  induction l with
  | nil => rfl
  | cons x xs ih =>
    simp only [firstSome, h x (by simp)]
    exact ih (fun y hy => h y (by simp [hy]))

theorem sameSet_refl (l : List Addr) : sameSet l l = true := by
  simp [sameSet, subset]

theorem want_spec {unr : List Addr} {ps : List Path} (hs : Sorted ps) (hf : FlagsOK unr ps) :
    (Spec.ecmp (Spec.eligible unr (ps.map pathObs))).map (·.nh) = want (eligible ps) := by
  rw [spec_eligible_map hf, spec_ecmp_eq hs.eligible, map_map]
  rfl

theorem want_reachable {unr : List Addr} {ps : List Path} (hf : FlagsOK unr ps) :
    (want (eligible ps)).any (fun a => unr.contains a) = false := by
  apply Bool.eq_false_iff.mpr
  intro h
  obtain ⟨a, ha, hu⟩ := any_eq_true.mp h
  obtain ⟨x, hx, rfl⟩ := mem_map.mp ha
  have hxe : x ∈ eligible ps := by
    cases he : eligible ps with
    | nil => rw [he] at hx; simp [ecmpPaths] at hx
    | cons b t =>
      rw [he] at hx
      unfold ecmpPaths at hx
      exact (takeWhile_sublist _).subset hx
  obtain ⟨hxp, hel⟩ := mem_filter.mp hxe
  have : x.inv = false := by
    simp only [Bool.and_eq_true, Bool.not_eq_true'] at hel; exact hel.2
  rw [hf x hxp] at this
  rw [this] at hu; simp at hu

theorem vis_sorted {l : List Path} (hs : Sorted l) (b : Bool) : Sorted (visE b l) := by
  unfold visE; split
  · simp [Sorted]
  · exact hs.eligible

theorem checkMainPfx_ok {cfg st fib refs unr} (h : Inv cfg st fib refs unr) (p : Pfx) :
    checkMainPfx st.deferring unr fib (st.dests.map destObs) p = none := by
  unfold checkMainPfx
  split
  · rfl
  · rename_i hcond
    have hnd : dfrOf st.deferring p = false := by
      simp only [Bool.or_eq_true, not_or, Bool.not_eq_true] at hcond
      exact hcond.2
    dsimp only
    have hc := (h.cells p).main
    simp only [visE, hnd, Bool.false_eq_true, if_false] at hc
    rw [ribGet_map, want_spec (h.sorted_lookup p) (h.flags_lookup p), hc,
      want_reachable (h.flags_lookup p), sameSet_refl]
    simp

theorem vrfWant_reachable {unr : List Addr} {ps : List Path} (hf : FlagsOK unr ps) (v : Vrf) :
    (vrfWant v (eligible ps)).any (fun a => unr.contains a) = false := by
  cases he : eligible ps with
  | nil => rfl
  | cons b t =>
    simp only [vrfWant]
    split
    · rw [← he]; exact want_reachable hf
    · rfl

theorem checkVrfPfx_ok {cfg st fib refs unr} (h : Inv cfg st fib refs unr) (v : Vrf) (hv : v ∈ cfg.vrfs) (p : Pfx) :
    checkVrfPfx st.deferring unr fib (st.dests.map destObs) v p = none := by
  unfold checkVrfPfx
  split
  · rfl
  · rename_i hcond
    have hcond' : p.isVpn = true ∧ v.tid ≠ 0 ∧ dfrOf st.deferring p = false := by
      simp only [Bool.or_eq_true, Bool.not_eq_true', beq_iff_eq, not_or, Bool.not_eq_true] at hcond
      exact ⟨by simpa using hcond.1.1, hcond.1.2, hcond.2⟩
    dsimp only
    have hcell := (h.cells p).vrf hcond'.1 v hv hcond'.2.1
    simp only [visE, hcond'.2.2, Bool.false_eq_true, if_false] at hcell
    rw [ribGet_map, spec_eligible_map (h.flags_lookup p), hcell, vrfWant_reachable (h.flags_lookup p)]
    simp only [Bool.false_eq_true, if_false]
    have hs := (h.sorted_lookup p).eligible
    have hw := want_spec (h.sorted_lookup p) (h.flags_lookup p)
    rw [spec_eligible_map (h.flags_lookup p)] at hw
    cases he : eligible (lookupDest st.dests p) with
    | nil => simp [vrfWant]
    | cons b t =>
      rw [he] at hs hw
      have hbm := head_mem_bests hs
      have hrm : rtMatch v (pathObs b) = canImport v b.rts := by simp [rtMatch, canImport, pathObs]
      simp only [map_cons, isEmpty_cons, Bool.false_eq_true, if_false] at hw ⊢
      rw [hw]
      cases hi : canImport v b.rts with
      | true =>
        simp only [vrfWant, hi, if_true, sameSet_refl, Bool.true_or]
        split
        · rfl
        · split
          · rename_i hany
            exfalso
            have : (bests (pathObs b :: map pathObs t)).any (rtMatch v) = true :=
              any_eq_true.mpr ⟨pathObs b, by simpa using hbm, by rw [hrm, hi]⟩
            simp [this] at hany
          · rfl
      | false =>
        simp only [vrfWant, hi, Bool.false_eq_true, if_false, isEmpty_nil, Bool.or_true]
        split
        · rename_i hall
          exfalso
          have := all_eq_true.mp hall (pathObs b) (by simpa using hbm)
          rw [hrm, hi] at this; simp at this
        · split <;> rfl

theorem checkCell_ok {cfg st fib refs unr} (h : Inv cfg st fib refs unr) (e : (Nat × Pfx) × List Addr)
    (he : e ∈ fib) : checkCell cfg e = none := by
  unfold checkCell
  rcases h.keys e he with h0 | ⟨h1, h2⟩
  · simp [h0]
  · split
    · rfl
    · simp [h1, h2]

theorem checkRef_ok {cfg st fib refs unr} (h : Inv cfg st fib refs unr) (a : Addr) :
    checkRef refs (st.dests.map destObs) a = none := by
  unfold checkRef
  rw [uses_map, h.refs a]; simp

theorem checkStep_ok {cfg st fib refs unr} (h : Inv cfg st fib refs unr) :
    checkStep cfg st.deferring unr fib refs (st.dests.map destObs) = none := by
  unfold checkStep
  dsimp only
  rw [firstSome_none (fun e he => checkCell_ok h e he)]
  dsimp only
  rw [firstSome_none (fun p _ => checkMainPfx_ok h p)]
  dsimp only
  rw [firstSome_none (fun v hv => firstSome_none (fun p _ => checkVrfPfx_ok h v hv p))]
  dsimp only
  exact firstSome_none (fun a _ => checkRef_ok h a)

theorem checkFrom_run {cfg : Cfg} (hc : cfg.wf = true) (ops : List Op) :
    ∀ (st : St) (fib : Fib) (refs : Refs) (unr : List Addr) (i : Nat),
      ops.all (Op.wf cfg) = true → Inv cfg st fib refs unr →
      checkFrom cfg i st.deferring fib refs unr ops (obsOfRun (runFrom cfg st ops)) = .ok := by
  induction ops with
  | nil => intro st fib refs unr i _ _; simp [runFrom, obsOfRun, checkFrom]
  | cons op ops ih =>
    intro st fib refs unr i hwf h
    simp only [all_cons, Bool.and_eq_true] at hwf
    obtain ⟨refs', e1, hinv, hdf⟩ := step_inv hc op hwf.1 h
    have hcs := checkStep_ok hinv
    rw [hdf] at hcs
    simp only [runFrom, obsOfRun, map_cons, obsOfStep, checkFrom, e1, hcs]
    have := ih _ _ _ _ (i + 1) hwf.2 hinv
    rw [hdf] at this
    exact this

-- ---------------------------------------------------------------- histories

/-- model state after a history -/
def stAfter (cfg : Cfg) (st : St) : List Op → St
  | [] => st
  | op :: ops => stAfter cfg (step cfg st op).1 ops

/-- every request issued during a history, in order -/
def allReqs (cfg : Cfg) (st : St) : List Op → List Req
  | [] => []
  | op :: ops => (step cfg st op).2 ++ allReqs cfg (step cfg st op).1 ops

/-- addresses whose last reachability report in the history said "unreachable" -/
def reports (unr : List Addr) : List Op → List Addr
  | [] => unr
  | op :: ops => reports (report unr op) ops

theorem inv_after {cfg : Cfg} (hc : cfg.wf = true) (ops : List Op) :
    ∀ (st : St) (fib : Fib) (refs : Refs) (unr : List Addr),
      ops.all (Op.wf cfg) = true → Inv cfg st fib refs unr →
      ∃ refs', refReplay refs (nhtReqs (allReqs cfg st ops)) = some refs' ∧
        Inv cfg (stAfter cfg st ops) (fibReplay fib (fibReqs (allReqs cfg st ops))) refs' (reports unr ops) := by
  induction ops with
  | nil => intro st fib refs unr _ h; exact ⟨refs, by simp [allReqs, nhtReqs, refReplay], by simpa [allReqs, stAfter, fibReqs, fibReplay, reports] using h⟩
  | cons op ops ih =>
    intro st fib refs unr hwf h
    simp only [all_cons, Bool.and_eq_true] at hwf
    obtain ⟨refs1, e1, h1, _⟩ := step_inv hc op hwf.1 h
    obtain ⟨refs2, e2, h2⟩ := ih _ _ _ _ hwf.2 h1
    refine ⟨refs2, ?_, ?_⟩
    · simp only [allReqs, nhtReqs_append, refReplay_append, e1]; exact e2
    · simpa only [allReqs, stAfter, reports, fibReqs_append, fibReplay_append] using h2

-- ---------------------------------------------------------------- run_service_loop

theorem watchedGet_filter_ne (w : Watched) (a b : Addr) :
    watchedGet (w.filter (fun e => !(e.1 == a))) b = if b = a then 0 else watchedGet w b := by
  unfold watchedGet
  rw [find?_filter_ne]
  by_cases h : b = a <;> simp [h]

theorem watchedGet_cons (w : Watched) (a n b : Addr) :
    watchedGet ((a, n) :: w) b = if b = a then n else watchedGet w b := by
  unfold watchedGet
  rw [find?_cons]
  by_cases h : b = a
  · subst h; simp
  · have : (a == b) = false := by simpa using fun e : a = b => h e.symm
    simp [this, h]

theorem svcRegister_get (w : Watched) (a b : Addr) :
    watchedGet (svcRegister w a).1 b = if b = a then watchedGet w a + 1 else watchedGet w b := by
  unfold svcRegister
  dsimp only
  rw [watchedGet_cons, watchedGet_filter_ne]
  by_cases h : b = a <;> simp [h]

theorem svcUnregister_get (w : Watched) (a b : Addr) :
    watchedGet (svcUnregister w a) b = if b = a then watchedGet w a - 1 else watchedGet w b := by
  unfold svcUnregister
  split
  · rw [watchedGet_filter_ne]
    by_cases h : b = a
    · subst h; simp; omega
    · simp [h]
  · rw [watchedGet_cons, watchedGet_filter_ne]
    by_cases h : b = a <;> simp [h]

/-- the `watched` map of the service loop and the reference fold agree request by request -/
theorem svcRun_refines (reqs : List (Bool × Addr)) :
    ∀ (w : Watched) (r : Refs), (∀ a, watchedGet w a = refGet r a) →
      (svcRun w reqs).1 = (svcExpect r reqs).1 ∧
      ∀ a, watchedGet (svcRun w reqs).2 a = refGet (svcExpect r reqs).2 a := by
  induction reqs with
  | nil => intro w r h; exact ⟨rfl, h⟩
  | cons x reqs ih =>
    intro w r h
    obtain ⟨k, a⟩ := x
    cases k
    · simp only [svcRun, svcExpect]
      have := ih (svcUnregister w a) (refSet r a (refGet r a - 1)) (by
        intro b; rw [svcUnregister_get, refGet_refSet, h a, h b])
      exact ⟨by rw [this.1], this.2⟩
    · simp only [svcRun, svcExpect]
      have := ih (svcRegister w a).1 (refSet r a (refGet r a + 1)) (by
        intro b; rw [svcRegister_get, refGet_refSet, h a, h b])
      refine ⟨?_, this.2⟩
      rw [this.1]
      simp [svcRegister, h a]

/-- on a log that never unregisters without outstanding registration the saturating fold of the
    service and the plain fold of the reference checker coincide -/
theorem svcExpect_of_replay (log : List (Bool × Addr)) :
    ∀ (r r' : Refs), refReplay r log = some r' → ∀ a, refGet (svcExpect r log).2 a = refGet r' a := by
  induction log with
  | nil => intro r r' h a; simp [refReplay] at h; simp [svcExpect, h]
  | cons x log ih =>
    intro r r' h a
    obtain ⟨k, b⟩ := x
    cases k
    · simp only [refReplay] at h
      split at h
      · simp at h
      · simp only [svcExpect]; exact ih _ _ h a
    · simp only [refReplay] at h
      simp only [svcExpect]; exact ih _ _ h a


-- ---------------------------------------------------------------- canonical observations
-- The harness cannot reproduce the model's request order between different destinations (hash
-- maps), so both sides print a canonical order.  The reference checker's verdict does not depend
-- on it: the lemmas below carry the invariant through `canonStep`.

section GenericSort
variable {α : Type} (le : α → α → Bool)

def SortedBy (l : List α) : Prop := l.Pairwise (fun x y => le x y = true)

theorem mem_insertBy {x y : α} {l : List α} : y ∈ insertBy le x l ↔ y = x ∨ y ∈ l := by
  induction l with
  | nil => simp [insertBy]
  | cons a t ih =>
    unfold insertBy
    split
    · simp only [mem_cons, ih]; grind
    · simp only [mem_cons]

theorem insertBy_perm (x : α) (l : List α) : (insertBy le x l).Perm (x :: l) := by
  induction l with
  | nil => simp [insertBy]
  | cons a t ih =>
    unfold insertBy
    split
    · exact (Perm.cons a ih).trans (Perm.swap x a t)
    · exact Perm.refl _

theorem sortBy_perm (l : List α) : (sortBy le l).Perm l := by
  have : ∀ acc : List α, (l.foldl (fun acc p => insertBy le p acc) acc).Perm (l ++ acc) := by
    induction l with
    | nil => intro acc; simp
    | cons a t ih =>
      intro acc
      simp only [foldl_cons]
      refine (ih _).trans ?_
      refine (Perm.append_left t (insertBy_perm le a acc)).trans ?_
      simp [perm_middle]
  simpa [sortBy] using this []

variable (htot : ∀ x y, le x y = false → le y x = true)
variable (htrans : ∀ x y z, le x y = true → le y z = true → le x z = true)
include htot htrans

theorem insertBy_sorted {x : α} {l : List α} (h : SortedBy le l) : SortedBy le (insertBy le x l) := by
  induction l with
  | nil => simp [insertBy, SortedBy]
  | cons a t ih =>
    unfold SortedBy at h
    rw [pairwise_cons] at h
    unfold insertBy
    split
    · rename_i hle
      unfold SortedBy
      rw [pairwise_cons]
      refine ⟨?_, ih h.2⟩
      intro y hy
      rcases (mem_insertBy le).mp hy with rfl | hy
      · exact hle
      · exact h.1 y hy
    · rename_i hlt
      have hlt : le a x = false := by simpa using hlt
      unfold SortedBy
      rw [pairwise_cons, pairwise_cons]
      refine ⟨?_, h⟩
      intro y hy
      rcases mem_cons.mp hy with rfl | hy
      · exact htot _ _ hlt
      · exact htrans _ _ _ (htot _ _ hlt) (h.1 y hy)

theorem filter_insertBy {x : α} {l : List α} (P : α → Bool) (h : SortedBy le l) :
    (insertBy le x l).filter P = if P x then insertBy le x (l.filter P) else l.filter P := by
  induction l with
  | nil => simp [insertBy]; split <;> simp_all
  | cons a t ih =>
    unfold SortedBy at h
    rw [pairwise_cons] at h
    by_cases hle : le a x = true
    · have e1 : insertBy le x (a :: t) = a :: insertBy le x t := by simp [insertBy, hle]
      rw [e1, filter_cons, ih h.2]
      by_cases hpa : P a = true
      · simp only [hpa, if_true, filter_cons]
        split
        · simp [insertBy, hle]
        · rfl
      · simp only [hpa, filter_cons]
        simp
    · have hlt : le a x = false := by simpa using hle
      have e1 : insertBy le x (a :: t) = x :: a :: t := by simp [insertBy, hlt]
      rw [e1]
      have hall : ∀ y ∈ (a :: t).filter P, le y x = false := by
        intro y hy
        have hy' := (mem_filter.mp hy).1
        rcases mem_cons.mp hy' with rfl | hy'
        · exact hlt
        · -- a ≤ y and ¬ a ≤ x give ¬ y ≤ x
          apply Bool.eq_false_iff.mpr
          intro hyx
          have := htrans _ _ _ (h.1 y hy') hyx
          rw [hlt] at this; exact absurd this (by simp)
      by_cases hpe : P x = true
      · simp only [hpe, if_true]
        rw [filter_cons]; simp only [hpe, if_true]
        generalize hf : (a :: t).filter P = f at hall
        cases f with
        | nil => simp [insertBy]
        | cons b f' => simp [insertBy, hall b (by simp)]
      · rw [filter_cons]; simp [hpe]

theorem foldl_insertBy_sorted (l acc : List α) (h : SortedBy le acc) :
    SortedBy le (l.foldl (fun acc p => insertBy le p acc) acc) := by
  induction l generalizing acc with
  | nil => simpa
  | cons a t ih => exact ih _ (insertBy_sorted le htot htrans h)

theorem filter_sortBy (P : α → Bool) (l : List α) : (sortBy le l).filter P = sortBy le (l.filter P) := by
  have : ∀ acc : List α, SortedBy le acc →
      (l.foldl (fun acc p => insertBy le p acc) acc).filter P =
        (l.filter P).foldl (fun acc p => insertBy le p acc) (acc.filter P) := by
    induction l with
    | nil => intro acc _; simp
    | cons a t ih =>
      intro acc h
      simp only [foldl_cons]
      rw [ih _ (insertBy_sorted le htot htrans h), filter_insertBy le htot htrans P h]
      by_cases hpa : P a = true
      · simp [hpa]
      · simp [hpa]
  simpa [sortBy] using this [] (by simp [SortedBy])

omit htot htrans in
theorem insertBy_append_of_le {x : α} {l : List α} (h : ∀ a ∈ l, le a x = true) : insertBy le x l = l ++ [x] := by
  induction l with
  | nil => simp [insertBy]
  | cons a t ih =>
    simp only [insertBy, h a (by simp), if_true, cons_append]
    rw [ih (fun y hy => h y (by simp [hy]))]

omit htot htrans in
theorem foldl_insertBy_of_all_le (l acc : List α) (hh : ∀ x ∈ acc ++ l, ∀ y ∈ acc ++ l, le x y = true) :
    l.foldl (fun acc p => insertBy le p acc) acc = acc ++ l := by
  induction l generalizing acc with
  | nil => simp
  | cons a t ih =>
    have h1 : insertBy le a acc = acc ++ [a] :=
      insertBy_append_of_le le (fun x hx => hh x (by simp [hx]) a (by simp))
    simp only [foldl_cons, h1]
    rw [ih (acc ++ [a]) (by simpa using hh)]
    simp

omit htot htrans in
/-- a list whose elements are pairwise `le` in both directions is left alone by the stable sort -/
theorem sortBy_of_all_le {l : List α} (h : ∀ x ∈ l, ∀ y ∈ l, le x y = true) : sortBy le l = l := by
  simpa [sortBy] using foldl_insertBy_of_all_le le l [] (by simpa using h)

end GenericSort

theorem lex3_total (a b : Nat × Nat × Nat) (h : lex3 a b = false) : lex3 b a = true := by
  unfold lex3 at *
  simp only [Bool.or_eq_false_iff, Bool.and_eq_false_iff, decide_eq_false_iff_not, beq_eq_false_iff_ne] at h
  simp only [Bool.or_eq_true, Bool.and_eq_true, decide_eq_true_eq, beq_iff_eq]
  omega

theorem lex3_trans (a b c : Nat × Nat × Nat) (h1 : lex3 a b = true) (h2 : lex3 b c = true) : lex3 a c = true := by
  unfold lex3 at *
  simp only [Bool.or_eq_true, Bool.and_eq_true, decide_eq_true_eq, beq_iff_eq] at *
  omega

theorem lex3_refl (a : Nat × Nat × Nat) : lex3 a a = true := by
  unfold lex3; simp

/-- `lastNhs` only looks at the requests for the key -/
theorem lastNhs_filter (rs : List FibReq) (k : Key) :
    lastNhs (rs.filter (fun r => (r.table, r.pfx) == k)) k = lastNhs rs k := by
  induction rs with
  | nil => rfl
  | cons r rs ih =>
    rw [filter_cons]
    by_cases hk : (r.table, r.pfx) = k
    · have : ((r.table, r.pfx) == k) = true := by simpa using hk
      simp only [this, if_true, lastNhs, ih]
    · have : ((r.table, r.pfx) == k) = false := by simpa using hk
      simp only [this, Bool.false_eq_true, if_false, lastNhs, ih, hk]
      cases lastNhs rs k <;> rfl

theorem fibGet_sortBy (fib : Fib) (rs : List FibReq) (t : Nat) (q : Pfx) :
    fibGet (fibReplay fib (sortBy fibLe rs)) t q = fibGet (fibReplay fib rs) t q := by
  rw [fibGet_replay, fibGet_replay]
  congr 1
  rw [← lastNhs_filter (sortBy fibLe rs), ← lastNhs_filter rs,
    filter_sortBy fibLe (fun x y h => lex3_total _ _ h) (fun x y z h1 h2 => lex3_trans _ _ _ h1 h2)]
  congr 1
  apply sortBy_of_all_le
  intro x hx y hy
  have hx' : (x.table, x.pfx) = (t, q) := by simpa using (mem_filter.mp hx).2
  have hy' : (y.table, y.pfx) = (t, q) := by simpa using (mem_filter.mp hy).2
  simp only [Prod.mk.injEq] at hx' hy'
  unfold fibLe
  rw [hx'.1, hx'.2, hy'.1, hy'.2]
  exact lex3_refl _

-- tracking requests

-- tracking requests

theorem countAddr_perm {a : Addr} {l l' : List Addr} (h : l.Perm l') : countAddr a l = countAddr a l' :=
  (h.filter _).length_eq

theorem refReplay_regs {refs : Refs} (l : List Addr) :
    ∃ refs', refReplay refs (l.map (fun a => (true, a))) = some refs' ∧
      ∀ a, refGet refs' a = refGet refs a + countAddr a l := by
  induction l generalizing refs with
  | nil => exact ⟨refs, by simp [refReplay], by simp [countAddr]⟩
  | cons x l ih =>
    obtain ⟨refs', e, g⟩ := @ih (refSet refs x (refGet refs x + 1))
    refine ⟨refs', by simpa [refReplay] using e, ?_⟩
    intro a
    rw [g a, refGet_refSet]
    by_cases ha : a = x
    · subst ha; simp [countAddr]; omega
    · have : ¬ x = a := fun e => ha e.symm
      simp [ha, countAddr, this]

/-- counting form of a successful replay -/
theorem refReplay_count {log : List (Bool × Addr)} :
    ∀ {refs refs' : Refs}, refReplay refs log = some refs' →
      ∀ a, refGet refs' a + countAddr a (unregsOf log) = refGet refs a + countAddr a (regsOf log) := by
  induction log with
  | nil => intro refs refs' h a; simp [refReplay] at h; simp [h, unregsOf, regsOf]
  | cons x log ih =>
    intro refs refs' h a
    obtain ⟨k, b⟩ := x
    cases k
    · simp only [refReplay] at h
      split at h
      · simp at h
      · rename_i hne
        have := ih h a
        rw [refGet_refSet] at this
        simp only [unregsOf, regsOf]
        by_cases hab : a = b
        · subst hab; simp [countAddr] at this ⊢; omega
        · have hba : ¬ b = a := fun e => hab e.symm
          simp [hab, countAddr, hba] at this ⊢; omega
    · simp only [refReplay] at h
      have := ih h a
      rw [refGet_refSet] at this
      simp only [unregsOf, regsOf]
      by_cases hab : a = b
      · subst hab; simp [countAddr] at this ⊢; omega
      · have hba : ¬ b = a := fun e => hab e.symm
        simp [hab, countAddr, hba] at this ⊢; omega

/-- a log that replays in the order issued also replays in canonical order, to the same counts -/
theorem refReplay_canon {log : List (Bool × Addr)} {refs refs' : Refs} (h : refReplay refs log = some refs') :
    ∃ refs'', refReplay refs (canonNht log) = some refs'' ∧ ∀ a, refGet refs'' a = refGet refs' a := by
  unfold canonNht
  obtain ⟨r1, e1, g1⟩ := @refReplay_regs refs (sortBy natLe (regsOf log))
  have hc := refReplay_count h
  obtain ⟨r2, e2, g2⟩ := @refReplay_unregs r1 (fun a => refGet refs' a) (sortBy natLe (unregsOf log)) (by
    intro a
    rw [g1 a, countAddr_perm (sortBy_perm natLe _), countAddr_perm (sortBy_perm natLe (unregsOf log))]
    have := hc a; omega)
  exact ⟨r2, by rw [refReplay_append, e1]; exact e2, g2⟩

-- destinations

theorem lookupDest_perm {ds ds' : List Dest} (hp : ds'.Perm ds) (hn : (keys ds).Nodup) (p : Pfx) :
    lookupDest ds' p = lookupDest ds p := by
  have hn' : (keys ds').Nodup := (hp.map _).nodup_iff.mpr hn
  by_cases hm : p ∈ keys ds
  · obtain ⟨d, hd, rfl⟩ := mem_map.mp hm
    rw [lookupDest_mem hn hd, lookupDest_mem hn' (hp.mem_iff.mpr hd)]
  · have hm' : p ∉ keys ds' := fun h => hm ((hp.map _).mem_iff.mp h)
    rw [lookupDest_of_not_mem hm, lookupDest_of_not_mem hm']

theorem usesAll_perm {a : Addr} {ds ds' : List Dest} (hp : ds'.Perm ds) : usesAll a ds' = usesAll a ds := by
  induction hp with
  | nil => rfl
  | cons x _ ih => simp [usesAll_cons, ih]
  | swap x y l => simp [usesAll_cons]; omega
  | trans _ _ ih1 ih2 => rw [ih1, ih2]

theorem Inv.perm {cfg st fib refs unr} (h : Inv cfg st fib refs unr) (st' : St)
    (hp : st'.dests.Perm st.dests) (hi : st'.invalid = st.invalid) (hdf : st'.deferring = st.deferring) :
    Inv cfg st' fib refs unr :=
  ⟨(hp.map _).nodup_iff.mpr h.nodup,
   fun d hd => h.sorted d (hp.mem_iff.mp hd),
   fun d hd => h.flags d (hp.mem_iff.mp hd),
   fun p => by rw [lookupDest_perm hp h.nodup, hdf]; exact h.cells p,
   fun a => by rw [usesAll_perm hp]; exact h.refs a,
   fun a => by rw [hi]; exact h.inval a,
   h.keys⟩

theorem Inv.transfer {cfg st fib refs unr} (h : Inv cfg st fib refs unr) {fib2 : Fib} {refs2 : Refs}
    (hf : ∀ t q, fibGet fib2 t q = fibGet fib t q) (hr : ∀ a, refGet refs2 a = refGet refs a)
    (hk : ∀ e ∈ fib2, goodKey cfg e.1) :
    Inv cfg st fib2 refs2 unr :=
  ⟨h.nodup, h.sorted, h.flags, fun p => (h.cells p).transfer (fun k _ => hf k.1 k.2),
   fun a => by rw [hr a]; exact h.refs a, h.inval, hk⟩

def destLeM (a b : Dest) : Bool := lex3 (a.pfx.fam, a.pfx.id, 0) (b.pfx.fam, b.pfx.id, 0)

theorem map_insertBy_destObs (x : Dest) (l : List Dest) :
    (insertBy destLeM x l).map destObs = insertBy destLe (destObs x) (l.map destObs) := by
  induction l with
  | nil => rfl
  | cons a t ih =>
    unfold insertBy
    have : destLe (destObs a) (destObs x) = destLeM a x := rfl
    simp only [map_cons, this]
    split
    · simp [ih]
    · simp

theorem sortBy_map_destObs (l : List Dest) : sortBy destLe (l.map destObs) = (sortBy destLeM l).map destObs := by
  have : ∀ acc : List Dest, (l.map destObs).foldl (fun acc p => insertBy destLe p acc) (acc.map destObs) =
      (l.foldl (fun acc p => insertBy destLeM p acc) acc).map destObs := by
    induction l with
    | nil => intro acc; rfl
    | cons a t ih =>
      intro acc
      simp only [map_cons, foldl_cons, ← map_insertBy_destObs]
      exact ih _
  simpa [sortBy] using this []

theorem checkFrom_run_canon {cfg : Cfg} (hc : cfg.wf = true) (ops : List Op) :
    ∀ (st : St) (fib : Fib) (refs : Refs) (unr : List Addr) (i : Nat),
      ops.all (Op.wf cfg) = true → Inv cfg st fib refs unr →
      checkFrom cfg i st.deferring fib refs unr ops ((obsOfRun (runFrom cfg st ops)).map canonStep) = .ok := by
  induction ops with
  | nil => intro st fib refs unr i _ _; simp [runFrom, obsOfRun, checkFrom]
  | cons op ops ih =>
    intro st fib refs unr i hwf h
    simp only [all_cons, Bool.and_eq_true] at hwf
    obtain ⟨refs', e1, hinv, hdf⟩ := step_inv hc op hwf.1 h
    obtain ⟨refs'', e2, g2⟩ := refReplay_canon e1
    have hkeys : ∀ e ∈ fibReplay fib (sortBy fibLe (fibReqs (step cfg st op).2)), goodKey cfg e.1 := by
      apply fibReplay_keys _ _ h.keys
      intro r hr
      have hr' := (sortBy_perm fibLe _).mem_iff.mp hr
      have := hinv.keys
      -- the requests of the step are good: they are among the keys of the replayed list or directly
      exact (fibReplay_reqs_good (step cfg st op).2 fib hinv.keys) r hr'
    have hinv2 : Inv cfg (step cfg st op).1 (fibReplay fib (sortBy fibLe (fibReqs (step cfg st op).2))) refs''
        (report unr op) := hinv.transfer (fun t q => fibGet_sortBy fib _ t q) g2 hkeys
    have hinv3 := hinv2.perm { (step cfg st op).1 with dests := sortBy destLeM (step cfg st op).1.dests }
      (sortBy_perm destLeM _) rfl rfl
    have hcs := checkStep_ok hinv3
    simp only [runFrom, obsOfRun, map_cons, obsOfStep, canonStep, checkFrom, e2]
    rw [sortBy_map_destObs]
    rw [hdf] at hcs
    rw [hcs]
    have := ih _ _ _ _ (i + 1) hwf.2 hinv2
    rw [hdf] at this
    exact this


-- ---------------------------------------------------------------- service loop: route events, feed

theorem svcRunE_refines (reqs : List (Option (Bool × Addr))) :
    ∀ (w : Watched) (r : Refs), (∀ a, watchedGet w a = refGet r a) →
      (svcRunE w reqs).1 = (svcExpectE r reqs).1 ∧
      ∀ a, watchedGet (svcRunE w reqs).2 a = refGet (svcExpectE r reqs).2 a := by
  induction reqs with
  | nil => intro w r h; exact ⟨rfl, h⟩
  | cons x reqs ih =>
    intro w r h
    cases x with
    | none =>
      simp only [svcRunE, svcExpectE]
      have := ih w r h
      exact ⟨by rw [this.1], this.2⟩
    | some y =>
      obtain ⟨k, a⟩ := y
      cases k
      · simp only [svcRunE, svcExpectE]
        have := ih (svcUnregister w a) (refSet r a (refGet r a - 1)) (by
          intro b; rw [svcUnregister_get, refGet_refSet, h a, h b])
        exact ⟨by rw [this.1], this.2⟩
      · simp only [svcRunE, svcExpectE]
        have := ih (svcRegister w a).1 (refSet r a (refGet r a + 1)) (by
          intro b; rw [svcRegister_get, refGet_refSet, h a, h b])
        refine ⟨?_, this.2⟩
        rw [this.1]
        simp [svcRegister, h a]

theorem nhtOfRun_eq (cfg : Cfg) (ops : List Op) :
    ∀ st, nhtOfRun (runFrom cfg st ops) = nhtReqs (allReqs cfg st ops) := by
  induction ops with
  | nil => intro st; rfl
  | cons op ops ih =>
    intro st
    simp only [runFrom, allReqs, nhtReqs_append]
    rw [← ih]
    simp [nhtOfRun]

theorem lastRib_run (cfg : Cfg) (ops : List Op) :
    ∀ st, ops ≠ [] → lastRib (obsOfRun (runFrom cfg st ops)) = (stAfter cfg st ops).dests.map destObs := by
  induction ops with
  | nil => intro st h; exact absurd rfl h
  | cons op ops ih =>
    intro st _
    cases ops with
    | nil => simp [runFrom, obsOfRun, obsOfStep, lastRib, stAfter]
    | cons op2 ops2 =>
      have := ih (step cfg st op).1 (by simp)
      simp only [stAfter] at this ⊢
      rw [← this]
      simp only [lastRib, runFrom, obsOfRun, map_cons]
      rw [getLast?_cons_cons]

theorem uses_perm {a : Addr} {l l' : List DestObs} (hp : l'.Perm l) : uses l' a = uses l a := by
  unfold uses
  induction hp with
  | nil => rfl
  | cons x _ ih => simp [ih]
  | swap x y l => simp; omega
  | trans _ _ ih1 ih2 => rw [ih1, ih2]

end Rbgp.Fib
