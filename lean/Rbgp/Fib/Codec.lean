/- Term encoding of C20 cases and observations; canonical form of the model's observation
   (requests between different keys are ordered as the harness orders them). -/
import Rbgp.Term
import Rbgp.Fib.Model
import Rbgp.Fib.Spec
namespace Rbgp.Fib.Codec
open Rbgp Rbgp.Term Rbgp.Fib Rbgp.Fib.Spec

def natsOf? (t : Term) : Option (List Nat) := asListOf? asNat? t

def condOf? : Term → Option Cond
  | .atom "any" => some .any
  | .list [.atom "peer", k] => (asNat? k).map .peer
  | .list [.atom "nh", a] => (asNat? a).map .nh
  | _ => none

def actOf? : Term → Option Act
  | .atom "rej" => some .rej
  | .atom "acc" => some .acc
  | .list [.atom "set", a] => (asNat? a).map .set
  | _ => none

def ruleOf? : Term → Option Rule
  | .list [.atom "rule", c, a] => do pure ⟨← condOf? c, ← actOf? a⟩
  | _ => none

def bit (n k : Nat) : Bool := (n / k) % 2 == 1

def opOf? : Term → Option Op
  | .list [.atom "ins", s, f, i, pid, nh, lp, cl, rts, asl, org, fl] => do
      let fl ← asNat? fl
      if fl ≥ 128 then none
      pure (.ins (← asNat? s) ⟨← asNat? f, ← asNat? i⟩ (← asNat? pid) (← asNat? nh)
        ⟨← asNat? lp, ← asNat? cl, ← natsOf? rts, ← asNat? asl, ← asNat? org, bit fl 1, bit fl 2, bit fl 4⟩)
  | .list [.atom "insl", s, f, i, pid, nh, lp, cl, rts, asl, org, fl] => do
      let fl ← asNat? fl
      if fl ≥ 128 then none
      pure (.insl (← asNat? s) ⟨← asNat? f, ← asNat? i⟩ (← asNat? pid) (← asNat? nh)
        ⟨← asNat? lp, ← asNat? cl, ← natsOf? rts, ← asNat? asl, ← asNat? org, bit fl 1, bit fl 2, bit fl 4⟩)
  | .list [.atom "gdown", k, m] => do pure (.gdown (← asNat? k) (← asNat? m))
  | .list [.atom "purgef", k, f] => do pure (.purgef (← asNat? k) (← asNat? f))
  | .list [.atom "rm", s, f, i, pid] => do
      pure (.rm (← asNat? s) ⟨← asNat? f, ← asNat? i⟩ (← asNat? pid))
  | .list [.atom "down", k] => (asNat? k).map .down
  | .list [.atom "drop", k] => (asNat? k).map .drop
  | .list [.atom "stale", k] => (asNat? k).map .stale
  | .list [.atom "purge", k] => (asNat? k).map .purge
  | .list [.atom "llgr", k] => (asNat? k).map .llgr
  | .list [.atom "lpurge", k] => (asNat? k).map .lpurge
  | .list [.atom "soft", k] => (asNat? k).map .soft
  | .list (.atom "pol" :: rs) => (rs.mapM ruleOf?).map .pol
  | .list [.atom "nh", a, r] => do pure (.nh (← asNat? a) (← asBool? r))
  | .list [.atom "undefer", f] => (asNat? f).map .undefer
  | _ => none

def vrfOf? (t : Term) : Option Vrf := do
  match ← natsOf? t with
  | tid :: rts => pure ⟨tid, rts⟩
  | [] => none

def peerOf? : Term → Option (Nat × Nat)
  | .list [r, role] => do pure (← asNat? r, ← asNat? role)
  | _ => none

/-- case ↦ configuration, history, and whether the tracking requests are fed to the service loop -/
def caseOf? : Term → Option (Cfg × List Op × Bool)
  | .list [.atom "case", .list (.atom "peers" :: ps), .list (.atom "vrfs" :: vs),
           .list [.atom "opts", .list (.atom "defer" :: ds), .list [.atom "feed", fd]],
           .list (.atom "ops" :: os)] => do
      let cfg : Cfg := ⟨← ps.mapM peerOf?, ← vs.mapM vrfOf?, ← ds.mapM asNat?⟩
      let ops ← os.mapM opOf?
      let fd ← asBool? fd
      if cfg.wf && ops.all (Op.wf cfg) then pure (cfg, ops, fd) else none
  | _ => none

/-- A wire case: one real eBGP session on loopback (router id `rid`); `(ann id nh)` / `(wd id)` are UPDATE
    messages received on it for IPv4 prefix `id`, `close` ends the session (no graceful restart), after
    which the peer connects again.  What the model sees of it: -/
def wireOpOf? : Term → Option Op
  | .list [.atom "ann", i, nh] => do
      pure (.ins 0 ⟨0, ← asNat? i⟩ 0 (← asNat? nh) ⟨100, 0, [], 1, 0, false, false, false⟩)
  | .list [.atom "wd", i] => do pure (.rm 0 ⟨0, ← asNat? i⟩ 0)
  | .atom "close" => some (.down 0)
  | _ => none

def wireOf? : Term → Option (Cfg × List Op)
  | .list [.atom "wire", .list [.atom "rid", r], .list (.atom "ops" :: os)] => do
      let cfg : Cfg := ⟨[(← asNat? r, 0)], [], []⟩
      let ops ← os.mapM wireOpOf?
      if cfg.wf && ops.all (Op.wf cfg) && (← asNat? r) != 0 && ops.all (fun o => match o with
          | .ins _ _ _ nh _ => nh < 100 | _ => true) then pure (cfg, ops) else none
  | _ => none

def svcReqOf? : Term → Option (Option (Bool × Addr))
  | .atom "e" => some none
  | .list [.atom "r", a] => do
      let a ← asNat? a
      if a < 90 then pure (some (true, a)) else none
  | .list [.atom "u", a] => do
      let a ← asNat? a
      if a < 90 then pure (some (false, a)) else none
  | _ => none

def svcOf? : Term → Option (List (Option (Bool × Addr)))
  | .list (.atom "svc" :: rs) => rs.mapM svcReqOf?
  | _ => none

-- ---------------------------------------------------------------- observations

def pathObsT (p : PathObs) : Term :=
  tag "p" [nat p.src, nat p.pid, nat p.nh, bool p.flt, bool p.stale, bool p.llgr, nat p.lp, nat p.asl, nat p.org,
           bool p.eb, nat p.cl, nat p.rid, ofList nat p.rts]

def pathObsOf? : Term → Option PathObs
  | .list [.atom "p", s, pid, nh, flt, st, lg, lp, asl, org, eb, cl, rid, rts] => do
      pure ⟨← asNat? s, ← asNat? pid, ← asNat? nh, ← asBool? flt, ← asBool? st, ← asBool? lg, ← asNat? lp,
            ← asNat? asl, ← asNat? org, ← asBool? eb, ← asNat? cl, ← asNat? rid, ← natsOf? rts⟩
  | _ => none

def destObsT (d : DestObs) : Term := list (sym "d" :: nat d.pfx.fam :: nat d.pfx.id :: d.paths.map pathObsT)
def destObsOf? : Term → Option DestObs
  | .list (.atom "d" :: f :: i :: ps) => do pure ⟨⟨← asNat? f, ← asNat? i⟩, ← ps.mapM pathObsOf?⟩
  | _ => none

def fibReqT (r : FibReq) : Term := list [nat r.table, nat r.pfx.fam, nat r.pfx.id, ofList nat r.nhs]
def fibReqOf? : Term → Option FibReq
  | .list [t, f, i, nhs] => do pure ⟨← asNat? t, ⟨← asNat? f, ← asNat? i⟩, ← natsOf? nhs⟩
  | _ => none

def nhtT (r : Bool × Addr) : Term := list [sym (if r.1 then "r" else "u"), nat r.2]
def nhtOf? : Term → Option (Bool × Addr)
  | .list [.atom "r", a] => (asNat? a).map (true, ·)
  | .list [.atom "u", a] => (asNat? a).map (false, ·)
  | _ => none

def stepObsT (s : StepObs) : Term :=
  tag "step" [tag "fib" (s.fib.map fibReqT), tag "nht" (s.nht.map nhtT), tag "rib" (s.rib.map destObsT)]
def stepObsOf? : Term → Option StepObs
  | .list [.atom "step", .list (.atom "fib" :: fs), .list (.atom "nht" :: ns), .list (.atom "rib" :: ds)] => do
      pure ⟨← fs.mapM fibReqOf?, ← ns.mapM nhtOf?, ← ds.mapM destObsOf?⟩
  | _ => none

def finalsT (fs : List (Addr × Nat)) : List Term := fs.map (fun e => list [nat e.1, nat e.2])
def finalsOf? (fs : List Term) : Option (List (Addr × Nat)) :=
  fs.mapM (fun t => match t with
    | .list [a, c] => do pure ((← asNat? a), (← asNat? c))
    | _ => none)

/-- `(trace step... (order ok|underflow))`, followed by `(feed (addr count)...)` when the requests
    were fed to the service.  `order`: replaying the run's register/unregister requests in the order
    sent, no unregister met an address without outstanding registration. -/
def traceT (l : List StepObs) (order : Bool) (feed : Option (List (Addr × Nat))) : Term :=
  tag "trace" (l.map stepObsT ++ [tag "order" [sym (if order then "ok" else "underflow")]] ++
    (match feed with | some fs => [tag "feed" (finalsT fs)] | none => []))

def splitTail : List Term → List Term × List Term
  | [] => ([], [])
  | t :: ts =>
    match t with
    | .list (.atom "order" :: _) => ([], t :: ts)
    | _ => let r := splitTail ts; (t :: r.1, r.2)

def traceOf? : Term → Option (List StepObs × Bool × Option (List (Addr × Nat)))
  | .list (.atom "trace" :: ss) => do
      let r := splitTail ss
      let steps ← r.1.mapM stepObsOf?
      match r.2 with
      | [.list [.atom "order", .atom "ok"]] => pure (steps, true, none)
      | [.list [.atom "order", .atom "underflow"]] => pure (steps, false, none)
      | [.list [.atom "order", .atom "ok"], .list (.atom "feed" :: fs)] => pure (steps, true, some (← finalsOf? fs))
      | [.list [.atom "order", .atom "underflow"], .list (.atom "feed" :: fs)] => pure (steps, false, some (← finalsOf? fs))
      | _ => none
  | _ => none

def svcTraceOf? : Term → Option (List Bool × List (Addr × Nat))
  | .list [.atom "svc-trace", .list (.atom "emit" :: es), .list (.atom "final" :: fs)] => do
      let es ← es.mapM asBool?
      let fs ← finalsOf? fs
      pure (es, fs)
  | _ => none

-- ---------------------------------------------------------------- model run ↦ observation

def pathObs (p : Path) : PathObs :=
  ⟨p.src, p.pid, p.nh, p.flt, p.stale, p.isLl, p.lp, p.asl, p.org, p.eb, p.cl, p.rid, p.rts⟩

def destObs (d : Dest) : DestObs := ⟨d.pfx, d.paths.map pathObs⟩

def fibReqs : List Req → List FibReq
  | [] => []
  | .apply t p nhs :: rs => ⟨t, p, nhs⟩ :: fibReqs rs
  | _ :: rs => fibReqs rs

def nhtReqs : List Req → List (Bool × Addr)
  | [] => []
  | .reg a :: rs => (true, a) :: nhtReqs rs
  | .unreg a :: rs => (false, a) :: nhtReqs rs
  | _ :: rs => nhtReqs rs

/-- The observation of a model step exactly as the model produces it (request order as sent,
    destinations in the model's list order). -/
def obsOfStep (s : List Req × List Dest) : StepObs := ⟨fibReqs s.1, nhtReqs s.1, s.2.map destObs⟩

def obsOfRun (r : List (List Req × List Dest)) : List StepObs := r.map obsOfStep

/-- stable insertion sort by a `Nat`-tuple key -/
def insertBy {α} (le : α → α → Bool) (x : α) : List α → List α
  | [] => [x]
  | y :: ys => if le y x then y :: insertBy le x ys else x :: y :: ys
def sortBy {α} (le : α → α → Bool) (l : List α) : List α := l.foldl (fun acc x => insertBy le x acc) []

def lex3 (a b : Nat × Nat × Nat) : Bool :=
  a.1 < b.1 || (a.1 == b.1 && (a.2.1 < b.2.1 || (a.2.1 == b.2.1 && a.2.2 ≤ b.2.2)))

def fibLe (a b : FibReq) : Bool := lex3 (a.table, a.pfx.fam, a.pfx.id) (b.table, b.pfx.fam, b.pfx.id)
def destLe (a b : DestObs) : Bool := lex3 (a.pfx.fam, a.pfx.id, 0) (b.pfx.fam, b.pfx.id, 0)
def natLe (a b : Nat) : Bool := a ≤ b
def regsOf : List (Bool × Addr) → List Addr
  | [] => []
  | (true, a) :: rs => a :: regsOf rs
  | (false, _) :: rs => regsOf rs
def unregsOf : List (Bool × Addr) → List Addr
  | [] => []
  | (false, a) :: rs => a :: unregsOf rs
  | (true, _) :: rs => unregsOf rs

/-- registers (sorted by address) before unregisters (sorted by address): the order in which
    requests of different destinations reach the channel depends on hash-map iteration, so no
    order between them is kept; whether an unregister ever arrived, in the order sent, for an
    address without outstanding registration is observed separately (`order`). -/
def canonNht (l : List (Bool × Addr)) : List (Bool × Addr) :=
  (sortBy natLe (regsOf l)).map (fun a => (true, a)) ++ (sortBy natLe (unregsOf l)).map (fun a => (false, a))

/-- Canonical form (what the harness prints): FIB requests stably sorted by (table, prefix), NHT
    requests as registers then unregisters, each sorted by address, destinations by prefix. -/
def canonStep (s : StepObs) : StepObs :=
  ⟨sortBy fibLe s.fib, canonNht s.nht, sortBy destLe s.rib⟩

def addrsOfLog (l : List (Bool × Addr)) : List Addr := sortBy natLe (l.map (·.2)).eraseDups

def svcT (es : List Bool) (w : Watched) (reqs : List (Option (Bool × Addr))) : Term :=
  let addrs := addrsOfLog (reqs.filterMap id)
  tag "svc-trace" [tag "emit" (es.map bool),
                   tag "final" (finalsT (addrs.map (fun a => (a, watchedGet w a))))]

/-- all tracking requests of a run, in the order the model issues them -/
def nhtOfRun (r : List (List Req × List Dest)) : List (Bool × Addr) := r.flatMap (fun s => nhtReqs s.1)

/-- the tracking requests of the run replay, in the order issued, without underflow -/
def orderOfRun (r : List (List Req × List Dest)) : Bool := (refReplay [] (nhtOfRun r)).isSome

/-- what the service loop ends with when fed the tracking requests of the run -/
def feedOfRun (r : List (List Req × List Dest)) : List (Addr × Nat) :=
  let log := nhtOfRun r
  (addrsOfLog log).map (fun a => (a, watchedGet (svcRun [] log).2 a))

end Rbgp.Fib.Codec
