import Rbgp.Fsm.Codec
import Rbgp.Fsm.Spec
import Rbgp.Fsm.WireCodec
import Rbgp.Fsm.WireSpec
namespace Rbgp.C07
open Rbgp Rbgp.Term Rbgp.Fsm Rbgp.Fsm.Codec

def verdictStr : Spec.Verdict → String
  | .ok => "ok"
  | .fail i c => s!"fail step={i} clause={c}"

/-- mode `model`: case ↦ observation of the model;
    mode `oracle`: case TAB observation ↦ verdict of the C07 reference checker. -/
def handler (mode : String) (line : String) : String :=
  match mode with
  | "model" =>
      match (parse line).bind WireCodec.wireCaseOf? with
      | some (cfg, h) => toStr (WireCodec.wireObsT false (Wire.run cfg h))
      | none =>
      match (parse line).bind caseOf? with
      | some (cfg, h) => toStr (traceT (run cfg h))
      | none => "(bad-case)"
  | "oracle" =>
      match parseMany line with
      | some [c, o] =>
          match WireCodec.wireCaseOf? c with
          | some (cfg, h) =>
              match WireCodec.wireObsOf? false o with
              | some tr =>
                  match WireSpec.check cfg true false h tr with
                  | .ok => "ok"
                  | .fail i cl => s!"fail step={i} clause={cl}"
              | none => "fail step=0 clause=unparsable-observation"
          | none =>
          match caseOf? c with
          | some (cfg, h) =>
              match traceOf? h o with
              | some tr => verdictStr (Spec.check cfg tr)
              | none => "fail step=0 clause=unparsable-observation"
          | none => "(bad-case)"
      | _ => "(bad-line)"
  | _ => "(bad-mode)"

end Rbgp.C07
