import Rbgp.Rib.Codec
import Rbgp.Rib.SpecC02
namespace Rbgp.C02
open Rbgp Rbgp.Term Rbgp.Rib Rbgp.Rib.Codec

def verdictStr : SpecC02.Verdict → String
  | .ok => "ok"
  | .fail i c => s!"fail step={i} clause={c}"

/-- lines are `profile TAB case [TAB observation]`.
    mode `model`: ↦ observation of the model; mode `oracle`: ↦ verdict of the C02 reference checker.
    A case that does not parse is `(bad-case)` on both sides. -/
def handler (mode : String) (line : String) : String :=
  match mode, line.splitOn "\t" with
  | "model", [prof, c] =>
      match profileOf? prof with
      | none => "(bad-line)"
      | some p =>
          match (parse c).bind caseOf? with
          | some cs => toStr (obsT (observe p cs))
          | none => "(bad-case)"
  | "oracle", [prof, c, o] =>
      match profileOf? prof with
      | none => "(bad-line)"
      | some _ =>
          match (parse c).bind caseOf? with
          | some cs =>
              match (parse o).bind obsOf? with
              | some ob => verdictStr (SpecC02.check cs ob)
              | none => if o == "(bad-case)" then "fail step=0 clause=case-rejected-by-harness"
                        else "fail step=0 clause=unparsable-observation"
          | none => if o == "(bad-case)" then "ok" else "fail step=0 clause=bad-case-accepted-by-harness"
  | _, _ => "(bad-line)"

end Rbgp.C02
