def hello := "world"
