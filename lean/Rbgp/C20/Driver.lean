import Rbgp.Fib.Codec
import Rbgp.Fib.Spec
namespace Rbgp.C20
open Rbgp Rbgp.Term Rbgp.Fib Rbgp.Fib.Codec

def verdictStr : Spec.Verdict → String
  | .ok => "ok"
  | .fail i c => s!"fail step={i} clause={c}"

/-- mode `model`: case ↦ canonical observation of the model;
    mode `oracle`: case TAB observation ↦ verdict of the C20 reference checker. -/
def handler (mode : String) (line : String) : String :=
  match mode with
  | "model" =>
      match parse line with
      | none => "(bad-case)"
      | some t =>
        match svcOf? t with
        | some reqs =>
            let (es, w) := svcRunE [] reqs
            toStr (svcT es w reqs)
        | none =>
          match wireOf? t with
          | some (cfg, ops) =>
              let r := run cfg ops
              toStr (traceT ((obsOfRun r).map canonStep) (orderOfRun r) none)
          | none =>
          match caseOf? t with
          | some (cfg, ops, fd) =>
              let r := run cfg ops
              toStr (traceT ((obsOfRun r).map canonStep) (orderOfRun r) (if fd then some (feedOfRun r) else none))
          | none => "(bad-case)"
  | "oracle" =>
      -- an ill-formed case carries no claim: accepted iff the implementation side refused it too
      let badCase (o : String) := if o == "(bad-case)" then "ok" else "fail step=0 clause=ill-formed-case-was-run"
      match line.splitOn "\t" with
      | [cs, os] =>
        match parse cs with
        | none => badCase os
        | some c =>
          match svcOf? c with
          | some reqs =>
              match (parse os).bind svcTraceOf? with
              | some (es, fs) => verdictStr (Spec.checkSvcE reqs es fs)
              | none => "fail step=0 clause=unparsable-observation"
          | none =>
            match (wireOf? c).map (fun x => (x.1, x.2, false)) |>.orElse (fun _ => caseOf? c) with
            | some (cfg, ops, _) =>
                match (parse os).bind traceOf? with
                | some (tr, order, feed) => verdictStr (Spec.checkAll cfg ops tr order feed)
                | none => "fail step=0 clause=unparsable-observation"
            | none => badCase os
      | _ => "(bad-line)"
  | _ => "(bad-mode)"

end Rbgp.C20
