import Rbgp.Fib.Codec
import Rbgp.Fib.Spec
namespace Rbgp.C20
open Rbgp Rbgp.Term Rbgp.Fib Rbgp.Fib.Codec

def verdictStr : Spec.Verdict → String
  | .ok => "ok"
  | .fail i c => s!"fail step={i} clause={c}"

/-- mode `model`: case ↦ canonical observation of the model;
    mode `oracle`: case TAB observation ↦ verdict of the C20 reference checker. -/
def handler (mode : String) (line : String) : String :=
  match mode with
  | "model" =>
      match parse line with
      | none => "(bad-case)"
      | some t =>
        match svcOf? t with
        | some reqs =>
            let (es, w) := svcRun [] reqs
            toStr (svcT es w reqs)
        | none =>
          match caseOf? t with
          | some (cfg, ops) => toStr (traceT ((obsOfRun (run cfg ops)).map canonStep))
          | none => "(bad-case)"
  | "oracle" =>
      match parseMany line with
      | some [c, o] =>
          match svcOf? c with
          | some reqs =>
              match svcTraceOf? o with
              | some (es, fs) => verdictStr (Spec.checkSvc reqs es fs)
              | none => "fail step=0 clause=unparsable-observation"
          | none =>
            match caseOf? c with
            | some (cfg, ops) =>
                match traceOf? o with
                | some tr => verdictStr (Spec.check cfg ops tr)
                | none => "fail step=0 clause=unparsable-observation"
            | none => "(bad-case)"
      | _ => "(bad-line)"
  | _ => "(bad-mode)"

end Rbgp.C20
