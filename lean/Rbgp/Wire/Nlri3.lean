/-
  Rbgp.Wire.Nlri3 — C03 phase 2, continued: the EVPN and flowspec NLRI decoders, transcribed from
  packet/src/{evpn,flowspec}.rs.  They are written over a small reader monad `Rd` (a function from the bytes that are
  left to a value and the bytes left after it), one primitive per read of the source: `Rd.u8` = `read_u8()?`,
  `Rd.take n` = `read_exact(&mut [0; n])?`, `Rd.rd` = `read_exact(8)` + `RouteDistinguisher::decode`; every failing
  read is an `io::Error`, which `Nlri::decode` maps to `UpdateMalformedAttributeList`.

  What an entry decodes to, as (mask, canonical bytes) of a `PNlri`:
    EVPN     : mask = route type;  bytes = the decoded fields in wire order (type 2: the IP length octet is kept and a
               final 0 / 1 says whether the second label was read)
    flowspec : mask = number of components;  bytes = (RD for the VPN variants) ++ for every component its type, then
               for a prefix component: length, (offset for IPv6), the address padded to 4 / 16 bytes; for an operator
               component: per operator the flag octet (length bits cleared) and the value as 8 bytes.
-/
import Rbgp.Wire.Nlri2
namespace Rbgp.Wire

def FAM_EVPN : Nat := 1638470
def FAM_FS4 : Nat := 65669
def FAM_FS6 : Nat := 131205
def FAM_FSVPN4 : Nat := 65670
def FAM_FSVPN6 : Nat := 131206

/-! ## a reader over the bytes that are left -/

def Rd (α : Type) := Bytes → Out (α × Bytes)

def Rd.pure {α} (a : α) : Rd α := fun bs => .ok (a, bs)
def Rd.bind {α β} (f : Rd α) (g : α → Rd β) : Rd β := fun bs =>
  match f bs with
  | .ok (a, r) => g a r
  | .err e => .err e
  | .panic => .panic
instance : Monad Rd where
  pure := Rd.pure
  bind := Rd.bind

def Rd.fail {α} : Rd α := fun _ => .err eMalformed
def Rd.u8 : Rd Nat := fun bs =>
  match bs with
  | [] => .err eMalformed
  | b :: r => .ok (b, r)
def Rd.take (n : Nat) : Rd Bytes := fun bs =>
  if bs.length < n then .err eMalformed else .ok (bs.take n, bs.drop n)
def Rd.rd : Rd Bytes := rdOf

/-! ## EVPN (`EvpnNlri::decode`) -/

/-- `match ip_len { 0 => None (type 2 only), 32 => 4 bytes, 128 => 16 bytes, _ => Err }` -/
def evpnIp (ipLen : Nat) (allowNone : Bool) : Rd Bytes :=
  if ipLen = 0 ∧ allowNone = true then pure []
  else if ipLen = 32 then Rd.take 4
  else if ipLen = 128 then Rd.take 16
  else Rd.fail

/-- type 1: Ethernet Auto-Discovery, `route_len` must be 25 -/
def evpnT1 (l : Nat) : Rd Bytes :=
  if l ≠ 25 then Rd.fail
  else do
    let rd ← Rd.rd
    let esi ← Rd.take 10
    let etag ← Rd.take 4
    let lab ← Rd.take 3
    pure (rd ++ esi ++ etag ++ lab)

/-- type 2: MAC/IP Advertisement; the second label is read when `route_len` says so (`route_len` is not otherwise
    compared with what is consumed) -/
def evpnT2 (l : Nat) : Rd Bytes :=
  if l < 33 then Rd.fail
  else do
    let rd ← Rd.rd
    let esi ← Rd.take 10
    let etag ← Rd.take 4
    let macLen ← Rd.u8
    if macLen ≠ 48 then Rd.fail
    else do
      let mac ← Rd.take 6
      let ipLen ← Rd.u8
      let ip ← evpnIp ipLen true
      let l1 ← Rd.take 3
      if l = 33 + ip.length + 3 then do
        let l2 ← Rd.take 3
        pure (rd ++ esi ++ etag ++ mac ++ [ipLen] ++ ip ++ l1 ++ l2 ++ [1])
      else pure (rd ++ esi ++ etag ++ mac ++ [ipLen] ++ ip ++ l1 ++ [0])

/-- type 3: Inclusive Multicast Ethernet Tag -/
def evpnT3 (l : Nat) : Rd Bytes :=
  if l < 17 then Rd.fail
  else do
    let rd ← Rd.rd
    let etag ← Rd.take 4
    let ipLen ← Rd.u8
    let ip ← evpnIp ipLen false
    pure (rd ++ etag ++ [ipLen] ++ ip)

/-- type 4: Ethernet Segment -/
def evpnT4 (l : Nat) : Rd Bytes :=
  if l < 23 then Rd.fail
  else do
    let rd ← Rd.rd
    let esi ← Rd.take 10
    let ipLen ← Rd.u8
    let ip ← evpnIp ipLen false
    pure (rd ++ esi ++ [ipLen] ++ ip)

/-- type 5: IP Prefix, `route_len` 34 (IPv4) or 58 (IPv6) -/
def evpnT5 (l : Nat) : Rd Bytes :=
  if l ≠ 34 ∧ l ≠ 58 then Rd.fail
  else do
    let rd ← Rd.rd
    let esi ← Rd.take 10
    let etag ← Rd.take 4
    let plen ← Rd.u8
    let n := if l = 58 then 16 else 4
    let pfx ← Rd.take n
    let gw ← Rd.take n
    let lab ← Rd.take 3
    pure (rd ++ esi ++ etag ++ [plen] ++ pfx ++ gw ++ lab)

def evpnBody (t l : Nat) : Rd Bytes :=
  if t = 1 then evpnT1 l
  else if t = 2 then evpnT2 l
  else if t = 3 then evpnT3 l
  else if t = 4 then evpnT4 l
  else if t = 5 then evpnT5 l
  else Rd.fail

def evpnRd : Rd (Nat × Bytes) := do
  let t ← Rd.u8
  let l ← Rd.u8
  let b ← evpnBody t l
  pure (t, b)

def oneOfRd (f : Rd (Nat × Bytes)) (bs : Bytes) : One :=
  match f bs with
  | .ok ((m, c), r) => .ok (m, c, r)
  | .err e => .err e
  | .panic => .panic

def evpnOne (bs : Bytes) : One := oneOfRd evpnRd bs

/-! ## flowspec -/

/-- `Op::decode`: flag octet, then a value of 1 / 2 / 4 / 8 bytes; (flags with the length bits cleared, value) -/
def fsOp : Rd (Nat × Nat) := do
  let raw ← Rd.u8
  let v ← Rd.take (2 ^ (raw / 16 % 4))
  pure (raw &&& 207, be v)

/-- `decode_ops`: operators until the end-of-list bit -/
def fsOps : Nat → List (Nat × Nat) → Rd (List (Nat × Nat))
  | 0, _ => fun _ => .panic
  | fuel + 1, acc => do
      let op ← fsOp
      if op.1 &&& 128 ≠ 0 then pure (op :: acc).reverse else fsOps fuel (op :: acc)

/-- `decode_ops` on what is left (the fuel is the number of bytes left, every operator takes at least two) -/
def fsOpsRd : Rd (List (Nat × Nat)) := fun bs => fsOps (bs.length + 1) [] bs

def opBytes (op : Nat × Nat) : Bytes :=
  [op.1, op.2 / 72057594037927936 % 256, op.2 / 281474976710656 % 256, op.2 / 1099511627776 % 256,
   op.2 / 4294967296 % 256, op.2 / 16777216 % 256, op.2 / 65536 % 256, op.2 / 256 % 256, op.2 % 256]

/-- `decode_ipv4_prefix` / `decode_ipv6_prefix` (the latter with the offset octet) -/
def fsPrefix (v6 : Bool) : Rd Bytes := do
  let bits ← Rd.u8
  if bits > (if v6 then 128 else 32) then Rd.fail
  else do
    let off ← (if v6 then Rd.take 1 else pure [])
    let a ← Rd.take ((bits + 7) / 8)
    pure ([bits] ++ off ++ padTo a (if v6 then 16 else 4))

/-- `FlowspecV4Component::decode` / `FlowspecV6Component::decode`: type octet, then a prefix (1, 2) or operators
    (3..12, and 13 for IPv6) -/
def fsComp (v6 : Bool) : Rd Bytes := do
  let t ← Rd.u8
  if t = 1 ∨ t = 2 then do
    let p ← fsPrefix v6
    pure ([t] ++ p)
  else if 3 ≤ t ∧ (t ≤ 12 ∨ (t = 13 ∧ v6 = true)) then do
    let ops ← fsOpsRd
    pure ([t] ++ ops.flatMap opBytes)
  else Rd.fail

/-- `while c.position() < nlri_len { components.push(decode(&mut c)?) }` over the NLRI's own bytes -/
def fsComps (v6 : Bool) : Nat → Bytes → List Bytes → Out (List Bytes)
  | 0, _, _ => .panic
  | _ + 1, [], acc => .ok acc.reverse
  | fuel + 1, b :: bs, acc =>
      match fsComp v6 (b :: bs) with
      | .ok (c, r) => fsComps v6 fuel r (c :: acc)
      | .err e => .err e
      | .panic => .panic

/-- `read_nlri_len`: one octet, or two when the first is ≥ 0xF0; (length, octets read) -/
def fsLen : Rd (Nat × Nat) := do
  let first ← Rd.u8
  if first < 240 then pure (first, 1)
  else do
    let second ← Rd.u8
    pure ((first &&& 15) * 256 + second, 2)

/-- `FlowspecV4Nlri::decode` / `V6` / `FlowspecVpnV4Nlri::decode` / `VpnV6` -/
def fsOne (v6 vpn : Bool) (bs : Bytes) (len : Nat) : One :=
  if len < 1 then .err eMalformed
  else match fsLen bs with
    | .ok ((nlriLen, hdr), r1) =>
        if nlriLen + hdr > len ∨ (vpn = true ∧ nlriLen < 8) then .err eMalformed
        else if r1.length < nlriLen then .err eMalformed
        else
          let buf := r1.take nlriLen
          let rest := r1.drop nlriLen
          if vpn then
            match rdOf buf with
            | .ok (rd, buf1) =>
                match fsComps v6 (buf1.length + 1) buf1 [] with
                | .ok cs => .ok (cs.length, rd ++ cs.flatten, rest)
                | .err e => .err e
                | .panic => .panic
            | .err e => .err e
            | .panic => .panic
          else
            match fsComps v6 (buf.length + 1) buf [] with
            | .ok cs => .ok (cs.length, cs.flatten, rest)
            | .err e => .err e
            | .panic => .panic
    | .err e => .err e
    | .panic => .panic

/-! ## the decoders after this step -/

def oneOf3 (fam : Nat) : Option (Bytes → Nat → One) :=
  if fam = FAM_EVPN then some (fun bs _ => evpnOne bs)
  else if fam = FAM_FS4 then some (fsOne false false)
  else if fam = FAM_FS6 then some (fsOne true false)
  else if fam = FAM_FSVPN4 then some (fsOne false true)
  else if fam = FAM_FSVPN6 then some (fsOne true true)
  else none

/-- EVPN and flowspec (+VPN) transcribed; other families passed on -/
def decE (rest : HypDec) : HypDec := fun fam addpath isReach bs =>
  match oneOf3 fam with
  | some one => nlriLoop2 one addpath (bs.length + 1) bs []
  | none => rest fam addpath isReach bs

/-- the model's NLRI decoders: VPN, labeled, RTC, SR policy, EVPN, flowspec transcribed; MUP and BGP-LS left to `rest` -/
def decP3 (p : Profile) (rest : HypDec) : HypDec := decP2 p (decE rest)

end Rbgp.Wire
