/-
  Rbgp.Wire.Rtr — models of packet/src/rpki.rs `Message::from_bytes` + `RtrCodec::decode`
  and of packet/src/bfd.rs `Message::decode`.
-/
import Rbgp.Wire.Basic
namespace Rbgp.Wire

/-! ## RTR (RFC 6810 / 8210) -/

inductive RtrMsg where
  | serialNotify (sid serial : Nat)
  | serialQuery (sid serial : Nat)
  | resetQuery
  | cacheResponse (sid : Nat)
  | prefix (flags mask maxLen : Nat) (addr : Bytes) (asn : Nat)
  | endOfData (sid serial refresh retry expire : Nat)
  | cacheReset
  | errorReport (code : Nat)
  deriving DecidableEq, Repr, Inhabited

/-- the body of one PDU type, read from the cursor right after the 8-byte header
    (`none` = a `?` on a short read, or an unknown type) -/
def rtrBody (version ty session : Nat) (body : Bytes) : Option RtrMsg :=
  if ty = 0 then (takeN body 4).map fun (x, _) => .serialNotify session (be x)
  else if ty = 1 then (takeN body 4).map fun (x, _) => .serialQuery session (be x)
  else if ty = 2 then some .resetQuery
  else if ty = 3 then some (.cacheResponse session)
  else if ty = 4 then
    (takeN body 12).map fun (x, _) =>
      .prefix (be (x.take 1)) (be ((x.drop 1).take 1)) (be ((x.drop 2).take 1)) ((x.drop 4).take 4) (be (x.drop 8))
  else if ty = 6 then
    (takeN body 24).map fun (x, _) =>
      .prefix (be (x.take 1)) (be ((x.drop 1).take 1)) (be ((x.drop 2).take 1)) ((x.drop 4).take 16) (be (x.drop 20))
  else if ty = 7 then
    if version ≥ 1 then
      (takeN body 16).map fun (x, _) =>
        .endOfData session (be (x.take 4)) (be ((x.drop 4).take 4)) (be ((x.drop 8).take 4)) (be (x.drop 12))
    else (takeN body 4).map fun (x, _) => .endOfData session (be x) 0 0 0
  else if ty = 8 then some .cacheReset
  else if ty = 10 then some (.errorReport session)
  else none

/-- `Message::from_bytes`: the message and the declared length; `none` = `Err(_)` -/
def rtrFromBytes (buf : Bytes) : Option (RtrMsg × Nat) :=
  match takeN buf 8 with
  | none => none
  | some (h, body) =>
      let version := be (h.take 1)
      let ty := be ((h.drop 1).take 1)
      let session := be ((h.drop 2).take 2)
      let length := be (h.drop 4)
      if length > buf.length then none
      else (rtrBody version ty session body).map fun m => (m, length)

/-- `RtrCodec::decode`: `Ok(Some(m))` with the bytes removed, or `Ok(None)`.
    `src.split_to(len)` panics when `len > src.len()`. -/
def rtrDecode (src : Bytes) : Out (Option (RtrMsg × Nat)) :=
  match rtrFromBytes src with
  | some (m, len) => if len ≤ src.length then .ok (some (m, len)) else .panic
  | none => .ok none

/-! ## BFD control packet (RFC 5880) -/

structure BfdMsg where
  diag : Nat
  state : Nat
  poll : Bool
  final : Bool
  cpi : Bool
  demand : Bool
  mult : Nat
  myDisc : Nat
  yourDisc : Nat
  minTx : Nat
  minRx : Nat
  minEchoRx : Nat
  deriving DecidableEq, Repr, Inhabited

inductive BfdErr where
  | badLength (n : Nat)
  | badVersion (v : Nat)
  | badState (v : Nat)
  | badDiag (v : Nat)
  | io
  deriving DecidableEq, Repr, Inhabited

/-- `bfd::Message::decode`; indexing `buf[i]` panics out of range, the cursor reads map to `Io` -/
def bfdDecode (buf : Bytes) : Out (Except BfdErr BfdMsg) :=
  if buf.length < 24 then .ok (.error (.badLength buf.length))
  else do
    let length ← rd8 buf 3
    if buf.length ≠ length then .ok (.error (.badLength buf.length))
    else do
      let b0 ← rd8 buf 0
      let version := b0 / 32
      if version ≠ 1 then .ok (.error (.badVersion version))
      else
        let diag := b0 % 32
        if diag > 31 then .ok (.error (.badDiag diag))
        else do
          let b1 ← rd8 buf 1
          let st := b1 / 64
          if st > 3 then .ok (.error (.badState st))
          else do
            let mult ← rd8 buf 2
            let body ← slice buf 4 buf.length
            match takeN body 20 with
            | none => .ok (.error .io)
            | some (x, _) =>
                .ok (.ok {
                  diag := diag, state := st,
                  poll := b1 / 32 % 2 ≠ 0, final := b1 / 16 % 2 ≠ 0, cpi := b1 / 8 % 2 ≠ 0,
                  demand := b1 / 2 % 2 ≠ 0, mult := mult,
                  myDisc := be (x.take 4), yourDisc := be ((x.drop 4).take 4),
                  minTx := be ((x.drop 8).take 4), minRx := be ((x.drop 12).take 4),
                  minEchoRx := be ((x.drop 16).take 4) })

end Rbgp.Wire
