/-
  Rbgp.Wire.Rtr — models of packet/src/rpki.rs `Message::from_bytes` + `RtrCodec::decode`
  and of packet/src/bfd.rs `Message::decode`.
-/
import Rbgp.Wire.Basic
namespace Rbgp.Wire

/-! ## RTR (RFC 6810 / 8210) -/

inductive RtrMsg where
  | serialNotify (sid serial : Nat)
  | serialQuery (sid serial : Nat)
  | resetQuery
  | cacheResponse (sid : Nat)
  | prefix (flags mask maxLen : Nat) (addr : Bytes) (asn : Nat)
  | endOfData (sid serial refresh retry expire : Nat)
  | cacheReset
  | errorReport (code : Nat)
  | unsupported (ty : Nat)
  deriving DecidableEq, Repr, Inhabited

/-- `Message::parse` after the header: the body of one PDU type read from the cursor right after the
    8-byte header (`none` = a `?` on a short read) -/
def rtrBody (version ty session : Nat) (body : Bytes) : Option RtrMsg :=
  if ty = 0 then (takeN body 4).map fun (x, _) => .serialNotify session (be x)
  else if ty = 1 then (takeN body 4).map fun (x, _) => .serialQuery session (be x)
  else if ty = 2 then some .resetQuery
  else if ty = 3 then some (.cacheResponse session)
  else if ty = 4 then
    (takeN body 12).map fun (x, _) =>
      .prefix (be (x.take 1)) (be ((x.drop 1).take 1)) (be ((x.drop 2).take 1)) ((x.drop 4).take 4) (be (x.drop 8))
  else if ty = 6 then
    (takeN body 24).map fun (x, _) =>
      .prefix (be (x.take 1)) (be ((x.drop 1).take 1)) (be ((x.drop 2).take 1)) ((x.drop 4).take 16) (be (x.drop 20))
  else if ty = 7 then
    if version ≥ 1 then
      (takeN body 16).map fun (x, _) =>
        .endOfData session (be (x.take 4)) (be ((x.drop 4).take 4)) (be ((x.drop 8).take 4)) (be (x.drop 12))
    else (takeN body 4).map fun (x, _) => .endOfData session (be x) 0 0 0
  else if ty = 8 then some .cacheReset
  else if ty = 10 then some (.errorReport session)
  else some (.unsupported ty)

/-- `Message::parse(buf)` (`buf` is exactly one PDU): message and declared length; `none` = `Err(_)` -/
def rtrParse (buf : Bytes) : Option (RtrMsg × Nat) :=
  match takeN buf 8 with
  | none => none
  | some (h, body) =>
      let version := be (h.take 1)
      let ty := be ((h.drop 1).take 1)
      let session := be ((h.drop 2).take 2)
      let length := be (h.drop 4)
      if length > buf.length then none
      else (rtrBody version ty session body).map fun m => (m, length)

/-- one `RtrCodec::decode` call -/
inductive RtrRes where
  | more
  | pdu (m : RtrMsg) (n : Nat)
  | err
  | panic
  deriving DecidableEq, Repr

/-- the fixed size of the fixed-size PDU types -/
def rtrExpected (version ty : Nat) : Option Nat :=
  if ty = 0 ∨ ty = 1 then some 12
  else if ty = 2 ∨ ty = 3 ∨ ty = 8 then some 8
  else if ty = 4 then some 20
  else if ty = 6 then some 32
  else if ty = 7 then some (if version ≥ 1 then 24 else 12)
  else none

/-- the header-only part of `Message::from_bytes` (as repaired) -/
inductive RtrFrame where
  | more
  | err
  | frame (length : Nat)
  deriving DecidableEq, Repr

def rtrBadLen (version ty length : Nat) : Bool :=
  match rtrExpected version ty with
  | some e => e != length
  | none => false

/-- frames on the header alone and rejects impossible lengths; `buf[i]` indexing is explicit -/
def rtrFrame (src : Bytes) : Out RtrFrame :=
  if src.length < 8 then .ok .more
  else do
    let version ← rd8 src 0
    let ty ← rd8 src 1
    let length ← rd32 src 4
    if length < 8 ∨ length > 65535 then .ok .err
    else if rtrBadLen version ty length then .ok .err
    else if length > src.length then .ok .more
    else .ok (.frame length)

/-- `Message::from_bytes` followed by `RtrCodec::decode`'s `split_to(len)` (panics when `len > src.len()`) -/
def rtrDecode (src : Bytes) : RtrRes :=
  match rtrFrame src with
  | .ok .more => .more
  | .ok .err => .err
  | .ok (.frame length) =>
      match slice src 0 length with
      | .ok pdu =>
          match rtrParse pdu with
          | some (m, len) => if len ≤ src.length then .pdu m len else .panic
          | none => .err
      | _ => .panic
  | _ => .panic

/-! ## BFD control packet (RFC 5880) -/

structure BfdMsg where
  diag : Nat
  state : Nat
  poll : Bool
  final : Bool
  cpi : Bool
  demand : Bool
  mult : Nat
  myDisc : Nat
  yourDisc : Nat
  minTx : Nat
  minRx : Nat
  minEchoRx : Nat
  deriving DecidableEq, Repr, Inhabited

inductive BfdErr where
  | badLength (n : Nat)
  | badVersion (v : Nat)
  | badState (v : Nat)
  | badDiag (v : Nat)
  | io
  deriving DecidableEq, Repr, Inhabited

/-- `bfd::Message::decode`; indexing `buf[i]` panics out of range, the cursor reads map to `Io` -/
def bfdDecode (buf : Bytes) : Out (Except BfdErr BfdMsg) :=
  if buf.length < 24 then .ok (.error (.badLength buf.length))
  else do
    let length ← rd8 buf 3
    if buf.length ≠ length then .ok (.error (.badLength buf.length))
    else do
      let b0 ← rd8 buf 0
      let version := b0 / 32
      if version ≠ 1 then .ok (.error (.badVersion version))
      else
        let diag := b0 % 32
        if diag > 31 then .ok (.error (.badDiag diag))
        else do
          let b1 ← rd8 buf 1
          let st := b1 / 64
          if st > 3 then .ok (.error (.badState st))
          else do
            let mult ← rd8 buf 2
            let body ← slice buf 4 buf.length
            match takeN body 20 with
            | none => .ok (.error .io)
            | some (x, _) =>
                .ok (.ok {
                  diag := diag, state := st,
                  poll := b1 / 32 % 2 ≠ 0, final := b1 / 16 % 2 ≠ 0, cpi := b1 / 8 % 2 ≠ 0,
                  demand := b1 / 2 % 2 ≠ 0, mult := mult,
                  myDisc := be (x.take 4), yourDisc := be ((x.drop 4).take 4),
                  minTx := be ((x.drop 8).take 4), minRx := be ((x.drop 12).take 4),
                  minEchoRx := be ((x.drop 16).take 4) })

end Rbgp.Wire
