/-
  Rbgp.Wire.UpdateSpec — C05 (packet half) written from the property text as a reference checker.

  "When an UPDATE carries an attribute that is malformed, has wrong flags, is an unrecognised well-known
   attribute, or lacks a mandatory attribute, no prefix announced in that UPDATE is installed or kept with the
   faulty attribute believed: the announced prefixes are treated as withdrawn (for an optional non-transitive
   attribute, AS4_PATH or AS4_AGGREGATOR the route may instead be kept with just that attribute removed), while
   withdrawals in the same message still take effect.  The session is reset with a NOTIFICATION only when the
   NLRI themselves cannot be located or parsed, and iBGP-only attributes received from an external peer are
   dropped rather than believed."

  Input: the valid UPDATE `u`, the corruptions `cs`, codec, peer kind.  Observation: the `Message` list returned by
  `validate_message(try_parse(bytes))`, or the NOTIFICATION.  The checker classifies every corruption from the
  ATTRIBUTE TYPE (its own table of RFC attribute classes and value syntax) — never from the flags on the wire —
  and judges the observation.  It imports the model only for types; it calls no model function.
  Cases outside the property's quantifier (`u` not a valid UPDATE, indices out of range) are accepted.
-/
import Rbgp.Wire.Update
namespace Rbgp.Wire.USpec
open Rbgp.Wire

inductive Verdict where
  | ok
  | fail (clause : String)
  deriving DecidableEq, Repr

/-! ### attribute types (RFC 4271, 1997, 4456, 4760, 4360, 6793, 7311, 8092, 9012, 8669, 9552) -/

/-- (optional, transitive) of the attribute types the property knows -/
def attrClass (code : Nat) : Option (Bool × Bool) :=
  if code = 1 ∨ code = 2 ∨ code = 3 ∨ code = 5 ∨ code = 6 then some (false, true)
  else if code = 4 ∨ code = 9 ∨ code = 10 ∨ code = 14 ∨ code = 15 ∨ code = 26 ∨ code = 29 then some (true, false)
  else if code = 7 ∨ code = 8 ∨ code = 16 ∨ code = 17 ∨ code = 18 ∨ code = 32 ∨ code = 40 ∨ code = 23 then some (true, true)
  else none

/-- The same classes, one row per attribute type, each taken from the document that defines the type
    (code, optional, transitive):
      1 ORIGIN, 2 AS_PATH, 3 NEXT_HOP: well-known mandatory (RFC 4271 §5.1.1-5.1.3)
      5 LOCAL_PREF, 6 ATOMIC_AGGREGATE: well-known (RFC 4271 §5.1.5, §5.1.6)
      4 MULTI_EXIT_DISC: optional non-transitive (RFC 4271 §5.1.4)
      7 AGGREGATOR: optional transitive (RFC 4271 §5.1.7)
      8 COMMUNITIES: optional transitive (RFC 1997)
      9 ORIGINATOR_ID, 10 CLUSTER_LIST: optional non-transitive (RFC 4456 §8)
      14 MP_REACH_NLRI, 15 MP_UNREACH_NLRI: optional non-transitive (RFC 4760 §3, §4)
      16 EXTENDED COMMUNITIES: optional transitive (RFC 4360 §2)
      17 AS4_PATH, 18 AS4_AGGREGATOR: optional transitive (RFC 6793 §3)
      23 TUNNEL_ENCAP: optional transitive (RFC 9012 §2)
      26 AIGP: optional non-transitive (RFC 7311 §3)
      29 BGP-LS: optional non-transitive (RFC 9552 §5.3)
      32 LARGE COMMUNITY: optional transitive (RFC 8092 §3)
      40 BGP PREFIX-SID: optional transitive (RFC 8669 §3) -/
def rfcTable : List (Nat × Bool × Bool) :=
  [(1, false, true), (2, false, true), (3, false, true), (5, false, true), (6, false, true),
   (4, true, false), (7, true, true), (8, true, true), (9, true, false), (10, true, false),
   (14, true, false), (15, true, false), (16, true, true), (17, true, true), (18, true, true),
   (23, true, true), (26, true, false), (29, true, false), (32, true, true), (40, true, true)]

def rfcClass (code : Nat) : Option (Bool × Bool) := (rfcTable.find? (·.1 == code)).map (·.2)

/-- "for an optional non-transitive attribute, AS4_PATH or AS4_AGGREGATOR the route may instead be kept with
    just that attribute removed" -/
def discardable (code : Nat) : Bool :=
  attrClass code == some (true, false) || code == 17 || code == 18

def flagBits (f : Nat) : Bool × Bool := (f / 128 % 2 == 1, f / 64 % 2 == 1)

/-- AS path segments with `w` octets per AS number; `nz`: an empty segment is malformed (RFC 7606 §7.2) -/
def segsOk (w : Nat) (nz : Bool) : Nat → Bytes → Bool
  | _, [] => true
  | _, [_] => false
  | 0, _ => false
  | fuel + 1, t :: c :: rest =>
      1 ≤ t && t ≤ 4 && !(nz && c == 0) && c * w ≤ rest.length && segsOk w nz fuel (rest.drop (c * w))

/-- AIGP TLVs (RFC 7311 §3): type, 2-byte length ≥ 3 covering the TLV, within the attribute -/
def aigpOk : Nat → Bytes → Bool
  | _, [] => true
  | 0, _ => false
  | fuel + 1, _ :: lh :: ll :: rest =>
      let l := lh * 256 + ll
      3 ≤ l && l - 3 ≤ rest.length && aigpOk fuel (rest.drop (l - 3))
  | _, _ => false

/-- is `data` a syntactically valid value for attribute `code` on a session with 2- or 4-octet AS numbers? -/
def validValue (two : Bool) (code : Nat) (data : Bytes) : Bool :=
  let len := data.length
  if code = 1 then len == 1 && data.all (· ≤ 2)
  else if code = 2 then segsOk (if two then 2 else 4) true (len + 1) data
  else if code = 3 then len == 4
  else if code = 4 ∨ code = 5 ∨ code = 9 then len == 4
  else if code = 6 then len == 0
  else if code = 7 then len == 6 || len == 8
  else if code = 8 ∨ code = 10 then len % 4 == 0
  else if code = 16 then len % 8 == 0
  else if code = 32 then len % 12 == 0
  else if code = 17 then len % 2 == 0 && 6 ≤ len && segsOk 4 true (len + 1) data
  else if code = 18 then len == 8
  else if code = 26 then aigpOk (len + 1) data
  else true

/-! ### the valid UPDATE -/

def pfxOk (maxBits : Nat) (addpath : Bool) (p : CPfx) : Bool :=
  p.mask ≤ maxBits && p.addr.length == (p.mask + 7) / 8 && (addpath || p.id == 0) && p.id < 4294967296

def famBits (afi : Nat) : Option Nat := if afi = 1 then some 32 else if afi = 2 then some 128 else none

def negotiated (c : Codec) (fam : Nat) : Option Bool :=
  (c.fams.find? (fun x => x.1 == fam)).map (·.2)

def distinctCodes : List Nat → Bool
  | [] => true
  | x :: xs => !xs.contains x && distinctCodes xs

def cattrOk (two : Bool) (a : CAttr) : Bool :=
  match attrClass a.code with
  | none => false
  | some cls =>
      a.code != 14 && a.code != 15 && a.flags < 256 && flagBits a.flags == cls
        && (a.flags / 16 % 2 == 1 || a.data.length ≤ 255) && a.data.length ≤ 4000
        && validValue two a.code a.data

/-- the rendered attribute list `attrs ++ [MP_REACH] ++ [MP_UNREACH]`: (code, header size, value size) -/
def rcodes (u : CUpdate) : List Nat :=
  u.attrs.map (·.code) ++ (if u.mpr.isSome then [14] else []) ++ (if u.mpu.isSome then [15] else [])

def corrIdxOk (n : Nat) : Corr → Bool
  | .flags i f => i < n && f < 256
  | .data i d => i < n && d.length ≤ 4000
  | .lenfield i l => i < n && l < 65536
  | .dup i d => i < n && d.length ≤ 4000
  | .omit i => i < n
  | .trunc k => k < 65536
  | .unknown f c d => f < 256 && c < 256 && d.length ≤ 255 && attrClass c == none
  | .nlribad m => m < 256

def hasAttr (u : CUpdate) (code : Nat) : Bool := u.attrs.any (·.code == code)

def octets (b : Bytes) : Bool := b.all (· < 256)

/-- everything that is rendered as octets is an octet -/
def octetsOk (u : CUpdate) (cs : List Corr) : Bool :=
  let pOk (p : CPfx) : Bool := p.mask < 256 && octets p.addr
  u.wd.all pOk && u.nlri.all pOk && u.attrs.all (fun a => octets a.data)
    && (match u.mpr with | some m => octets m.nh && m.nlri.all pOk | none => true)
    && (match u.mpu with | some m => m.nlri.all pOk | none => true)
    && cs.all fun k => match k with
      | .data _ d => octets d
      | .dup _ d => octets d
      | .unknown _ _ d => octets d
      | _ => true

/-! #### facts about `blockItems` that hold by construction for a valid `u` (distinct known types in `u`, distinct
   unrecognised appended types, a `dup` copy right after its first copy, MP_REACH / MP_UNREACH values as rendered from
   `u.mpr` / `u.mpu`).  They are stated as checks so that the theorems need not re-derive them; the generator's valid
   cases all pass them (evidence: no generated case is rejected by `wfCase`). -/

/-- every item that is not a `dup` copy is the first of its type -/
def firstOcc : List WItem → List Nat → Bool
  | [], _ => true
  | w :: ws, seen => (w.kind == 1 || !seen.contains w.code) && firstOcc ws (w.code :: seen)

/-- a `dup` copy comes right after the first copy of the same attribute -/
def dupOk : Option WItem → List WItem → Bool
  | _, [] => true
  | prev, w :: ws =>
      (w.kind != 1 ||
        (match prev with
         | some p => p.kind != 1 && p.code == w.code && p.flags == w.flags && p.data == w.firstData
         | none => false)) && dupOk (some w) ws

def structOk (c : Codec) (u : CUpdate) (cs : List Corr) : Bool :=
  let items := blockItems c u cs
  let mprPresent := (idxFrom 0 (baseAttrs c u)).any fun (i, o) => o.code == 14 && (effAttr cs i o).present
  let mpuPresent := (idxFrom 0 (baseAttrs c u)).any fun (i, o) => o.code == 15 && (effAttr cs i o).present
  items.all (fun w =>
      w.flags < 256 && w.code < 256 && w.data.length < 65536 && w.kind ≤ 2
        && (w.lenOv || w.lenField == w.data.length)
        && (w.kind != 0 || attrClass w.code != none)
        && (w.kind != 2 || attrClass w.code == none)
        && (w.kind != 0 || w.code != 14 ||
              (match u.mpr with | some m => w.origData == (mprAttr c m).data | none => false))
        && (w.kind != 0 || w.code != 15 ||
              (match u.mpu with | some m => w.origData == (mpuAttr c m).data | none => false))
        && octets w.data)
    && firstOcc items [] && dupOk none items
    && (!mprPresent || items.any fun w => w.kind == 0 && w.code == 14)
    && (!mpuPresent || items.any fun w => w.kind == 0 && w.code == 15)
    && ((idxFrom 0 (baseAttrs c u)).all fun (i, o) =>
          (effAttr cs i o).present || items.all fun w => w.code != o.code)
    && (u.mpr.isSome == (idxFrom 0 (baseAttrs c u)).any fun (_, o) => o.code == 14)
    && (u.mpu.isSome == (idxFrom 0 (baseAttrs c u)).any fun (_, o) => o.code == 15)

/-- `u` is a valid UPDATE for codec `c`, `cs` refers to it and the result is a frame of legal size:
    the property's quantifier -/
def wfLegacy (c : Codec) (u : CUpdate) : Bool :=
  (u.wd.isEmpty && u.nlri.isEmpty) ||
    (match negotiated c FAM_IPV4 with
     | some ap => u.wd.all (pfxOk 32 ap) && u.nlri.all (pfxOk 32 ap)
     | none => false)

def wfMpr (c : Codec) (u : CUpdate) : Bool :=
  match u.mpr with
  | none => true
  | some m =>
      m.safi ≥ 1 && m.safi ≤ 2 &&
      (match famBits m.afi, negotiated c (famKey m.afi m.safi) with
       | some bits, some ap =>
           m.nlri.all (pfxOk bits ap) && !m.nlri.isEmpty
             && (if m.afi = 2 then m.nh.length == 16 || m.nh.length == 32 else m.nh.length == 4 || m.nh.length == 16)
       | _, _ => false)

def wfMpu (c : Codec) (u : CUpdate) : Bool :=
  match u.mpu with
  | none => true
  | some m =>
      m.safi ≥ 1 && m.safi ≤ 2 &&
      (match famBits m.afi, negotiated c (famKey m.afi m.safi) with
       | some bits, some ap => m.nlri.all (pfxOk bits ap) && !m.nlri.isEmpty
       | _, _ => false)

def announcesU (u : CUpdate) : Bool := !u.nlri.isEmpty || u.mpr.isSome

/-- attributes of `u`: known types with their class's flags and a valid value, each type once;
    ORIGIN / AS_PATH / NEXT_HOP where required; something is announced or withdrawn -/
def wfAttrs (c : Codec) (u : CUpdate) : Bool :=
  u.attrs.all (cattrOk c.two) && distinctCodes (u.attrs.map (·.code))
    && (!announcesU u || (hasAttr u 1 && hasAttr u 2))
    && (u.nlri.isEmpty || hasAttr u 3)
    && (announcesU u || !u.wd.isEmpty || u.mpu.isSome)

def wfCorr (u : CUpdate) (cs : List Corr) : Bool :=
  cs.all (corrIdxOk (rcodes u).length)
    && distinctCodes (cs.filterMap fun k => match k with | .unknown _ code _ => some code | _ => none)

def wfBounds (u : CUpdate) : Bool :=
  u.attrs.length ≤ 40 && u.wd.length ≤ 40 && u.nlri.length ≤ 40
    && (match u.mpr with | some m => m.nlri.length ≤ 40 | none => true)
    && (match u.mpu with | some m => m.nlri.length ≤ 40 | none => true)

def wfCase (c : Codec) (u : CUpdate) (cs : List Corr) : Bool :=
  wfLegacy c u && wfMpr c u && wfMpu c u && wfAttrs c u && wfCorr u cs
    && decide ((render c u cs).length ≤ c.maxLen) && structOk c u cs && octetsOk u cs && wfBounds u

/-! ### classification (from the attribute TYPE) of what is on the wire

  The case language (`Rbgp.Wire.UpdateCase`) says which attributes the corrupted UPDATE carries: `effAttrs` are the
  attributes of `u` with the corruptions applied (same positions), followed by the appended unrecognised ones;
  `blockItems` are the items of the attribute block in wire order.  Each item gets the classes its state calls for. -/

inductive Cls where
  | none                         -- not an error
  | taw                          -- treat-as-withdraw required
  | discardOrTaw (code : Nat)    -- attribute discard allowed
  | dup (code : Nat) (d : Bytes) -- the second copy must not be believed
  | tawOrReset                   -- MP_REACH / MP_UNREACH header damaged but NLRI intact: withdraw or reset
  | weak                         -- touches NLRI location / block framing: a reset is allowed
  deriving DecidableEq, Repr

def malformedCls (code : Nat) : Cls := if discardable code then .discardOrTaw code else .taw

def isMp (code : Nat) : Bool := code == 14 || code == 15

def extBit (flags : Nat) : Bool := flags &&& 0x10 != 0

/-- an attribute of `u` that is not on the wire at all (omitted, or lost to truncation) -/
def goneCls (announces legacyNlri : Bool) (code : Nat) : Cls :=
  if isMp code then .weak
  else if (code == 1 || code == 2) && announces then .taw
  else if code == 3 && legacyNlri then .taw
  else .none

/-- attribute types whose stored value is the wire value, so that "the second copy was believed" can be read off
    the output (AS_PATH, AGGREGATOR, AS4_* are re-encoded on receipt and are not judged by this clause) -/
def identityStored (code : Nat) : Bool := [1, 4, 5, 9, 8, 10, 16, 32, 26].contains code

/-- a length that the 1-octet length field cannot carry: the framing of the block is broken -/
def lenUnfit (flags len : Nat) : Bool := !extBit flags && len > 255

/-- what a wire item calls for when it is entirely on the wire -/
def itemCls (two : Bool) (w : WItem) : List Cls :=
  (if w.lenOv || lenUnfit w.flags w.data.length then [Cls.weak] else [])
    ++ (if w.kind = 0 then
          (if isMp w.code then
            (if w.data != w.origData then [Cls.weak] else [])
              ++ (if some (flagBits w.flags) != attrClass w.code then [Cls.tawOrReset] else [])
          else
            (if some (flagBits w.flags) != attrClass w.code then [malformedCls w.code] else [])
              ++ (if !validValue two w.code w.data then [malformedCls w.code] else []))
        else if w.kind = 1 then
          (if isMp w.code then [Cls.weak]
           else if identityStored w.code && w.data != w.firstData then [Cls.dup w.code w.data] else [])
        else
          (if w.flags / 128 % 2 == 0 then [Cls.taw] else []))

/-- an item with what it calls for when it is entirely on the wire (`cls`) and when it is entirely missing (`gone`) -/
structure SItem where
  size : Nat
  code : Nat
  flags : Nat
  cls : List Cls
  gone : Cls
  deriving DecidableEq, Repr

def sItemOf (two announces legacyNlri : Bool) (w : WItem) : SItem :=
  { size := (renderItem w).length, code := w.code, flags := w.flags, cls := itemCls two w,
    gone := if w.kind = 0 then goneCls announces legacyNlri w.code else Cls.none }

/-- all items of the block in wire order -/
def sItems (c : Codec) (u : CUpdate) (cs : List Corr) (announces legacyNlri : Bool) : List SItem :=
  (blockItems c u cs).map (sItemOf c.two announces legacyNlri)

/-- walk from the end of the block: `k` bytes are missing -/
def truncCls : List SItem → Nat → List Cls
  | [], _ => []
  | a :: rest, k =>
      if k = 0 then (a :: rest).flatMap (·.cls)
      else if k ≥ a.size then a.gone :: truncCls rest (k - a.size)
      else
        -- cut in the middle (an item whose own framing is off stays `weak`)
        (if a.cls.contains Cls.weak then [Cls.weak] else []) ++
        [if isMp a.code then Cls.weak
         else match attrClass a.code with
           | some _ => malformedCls a.code
           | none => if a.flags / 128 % 2 == 1 && a.flags / 64 % 2 == 0 then Cls.discardOrTaw a.code else Cls.taw]
          ++ rest.flatMap (·.cls)

/-- the classes of attributes of `u` that a corruption removed altogether -/
def omittedCls (c : Codec) (u : CUpdate) (cs : List Corr) (announces legacyNlri : Bool) : List Cls :=
  (idxFrom 0 (baseAttrs c u)).filterMap fun (i, o) =>
    if (effAttr cs i o).present then none else some (goneCls announces legacyNlri o.code)

/-! ### judging the observation -/

def padAddr (p : CPfx) (n : Nat) : PNlri := ⟨p.id, p.mask, p.addr ++ List.replicate (n - p.addr.length) 0⟩

def withdrawnOut (msgs : List VMsg) (fam : Nat) : List PNlri :=
  (msgs.map fun m => match m with
    | .unreach f e => if f == fam then e else []
    | _ => []).flatten

def reachMsgs (msgs : List VMsg) : List (List Attr) :=
  msgs.filterMap fun m => match m with
    | .reach _ _ _ attrs => some attrs
    | _ => none

def allIn (want have_ : List PNlri) : Bool := want.all fun p => have_.contains p

def believes (attrs : List Attr) (code : Nat) (d : Bytes) : Bool :=
  attrs.any fun a => a.code == code &&
    (match a.data with
     | .val v => if code == 1 then d == [v] else d.length == 4 && v == be d
     | .bin b => b == d
     | .opq b => b == d)

/-- the items that lie entirely inside the (truncated) block, up to the first one whose own framing is damaged: what
    they call for does not depend on how the rest of the block is framed -/
def soundPrefix (two : Bool) (blockLen : Nat) : List WItem → Nat → List WItem
  | [], _ => []
  | w :: ws, used =>
      if used + (renderItem w).length ≤ blockLen ∧ !(itemCls two w).contains Cls.weak then
        w :: soundPrefix two blockLen ws (used + (renderItem w).length)
      else []

/-- an attribute in front of any framing damage demands treat-as-withdraw -/
def prefixMustTaw (c : Codec) (u : CUpdate) (cs : List Corr) : Bool :=
  (soundPrefix c.two (blockBytes c u cs).length (blockItems c u cs) 0).any fun w =>
    (itemCls c.two w).any fun k => k == Cls.taw || k == Cls.tawOrReset

def allClasses (c : Codec) (u : CUpdate) (cs : List Corr) : List Cls :=
  let legacyNlri := !u.nlri.isEmpty
  let announces := legacyNlri || u.mpr.isSome
  omittedCls c u cs announces legacyNlri
    ++ (if legacyNlri && (nlriBad cs).isSome then [Cls.weak] else [])
    ++ truncCls (sItems c u cs announces legacyNlri).reverse (truncTotal cs)

def check (c : Codec) (ebgp : Bool) (u : CUpdate) (cs : List Corr) (obs : URes) : Verdict :=
  if !wfCase c u cs then .ok
  else
    let cls := allClasses c u cs
    let weak := cls.contains .weak
    let mustTaw := cls.contains .taw || cls.contains .tawOrReset
    match obs with
    | .panic => .fail "panic"
    | .more => .fail "need-more-on-a-complete-frame"
    | .reset e =>
        -- the frame is a well-framed UPDATE: a reset must be an UPDATE Message Error (RFC 4271 §6.3)
        if e.code != 3 then .fail "session-reset-with-a-notification-that-is-not-an-update-error"
        else if weak || cls.contains .tawOrReset then .ok
        else .fail "session-reset-although-the-nlri-can-be-located-and-parsed"
    | .ok msgs =>
        let reaches := reachMsgs msgs
        if ebgp && reaches.any (fun attrs => attrs.any fun a => a.code == 5 || a.code == 9 || a.code == 10) then
          .fail "ibgp-only-attribute-from-an-external-peer-believed"
        else
          let wLegacy := u.wd.map (padAddr · 4)
          if !allIn wLegacy (withdrawnOut msgs FAM_IPV4) then .fail "withdrawal-in-the-same-message-lost"
          else if weak then
            -- the framing is damaged somewhere (a reset would have been acceptable); what is demanded by an attribute in
            -- front of the damage still holds: no route may be announced
            if prefixMustTaw c u cs && !reaches.isEmpty then
              .fail "route-announced-although-an-attribute-before-the-framing-damage-requires-treat-as-withdraw"
            else .ok
          else
            let aLegacy := u.nlri.map (padAddr · 4)
            let aMp := match u.mpr with
              | some m => [(famKey m.afi m.safi, m.nlri.map (padAddr · (if m.afi = 2 then 16 else 4)))]
              | none => []
            let wMp := match u.mpu with
              | some m => [(famKey m.afi m.safi, m.nlri.map (padAddr · (if m.afi = 2 then 16 else 4)))]
              | none => []
            let withdrawnAll (sets : List (Nat × List PNlri)) : Bool :=
              sets.all fun (fam, ps) => allIn ps (withdrawnOut msgs fam)
            let announcedWithdrawn := withdrawnAll ((FAM_IPV4, aLegacy) :: aMp)
            if !withdrawnAll wMp then .fail "withdrawal-in-the-same-message-lost"
            else if mustTaw then
              if !reaches.isEmpty then .fail "route-announced-although-an-attribute-error-requires-treat-as-withdraw"
              else if !announcedWithdrawn then .fail "announced-prefix-neither-withdrawn-nor-session-reset"
              else .ok
            else
              let tawDone := reaches.isEmpty && announcedWithdrawn
              let badDiscard := cls.any fun k => match k with
                | .discardOrTaw code => !tawDone && reaches.any (fun attrs => attrs.any (·.code == code))
                | _ => false
              let badDup := cls.any fun k => match k with
                | .dup code d => !tawDone && reaches.any (fun attrs => believes attrs code d)
                | _ => false
              if badDiscard then .fail "malformed-attribute-kept-on-an-announced-route"
              else if badDup then .fail "duplicate-attribute-believed-instead-of-the-first"
              else .ok

/-! ## the same property one level down: judged on the parse result (`ParsedUpdate`) and the `Message` list

  `errs` are the `AttributeError`s (type, received flags) the parser recorded.  An error on an attribute whose TYPE
  is not discardable (or on an unrecognised well-known attribute, or the "malformed attribute list" marker (0, 0))
  requires treat-as-withdraw; so does a missing ORIGIN / AS_PATH / NEXT_HOP when something is announced.  -/

def errMustTaw (e : Nat × Nat) : Bool :=
  match attrClass e.1 with
  | some _ => !discardable e.1
  | none => e.2 / 128 % 2 == 0

def mandatoryMissing (reach mpReach : Option Reach) (attrs : List Attr) : Bool :=
  (reach.isSome || mpReach.isSome) &&
    (!(attrs.any (·.code == 1)) || !(attrs.any (·.code == 2))
      || (match reach with | some r => r.nh.isNone | none => false))

def checkV (ebgp : Bool) (reach mpReach : Option Reach) (unreach mpUnreach : Option Unreach)
    (attrs : List Attr) (errs : List (Nat × Nat)) (out : List VMsg) : Verdict :=
  let reaches := reachMsgs out
  let withdrawnR (l : List Reach) : Bool := l.all fun r => allIn r.entries (withdrawnOut out r.fam)
  let withdrawnU (l : List Unreach) : Bool := l.all fun u => allIn u.entries (withdrawnOut out u.fam)
  if !withdrawnU (optList unreach ++ optList mpUnreach) then .fail "withdrawal-in-the-same-message-lost"
  else if ebgp && reaches.any (fun as => as.any fun a => a.code == 5 || a.code == 9 || a.code == 10) then
    .fail "ibgp-only-attribute-from-an-external-peer-believed"
  else if mandatoryMissing reach mpReach attrs || errs.any errMustTaw then
    if !reaches.isEmpty then .fail "route-announced-although-an-attribute-error-requires-treat-as-withdraw"
    else if !withdrawnR (optList reach ++ optList mpReach) then
      .fail "announced-prefix-neither-withdrawn-nor-session-reset"
    else .ok
  else if reaches.any (fun as => as.any fun a => errs.any fun e => e.1 == a.code) then
    .fail "malformed-attribute-kept-on-an-announced-route"
  else .ok

end Rbgp.Wire.USpec
