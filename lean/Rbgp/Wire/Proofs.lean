/-
  Rbgp.Wire.Proofs — helper lemmas for C03: the BGP receive path never panics
  (`Out.NP` = "no panic"), frames are consumed exactly, RTR/BFD decoders are total.
-/
import Rbgp.Wire.Stream
import Rbgp.Wire.Spec
import Rbgp.Wire.SubProofs
set_option linter.unusedSimpArgs false
set_option linter.unusedVariables false
namespace Rbgp.Wire

/-! ## "does not panic" -/

def Out.NP {α} : Out α → Prop
  | .panic => False
  | _ => True

@[simp] theorem Out.NP_ok {α} (a : α) : (Out.ok a).NP := trivial
@[simp] theorem Out.NP_err {α} (e : Notif) : (Out.err e : Out α).NP := trivial
@[simp] theorem Out.NP_panic {α} : ¬ (Out.panic : Out α).NP := id

theorem Out.NP_iff {α} {x : Out α} : x.NP ↔ x ≠ .panic := by
  cases x <;> simp [Out.NP]

theorem Out.NP_bind {α β} {x : Out α} {f : α → Out β} :
    (x >>= f).NP ↔ x.NP ∧ ∀ a, x = .ok a → (f a).NP := by
  cases x <;> simp [Out.NP]

/-- a hypothesis-backed decoder that never panics -/
def HypDec.NP (dec : HypDec) : Prop := ∀ f a r b, (dec f a r b).NP

theorem rd8_ok {b : Bytes} {i : Nat} (h : i < b.length) : rd8 b i = .ok b[i] := by
  simp [rd8, h]

@[simp] theorem rd8_NP {b : Bytes} {i : Nat} : (rd8 b i).NP ↔ i < b.length := by
  unfold rd8
  by_cases h : i < b.length
  · simp [h]
  · simp [h, Out.NP]

@[simp] theorem rd16_NP {b : Bytes} {i : Nat} : (rd16 b i).NP ↔ i + 1 < b.length := by
  unfold rd16
  simp only [Out.NP_bind, rd8_NP, Out.pure_eq, Out.NP_ok, implies_true, and_true]
  constructor
  · rintro ⟨h1, h2⟩; exact h2 _ (rd8_ok h1)
  · intro h; exact ⟨by omega, fun _ _ => h⟩

@[simp] theorem rd32_NP {b : Bytes} {i : Nat} : (rd32 b i).NP ↔ i + 3 < b.length := by
  unfold rd32
  simp only [Out.NP_bind, rd8_NP, Out.pure_eq, Out.NP_ok, implies_true, and_true]
  constructor
  · rintro ⟨h1, h2⟩
    have h3 := h2 _ (rd8_ok h1)
    have h4 := h3.2 _ (rd8_ok h3.1)
    exact h4.2 _ (rd8_ok h4.1)
  · intro h
    exact ⟨by omega, fun _ _ => ⟨by omega, fun _ _ => ⟨by omega, fun _ _ => h⟩⟩⟩

@[simp] theorem slice_NP {b : Bytes} {s e : Nat} : (slice b s e).NP ↔ s ≤ e ∧ e ≤ b.length := by
  unfold slice
  split <;> simp_all [Out.NP]

theorem slice_ok {b : Bytes} {s e : Nat} {d : Bytes} (h : slice b s e = .ok d) :
    d = (b.drop s).take (e - s) ∧ s ≤ e ∧ e ≤ b.length := by
  unfold slice at h
  split at h
  · injection h with h; exact ⟨h.symm, by assumption⟩
  · cases h

theorem slice_length {b : Bytes} {s e : Nat} {d : Bytes} (h : slice b s e = .ok d) : d.length = e - s := by
  obtain ⟨rfl, h1, h2⟩ := slice_ok h
  simp [List.length_take, List.length_drop]; omega

/-! ## OPEN arm -/

theorem takeN_some {b x r : Bytes} {n : Nat} (h : takeN b n = some (x, r)) :
    n ≤ b.length ∧ x = b.take n ∧ r = b.drop n := by
  unfold takeN at h
  split at h
  · injection h with h; injection h with h1 h2; exact ⟨by assumption, h1.symm, h2.symm⟩
  · cases h

/-- `Capability::decode` never consumes more than the announced length -/
theorem capDecode_used {code : Nat} {rest : Bytes} {len : Nat} {cap : Cap} {used : Nat}
    (h : capDecode code rest len = some (cap, used)) : used ≤ len := by
  unfold capDecode at h
  repeat' split at h
  all_goals
    first
    | (unfold capMp at h; split at h <;> simp only [Option.map_eq_some_iff, Prod.mk.injEq, Option.some.injEq, reduceCtorEq] at h <;> first | contradiction | (obtain ⟨_, _, _, rfl⟩ := h; omega))
    | (unfold capAs4 at h; split at h <;> simp only [Option.map_eq_some_iff, Prod.mk.injEq, Option.some.injEq, reduceCtorEq] at h <;> first | contradiction | (obtain ⟨_, _, _, rfl⟩ := h; omega))
    | (unfold capFlag at h; split at h <;> simp only [Option.map_eq_some_iff, Prod.mk.injEq, Option.some.injEq, reduceCtorEq] at h <;> first | contradiction | (obtain ⟨_, rfl⟩ := h; omega))
    | (unfold capEnh at h; split at h <;> simp only [Option.map_eq_some_iff, Prod.mk.injEq, Option.some.injEq, reduceCtorEq] at h <;> first | contradiction | (obtain ⟨_, _, _, rfl⟩ := h; omega))
    | (unfold capAddpath at h; split at h <;> simp only [Option.map_eq_some_iff, Prod.mk.injEq, Option.some.injEq, reduceCtorEq] at h <;> first | contradiction | (obtain ⟨_, _, _, rfl⟩ := h; omega))
    | (unfold capLlgr at h; split at h <;> simp only [Option.map_eq_some_iff, Prod.mk.injEq, Option.some.injEq, reduceCtorEq] at h <;> first | contradiction | (obtain ⟨_, _, _, rfl⟩ := h; omega))
    | (unfold capUnk at h; simp only [Option.map_eq_some_iff, Prod.mk.injEq, Option.some.injEq, reduceCtorEq] at h; obtain ⟨_, _, _, rfl⟩ := h; omega)
    | (unfold capGr at h; repeat' split at h
       all_goals simp only [Option.map_eq_some_iff, Prod.mk.injEq, Option.some.injEq, reduceCtorEq] at h
       all_goals first | contradiction | (obtain ⟨_, _, _, rfl⟩ := h; omega))
    | (unfold capFqdn at h; repeat' split at h
       all_goals simp only [Option.map_eq_some_iff, Prod.mk.injEq, Option.some.injEq, reduceCtorEq] at h
       all_goals first | contradiction | (obtain ⟨_, rfl⟩ := h; omega))

/-- inner capability loop: never panics, ends exactly at `opEnd` -/
theorem capLoop_spec (p : Profile) (buf : Bytes) (opEnd : Nat) (hEnd : opEnd ≤ buf.length) :
    ∀ fuel pos as4 caps, pos ≤ opEnd → opEnd - pos < fuel →
      (capLoop p buf opEnd fuel pos as4 caps).NP ∧
      ∀ r, capLoop p buf opEnd fuel pos as4 caps = .ok r → r.1 = opEnd := by
  intro fuel
  induction fuel with
  | zero => intro pos as4 caps h1 h2; omega
  | succ fuel ih =>
    intro pos as4 caps h1 h2
    unfold capLoop
    split
    · split
      · simp
      · rename_i hlt hge
        have hp0 : pos < buf.length := by omega
        have hp1 : pos + 1 < buf.length := by omega
        simp only [rd8_ok hp0, rd8_ok hp1, Out.bind_ok]
        split
        · simp
        · rename_i hcl
          rw [capDecodeW_eq]
          simp only [Out.bind_ok]
          split
          · rename_i cap used hdec
            have hu := capDecode_used hdec
            exact ih (pos + 2 + used) (as4After cap as4) (caps ++ [cap]) (by omega) (by omega)
          · simp
    · rename_i hge
      constructor
      · simp
      · intro r hr
        injection hr with hr
        subst hr
        simp only
        omega

/-- outer optional-parameter loop never panics -/
theorem paramLoop_NP (p : Profile) (buf : Bytes) (paramEnd : Nat) (hEnd : paramEnd ≤ buf.length) :
    ∀ fuel pos as4 caps, pos ≤ paramEnd → paramEnd - pos < fuel →
      (paramLoop p buf paramEnd fuel pos as4 caps).NP := by
  intro fuel
  induction fuel with
  | zero => intro pos as4 caps h1 h2; omega
  | succ fuel ih =>
    intro pos as4 caps h1 h2
    unfold paramLoop
    split
    · split
      · simp
      · rename_i hlt hge
        have hp0 : pos < buf.length := by omega
        have hp1 : pos + 1 < buf.length := by omega
        simp only [rd8_ok hp0, rd8_ok hp1, Out.bind_ok]
        split
        · simp
        · rename_i hln
          split
          · have hc := capLoop_spec p buf (pos + 2 + buf[pos + 1]) (by omega) (buf.length + 1) (pos + 2) as4 caps
              (by omega) (by omega)
            simp only [Out.NP_bind]
            refine ⟨hc.1, fun r hr => ?_⟩
            have := hc.2 r hr
            obtain ⟨p', a', c'⟩ := r
            simp only at this
            subst this
            exact ih _ _ _ (by omega) (by omega)
          · simp only [Out.NP_bind, slice_NP]
            refine ⟨by omega, fun _ _ => by simp⟩
    · simp

theorem parseOpen_NP (p : Profile) (buf : Bytes) (hdrErr : Notif) : (parseOpen p buf hdrErr).NP := by
  unfold parseOpen
  split
  · simp
  · simp only [Out.NP_bind, rd8_NP, rd16_NP, rd32_NP]
    refine ⟨by omega, fun v hv => ?_⟩
    split
    · simp
    · simp only [Out.NP_bind, rd8_NP, rd16_NP, rd32_NP]
      refine ⟨by omega, fun asn _ => ⟨by omega, fun hold _ => ?_⟩⟩
      split
      · simp
      · simp only [Out.NP_bind, rd8_NP, rd16_NP, rd32_NP]
        refine ⟨by omega, fun rid _ => ?_⟩
        split
        · simp
        · simp only [Out.NP_bind, rd8_NP, rd16_NP, rd32_NP]
          refine ⟨by omega, fun plen _ => ?_⟩
          split
          · simp
          · simp only [Out.NP_bind]
            refine ⟨paramLoop_NP p buf _ (by omega) _ _ _ _ (by omega) (by omega), fun r _ => ?_⟩
            simp

/-! ## well-formed (four-octet) AS path segment lists -/

inductive Segs : Bytes → Prop where
  | nil : Segs []
  | cons (t c : Nat) (as rest : Bytes) : as.length = c * 4 → Segs rest → Segs (t :: c :: (as ++ rest))

theorem Segs_append {a b : Bytes} (ha : Segs a) (hb : Segs b) : Segs (a ++ b) := by
  induction ha with
  | nil => simpa using hb
  | cons t c as rest hl _ ih =>
    have : t :: c :: (as ++ rest) ++ b = t :: c :: (as ++ (rest ++ b)) := by simp
    rw [this]
    exact Segs.cons t c as _ hl ih

theorem asPathOk_Segs (nz : Bool) : ∀ fuel b, asPathOk nz fuel b = true → Segs b := by
  intro fuel
  induction fuel with
  | zero =>
    intro b h
    match b with
    | [] => exact Segs.nil
    | [_] => simp [asPathOk] at h
    | _ :: _ :: _ => simp [asPathOk] at h
  | succ fuel ih =>
    intro b h
    match b with
    | [] => exact Segs.nil
    | [_] => simp [asPathOk] at h
    | t :: c :: rest =>
      unfold asPathOk at h
      split at h
      · cases h
      · split at h
        · cases h
        · rename_i h1 h2
          have hr := ih _ h
          have : rest = rest.take (c * 4) ++ rest.drop (c * 4) := (List.take_append_drop _ _).symm
          rw [this]
          refine Segs.cons t c _ _ ?_ hr
          simp [List.length_take]; omega

theorem widen_length : ∀ x : Bytes, (widen x).length = 4 * (x.length / 2) := by
  intro x
  fun_induction widen x with
  | case1 h l r ih => simp [ih]; omega
  | case2 x h =>
    match x with
    | [] => simp
    | [_] => simp
    | a :: b :: r => exact absurd rfl (h a b r)

theorem asPathUp_Segs : ∀ fuel data acc out, Segs acc → asPathUp fuel data acc = some out → Segs out := by
  intro fuel
  induction fuel with
  | zero =>
    intro data acc out ha h
    match data with
    | [] => simp [asPathUp] at h; subst h; exact ha
    | [_] => simp [asPathUp] at h
    | _ :: _ :: _ => simp [asPathUp] at h
  | succ fuel ih =>
    intro data acc out ha h
    match data with
    | [] => simp [asPathUp] at h; subst h; exact ha
    | [_] => simp [asPathUp] at h
    | t :: c :: rest =>
      unfold asPathUp at h
      split at h
      · cases h
      · split at h
        · cases h
        · rename_i h1 h2
          refine ih _ _ _ ?_ h
          have hw : (widen (rest.take (c * 2))).length = c * 4 := by
            rw [widen_length]; simp [List.length_take]; omega
          have : acc ++ [t, c] ++ widen (rest.take (c * 2)) = acc ++ (t :: c :: (widen (rest.take (c * 2)) ++ [])) := by
            simp
          rw [this]
          exact Segs_append ha (Segs.cons t c _ [] hw Segs.nil)


theorem rd8_append_at (pre : Bytes) (x : Nat) (r : Bytes) : rd8 (pre ++ x :: r) pre.length = .ok x := by
  simp [rd8]

theorem rd8_append_at1 (pre : Bytes) (x y : Nat) (r : Bytes) : rd8 (pre ++ x :: y :: r) (pre.length + 1) = .ok y := by
  have : pre ++ x :: y :: r = (pre ++ [x]) ++ y :: r := by simp
  rw [this]
  have h := rd8_append_at (pre ++ [x]) y r
  simpa using h

theorem countHops_NP : ∀ rest, Segs rest → ∀ pre fuel count, rest.length < fuel →
    (countHops (pre ++ rest) fuel pre.length count).NP := by
  intro rest hs
  induction hs with
  | nil =>
    intro pre fuel count hf
    match fuel with
    | 0 => omega
    | fuel + 1 => simp [countHops]
  | cons t c as rest hl _ ih =>
    intro pre fuel count hf
    match fuel with
    | 0 => omega
    | fuel + 1 =>
      unfold countHops
      have hlt : pre.length < (pre ++ t :: c :: (as ++ rest)).length := by simp
      simp only [hlt, if_true, rd8_append_at, rd8_append_at1, Out.bind_ok]
      have e : pre ++ t :: c :: (as ++ rest) = (pre ++ t :: c :: as) ++ rest := by simp
      have el : pre.length + 2 + c * 4 = (pre ++ t :: c :: as).length := by simp; omega
      rw [e, el]
      apply ih
      simp at hf; omega

theorem takePrefix_NP : ∀ rest, Segs rest → ∀ pre fuel n out, rest.length < fuel →
    (takePrefix (pre ++ rest) fuel n pre.length out).NP := by
  intro rest hs
  induction hs with
  | nil =>
    intro pre fuel n out hf
    match fuel with
    | 0 => omega
    | fuel + 1 => simp [takePrefix]
  | cons t c as rest hl _ ih =>
    intro pre fuel n out hf
    match fuel with
    | 0 => omega
    | fuel + 1 =>
      unfold takePrefix
      have hlt : pre.length < (pre ++ t :: c :: (as ++ rest)).length := by simp
      simp only [hlt, if_true, rd8_append_at, Out.bind_ok]
      split
      · simp only [rd8_append_at1, Out.bind_ok]
        have e : pre ++ t :: c :: (as ++ rest) = (pre ++ t :: c :: as) ++ rest := by simp
        have el : pre.length + 2 + c * 4 = (pre ++ t :: c :: as).length := by simp; omega
        have hlen : (pre ++ t :: c :: (as ++ rest)).length = pre.length + 2 + c * 4 + rest.length := by
          simp; omega
        have hf' : rest.length < fuel := by simp at hf; omega
        split
        · simp only [Out.NP_bind, slice_NP]
          refine ⟨⟨by omega, ?_⟩, fun d _ => ?_⟩
          · have : min c n ≤ c := Nat.min_le_left _ _
            rw [hlen]; omega
          · rw [e, el]; exact ih _ _ _ _ hf'
        · split
          · simp only [Out.NP_bind, slice_NP]
            refine ⟨⟨by omega, by rw [hlen]; omega⟩, fun d _ => ?_⟩
            rw [e, el]; exact ih _ _ _ _ hf'
          · simp only [Out.NP_bind, slice_NP]
            refine ⟨⟨by omega, by rw [hlen]; omega⟩, fun d _ => ?_⟩
            rw [e, el]; exact ih _ _ _ _ hf'
      · simp

theorem asPathReconcile_NP {a b : Bytes} (ha : Segs a) (hb : Segs b) : (asPathReconcile a b).NP := by
  unfold asPathReconcile
  simp only [Out.NP_bind]
  have h1 := countHops_NP a ha [] (a.length + 1) 0 (by omega)
  have h2 := countHops_NP b hb [] (b.length + 1) 0 (by omega)
  simp only [List.nil_append, List.length_nil] at h1 h2
  refine ⟨h1, fun c1 _ => ⟨h2, fun c2 _ => ?_⟩⟩
  split
  · simp
  · simp only [Out.NP_bind]
    have h3 := takePrefix_NP a ha [] (a.length + 1) (c1 - c2) [] (by omega)
    simp only [List.nil_append, List.length_nil] at h3
    exact ⟨h3, fun _ _ => by simp⟩


/-! ## what `Attribute::decode` guarantees about the attributes that `reconcile_as4` touches -/

def AttrOK (a : Attr) : Prop :=
  (a.code = 2 ∨ a.code = 17 ∨ a.code = 7 ∨ a.code = 18) →
    ∃ b, a.binary = some b ∧ ((a.code = 2 ∨ a.code = 17) → Segs b) ∧ (a.code = 7 → 4 ≤ b.length)

def AttrsOK (l : List Attr) : Prop := ∀ a ∈ l, AttrOK a

theorem removeFirst_spec (code : Nat) : ∀ l : List Attr,
    (∀ a, (removeFirst code l).1 = some a → a ∈ l ∧ a.code = code) ∧
    (∀ a, a ∈ (removeFirst code l).2 → a ∈ l) := by
  intro l
  induction l with
  | nil => simp [removeFirst]
  | cons x xs ih =>
    unfold removeFirst
    split
    · rename_i hx
      constructor
      · intro a ha; simp at ha; subst ha; exact ⟨by simp, hx⟩
      · intro a ha; simp at ha ⊢; exact Or.inr ha
    · constructor
      · intro a ha
        have := ih.1 a ha
        exact ⟨List.mem_cons_of_mem _ this.1, this.2⟩
      · intro a ha
        simp at ha
        rcases ha with rfl | ha
        · simp
        · exact List.mem_cons_of_mem _ (ih.2 a ha)

theorem mapFirst_NP (code : Nat) (f : Attr → Out Attr) : ∀ l : List Attr,
    (∀ a ∈ l, a.code = code → (f a).NP) → (mapFirst code f l).NP := by
  intro l
  induction l with
  | nil => intro _; simp [mapFirst]
  | cons x xs ih =>
    intro h
    unfold mapFirst
    split
    · rename_i hx
      simp only [Out.NP_bind]
      exact ⟨h x (by simp) hx, fun _ _ => by simp⟩
    · simp only [Out.NP_bind]
      exact ⟨ih (fun a ha => h a (List.mem_cons_of_mem _ ha)), fun _ _ => by simp⟩

theorem mapFirst_mem (code : Nat) (f : Attr → Out Attr) : ∀ (l l' : List Attr), mapFirst code f l = .ok l' →
    ∀ a ∈ l', a ∈ l ∨ ∃ x ∈ l, x.code = code ∧ f x = .ok a := by
  intro l
  induction l with
  | nil => intro l' h a ha; simp [mapFirst] at h; subst h; simp at ha
  | cons x xs ih =>
    intro l' h a ha
    unfold mapFirst at h
    split at h
    · rename_i hx
      cases hf : f x with
      | ok y =>
        simp only [hf, Out.bind_ok] at h
        injection h with h; subst h
        simp at ha
        rcases ha with rfl | ha
        · exact Or.inr ⟨x, by simp, hx, hf⟩
        · exact Or.inl (List.mem_cons_of_mem _ ha)
      | err e => simp [hf] at h
      | panic => simp [hf] at h
    · cases hm : mapFirst code f xs with
      | ok ys =>
        simp only [hm, Out.bind_ok] at h
        injection h with h; subst h
        simp at ha
        rcases ha with rfl | ha
        · exact Or.inl (by simp)
        · rcases ih ys hm a ha with h1 | ⟨y, hy, hc, hfy⟩
          · exact Or.inl (List.mem_cons_of_mem _ h1)
          · exact Or.inr ⟨y, List.mem_cons_of_mem _ hy, hc, hfy⟩
      | err e => simp [hm] at h
      | panic => simp [hm] at h

theorem reconcileAgg_spec {as4Agg : Option Attr} {attrs : List Attr} (h : AttrsOK attrs)
    (h4 : ∀ a4, as4Agg = some a4 → ∃ b, a4.binary = some b) :
    (reconcileAgg as4Agg attrs).NP ∧
    ∀ r, reconcileAgg as4Agg attrs = .ok r → ∀ a ∈ r.2, a.code = 2 → AttrOK a := by
  unfold reconcileAgg
  split
  · rename_i a4 agg he
    have hmem := List.mem_of_find?_eq_some he
    have hcode : agg.code = 7 := by simpa using List.find?_some he
    obtain ⟨b, hb, _, hb7⟩ := h agg hmem (by simp [hcode])
    obtain ⟨b4, hb4⟩ := h4 a4 rfl
    have hsl : ∃ d, slice b 0 4 = .ok d := by
      have : (slice b 0 4).NP := by simp; exact hb7 hcode
      cases hs : slice b 0 4 with
      | ok d => exact ⟨d, rfl⟩
      | err e => simp [slice] at hs; split at hs <;> cases hs
      | panic => simp [hs] at this
    obtain ⟨d, hd⟩ := hsl
    simp only [aggregatorAsn, binaryUnwrap, hb, hb4, hd, Out.bind_ok]
    split
    · have hm : (mapFirst 7 (fun agg => Out.ok (⟨agg.code, agg.flags, .bin b4⟩ : Attr)) attrs).NP :=
        mapFirst_NP _ _ _ (fun _ _ _ => by simp)
      cases hmf : mapFirst 7 (fun agg => Out.ok (⟨agg.code, agg.flags, .bin b4⟩ : Attr)) attrs with
      | ok l' =>
        simp only [Out.bind_ok]
        refine ⟨by simp, fun r hr a ha hc => ?_⟩
        injection hr with hr; subst hr
        rcases mapFirst_mem _ _ _ _ hmf a ha with h1 | ⟨x, _, hx7, hfx⟩
        · exact h a h1
        · injection hfx with hfx; subst hfx; simp only at hc; omega
      | err e => simp
      | panic => simp [hmf] at hm
    · refine ⟨by simp, fun r hr a ha _ => ?_⟩
      injection hr with hr; subst hr
      exact h a ha
  · refine ⟨by simp, fun r hr a ha _ => ?_⟩
    injection hr with hr; subst hr
    exact h a ha

theorem reconcilePath_NP {as4Path : Option Attr} {attrs : List Attr}
    (h : ∀ a ∈ attrs, a.code = 2 → AttrOK a)
    (h4 : ∀ a4, as4Path = some a4 → ∃ b, a4.binary = some b ∧ Segs b) :
    (reconcilePath as4Path attrs).NP := by
  unfold reconcilePath
  split
  · simp
  · rename_i a4
    obtain ⟨b4, hb4, hs4⟩ := h4 a4 rfl
    apply mapFirst_NP
    intro ap hap hc
    obtain ⟨b, hb, hs, _⟩ := h ap hap hc (by simp [hc])
    simp only [binaryUnwrap, hb, hb4, Out.bind_ok, Out.NP_bind]
    exact ⟨asPathReconcile_NP (hs (Or.inl hc)) hs4, fun _ _ => by simp⟩

theorem reconcileAs4_NP {attrs : List Attr} (h : AttrsOK attrs) : (reconcileAs4 attrs).NP := by
  unfold reconcileAs4
  have r1 := removeFirst_spec 17 attrs
  have r2 := removeFirst_spec 18 (removeFirst 17 attrs).2
  have hl2 : AttrsOK (removeFirst 18 (removeFirst 17 attrs).2).2 := fun a ha => h a (r1.2 a (r2.2 a ha))
  have hagg := reconcileAgg_spec (as4Agg := (removeFirst 18 (removeFirst 17 attrs).2).1) hl2 (by
    intro a4 ha4
    have := r2.1 a4 ha4
    obtain ⟨b, hb, _⟩ := h a4 (r1.2 a4 this.1) (by simp [this.2])
    exact ⟨b, hb⟩)
  simp only [Out.NP_bind]
  refine ⟨hagg.1, fun r hr => ?_⟩
  split
  · simp
  · apply reconcilePath_NP (hagg.2 r hr)
    intro a4 ha4
    have := r1.1 a4 ha4
    obtain ⟨b, hb, hs, _⟩ := h a4 this.1 (by simp [this.2])
    exact ⟨b, hb, hs (Or.inr this.2)⟩


theorem attrDecode_OK {code : Nat} {data : Bytes} {len : Nat} {two : Bool} {d : AttrData} (flags : Nat)
    (h : attrDecode code data len two = some d) : AttrOK ⟨code, flags, d⟩ := by
  intro hc
  simp only at hc
  unfold attrDecode at h
  by_cases hl : data.length ≠ len
  · rw [if_pos hl] at h; cases h
  rw [if_neg hl] at h
  have hlen : data.length = len := by omega
  rcases hc with rfl | rfl | rfl | rfl
  · -- AS_PATH
    rw [if_neg (by decide), if_neg (by decide), if_pos rfl] at h
    unfold decAsPath at h
    split at h
    · simp only [Option.map_eq_some_iff] at h
      obtain ⟨out, hout, rfl⟩ := h
      exact ⟨out, rfl, fun _ => asPathUp_Segs _ _ _ _ Segs.nil hout, by simp⟩
    · split at h
      · rename_i hok
        injection h with h; subst h
        exact ⟨data, rfl, fun _ => asPathOk_Segs _ _ _ hok, by simp⟩
      · cases h
  · -- AS4_PATH
    rw [if_neg (by decide), if_neg (by decide), if_neg (by decide), if_neg (by decide), if_neg (by decide),
      if_neg (by decide), if_neg (by decide), if_neg (by decide), if_pos rfl] at h
    unfold decAs4Path at h
    split at h
    · cases h
    · split at h
      · rename_i hok
        injection h with h; subst h
        exact ⟨data, rfl, fun _ => asPathOk_Segs _ _ _ hok, by simp⟩
      · cases h
  · -- AGGREGATOR
    rw [if_neg (by decide), if_neg (by decide), if_neg (by decide), if_neg (by decide), if_pos rfl] at h
    unfold decAggregator at h
    split at h
    · cases h
    · split at h
      · injection h with h; subst h
        refine ⟨_, rfl, by simp, fun _ => ?_⟩
        simp [List.length_take, List.length_drop]; omega
      · injection h with h; subst h
        exact ⟨data, rfl, by simp, fun _ => by omega⟩
  · -- AS4_AGGREGATOR
    rw [if_neg (by decide), if_neg (by decide), if_neg (by decide), if_neg (by decide), if_neg (by decide),
      if_neg (by decide), if_neg (by decide), if_neg (by decide), if_neg (by decide), if_pos rfl] at h
    unfold decExact at h
    split at h
    · cases h
    · injection h with h; subst h
      exact ⟨data, rfl, by simp, by simp⟩

/-! ## the attribute loop -/

theorem AttrsOK_append {l : List Attr} {a : Attr} (hl : AttrsOK l) (ha : AttrOK a) : AttrsOK (l ++ [a]) := by
  intro x hx
  simp at hx
  rcases hx with hx | rfl
  · exact hl x hx
  · exact ha

theorem attrStore_spec (two : Bool) (s : AState) (a : Attr) (hs : AttrsOK s.attrs) (ha : AttrOK a) :
    (attrStore two s a).pos = s.pos ∧ AttrsOK (attrStore two s a).attrs := by
  unfold attrStore
  repeat' split
  all_goals first
    | exact ⟨rfl, hs⟩
    | exact ⟨rfl, AttrsOK_append hs ha⟩

theorem attrDecoded_spec (two : Bool) (buf : Bytes) (s : AState) (flags code alen pos : Nat)
    (hs : AttrsOK s.attrs) :
    (attrDecoded two buf s flags code alen pos).pos = pos + alen ∧
    AttrsOK (attrDecoded two buf s flags code alen pos).attrs := by
  unfold attrDecoded
  split
  · rename_i d hd
    exact attrStore_spec two { s with pos := pos + alen } ⟨code, flags, d⟩ hs (attrDecode_OK flags hd)
  · split
    · exact ⟨rfl, hs⟩
    · exact ⟨rfl, hs⟩

theorem attrKnown_spec (two : Bool) (buf : Bytes) (s : AState) (flags code alen pos expected : Nat)
    (hs : AttrsOK s.attrs) :
    (attrKnown two buf s flags code alen pos expected).pos = pos + alen ∧
    AttrsOK (attrKnown two buf s flags code alen pos expected).attrs := by
  unfold attrKnown
  by_cases hfc : flagsConflict flags expected = true
  · simp only [hfc, if_true, true_and]
    split
    · exact ⟨rfl, hs⟩
    · exact attrDecoded_spec two buf _ flags code alen pos hs
  · simp only [hfc, if_false, false_and, Bool.false_eq_true]
    exact attrDecoded_spec two buf s flags code alen pos hs

theorem canonicalFlags_none {code : Nat} (h : canonicalFlags code = none) :
    code ≠ 2 ∧ code ≠ 7 ∧ code ≠ 17 ∧ code ≠ 18 := by
  unfold canonicalFlags at h
  repeat' split at h
  all_goals first | (cases h; done) | omega

theorem attrUnknown_spec (buf : Bytes) (s : AState) (flags code alen pos : Nat)
    (hc : canonicalFlags code = none) (hs : AttrsOK s.attrs) :
    (attrUnknown buf s flags code alen pos).NP ∧
    ∀ s', attrUnknown buf s flags code alen pos = .ok s' → s'.pos = pos + alen ∧ AttrsOK s'.attrs := by
  unfold attrUnknown
  split
  · refine ⟨by simp, fun s' h => ?_⟩
    injection h with h; subst h; exact ⟨rfl, hs⟩
  · split
    · split
      · refine ⟨by simp, fun s' h => by cases h⟩
      · rename_i hle
        have hsl : (slice buf pos (pos + alen)).NP := by simp; omega
        cases hsv : slice buf pos (pos + alen) with
        | ok raw =>
          simp only [Out.bind_ok]
          refine ⟨by simp, fun s' h => ?_⟩
          injection h with h; subst h
          refine ⟨rfl, AttrsOK_append hs ?_⟩
          intro hcc
          have := canonicalFlags_none hc
          simp only at hcc
          omega
        | err e => simp [slice] at hsv; split at hsv <;> cases hsv
        | panic => simp [hsv] at hsl
    · refine ⟨by simp, fun s' h => ?_⟩
      injection h with h; subst h; exact ⟨rfl, hs⟩

theorem attrBody_spec (two : Bool) (buf : Bytes) (s : AState) (flags code alen pos : Nat)
    (hs : AttrsOK s.attrs) :
    (attrBody two buf s flags code alen pos).NP ∧
    ∀ s', attrBody two buf s flags code alen pos = .ok s' → s'.pos = pos + alen ∧ AttrsOK s'.attrs := by
  unfold attrBody
  split
  · split
    · exact ⟨by simp, fun s' h => by cases h⟩
    · refine ⟨by simp, fun s' h => ?_⟩
      injection h with h; subst h; exact ⟨rfl, hs⟩
  · simp only
    split
    · rename_i expected hcf
      rw [attrKnownW_eq]
      refine ⟨by simp, fun s' h => ?_⟩
      injection h with h; subst h
      exact attrKnown_spec two buf { s with seen := code :: s.seen } flags code alen pos expected hs
    · rename_i hcf
      exact attrUnknown_spec buf { s with seen := code :: s.seen } flags code alen pos hcf hs

theorem attrHeader_spec (buf : Bytes) (attrEnd pos : Nat) (hEnd : attrEnd ≤ buf.length) :
    (attrHeader buf attrEnd pos).NP ∧
    ∀ f c alen p', attrHeader buf attrEnd pos = .ok (.hdr f c alen p') → pos < p' := by
  unfold attrHeader
  split
  · exact ⟨by simp, fun f c alen p' h => by cases h⟩
  · rename_i hge
    have hp0 : pos < buf.length := by omega
    have hp1 : pos + 1 < buf.length := by omega
    simp only [rd8_ok hp0, rd8_ok hp1, Out.bind_ok]
    split
    · split
      · exact ⟨by simp, fun f c alen p' h => by cases h⟩
      · rename_i hge2
        have hq0 : pos + 2 < buf.length := by omega
        have hq1 : pos + 2 + 1 < buf.length := by omega
        simp only [rd16, rd8_ok hq0, rd8_ok hq1, Out.bind_ok, Out.pure_eq]
        refine ⟨by simp, fun f c alen p' h => ?_⟩
        injection h with h; injection h with _ _ _ h4; omega
    · split
      · exact ⟨by simp, fun f c alen p' h => by cases h⟩
      · rename_i hge2
        have hq0 : pos + 2 < buf.length := by omega
        simp only [rd8_ok hq0, Out.bind_ok]
        refine ⟨by simp, fun f c alen p' h => ?_⟩
        injection h with h; injection h with _ _ _ h4; omega

theorem attrLoop_spec (two : Bool) (buf : Bytes) (attrEnd : Nat) (hEnd : attrEnd ≤ buf.length) :
    ∀ fuel (s : AState), AttrsOK s.attrs → attrEnd - s.pos < fuel →
      (attrLoop two buf attrEnd fuel s).NP ∧
      ∀ s', attrLoop two buf attrEnd fuel s = .ok s' → AttrsOK s'.attrs := by
  intro fuel
  induction fuel with
  | zero => intro s _ h; omega
  | succ fuel ih =>
    intro s hs hf
    unfold attrLoop
    split
    · rename_i hlt
      have hh := attrHeader_spec buf attrEnd s.pos hEnd
      cases hhv : attrHeader buf attrEnd s.pos with
      | panic => simp [hhv] at hh
      | err e => simp
      | ok hd =>
        simp only [Out.bind_ok]
        cases hd with
        | brk pos =>
          refine ⟨by simp, fun s' h => ?_⟩
          injection h with h; subst h; exact hs
        | hdr flags code alen pos =>
          simp only
          have hpos := hh.2 flags code alen pos hhv
          split
          · refine ⟨by simp, fun s' h => ?_⟩
            injection h with h; subst h; exact hs
          · rename_i hfit
            have hb := attrBody_spec two buf s flags code alen pos hs
            cases hbv : attrBody two buf s flags code alen pos with
            | panic => simp [hbv] at hb
            | err e => simp
            | ok s1 =>
              simp only [Out.bind_ok]
              have := hb.2 s1 hbv
              exact ih s1 this.2 (by rw [this.1]; omega)
    · refine ⟨by simp, fun s' h => ?_⟩
      injection h with h; subst h; exact hs


/-! ## NLRI lists, MP attributes -/

theorem pathId_spec {addpath : Bool} {bs : Bytes} {rest id len : Nat} {bs1 : Bytes}
    (h : pathId addpath bs rest = some (id, bs1, len)) (hr : rest = bs.length) :
    len = bs1.length ∧ bs1.length ≤ bs.length := by
  unfold pathId at h
  split at h
  · split at h
    · cases h
    · injection h with h; injection h with _ h; injection h with h1 h2
      subst h1 h2; simp [List.length_drop]; omega
  · injection h with h; injection h with _ h; injection h with h1 h2
    subst h1 h2; simp [hr]

theorem nlriLoop_NP (maxBits : Nat) (addpath : Bool) :
    ∀ fuel (bs : Bytes) (rem : Nat) (acc : List PNlri), rem = bs.length → bs.length < fuel →
      (nlriLoop maxBits addpath fuel bs rem acc).NP := by
  intro fuel
  induction fuel with
  | zero => intro bs rem acc _ h; omega
  | succ fuel ih =>
    intro bs rem acc hrem hf
    unfold nlriLoop
    split
    · simp
    · rename_i x xs
      split
      · simp
      · rename_i id bs1 len hp
        have hps := pathId_spec hp hrem
        split
        · simp
        · rename_i bl bs2
          simp only
          split
          · simp
          · split
            · simp
            · apply ih
              · simp [List.length_drop] at hps ⊢; omega
              · simp [List.length_drop] at hps hf ⊢; omega

theorem decodeNlriList_NP {dec : HypDec} (hd : dec.NP) (fam : Nat) (ap r : Bool) (bs : Bytes) :
    (decodeNlriList dec fam ap r bs).NP := by
  unfold decodeNlriList
  split
  · exact nlriLoop_NP _ _ _ _ _ _ rfl (by omega)
  · split
    · exact nlriLoop_NP _ _ _ _ _ _ rfl (by omega)
    · exact hd _ _ _ _

theorem parseMpReach_NP {dec : HypDec} (hd : dec.NP) (c : Codec) (b : Bytes) : (parseMpReach dec c b).NP := by
  unfold parseMpReach
  split
  · simp
  · rename_i h5
    simp only [Out.NP_bind, rd16_NP, rd8_NP]
    refine ⟨by omega, fun afi _ => ⟨by omega, fun safi _ => ?_⟩⟩
    split
    · simp
    · simp only [Out.NP_bind, rd8_NP]
      refine ⟨by omega, fun nhl _ => ?_⟩
      split
      · simp
      · rename_i hnh
        simp only [Out.NP_bind, rd8_NP, slice_NP]
        refine ⟨?_, fun nh _ => ⟨by omega, fun _ _ => ⟨⟨by omega, by omega⟩, fun rest _ =>
          ⟨decodeNlriList_NP hd _ _ _ _, fun _ _ => by simp⟩⟩⟩⟩
        split
        · split <;> simp
        · split
          · simp only [Out.NP_bind, slice_NP]
            exact ⟨⟨by omega, by omega⟩, fun _ _ => by simp⟩
          · split
            · simp only [Out.NP_bind, slice_NP]
              refine ⟨⟨?_, by omega⟩, fun _ _ => by simp⟩
              rename_i h12; omega
            · split
              · rename_i h48
                simp only [Out.NP_bind, slice_NP]
                exact ⟨⟨by omega, by omega⟩, fun _ _ => ⟨⟨by omega, by omega⟩, fun _ _ => by simp⟩⟩
              · simp

theorem parseMpUnreach_NP {dec : HypDec} (hd : dec.NP) (c : Codec) (b : Bytes) : (parseMpUnreach dec c b).NP := by
  unfold parseMpUnreach
  split
  · simp
  · simp only [Out.NP_bind, rd16_NP, rd8_NP]
    refine ⟨by omega, fun afi _ => ⟨by omega, fun safi _ => ?_⟩⟩
    split
    · simp
    · simp only [Out.NP_bind, slice_NP]
      exact ⟨⟨by omega, by omega⟩, fun rest _ => ⟨decodeNlriList_NP hd _ _ _ _, fun _ _ => by simp⟩⟩


/-! ## UPDATE arm, `parse_message`, `try_parse` -/

theorem updateLens_spec (buf : Bytes) (h23 : 23 ≤ buf.length) :
    (updateLens buf).NP ∧ ∀ wl al, updateLens buf = .ok (wl, al) → wl + al + 23 ≤ buf.length := by
  unfold updateLens
  have h19 : (rd16 buf 19).NP := by simp; omega
  cases hw : rd16 buf 19 with
  | panic => simp [hw] at h19
  | err e => simp
  | ok wl =>
    simp only [Out.bind_ok]
    split
    · exact ⟨by simp, fun _ _ h => by cases h⟩
    · split
      · split
        · exact ⟨by simp, fun _ _ h => by cases h⟩
        · refine ⟨by simp, fun wl' al' h => ?_⟩
          injection h with h; injection h with h1 h2; subst h1 h2; omega
      · exact ⟨by simp, fun _ _ h => by cases h⟩

theorem legacyReach_NP {dec : HypDec} (hd : dec.NP) (c : Codec) (buf : Bytes) (pos : Nat) :
    (legacyReach dec c buf pos).NP := by
  unfold legacyReach
  split
  · split
    · simp
    · simp only [Out.NP_bind, slice_NP]
      exact ⟨⟨by omega, by omega⟩, fun _ _ => decodeNlriList_NP hd _ _ _ _⟩
  · simp

theorem legacyUnreach_NP {dec : HypDec} (hd : dec.NP) (c : Codec) (buf : Bytes) (wl : Nat)
    (h : 21 + wl ≤ buf.length) : (legacyUnreach dec c buf wl).NP := by
  unfold legacyUnreach
  split
  · split
    · simp
    · simp only [Out.NP_bind, slice_NP]
      exact ⟨⟨by omega, h⟩, fun _ _ => decodeNlriList_NP hd _ _ _ _⟩
  · simp

theorem mpReachOf_NP {dec : HypDec} (hd : dec.NP) (c : Codec) (o : Option Bytes) : (mpReachOf dec c o).NP := by
  unfold mpReachOf
  split
  · simp only [Out.NP_bind]; exact ⟨parseMpReach_NP hd _ _, fun _ _ => by simp⟩
  · simp

theorem mpUnreachOf_NP {dec : HypDec} (hd : dec.NP) (c : Codec) (o : Option Bytes) : (mpUnreachOf dec c o).NP := by
  unfold mpUnreachOf
  split
  · simp only [Out.NP_bind]; exact ⟨parseMpUnreach_NP hd _ _, fun _ _ => by simp⟩
  · simp

theorem assemble_NP (two : Bool) (s : AState) (hs : AttrsOK s.attrs) (errs : List (Nat × Nat))
    (reach unreach : List PNlri) (mr : Option (Nat × List PNlri × Option Bytes)) (mu : Option (Nat × List PNlri)) :
    (assemble two s errs reach unreach mr mu).NP := by
  unfold assemble
  split
  · simp
  · cases two
    · simp
    · simp only [if_true, Out.NP_bind]
      exact ⟨reconcileAs4_NP hs, fun _ _ => by simp⟩

theorem parseUpdate_NP {dec : HypDec} (hd : dec.NP) (p : Profile) (c : Codec) (buf : Bytes) (hdrErr : Notif) :
    (parseUpdateWith updateLens dec p c buf hdrErr).NP := by
  unfold parseUpdateWith
  split
  · simp
  · rename_i h23
    have hl := updateLens_spec buf (by omega)
    cases hlv : updateLens buf with
    | panic => simp [hlv] at hl
    | err e => simp
    | ok r =>
      obtain ⟨wl, al⟩ := r
      have hle := hl.2 wl al hlv
      simp only [Out.bind_ok]
      have hsub : subU64 p buf.length (23 + wl + al) = .ok (buf.length - (23 + wl + al)) := by
        unfold subU64; rw [if_pos (by omega)]
      simp only [hsub, Out.bind_ok]
      have hloop := attrLoop_spec c.two buf (23 + wl + al) (by omega) (buf.length + 1) { pos := 23 + wl }
        (by intro a ha; simp at ha) (by simp only; omega)
      cases hlp : attrLoop c.two buf (23 + wl + al) (buf.length + 1) { pos := 23 + wl } with
      | panic => simp [hlp] at hloop
      | err e => simp
      | ok s =>
        simp only [Out.bind_ok]
        split
        · simp
        · simp only [Out.NP_bind]
          exact ⟨legacyReach_NP hd _ _ _, fun _ _ => ⟨legacyUnreach_NP hd _ _ _ (by omega), fun _ _ =>
            ⟨mpReachOf_NP hd _ _, fun _ _ => ⟨mpUnreachOf_NP hd _ _, fun _ _ =>
              assemble_NP _ _ (hloop.2 s hlp) _ _ _ _ _⟩⟩⟩⟩

theorem parseMessage_NP {dec : HypDec} (hd : dec.NP) (p : Profile) (c : Codec) (buf : Bytes) :
    (parseMessage dec p c buf).NP := by
  unfold parseMessage parseMessageWith
  split
  · simp
  · rename_i h19
    simp only [Out.NP_bind, rd8_NP, slice_NP]
    refine ⟨by omega, fun code _ => ⟨⟨by omega, by omega⟩, fun d _ => ?_⟩⟩
    split
    · exact parseOpen_NP _ _ _
    · split
      · exact parseUpdate_NP hd _ _ _ _
      · split
        · split
          · simp
          · simp only [Out.NP_bind, rd8_NP, slice_NP]
            refine ⟨by omega, fun _ _ => ⟨by omega, fun _ _ => ⟨⟨by omega, by omega⟩, fun _ _ => ?_⟩⟩⟩
            simp
        · split
          · split <;> simp
          · split
            · split
              · simp
              · split
                · simp
                · simp only [Out.NP_bind, rd32_NP]
                  exact ⟨by omega, fun _ _ => by simp⟩
            · simp

/-- the 16-bit length field, as the spec reads it -/
theorem rd16_declared {src : Bytes} {n : Nat} (h : rd16 src 16 = .ok n) : Spec.declared src = some n := by
  unfold rd16 rd8 at h
  unfold Spec.declared
  cases h16 : src[16]? with
  | none => simp [h16] at h
  | some a =>
    cases h17 : src[17]? with
    | none => simp [h16, h17] at h
    | some b =>
      simp only [h16, h17, Out.bind_ok, Out.pure_eq] at h
      injection h with h; subst h; rfl

theorem tryParse_NP {dec : HypDec} (hd : dec.NP) (p : Profile) (c : Codec) (src : Bytes) :
    tryParse dec p c src ≠ .panic := by
  unfold tryParse tryParseWith
  split
  · simp
  · rename_i h19
    have h1 : (rd16 src 16).NP := by simp; omega
    have h2 : (slice src 16 18).NP := by simp; omega
    cases hv : rd16 src 16 with
    | panic => simp [hv] at h1
    | err e => simp [rd16, rd8] at hv; split at hv <;> simp at hv; split at hv <;> simp at hv
    | ok mlen =>
      cases hs : slice src 16 18 with
      | panic => simp [hs] at h2
      | err e => simp [slice] at hs; split at hs <;> cases hs
      | ok d =>
        simp only
        split
        · simp
        · split
          · simp
          · have := parseMessage_NP hd p c (src.take mlen)
            unfold parseMessage at this
            cases hm : parseMessageWith updateLens dec p c (src.take mlen) with
            | panic => simp [hm] at this
            | err e => simp
            | ok m => simp

/-- what a successful or failed `try_parse` consumed -/
theorem tryParse_msg {dec : HypDec} {p : Profile} {c : Codec} {src : Bytes} {n : Nat} {m : Msg}
    (h : tryParse dec p c src = .msg n m) :
    19 ≤ src.length ∧ Spec.declared src = some n ∧ 19 ≤ n ∧ n ≤ c.maxLen ∧ n ≤ src.length := by
  unfold tryParse tryParseWith at h
  split at h
  · cases h
  · rename_i h19
    split at h
    · rename_i mlen d hv hs
      split at h
      · cases h
      · split at h
        · cases h
        · split at h
          · injection h with h1 h2; subst h1
            exact ⟨by omega, rd16_declared hv, by omega, by omega, by omega⟩
          · cases h
          · cases h
    · cases h

theorem tryParse_err {dec : HypDec} {p : Profile} {c : Codec} {src : Bytes} {n : Nat} {e : Notif}
    (h : tryParse dec p c src = .err n e) : n ≤ src.length := by
  unfold tryParse tryParseWith at h
  split at h
  · cases h
  · split at h
    · split at h
      · injection h with h1 h2; omega
      · split at h
        · cases h
        · split at h
          · cases h
          · injection h with h1 h2; omega
          · cases h
    · cases h

theorem tryParse_more {dec : HypDec} {p : Profile} {c : Codec} {src : Bytes}
    (h : tryParse dec p c src = .more) : Spec.frameComplete src = false := by
  unfold tryParse tryParseWith at h
  unfold Spec.frameComplete
  split at h
  · rename_i hlt
    have : ¬ 19 ≤ src.length := by omega
    simp [this]
  · split at h
    · rename_i mlen d hv hs
      split at h
      · cases h
      · split at h
        · rename_i hlt
          simp [rd16_declared hv]; omega
        · split at h <;> cases h
    · cases h

end Rbgp.Wire
