/-
  Rbgp.Wire.Nlri2Proofs — C03 phase 2: the transcribed NLRI decoders never panic (neither profile) and every
  decoded entry consumes at least one byte of the field (so the list loop terminates within its fuel).
-/
import Rbgp.Wire.Nlri2
import Rbgp.Wire.Proofs
namespace Rbgp.Wire

/-- an entry decoder is safe: no panic, and a decoded entry leaves strictly less than it was given -/
def One.Safe (one : Bytes → Nat → One) : Prop :=
  ∀ bs len, (one bs len).NP ∧ ∀ m c r, one bs len = .ok (m, c, r) → r.length < bs.length

theorem labelStack_spec : ∀ fuel (bs : Bytes) (acc : List Nat), bs.length < fuel →
    (labelStack fuel bs acc).NP ∧
    ∀ ls r, labelStack fuel bs acc = .ok (ls, r) → r.length + 3 ≤ bs.length ∧ ls.length * 3 ≤ acc.length * 3 + bs.length := by
  intro fuel
  induction fuel with
  | zero => intro bs acc h; omega
  | succ fuel ih =>
    intro bs acc hf
    match bs with
    | [] => simp [labelStack]
    | [_] => simp [labelStack]
    | [_, _] => simp [labelStack]
    | b0 :: b1 :: b2 :: rest =>
      simp only [labelStack]
      split
      · refine ⟨by simp, ?_⟩
        intro ls r h
        injection h with h; injection h with h1 h2
        subst h1 h2
        simp; omega
      · have := ih rest (((b0 * 65536 + b1 * 256 + b2) / 16) :: acc) (by simp at hf ⊢; omega)
        refine ⟨this.1, ?_⟩
        intro ls r h
        have := this.2 ls r h
        simp at this ⊢; omega

theorem subU64_ok {p : Profile} {a b : Nat} (h : b ≤ a) : subU64 p a b = .ok (a - b) := by
  unfold subU64; rw [if_pos h]

theorem rdOf_spec (bs : Bytes) : (rdOf bs).NP ∧ ∀ rd r, rdOf bs = .ok (rd, r) → r.length ≤ bs.length := by
  unfold rdOf
  split
  · simp
  · split
    · refine ⟨by simp, ?_⟩
      intro rd r h
      injection h with h; injection h with _ h2
      subst h2; simp
    · simp

theorem prefixOf_spec (maxBits pb : Nat) (bs : Bytes) :
    (prefixOf maxBits pb bs).NP ∧ ∀ a r, prefixOf maxBits pb bs = .ok (a, r) → r.length ≤ bs.length := by
  unfold prefixOf
  simp only
  split
  · simp
  · refine ⟨by simp, ?_⟩
    intro a r h
    injection h with h; injection h with _ h2
    subst h2; simp

theorem vpnOne_safe (p : Profile) (maxBits : Nat) : One.Safe (vpnOne p maxBits) := by
  intro bs len
  unfold vpnOne
  split
  · simp
  · split
    · simp
    · rename_i tb bs1
      split
      · simp
      · have hls := labelStack_spec (bs1.length + 1) bs1 [] (by omega)
        cases hl : labelStack (bs1.length + 1) bs1 [] with
        | panic => rw [hl] at hls; exact absurd hls.1 (by simp)
        | err e => simp
        | ok v =>
          obtain ⟨labels, bs2⟩ := v
          have h2 := hls.2 labels bs2 hl
          simp only [Out.bind_ok]
          split
          · simp
          · rename_i hge
            rw [subU64_ok (by omega)]
            simp only [Out.bind_ok]
            rw [subU64_ok (by omega)]
            simp only [Out.bind_ok]
            split
            · simp
            · have hrd := rdOf_spec bs2
              cases hr : rdOf bs2 with
              | panic => rw [hr] at hrd; exact absurd hrd.1 (by simp)
              | err e => simp
              | ok v2 =>
                obtain ⟨rd, bs3⟩ := v2
                have h3 := hrd.2 rd bs3 hr
                simp only [Out.bind_ok]
                have hpf := prefixOf_spec maxBits ((tb - labels.length * 3 * 8 - 64) % 256) bs3
                cases hp : prefixOf maxBits ((tb - labels.length * 3 * 8 - 64) % 256) bs3 with
                | panic => rw [hp] at hpf; exact absurd hpf.1 (by simp)
                | err e => simp
                | ok v3 =>
                  obtain ⟨addr, rest⟩ := v3
                  have h4 := hpf.2 addr rest hp
                  simp only [Out.bind_ok]
                  refine ⟨by simp, ?_⟩
                  intro m c r h
                  injection h with h; injection h with _ h; injection h with _ h
                  subst h
                  simp at h2 ⊢; omega

theorem labeledLabels_spec (isReach : Bool) (bs1 : Bytes) :
    (labeledLabels isReach bs1).NP ∧
    ∀ ls lb r, labeledLabels isReach bs1 = .ok (ls, lb, r) → r.length ≤ bs1.length := by
  unfold labeledLabels
  split
  · have hls := labelStack_spec (bs1.length + 1) bs1 [] (by omega)
    cases hl : labelStack (bs1.length + 1) bs1 [] with
    | panic => rw [hl] at hls; exact absurd hls.1 (by simp)
    | err e => simp
    | ok v =>
      obtain ⟨labels, bs2⟩ := v
      have h2 := hls.2 labels bs2 hl
      simp only [Out.bind_ok]
      refine ⟨by simp, ?_⟩
      intro ls lb r h
      injection h with h; injection h with _ h; injection h with _ h
      subst h; omega
  · split
    · simp
    · refine ⟨by simp, ?_⟩
      intro ls lb r h
      injection h with h; injection h with _ h; injection h with _ h
      subst h; simp

theorem labeledOne_safe (p : Profile) (maxBits : Nat) (isReach : Bool) : One.Safe (labeledOne p maxBits isReach) := by
  intro bs len
  unfold labeledOne
  split
  · simp
  · split
    · simp
    · rename_i tb bs1
      split
      · simp
      · have hls := labeledLabels_spec isReach bs1
        cases hl : labeledLabels isReach bs1 with
        | panic => rw [hl] at hls; exact absurd hls.1 (by simp)
        | err e => simp
        | ok v =>
          obtain ⟨labels, labelBits, bs2⟩ := v
          have h2 := hls.2 labels labelBits bs2 hl
          simp only [Out.bind_ok]
          split
          · simp
          · rename_i hge
            rw [subU64_ok (by omega)]
            simp only [Out.bind_ok]
            split
            · simp
            · have hpf := prefixOf_spec maxBits ((tb - labelBits) % 256) bs2
              cases hp : prefixOf maxBits ((tb - labelBits) % 256) bs2 with
              | panic => rw [hp] at hpf; exact absurd hpf.1 (by simp)
              | err e => simp
              | ok v3 =>
                obtain ⟨addr, rest⟩ := v3
                have h4 := hpf.2 addr rest hp
                simp only [Out.bind_ok]
                refine ⟨by simp, ?_⟩
                intro m c r h
                injection h with h; injection h with _ h; injection h with _ h
                subst h
                simp; omega

theorem rtcOne_safe : One.Safe (fun bs _ => rtcOne bs) := by
  intro bs len
  simp only
  unfold rtcOne
  split
  · simp
  · rename_i lb r
    split
    · refine ⟨by simp, ?_⟩
      intro m c r' h
      injection h with h; injection h with _ h; injection h with _ h
      subst h; simp
    · split
      · split
        · simp
        · refine ⟨by simp, ?_⟩
          intro m c r' h
          injection h with h; injection h with _ h; injection h with _ h
          subst h; simp; omega
      · split
        · split
          · simp
          · refine ⟨by simp, ?_⟩
            intro m c r' h
            injection h with h; injection h with _ h; injection h with _ h
            subst h; simp; omega
        · simp

theorem srpOne_safe : One.Safe (fun bs _ => srpOne bs) := by
  intro bs len
  simp only
  unfold srpOne
  split
  · simp
  · rename_i lb r
    split
    · simp
    · split
      · split
        · simp
        · refine ⟨by simp, ?_⟩
          intro m c r' h
          injection h with h; injection h with _ h; injection h with _ h
          subst h; simp; omega
      · split
        · split
          · simp
          · refine ⟨by simp, ?_⟩
            intro m c r' h
            injection h with h; injection h with _ h; injection h with _ h
            subst h; simp; omega
        · simp

theorem nlriLoop2_NP {one : Bytes → Nat → One} (hs : One.Safe one) (addpath : Bool) :
    ∀ fuel (bs : Bytes) (acc : List PNlri), bs.length < fuel → (nlriLoop2 one addpath fuel bs acc).NP := by
  intro fuel
  induction fuel with
  | zero => intro bs acc h; omega
  | succ fuel ih =>
    intro bs acc hf
    unfold nlriLoop2
    split
    · simp
    · rename_i x xs
      split
      · simp
      · rename_i id bs1 len hp
        have hps := pathId_spec hp rfl
        obtain ⟨hnp, hlt⟩ := hs bs1 len
        cases ho : one bs1 len with
        | panic => rw [ho] at hnp; exact absurd hnp (by simp)
        | err e => simp
        | ok v =>
          obtain ⟨m, c, r⟩ := v
          simp only [Out.bind_ok]
          apply ih
          have := hlt m c r ho
          omega

theorem oneOf_safe (p : Profile) (fam : Nat) (isReach : Bool) {one : Bytes → Nat → One}
    (h : oneOf p fam isReach = some one) : One.Safe one := by
  unfold oneOf at h
  split at h
  · injection h with h; subst h; exact vpnOne_safe _ _
  split at h
  · injection h with h; subst h; exact vpnOne_safe _ _
  split at h
  · injection h with h; subst h; exact labeledOne_safe _ _ _
  split at h
  · injection h with h; subst h; exact labeledOne_safe _ _ _
  split at h
  · injection h with h; subst h; exact rtcOne_safe
  split at h
  · injection h with h; subst h; exact srpOne_safe
  · cases h

/-- the transcribed decoders never panic; what is left as a hypothesis is `rest` (EVPN, flowspec, MUP, BGP-LS) -/
theorem decP2_NP (p : Profile) {rest : HypDec} (hr : rest.NP) : (decP2 p rest).NP := by
  intro fam ap r bs
  unfold decP2
  split
  · rename_i one ho
    exact nlriLoop2_NP (oneOf_safe p fam r ho) ap _ _ _ (by omega)
  · exact hr _ _ _ _

end Rbgp.Wire
