/-
  Rbgp.Wire.Stream — the receive loops that sit on top of the decoders:
  daemon/src/event/mod.rs `run_select` ("append what was read, call `try_parse` until `Ok(None)`,
  an `Err` ends the session") and tokio's `Framed` over `RtrCodec` ("call `decode` until `None`").
  The observation is the list of per-call records.
-/
import Rbgp.Wire.Model
import Rbgp.Wire.Rtr
namespace Rbgp.Wire

/-- one decoder call as seen from outside: outcome class, bytes consumed, bytes left in the buffer -/
inductive Rec where
  | msg (n rem : Nat) (m : Msg)
  | more (rem : Nat)
  | err (e : Notif) (n rem : Nat)
  | panic
  | stall
  deriving DecidableEq, Repr

/-- call `try_parse` on `buf` until it asks for more bytes; `none` = the session is over -/
def drain (dec : HypDec) (p : Profile) (c : Codec) (buf : Bytes) : List Rec × Option Bytes :=
  match tryParse dec p c buf with
  | .more => ([.more buf.length], some buf)
  | .panic => ([.panic], none)
  | .err n e => ([.err e n (buf.length - n)], none)
  | .msg n m =>
      if 0 < n ∧ n ≤ buf.length then
        let r := drain dec p c (buf.drop n)
        (.msg n (buf.length - n) m :: r.1, r.2)
      else
        -- a "message" that consumed nothing would be returned for ever
        ([.msg n (buf.length - n) m, .stall], none)
termination_by buf.length
decreasing_by simp only [List.length_drop]; omega

/-- feed the chunks one after the other -/
def bgpStream (dec : HypDec) (p : Profile) (c : Codec) : Bytes → List Bytes → List Rec
  | _, [] => []
  | buf, ch :: rest =>
      match drain dec p c (buf ++ ch) with
      | (rs, some b) => rs ++ bgpStream dec p c b rest
      | (rs, none) => rs

/-! ## RTR -/

inductive RRec where
  | pdu (n rem : Nat) (m : RtrMsg)
  | more (rem : Nat)
  | err (n rem : Nat)
  | panic
  | stall
  deriving DecidableEq, Repr

def rtrDrain (buf : Bytes) : List RRec × Option Bytes :=
  match rtrDecode buf with
  | .more => ([.more buf.length], some buf)
  | .err => ([.err 0 buf.length], none)
  | .panic => ([.panic], none)
  | .pdu m n =>
      if 0 < n ∧ n ≤ buf.length then
        let r := rtrDrain (buf.drop n)
        (.pdu n (buf.length - n) m :: r.1, r.2)
      else ([.pdu n (buf.length - n) m, .stall], none)
termination_by buf.length
decreasing_by simp only [List.length_drop]; omega

def rtrStream : Bytes → List Bytes → List RRec
  | _, [] => []
  | buf, ch :: rest =>
      match rtrDrain (buf ++ ch) with
      | (rs, some b) => rs ++ rtrStream b rest
      | (rs, none) => rs

end Rbgp.Wire
