/-
  Rbgp.Wire.E2EProofs — C05, end-to-end half: the checker `E2E.checkE` accepts every run of the end-to-end model
  (`E2E.runE2E`: packet-level model, then the table updates of `rx_update`), for every case of the language.

  The packet-level proof (`run_facts`, `check_run_ok`) says what the `Message` list of a run looks like.  Here:
  (1) every route of the table that is not an OLD one was inserted by a Reach message of that list, with the attributes
  of the message (plus the injected LOCAL_PREF of an internal peer); (2) a prefix removed by an Unreach message and not
  announced by a later Reach is not in the table.  With these the clauses of `check` carry over from the message list
  to the table read as messages (`pseudoMsgs`).
-/
import Rbgp.Wire.E2E
import Rbgp.Wire.UpdateFull
set_option linter.unusedSimpArgs false
set_option linter.unusedVariables false
namespace Rbgp.Wire.E2E
open Rbgp.Wire Rbgp.Wire.USpec

/-! ## the table operations -/

theorem mem_ribRemove {k : RKey} {r : Rib} {e : RKey × List Attr} : e ∈ ribRemove k r ↔ e ∈ r ∧ e.1 ≠ k := by
  simp [ribRemove]

theorem mem_ribInsert {k : RKey} {a : List Attr} {r : Rib} {e : RKey × List Attr} :
    e ∈ ribInsert k a r ↔ e = (k, a) ∨ (e ∈ r ∧ e.1 ≠ k) := by
  simp [ribInsert, mem_ribRemove]

def Absent (k : RKey) (r : Rib) : Prop := ∀ e ∈ r, e.1 ≠ k

theorem absent_iff {k : RKey} {r : Rib} : absent k r = true ↔ Absent k r := by
  simp [absent, Absent]

theorem absent_remove (k : RKey) (r : Rib) : Absent k (ribRemove k r) := by
  intro e he; exact (mem_ribRemove.mp he).2

theorem absent_remove_pres {k k' : RKey} {r : Rib} (h : Absent k r) : Absent k (ribRemove k' r) := by
  intro e he; exact h e (mem_ribRemove.mp he).1

theorem absent_insert_pres {k k' : RKey} {a : List Attr} {r : Rib} (h : Absent k r) (hne : k' ≠ k) :
    Absent k (ribInsert k' a r) := by
  intro e he
  rcases mem_ribInsert.mp he with rfl | ⟨h1, _⟩
  · exact hne
  · exact h e h1

/-- the entries an Unreach list removes are gone afterwards -/
theorem absent_fold_remove (fam : Nat) : ∀ (es : List PNlri) (r : Rib) (p : PNlri),
    (p ∈ es ∨ Absent (keyOf fam p) r) →
    Absent (keyOf fam p) (es.foldl (fun r q => ribRemove (keyOf fam q) r) r) := by
  intro es
  induction es with
  | nil =>
    intro r p h
    rcases h with h | h
    · cases h
    · exact h
  | cons q qs ih =>
    intro r p h
    simp only [List.foldl_cons]
    apply ih
    rcases h with h | h
    · simp only [List.mem_cons] at h
      rcases h with rfl | h
      · exact Or.inr (absent_remove _ _)
      · exact Or.inl h
    · exact Or.inr (absent_remove_pres h)

theorem absent_fold_insert (fam : Nat) (a : List Attr) (k : RKey) : ∀ (es : List PNlri) (r : Rib),
    Absent k r → (∀ q ∈ es, keyOf fam q ≠ k) →
    Absent k (es.foldl (fun r q => ribInsert (keyOf fam q) a r) r) := by
  intro es
  induction es with
  | nil => intro r h _; exact h
  | cons q qs ih =>
    intro r h hne
    simp only [List.foldl_cons]
    exact ih _ (absent_insert_pres h (hne q (by simp))) (fun x hx => hne x (List.mem_cons_of_mem _ hx))

/-- a message does not bring back an absent key unless it is a Reach that carries it -/
def NoReach (k : RKey) : VMsg → Prop
  | .reach fam _ entries _ => ∀ q ∈ entries, keyOf fam q ≠ k
  | _ => True

theorem absent_applyMsg {kind : Kind} {k : RKey} {r : Rib} {m : VMsg} (h : Absent k r) (hn : NoReach k m) :
    Absent k (applyMsg kind r m) := by
  cases m with
  | reach fam nh entries attrs => exact absent_fold_insert fam _ k entries r h hn
  | unreach fam entries =>
    simp only [applyMsg]
    clear hn
    induction entries generalizing r with
    | nil => exact h
    | cons q qs ih => simp only [List.foldl_cons]; exact ih (absent_remove_pres h)
  | eor _ => exact h
  | other => exact h

theorem absent_fold {kind : Kind} {k : RKey} : ∀ (msgs : List VMsg) (r : Rib), Absent k r →
    (∀ m ∈ msgs, NoReach k m) → Absent k (msgs.foldl (applyMsg kind) r) := by
  intro msgs
  induction msgs with
  | nil => intro r h _; exact h
  | cons m ms ih =>
    intro r h hn
    simp only [List.foldl_cons]
    exact ih _ (absent_applyMsg h (hn m (by simp))) (fun x hx => hn x (List.mem_cons_of_mem _ hx))

/-- (2): removed by an Unreach and not announced afterwards ⇒ not in the table -/
theorem absent_after {kind : Kind} {fam : Nat} {es : List PNlri} {p : PNlri} {pre post : List VMsg} {r : Rib}
    (hp : p ∈ es) (hpost : ∀ m ∈ post, NoReach (keyOf fam p) m) :
    Absent (keyOf fam p) ((pre ++ VMsg.unreach fam es :: post).foldl (applyMsg kind) r) := by
  rw [List.foldl_append, List.foldl_cons]
  apply absent_fold _ _ _ hpost
  simp only [applyMsg]
  exact absent_fold_remove fam es _ p (Or.inl hp)

/-! ## (1): where the routes of the table come from -/

def FromMsgs (kind : Kind) (S : List (List Attr)) (r : Rib) : Prop :=
  ∀ e ∈ r, e.2 = oldAttrs kind ∨ ∃ as ∈ S, e.2 = canonAttrs kind as

theorem FromMsgs.mono {kind : Kind} {S S' : List (List Attr)} {r : Rib} (h : FromMsgs kind S r)
    (hs : ∀ x ∈ S, x ∈ S') : FromMsgs kind S' r := by
  intro e he
  rcases h e he with h1 | ⟨as, has, h2⟩
  · exact Or.inl h1
  · exact Or.inr ⟨as, hs as has, h2⟩

theorem fromMsgs_init (kind : Kind) (pre : Bool) (u : CUpdate) : FromMsgs kind [] (initRib kind pre u) := by
  unfold initRib
  generalize (wKeys u ++ if pre = true then aKeys u else []) = ks
  have : ∀ (ks : List RKey) (r : Rib), FromMsgs kind [] r →
      FromMsgs kind [] (ks.foldl (fun r k => ribInsert k (oldAttrs kind) r) r) := by
    intro ks
    induction ks with
    | nil => intro r h; exact h
    | cons k ks ih =>
      intro r h
      simp only [List.foldl_cons]
      apply ih
      intro e he
      rcases mem_ribInsert.mp he with rfl | ⟨h1, _⟩
      · exact Or.inl rfl
      · exact h e h1
  exact this ks [] (by intro e he; cases he)

theorem fromMsgs_applyMsg {kind : Kind} {S : List (List Attr)} {r : Rib} (m : VMsg) (h : FromMsgs kind S r) :
    FromMsgs kind (S ++ reachMsgs [m]) (applyMsg kind r m) := by
  cases m with
  | reach fam nh entries attrs =>
    simp only [applyMsg, reachMsgs, List.filterMap_cons, List.filterMap_nil]
    have : ∀ (es : List PNlri) (r : Rib), FromMsgs kind (S ++ [attrs]) r →
        FromMsgs kind (S ++ [attrs]) (es.foldl (fun r p => ribInsert (keyOf fam p) (canonAttrs kind attrs) r) r) := by
      intro es
      induction es with
      | nil => intro r h; exact h
      | cons q qs ih =>
        intro r h
        simp only [List.foldl_cons]
        apply ih
        intro e he
        rcases mem_ribInsert.mp he with rfl | ⟨h1, _⟩
        · exact Or.inr ⟨attrs, by simp, rfl⟩
        · exact h e h1
    exact this entries r (h.mono (fun x hx => by simp [hx]))
  | unreach fam entries =>
    simp only [applyMsg, reachMsgs, List.filterMap_cons, List.filterMap_nil, List.append_nil]
    have : ∀ (es : List PNlri) (r : Rib), FromMsgs kind S r →
        FromMsgs kind S (es.foldl (fun r p => ribRemove (keyOf fam p) r) r) := by
      intro es
      induction es with
      | nil => intro r h; exact h
      | cons q qs ih =>
        intro r h
        simp only [List.foldl_cons]
        apply ih
        intro e he
        exact h e (mem_ribRemove.mp he).1
    exact this entries r h
  | eor _ => simpa [applyMsg, reachMsgs] using h
  | other => simpa [applyMsg, reachMsgs] using h

theorem reachMsgs_append (a b : List VMsg) : reachMsgs (a ++ b) = reachMsgs a ++ reachMsgs b := by
  simp [reachMsgs, List.filterMap_append]

theorem fromMsgs_fold {kind : Kind} : ∀ (msgs : List VMsg) (S : List (List Attr)) (r : Rib), FromMsgs kind S r →
    FromMsgs kind (S ++ reachMsgs msgs) (msgs.foldl (applyMsg kind) r) := by
  intro msgs
  induction msgs with
  | nil => intro S r h; simpa [reachMsgs] using h
  | cons m ms ih =>
    intro S r h
    simp only [List.foldl_cons]
    have := ih _ _ (fromMsgs_applyMsg m h)
    have e : S ++ reachMsgs (m :: ms) = S ++ reachMsgs [m] ++ reachMsgs ms := by
      rw [List.append_assoc, ← reachMsgs_append]; rfl
    rw [e]; exact this

/-- every fresh route of the final table carries the attributes of a Reach message of the run -/
theorem fresh_from_msgs {kind : Kind} {pre : Bool} {u : CUpdate} {msgs : List VMsg} :
    ∀ e ∈ fresh kind (msgs.foldl (applyMsg kind) (initRib kind pre u)),
      ∃ as ∈ reachMsgs msgs, e.2 = canonAttrs kind as := by
  intro e he
  simp only [fresh, List.mem_filter, bne_iff_ne, ne_eq] at he
  have := fromMsgs_fold msgs [] _ (fromMsgs_init kind pre u) e he.1
  rcases this with h | ⟨as, has, h⟩
  · exact absurd h he.2
  · exact ⟨as, by simpa using has, h⟩

/-! ## attributes in listing order -/

theorem mem_insertByCode {a x : Attr} : ∀ {l : List Attr}, x ∈ insertByCode a l ↔ x = a ∨ x ∈ l := by
  intro l
  induction l with
  | nil => simp [insertByCode]
  | cons b bs ih =>
    unfold insertByCode
    split
    · simp
    · simp only [List.mem_cons, ih]
      constructor
      · rintro (h | h | h)
        · exact Or.inr (Or.inl h)
        · exact Or.inl h
        · exact Or.inr (Or.inr h)
      · rintro (h | h | h)
        · exact Or.inr (Or.inl h)
        · exact Or.inl h
        · exact Or.inr (Or.inr h)

theorem mem_sortByCode {x : Attr} : ∀ {l : List Attr}, x ∈ sortByCode l ↔ x ∈ l := by
  intro l
  induction l with
  | nil => simp [sortByCode]
  | cons b bs ih =>
    have : sortByCode (b :: bs) = insertByCode b (sortByCode bs) := rfl
    rw [this, mem_insertByCode, ih]; simp

/-- an attribute of a listed route is an attribute of the message, or the injected LOCAL_PREF of an internal peer -/
theorem mem_canonAttrs {kind : Kind} {as : List Attr} {x : Attr} (h : x ∈ canonAttrs kind as) :
    x ∈ as ∨ (kind = .ibgp ∧ x = ⟨5, 0x40, .val 100⟩) := by
  unfold canonAttrs at h
  rw [mem_sortByCode] at h
  split at h
  · rename_i hc
    simp only [List.mem_cons] at h
    rcases h with h | h
    · exact Or.inr ⟨hc.1, h⟩
    · exact Or.inl h
  · exact Or.inl h

/-! ## the table read as messages -/

theorem reachMsgs_map_unreach (l : List RKey) :
    reachMsgs (l.map fun k => VMsg.unreach k.fam [⟨k.id, k.mask, k.addr⟩]) = [] := by
  induction l with
  | nil => rfl
  | cons _ _ ih => simp only [List.map_cons, reachMsgs, List.filterMap_cons] at ih ⊢; exact ih

theorem reachMsgs_map_reach (l : Rib) :
    reachMsgs (l.map fun e => VMsg.reach e.1.fam none [⟨e.1.id, e.1.mask, e.1.addr⟩] e.2) = l.map (·.2) := by
  induction l with
  | nil => rfl
  | cons _ _ ih => simp only [List.map_cons, reachMsgs, List.filterMap_cons] at ih ⊢; rw [ih]

theorem reachMsgs_pseudo (kind : Kind) (u : CUpdate) (r : Rib) :
    reachMsgs (pseudoMsgs kind u r) = (fresh kind r).map (·.2) := by
  unfold pseudoMsgs
  rw [reachMsgs_append, reachMsgs_map_unreach, reachMsgs_map_reach, List.append_nil]

/-- a prefix of the UPDATE that is not in the table counts as withdrawn -/
theorem mem_withdrawn_pseudo {kind : Kind} {u : CUpdate} {r : Rib} {fam : Nat} {p : PNlri}
    (hk : keyOf fam p ∈ wKeys u ++ aKeys u) (ha : Absent (keyOf fam p) r) :
    p ∈ withdrawnOut (pseudoMsgs kind u r) fam := by
  apply mem_withdrawnOut (e := [p])
  · unfold pseudoMsgs
    simp only [List.mem_append, List.mem_map, List.mem_filter]
    right
    exact ⟨keyOf fam p, ⟨by simpa using hk, absent_iff.mpr ha⟩, rfl⟩
  · simp

/-! ## withdrawals of a run whose framing is intact -/

theorem keyOf_pad_wd {u : CUpdate} {p : CPfx} (h : p ∈ u.wd) : keyOf FAM_IPV4 (padAddr p 4) ∈ wKeys u := by
  unfold wKeys; simp only [List.mem_append, List.mem_map]; exact Or.inl ⟨p, h, rfl⟩

/-- the legacy withdrawals and those of MP_UNREACH are not in the table after the run -/
theorem withdrawn_absent {kind : Kind} {pre : Bool} {ebgp : Bool} {u : CUpdate} {nh : Option Bytes}
    {attrs : List Attr} {errs : List (Nat × Nat)} (hre : wdReannounced u = false) :
    ∀ k ∈ wKeys u, Absent k
      ((validateUpdate ebgp (expReach u nh) (expMpReach u) (expUnreach u) (expMpUnreach u) attrs errs).foldl
        (applyMsg kind) (initRib kind pre u)) := by
  intro k hk
  unfold wKeys at hk
  simp only [List.mem_append, List.mem_map] at hk
  cases htd : tawDecision (expReach u nh) (expMpReach u) attrs errs with
  | true =>
    rw [validate_taw htd]
    -- every message is an Unreach
    have hall : ∀ (l1 : List Reach) (l2 : List Unreach),
        ∀ m ∈ (l1.map fun r => VMsg.unreach r.fam r.entries) ++ (l2.map fun x => VMsg.unreach x.fam x.entries),
          NoReach k m := by
      intro l1 l2 m hm
      simp only [List.mem_append, List.mem_map] at hm
      rcases hm with ⟨_, _, rfl⟩ | ⟨_, _, rfl⟩ <;> trivial
    rcases hk with ⟨p, hp, rfl⟩ | hk
    · -- a legacy withdrawal: in `expUnreach`
      have hun : expUnreach u = some ⟨FAM_IPV4, u.wd.map (padAddr · 4)⟩ := by
        unfold expUnreach
        cases hw : u.wd with
        | nil => rw [hw] at hp; cases hp
        | cons _ _ => simp
      rw [hun]
      simp only [optList, List.cons_append, List.nil_append, List.map_cons]
      have := absent_after (kind := kind) (fam := FAM_IPV4) (es := u.wd.map (padAddr · 4)) (p := padAddr p 4)
        (pre := (optList (expReach u nh) ++ optList (expMpReach u)).map fun r => VMsg.unreach r.fam r.entries)
        (post := (optList (expMpUnreach u)).map fun x => VMsg.unreach x.fam x.entries)
        (r := initRib kind pre u) (List.mem_map.mpr ⟨p, hp, rfl⟩)
        (fun m hm => by simp only [List.mem_map] at hm; obtain ⟨_, _, rfl⟩ := hm; trivial)
      simpa [List.map_append, optList] using this
    · cases hmu : u.mpu with
      | none => simp [hmu] at hk
      | some m =>
        simp only [hmu, List.mem_map] at hk
        obtain ⟨p, hp, rfl⟩ := hk
        have hun : expMpUnreach u = some ⟨famKey m.afi m.safi, m.nlri.map (padAddr · (if m.afi = 2 then 16 else 4))⟩ := by
          unfold expMpUnreach; simp [hmu]
        rw [hun]
        have := absent_after (kind := kind) (fam := famKey m.afi m.safi)
          (es := m.nlri.map (padAddr · (if m.afi = 2 then 16 else 4)))
          (p := padAddr p (if m.afi = 2 then 16 else 4))
          (pre := ((optList (expReach u nh) ++ optList (expMpReach u)).map fun r => VMsg.unreach r.fam r.entries) ++
            ((optList (expUnreach u)).map fun x => VMsg.unreach x.fam x.entries))
          (post := []) (r := initRib kind pre u) (List.mem_map.mpr ⟨p, hp, rfl⟩) (fun m hm => by cases hm)
        simpa [List.map_append, optList, List.append_assoc] using this
  | false =>
    rw [validate_no_taw htd]
    simp only
    rcases hk with ⟨p, hp, rfl⟩ | hk
    · have hun : expUnreach u = some ⟨FAM_IPV4, u.wd.map (padAddr · 4)⟩ := by
        unfold expUnreach
        cases hw : u.wd with
        | nil => rw [hw] at hp; cases hp
        | cons _ _ => simp
      rw [hun]
      -- afterwards only MP_REACH announces: a different family, or none of these prefixes
      have hpost : ∀ m ∈ ((optList (expMpReach u)).map fun r => VMsg.reach r.fam r.nh r.entries
            (if ebgp = true then attrs.filter fun a => !(a.code == 5 || a.code == 9 || a.code == 10) else attrs)) ++
          ((optList (expMpUnreach u)).map fun x => VMsg.unreach x.fam x.entries),
          NoReach (keyOf FAM_IPV4 (padAddr p 4)) m := by
        intro m hm
        simp only [List.mem_append, List.mem_map] at hm
        rcases hm with ⟨r, hr, rfl⟩ | ⟨_, _, rfl⟩
        · unfold expMpReach at hr
          cases hmr : u.mpr with
          | none => rw [hmr] at hr; simp [optList] at hr
          | some mm =>
            rw [hmr] at hr
            simp only [optList, List.mem_singleton] at hr
            subst hr
            intro q hq hkey
            simp only [List.mem_map] at hq
            obtain ⟨q0, hq0, rfl⟩ := hq
            unfold wdReannounced at hre
            rw [hmr] at hre
            simp only [Bool.and_eq_false_iff, beq_eq_false_iff_ne, ne_eq, List.any_eq_false,
              List.contains_iff_mem, List.mem_map, not_exists, not_and] at hre
            injection hkey with hfam hid hmask haddr
            rcases hre with hf | hf
            · exact hf hfam
            · have hafi : (if mm.afi = 2 then 16 else 4) = 4 ∨ True := Or.inr trivial
              -- family IPv4 unicast: afi = 1, the padding width is 4
              have hfk : famKey mm.afi mm.safi = FAM_IPV4 := hfam
              have h4 : (if mm.afi = 2 then 16 else 4) = 4 := by
                split
                · rename_i h2; rw [h2] at hfk; unfold famKey FAM_IPV4 at hfk; omega
                · rfl
              rw [h4] at hid hmask haddr
              apply hf p hp q0 hq0
              -- the two padded prefixes are the same
              have : padAddr q0 4 = padAddr p 4 := by
                cases hq : padAddr q0 4; cases hpp : padAddr p 4
                rw [hq] at hid hmask haddr; rw [hpp] at hid hmask haddr
                simp only at hid hmask haddr
                subst hid hmask haddr; rfl
              exact this
        · trivial
      have := absent_after (kind := kind) (fam := FAM_IPV4) (es := u.wd.map (padAddr · 4)) (p := padAddr p 4)
        (pre := (optList (expReach u nh)).map fun r => VMsg.reach r.fam r.nh r.entries
            (if ebgp = true then attrs.filter fun a => !(a.code == 5 || a.code == 9 || a.code == 10) else attrs))
        (r := initRib kind pre u) (List.mem_map.mpr ⟨p, hp, rfl⟩) hpost
      simpa [optList, List.append_assoc] using this
    · cases hmu : u.mpu with
      | none => simp [hmu] at hk
      | some m =>
        simp only [hmu, List.mem_map] at hk
        obtain ⟨p, hp, rfl⟩ := hk
        have hun : expMpUnreach u = some ⟨famKey m.afi m.safi, m.nlri.map (padAddr · (if m.afi = 2 then 16 else 4))⟩ := by
          unfold expMpUnreach; simp [hmu]
        rw [hun]
        have := absent_after (kind := kind) (fam := famKey m.afi m.safi)
          (es := m.nlri.map (padAddr · (if m.afi = 2 then 16 else 4)))
          (p := padAddr p (if m.afi = 2 then 16 else 4))
          (pre := ((optList (expReach u nh)).map fun r => VMsg.reach r.fam r.nh r.entries
              (if ebgp = true then attrs.filter fun a => !(a.code == 5 || a.code == 9 || a.code == 10) else attrs)) ++
            ((optList (expUnreach u)).map fun x => VMsg.unreach x.fam x.entries) ++
            ((optList (expMpReach u)).map fun r => VMsg.reach r.fam r.nh r.entries
              (if ebgp = true then attrs.filter fun a => !(a.code == 5 || a.code == 9 || a.code == 10) else attrs)))
          (post := []) (r := initRib kind pre u) (List.mem_map.mpr ⟨p, hp, rfl⟩) (fun m hm => by cases hm)
        simpa [optList, List.append_assoc] using this

/-! ## carrying the clauses over -/

theorem mem_withdrawnOut_iff {msgs : List VMsg} {f : Nat} {p : PNlri} (h : p ∈ withdrawnOut msgs f) :
    ∃ e, VMsg.unreach f e ∈ msgs ∧ p ∈ e := by
  unfold withdrawnOut at h
  simp only [List.mem_flatten, List.mem_map] at h
  obtain ⟨l, ⟨m, hm, rfl⟩, hp⟩ := h
  cases m with
  | unreach f' e =>
    simp only at hp
    split at hp
    · rename_i hf
      have : f' = f := by simpa using hf
      subst this
      exact ⟨e, hm, hp⟩
    · cases hp
  | reach _ _ _ _ => cases hp
  | eor _ => cases hp
  | other => cases hp

theorem noReach_of_empty {msgs : List VMsg} (h : reachMsgs msgs = []) (k : RKey) : ∀ m ∈ msgs, NoReach k m := by
  intro m hm
  cases m with
  | reach fam nh entries attrs =>
    exfalso
    have : attrs ∈ reachMsgs msgs := by
      unfold reachMsgs
      simp only [List.mem_filterMap]
      exact ⟨_, hm, rfl⟩
    rw [h] at this; cases this
  | unreach _ _ => trivial
  | eor _ => trivial
  | other => trivial

/-- no Reach at all: whatever the run withdrew is not in the table -/
theorem absent_of_withdrawn {kind : Kind} {msgs : List VMsg} {r : Rib} {fam : Nat} {p : PNlri}
    (hr : reachMsgs msgs = []) (hp : p ∈ withdrawnOut msgs fam) :
    Absent (keyOf fam p) (msgs.foldl (applyMsg kind) r) := by
  obtain ⟨e, hm, hpe⟩ := mem_withdrawnOut_iff hp
  obtain ⟨pre, post, rfl⟩ := List.append_of_mem hm
  exact absent_after hpe (fun m hm' => noReach_of_empty hr _ m (by simp [hm']))

theorem fresh_nil_of_no_reach {kind : Kind} {pre : Bool} {u : CUpdate} {msgs : List VMsg} (hr : reachMsgs msgs = []) :
    fresh kind (msgs.foldl (applyMsg kind) (initRib kind pre u)) = [] := by
  cases hf : fresh kind (msgs.foldl (applyMsg kind) (initRib kind pre u)) with
  | nil => rfl
  | cons e es =>
    exfalso
    obtain ⟨as, has, _⟩ := fresh_from_msgs (kind := kind) (pre := pre) (u := u) (msgs := msgs) e (by rw [hf]; simp)
    rw [hr] at has; cases has

theorem allIn_mem {want have_ : List PNlri} (h : allIn want have_ = true) : ∀ p ∈ want, p ∈ have_ := by
  unfold allIn at h
  simpa [List.all_eq_true, List.contains_iff_mem] using h

theorem annSets_keys {u : CUpdate} {fam : Nat} {ps : List PNlri} {p : PNlri} (hs : (fam, ps) ∈ annSets u) (hp : p ∈ ps) :
    keyOf fam p ∈ aKeys u := by
  unfold annSets at hs
  unfold aKeys
  simp only [List.mem_cons] at hs
  rcases hs with hs | hs
  · injection hs with h1 h2
    subst h1 h2
    simp only [List.mem_map] at hp
    obtain ⟨q, hq, rfl⟩ := hp
    simp only [List.mem_append, List.mem_map]
    exact Or.inl ⟨q, hq, rfl⟩
  · cases hm : u.mpr with
    | none => rw [hm] at hs; cases hs
    | some m =>
      rw [hm] at hs
      simp only [List.mem_singleton] at hs
      injection hs with h1 h2
      subst h1 h2
      simp only [List.mem_map] at hp
      obtain ⟨q, hq, rfl⟩ := hp
      simp only [List.mem_append, List.mem_map]
      exact Or.inr ⟨q, hq, rfl⟩

theorem tawDone_transfer {kind : Kind} {pre : Bool} {u : CUpdate} {msgs : List VMsg} (h : tawDone u msgs = true) :
    tawDone u (pseudoMsgs kind u (msgs.foldl (applyMsg kind) (initRib kind pre u))) = true := by
  unfold tawDone at h ⊢
  simp only [Bool.and_eq_true, List.isEmpty_iff] at h ⊢
  obtain ⟨hr, hw⟩ := h
  constructor
  · rw [reachMsgs_pseudo, fresh_nil_of_no_reach hr]; rfl
  · unfold setsWithdrawn at hw ⊢
    simp only [List.all_eq_true] at hw ⊢
    intro x hx
    apply allIn_of_mem
    intro p hp
    have hpw := allIn_mem (hw x hx) p hp
    exact mem_withdrawn_pseudo (by simp [annSets_keys (fam := x.1) (ps := x.2) hx hp])
      (absent_of_withdrawn hr hpw)

/-- end-to-end master theorem: the checker on the table accepts every run of the end-to-end model -/
theorem checkE_run_ok (dec : HypDec) (hd : dec.NP) (hde : dec.E3) (p : Profile) (kind : Kind) (pre : Bool) (c : Codec)
    (ebgp : Bool) (u : CUpdate) (cs : List Corr) (bytes : Bytes) :
    checkE kind c ebgp u cs bytes (runE2E dec p kind pre c ebgp u bytes) = .ok := by
  unfold checkE
  by_cases hwfe : wfE kind c ebgp u cs bytes = true
  case neg => simp [hwfe]
  rw [if_neg (by simp [hwfe])]
  unfold wfE at hwfe
  simp only [Bool.and_eq_true, beq_iff_eq, Bool.not_eq_true', List.all_eq_true] at hwfe
  obtain ⟨⟨⟨⟨hwf, hbytes⟩, hkind⟩, hre⟩, hcls⟩ := hwfe
  subst hbytes
  have hmain := check_run_ok dec hd hde p c ebgp u cs
  unfold runE2E
  rcases run_facts dec hd p c ebgp u cs hwf with ⟨msgs, hrun, F⟩ | ⟨e, hrun⟩
  case inr =>
    rw [hrun] at hmain ⊢
    simp only
    unfold check at hmain ⊢
    simpa using hmain
  rw [hrun]
  simp only
  -- attributes of a fresh route
  have hfresh := fresh_from_msgs (kind := kind) (pre := pre) (u := u) (msgs := msgs)
  have hebgp : ebgp = true → kind = .ebgp := by
    intro h; rw [h] at hkind
    have : (kind == Kind.ebgp) = true := hkind.symm
    simpa using this
  have hibgp : kind = .ibgp → ebgp = false := by
    intro h; rw [h] at hkind; rw [hkind]; rfl
  -- H1: iBGP-only attributes from an external peer
  have H1 : (ebgp && (reachMsgs (pseudoMsgs kind u (msgs.foldl (applyMsg kind) (initRib kind pre u)))).any
      (fun as => as.any fun a => a.code == 5 || a.code == 9 || a.code == 10)) = false := by
    cases he : ebgp with
    | false => rfl
    | true =>
      have hk := hebgp he
      have h1 := F.h1
      rw [he] at h1
      simp only [Bool.true_and] at h1 ⊢
      rw [List.any_eq_false] at h1 ⊢
      intro as' has'
      rw [reachMsgs_pseudo] at has'
      simp only [List.mem_map] at has'
      obtain ⟨e, hef, rfl⟩ := has'
      obtain ⟨as, has, heq⟩ := hfresh e hef
      have h2 := h1 as has
      rw [heq]
      simp only [Bool.not_eq_true] at h2 ⊢
      rw [List.any_eq_false] at h2 ⊢
      intro a ha
      rcases mem_canonAttrs ha with h | ⟨hk', _⟩
      · exact h2 a h
      · rw [hk] at hk'; cases hk'
  -- H4: an attribute in front of the damage demands treat-as-withdraw
  have H4 : prefixMustTaw c u cs = true →
      reachMsgs (pseudoMsgs kind u (msgs.foldl (applyMsg kind) (initRib kind pre u))) = [] := by
    intro hp
    rw [reachMsgs_pseudo, fresh_nil_of_no_reach (F.h4 hp)]; rfl
  by_cases hweak : (allClasses c u cs).contains Cls.weak = true
  · rw [if_pos hweak, if_neg (by rw [H1]; simp)]
    by_cases hp : prefixMustTaw c u cs = true
    · rw [H4 hp]; simp
    · simp [hp]
  · rw [if_neg hweak]
    have hnw : Cls.weak ∉ allClasses c u cs := by simpa using hweak
    obtain ⟨nh, attrs, errs, hshape⟩ := F.shape hnw
    have hwabs : ∀ k ∈ wKeys u, Absent k (msgs.foldl (applyMsg kind) (initRib kind pre u)) := by
      rw [hshape]; exact withdrawn_absent hre
    refine check_ok_msgs hwf H1 ?_ ?_ H4
    · -- legacy withdrawals
      apply allIn_of_mem
      intro q hq
      simp only [List.mem_map] at hq
      obtain ⟨q0, hq0, rfl⟩ := hq
      exact mem_withdrawn_pseudo (by simp [keyOf_pad_wd hq0]) (hwabs _ (keyOf_pad_wd hq0))
    · intro _
      obtain ⟨_, h3b, h3c⟩ := F.h3 hnw
      refine ⟨?_, fun hm => tawDone_transfer (h3b hm), ?_⟩
      · -- withdrawals of MP_UNREACH
        unfold setsWithdrawn wdSets
        cases hmu : u.mpu with
        | none => simp
        | some m =>
          simp only [List.all_cons, List.all_nil, Bool.and_true]
          apply allIn_of_mem
          intro q hq
          simp only [List.mem_map] at hq
          obtain ⟨q0, hq0, rfl⟩ := hq
          have hk : keyOf (famKey m.afi m.safi) (padAddr q0 (if m.afi = 2 then 16 else 4)) ∈ wKeys u := by
            unfold wKeys; rw [hmu]; simp only [List.mem_append, List.mem_map]; exact Or.inr ⟨q0, hq0, rfl⟩
          exact mem_withdrawn_pseudo (by simp [hk]) (hwabs _ hk)
      · rcases h3c with hdone | ⟨hdisc, hdup⟩
        · exact Or.inl (tawDone_transfer hdone)
        · right
          constructor
          · intro code hx as' has' a ha
            rw [reachMsgs_pseudo] at has'
            simp only [List.mem_map] at has'
            obtain ⟨e, hef, rfl⟩ := has'
            obtain ⟨as, has, heq⟩ := hfresh e hef
            rw [heq] at ha
            rcases mem_canonAttrs ha with h | ⟨_, rfl⟩
            · exact hdisc code hx as has a h
            · have := hcls _ hx
              simp only [bne_iff_ne, ne_eq] at this
              exact fun h => this h.symm
          · intro code dd hx as' has'
            rw [reachMsgs_pseudo] at has'
            simp only [List.mem_map] at has'
            obtain ⟨e, hef, rfl⟩ := has'
            obtain ⟨as, has, heq⟩ := hfresh e hef
            have hb := hdup code dd hx as has
            rw [heq]
            unfold believes at hb ⊢
            rw [List.any_eq_false] at hb ⊢
            intro a ha
            rcases mem_canonAttrs ha with h | ⟨hk, rfl⟩
            · exact hb a h
            · have := hcls _ hx
              simp only [Bool.or_eq_true, bne_iff_ne, ne_eq] at this
              rcases this with he | hne
              · rw [hibgp hk] at he; cases he
              · simp only [Bool.and_eq_true, beq_iff_eq, not_and]
                intro hc; exact absurd hc.symm hne

end Rbgp.Wire.E2E
