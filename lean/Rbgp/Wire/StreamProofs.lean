/-
  Rbgp.Wire.StreamProofs — C03 at the level of the receive loop: the reference checker accepts every
  run of the model; the message sequence does not depend on how the byte stream is fragmented.
-/
import Rbgp.Wire.Proofs
import Rbgp.Wire.ErrClass
set_option linter.unusedSimpArgs false
set_option linter.unusedVariables false
namespace Rbgp.Wire
open Spec

/-- the part of a record the property speaks about -/
def srecOf : Rec → SRec
  | .msg n rem _ => .msg n rem
  | .more rem => .more rem
  | .err e n rem => .errc n rem e.code e.sub
  | .panic => .panic
  | .stall => .stall

/-- what the checker does once the decoder has (rightly) asked for more bytes -/
def afterMore (maxLen : Nat) (i : Nat) (b : Bytes) (rest : List Bytes) (K : List SRec) : Verdict :=
  match rest with
  | [] => if K.isEmpty then .ok else .fail (i + 1) "records-after-the-last-chunk"
  | ch :: rest' => checkBgp maxLen (i + 1) (b ++ ch) rest' K

theorem isFrame_of_msg {dec : HypDec} {p : Profile} {c : Codec} {src : Bytes} {n : Nat} {m : Msg}
    (h : tryParse dec p c src = .msg n m) : isFrame c.maxLen src n = true := by
  obtain ⟨h1, h2, h3, h4, h5⟩ := tryParse_msg h
  simp [isFrame, h2, h1, h3, h4, h5]

theorem drain_check {dec : HypDec} (hd : dec.NP) (hde : dec.E3) (p : Profile) (c : Codec) (buf : Bytes) :
    ∀ (i : Nat) (rest : List Bytes) (K : List SRec),
      (∀ b, (drain dec p c buf).2 = some b →
        ∃ i', checkBgp c.maxLen i buf rest ((drain dec p c buf).1.map srecOf ++ K) = afterMore c.maxLen i' b rest K) ∧
      ((drain dec p c buf).2 = none →
        checkBgp c.maxLen i buf rest ((drain dec p c buf).1.map srecOf) = .ok) := by
  fun_induction drain dec p c buf with
  | case1 buf hm =>
    intro i rest K
    constructor
    · intro b hb
      simp only at hb
      injection hb with hb; subst hb
      refine ⟨i, ?_⟩
      simp only [List.map_cons, List.map_nil, srecOf, List.cons_append, List.nil_append]
      unfold checkBgp
      simp only [tryParse_more hm, Bool.false_eq_true, if_false, ne_eq, not_true_eq_false]
      cases rest <;> rfl
    · intro h; simp at h
  | case2 buf hp => exact absurd hp (tryParse_NP hd p c buf)
  | case3 buf n e he =>
    intro i rest K
    constructor
    · intro b hb; simp at hb
    · intro _
      have hn := tryParse_err he
      have hcl := tryParse_err_class hde he
      simp only [List.map_cons, List.map_nil, srecOf]
      unfold checkBgp
      have : n + (buf.length - n) = buf.length := by omega
      simp [this, hcl]
  | case4 buf n m hm hn r ih =>
    intro i rest K
    have hf := isFrame_of_msg hm
    obtain ⟨ih1, ih2⟩ := ih (i + 1) rest K
    constructor
    · intro b hb
      simp only at hb
      obtain ⟨i', hi'⟩ := ih1 b hb
      refine ⟨i', ?_⟩
      simp only [List.map_cons, srecOf, List.cons_append]
      rw [checkBgp]
      simp only [hf, Bool.not_true, Bool.false_eq_true, if_false, ne_eq, not_true_eq_false]
      exact hi'
    · intro hb
      simp only at hb
      simp only [List.map_cons, srecOf]
      rw [checkBgp]
      simp only [hf, Bool.not_true, Bool.false_eq_true, if_false, ne_eq, not_true_eq_false]
      exact ih2 hb
  | case5 buf n m hm hn =>
    obtain ⟨h1, h2, h3, h4, h5⟩ := tryParse_msg hm
    exact absurd ⟨by omega, h5⟩ hn

theorem bgpStream_check {dec : HypDec} (hd : dec.NP) (hde : dec.E3) (p : Profile) (c : Codec) :
    ∀ (rest : List Bytes) (buf0 ch : Bytes) (i : Nat),
      checkBgp c.maxLen i (buf0 ++ ch) rest ((bgpStream dec p c buf0 (ch :: rest)).map srecOf) = .ok := by
  intro rest
  induction rest with
  | nil =>
    intro buf0 ch i
    unfold bgpStream
    have hdc := drain_check hd hde p c (buf0 ++ ch) i [] []
    cases hdr : drain dec p c (buf0 ++ ch) with
    | mk rs ob =>
      rw [hdr] at hdc
      cases ob with
      | some b =>
        obtain ⟨i', hi'⟩ := hdc.1 b rfl
        simp only [bgpStream, List.append_nil] at hi' ⊢
        rw [hi']; rfl
      | none => exact hdc.2 rfl
  | cons ch' rest' ih =>
    intro buf0 ch i
    unfold bgpStream
    cases hdr : drain dec p c (buf0 ++ ch) with
    | mk rs ob =>
      cases ob with
      | some b =>
        have hdc := drain_check hd hde p c (buf0 ++ ch) i (ch' :: rest')
          ((bgpStream dec p c b (ch' :: rest')).map srecOf)
        rw [hdr] at hdc
        obtain ⟨i', hi'⟩ := hdc.1 b rfl
        simp only [List.map_append] at hi' ⊢
        rw [hi']
        exact ih b ch' (i' + 1)
      | none =>
        have hdc := drain_check hd hde p c (buf0 ++ ch) i (ch' :: rest') []
        rw [hdr] at hdc
        exact hdc.2 rfl

/-- master theorem (BGP): the C03 reference checker accepts every run of the model -/
theorem check_bgp_ok {dec : HypDec} (hd : dec.NP) (hde : dec.E3) (p : Profile) (c : Codec) (chunks : List Bytes) :
    checkBgpCase c.maxLen chunks ((bgpStream dec p c [] chunks).map srecOf) = .ok := by
  unfold checkBgpCase
  cases chunks with
  | nil => simp [bgpStream]
  | cons ch rest =>
    have := bgpStream_check hd hde p c rest [] ch 0
    simpa using this

/-! ## fragmentation independence -/

/-- a record without the buffer-size bookkeeping; "need more" is not an event -/
inductive Ev where
  | msg (n : Nat) (m : Msg)
  | err (e : Notif) (n : Nat)
  | panic
  | stall
  deriving DecidableEq, Repr

def evOf : Rec → Option Ev
  | .msg n _ m => some (.msg n m)
  | .more _ => none
  | .err e n _ => some (.err e n)
  | .panic => some .panic
  | .stall => some .stall

def evs (l : List Rec) : List Ev := l.filterMap evOf

theorem rd8_append {b x : Bytes} {i : Nat} (h : i < b.length) : rd8 (b ++ x) i = rd8 b i := by
  simp [rd8, List.getElem?_append_left h]

theorem rd16_append {b x : Bytes} {i : Nat} (h : i + 1 < b.length) : rd16 (b ++ x) i = rd16 b i := by
  unfold rd16
  rw [rd8_append (by omega), rd8_append (by omega)]

theorem slice_append {b x : Bytes} {s e : Nat} (h : e ≤ b.length) (hse : s ≤ e) :
    slice (b ++ x) s e = slice b s e := by
  unfold slice
  have h1 : e ≤ (b ++ x).length := by simp; omega
  rw [if_pos ⟨hse, h1⟩, if_pos ⟨hse, h⟩]
  congr 1
  rw [List.drop_append_of_le_length (by omega)]
  rw [List.take_append_of_le_length (by simp [List.length_drop]; omega)]

/-- a decided `try_parse` result does not change when more bytes are appended to the buffer -/
theorem tryParse_append_stable {dec : HypDec} {p : Profile} {c : Codec} {buf : Bytes} (x : Bytes)
    (h : tryParse dec p c buf ≠ .more) : tryParse dec p c (buf ++ x) = tryParse dec p c buf := by
  unfold tryParse tryParseWith at h ⊢
  split at h
  · exact absurd rfl h
  · rename_i h19
    have hl : ¬ (buf ++ x).length < 19 := by simp; omega
    rw [if_neg hl, if_neg h19, rd16_append (by omega), slice_append (by omega) (by omega)]
    split
    · rename_i mlen d hv hs
      split
      · rfl
      · simp only [hv, hs] at h
        rename_i hbad
        rw [if_neg hbad] at h
        split at h
        · exact absurd rfl h
        · rename_i hge
          have hge' : ¬ (buf ++ x).length < mlen := by simp; omega
          rw [if_neg hge', if_neg hge, List.take_append_of_le_length (by omega)]
    · rfl

theorem drain_leftover {dec : HypDec} (p : Profile) (c : Codec) (buf : Bytes) :
    ∀ b, (drain dec p c buf).2 = some b → tryParse dec p c b = .more := by
  fun_induction drain dec p c buf with
  | case1 buf hm => intro b hb; simp at hb; subst hb; exact hm
  | case2 buf hp => intro b hb; simp at hb
  | case3 buf n e he => intro b hb; simp at hb
  | case4 buf n m hm hn r ih => intro b hb; exact ih b hb
  | case5 buf n m hm hn => intro b hb; simp at hb

/-- draining a buffer and then the rest = draining everything at once, as far as events go -/
theorem drain_append {dec : HypDec} (p : Profile) (c : Codec) (buf : Bytes) :
    ∀ x : Bytes,
      (∀ b, (drain dec p c buf).2 = some b →
        evs (drain dec p c (buf ++ x)).1 = evs (drain dec p c buf).1 ++ evs (drain dec p c (b ++ x)).1) ∧
      ((drain dec p c buf).2 = none → evs (drain dec p c (buf ++ x)).1 = evs (drain dec p c buf).1) := by
  fun_induction drain dec p c buf with
  | case1 buf hm =>
    intro x
    constructor
    · intro b hb; simp at hb; subst hb; simp [evs, evOf]
    · intro h; simp at h
  | case2 buf hp =>
    intro x
    refine ⟨fun b hb => by simp at hb, fun _ => ?_⟩
    have hs := tryParse_append_stable (dec := dec) (p := p) (c := c) x (by rw [hp]; simp)
    rw [drain, hs, hp]
  | case3 buf n e he =>
    intro x
    refine ⟨fun b hb => by simp at hb, fun _ => ?_⟩
    have hs := tryParse_append_stable (dec := dec) (p := p) (c := c) x (by rw [he]; simp)
    rw [drain, hs, he]
    simp [evs, evOf]
  | case4 buf n m hm hn r ih =>
    intro x
    have hs := tryParse_append_stable (dec := dec) (p := p) (c := c) x (by rw [hm]; simp)
    have hn' : 0 < n ∧ n ≤ (buf ++ x).length := ⟨hn.1, by simp; omega⟩
    have hdrop : (buf ++ x).drop n = buf.drop n ++ x := List.drop_append_of_le_length hn.2
    obtain ⟨ih1, ih2⟩ := ih x
    constructor
    · intro b hb
      simp only at hb
      rw [drain, hs, hm]
      simp only [hn', and_self, if_true, hdrop]
      simp only [evs, List.filterMap_cons, evOf, List.cons_append]
      congr 1
      exact ih1 b hb
    · intro hb
      simp only at hb
      rw [drain, hs, hm]
      simp only [hn', and_self, if_true, hdrop]
      simp only [evs, List.filterMap_cons, evOf]
      congr 1
      exact ih2 hb
  | case5 buf n m hm hn =>
    obtain ⟨h1, h2, h3, h4, h5⟩ := tryParse_msg hm
    exact absurd ⟨by omega, h5⟩ hn

theorem bgpStream_events {dec : HypDec} (p : Profile) (c : Codec) :
    ∀ (chunks : List Bytes) (buf : Bytes), tryParse dec p c buf = .more →
      evs (bgpStream dec p c buf chunks) = evs (drain dec p c (buf ++ chunks.flatten)).1 := by
  intro chunks
  induction chunks with
  | nil =>
    intro buf hb
    simp only [bgpStream, List.flatten_nil, List.append_nil]
    rw [drain, hb]; simp [evs, evOf]
  | cons ch rest ih =>
    intro buf hb
    unfold bgpStream
    have hda := drain_append (dec := dec) p c (buf ++ ch) rest.flatten
    have hlo := drain_leftover (dec := dec) p c (buf ++ ch)
    cases hdr : drain dec p c (buf ++ ch) with
    | mk rs ob =>
      rw [hdr] at hda hlo
      cases ob with
      | some b =>
        simp only [List.flatten_cons, ← List.append_assoc]
        rw [hda.1 b rfl]
        simp only [evs, List.filterMap_append]
        congr 1
        exact ih b (hlo b rfl)
      | none =>
        simp only [List.flatten_cons, ← List.append_assoc]
        rw [hda.2 rfl]

theorem tryParse_nil {dec : HypDec} (p : Profile) (c : Codec) : tryParse dec p c [] = .more := by
  simp [tryParse, tryParseWith]

/-! ## RTR and BFD -/

def rsrecOf : RRec → SRec
  | .pdu n rem _ => .msg n rem
  | .more rem => .more rem
  | .err n rem => .err n rem
  | .panic => .panic
  | .stall => .stall

theorem take4_drop {l : Bytes} {i : Nat} (h : i + 3 < l.length) :
    (l.drop i).take 4 = [l[i], l[i+1], l[i+2], l[i+3]] := by
  rw [List.drop_eq_getElem_cons (by omega : i < l.length)]
  rw [List.drop_eq_getElem_cons (by omega : i + 1 < l.length)]
  rw [List.drop_eq_getElem_cons (by omega : i + 1 + 1 < l.length)]
  rw [List.drop_eq_getElem_cons (by omega : i + 1 + 1 + 1 < l.length)]
  rfl

theorem hdr_len_slice {src : Bytes} {length : Nat} (h8 : 8 ≤ length) :
    List.drop 4 (List.take 8 (List.take (length - 0) (List.drop 0 src))) = (src.drop 4).take 4 := by
  simp only [Nat.sub_zero, List.drop_zero, List.take_take, List.drop_take]
  have : min 8 length = 8 := by omega
  rw [this]

theorem rd32_declaredRtr {src : Bytes} {n : Nat} (h : rd32 src 4 = .ok n) : declaredRtr src = some n := by
  have hnp : (rd32 src 4).NP := by rw [h]; simp
  simp only [rd32_NP] at hnp
  simp only [rd32, rd8_ok (show 4 < src.length by omega), rd8_ok (show 4 + 1 < src.length by omega),
    rd8_ok (show 4 + 2 < src.length by omega), rd8_ok (show 4 + 3 < src.length by omega),
    Out.bind_ok, Out.pure_eq] at h
  injection h with h
  unfold declaredRtr
  simp only [List.getElem?_eq_getElem (show 4 < src.length by omega),
    List.getElem?_eq_getElem (show 5 < src.length by omega),
    List.getElem?_eq_getElem (show 6 < src.length by omega),
    List.getElem?_eq_getElem (show 7 < src.length by omega)]
  exact congrArg some h

/-- the length field that `Message::parse` re-reads from the PDU slice is the header's -/
theorem rtrParse_len {src : Bytes} {length : Nat} {pdu : Bytes} {m : RtrMsg} {len : Nat}
    (h8 : 8 ≤ length) (hs : slice src 0 length = .ok pdu) (hv : rd32 src 4 = .ok length)
    (h : rtrParse pdu = some (m, len)) : len = length := by
  obtain ⟨hpdu, _, hle⟩ := slice_ok hs
  have hnp : (rd32 src 4).NP := by rw [hv]; simp
  simp only [rd32_NP] at hnp
  unfold rtrParse at h
  split at h
  · cases h
  · rename_i hd body htk
    simp only at h
    split at h
    · cases h
    · simp only [Option.map_eq_some_iff, Prod.mk.injEq] at h
      obtain ⟨_, _, _, rfl⟩ := h
      obtain ⟨_, hh, _⟩ := takeN_some htk
      subst hh hpdu
      have hl : List.drop 4 (List.take 8 (List.take (length - 0) (List.drop 0 src))) =
          [src[4]'(by omega), src[4 + 1]'(by omega), src[4 + 2]'(by omega), src[4 + 3]'(by omega)] := by
        rw [hdr_len_slice h8, take4_drop (by omega)]
      rw [hl]
      simp only [rd32, rd8_ok (show 4 < src.length by omega), rd8_ok (show 4 + 1 < src.length by omega),
        rd8_ok (show 4 + 2 < src.length by omega), rd8_ok (show 4 + 3 < src.length by omega),
        Out.bind_ok, Out.pure_eq] at hv
      have hv := Out.ok.inj hv
      have hb : be [src[4]'(by omega), src[4 + 1]'(by omega), src[4 + 2]'(by omega), src[4 + 3]'(by omega)] =
          ((src[4] * 256 + src[4 + 1]) * 256 + src[4 + 2]) * 256 + src[4 + 3] := by
        simp [be, beVal]
      exact hb.trans hv

theorem rtrFrame_spec (src : Bytes) :
    ∃ r, rtrFrame src = .ok r ∧
      (r = .more → pduAvailable src = false) ∧
      (∀ l, r = .frame l → 8 ≤ l ∧ l ≤ src.length ∧ rd32 src 4 = .ok l) := by
  unfold rtrFrame
  split
  · rename_i hlt
    refine ⟨.more, rfl, (fun _ => ?_), (fun l h => by cases h)⟩
    unfold pduAvailable declaredRtr
    have : src[7]? = none := by simp; omega
    simp [this]
  · rename_i h8
    simp only [rd32, rd8_ok (show 0 < src.length by omega), rd8_ok (show 1 < src.length by omega),
      rd8_ok (show 4 < src.length by omega), rd8_ok (show 4 + 1 < src.length by omega),
      rd8_ok (show 4 + 2 < src.length by omega), rd8_ok (show 4 + 3 < src.length by omega),
      Out.bind_ok, Out.pure_eq]
    split
    · exact ⟨.err, rfl, (fun h => by cases h), (fun l h => by cases h)⟩
    · split
      · exact ⟨.err, rfl, (fun h => by cases h), (fun l h => by cases h)⟩
      · split
        · rename_i hgt
          refine ⟨.more, rfl, (fun _ => ?_), (fun l h => by cases h)⟩
          have hd : declaredRtr src = some (((src[4] * 256 + src[4 + 1]) * 256 + src[4 + 2]) * 256 + src[4 + 3]) := by
            apply rd32_declaredRtr
            simp only [rd32, rd8_ok (show 4 < src.length by omega), rd8_ok (show 4 + 1 < src.length by omega),
              rd8_ok (show 4 + 2 < src.length by omega), rd8_ok (show 4 + 3 < src.length by omega),
              Out.bind_ok, Out.pure_eq]
          unfold pduAvailable
          simp [hd]; omega
        · refine ⟨_, rfl, (fun h => by cases h), (fun l h => ?_)⟩
          injection h with h; subst h
          exact ⟨by omega, by omega, rfl⟩

/-- one `RtrCodec::decode` call: never a panic; a PDU consumes 8 ≤ n = declared length ≤ buffer bytes;
    "need more" only when the declared PDU is not yet buffered -/
theorem rtrDecode_spec (src : Bytes) :
    rtrDecode src ≠ .panic ∧
    (∀ m n, rtrDecode src = .pdu m n → 8 ≤ n ∧ n ≤ src.length ∧ declaredRtr src = some n) ∧
    (rtrDecode src = .more → pduAvailable src = false) := by
  obtain ⟨r, hr, hmore, hframe⟩ := rtrFrame_spec src
  unfold rtrDecode
  rw [hr]
  cases r with
  | more => exact ⟨by simp, ⟨(fun m n h => by cases h), (fun _ => hmore rfl)⟩⟩
  | err => exact ⟨by simp, ⟨(fun m n h => by cases h), (fun h => by cases h)⟩⟩
  | frame length =>
    obtain ⟨h8, hle, hv⟩ := hframe length rfl
    simp only
    have hsl : (slice src 0 length).NP := by simp; omega
    cases hs : slice src 0 length with
    | panic => simp [hs] at hsl
    | err e => simp [slice] at hs; split at hs <;> cases hs
    | ok pdu =>
      simp only
      cases hp : rtrParse pdu with
      | none => exact ⟨by simp, ⟨(fun m n h => by cases h), (fun h => by cases h)⟩⟩
      | some r =>
        obtain ⟨m, len⟩ := r
        have hlen := rtrParse_len h8 hs hv hp
        subst hlen
        simp only [if_pos hle]
        refine ⟨by simp, ⟨(fun m' n' h => ?_), (fun h => by cases h)⟩⟩
        injection h with _ h2; subst h2
        exact ⟨h8, hle, rd32_declaredRtr hv⟩

def afterMoreRtr (i : Nat) (b : Bytes) (rest : List Bytes) (K : List SRec) : Verdict :=
  match rest with
  | [] => if K.isEmpty then .ok else .fail (i + 1) "records-after-the-last-chunk"
  | ch :: rest' => checkRtr (i + 1) (b ++ ch) rest' K

theorem rtrDrain_check (buf : Bytes) :
    ∀ (i : Nat) (rest : List Bytes) (K : List SRec),
      (∀ b, (rtrDrain buf).2 = some b →
        ∃ i', checkRtr i buf rest ((rtrDrain buf).1.map rsrecOf ++ K) = afterMoreRtr i' b rest K) ∧
      ((rtrDrain buf).2 = none → checkRtr i buf rest ((rtrDrain buf).1.map rsrecOf) = .ok) := by
  fun_induction rtrDrain buf with
  | case1 buf hm =>
    intro i rest K
    constructor
    · intro b hb
      simp only at hb
      injection hb with hb; subst hb
      refine ⟨i, ?_⟩
      simp only [List.map_cons, List.map_nil, rsrecOf, List.cons_append, List.nil_append]
      unfold checkRtr
      simp only [(rtrDecode_spec buf).2.2 hm, Bool.false_eq_true, if_false, ne_eq, not_true_eq_false]
      cases rest <;> rfl
    · intro h; simp at h
  | case2 buf he =>
    intro i rest K
    constructor
    · intro b hb; simp at hb
    · intro _
      simp only [List.map_cons, List.map_nil, rsrecOf]
      unfold checkRtr
      simp
  | case3 buf hp => exact absurd hp (rtrDecode_spec buf).1
  | case4 buf m n hm hn r ih =>
    intro i rest K
    obtain ⟨h8, hle, hdecl⟩ := (rtrDecode_spec buf).2.1 m n hm
    obtain ⟨ih1, ih2⟩ := ih (i + 1) rest K
    have c1 : ¬ n < 8 := by omega
    have c2 : ¬ (n > buf.length ∨ buf.length - n ≠ buf.length - n) := by omega
    have c3 : ¬ (declaredRtr buf ≠ some n) := by simp [hdecl]
    constructor
    · intro b hb
      simp only at hb
      obtain ⟨i', hi'⟩ := ih1 b hb
      refine ⟨i', ?_⟩
      simp only [List.map_cons, rsrecOf, List.cons_append]
      rw [checkRtr]
      simp only [c1, c2, c3, if_false]
      exact hi'
    · intro hb
      simp only at hb
      simp only [List.map_cons, rsrecOf]
      rw [checkRtr]
      simp only [c1, c2, c3, if_false]
      exact ih2 hb
  | case5 buf m n hm hn =>
    obtain ⟨h8, hle, _⟩ := (rtrDecode_spec buf).2.1 m n hm
    exact absurd ⟨by omega, hle⟩ hn

theorem rtrStream_check :
    ∀ (rest : List Bytes) (buf0 ch : Bytes) (i : Nat),
      checkRtr i (buf0 ++ ch) rest ((rtrStream buf0 (ch :: rest)).map rsrecOf) = .ok := by
  intro rest
  induction rest with
  | nil =>
    intro buf0 ch i
    unfold rtrStream
    have hdc := rtrDrain_check (buf0 ++ ch) i [] []
    cases hdr : rtrDrain (buf0 ++ ch) with
    | mk rs ob =>
      rw [hdr] at hdc
      cases ob with
      | some b =>
        obtain ⟨i', hi'⟩ := hdc.1 b rfl
        simp only [rtrStream, List.append_nil] at hi' ⊢
        rw [hi']; rfl
      | none => exact hdc.2 rfl
  | cons ch' rest' ih =>
    intro buf0 ch i
    unfold rtrStream
    cases hdr : rtrDrain (buf0 ++ ch) with
    | mk rs ob =>
      cases ob with
      | some b =>
        have hdc := rtrDrain_check (buf0 ++ ch) i (ch' :: rest') ((rtrStream b (ch' :: rest')).map rsrecOf)
        rw [hdr] at hdc
        obtain ⟨i', hi'⟩ := hdc.1 b rfl
        simp only [List.map_append] at hi' ⊢
        rw [hi']
        exact ih b ch' (i' + 1)
      | none =>
        have hdc := rtrDrain_check (buf0 ++ ch) i (ch' :: rest') []
        rw [hdr] at hdc
        exact hdc.2 rfl

/-- master theorem (RTR) -/
theorem check_rtr_ok (chunks : List Bytes) :
    checkRtrCase chunks ((rtrStream [] chunks).map rsrecOf) = .ok := by
  unfold checkRtrCase
  cases chunks with
  | nil => simp [rtrStream]
  | cons ch rest =>
    have := rtrStream_check rest [] ch 0
    simpa using this

/-! ### BFD -/

def bobsOf : Out (Except BfdErr BfdMsg) → BObs
  | .ok (.ok _) => .decoded
  | .ok (.error _) => .rejected
  | _ => .panic

theorem bfdDecode_spec (b : Bytes) :
    ∃ r, bfdDecode b = .ok r ∧ (∀ m, r = .ok m → 24 ≤ b.length ∧ b[3]? = some b.length) := by
  unfold bfdDecode
  split
  · exact ⟨_, rfl, (fun m h => by cases h)⟩
  · rename_i h24
    have h3 : 3 < b.length := by omega
    simp only [rd8_ok h3, Out.bind_ok]
    split
    · exact ⟨_, rfl, (fun m h => by cases h)⟩
    · rename_i hlen
      simp only [rd8_ok (show 0 < b.length by omega), Out.bind_ok]
      split
      · exact ⟨_, rfl, (fun m h => by cases h)⟩
      · try simp only
        split
        · exact ⟨_, rfl, (fun m h => by cases h)⟩
        · simp only [rd8_ok (show 1 < b.length by omega), Out.bind_ok]
          split
          · exact ⟨_, rfl, (fun m h => by cases h)⟩
          · simp only [rd8_ok (show 2 < b.length by omega), Out.bind_ok]
            have hsl : (slice b 4 b.length).NP := by simp; omega
            cases hs : slice b 4 b.length with
            | panic => simp [hs] at hsl
            | err e => simp [slice] at hs; split at hs <;> cases hs
            | ok body =>
              simp only [Out.bind_ok]
              split
              · exact ⟨_, rfl, (fun m h => by cases h)⟩
              · refine ⟨_, rfl, (fun m _ => ⟨by omega, ?_⟩)⟩
                rw [List.getElem?_eq_getElem h3]
                have : b.length = b[3] := by omega
                exact congrArg some this.symm

/-- master theorem (BFD) -/
theorem check_bfd_ok (b : Bytes) : checkBfd b (bobsOf (bfdDecode b)) = .ok := by
  obtain ⟨r, hr, hs⟩ := bfdDecode_spec b
  rw [hr]
  cases r with
  | error e => simp [bobsOf, checkBfd]
  | ok m =>
    obtain ⟨h1, h2⟩ := hs m rfl
    simp [bobsOf, checkBfd, h1, h2]

end Rbgp.Wire
