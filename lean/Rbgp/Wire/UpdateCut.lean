/-
  Rbgp.Wire.UpdateCut — C05: what the model does with a rendered case, part 3: truncation of the attribute block
  (which items stay, which is cut) against the walk of the reference checker.
-/
import Rbgp.Wire.UpdateLoop
set_option linter.unusedSimpArgs false
set_option linter.unusedVariables false
namespace Rbgp.Wire
open USpec

/-! ## truncation: which items stay, which one is cut -/

/-- over the items in REVERSE wire order: (removed, cut item with the number of its bytes that stay, kept) -/
def cutRev : List WItem → Nat → List WItem × Option (WItem × Nat) × List WItem
  | [], _ => ([], none, [])
  | w :: rest, k =>
      if k = 0 then ([], none, w :: rest)
      else if k ≥ (renderItem w).length then
        let r := cutRev rest (k - (renderItem w).length)
        (w :: r.1, r.2.1, r.2.2)
      else ([], some (w, (renderItem w).length - k), rest)

def cutBytesOf : Option (WItem × Nat) → Bytes
  | none => []
  | some (w, m) => (renderItem w).take m

theorem cutRev_bytes : ∀ (r : List WItem) (k : Nat),
    ((r.reverse.flatMap renderItem).take ((r.reverse.flatMap renderItem).length - k)) =
      (cutRev r k).2.2.reverse.flatMap renderItem ++ cutBytesOf (cutRev r k).2.1 := by
  intro r
  induction r with
  | nil => intro k; simp [cutRev, cutBytesOf]
  | cons w rest ih =>
    intro k
    unfold cutRev
    by_cases h0 : k = 0
    · subst h0
      simp only [if_true, cutBytesOf, List.append_nil, Nat.sub_zero, List.take_length]
    · rw [if_neg h0]
      simp only [List.reverse_cons, List.flatMap_append, List.flatMap_cons, List.flatMap_nil, List.append_nil,
        List.length_append]
      by_cases hge : k ≥ (renderItem w).length
      · rw [if_pos hge]
        simp only
        rw [← ih (k - (renderItem w).length)]
        have e : (rest.reverse.flatMap renderItem).length + (renderItem w).length - k =
            (rest.reverse.flatMap renderItem).length - (k - (renderItem w).length) := by omega
        rw [e, List.take_append_of_le_length (by omega)]
      · rw [if_neg hge]
        simp only [cutBytesOf]
        have e : (rest.reverse.flatMap renderItem).length + (renderItem w).length - k =
            (rest.reverse.flatMap renderItem).length + ((renderItem w).length - k) := by omega
        rw [e, List.take_append, List.take_of_length_le (by omega)]
        have e2 : (rest.reverse.flatMap renderItem).length + ((renderItem w).length - k) -
            (rest.reverse.flatMap renderItem).length = (renderItem w).length - k := by omega
        rw [e2]

/-- the structure of the split and what the checker's walk collects -/
theorem cutRev_spec (two ann leg : Bool) : ∀ (r : List WItem) (k : Nat),
    r = (cutRev r k).1 ++ (match (cutRev r k).2.1 with | some (w, _) => [w] | none => []) ++ (cutRev r k).2.2 ∧
    (∀ w ∈ (cutRev r k).2.2, ∀ x ∈ itemCls two w, x ∈ truncCls (r.map (sItemOf two ann leg)) k) ∧
    (∀ w ∈ (cutRev r k).1, (sItemOf two ann leg w).gone ∈ truncCls (r.map (sItemOf two ann leg)) k) ∧
    (∀ wc m, (cutRev r k).2.1 = some (wc, m) →
      0 < m ∧ m < (renderItem wc).length ∧
      (Cls.weak ∈ itemCls two wc → Cls.weak ∈ truncCls (r.map (sItemOf two ann leg)) k) ∧
      (if isMp wc.code then Cls.weak
       else match attrClass wc.code with
         | some _ => malformedCls wc.code
         | none => if wc.flags / 128 % 2 == 1 && wc.flags / 64 % 2 == 0 then Cls.discardOrTaw wc.code else Cls.taw)
        ∈ truncCls (r.map (sItemOf two ann leg)) k) := by
  intro r
  induction r with
  | nil => intro k; simp [cutRev]
  | cons w rest ih =>
    intro k
    unfold cutRev
    by_cases h0 : k = 0
    · subst h0
      simp only [if_true, List.nil_append, List.map_cons, truncCls]
      refine ⟨by simp, ?_, by simp, by simp⟩
      intro x hx c hc
      simp only [List.flatMap_cons, List.mem_append, List.mem_flatMap, List.mem_map]
      simp only [List.mem_cons] at hx
      rcases hx with rfl | hx
      · exact Or.inl (by simpa [sItemOf] using hc)
      · exact Or.inr ⟨sItemOf two ann leg x, ⟨x, hx, rfl⟩, by simpa [sItemOf] using hc⟩
    · rw [if_neg h0]
      have hsz : (sItemOf two ann leg w).size = (renderItem w).length := rfl
      by_cases hge : k ≥ (renderItem w).length
      · rw [if_pos hge]
        obtain ⟨i1, i2, i3, i4⟩ := ih (k - (renderItem w).length)
        simp only [List.map_cons]
        have htc : truncCls (sItemOf two ann leg w :: rest.map (sItemOf two ann leg)) k =
            (sItemOf two ann leg w).gone :: truncCls (rest.map (sItemOf two ann leg)) (k - (renderItem w).length) := by
          rw [truncCls, if_neg h0, hsz, if_pos hge]
        rw [htc]
        refine ⟨?_, ?_, ?_, ?_⟩
        · simp only [List.cons_append]
          congr 1
        · intro x hx c hc; exact List.mem_cons_of_mem _ (i2 x hx c hc)
        · intro x hx
          simp only [List.mem_cons] at hx
          rcases hx with rfl | hx
          · exact List.mem_cons_self ..
          · exact List.mem_cons_of_mem _ (i3 x hx)
        · intro wc m hcut
          obtain ⟨a, b, c, d⟩ := i4 wc m hcut
          exact ⟨a, b, fun h => List.mem_cons_of_mem _ (c h), List.mem_cons_of_mem _ d⟩
      · rw [if_neg hge]
        simp only [List.map_cons]
        have htc : truncCls (sItemOf two ann leg w :: rest.map (sItemOf two ann leg)) k =
            (if (sItemOf two ann leg w).cls.contains Cls.weak then [Cls.weak] else []) ++
            [if isMp w.code then Cls.weak
             else match attrClass w.code with
               | some _ => malformedCls w.code
               | none => if w.flags / 128 % 2 == 1 && w.flags / 64 % 2 == 0 then Cls.discardOrTaw w.code else Cls.taw]
              ++ (rest.map (sItemOf two ann leg)).flatMap (·.cls) := by
          rw [truncCls, if_neg h0, hsz, if_neg hge]
          rfl
        rw [htc]
        refine ⟨by simp, ?_, by simp, ?_⟩
        · intro x hx c hc
          simp only [List.mem_append, List.mem_flatMap, List.mem_map]
          exact Or.inr ⟨sItemOf two ann leg x, ⟨x, hx, rfl⟩, by simpa [sItemOf] using hc⟩
        · intro wc m hcut
          simp only [Option.some.injEq, Prod.mk.injEq] at hcut
          obtain ⟨rfl, rfl⟩ := hcut
          refine ⟨by omega, by omega, ?_, ?_⟩
          · intro hw
            have : (sItemOf two ann leg w).cls.contains Cls.weak = true := by
              simpa [sItemOf] using hw
            rw [if_pos this]
            simp
          · simp

end Rbgp.Wire
