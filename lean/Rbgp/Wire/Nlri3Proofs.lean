/-
  Rbgp.Wire.Nlri3Proofs — C03 phase 2, continued: the transcribed EVPN and flowspec NLRI decoders never panic and
  every decoded entry consumes at least one byte of the field.
-/
import Rbgp.Wire.Nlri3
import Rbgp.Wire.Nlri2Proofs
namespace Rbgp.Wire

/-- a reader is safe: no panic, and it never returns more bytes than it was given -/
def Rd.Safe {α} (f : Rd α) : Prop :=
  ∀ bs, (f bs).NP ∧ ∀ a r, f bs = .ok (a, r) → r.length ≤ bs.length

theorem Rd.Safe.pure {α} (a : α) : (Pure.pure a : Rd α).Safe := by
  intro bs
  refine ⟨by simp [Pure.pure, Rd.pure], ?_⟩
  intro a' r h
  simp only [Pure.pure, Rd.pure] at h
  injection h with h; injection h with _ h; subst h; exact Nat.le_refl _

theorem Rd.Safe.fail {α} : (Rd.fail : Rd α).Safe := by
  intro bs; simp [Rd.fail]

theorem Rd.Safe.bind {α β} {f : Rd α} {g : α → Rd β} (hf : f.Safe) (hg : ∀ a, (g a).Safe) : (f >>= g).Safe := by
  intro bs
  simp only [Bind.bind, Rd.bind]
  obtain ⟨h1, h2⟩ := hf bs
  cases hfb : f bs with
  | panic => rw [hfb] at h1; exact absurd h1 (by simp)
  | err e => simp
  | ok v =>
    obtain ⟨a, r⟩ := v
    simp only
    obtain ⟨g1, g2⟩ := hg a r
    refine ⟨g1, ?_⟩
    intro b r' h
    have := g2 b r' h
    have := h2 a r hfb
    omega

theorem Rd.Safe.ite {α} {c : Prop} [Decidable c] {t e : Rd α} (ht : t.Safe) (he : e.Safe) :
    (if c then t else e).Safe := by
  split
  · exact ht
  · exact he

theorem Rd.Safe.u8 : Rd.u8.Safe := by
  intro bs
  unfold Rd.u8
  split
  · simp
  · refine ⟨by simp, ?_⟩
    intro a r h
    injection h with h; injection h with _ h; subst h; simp

theorem Rd.u8_lt {bs : Bytes} {a : Nat} {r : Bytes} (h : Rd.u8 bs = .ok (a, r)) : r.length < bs.length := by
  unfold Rd.u8 at h
  split at h
  · cases h
  · injection h with h; injection h with _ h; subst h; simp

theorem Rd.Safe.take (n : Nat) : (Rd.take n).Safe := by
  intro bs
  unfold Rd.take
  split
  · simp
  · refine ⟨by simp, ?_⟩
    intro a r h
    injection h with h; injection h with _ h; subst h; simp

theorem Rd.Safe.rd : Rd.rd.Safe := by
  intro bs
  obtain ⟨h1, h2⟩ := rdOf_spec bs
  exact ⟨h1, fun a r h => h2 a r h⟩

/-- discharge `Safe` goals of straight-line readers -/
macro "rd_safe" : tactic =>
  `(tactic| repeat (first
      | exact Rd.Safe.u8 | exact Rd.Safe.rd | exact Rd.Safe.take _ | exact Rd.Safe.fail | exact Rd.Safe.pure _
      | apply Rd.Safe.bind | apply Rd.Safe.ite | intro _))

/-! ## EVPN -/

theorem evpnIp_safe (l : Nat) (b : Bool) : (evpnIp l b).Safe := by unfold evpnIp; rd_safe
theorem evpnT1_safe (l : Nat) : (evpnT1 l).Safe := by unfold evpnT1; rd_safe
theorem evpnT2_safe (l : Nat) : (evpnT2 l).Safe := by
  unfold evpnT2
  apply Rd.Safe.ite Rd.Safe.fail
  apply Rd.Safe.bind Rd.Safe.rd; intro _
  apply Rd.Safe.bind (Rd.Safe.take _); intro _
  apply Rd.Safe.bind (Rd.Safe.take _); intro _
  apply Rd.Safe.bind Rd.Safe.u8; intro _
  apply Rd.Safe.ite Rd.Safe.fail
  apply Rd.Safe.bind (Rd.Safe.take _); intro _
  apply Rd.Safe.bind Rd.Safe.u8; intro _
  apply Rd.Safe.bind (evpnIp_safe _ _); intro _
  apply Rd.Safe.bind (Rd.Safe.take _); intro _
  rd_safe
theorem evpnT3_safe (l : Nat) : (evpnT3 l).Safe := by
  unfold evpnT3
  apply Rd.Safe.ite Rd.Safe.fail
  apply Rd.Safe.bind Rd.Safe.rd; intro _
  apply Rd.Safe.bind (Rd.Safe.take _); intro _
  apply Rd.Safe.bind Rd.Safe.u8; intro _
  apply Rd.Safe.bind (evpnIp_safe _ _); intro _
  rd_safe
theorem evpnT4_safe (l : Nat) : (evpnT4 l).Safe := by
  unfold evpnT4
  apply Rd.Safe.ite Rd.Safe.fail
  apply Rd.Safe.bind Rd.Safe.rd; intro _
  apply Rd.Safe.bind (Rd.Safe.take _); intro _
  apply Rd.Safe.bind Rd.Safe.u8; intro _
  apply Rd.Safe.bind (evpnIp_safe _ _); intro _
  rd_safe
theorem evpnT5_safe (l : Nat) : (evpnT5 l).Safe := by unfold evpnT5; rd_safe

theorem evpnBody_safe (t l : Nat) : (evpnBody t l).Safe := by
  unfold evpnBody
  apply Rd.Safe.ite (evpnT1_safe _)
  apply Rd.Safe.ite (evpnT2_safe _)
  apply Rd.Safe.ite (evpnT3_safe _)
  apply Rd.Safe.ite (evpnT4_safe _)
  apply Rd.Safe.ite (evpnT5_safe _)
  exact Rd.Safe.fail

/-- a reader that starts with `read_u8` turned into an entry decoder is safe in the sense of the list loop -/
theorem oneOfRd_u8_safe {g : Nat → Rd (Nat × Bytes)} (hg : ∀ a, (g a).Safe) :
    One.Safe (fun bs _ => oneOfRd (Rd.u8 >>= g) bs) := by
  intro bs len
  simp only [oneOfRd, Bind.bind, Rd.bind]
  cases hu : Rd.u8 bs with
  | panic => have := (Rd.Safe.u8 bs).1; rw [hu] at this; exact absurd this (by simp)
  | err e => simp
  | ok v =>
    obtain ⟨a, r1⟩ := v
    simp only
    have hlt := Rd.u8_lt hu
    obtain ⟨g1, g2⟩ := hg a r1
    cases hgr : g a r1 with
    | panic => rw [hgr] at g1; exact absurd g1 (by simp)
    | err e => simp
    | ok w =>
      obtain ⟨⟨m, c⟩, r⟩ := w
      simp only
      refine ⟨by simp, ?_⟩
      intro m' c' r' h
      injection h with h; injection h with _ h; injection h with _ h
      subst h
      have := g2 (m, c) r hgr
      omega

theorem evpnOne_safe : One.Safe (fun bs _ => evpnOne bs) := by
  unfold evpnOne evpnRd
  apply oneOfRd_u8_safe
  intro t
  apply Rd.Safe.bind Rd.Safe.u8; intro l
  apply Rd.Safe.bind (evpnBody_safe _ _); intro _
  exact Rd.Safe.pure _

/-! ## flowspec -/

theorem fsOp_spec (bs : Bytes) : (fsOp bs).NP ∧ ∀ a r, fsOp bs = .ok (a, r) → r.length < bs.length := by
  unfold fsOp
  simp only [Bind.bind, Rd.bind]
  cases hu : Rd.u8 bs with
  | panic => have := (Rd.Safe.u8 bs).1; rw [hu] at this; exact absurd this (by simp)
  | err e => simp
  | ok v =>
    obtain ⟨raw, r1⟩ := v
    simp only
    have hlt := Rd.u8_lt hu
    obtain ⟨t1, t2⟩ := Rd.Safe.take (2 ^ (raw / 16 % 4)) r1
    cases ht : Rd.take (2 ^ (raw / 16 % 4)) r1 with
    | panic => rw [ht] at t1; exact absurd t1 (by simp)
    | err e => simp
    | ok w =>
      obtain ⟨v, r2⟩ := w
      simp only [Pure.pure, Rd.pure]
      refine ⟨by simp, ?_⟩
      intro a r h
      injection h with h; injection h with _ h; subst h
      have := t2 v r2 ht
      omega

theorem fsOps_spec : ∀ fuel (acc : List (Nat × Nat)) (bs : Bytes), bs.length < fuel →
    (fsOps fuel acc bs).NP ∧ ∀ a r, fsOps fuel acc bs = .ok (a, r) → r.length ≤ bs.length := by
  intro fuel
  induction fuel with
  | zero => intro acc bs h; omega
  | succ fuel ih =>
    intro acc bs hf
    unfold fsOps
    simp only [Bind.bind, Rd.bind]
    obtain ⟨o1, o2⟩ := fsOp_spec bs
    cases ho : fsOp bs with
    | panic => rw [ho] at o1; exact absurd o1 (by simp)
    | err e => simp
    | ok v =>
      obtain ⟨op, r1⟩ := v
      simp only
      have hlt := o2 op r1 ho
      split
      · simp only [Pure.pure, Rd.pure]
        refine ⟨by simp, ?_⟩
        intro a r h
        injection h with h; injection h with _ h; subst h; omega
      · obtain ⟨i1, i2⟩ := ih (op :: acc) r1 (by omega)
        refine ⟨i1, ?_⟩
        intro a r h
        have := i2 a r h
        omega

theorem fsOpsRd_safe : fsOpsRd.Safe := by
  intro bs
  exact fsOps_spec (bs.length + 1) [] bs (by omega)

theorem fsPrefix_safe (v6 : Bool) : (fsPrefix v6).Safe := by
  unfold fsPrefix
  apply Rd.Safe.bind Rd.Safe.u8; intro _
  apply Rd.Safe.ite Rd.Safe.fail
  apply Rd.Safe.bind
  · apply Rd.Safe.ite (Rd.Safe.take _) (Rd.Safe.pure _)
  intro _
  rd_safe

theorem fsComp_spec (v6 : Bool) (bs : Bytes) :
    (fsComp v6 bs).NP ∧ ∀ a r, fsComp v6 bs = .ok (a, r) → r.length < bs.length := by
  have hg : ∀ t : Nat, (if t = 1 ∨ t = 2 then (do let p ← fsPrefix v6; pure ([t] ++ p) : Rd Bytes)
      else if 3 ≤ t ∧ (t ≤ 12 ∨ (t = 13 ∧ v6 = true)) then
        (do let ops ← fsOpsRd
            pure ([t] ++ ops.flatMap opBytes))
      else Rd.fail).Safe := by
    intro t
    apply Rd.Safe.ite
    · apply Rd.Safe.bind (fsPrefix_safe _); intro _; exact Rd.Safe.pure _
    · apply Rd.Safe.ite
      · apply Rd.Safe.bind fsOpsRd_safe; intro _; exact Rd.Safe.pure _
      · exact Rd.Safe.fail
  unfold fsComp
  simp only [Bind.bind, Rd.bind]
  cases hu : Rd.u8 bs with
  | panic => have := (Rd.Safe.u8 bs).1; rw [hu] at this; exact absurd this (by simp)
  | err e => simp
  | ok v =>
    obtain ⟨t, r1⟩ := v
    simp only
    have hlt := Rd.u8_lt hu
    obtain ⟨g1, g2⟩ := hg t r1
    simp only [Bind.bind] at g1 g2
    refine ⟨g1, ?_⟩
    intro a r h
    have := g2 a r h
    omega

theorem fsComps_NP (v6 : Bool) : ∀ fuel (bs : Bytes) (acc : List Bytes), bs.length < fuel →
    (fsComps v6 fuel bs acc).NP := by
  intro fuel
  induction fuel with
  | zero => intro bs acc h; omega
  | succ fuel ih =>
    intro bs acc hf
    match bs with
    | [] => simp [fsComps]
    | b :: bs' =>
      simp only [fsComps]
      obtain ⟨c1, c2⟩ := fsComp_spec v6 (b :: bs')
      cases hc : fsComp v6 (b :: bs') with
      | panic => rw [hc] at c1; exact absurd c1 (by simp)
      | err e => simp
      | ok v =>
        obtain ⟨c, r⟩ := v
        simp only
        apply ih
        have := c2 c r hc
        omega

theorem fsLen_spec (bs : Bytes) : (fsLen bs).NP ∧ ∀ a r, fsLen bs = .ok (a, r) → r.length < bs.length := by
  unfold fsLen
  simp only [Bind.bind, Rd.bind]
  cases hu : Rd.u8 bs with
  | panic => have := (Rd.Safe.u8 bs).1; rw [hu] at this; exact absurd this (by simp)
  | err e => simp
  | ok v =>
    obtain ⟨first, r1⟩ := v
    simp only
    have hlt := Rd.u8_lt hu
    split
    · simp only [Pure.pure, Rd.pure]
      refine ⟨by simp, ?_⟩
      intro a r h
      injection h with h; injection h with _ h; subst h; exact hlt
    · cases hu2 : Rd.u8 r1 with
      | panic => have := (Rd.Safe.u8 r1).1; rw [hu2] at this; exact absurd this (by simp)
      | err e => simp [Rd.bind, hu2]
      | ok w =>
        obtain ⟨second, r2⟩ := w
        simp only [Rd.bind, hu2, Pure.pure, Rd.pure]
        have := Rd.u8_lt hu2
        refine ⟨by simp, ?_⟩
        intro a r h
        injection h with h; injection h with _ h; subst h; omega

theorem fsOne_safe (v6 vpn : Bool) : One.Safe (fsOne v6 vpn) := by
  intro bs len
  unfold fsOne
  split
  · simp
  · obtain ⟨l1, l2⟩ := fsLen_spec bs
    cases hl : fsLen bs with
    | panic => rw [hl] at l1; exact absurd l1 (by simp)
    | err e => simp
    | ok v =>
      obtain ⟨⟨nlriLen, hdr⟩, r1⟩ := v
      have hlt := l2 _ r1 hl
      simp only
      split
      · simp
      · split
        · simp
        · split
          · -- VPN: route distinguisher first
            obtain ⟨d1, d2⟩ := rdOf_spec (r1.take nlriLen)
            cases hrd : rdOf (r1.take nlriLen) with
            | panic => rw [hrd] at d1; exact absurd d1 (by simp)
            | err e => simp
            | ok w =>
              obtain ⟨rd, buf1⟩ := w
              simp only
              have hnp := fsComps_NP v6 (buf1.length + 1) buf1 [] (by omega)
              cases hc : fsComps v6 (buf1.length + 1) buf1 [] with
              | panic => rw [hc] at hnp; exact absurd hnp (by simp)
              | err e => simp
              | ok cs =>
                simp only
                refine ⟨by simp, ?_⟩
                intro m c r h
                injection h with h; injection h with _ h; injection h with _ h
                subst h; simp; omega
          · have hnp := fsComps_NP v6 ((r1.take nlriLen).length + 1) (r1.take nlriLen) [] (by omega)
            cases hc : fsComps v6 ((r1.take nlriLen).length + 1) (r1.take nlriLen) [] with
            | panic => rw [hc] at hnp; exact absurd hnp (by simp)
            | err e => simp
            | ok cs =>
              simp only
              refine ⟨by simp, ?_⟩
              intro m c r h
              injection h with h; injection h with _ h; injection h with _ h
              subst h; simp; omega

theorem oneOf3_safe (fam : Nat) {one : Bytes → Nat → One} (h : oneOf3 fam = some one) : One.Safe one := by
  unfold oneOf3 at h
  split at h
  · injection h with h; subst h; exact evpnOne_safe
  split at h
  · injection h with h; subst h; exact fsOne_safe _ _
  split at h
  · injection h with h; subst h; exact fsOne_safe _ _
  split at h
  · injection h with h; subst h; exact fsOne_safe _ _
  split at h
  · injection h with h; subst h; exact fsOne_safe _ _
  · cases h

theorem decE_NP {rest : HypDec} (hr : rest.NP) : (decE rest).NP := by
  intro fam ap r bs
  unfold decE
  split
  · rename_i one ho
    exact nlriLoop2_NP (oneOf3_safe fam ho) ap _ _ _ (by omega)
  · exact hr _ _ _ _

/-- VPN, labeled, RTC, SR policy, EVPN and flowspec decoders never panic; `rest` = MUP and BGP-LS -/
theorem decP3_NP (p : Profile) {rest : HypDec} (hr : rest.NP) : (decP3 p rest).NP :=
  decP2_NP p (decE_NP hr)

end Rbgp.Wire
