/-
  Rbgp.Wire.UpdateRender — C05: what the model does with a rendered case, part 1: frame layout, NLRI round trip,
  the obligations that hold whatever the attribute block contains.
-/
import Rbgp.Wire.UpdateProofs
set_option linter.unusedSimpArgs false
set_option linter.unusedVariables false
namespace Rbgp.Wire
open USpec

/-! ## reading from a buffer given what it looks like from a position on -/

theorem rd8_of_drop {b : Bytes} {i x : Nat} {r : Bytes} (h : b.drop i = x :: r) : rd8 b i = .ok x := by
  have : b[i]? = some x := by
    have := congrArg (fun l => l[0]?) h
    simpa using this
  simp [rd8, this]

theorem rd16_of_drop {b : Bytes} {i x y : Nat} {r : Bytes} (h : b.drop i = x :: y :: r) :
    rd16 b i = .ok (x * 256 + y) := by
  have h1 : b.drop (i + 1) = y :: r := by
    have := congrArg (List.drop 1) h
    simpa [List.drop_drop, Nat.add_comm] using this
  simp [rd16, rd8_of_drop h, rd8_of_drop h1]

theorem be16_val {n : Nat} (h : n < 65536) : n / 256 % 256 * 256 + n % 256 = n := by omega

theorem rd16_be16 {b : Bytes} {i n : Nat} {r : Bytes} (hn : n < 65536) (h : b.drop i = be16Bytes n ++ r) :
    rd16 b i = .ok n := by
  have := rd16_of_drop (b := b) (i := i) (x := n / 256 % 256) (y := n % 256) (r := r) (by simpa [be16Bytes] using h)
  rw [this, be16_val hn]

theorem slice_of_drop {b : Bytes} {s e : Nat} (h1 : s ≤ e) (h2 : e ≤ b.length) :
    slice b s e = .ok ((b.drop s).take (e - s)) := by
  simp [slice, h1, h2]

theorem drop_app {α} (a b : List α) (n : Nat) (h : n = a.length) : (a ++ b).drop n = b := by
  subst h; simp

/-! ## the layout of a rendered frame -/

def wdB (c : Codec) (u : CUpdate) : Bytes := pfxsBytes (c.ap FAM_IPV4) u.wd
def totalLen (c : Codec) (u : CUpdate) (cs : List Corr) : Nat :=
  23 + (wdB c u).length + (blockBytes c u cs).length + (legacyNlriBytes c u cs).length

theorem render_eq (c : Codec) (u : CUpdate) (cs : List Corr) :
    render c u cs = List.replicate 16 255 ++ (be16Bytes (totalLen c u cs) ++ ([2] ++ (be16Bytes (wdB c u).length ++
      (wdB c u ++ (be16Bytes (blockBytes c u cs).length ++ (blockBytes c u cs ++ legacyNlriBytes c u cs)))))) := by
  simp [render, totalLen, wdB, List.append_assoc]

theorem render_length (c : Codec) (u : CUpdate) (cs : List Corr) : (render c u cs).length = totalLen c u cs := by
  rw [render_eq]
  simp [be16Bytes, totalLen]
  omega

structure LayoutG (buf T Wl W Al Bk N : Bytes) : Prop where
  d16 : buf.drop 16 = T ++ ([2] ++ (Wl ++ (W ++ (Al ++ (Bk ++ N)))))
  d18 : buf.drop 18 = 2 :: (Wl ++ (W ++ (Al ++ (Bk ++ N))))
  d19 : buf.drop 19 = Wl ++ (W ++ (Al ++ (Bk ++ N)))
  d21 : buf.drop 21 = W ++ (Al ++ (Bk ++ N))
  dAl : buf.drop (21 + W.length) = Al ++ (Bk ++ N)
  dBlk : buf.drop (23 + W.length) = Bk ++ N
  dNl : buf.drop (23 + W.length + Bk.length) = N

theorem layoutG_of_eq {buf R T Wl W Al Bk N : Bytes}
    (e : buf = R ++ (T ++ ([2] ++ (Wl ++ (W ++ (Al ++ (Bk ++ N)))))))
    (hR : R.length = 16) (hT : T.length = 2) (hWl : Wl.length = 2) (hAl : Al.length = 2) :
    LayoutG buf T Wl W Al Bk N := by
  subst e
  have h16 : (R ++ (T ++ ([2] ++ (Wl ++ (W ++ (Al ++ (Bk ++ N))))))).drop 16 =
      T ++ ([2] ++ (Wl ++ (W ++ (Al ++ (Bk ++ N))))) := drop_app _ _ 16 hR.symm
  have h18 : (R ++ (T ++ ([2] ++ (Wl ++ (W ++ (Al ++ (Bk ++ N))))))).drop 18 =
      2 :: (Wl ++ (W ++ (Al ++ (Bk ++ N)))) := by
    have := congrArg (List.drop 2) h16
    rw [List.drop_drop, drop_app _ _ 2 hT.symm] at this
    simpa using this
  have h19 : (R ++ (T ++ ([2] ++ (Wl ++ (W ++ (Al ++ (Bk ++ N))))))).drop 19 =
      Wl ++ (W ++ (Al ++ (Bk ++ N))) := by
    have := congrArg (List.drop 1) h18
    rw [List.drop_drop] at this
    simpa using this
  have h21 : (R ++ (T ++ ([2] ++ (Wl ++ (W ++ (Al ++ (Bk ++ N))))))).drop 21 = W ++ (Al ++ (Bk ++ N)) := by
    have := congrArg (List.drop 2) h19
    rw [List.drop_drop, drop_app _ _ 2 hWl.symm] at this
    simpa using this
  have hAl' : (R ++ (T ++ ([2] ++ (Wl ++ (W ++ (Al ++ (Bk ++ N))))))).drop (21 + W.length) = Al ++ (Bk ++ N) := by
    have := congrArg (List.drop W.length) h21
    rw [List.drop_drop, drop_app _ _ _ rfl] at this
    exact this
  have hBlk : (R ++ (T ++ ([2] ++ (Wl ++ (W ++ (Al ++ (Bk ++ N))))))).drop (23 + W.length) = Bk ++ N := by
    have := congrArg (List.drop 2) hAl'
    rw [List.drop_drop, drop_app _ _ 2 hAl.symm] at this
    have e2 : 21 + W.length + 2 = 23 + W.length := by omega
    rw [e2] at this
    exact this
  have hNl : (R ++ (T ++ ([2] ++ (Wl ++ (W ++ (Al ++ (Bk ++ N))))))).drop (23 + W.length + Bk.length) = N := by
    have := congrArg (List.drop Bk.length) hBlk
    rw [List.drop_drop, drop_app _ _ _ rfl] at this
    exact this
  exact ⟨h16, h18, h19, h21, hAl', hBlk, hNl⟩

/-- the layout of `render c u cs` -/
abbrev Layout (c : Codec) (u : CUpdate) (cs : List Corr) (buf : Bytes) : Prop :=
  LayoutG buf (be16Bytes (totalLen c u cs)) (be16Bytes (wdB c u).length) (wdB c u)
    (be16Bytes (blockBytes c u cs).length) (blockBytes c u cs) (legacyNlriBytes c u cs)

theorem render_layout (c : Codec) (u : CUpdate) (cs : List Corr) : Layout c u cs (render c u cs) :=
  layoutG_of_eq (render_eq c u cs) (by simp) (by simp [be16Bytes]) (by simp [be16Bytes]) (by simp [be16Bytes])

theorem maxLen_le (c : Codec) : c.maxLen ≤ 65535 := by
  unfold Codec.maxLen; split <;> omega

/-- what `try_parse` does with a frame laid out like a rendered UPDATE of legal size -/
theorem tryParse_layout {dec : HypDec} {p : Profile} {c : Codec} {u : CUpdate} {cs : List Corr} {buf : Bytes}
    (hl : Layout c u cs buf) (hlen : buf.length = totalLen c u cs) (hmax : totalLen c u cs ≤ c.maxLen) :
    ∃ d, tryParse dec p c buf =
      (match parseUpdateWith updateLens dec p c buf ⟨1, 2, d⟩ with
       | .ok m => .msg (totalLen c u cs) m
       | .err e => .err (totalLen c u cs) e
       | .panic => .panic) := by
  have ht : 23 ≤ totalLen c u cs := by unfold totalLen; omega
  have hm := maxLen_le c
  have h16 : rd16 buf 16 = .ok (totalLen c u cs) := rd16_be16 (by omega) hl.d16
  have hs : slice buf 16 18 = .ok ((buf.drop 16).take (18 - 16)) := slice_of_drop (by omega) (by omega)
  have h18 : rd8 buf 18 = .ok 2 := rd8_of_drop hl.d18
  refine ⟨(buf.drop 16).take (18 - 16), ?_⟩
  unfold tryParse tryParseWith
  rw [if_neg (by omega), h16, hs]
  simp only
  rw [if_neg (by omega), if_neg (by omega)]
  have htake : buf.take (totalLen c u cs) = buf := List.take_of_length_le (by omega)
  rw [htake]
  unfold parseMessageWith
  rw [if_neg (by omega), h18, hs]
  simp only [Out.bind_ok]
  rfl

theorem updateLens_layout {c : Codec} {u : CUpdate} {cs : List Corr} {buf : Bytes}
    (hl : Layout c u cs buf) (hlen : buf.length = totalLen c u cs) (hmax : totalLen c u cs < 65536) :
    updateLens buf = .ok ((wdB c u).length, (blockBytes c u cs).length) := by
  have ht : totalLen c u cs = 23 + (wdB c u).length + (blockBytes c u cs).length + (legacyNlriBytes c u cs).length := rfl
  have h19 : rd16 buf 19 = .ok (wdB c u).length := rd16_be16 (by omega) hl.d19
  have hal : rd16 buf (21 + (wdB c u).length) = .ok (blockBytes c u cs).length := rd16_be16 (by omega) hl.dAl
  unfold updateLens
  rw [h19]
  simp only [Out.bind_ok]
  rw [if_neg (by omega), hal]
  simp only
  rw [if_neg (by omega)]

/-! ## NLRI lists: what was rendered is what is decoded -/

theorem be_be32Bytes {n : Nat} (h : n < 4294967296) : be (be32Bytes n) = n := by
  simp only [be, be32Bytes, beVal]
  omega

theorem nlriLoop_render (maxBits : Nat) (ap : Bool) :
    ∀ (l : List CPfx), (∀ p ∈ l, pfxOk maxBits ap p = true) → ∀ fuel acc, (pfxsBytes ap l).length < fuel →
      nlriLoop maxBits ap fuel (pfxsBytes ap l) (pfxsBytes ap l).length acc =
        .ok (acc.reverse ++ l.map (padAddr · (maxBits / 8))) := by
  intro l
  induction l with
  | nil =>
    intro _ fuel acc hf
    match fuel with
    | 0 => simp [pfxsBytes] at hf
    | fuel + 1 => simp [pfxsBytes, nlriLoop]
  | cons p ps ih =>
    intro hok fuel acc hf
    have hp := hok p (by simp)
    simp only [pfxOk, Bool.and_eq_true, decide_eq_true_eq, beq_iff_eq, Bool.or_eq_true] at hp
    obtain ⟨⟨⟨hmask, haddr⟩, hid⟩, hid32⟩ := hp
    have hps : ∀ q ∈ ps, pfxOk maxBits ap q = true := fun q hq => hok q (List.mem_cons_of_mem _ hq)
    have hbytes : pfxsBytes ap (p :: ps) = pfxBytes ap p ++ pfxsBytes ap ps := by simp [pfxsBytes]
    match fuel with
    | 0 => omega
    | fuel + 1 =>
      rw [hbytes]
      cases ap with
      | false =>
        have hid0 : p.id = 0 := by simpa using hid
        have hb : pfxBytes false p ++ pfxsBytes false ps = p.mask :: (p.addr ++ pfxsBytes false ps) := by
          simp [pfxBytes]
        rw [hb]
        unfold nlriLoop
        simp only [pathId, Bool.false_eq_true, if_false]
        have hn : (p.mask + 7) / 8 = p.addr.length := haddr.symm
        rw [if_neg (by simp; omega), if_neg (by simp; omega)]
        have hdrop : (p.addr ++ pfxsBytes false ps).drop ((p.mask + 7) / 8) = pfxsBytes false ps := by
          rw [hn]; simp
        have htake : (p.addr ++ pfxsBytes false ps).take ((p.mask + 7) / 8) = p.addr := by
          rw [hn]; simp
        have hrem : (p.mask :: (p.addr ++ pfxsBytes false ps)).length - 1 - (p.mask + 7) / 8 = (pfxsBytes false ps).length := by
          simp; omega
        rw [hdrop, htake, hrem, ih hps fuel _ (by rw [hbytes, hb] at hf; simp at hf ⊢; omega)]
        simp [padAddr, padTo, hid0]
      | true =>
        have hb : pfxBytes true p ++ pfxsBytes true ps =
            be32Bytes p.id ++ (p.mask :: (p.addr ++ pfxsBytes true ps)) := by
          simp [pfxBytes]
        rw [hb]
        have hlen4 : (be32Bytes p.id).length = 4 := by simp [be32Bytes]
        have hne : be32Bytes p.id ++ (p.mask :: (p.addr ++ pfxsBytes true ps)) =
            (p.id / 16777216 % 256) :: ([p.id / 65536 % 256, p.id / 256 % 256, p.id % 256] ++
              (p.mask :: (p.addr ++ pfxsBytes true ps))) := by simp [be32Bytes]
        unfold nlriLoop
        rw [hne]
        simp only
        rw [← hne]
        have htk : (be32Bytes p.id ++ (p.mask :: (p.addr ++ pfxsBytes true ps))).take 4 = be32Bytes p.id := by
          rw [List.take_append_of_le_length (by omega)]; exact List.take_of_length_le (by omega)
        have hdr : (be32Bytes p.id ++ (p.mask :: (p.addr ++ pfxsBytes true ps))).drop 4 =
            p.mask :: (p.addr ++ pfxsBytes true ps) := drop_app _ _ 4 hlen4.symm
        simp only [pathId, if_true]
        rw [if_neg (by simp [hlen4])]
        simp only [htk, hdr, be_be32Bytes hid32]
        have hn : (p.mask + 7) / 8 = p.addr.length := haddr.symm
        rw [if_neg (by simp [hlen4]; omega), if_neg (by simp [hlen4]; omega)]
        have hdrop : (p.addr ++ pfxsBytes true ps).drop ((p.mask + 7) / 8) = pfxsBytes true ps := by
          rw [hn]; simp
        have htake : (p.addr ++ pfxsBytes true ps).take ((p.mask + 7) / 8) = p.addr := by
          rw [hn]; simp
        have hrem : (be32Bytes p.id ++ (p.mask :: (p.addr ++ pfxsBytes true ps))).length - 4 - 1 - (p.mask + 7) / 8 =
            (pfxsBytes true ps).length := by
          simp [hlen4]; omega
        rw [hdrop, htake, hrem, ih hps fuel _ (by rw [hbytes, hb] at hf; simp [hlen4] at hf ⊢; omega)]
        simp [padAddr, padTo]

theorem negotiated_eq (c : Codec) (fam : Nat) : negotiated c fam = c.addpath? fam := by
  unfold negotiated Codec.addpath?
  cases c.fams.find? (fun x => x.1 == fam) <;> rfl

theorem ap_of_negotiated {c : Codec} {fam : Nat} {ap : Bool} (h : negotiated c fam = some ap) : c.ap fam = ap := by
  unfold Codec.ap
  rw [← negotiated_eq, h]; rfl

theorem decode_v4 (dec : HypDec) (ap r : Bool) (bs : Bytes) :
    decodeNlriList dec FAM_IPV4 ap r bs = nlriLoop 32 ap (bs.length + 1) bs bs.length [] := by
  simp [decodeNlriList, isV4Fam, FAM_IPV4]

/-- the withdrawn-routes field decodes to the withdrawn prefixes of `u` -/
theorem legacyUnreach_render {dec : HypDec} {c : Codec} {u : CUpdate} {cs : List Corr} {buf : Bytes}
    (hl : Layout c u cs buf) (hlen : buf.length = totalLen c u cs)
    (hwd : u.wd = [] ∨ ∃ ap, negotiated c FAM_IPV4 = some ap ∧ ∀ p ∈ u.wd, pfxOk 32 ap p = true) :
    legacyUnreach dec c buf (wdB c u).length = .ok (u.wd.map (padAddr · 4)) := by
  unfold legacyUnreach
  rcases hwd with h0 | ⟨ap, hneg, hok⟩
  · have : wdB c u = [] := by simp [wdB, h0, pfxsBytes]
    simp [this, h0]
  · by_cases hw : 0 < (wdB c u).length
    · rw [if_pos hw, ← negotiated_eq, hneg]
      simp only
      have ht : totalLen c u cs = 23 + (wdB c u).length + (blockBytes c u cs).length + (legacyNlriBytes c u cs).length := rfl
      rw [slice_of_drop (by omega) (by omega), hl.d21]
      simp only [Out.bind_ok]
      have e : 21 + (wdB c u).length - 21 = (wdB c u).length := by omega
      rw [e, List.take_left', decode_v4]
      have hap := ap_of_negotiated hneg
      have hw' : wdB c u = pfxsBytes ap u.wd := by simp [wdB, hap]
      rw [hw', nlriLoop_render 32 ap u.wd hok _ _ (by omega)]
      simp only [List.reverse_nil, List.nil_append]
      rfl
    · have hz : (wdB c u).length = 0 := by omega
      rw [if_neg hw]
      -- no bytes: no prefixes
      have : u.wd = [] := by
        cases hu : u.wd with
        | nil => rfl
        | cons q qs =>
          exfalso
          simp [wdB, hu, pfxsBytes, pfxBytes] at hz
      simp [this]

theorem eorFamily_unreach {attrs : List Attr} {errs : List (Nat × Nat)} {reach unreach : List PNlri}
    {mr : Option (Nat × List PNlri × Option Bytes)} {mu : Option (Nat × List PNlri)} {fam : Nat}
    (h : eorFamily attrs errs reach unreach mr mu = some fam) : unreach = [] := by
  unfold eorFamily at h
  cases mu with
  | none => cases h
  | some x =>
    obtain ⟨f, entries⟩ := x
    simp only at h
    by_cases hu : unreach = []
    · exact hu
    · have hne : unreach.isEmpty = false := by simpa using hu
      simp [hne] at h

/-- what always holds of a validated UPDATE, whatever is in its attribute block: nothing iBGP-only believed from an
    external peer, and the legacy withdrawals passed on -/
theorem weak_obligations {dec : HypDec} {p : Profile} {c : Codec} {buf : Bytes} {hdr : Notif} {wl al : Nat}
    {un : List PNlri} {m : Msg} (ebgp : Bool)
    (hlens : updateLens buf = .ok (wl, al)) (hun : legacyUnreach dec c buf wl = .ok un)
    (h : parseUpdateWith updateLens dec p c buf hdr = .ok m) :
    (ebgp && (reachMsgs (validateMessage ebgp m)).any
        (fun as => as.any fun a => a.code == 5 || a.code == 9 || a.code == 10)) = false ∧
    allIn un (withdrawnOut (validateMessage ebgp m) FAM_IPV4) = true := by
  unfold parseUpdateWith at h
  split at h
  · cases h
  · rw [hlens] at h
    simp only [Out.bind_ok] at h
    obtain ⟨reachLen, _, h⟩ := bind_eq_ok h
    obtain ⟨s, _, h⟩ := bind_eq_ok h
    split at h
    · -- IPv4 End-of-RIB: no withdrawn bytes at all
      rename_i hz
      injection h with h; subst h
      have : un = [] := by
        rw [hz.2.2] at hun
        simp [legacyUnreach] at hun
        exact hun
      subst this
      simp [validateMessage, reachMsgs, allIn]
    · obtain ⟨reach, _, h⟩ := bind_eq_ok h
      rw [hun] at h
      simp only [Out.bind_ok] at h
      obtain ⟨mpr, _, h⟩ := bind_eq_ok h
      obtain ⟨mpu, _, h⟩ := bind_eq_ok h
      unfold assemble at h
      split at h
      · rename_i fam hf
        injection h with h; subst h
        have := eorFamily_unreach hf
        subst this
        simp [validateMessage, reachMsgs, allIn]
      · have h' : ∃ attrs, m = Msg.update (if reach.isEmpty then none else some ⟨FAM_IPV4, s.nexthop, reach⟩)
            (match mpr with
             | some (fam, e, nh) => if e.isEmpty then none else some ⟨fam, nh, e⟩
             | none => none)
            (if un.isEmpty then none else some ⟨FAM_IPV4, un⟩)
            (match mpu with
             | some (fam, e) => if e.isEmpty then none else some ⟨fam, e⟩
             | none => none) attrs (finalErrs s reachLen (23 + wl + al)) := by
          cases htwo : c.two with
          | false =>
            simp only [htwo, Bool.false_eq_true, if_false, Out.bind_ok] at h
            injection h with h
            exact ⟨_, h.symm⟩
          | true =>
            simp only [htwo, if_true] at h
            obtain ⟨attrs, _, h⟩ := bind_eq_ok h
            injection h with h
            exact ⟨_, h.symm⟩
        obtain ⟨attrs, hm⟩ := h'
        subst hm
        simp only [validateMessage]
        constructor
        · cases ebgp with
          | false => rfl
          | true =>
            simp only [Bool.true_and, List.any_eq_false, List.any_eq_true, not_exists, not_and]
            intro as has a ha
            have := validate_ebgp_filter as has a ha
            simp [this.1, this.2.1, this.2.2]
        · by_cases he : un.isEmpty
          · have : un = [] := by simpa using he
            subst this; simp [allIn]
          · refine allIn_of_mem (mem_withdrawnOut (f := FAM_IPV4) (e := un) ?_)
            exact validate_withdrawals ebgp _ _ _ _ _ _ ⟨FAM_IPV4, un⟩ (by simp [he, optList])

end Rbgp.Wire
