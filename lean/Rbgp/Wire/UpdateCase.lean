/-
  Rbgp.Wire.UpdateCase — the C05 case language: a valid UPDATE `u`, a list of RFC 7606 corruptions `cs`, and the
  bytes they stand for (`render`, the same algorithm as harness/pt/src/bin/c05.rs).  This is INPUT construction:
  it says what a case means; it is used by the model driver, by the reference checker (to know what is on the
  wire) and by the harness.  It models no repository code.
-/
import Rbgp.Wire.Model
namespace Rbgp.Wire

/-! ## the case language: a valid UPDATE and the corruptions applied to it -/

/-- a prefix as written in a case: AddPath id, mask, exactly the significant address bytes -/
structure CPfx where
  id : Nat
  mask : Nat
  addr : Bytes
  deriving DecidableEq, Repr, Inhabited

structure CAttr where
  flags : Nat
  code : Nat
  data : Bytes
  deriving DecidableEq, Repr, Inhabited

structure CMpReach where
  afi : Nat
  safi : Nat
  nh : Bytes
  nlri : List CPfx
  deriving DecidableEq, Repr, Inhabited

structure CMpUnreach where
  afi : Nat
  safi : Nat
  nlri : List CPfx
  deriving DecidableEq, Repr, Inhabited

/-- the uncorrupted UPDATE -/
structure CUpdate where
  wd : List CPfx
  attrs : List CAttr
  mpr : Option CMpReach
  mpu : Option CMpUnreach
  nlri : List CPfx
  deriving DecidableEq, Repr, Inhabited

/-- the RFC 7606 ways of corrupting it; `i` indexes the rendered attribute list
    `attrs ++ [MP_REACH] ++ [MP_UNREACH]` -/
inductive Corr where
  | flags (i : Nat) (f : Nat)          -- replace the flags octet
  | data (i : Nat) (d : Bytes)         -- replace the value (length field follows): bad length / bad value
  | lenfield (i : Nat) (l : Nat)       -- length field only: the attribute block framing breaks
  | dup (i : Nat) (d : Bytes)          -- a second attribute of the same type right after it
  | omit (i : Nat)                     -- omission
  | trunc (k : Nat)                    -- the attribute block ends `k` bytes early
  | unknown (f c : Nat) (d : Bytes)    -- an unrecognised attribute appended to the block
  | nlribad (m : Nat)                  -- the first legacy NLRI prefix length octet becomes `m`
  deriving DecidableEq, Repr, Inhabited

/-! ## rendering -/

structure RAttr where
  flags : Nat
  code : Nat
  data : Bytes
  lenOverride : Option Nat := none
  present : Bool := true
  dup : Option Bytes := none
  deriving DecidableEq, Repr, Inhabited

def pfxBytes (addpath : Bool) (p : CPfx) : Bytes :=
  (if addpath then be32Bytes p.id else []) ++ [p.mask] ++ p.addr

def pfxsBytes (addpath : Bool) (l : List CPfx) : Bytes := (l.map (pfxBytes addpath)).flatten

def Codec.ap (c : Codec) (fam : Nat) : Bool := (c.addpath? fam).getD false

def mprAttr (c : Codec) (m : CMpReach) : RAttr :=
  let d := be16Bytes m.afi ++ [m.safi, m.nh.length] ++ m.nh ++ [0] ++ pfxsBytes (c.ap (famKey m.afi m.safi)) m.nlri
  { flags := if d.length > 255 then 0x90 else 0x80, code := 14, data := d }

def mpuAttr (c : Codec) (m : CMpUnreach) : RAttr :=
  let d := be16Bytes m.afi ++ [m.safi] ++ pfxsBytes (c.ap (famKey m.afi m.safi)) m.nlri
  { flags := if d.length > 255 then 0x90 else 0x80, code := 15, data := d }

def baseAttrs (c : Codec) (u : CUpdate) : List RAttr :=
  (u.attrs.map fun a => ({ flags := a.flags, code := a.code, data := a.data } : RAttr))
    ++ (match u.mpr with | some m => [mprAttr c m] | none => [])
    ++ (match u.mpu with | some m => [mpuAttr c m] | none => [])

/-- corruption `k` applied to the attribute at position `i` (other positions, and `unknown` / `trunc` / `nlribad`,
    leave it alone) -/
def applyOne (i : Nat) (a : RAttr) : Corr → RAttr
  | .flags j f => if j = i then { a with flags := f } else a
  | .data j d => if j = i then { a with data := d } else a
  | .lenfield j n => if j = i then { a with lenOverride := some n } else a
  | .dup j d => if j = i then { a with dup := some d } else a
  | .omit j => if j = i then { a with present := false } else a
  | .unknown _ _ _ => a
  | .trunc _ => a
  | .nlribad _ => a

/-- the attribute of `u` at position `i` after all corruptions (a later one of the same kind replaces an earlier one) -/
def effAttr (cs : List Corr) (i : Nat) (o : RAttr) : RAttr := cs.foldl (applyOne i) o

/-- the appended unrecognised attributes, in order -/
def extraAttrs (cs : List Corr) : List RAttr :=
  cs.filterMap fun k => match k with
    | .unknown f c d => some { flags := f, code := c, data := d }
    | _ => none

def idxFrom : Nat → List RAttr → List (Nat × RAttr)
  | _, [] => []
  | n, a :: as => (n, a) :: idxFrom (n + 1) as

def attrHdr (flags code len : Nat) : Bytes :=
  if flags &&& 0x10 ≠ 0 then [flags, code] ++ be16Bytes len else [flags, code, len % 256]

/-- one attribute as it appears on the wire; `kind`: 0 = an attribute of `u`, 1 = the second copy made by a `dup`
    corruption, 2 = an appended unrecognised attribute.  `firstData` = the value of the first copy of this attribute
    on the wire (for kind 1), `origData` = the value the attribute has in `u`, `lenOv` = the length field was set
    independently of the value. -/
structure WItem where
  flags : Nat
  code : Nat
  lenField : Nat
  data : Bytes
  kind : Nat
  origData : Bytes
  firstData : Bytes
  lenOv : Bool
  deriving DecidableEq, Repr, Inhabited

def renderItem (w : WItem) : Bytes := attrHdr w.flags w.code w.lenField ++ w.data

/-- the items of attribute `a` (the state of `orig` after the corruptions); `extra` = appended by `unknown` -/
def wireItems (extra : Bool) (orig a : RAttr) : List WItem :=
  if !a.present then []
  else
    [{ flags := a.flags, code := a.code, lenField := a.lenOverride.getD a.data.length, data := a.data,
       kind := if extra then 2 else 0, origData := orig.data, firstData := a.data, lenOv := a.lenOverride.isSome }] ++
      (match a.dup with
       | some d => [{ flags := a.flags, code := a.code, lenField := d.length, data := d, kind := 1,
                      origData := orig.data, firstData := a.data, lenOv := false }]
       | none => [])

/-- everything in the attribute block, in wire order: the attributes of `u` as corrupted, then the appended ones -/
def blockItems (c : Codec) (u : CUpdate) (cs : List Corr) : List WItem :=
  ((idxFrom 0 (baseAttrs c u)).flatMap fun (i, o) => wireItems false o (effAttr cs i o))
    ++ (extraAttrs cs).flatMap fun a => wireItems true a a

def truncTotal (cs : List Corr) : Nat :=
  cs.foldl (fun acc c => match c with | .trunc k => acc + k | _ => acc) 0

def nlriBad (cs : List Corr) : Option Nat :=
  cs.foldl (fun acc c => match c with | .nlribad m => some m | _ => acc) none

def legacyNlriBytes (c : Codec) (u : CUpdate) (cs : List Corr) : Bytes :=
  let nlri := pfxsBytes (c.ap FAM_IPV4) u.nlri
  match nlriBad cs, nlri with
  | some m, _ :: rest => (if c.ap FAM_IPV4 then nlri.take 4 ++ [m] ++ nlri.drop 5 else m :: rest)
  | _, _ => nlri

/-- the attribute block: all items, cut short by the truncation corruptions -/
def blockBytes (c : Codec) (u : CUpdate) (cs : List Corr) : Bytes :=
  let block := (blockItems c u cs).flatMap renderItem
  block.take (block.length - truncTotal cs)

/-- the UPDATE frame for `(u, cs)` under codec `c` -/
def render (c : Codec) (u : CUpdate) (cs : List Corr) : Bytes :=
  let block := blockBytes c u cs
  let wd := pfxsBytes (c.ap FAM_IPV4) u.wd
  let nlri := legacyNlriBytes c u cs
  let total := 23 + wd.length + block.length + nlri.length
  List.replicate 16 255 ++ be16Bytes total ++ [2] ++ be16Bytes wd.length ++ wd ++ be16Bytes block.length ++ block ++ nlri

end Rbgp.Wire
