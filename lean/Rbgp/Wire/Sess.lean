/-
  Rbgp.Wire.Sess — C03, session stream: a byte stream arrives at a live session task (before or after the OPEN /
  KEEPALIVE exchange); observed are the NOTIFICATIONs the remote speaker receives and whether the task is still there.

  MODEL (`runSess`): `try_parse` of the packet-level model on the bytes received so far, in the loop of
  `PeerSession::run_select`'s read arm (`loop { try_parse ... None => break }`; the outcome does not depend on how the
  stream is cut into reads: `decode_stream_fragmentation`), followed by what daemon/src/fsm.rs does with the message
  in the state the session is in: an error ends the session with its NOTIFICATION; a message that does not belong to
  the state ends it with "FSM error" (code 5; this daemon puts its state number 3 / 4 / 5 into the subcode); OPEN in
  OpenSent from the wrong AS ends it with (2, 2); a NOTIFICATION ends it silently; need-more leaves it waiting; the
  peer closing the connection ends it silently.

  SPEC (`checkSess`), from the property text: never a panic, never a wedge or a busy loop, bounded receive buffer; at
  most one NOTIFICATION, and only together with closing the session; nothing is kept open after the peer closed.
-/
import Rbgp.Wire.Nlri3
import Rbgp.Wire.Spec
import Rbgp.Wire.Stream
namespace Rbgp.Wire.Sess
open Rbgp.Wire

inductive SState where
  | opensent
  | openconfirm
  | established
  deriving DecidableEq, Repr

inductive Status where
  | up (st : SState)
  | closed
  | panic
  | wedge
  | storm
  deriving DecidableEq, Repr

structure SObs where
  status : Status
  notifs : List (Nat × Nat)
  capExceeded : Bool := false
  deriving Repr

def PEER_ASN : Nat := 64888

/-- the codec a session parses with before the OPEN exchange (`PeerCodec::new()`) -/
def preCodec : Codec := ⟨false, false, []⟩

/-- the FSM-error subcode of this daemon: its state number -/
def fsmSub : SState → Nat
  | .opensent => 3
  | .openconfirm => 4
  | .established => 5

/-- what the session does with a well-formed message in state `st`: continue in a state, or end with NOTIFICATIONs -/
def onMsg (st : SState) (m : Msg) : SState ⊕ List (Nat × Nat) :=
  match m with
  | .notif _ _ _ => .inr []
  | .open asn _ _ _ =>
      if st = .opensent then (if asn = PEER_ASN then .inl .openconfirm else .inr [(2, 2)])
      else .inr [(5, fsmSub st)]
  | .keepalive =>
      match st with
      | .openconfirm => .inl .established
      | .established => .inl .established
      | .opensent => .inr [(5, fsmSub st)]
  | _ => if st = .established then .inl .established else .inr [(5, fsmSub st)]

/-- the read loop on everything received; `c` is the codec of the case (in force once the OPEN has been accepted) -/
def sessLoop (dec : HypDec) (p : Profile) (c : Codec) (eof : Bool) : Nat → SState → Bytes → SObs
  | 0, _, _ => ⟨.panic, [], false⟩
  | fuel + 1, st, buf =>
      let codec := if st = .opensent then preCodec else c
      match tryParse dec p codec buf with
      | .panic => ⟨.panic, [], false⟩
      | .more => ⟨if eof then .closed else .up st, [], false⟩
      | .err _ e => ⟨.closed, [(e.code, e.sub)], false⟩
      | .msg n m =>
          match onMsg st m with
          | .inl st' => sessLoop dec p c eof fuel st' (buf.drop n)
          | .inr ns => ⟨.closed, ns, false⟩

def runSess (dec : HypDec) (p : Profile) (c : Codec) (est : Bool) (chunks : List Bytes) (eof : Bool) : SObs :=
  let all := chunks.flatten
  sessLoop dec p c eof (all.length + 1) (if est then .established else .opensent) all

/-! ## the property on the observation -/

open Spec in
def checkSess (eof : Bool) (o : SObs) : Verdict :=
  match o.status with
  | .panic => .fail 0 "panic"
  | .wedge => .fail 0 "session-task-did-not-come-back"
  | .storm => .fail 0 "session-task-keeps-running-without-input"
  | st =>
      if o.capExceeded then .fail 0 "receive-buffer-grew-beyond-bound"
      else if o.notifs.length > 1 then .fail 0 "more-than-one-notification"
      else if !o.notifs.isEmpty && st != .closed then .fail 0 "notification-sent-but-session-kept"
      else if eof && st != .closed then .fail 0 "session-kept-after-the-peer-closed"
      else if !(o.notifs.all fun n => [1, 2, 3, 5, 7].contains n.1) then .fail 0 "notification-code-not-a-protocol-error"
      else .ok

/-! ## RTR: the client loop of daemon/src/rpki.rs (`RpkiClient::serve_inner`) over the real `Framed<_, RtrCodec>`

  The loop takes PDUs from `Framed::next()` until a decode error or the end of the stream, and counts the ones it
  received (`RpkiState::update`); no PDU makes it leave by itself. -/

inductive RStatus where
  | done
  | waiting
  | panic
  | wedge
  | storm
  deriving DecidableEq, Repr

structure RObs where
  status : RStatus
  rx : Nat
  deriving DecidableEq, Repr

/-- PDUs the receive counters of `RpkiState` count -/
def counted : RtrMsg → Bool
  | .serialNotify _ _ => true
  | .cacheResponse _ => true
  | .prefix _ _ _ _ _ => true
  | .endOfData _ _ _ _ _ => true
  | .cacheReset => true
  | .errorReport _ => true
  | _ => false

def runRtrSess (chunks : List Bytes) (eof : Bool) : RObs :=
  let recs := rtrStream [] chunks
  let rx := (recs.filter fun r => match r with | .pdu _ _ m => counted m | _ => false).length
  if recs.any (fun r => r == .panic || r == .stall) then ⟨.panic, rx⟩
  else if eof || recs.any (fun r => match r with | .err _ _ => true | _ => false) then ⟨.done, rx⟩
  else ⟨.waiting, rx⟩

open Spec in
def checkRtrSess (eof : Bool) (o : RObs) : Verdict :=
  match o.status with
  | .panic => .fail 0 "panic"
  | .wedge => .fail 0 "rtr-client-did-not-come-back"
  | .storm => .fail 0 "rtr-client-keeps-running-without-input"
  | .waiting => if eof then .fail 0 "rtr-client-kept-after-the-cache-closed" else .ok
  | .done => .ok

end Rbgp.Wire.Sess
