/-
  Rbgp.Wire.Model — hand-written model of the BGP receive path of packet/src/bgp.rs:
  `PeerCodec::try_parse`, `parse_message` (OPEN incl. `Capability::decode`, UPDATE incl. the attribute
  loop, `Attribute::decode`, `decode_nlri_list` for IPv4/IPv6 unicast+multicast, MP_REACH/MP_UNREACH,
  `reconcile_as4`; NOTIFICATION, KEEPALIVE, ROUTE-REFRESH).

  One Lean function per Rust function, same branch order.  Every `unwrap()` on a cursor read, every
  slice index and every fixed-width `+`/`-` whose guard is not on the line before is an explicit
  `Out.panic` outcome.  Loops are structural on a fuel argument (initialised with the buffer length
  + 1; running out of fuel is `panic`, so the totality theorems also show that the fuel suffices).
  NLRI decoders of the other address families are a parameter `dec` (hypothesis-backed).
-/
import Rbgp.Wire.Basic
namespace Rbgp.Wire

/-! ## values -/

inductive AttrData where
  | val (n : Nat)
  | bin (b : Bytes)
  | opq (b : Bytes)
  deriving DecidableEq, Repr, Inhabited

structure Attr where
  code : Nat
  flags : Nat
  data : AttrData
  deriving DecidableEq, Repr, Inhabited

/-- `Attribute::binary()` -/
def Attr.binary (a : Attr) : Option Bytes :=
  match a.data with
  | .val _ => none
  | .bin b => some b
  | .opq b => some b

/-- one NLRI entry: AddPath id, prefix length in bits, address bytes (padded to 4 / 16 like the arrays) -/
structure PNlri where
  id : Nat
  mask : Nat
  addr : Bytes
  deriving DecidableEq, Repr, Inhabited

inductive Cap where
  | mp (fam : Nat)
  | rr
  | enh (l : List (Nat × Nat))
  | extmsg
  | gr (flags time : Nat) (l : List (Nat × Nat))
  | as4 (n : Nat)
  | addpath (l : List (Nat × Nat))
  | err
  | llgr (l : List (Nat × Nat × Nat))
  | fqdn
  | unk (code : Nat) (b : Bytes)
  deriving DecidableEq, Repr, Inhabited

structure Reach where
  fam : Nat
  nh : Option Bytes
  entries : List PNlri
  deriving DecidableEq, Repr, Inhabited

structure Unreach where
  fam : Nat
  entries : List PNlri
  deriving DecidableEq, Repr, Inhabited

/-- `ParsedMessage` -/
inductive Msg where
  | open (asn hold rid : Nat) (caps : List Cap)
  | update (reach mpReach : Option Reach) (unreach mpUnreach : Option Unreach)
           (attrs : List Attr) (errs : List (Nat × Nat))
  | eor (fam : Nat)
  | notif (code sub : Nat) (data : Bytes)
  | keepalive
  | refresh (fam : Nat)
  deriving DecidableEq, Repr, Inhabited

/-- `PeerCodec` (what decoding depends on) -/
structure Codec where
  ext : Bool
  two : Bool
  /-- negotiated families: (family key `afi<<16|safi`, addpath_rx); keys distinct -/
  fams : List (Nat × Bool)
  deriving DecidableEq, Repr, Inhabited

def Codec.maxLen (c : Codec) : Nat := if c.ext then 65535 else 4096

/-- `self.families.get(&family)` -/
def Codec.addpath? (c : Codec) (f : Nat) : Option Bool :=
  match c.fams.find? (fun x => x.1 == f) with
  | some x => some x.2
  | none => none

def famKey (afi safi : Nat) : Nat := afi * 65536 + safi
def FAM_IPV4 : Nat := 65537

/-- the hypothesis-backed NLRI decoders: family, addpath_rx, is_reach, bytes -/
abbrev HypDec := Nat → Bool → Bool → Bytes → Out (List PNlri)

def eMalformed : Notif := ⟨3, 1, []⟩
def eOptAttr : Notif := ⟨3, 9, []⟩
def eOpenMalformed : Notif := ⟨2, 0, []⟩

/-! ## `Notification::from_notification` followed by `notification_code/subcode/data` -/

def notifCanon (code sub : Nat) (data : Bytes) : Nat × Nat × Bytes :=
  let keep : List (Nat × Nat) :=
    [(1, 2), (1, 3), (2, 1), (2, 4), (2, 7), (2, 6), (3, 2), (3, 3), (3, 4), (3, 5), (3, 6), (3, 8), (7, 1)]
  let drop : List (Nat × Nat) :=
    [(2, 0), (2, 2), (2, 3), (3, 1), (3, 9), (3, 10), (3, 11),
     (6, 1), (6, 2), (6, 3), (6, 4), (6, 5), (6, 6), (6, 7), (6, 8), (6, 9)]
  if keep.contains (code, sub) then (code, sub, data)
  else if drop.contains (code, sub) then (code, sub, [])
  else if code = 4 then (4, 0, [])
  else if code = 5 then (5, sub, [])
  else (code, sub, data)

/-! ## `Capability::decode` -/

/-- `for _ in 0..n { read k bytes }` over what is left; `none` = a read failed -/
def chunksN : Nat → Nat → Bytes → Option (List Bytes × Bytes)
  | 0, _, rest => some ([], rest)
  | n + 1, k, rest =>
      match takeN rest k with
      | none => none
      | some (x, rest') =>
          match chunksN n k rest' with
          | none => none
          | some (xs, r) => some (x :: xs, r)

/-- `(afi:u16, safi:u8, x:u8)` tuples: family key and the last octet -/
def famTuple4 (x : Bytes) : Nat × Nat :=
  (be (x.take 2) * 65536 + be ((x.drop 2).take 1), be (x.drop 3))

def capMp (rest : Bytes) (len : Nat) : Option (Cap × Nat) :=
  if len ≠ 4 then none else (takeN rest 4).map fun (x, _) => (Cap.mp (be x), 4)

def capEnh (rest : Bytes) (len : Nat) : Option (Cap × Nat) :=
  if len % 6 ≠ 0 then none
  else (chunksN (len / 6) 6 rest).map fun (xs, _) =>
    (Cap.enh ((xs.map fun x => (be (x.take 4), be (x.drop 4))).filter
        fun (f, a) => f / 65536 == 1 && a == 2), len)

def capGr (rest : Bytes) (len : Nat) : Option (Cap × Nat) :=
  if len % 4 ≠ 2 then none
  else match takeN rest 2 with
    | none => none
    | some (r, rest1) =>
        (chunksN ((len - 2) / 4) 4 rest1).map fun (xs, _) =>
          (Cap.gr (be r / 4096) (be r % 4096) (xs.map famTuple4), len)

def capAs4 (rest : Bytes) (len : Nat) : Option (Cap × Nat) :=
  if len ≠ 4 then none else (takeN rest 4).map fun (x, _) => (Cap.as4 (be x), 4)

def capAddpath (rest : Bytes) (len : Nat) : Option (Cap × Nat) :=
  if len % 4 ≠ 0 then none
  else (chunksN (len / 4) 4 rest).map fun (xs, _) =>
    (Cap.addpath ((xs.map famTuple4).filter fun (_, v) => !(v == 0 || v > 3)), len)

def capLlgr (rest : Bytes) (len : Nat) : Option (Cap × Nat) :=
  if len % 7 ≠ 0 then none
  else (chunksN (len / 7) 7 rest).map fun (xs, _) =>
    (Cap.llgr (xs.map fun x =>
        (be (x.take 2) * 65536 + be ((x.drop 2).take 1), be ((x.drop 3).take 1), be (x.drop 4))), len)

def capFqdn (rest : Bytes) (len : Nat) : Option (Cap × Nat) :=
  if len < 2 then none
  else match rest with
    | [] => none
    | hostlen :: rest1 =>
        -- (a list element that is not an octet cannot be read as `u8`: a failed read)
        if hostlen ≥ 256 ∨ hostlen + 2 > len then none
        else match takeN rest1 hostlen with
          | none => none
          | some (_, rest2) =>
              match rest2 with
              | [] => none
              | domainlen :: rest3 =>
                  if domainlen ≥ 256 ∨ 2 + hostlen + domainlen > len then none
                  else match takeN rest3 domainlen with
                    | none => none
                    | some _ => some (.fqdn, 2 + hostlen + domainlen)

def capFlag (c : Cap) (len : Nat) : Option (Cap × Nat) :=
  if len ≠ 0 then none else some (c, 0)

def capUnk (code : Nat) (rest : Bytes) (len : Nat) : Option (Cap × Nat) :=
  (takeN rest len).map fun (x, _) => (Cap.unk code x, len)

/-- returns the capability and the number of bytes consumed from the cursor; `none` = `Err(())` -/
def capDecode (code : Nat) (rest : Bytes) (len : Nat) : Option (Cap × Nat) :=
  if code = 1 then capMp rest len
  else if code = 2 then capFlag .rr len
  else if code = 5 then capEnh rest len
  else if code = 64 then capGr rest len
  else if code = 65 then capAs4 rest len
  else if code = 69 then capAddpath rest len
  else if code = 6 then capFlag .extmsg len
  else if code = 70 then capFlag .err len
  else if code = 71 then capLlgr rest len
  else if code = 73 then capFqdn rest len
  else capUnk code rest len

/-! ### `Capability::decode` with the fixed-width arithmetic of the source

  `len` is a `u8`.  Two arms compute with it: GRACEFUL_RESTART (`(len - 2) / 4` on `u8`, behind the `len % 4 != 2`
  guard) and FQDN (`hostlen as u64 + 2`, `2u64 + hostlen as u64 + domainlen as u64`).  Here these are the checked
  operations of `Basic` (overflow = panic in a debug build, wrap in a release build), so that "never panics" is a
  statement about the guards and the widths; `capDecodeW_eq` (Sub proofs) shows they always succeed and give the value
  of `capDecode`.  The other arms only divide `len` and read through the cursor (a failed read is `Err(())`). -/

def capGrW (p : Profile) (rest : Bytes) (len : Nat) : Out (Option (Cap × Nat)) :=
  if len % 4 ≠ 2 then .ok none
  else match takeN rest 2 with
    | none => .ok none
    | some (r, rest1) => do
        let n ← subU8 p len 2
        .ok ((chunksN (n / 4) 4 rest1).map fun (xs, _) =>
          (Cap.gr (be r / 4096) (be r % 4096) (xs.map famTuple4), len))

def capFqdnW (p : Profile) (rest : Bytes) (len : Nat) : Out (Option (Cap × Nat)) :=
  if len < 2 then .ok none
  else match rest with
    | [] => .ok none
    | hostlen :: rest1 =>
        if hostlen ≥ 256 then .ok none
        else do
          let s ← addU64 p hostlen 2
          if s > len then .ok none
          else match takeN rest1 hostlen with
            | none => .ok none
            | some (_, rest2) =>
                match rest2 with
                | [] => .ok none
                | domainlen :: rest3 =>
                    if domainlen ≥ 256 then .ok none
                    else do
                      let s1 ← addU64 p 2 hostlen
                      let s2 ← addU64 p s1 domainlen
                      if s2 > len then .ok none
                      else match takeN rest3 domainlen with
                        | none => .ok none
                        | some _ => .ok (some (.fqdn, 2 + hostlen + domainlen))

def capDecodeW (p : Profile) (code : Nat) (rest : Bytes) (len : Nat) : Out (Option (Cap × Nat)) :=
  if code = 64 then capGrW p rest len
  else if code = 73 then capFqdnW p rest len
  else .ok (capDecode code rest len)

/-! ## OPEN arm -/

/-- `if let Capability::FourOctetAsNumber(asn) = &decoded { four_octet_asn = *asn }` -/
def as4After (cap : Cap) (as4 : Nat) : Nat :=
  match cap with
  | .as4 n => n
  | _ => as4

/-- inner `while c.position() < op_end` -/
def capLoop (p : Profile) (buf : Bytes) (opEnd : Nat) : Nat → Nat → Nat → List Cap → Out (Nat × Nat × List Cap)
  | 0, _, _, _ => .panic
  | fuel + 1, pos, as4, caps =>
      if pos < opEnd then
        if opEnd < pos + 2 then .err eOpenMalformed
        else do
          let ct ← rd8 buf pos
          let cl ← rd8 buf (pos + 1)
          let pos := pos + 2
          if opEnd < pos + cl then .err eOpenMalformed
          else do
            let r ← capDecodeW p ct (buf.drop pos) cl
            match r with
            | some (cap, used) =>
                capLoop p buf opEnd fuel (pos + used) (as4After cap as4) (caps ++ [cap])
            | none => .err eOpenMalformed
      else .ok (pos, as4, caps)

/-- outer `while c.position() < param_end` -/
def paramLoop (p : Profile) (buf : Bytes) (paramEnd : Nat) : Nat → Nat → Nat → List Cap → Out (Nat × List Cap)
  | 0, _, _, _ => .panic
  | fuel + 1, pos, as4, caps =>
      if pos < paramEnd then
        if paramEnd < pos + 2 then .err eOpenMalformed
        else do
          let ty ← rd8 buf pos
          let ln ← rd8 buf (pos + 1)
          let pos := pos + 2
          if paramEnd < pos + ln then .err eOpenMalformed
          else if ty = 2 then do
            let (pos', as4', caps') ← capLoop p buf (pos + ln) (buf.length + 1) pos as4 caps
            paramLoop p buf paramEnd fuel pos' as4' caps'
          else do
            let d ← slice buf (pos - 2) (pos + ln)
            .err ⟨2, 4, d⟩
      else .ok (as4, caps)

def parseOpen (p : Profile) (buf : Bytes) (hdrErr : Notif) : Out Msg :=
  if buf.length < 29 then .err hdrErr
  else do
    let version ← rd8 buf 19
    if version ≠ 4 then .err ⟨2, 1, [0, 4]⟩
    else do
      let asn ← rd16 buf 20
      let hold ← rd16 buf 22
      if hold = 1 ∨ hold = 2 then .err ⟨2, 6, be16Bytes hold⟩
      else do
        let rid ← rd32 buf 24
        if rid = 0 ∨ rid = 4294967295 ∨ (224 ≤ rid / 16777216 ∧ rid / 16777216 ≤ 239) then .err ⟨2, 3, []⟩
        else do
          let plen ← rd8 buf 28
          if buf.length < 29 + plen then .err eOpenMalformed
          else do
            let (as4, caps) ← paramLoop p buf (29 + plen) (buf.length + 1) 29 0 []
            let asn := if asn = 23456 then as4 else asn
            .ok (.open asn hold rid caps)

/-! ## `Attribute::canonical_flags`, `Attribute::decode` -/

def canonicalFlags (code : Nat) : Option Nat :=
  if code = 1 ∨ code = 2 ∨ code = 3 ∨ code = 5 ∨ code = 6 then some 0x40
  else if code = 4 ∨ code = 9 ∨ code = 10 ∨ code = 14 ∨ code = 15 ∨ code = 26 ∨ code = 29 then some 0x80
  else if code = 7 ∨ code = 8 ∨ code = 16 ∨ code = 17 ∨ code = 18 ∨ code = 32 ∨ code = 40 ∨ code = 23 then some 0xc0
  else none

def segTypeOk (t : Nat) : Bool := 1 ≤ t && t ≤ 4

/-- each two-octet AS widened to four octets -/
def widen : Bytes → Bytes
  | h :: l :: r => 0 :: 0 :: h :: l :: widen r
  | _ => []

/-- two-octet AS_PATH: validate and up-convert (`none` = `Err(())`) -/
def asPathUp : Nat → Bytes → Bytes → Option Bytes
  | _, [], acc => some acc
  | _, [_], _ => none
  | 0, _, _ => none
  | fuel + 1, t :: c :: rest, acc =>
      if !segTypeOk t || c == 0 then none
      else if rest.length < c * 2 then none
      else asPathUp fuel (rest.drop (c * 2)) (acc ++ [t, c] ++ widen (rest.take (c * 2)))

/-- four-octet AS_PATH / AS4_PATH segment validation; `nz` = a zero count is an error (RFC 7606 §7.2) -/
def asPathOk (nz : Bool) : Nat → Bytes → Bool
  | _, [] => true
  | _, [_] => false
  | 0, _ => false
  | fuel + 1, t :: c :: rest =>
      if !segTypeOk t || (nz && c == 0) then false
      else if rest.length < c * 4 then false
      else asPathOk nz fuel (rest.drop (c * 4))

def decOrigin (data : Bytes) (len : Nat) : Option AttrData :=
  if len ≠ 1 then none
  else match data with
    | [v] => if v > 2 then none else some (.val v)
    | _ => none

def decU32 (data : Bytes) (len : Nat) : Option AttrData :=
  if len ≠ 4 then none else some (.val (be data))

def decAsPath (data : Bytes) (two : Bool) : Option AttrData :=
  if two then (asPathUp (data.length + 1) data []).map .bin
  else if asPathOk true (data.length + 1) data then some (.bin data) else none

def decAggregator (data : Bytes) (len : Nat) : Option AttrData :=
  if len ≠ 6 ∧ len ≠ 8 then none
  else if len = 6 then some (.bin ([0, 0] ++ data.take 2 ++ data.drop 2))
  else some (.bin data)

def decMultiple (k : Nat) (data : Bytes) (len : Nat) : Option AttrData :=
  if len % k ≠ 0 then none else some (.bin data)

def decAs4Path (data : Bytes) (len : Nat) : Option AttrData :=
  if len % 2 ≠ 0 ∨ len < 6 then none
  else if asPathOk true (data.length + 1) data then some (.bin data) else none

def decExact (k : Nat) (data : Bytes) (len : Nat) : Option AttrData :=
  if len ≠ k then none else some (.bin data)

/-- AIGP (RFC 7311): TLVs of 1-byte type and 2-byte length that includes the three header bytes -/
def aigpOk : Nat → Bytes → Bool
  | _, [] => true
  | 0, _ => false
  | fuel + 1, b =>
      match b with
      | _ :: lh :: ll :: rest =>
          let l := lh * 256 + ll
          if l < 3 ∨ 3 + rest.length < l then false else aigpOk fuel (rest.drop (l - 3))
      | _ => false

def decAigp (data : Bytes) : Option AttrData :=
  if aigpOk (data.length + 1) data then some (.bin data) else none

/-- `data` = the `len` bytes of the attribute value (the guard before the call makes them available);
    `none` = `Err(())` -/
def attrDecode (code : Nat) (data : Bytes) (len : Nat) (two : Bool) : Option AttrData :=
  if data.length ≠ len then none
  else if code = 1 then decOrigin data len
  else if code = 4 ∨ code = 5 ∨ code = 9 then decU32 data len
  else if code = 2 then decAsPath data two
  else if code = 6 then decExact 0 data len
  else if code = 7 then decAggregator data len
  else if code = 8 ∨ code = 10 then decMultiple 4 data len
  else if code = 16 then decMultiple 8 data len
  else if code = 32 then decMultiple 12 data len
  else if code = 17 then decAs4Path data len
  else if code = 18 then decExact 8 data len
  else if code = 3 then decExact 4 data len
  else if code = 26 then decAigp data
  else some (.bin data)

/-! ### `Attribute::decode` with the indexing of the source

  The arms that walk the value (`AS_PATH` in both widths, `AS4_PATH`, `AIGP`, the 6-byte `AGGREGATOR`) read the
  buffer `b` of `len` bytes by index: `b[pos]`, `b[pos + 1]`, `b[start + 1]`, `b[pos + 2]`, `b[0]`, `b[1]`, `b[2..]`.
  Here every such index is an explicit `rd8` / `slice` (out of range = panic, in either profile), guarded only by the
  comparisons the source makes; positions are `usize` (sums of at most 2 + 255·4 per step over a buffer of at most
  65535 bytes: no overflow).  `attrDecodeW_eq` (Sub proofs) shows that the guards suffice and that the result is
  `attrDecode`. -/

/-- `for i in 0..seg_count { let start = pos + 2 + i * 2; u16::from_be_bytes([b[start], b[start + 1]]) ... }` -/
def widenW (b : Bytes) : Nat → Nat → Out Bytes
  | _, 0 => .ok []
  | start, n + 1 => do
      let h ← rd8 b start
      let l ← rd8 b (start + 1)
      let r ← widenW b (start + 2) n
      .ok (0 :: 0 :: h :: l :: r)

/-- two-octet `AS_PATH`: `while pos < b.len() { ... }` -/
def asPathUpW (b : Bytes) : Nat → Nat → Bytes → Out (Option Bytes)
  | 0, _, _ => .panic
  | fuel + 1, pos, out =>
      if pos < b.length then
        if pos + 2 > b.length then .ok none
        else do
          let t ← rd8 b pos
          let c ← rd8 b (pos + 1)
          if !segTypeOk t || c == 0 then .ok none
          else if pos + 2 + c * 2 > b.length then .ok none
          else do
            let c' ← rd8 b (pos + 1)
            let asns ← widenW b (pos + 2) c
            asPathUpW b fuel (pos + 2 + c * 2) (out ++ [t, c'] ++ asns)
      else .ok (some out)

/-- four-octet `AS_PATH` / `AS4_PATH`: `pos += 2 + seg_count * 4; if pos > b.len() { Err }` -/
def asPathOkW (b : Bytes) : Nat → Nat → Out Bool
  | 0, _ => .panic
  | fuel + 1, pos =>
      if pos < b.length then
        if pos + 2 > b.length then .ok false
        else do
          let t ← rd8 b pos
          let c ← rd8 b (pos + 1)
          if !segTypeOk t || c == 0 then .ok false
          else if pos + 2 + c * 4 > b.length then .ok false
          else asPathOkW b fuel (pos + 2 + c * 4)
      else .ok true

/-- `AIGP`: `tlv_len = u16::from_be_bytes([b[pos + 1], b[pos + 2]])` -/
def aigpOkW (b : Bytes) : Nat → Nat → Out Bool
  | 0, _ => .panic
  | fuel + 1, pos =>
      if pos < b.length then
        if pos + 3 > b.length then .ok false
        else do
          let lh ← rd8 b (pos + 1)
          let ll ← rd8 b (pos + 2)
          let l := lh * 256 + ll
          if l < 3 ∨ pos + l > b.length then .ok false
          else aigpOkW b fuel (pos + l)
      else .ok true

def decAsPathW (data : Bytes) (two : Bool) : Out (Option AttrData) :=
  if two then do
    let r ← asPathUpW data (data.length + 1) 0 []
    .ok (r.map .bin)
  else do
    let ok ← asPathOkW data (data.length + 1) 0
    .ok (if ok then some (.bin data) else none)

def decAs4PathW (data : Bytes) (len : Nat) : Out (Option AttrData) :=
  if len % 2 ≠ 0 ∨ len < 6 then .ok none
  else do
    let ok ← asPathOkW data (data.length + 1) 0
    .ok (if ok then some (.bin data) else none)

/-- `AGGREGATOR` of 6 bytes: `[b[0], b[1]]` and `b[2..]` -/
def decAggregatorW (data : Bytes) (len : Nat) : Out (Option AttrData) :=
  if len ≠ 6 ∧ len ≠ 8 then .ok none
  else if len = 6 then do
    let h ← rd8 data 0
    let l ← rd8 data 1
    let rest ← slice data 2 data.length
    .ok (some (.bin ([0, 0, h, l] ++ rest)))
  else .ok (some (.bin data))

def decAigpW (data : Bytes) : Out (Option AttrData) := do
  let ok ← aigpOkW data (data.length + 1) 0
  .ok (if ok then some (.bin data) else none)

def attrDecodeW (code : Nat) (data : Bytes) (len : Nat) (two : Bool) : Out (Option AttrData) :=
  if data.length ≠ len then .ok none
  else if code = 2 then decAsPathW data two
  else if code = 7 then decAggregatorW data len
  else if code = 17 then decAs4PathW data len
  else if code = 26 then decAigpW data
  else .ok (attrDecode code data len two)

/-! ## `Nexthop::from_bytes` followed by `to_bytes` -/

def nhFromBytes (b : Bytes) : Option Bytes :=
  if b.length = 4 ∨ b.length = 16 then some b
  else if b.length = 32 then
    if (b.drop 16).all (· == 0) then some (b.take 16) else some b
  else none

/-! ## `decode_nlri_list` / `decode_nlri` / `Ipv4Net::decode` / `Ipv6Net::decode` -/

/-- `decode_nlri`: the AddPath path identifier; returns (id, what is left, the `len` passed on);
    `none` = `len < 4` -/
def pathId (addpath : Bool) (bs : Bytes) (rest : Nat) : Option (Nat × Bytes × Nat) :=
  if addpath then
    if rest < 4 then none else some (be (bs.take 4), bs.drop 4, rest - 4)
  else some (0, bs, rest)

/-- IPv4/IPv6 unicast+multicast entries over a `BgpReader`; every failure is
    `UpdateMalformedAttributeList`. `maxBits` = 32 / 128.  `rem` is `reader.remaining_len()`
    (= `bs.length`, carried along like the reader's position); `acc` is kept in reverse order. -/
def nlriLoop (maxBits : Nat) (addpath : Bool) : Nat → Bytes → Nat → List PNlri → Out (List PNlri)
  | 0, _, _, _ => .panic
  | fuel + 1, bs, rem, acc =>
      match bs with
      | [] => .ok acc.reverse
      | _ :: _ =>
          match pathId addpath bs rem with
          | none => .err eMalformed
          | some (id, bs1, len) =>
              match bs1 with
              | [] => .err eMalformed
              | bl :: bs2 =>
                  let n := (bl + 7) / 8
                  if len < n ∨ bl > maxBits then .err eMalformed
                  else if len - 1 < n then .err eMalformed
                  else nlriLoop maxBits addpath fuel (bs2.drop n) (len - 1 - n)
                        (⟨id, bl, padTo (bs2.take n) (maxBits / 8)⟩ :: acc)

def isV4Fam (f : Nat) : Bool := f == 65537 || f == 65538
def isV6Fam (f : Nat) : Bool := f == 131073 || f == 131074

def decodeNlriList (dec : HypDec) (fam : Nat) (addpath isReach : Bool) (bs : Bytes) : Out (List PNlri) :=
  if isV4Fam fam then nlriLoop 32 addpath (bs.length + 1) bs bs.length []
  else if isV6Fam fam then nlriLoop 128 addpath (bs.length + 1) bs bs.length []
  else dec fam addpath isReach bs

/-! ## `reconcile_as4` -/

/-- `count_as_hops` (indexing `bin[pos + 1]` is only guarded by `pos < len`) -/
def countHops (bin : Bytes) : Nat → Nat → Nat → Out Nat
  | 0, _, _ => .panic
  | fuel + 1, pos, count =>
      if pos < bin.length then do
        let t ← rd8 bin pos
        let c ← rd8 bin (pos + 1)
        let count := if t = 1 then count + 1 else if t = 2 then count + c else count
        countHops bin fuel (pos + 2 + c * 4) count
      else .ok count

/-- `as_path_take_prefix`: `while pos < bin.len() && (n > 0 || confed(bin[pos]))` -/
def takePrefix (bin : Bytes) : Nat → Nat → Nat → Bytes → Out Bytes
  | 0, _, _, _ => .panic
  | fuel + 1, n, pos, out =>
      if pos < bin.length then do
        let t ← rd8 bin pos
        if n > 0 ∨ t = 3 ∨ t = 4 then do
          let c ← rd8 bin (pos + 1)
          let segEnd := pos + 2 + c * 4
          if t = 2 then do
            let take := min c n
            let d ← slice bin (pos + 2) (pos + 2 + take * 4)
            takePrefix bin fuel (n - take) segEnd (out ++ [t, take % 256] ++ d)
          else if t = 1 then do
            let d ← slice bin pos segEnd
            takePrefix bin fuel (n - 1) segEnd (out ++ d)
          else do
            let d ← slice bin pos segEnd
            takePrefix bin fuel n segEnd (out ++ d)
        else .ok out
      else .ok out

/-- `as_path_reconcile` -/
def asPathReconcile (asPath as4Path : Bytes) : Out Bytes := do
  let c1 ← countHops asPath (asPath.length + 1) 0 0
  let c2 ← countHops as4Path (as4Path.length + 1) 0 0
  if c1 < c2 then .ok asPath
  else do
    let m ← takePrefix asPath (asPath.length + 1) (c1 - c2) 0 []
    .ok (m ++ as4Path)

/-- `attrs.iter().position(|a| a.code() == code).map(|i| attrs.remove(i))` -/
def removeFirst (code : Nat) : List Attr → Option Attr × List Attr
  | [] => (none, [])
  | a :: as =>
      if a.code = code then (some a, as)
      else
        let (r, rest) := removeFirst code as
        (r, a :: rest)

/-- replace the first attribute with `code` by `f a` (which may panic) -/
def mapFirst (code : Nat) (f : Attr → Out Attr) : List Attr → Out (List Attr)
  | [] => .ok []
  | a :: as =>
      if a.code = code then do
        let a' ← f a
        .ok (a' :: as)
      else do
        let r ← mapFirst code f as
        .ok (a :: r)

/-- `a.binary().unwrap()` -/
def binaryUnwrap (a : Attr) : Out Bytes :=
  match a.binary with
  | some b => .ok b
  | none => .panic

/-- `aggregator_asn`: `buf[..4].try_into().unwrap()` -/
def aggregatorAsn (a : Attr) : Out Nat := do
  let b ← binaryUnwrap a
  let d ← slice b 0 4
  .ok (be d)

/-- AGGREGATOR / AS4_AGGREGATOR: returns `ignore_as4_path` and the attributes -/
def reconcileAgg (as4Agg : Option Attr) (attrs : List Attr) : Out (Bool × List Attr) :=
  match as4Agg, attrs.find? (fun a => a.code = 7) with
  | some a4, some agg => do
      let asn ← aggregatorAsn agg
      if asn = 23456 then do
        let bin ← binaryUnwrap a4
        let attrs' ← mapFirst 7 (fun agg => .ok ⟨agg.code, agg.flags, .bin bin⟩) attrs
        .ok (false, attrs')
      else .ok (true, attrs)
  | _, _ => .ok (false, attrs)

/-- AS_PATH / AS4_PATH -/
def reconcilePath (as4Path : Option Attr) (attrs : List Attr) : Out (List Attr) :=
  match as4Path with
  | none => .ok attrs
  | some a4 =>
      mapFirst 2 (fun ap => do
        let p ← binaryUnwrap ap
        let p4 ← binaryUnwrap a4
        let m ← asPathReconcile p p4
        .ok ⟨ap.code, ap.flags, .bin m⟩) attrs

def reconcileAs4 (attrs : List Attr) : Out (List Attr) :=
  let r1 := removeFirst 17 attrs
  let r2 := removeFirst 18 r1.2
  do
    let r ← reconcileAgg r2.1 r2.2
    if r.1 then .ok r.2 else reconcilePath r1.1 r.2

/-! ## UPDATE arm -/

structure AState where
  pos : Nat
  seen : List Nat := []
  attrs : List Attr := []
  errs : List (Nat × Nat) := []
  mpReach : Option Bytes := none
  mpUnreach : Option Bytes := none
  nexthop : Option Bytes := none
  /-- the attribute block ended in the middle of an attribute -/
  trunc : Bool := false
  deriving DecidableEq, Repr, Inhabited

inductive Hdr where
  | brk (pos : Nat)
  | hdr (flags code alen pos : Nat)
  deriving DecidableEq, Repr

/-- flags, type and (extended) length of one attribute; `brk` = one of the `break`s -/
def attrHeader (buf : Bytes) (attrEnd pos : Nat) : Out Hdr :=
  if attrEnd < pos + 2 then .ok (.brk pos)
  else do
    let flags ← rd8 buf pos
    let code ← rd8 buf (pos + 1)
    let pos := pos + 2
    if flags &&& 0x10 ≠ 0 then
      if attrEnd < pos + 2 then .ok (.brk pos)
      else do
        let alen ← rd16 buf pos
        .ok (.hdr flags code alen (pos + 2))
    else
      if attrEnd < pos + 1 then .ok (.brk pos)
      else do
        let alen ← rd8 buf pos
        .ok (.hdr flags code alen (pos + 1))

/-- where a successfully decoded attribute goes -/
def attrStore (two : Bool) (s : AState) (a : Attr) : AState :=
  if a.code = 14 then { s with mpReach := a.binary }
  else if a.code = 15 then { s with mpUnreach := a.binary }
  else if a.code = 3 then { s with nexthop := a.binary.bind nhFromBytes }
  else if (a.code = 17 ∨ a.code = 18) ∧ ¬ two then s
  else { s with attrs := s.attrs ++ [a] }

/-- decode the value of an attribute of a known type and store it (or record the decode error) -/
def attrDecoded (two : Bool) (buf : Bytes) (s : AState) (flags code alen pos : Nat) : AState :=
  match attrDecode code ((buf.drop pos).take alen) alen two with
  | some d => attrStore two { s with pos := pos + alen } ⟨code, flags, d⟩
  | none =>
      if code ≠ 17 ∧ code ≠ 18 then
        { s with pos := pos + alen, errs := s.errs ++ [(code, flags)] }
      else { s with pos := pos + alen }

/-- the same through the index-explicit decoder: this is what the attribute loop calls
    (`attrDecodedW_eq`: it never panics and equals `attrDecoded`) -/
def attrDecodedW (two : Bool) (buf : Bytes) (s : AState) (flags code alen pos : Nat) : Out AState := do
  let r ← attrDecodeW code ((buf.drop pos).take alen) alen two
  match r with
  | some d => .ok (attrStore two { s with pos := pos + alen } ⟨code, flags, d⟩)
  | none =>
      if code ≠ 17 ∧ code ≠ 18 then
        .ok { s with pos := pos + alen, errs := s.errs ++ [(code, flags)] }
      else .ok { s with pos := pos + alen }

/-- `(flags ^ expected_flags) & (TRANSITIVE | OPTIONAL) > 0` -/
def flagsConflict (flags expected : Nat) : Bool := (flags ^^^ expected) &&& 0xc0 > 0

/-- an attribute whose type has canonical flags `expected` (as repaired): wrong flags are recorded and the
    attribute skipped, except MP_REACH / MP_UNREACH which are still decoded so that their NLRI can be withdrawn -/
def attrKnown (two : Bool) (buf : Bytes) (s : AState) (flags code alen pos expected : Nat) : AState :=
  let s1 := if flagsConflict flags expected then { s with errs := s.errs ++ [(code, flags)] } else s
  if flagsConflict flags expected ∧ code ≠ 14 ∧ code ≠ 15 then { s1 with pos := pos + alen }
  else attrDecoded two buf s1 flags code alen pos

/-- `attrKnown` through the index-explicit decoder -/
def attrKnownW (two : Bool) (buf : Bytes) (s : AState) (flags code alen pos expected : Nat) : Out AState :=
  let s1 := if flagsConflict flags expected then { s with errs := s.errs ++ [(code, flags)] } else s
  if flagsConflict flags expected ∧ code ≠ 14 ∧ code ≠ 15 then .ok { s1 with pos := pos + alen }
  else attrDecodedW two buf s1 flags code alen pos

/-- an attribute of a type without canonical flags -/
def attrUnknown (buf : Bytes) (s : AState) (flags code alen pos : Nat) : Out AState :=
  if flags &&& 0x80 = 0 then
    .ok { s with pos := pos + alen, errs := s.errs ++ [(code, flags)] }
  else if flags &&& 0x40 ≠ 0 then
    if pos + alen > buf.length then .err eMalformed
    else do
      let raw ← slice buf pos (pos + alen)
      .ok { s with pos := pos + alen, attrs := s.attrs ++ [⟨code, flags, .opq raw⟩] }
  else .ok { s with pos := pos + alen }

/-- everything after the `attr_end < position + alen` guard for one attribute -/
def attrBody (two : Bool) (buf : Bytes) (s : AState) (flags code alen pos : Nat) : Out AState :=
  if s.seen.contains code then
    if code = 14 ∨ code = 15 then .err eMalformed
    else .ok { s with pos := pos + alen }
  else
    let s := { s with seen := code :: s.seen }
    match canonicalFlags code with
    | some expected => attrKnownW two buf s flags code alen pos expected
    | none => attrUnknown buf s flags code alen pos

/-- `while c.position() < attr_end` -/
def attrLoop (two : Bool) (buf : Bytes) (attrEnd : Nat) : Nat → AState → Out AState
  | 0, _ => .panic
  | fuel + 1, s =>
      if s.pos < attrEnd then do
        let h ← attrHeader buf attrEnd s.pos
        match h with
        | .brk pos => .ok { s with pos := pos, trunc := true }
        | .hdr flags code alen pos =>
            if attrEnd < pos + alen then .ok { s with pos := pos, trunc := true }
            else do
              let s' ← attrBody two buf s flags code alen pos
              attrLoop two buf attrEnd fuel s'
      else .ok s

def isFlowspec (f : Nat) : Bool := f == 65669 || f == 131205 || f == 65670 || f == 131206

/-- the MP_REACH_NLRI payload -/
def parseMpReach (dec : HypDec) (c : Codec) (b : Bytes) : Out (Nat × List PNlri × Option Bytes) :=
  if b.length < 5 then .err eOptAttr
  else do
    let afi ← rd16 b 0
    let safi ← rd8 b 2
    let fam := famKey afi safi
    match c.addpath? fam with
    | none => .err eMalformed
    | some addpath => do
        let nhl ← rd8 b 3
        if b.length < 5 + nhl then .err eOptAttr
        else do
          let nexthop ←
            (if nhl = 0 then
              (if isFlowspec fam then .ok none else .err eOptAttr)
            else if nhl = 4 ∨ nhl = 16 ∨ nhl = 32 then do
              let d ← slice b 4 (4 + nhl)
              .ok (nhFromBytes d)
            else if nhl = 12 ∨ nhl = 24 then do
              let d ← slice b (4 + 8) (4 + nhl)
              .ok (nhFromBytes d)
            else if nhl = 48 then do
              -- VPN-IPv6 global + link-local, an RD before each
              let d1 ← slice b (4 + 8) (4 + 24)
              let d2 ← slice b (4 + 32) (4 + 48)
              .ok (nhFromBytes (d1 ++ d2))
            else .err eOptAttr : Out (Option Bytes))
          let _ ← rd8 b (4 + nhl)
          let rest ← slice b (5 + nhl) b.length
          let entries ← decodeNlriList dec fam addpath true rest
          .ok (fam, entries, nexthop)

def parseMpUnreach (dec : HypDec) (c : Codec) (b : Bytes) : Out (Nat × List PNlri) :=
  if b.length < 3 then .err eOptAttr
  else do
    let afi ← rd16 b 0
    let safi ← rd8 b 2
    let fam := famKey afi safi
    match c.addpath? fam with
    | none => .err eMalformed
    | some addpath => do
        let rest ← slice b 3 b.length
        let entries ← decodeNlriList dec fam addpath false rest
        .ok (fam, entries)

/-- `withdrawn_len`, `attr_len` and the two length checks as repaired (sum in `usize`) -/
def updateLens (buf : Bytes) : Out (Nat × Nat) := do
  let wl ← rd16 buf 19
  if buf.length < wl + 23 then .err eMalformed
  else
    -- `c.read_u16().map_err(..)`: an error, not an unwrap
    match rd16 buf (21 + wl) with
    | .ok al =>
        if buf.length < wl + al + 23 then .err eMalformed else .ok (wl, al)
    | _ => .err eMalformed

/-- the pre-repair check `buf.len() < (withdrawn_len + attr_len + 23u16).into()` (kept for the S6 witness) -/
def updateLensOld (p : Profile) (buf : Bytes) : Out (Nat × Nat) := do
  let wl ← rd16 buf 19
  if buf.length < wl + 23 then .err eMalformed
  else
    match rd16 buf (21 + wl) with
    | .ok al => do
        let s ← addU16 p wl al
        let s ← addU16 p s 23
        if buf.length < s then .err eMalformed else .ok (wl, al)
    | _ => .err eMalformed

/-- the error records appended after the attribute loop -/
def finalErrs (s : AState) (reachLen attrEnd : Nat) : List (Nat × Nat) :=
  let errs := s.errs
  let errs :=
    if reachLen ≠ 0 ∨ s.mpReach.isSome then
      let errs := if ¬ s.seen.contains 1 ∨ ¬ s.seen.contains 2 then errs ++ [(1, 0x40)] else errs
      if errs.isEmpty ∧ s.nexthop.isNone ∧ reachLen ≠ 0 then errs ++ [(3, 0x40)] else errs
    else errs
  if s.trunc ∨ s.pos ≠ attrEnd then errs ++ [(0, 0)] else errs

/-- legacy IPv4 NLRI after the attribute block -/
def legacyReach (dec : HypDec) (c : Codec) (buf : Bytes) (pos : Nat) : Out (List PNlri) :=
  if pos < buf.length then
    match c.addpath? FAM_IPV4 with
    | none => .err eMalformed
    | some ap => do
        let d ← slice buf pos buf.length
        decodeNlriList dec FAM_IPV4 ap true d
  else .ok []

/-- legacy IPv4 withdrawn routes -/
def legacyUnreach (dec : HypDec) (c : Codec) (buf : Bytes) (wl : Nat) : Out (List PNlri) :=
  if 0 < wl then
    match c.addpath? FAM_IPV4 with
    | none => .err eMalformed
    | some ap => do
        let d ← slice buf 21 (21 + wl)
        decodeNlriList dec FAM_IPV4 ap false d
  else .ok []

def mpReachOf (dec : HypDec) (c : Codec) : Option Bytes → Out (Option (Nat × List PNlri × Option Bytes))
  | some b => do
      let r ← parseMpReach dec c b
      .ok (some r)
  | none => .ok none

def mpUnreachOf (dec : HypDec) (c : Codec) : Option Bytes → Out (Option (Nat × List PNlri))
  | some b => do
      let r ← parseMpUnreach dec c b
      .ok (some r)
  | none => .ok none

/-- non-IPv4 End-of-RIB: MP_UNREACH_NLRI with no NLRI and nothing else in the message -/
def eorFamily (attrs : List Attr) (errs : List (Nat × Nat)) (reach unreach : List PNlri)
    (mpReach : Option (Nat × List PNlri × Option Bytes)) (mpUnreach : Option (Nat × List PNlri)) : Option Nat :=
  match mpUnreach with
  | some (fam, entries) =>
      if entries.isEmpty && reach.isEmpty
          && (match mpReach with | none => true | some (_, e, _) => e.isEmpty)
          && unreach.isEmpty && attrs.isEmpty && errs.isEmpty then some fam else none
  | none => none

/-- End-of-RIB detection, AS4 reconciliation, `ParsedUpdate::Routes` -/
def assemble (two : Bool) (s : AState) (errs : List (Nat × Nat)) (reach unreach : List PNlri)
    (mpReach : Option (Nat × List PNlri × Option Bytes)) (mpUnreach : Option (Nat × List PNlri)) : Out Msg :=
  match eorFamily s.attrs errs reach unreach mpReach mpUnreach with
  | some fam => .ok (.eor fam)
  | none => do
      let attrs ← if two then reconcileAs4 s.attrs else .ok s.attrs
      .ok (.update
        (if reach.isEmpty then none else some ⟨FAM_IPV4, s.nexthop, reach⟩)
        (match mpReach with
         | some (fam, e, nh) => if e.isEmpty then none else some ⟨fam, nh, e⟩
         | none => none)
        (if unreach.isEmpty then none else some ⟨FAM_IPV4, unreach⟩)
        (match mpUnreach with
         | some (fam, e) => if e.isEmpty then none else some ⟨fam, e⟩
         | none => none)
        attrs errs)

def parseUpdateWith (lens : Bytes → Out (Nat × Nat)) (dec : HypDec) (p : Profile) (c : Codec) (buf : Bytes)
    (hdrErr : Notif) : Out Msg :=
  if buf.length < 23 then .err hdrErr
  else do
    let (wl, al) ← lens buf
    let attrEnd := 23 + wl + al
    let reachLen ← subU64 p buf.length attrEnd
    let s ← attrLoop c.two buf attrEnd (buf.length + 1) { pos := 23 + wl }
    if reachLen = 0 ∧ al = 0 ∧ wl = 0 then .ok (.eor FAM_IPV4)
    else do
      let errs := finalErrs s reachLen attrEnd
      let reach ← legacyReach dec c buf attrEnd
      let unreach ← legacyUnreach dec c buf wl
      let mpReach ← mpReachOf dec c s.mpReach
      let mpUnreach ← mpUnreachOf dec c s.mpUnreach
      assemble c.two s errs reach unreach mpReach mpUnreach

def parseUpdate (dec : HypDec) (p : Profile) (c : Codec) (buf : Bytes) (hdrErr : Notif) : Out Msg :=
  parseUpdateWith updateLens dec p c buf hdrErr

/-! ## `parse_message`, `try_parse` -/

def parseMessageWith (lens : Bytes → Out (Nat × Nat)) (dec : HypDec) (p : Profile) (c : Codec) (buf : Bytes) :
    Out Msg :=
  if buf.length < 19 then .err ⟨1, 2, []⟩
  else do
    let code ← rd8 buf 18
    let d ← slice buf 16 18
    let hdrErr : Notif := ⟨1, 2, d⟩
    if code = 1 then parseOpen p buf hdrErr
    else if code = 2 then parseUpdateWith lens dec p c buf hdrErr
    else if code = 3 then
      if buf.length < 21 then .err hdrErr
      else do
        let ncode ← rd8 buf 19
        let sub ← rd8 buf 20
        let data ← slice buf 21 buf.length
        let (a, b, d) := notifCanon ncode sub data
        .ok (.notif a b d)
    else if code = 4 then
      if buf.length ≠ 19 then .err hdrErr else .ok .keepalive
    else if code = 5 then
      if buf.length < 23 then .err hdrErr
      else if 23 < buf.length then .err ⟨7, 1, buf⟩
      else do
        let f ← rd32 buf 19
        .ok (.refresh f)
    else .err ⟨1, 3, [code]⟩

def parseMessage (dec : HypDec) (p : Profile) (c : Codec) (buf : Bytes) : Out Msg :=
  parseMessageWith updateLens dec p c buf

/-- result of one `try_parse` call together with the number of bytes it removed from `src` -/
inductive TryRes where
  | more
  | msg (n : Nat) (m : Msg)
  | err (n : Nat) (e : Notif)
  | panic
  deriving DecidableEq, Repr

def tryParseWith (lens : Bytes → Out (Nat × Nat)) (dec : HypDec) (p : Profile) (c : Codec) (src : Bytes) :
    TryRes :=
  if src.length < 19 then .more
  else
    match rd16 src 16, slice src 16 18 with
    | .ok mlen, .ok d =>
        if mlen < 19 ∨ mlen > c.maxLen then .err 0 ⟨1, 2, d⟩
        else if src.length < mlen then .more
        else
          -- `src.split_to(message_len)`
          match parseMessageWith lens dec p c (src.take mlen) with
          | .ok m => .msg mlen m
          | .err e => .err mlen e
          | .panic => .panic
    | _, _ => .panic

def tryParse (dec : HypDec) (p : Profile) (c : Codec) (src : Bytes) : TryRes :=
  tryParseWith updateLens dec p c src

/-- the decoder for families outside the transcribed set used by the executable driver
    (never reached: `bgp` cases only negotiate transcribed families) -/
def noHypDec : HypDec := fun _ _ _ _ => .err eMalformed

end Rbgp.Wire
