/-
  Rbgp.Wire.SessProofs — C03, session stream: the checker `Sess.checkSess` accepts every run of the session model.
-/
import Rbgp.Wire.Sess
import Rbgp.Wire.ErrClass
import Rbgp.Wire.StreamProofs
set_option linter.unusedSimpArgs false
set_option linter.unusedVariables false
namespace Rbgp.Wire.Sess
open Rbgp.Wire Rbgp.Wire.Spec

/-- what every outcome of the model looks like -/
structure Good (eof : Bool) (o : SObs) : Prop where
  status : o.status = .closed ∨ (∃ st, o.status = .up st ∧ eof = false ∧ o.notifs = [])
  one : o.notifs.length ≤ 1
  cap : o.capExceeded = false
  codes : ∀ n ∈ o.notifs, n.1 = 1 ∨ n.1 = 2 ∨ n.1 = 3 ∨ n.1 = 5 ∨ n.1 = 7

theorem onMsg_notifs {st : SState} {m : Msg} {ns : List (Nat × Nat)} (h : onMsg st m = .inr ns) :
    ns.length ≤ 1 ∧ ∀ n ∈ ns, n.1 = 2 ∨ n.1 = 5 := by
  unfold onMsg at h
  cases m with
  | notif a b d => injection h with h; subst h; simp
  | «open» asn hold rid caps =>
    simp only at h
    split at h
    · split at h
      · cases h
      · injection h with h; subst h; simp
    · injection h with h; subst h; simp
  | keepalive =>
    simp only at h
    cases st <;> simp only at h
    · injection h with h; subst h; simp
    · cases h
    · cases h
  | update r mr u mu a e =>
    simp only at h
    split at h
    · cases h
    · injection h with h; subst h; simp
  | eor f =>
    simp only at h
    split at h
    · cases h
    · injection h with h; subst h; simp
  | refresh f =>
    simp only at h
    split at h
    · cases h
    · injection h with h; subst h; simp

/-- the class of a `try_parse` error, as a code -/
theorem err_code_of_class {maxLen : Nat} {buf : Bytes} {code sub : Nat} (h : errClassOk maxLen buf code sub = true) :
    code = 1 ∨ code = 2 ∨ code = 3 ∨ code = 7 := by
  unfold errClassOk at h
  split at h
  · split at h
    · simp only [Bool.and_eq_true, beq_iff_eq] at h; exact Or.inl h.1
    · unfold typeClassOk at h
      repeat' split at h
      all_goals simp only [Bool.or_eq_true, Bool.and_eq_true, beq_iff_eq] at h
      all_goals omega
  · cases h

theorem sessLoop_good {dec : HypDec} (hd : dec.NP) (hde : dec.E3) (p : Profile) (c : Codec) (eof : Bool) :
    ∀ fuel st buf, buf.length < fuel → Good eof (sessLoop dec p c eof fuel st buf) := by
  intro fuel
  induction fuel with
  | zero => intro st buf h; omega
  | succ fuel ih =>
    intro st buf hf
    unfold sessLoop
    simp only
    cases ht : tryParse dec p (if st = .opensent then preCodec else c) buf with
    | panic => exact absurd ht (tryParse_NP hd p _ buf)
    | more =>
      simp only
      cases eof with
      | true => exact ⟨Or.inl rfl, by simp, rfl, by simp⟩
      | false => exact ⟨Or.inr ⟨st, rfl, rfl, rfl⟩, by simp, rfl, by simp⟩
    | err n e =>
      simp only
      have := err_code_of_class (tryParse_err_class hde ht)
      refine ⟨Or.inl rfl, by simp, rfl, ?_⟩
      intro x hx
      simp only [List.mem_singleton] at hx
      subst hx
      rcases this with h | h | h | h <;> simp [h]
    | msg n m =>
      simp only
      obtain ⟨_, _, h19, _, hle⟩ := tryParse_msg ht
      cases ho : onMsg st m with
      | inl st' =>
        simp only
        exact ih st' (buf.drop n) (by simp only [List.length_drop]; omega)
      | inr ns =>
        simp only
        obtain ⟨h1, h2⟩ := onMsg_notifs ho
        refine ⟨Or.inl rfl, h1, rfl, ?_⟩
        intro x hx
        rcases h2 x hx with h | h <;> simp [h]

/-- session-stream master theorem: for every codec, phase, profile, chunking and end of stream, the checker accepts
    what the model does (never a panic / wedge; at most one NOTIFICATION, only together with closing; closed after the
    peer closed; a protocol-error code) -/
theorem checkSess_run_ok (dec : HypDec) (hd : dec.NP) (hde : dec.E3) (p : Profile) (c : Codec) (est : Bool)
    (chunks : List Bytes) (eof : Bool) : checkSess eof (runSess dec p c est chunks eof) = .ok := by
  unfold runSess
  simp only
  have g := sessLoop_good hd hde p c eof (chunks.flatten.length + 1) (if est then .established else .opensent)
    chunks.flatten (by omega)
  generalize sessLoop dec p c eof (chunks.flatten.length + 1) (if est then .established else .opensent) chunks.flatten = o at g
  obtain ⟨hs, h1, hc, hcodes⟩ := g
  unfold checkSess
  have hall : (o.notifs.all fun n => [1, 2, 3, 5, 7].contains n.1) = true := by
    rw [List.all_eq_true]
    intro n hn
    rcases hcodes n hn with h | h | h | h | h <;> simp [h]
  rcases hs with hcl | ⟨st, hup, he, hn⟩
  · rw [hcl]
    simp only [hc, Bool.false_eq_true, if_false]
    rw [if_neg (by omega)]
    simp only [bne_self_eq_false, Bool.and_false, Bool.false_eq_true, if_false]
    rw [hall]; rfl
  · rw [hup]
    simp only [hc, Bool.false_eq_true, if_false]
    rw [if_neg (by omega)]
    simp [hn, he]

/-! ## RTR -/

def RClean (r : RRec) : Prop := r ≠ .panic ∧ r ≠ .stall

theorem rtrDrain_clean (buf : Bytes) : ∀ r ∈ (rtrDrain buf).1, RClean r := by
  fun_induction rtrDrain buf with
  | case1 buf hm => intro r hr; simp only [List.mem_singleton] at hr; subst hr; exact ⟨by simp, by simp⟩
  | case2 buf he => intro r hr; simp only [List.mem_singleton] at hr; subst hr; exact ⟨by simp, by simp⟩
  | case3 buf hp => exact absurd hp (rtrDecode_spec buf).1
  | case4 buf m n hm hn r ih =>
    intro x hx
    simp only [List.mem_cons] at hx
    rcases hx with rfl | hx
    · exact ⟨by simp, by simp⟩
    · exact ih x hx
  | case5 buf m n hm hn =>
    obtain ⟨h8, hle, _⟩ := (rtrDecode_spec buf).2.1 m n hm
    exact absurd ⟨by omega, hle⟩ hn

theorem rtrStream_clean : ∀ (chunks : List Bytes) (buf : Bytes), ∀ r ∈ rtrStream buf chunks, RClean r := by
  intro chunks
  induction chunks with
  | nil => intro buf r hr; simp [rtrStream] at hr
  | cons ch rest ih =>
    intro buf r hr
    unfold rtrStream at hr
    have hd := rtrDrain_clean (buf ++ ch)
    cases hdr : rtrDrain (buf ++ ch) with
    | mk rs ob =>
      rw [hdr] at hr hd
      cases ob with
      | some b =>
        simp only [List.mem_append] at hr
        rcases hr with h | h
        · exact hd r h
        · exact ih b r h
      | none => exact hd r hr

/-- RTR session master theorem: the checker accepts every run of the RTR session model -/
theorem checkRtrSess_run_ok (chunks : List Bytes) (eof : Bool) :
    checkRtrSess eof (runRtrSess chunks eof) = .ok := by
  unfold runRtrSess
  simp only
  have hclean := rtrStream_clean chunks []
  have hno : (rtrStream [] chunks).any (fun r => r == .panic || r == .stall) = false := by
    rw [List.any_eq_false]
    intro r hr
    obtain ⟨h1, h2⟩ := hclean r hr
    simp [h1, h2]
  rw [hno]
  simp only [Bool.false_eq_true, if_false]
  cases eof with
  | true => simp [checkRtrSess]
  | false =>
    simp only [Bool.false_or]
    split <;> simp [checkRtrSess]

end Rbgp.Wire.Sess
