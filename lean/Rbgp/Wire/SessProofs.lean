/-
  Rbgp.Wire.SessProofs — C03, session stream: the checker `Sess.checkSess` accepts every run of the session model.
-/
import Rbgp.Wire.Sess
import Rbgp.Wire.ErrClass
set_option linter.unusedSimpArgs false
set_option linter.unusedVariables false
namespace Rbgp.Wire.Sess
open Rbgp.Wire Rbgp.Wire.Spec

/-- what every outcome of the model looks like -/
structure Good (eof : Bool) (o : SObs) : Prop where
  status : o.status = .closed ∨ (∃ st, o.status = .up st ∧ eof = false ∧ o.notifs = [])
  one : o.notifs.length ≤ 1
  cap : o.capExceeded = false
  codes : ∀ n ∈ o.notifs, n.1 = 1 ∨ n.1 = 2 ∨ n.1 = 3 ∨ n.1 = 5 ∨ n.1 = 7

theorem onMsg_notifs {st : SState} {m : Msg} {ns : List (Nat × Nat)} (h : onMsg st m = .inr ns) :
    ns.length ≤ 1 ∧ ∀ n ∈ ns, n.1 = 2 ∨ n.1 = 5 := by
  unfold onMsg at h
  cases m with
  | notif a b d => injection h with h; subst h; simp
  | «open» asn hold rid caps =>
    simp only at h
    split at h
    · split at h
      · cases h
      · injection h with h; subst h; simp
    · injection h with h; subst h; simp
  | keepalive =>
    simp only at h
    cases st <;> simp only at h
    · injection h with h; subst h; simp
    · cases h
    · cases h
  | update r mr u mu a e =>
    simp only at h
    split at h
    · cases h
    · injection h with h; subst h; simp
  | eor f =>
    simp only at h
    split at h
    · cases h
    · injection h with h; subst h; simp
  | refresh f =>
    simp only at h
    split at h
    · cases h
    · injection h with h; subst h; simp

/-- the class of a `try_parse` error, as a code -/
theorem err_code_of_class {maxLen : Nat} {buf : Bytes} {code sub : Nat} (h : errClassOk maxLen buf code sub = true) :
    code = 1 ∨ code = 2 ∨ code = 3 ∨ code = 7 := by
  unfold errClassOk at h
  split at h
  · split at h
    · simp only [Bool.and_eq_true, beq_iff_eq] at h; exact Or.inl h.1
    · unfold typeClassOk at h
      repeat' split at h
      all_goals simp only [Bool.or_eq_true, Bool.and_eq_true, beq_iff_eq] at h
      all_goals omega
  · cases h

theorem sessLoop_good {dec : HypDec} (hd : dec.NP) (hde : dec.E3) (p : Profile) (c : Codec) (eof : Bool) :
    ∀ fuel st buf, buf.length < fuel → Good eof (sessLoop dec p c eof fuel st buf) := by
  intro fuel
  induction fuel with
  | zero => intro st buf h; omega
  | succ fuel ih =>
    intro st buf hf
    unfold sessLoop
    simp only
    cases ht : tryParse dec p (if st = .opensent then preCodec else c) buf with
    | panic => exact absurd ht (tryParse_NP hd p _ buf)
    | more =>
      simp only
      cases eof with
      | true => exact ⟨Or.inl rfl, by simp, rfl, by simp⟩
      | false => exact ⟨Or.inr ⟨st, rfl, rfl, rfl⟩, by simp, rfl, by simp⟩
    | err n e =>
      simp only
      have := err_code_of_class (tryParse_err_class hde ht)
      refine ⟨Or.inl rfl, by simp, rfl, ?_⟩
      intro x hx
      simp only [List.mem_singleton] at hx
      subst hx
      rcases this with h | h | h | h <;> simp [h]
    | msg n m =>
      simp only
      obtain ⟨_, _, h19, _, hle⟩ := tryParse_msg ht
      cases ho : onMsg st m with
      | inl st' =>
        simp only
        exact ih st' (buf.drop n) (by simp only [List.length_drop]; omega)
      | inr ns =>
        simp only
        obtain ⟨h1, h2⟩ := onMsg_notifs ho
        refine ⟨Or.inl rfl, h1, rfl, ?_⟩
        intro x hx
        rcases h2 x hx with h | h <;> simp [h]

/-- session-stream master theorem: for every codec, phase, profile, chunking and end of stream, the checker accepts
    what the model does (never a panic / wedge; at most one NOTIFICATION, only together with closing; closed after the
    peer closed; a protocol-error code) -/
theorem checkSess_run_ok (dec : HypDec) (hd : dec.NP) (hde : dec.E3) (p : Profile) (c : Codec) (est : Bool)
    (chunks : List Bytes) (eof : Bool) : checkSess eof (runSess dec p c est chunks eof) = .ok := by
  unfold runSess
  simp only
  have g := sessLoop_good hd hde p c eof (chunks.flatten.length + 1) (if est then .established else .opensent)
    chunks.flatten (by omega)
  generalize sessLoop dec p c eof (chunks.flatten.length + 1) (if est then .established else .opensent) chunks.flatten = o at g
  obtain ⟨hs, h1, hc, hcodes⟩ := g
  unfold checkSess
  have hall : (o.notifs.all fun n => [1, 2, 3, 5, 7].contains n.1) = true := by
    rw [List.all_eq_true]
    intro n hn
    rcases hcodes n hn with h | h | h | h | h <;> simp [h]
  rcases hs with hcl | ⟨st, hup, he, hn⟩
  · rw [hcl]
    simp only [hc, Bool.false_eq_true, if_false]
    rw [if_neg (by omega)]
    simp only [bne_self_eq_false, Bool.and_false, Bool.false_eq_true, if_false]
    rw [hall]; rfl
  · rw [hup]
    simp only [hc, Bool.false_eq_true, if_false]
    rw [if_neg (by omega)]
    simp [hn, he]

end Rbgp.Wire.Sess
