/-
  Rbgp.Wire.UpdateRound — C05: what the model does with a rendered case, part 4: consequences of the structural
  checks, the checker's value syntax against the decoder, round trips of NLRI fields and MP attributes,
  AS4 reconciliation.
-/
import Rbgp.Wire.UpdateCut
set_option linter.unusedSimpArgs false
set_option linter.unusedVariables false
namespace Rbgp.Wire
open USpec

/-! ## consequences of the structural checks -/

theorem firstOcc_split : ∀ (items : List WItem) (seen : List Nat), firstOcc items seen = true →
    ∀ pre w post, items = pre ++ w :: post → w.kind ≠ 1 → (∀ x ∈ pre, x.code ≠ w.code) ∧ w.code ∉ seen := by
  intro items
  induction items with
  | nil => intro seen _ pre w post h; cases pre <;> cases h
  | cons a as ih =>
    intro seen h pre w post hsplit hk
    simp only [firstOcc, Bool.and_eq_true, Bool.or_eq_true, beq_iff_eq, Bool.not_eq_true'] at h
    obtain ⟨ha, hrest⟩ := h
    cases pre with
    | nil =>
      simp only [List.nil_append, List.cons.injEq] at hsplit
      obtain ⟨rfl, rfl⟩ := hsplit
      refine ⟨by simp, ?_⟩
      rcases ha with ha | ha
      · exact absurd ha hk
      · simpa using ha
    | cons p ps =>
      simp only [List.cons_append, List.cons.injEq] at hsplit
      obtain ⟨rfl, hsplit⟩ := hsplit
      obtain ⟨h1, h2⟩ := ih (a.code :: seen) hrest ps w post hsplit hk
      refine ⟨?_, fun hm => h2 (List.mem_cons_of_mem _ hm)⟩
      intro x hx
      simp only [List.mem_cons] at hx
      rcases hx with rfl | hx
      · intro heq; exact h2 (by simp [heq])
      · exact h1 x hx

theorem firstOf_of_first {l pre post : List WItem} {w : WItem} (h : l = pre ++ w :: post)
    (hne : ∀ x ∈ pre, x.code ≠ w.code) : firstOf l w.code = some w := by
  subst h
  unfold firstOf
  rw [List.find?_append]
  have : pre.find? (fun x => x.code == w.code) = none := by
    rw [List.find?_eq_none]
    intro x hx hc
    exact hne x hx (by simpa using hc)
  simp [this]

theorem dupOk_split : ∀ (items : List WItem) (prev : Option WItem), dupOk prev items = true →
    ∀ pre w post, items = pre ++ w :: post → w.kind = 1 →
      ∃ p, ((∃ pre', pre = pre' ++ [p]) ∨ (pre = [] ∧ prev = some p)) ∧
        p.kind ≠ 1 ∧ p.code = w.code ∧ p.flags = w.flags ∧ p.data = w.firstData := by
  intro items
  induction items with
  | nil => intro prev _ pre w post h; cases pre <;> cases h
  | cons a as ih =>
    intro prev h pre w post hsplit hk
    simp only [dupOk, Bool.and_eq_true, Bool.or_eq_true, bne_iff_ne, ne_eq] at h
    obtain ⟨ha, hrest⟩ := h
    cases pre with
    | nil =>
      simp only [List.nil_append, List.cons.injEq] at hsplit
      obtain ⟨rfl, rfl⟩ := hsplit
      rcases ha with ha | ha
      · exact absurd hk ha
      · cases prev with
        | none => cases ha
        | some p =>
          simp only [Bool.and_eq_true, bne_iff_ne, ne_eq, beq_iff_eq] at ha
          exact ⟨p, Or.inr ⟨rfl, rfl⟩, ha.1.1.1, ha.1.1.2, ha.1.2, ha.2⟩
    | cons q qs =>
      simp only [List.cons_append, List.cons.injEq] at hsplit
      obtain ⟨rfl, hsplit⟩ := hsplit
      obtain ⟨p, hp, rest⟩ := ih (some a) hrest qs w post hsplit hk
      refine ⟨p, Or.inl ?_, rest⟩
      rcases hp with ⟨pre', hp⟩ | ⟨rfl, hp⟩
      · exact ⟨a :: pre', by rw [hp]; rfl⟩
      · injection hp with hp; subst hp; exact ⟨[], rfl⟩

/-! ## the checker's notion of a malformed value is the decoder's -/

theorem segs2_invalid : ∀ fuel d acc, segsOk 2 true fuel d = false → asPathUp fuel d acc = none := by
  intro fuel
  induction fuel with
  | zero =>
    intro d acc h
    match d with
    | [] => simp [segsOk] at h
    | [_] => simp [asPathUp]
    | _ :: _ :: _ => simp [asPathUp]
  | succ fuel ih =>
    intro d acc h
    match d with
    | [] => simp [segsOk] at h
    | [_] => simp [asPathUp]
    | t :: c :: rest =>
      unfold asPathUp
      simp only [segsOk, Bool.true_and, Bool.and_eq_false_iff, decide_eq_false_iff_not, Bool.not_eq_false'] at h
      by_cases h1 : (!segTypeOk t || c == 0) = true
      · rw [if_pos h1]
      · rw [if_neg h1]
        simp only [segTypeOk, Bool.or_eq_true, Bool.not_eq_true', Bool.and_eq_false_iff, decide_eq_false_iff_not,
          beq_iff_eq, not_or, Decidable.not_not] at h1
        by_cases h2 : rest.length < c * 2
        · rw [if_pos h2]
        · rw [if_neg h2]
          apply ih
          rcases h with (((h | h) | h) | h) | h
          · omega
          · omega
          · simp at h; omega
          · omega
          · exact h

theorem segs4_invalid : ∀ fuel d, segsOk 4 true fuel d = false → asPathOk true fuel d = false := by
  intro fuel
  induction fuel with
  | zero =>
    intro d h
    match d with
    | [] => simp [segsOk] at h
    | [_] => simp [asPathOk]
    | _ :: _ :: _ => simp [asPathOk]
  | succ fuel ih =>
    intro d h
    match d with
    | [] => simp [segsOk] at h
    | [_] => simp [asPathOk]
    | t :: c :: rest =>
      unfold asPathOk
      simp only [segsOk, Bool.true_and, Bool.and_eq_false_iff, decide_eq_false_iff_not, Bool.not_eq_false'] at h
      by_cases h1 : (!segTypeOk t || (true && c == 0)) = true
      · rw [if_pos h1]
      · rw [if_neg h1]
        simp only [segTypeOk, Bool.true_and, Bool.or_eq_true, Bool.not_eq_true', Bool.and_eq_false_iff,
          decide_eq_false_iff_not, beq_iff_eq, not_or, Decidable.not_not] at h1
        by_cases h2 : rest.length < c * 4
        · rw [if_pos h2]
        · rw [if_neg h2]
          apply ih
          rcases h with (((h | h) | h) | h) | h
          · omega
          · omega
          · simp at h; omega
          · omega
          · exact h

theorem aigp_invalid : ∀ fuel d, USpec.aigpOk fuel d = false → Rbgp.Wire.aigpOk fuel d = false := by
  intro fuel
  induction fuel with
  | zero =>
    intro d h
    match d with
    | [] => simp [USpec.aigpOk] at h
    | _ :: _ => simp [Rbgp.Wire.aigpOk]
  | succ fuel ih =>
    intro d h
    match d with
    | [] => simp [USpec.aigpOk] at h
    | [_] => simp [Rbgp.Wire.aigpOk]
    | [_, _] => simp [Rbgp.Wire.aigpOk]
    | _ :: lh :: ll :: rest =>
      unfold Rbgp.Wire.aigpOk
      simp only [USpec.aigpOk, Bool.and_eq_false_iff, decide_eq_false_iff_not] at h
      simp only
      by_cases h1 : lh * 256 + ll < 3 ∨ 3 + rest.length < lh * 256 + ll
      · rw [if_pos h1]
      · rw [if_neg h1]
        apply ih
        rcases h with (h | h) | h
        · omega
        · omega
        · exact h

/-- a value the checker calls malformed is rejected by `Attribute::decode` (types with a class, not MP) -/
theorem invalid_decode_none {two : Bool} {code : Nat} {d : Bytes} (hk : code ∈ knownCodes) (hmp : isMp code = false)
    (h : validValue two code d = false) : attrDecode code d d.length two = none := by
  simp only [knownCodes, List.mem_cons, List.mem_nil_iff, or_false] at hk
  rcases hk with rfl | rfl | rfl | rfl | rfl | rfl | rfl | rfl | rfl | rfl | rfl | rfl | rfl | rfl | rfl | rfl | rfl | rfl | rfl | rfl
  · -- ORIGIN
    simp only [validValue, if_true, Bool.and_eq_false_iff, beq_eq_false_iff_ne, ne_eq] at h
    simp only [attrDecode, ne_eq, not_true_eq_false, if_false, if_true, decOrigin]
    by_cases hl : d.length = 1
    · rw [if_neg (by omega)]
      match d, hl with
      | [v], _ =>
        simp only
        rcases h with h | h
        · exact absurd rfl h
        · simp at h; rw [if_pos (by omega)]
    · rw [if_pos hl]
  · -- AS_PATH
    simp only [validValue, Nat.reduceEqDiff, if_false, if_true] at h
    simp only [attrDecode, ne_eq, not_true_eq_false, if_false, Nat.reduceEqDiff, false_or, or_self, if_true, decAsPath]
    cases two with
    | true =>
      simp only [if_true] at h ⊢
      rw [segs2_invalid _ _ _ h]; rfl
    | false =>
      simp only [Bool.false_eq_true, if_false] at h ⊢
      rw [segs4_invalid _ _ h]; rfl
  · -- NEXT_HOP
    simp [validValue] at h
    simp [attrDecode, decExact, h]
  · simp [validValue] at h
    simp [attrDecode, decU32, h]
  · simp [validValue] at h
    simp [attrDecode, decExact, h]
  · simp [validValue] at h
    simp [attrDecode, decU32, h]
  · simp [validValue] at h
    simp [attrDecode, decU32, h]
  · simp [validValue] at h
    simp [attrDecode, decMultiple, h]
  · simp [isMp] at hmp
  · simp [isMp] at hmp
  · -- AIGP
    simp only [validValue, Nat.reduceEqDiff, if_false, false_or, or_self, if_true] at h
    simp only [attrDecode, ne_eq, not_true_eq_false, if_false, Nat.reduceEqDiff, false_or, or_self, if_true, decAigp]
    rw [aigp_invalid _ _ h]; rfl
  · simp [validValue] at h
  · simp [validValue] at h
    simp only [attrDecode, ne_eq, not_true_eq_false, if_false, Nat.reduceEqDiff, false_or, or_self, if_true, decAggregator]
    rw [if_pos (by omega)]
  · simp [validValue] at h
    simp [attrDecode, decMultiple, h]
  · simp [validValue] at h
    simp [attrDecode, decMultiple, h]
  · -- AS4_PATH
    simp only [validValue, Nat.reduceEqDiff, if_false, false_or, or_self, if_true, Bool.and_eq_false_iff,
      beq_eq_false_iff_ne, ne_eq, decide_eq_false_iff_not] at h
    simp only [attrDecode, ne_eq, not_true_eq_false, if_false, Nat.reduceEqDiff, false_or, or_self, if_true, decAs4Path]
    by_cases hl : d.length % 2 ≠ 0 ∨ d.length < 6
    · rw [if_pos hl]
    · rw [if_neg hl]
      rcases h with (h | h) | h
      · omega
      · omega
      · rw [segs4_invalid _ _ h]; rfl
  · simp [validValue] at h
    simp [attrDecode, decExact, h]
  · simp [validValue] at h
    simp [attrDecode, decMultiple, h]
  · simp [validValue] at h
  · simp [validValue] at h

/-! ## attribute types stored as received -/

theorem be_inj4 {d d' : Bytes} (h4 : d.length = 4) (h4' : d'.length = 4) (ho : ∀ x ∈ d, x < 256)
    (ho' : ∀ x ∈ d', x < 256) (h : be d = be d') : d = d' := by
  match d, h4, d', h4' with
  | [a, b, c, e], _, [a', b', c', e'], _ =>
    simp only [be, beVal] at h
    simp only [List.mem_cons, List.mem_nil_iff, or_false, forall_eq_or_imp, forall_eq] at ho ho'
    have : a = a' ∧ b = b' ∧ c = c' ∧ e = e' := by omega
    obtain ⟨rfl, rfl, rfl, rfl⟩ := this
    rfl

/-- what `Attribute::decode` stores for the types the duplicate clause looks at -/
theorem decode_identity {two : Bool} {code : Nat} {d : Bytes} {x : AttrData} (hid : identityStored code = true)
    (h : attrDecode code d d.length two = some x) :
    (code = 1 → ∃ v, d = [v] ∧ x = .val v) ∧
    (code ≠ 1 → (x = .bin d ∨ (d.length = 4 ∧ x = .val (be d)))) := by
  simp only [identityStored, List.contains_cons, List.contains_nil, Bool.or_false, Bool.or_eq_true, beq_iff_eq] at hid
  rcases hid with rfl | rfl | rfl | rfl | rfl | rfl | rfl | rfl | rfl
  · refine ⟨fun _ => ?_, fun h1 => absurd rfl h1⟩
    simp only [attrDecode, ne_eq, not_true_eq_false, if_false, if_true, decOrigin] at h
    split at h
    · cases h
    · match d with
      | [v] =>
        simp only at h
        split at h
        · cases h
        · injection h with h; exact ⟨v, rfl, h.symm⟩
      | [] => simp at h
      | _ :: _ :: _ => simp at h
  all_goals refine ⟨fun h1 => by omega, fun _ => ?_⟩
  · simp only [attrDecode, ne_eq, not_true_eq_false, if_false, Nat.reduceEqDiff, true_or, or_true, if_true, decU32] at h
    split at h
    · cases h
    · injection h with h; exact Or.inr ⟨by omega, h.symm⟩
  · simp only [attrDecode, ne_eq, not_true_eq_false, if_false, Nat.reduceEqDiff, true_or, or_true, if_true, decU32] at h
    split at h
    · cases h
    · injection h with h; exact Or.inr ⟨by omega, h.symm⟩
  · simp only [attrDecode, ne_eq, not_true_eq_false, if_false, Nat.reduceEqDiff, true_or, or_true, if_true, decU32] at h
    split at h
    · cases h
    · injection h with h; exact Or.inr ⟨by omega, h.symm⟩
  · simp only [attrDecode, ne_eq, not_true_eq_false, if_false, Nat.reduceEqDiff, false_or, true_or, or_true, or_self,
      if_true, decMultiple] at h
    split at h
    · cases h
    · injection h with h; exact Or.inl h.symm
  · simp only [attrDecode, ne_eq, not_true_eq_false, if_false, Nat.reduceEqDiff, false_or, true_or, or_true, or_self,
      if_true, decMultiple] at h
    split at h
    · cases h
    · injection h with h; exact Or.inl h.symm
  · simp only [attrDecode, ne_eq, not_true_eq_false, if_false, Nat.reduceEqDiff, false_or, true_or, or_true, or_self,
      if_true, decMultiple] at h
    split at h
    · cases h
    · injection h with h; exact Or.inl h.symm
  · simp only [attrDecode, ne_eq, not_true_eq_false, if_false, Nat.reduceEqDiff, false_or, true_or, or_true, or_self,
      if_true, decMultiple] at h
    split at h
    · cases h
    · injection h with h; exact Or.inl h.symm
  · simp only [attrDecode, ne_eq, not_true_eq_false, if_false, Nat.reduceEqDiff, false_or, true_or, or_true, or_self,
      if_true, decAigp] at h
    split at h
    · injection h with h; exact Or.inl h.symm
    · cases h

/-! ## NLRI fields and MP attributes as rendered -/

theorem pfxsBytes_nil_iff {ap : Bool} {l : List CPfx} (h : (pfxsBytes ap l).length = 0) : l = [] := by
  cases l with
  | nil => rfl
  | cons q qs => simp [pfxsBytes, pfxBytes] at h

theorem legacyReach_render {dec : HypDec} {c : Codec} {u : CUpdate} {cs : List Corr} {buf : Bytes}
    (hl : Layout c u cs buf) (hlen : buf.length = totalLen c u cs)
    (hpr : legacyNlriBytes c u cs = pfxsBytes (c.ap FAM_IPV4) u.nlri)
    (hn : u.nlri = [] ∨ ∃ ap, negotiated c FAM_IPV4 = some ap ∧ ∀ p ∈ u.nlri, pfxOk 32 ap p = true) :
    legacyReach dec c buf (23 + (wdB c u).length + (blockBytes c u cs).length) = .ok (u.nlri.map (padAddr · 4)) := by
  have ht : totalLen c u cs = 23 + (wdB c u).length + (blockBytes c u cs).length + (legacyNlriBytes c u cs).length := rfl
  unfold legacyReach
  by_cases hlt : 23 + (wdB c u).length + (blockBytes c u cs).length < buf.length
  · rw [if_pos hlt]
    rcases hn with h0 | ⟨ap, hneg, hok⟩
    · exfalso
      rw [hpr, h0] at ht
      simp [pfxsBytes] at ht
      omega
    · rw [← negotiated_eq, hneg]
      simp only
      rw [slice_of_drop (by omega) (by omega), hl.dNl]
      simp only [Out.bind_ok]
      have e : buf.length - (23 + (wdB c u).length + (blockBytes c u cs).length) = (legacyNlriBytes c u cs).length := by omega
      rw [e, List.take_length, decode_v4, hpr, ap_of_negotiated hneg, nlriLoop_render 32 ap u.nlri hok _ _ (by omega)]
      simp only [List.reverse_nil, List.nil_append]
  · rw [if_neg hlt]
    have hz : (legacyNlriBytes c u cs).length = 0 := by omega
    rw [hpr] at hz
    rw [pfxsBytes_nil_iff hz]
    rfl

theorem decode_fam {dec : HypDec} {afi safi bits : Nat} (hb : famBits afi = some bits) (hs : safi = 1 ∨ safi = 2)
    (ap r : Bool) (bs : Bytes) :
    decodeNlriList dec (famKey afi safi) ap r bs = nlriLoop bits ap (bs.length + 1) bs bs.length [] := by
  unfold famBits at hb
  split at hb
  · rename_i h1; subst h1
    injection hb with hb; subst hb
    rcases hs with rfl | rfl <;> simp [decodeNlriList, isV4Fam, famKey]
  · split at hb
    · rename_i h2; subst h2
      injection hb with hb; subst hb
      rcases hs with rfl | rfl <;> simp [decodeNlriList, isV4Fam, isV6Fam, famKey]
    · cases hb

theorem parseMpReach_render {dec : HypDec} {c : Codec} {m : CMpReach} {bits : Nat} {ap : Bool}
    (hb : famBits m.afi = some bits) (hs : m.safi = 1 ∨ m.safi = 2)
    (hneg : negotiated c (famKey m.afi m.safi) = some ap) (hok : ∀ p ∈ m.nlri, pfxOk bits ap p = true)
    (hnh : m.nh.length = 4 ∨ m.nh.length = 16 ∨ m.nh.length = 32) :
    parseMpReach dec c (mprAttr c m).data =
      .ok (famKey m.afi m.safi, m.nlri.map (padAddr · (bits / 8)), nhFromBytes m.nh) := by
  have hafi : m.afi < 65536 := by
    unfold famBits at hb; split at hb
    · omega
    · split at hb
      · omega
      · cases hb
  have hap := ap_of_negotiated hneg
  have hdata : (mprAttr c m).data = be16Bytes m.afi ++ (m.safi :: m.nh.length :: (m.nh ++ (0 :: pfxsBytes ap m.nlri))) := by
    simp [mprAttr, hap]
  rw [hdata]
  generalize hD : be16Bytes m.afi ++ (m.safi :: m.nh.length :: (m.nh ++ (0 :: pfxsBytes ap m.nlri))) = D
  have hDlen : D.length = 5 + m.nh.length + (pfxsBytes ap m.nlri).length := by
    rw [← hD]; simp [be16Bytes]; omega
  have h0 : rd16 D 0 = .ok m.afi := rd16_be16 hafi (by rw [← hD]; rfl)
  have hd2 : D.drop 2 = m.safi :: m.nh.length :: (m.nh ++ (0 :: pfxsBytes ap m.nlri)) := by
    rw [← hD]; simp [be16Bytes]
  have h2 : rd8 D 2 = .ok m.safi := rd8_of_drop hd2
  have hd3 : D.drop 3 = m.nh.length :: (m.nh ++ (0 :: pfxsBytes ap m.nlri)) := by
    have := congrArg (List.drop 1) hd2
    rw [List.drop_drop] at this; simpa using this
  have h3 : rd8 D 3 = .ok m.nh.length := rd8_of_drop hd3
  have hd4 : D.drop 4 = m.nh ++ (0 :: pfxsBytes ap m.nlri) := by
    have := congrArg (List.drop 1) hd3
    rw [List.drop_drop] at this; simpa using this
  have hd4n : D.drop (4 + m.nh.length) = 0 :: pfxsBytes ap m.nlri := by
    have := congrArg (List.drop m.nh.length) hd4
    rw [List.drop_drop, drop_app _ _ _ rfl] at this; exact this
  have h4n : rd8 D (4 + m.nh.length) = .ok 0 := rd8_of_drop hd4n
  have hd5n : D.drop (5 + m.nh.length) = pfxsBytes ap m.nlri := by
    have := congrArg (List.drop 1) hd4n
    rw [List.drop_drop] at this
    have e : 4 + m.nh.length + 1 = 5 + m.nh.length := by omega
    rw [e] at this; simpa using this
  have hsl : slice D 4 (4 + m.nh.length) = .ok m.nh := by
    rw [slice_of_drop (by omega) (by omega), hd4]
    have : 4 + m.nh.length - 4 = m.nh.length := by omega
    rw [this]; simp
  have hrest : slice D (5 + m.nh.length) D.length = .ok (pfxsBytes ap m.nlri) := by
    rw [slice_of_drop (by omega) (by omega), hd5n]
    have : D.length - (5 + m.nh.length) = (pfxsBytes ap m.nlri).length := by omega
    rw [this]; simp
  unfold parseMpReach
  rw [if_neg (by omega), h0, h2]
  simp only [Out.bind_ok]
  rw [← negotiated_eq, hneg]
  simp only
  rw [h3]
  simp only [Out.bind_ok]
  rw [if_neg (by omega), if_neg (by omega), if_pos hnh, hsl]
  simp only [Out.bind_ok]
  rw [h4n]
  simp only [Out.bind_ok]
  rw [hrest]
  simp only [Out.bind_ok]
  rw [decode_fam hb hs, nlriLoop_render bits ap m.nlri hok _ _ (by omega)]
  simp

theorem parseMpUnreach_render {dec : HypDec} {c : Codec} {m : CMpUnreach} {bits : Nat} {ap : Bool}
    (hb : famBits m.afi = some bits) (hs : m.safi = 1 ∨ m.safi = 2)
    (hneg : negotiated c (famKey m.afi m.safi) = some ap) (hok : ∀ p ∈ m.nlri, pfxOk bits ap p = true) :
    parseMpUnreach dec c (mpuAttr c m).data = .ok (famKey m.afi m.safi, m.nlri.map (padAddr · (bits / 8))) := by
  have hafi : m.afi < 65536 := by
    unfold famBits at hb; split at hb
    · omega
    · split at hb
      · omega
      · cases hb
  have hap := ap_of_negotiated hneg
  have hdata : (mpuAttr c m).data = be16Bytes m.afi ++ (m.safi :: pfxsBytes ap m.nlri) := by
    simp [mpuAttr, hap]
  rw [hdata]
  generalize hD : be16Bytes m.afi ++ (m.safi :: pfxsBytes ap m.nlri) = D
  have hDlen : D.length = 3 + (pfxsBytes ap m.nlri).length := by
    rw [← hD]; simp [be16Bytes]; omega
  have h0 : rd16 D 0 = .ok m.afi := rd16_be16 hafi (by rw [← hD]; rfl)
  have hd2 : D.drop 2 = m.safi :: pfxsBytes ap m.nlri := by
    rw [← hD]; simp [be16Bytes]
  have h2 : rd8 D 2 = .ok m.safi := rd8_of_drop hd2
  have hd3 : D.drop 3 = pfxsBytes ap m.nlri := by
    have := congrArg (List.drop 1) hd2
    rw [List.drop_drop] at this; simpa using this
  have hrest : slice D 3 D.length = .ok (pfxsBytes ap m.nlri) := by
    rw [slice_of_drop (by omega) (by omega), hd3]
    have : D.length - 3 = (pfxsBytes ap m.nlri).length := by omega
    rw [this]; simp
  unfold parseMpUnreach
  rw [if_neg (by omega), h0, h2]
  simp only [Out.bind_ok]
  rw [← negotiated_eq, hneg]
  simp only
  rw [hrest]
  simp only [Out.bind_ok]
  rw [decode_fam hb hs, nlriLoop_render bits ap m.nlri hok _ _ (by omega)]
  simp

/-! ## AS4 reconciliation leaves every other attribute alone -/

theorem reconcileAgg_keeps {as4Agg : Option Attr} {l : List Attr} {r : Bool × List Attr}
    (h : reconcileAgg as4Agg l = .ok r) : ∀ a ∈ r.2, a.code ≠ 7 → a ∈ l := by
  unfold reconcileAgg at h
  split at h
  · obtain ⟨asn, _, h⟩ := bind_eq_ok h
    split at h
    · obtain ⟨bin, _, h⟩ := bind_eq_ok h
      obtain ⟨l', hm, h⟩ := bind_eq_ok h
      injection h with h; subst h
      intro a ha h7
      rcases mapFirst_mem _ _ _ _ hm a ha with h1 | ⟨x, hx, hc, hfx⟩
      · exact h1
      · injection hfx with hfx; subst hfx
        exact absurd hc h7
    · injection h with h; subst h
      exact fun a ha _ => ha
  · injection h with h; subst h
    exact fun a ha _ => ha

theorem reconcilePath_keeps {as4Path : Option Attr} {l l' : List Attr}
    (h : reconcilePath as4Path l = .ok l') : ∀ a ∈ l', a.code ≠ 2 → a ∈ l := by
  unfold reconcilePath at h
  split at h
  · injection h with h; subst h
    exact fun a ha _ => ha
  · intro a ha h2
    rcases mapFirst_mem _ _ _ _ h a ha with h1 | ⟨x, hx, hc, hfx⟩
    · exact h1
    · obtain ⟨p, _, hfx⟩ := bind_eq_ok hfx
      obtain ⟨p4, _, hfx⟩ := bind_eq_ok hfx
      obtain ⟨m, _, hfx⟩ := bind_eq_ok hfx
      injection hfx with hfx; subst hfx
      exact absurd hc h2

theorem reconcileAs4_keeps {l l' : List Attr} (h : reconcileAs4 l = .ok l') :
    ∀ a ∈ l', a.code ≠ 2 → a.code ≠ 7 → a ∈ l := by
  unfold reconcileAs4 at h
  simp only at h
  obtain ⟨r, hr, h⟩ := bind_eq_ok h
  have r1 := removeFirst_spec 17 l
  have r2 := removeFirst_spec 18 (removeFirst 17 l).2
  have lift : ∀ a ∈ r.2, a.code ≠ 7 → a ∈ l := fun a ha h7 => r1.2 a (r2.2 a (reconcileAgg_keeps hr a ha h7))
  split at h
  · injection h with h; subst h
    exact fun a ha _ h7 => lift a ha h7
  · intro a ha h2 h7
    exact lift a (reconcilePath_keeps h a ha h2) h7

theorem ok_of_NP_NE {α} {x : Out α} (h1 : x.NP) (h2 : x.NE) : ∃ a, x = .ok a := by
  cases x with
  | ok a => exact ⟨a, rfl⟩
  | err e => exact absurd rfl (h2 e)
  | panic => exact absurd h1 (by simp)

end Rbgp.Wire
