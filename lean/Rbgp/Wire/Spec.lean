/-
  Rbgp.Wire.Spec — C03 written from the property text as a reference checker over observations.

  "Whatever bytes arrive on a BGP session, an RTR session or the BFD socket, the decoder terminates and
   returns exactly one of: a message, a request for more bytes, or a protocol error; it never panics in
   any build profile, never loops without consuming input, and a complete frame in the buffer is always
   either consumed or rejected."

  The checker replays the byte stream itself (it knows the chunks that were fed) and judges every
  per-call record:  message ⇒ the consumed count is the header length of the frame at the front of the
  buffer, 19 ≤ n ≤ max;  need-more ⇒ nothing consumed and no complete frame in the buffer;  error ⇒ ends
  the session;  `panic` / `stall` are never acceptable;  the record list must account for every chunk.
  Imports the model only for types (`Bytes`); calls no model function.
-/
import Rbgp.Wire.Basic
namespace Rbgp.Wire.Spec
open Rbgp.Wire

inductive Verdict where
  | ok
  | fail (idx : Nat) (clause : String)
  deriving DecidableEq, Repr

/-- a per-call record reduced to what the property speaks about -/
inductive SRec where
  | msg (n rem : Nat)
  | more (rem : Nat)
  | err (n rem : Nat)
  | errc (n rem code sub : Nat)   -- BGP: an error with the NOTIFICATION code / subcode it maps to
  | panic
  | stall
  deriving DecidableEq, Repr

/-- the 16-bit length field of the BGP header at the front of `buf` -/
def declared (buf : Bytes) : Option Nat :=
  match buf[16]?, buf[17]? with
  | some h, some l => some (h * 256 + l)
  | _, _ => none

/-- "a complete frame in the buffer": the header is there and as many bytes as it announces -/
def frameComplete (buf : Bytes) : Bool :=
  19 ≤ buf.length &&
    match declared buf with
    | some d => d ≤ buf.length
    | none => false

/-- is `n` the frame at the front of `buf`, within the negotiated maximum? -/
def isFrame (maxLen : Nat) (buf : Bytes) (n : Nat) : Bool :=
  19 ≤ buf.length && declared buf == some n && 19 ≤ n && n ≤ maxLen && n ≤ buf.length

/-- the NOTIFICATION an error inside a well-framed message of type `t` may map to (RFC 4271 §6.1-6.3; RFC 7313 §5):
    OPEN ⇒ OPEN Message Error (2); UPDATE ⇒ UPDATE Message Error (3); ROUTE-REFRESH ⇒ ROUTE-REFRESH Message Error (7);
    for every type also Message Header Error / Bad Message Length (1, 2); an unknown type ⇒ Bad Message Type (1, 3) -/
def typeClassOk (t code sub : Nat) : Bool :=
  if t = 1 then code == 2 || (code == 1 && sub == 2)
  else if t = 2 then code == 3 || (code == 1 && sub == 2)
  else if t = 3 ∨ t = 4 then code == 1 && sub == 2
  else if t = 5 then code == 7 || (code == 1 && sub == 2)
  else code == 1 && sub == 3

/-- the error class demanded for the frame at the front of `buf`: a header length outside [19, max] ⇒ (1, 2);
    otherwise by message type -/
def errClassOk (maxLen : Nat) (buf : Bytes) (code sub : Nat) : Bool :=
  match declared buf, buf[18]? with
  | some d, some t => if d < 19 ∨ d > maxLen then code == 1 && sub == 2 else typeClassOk t code sub
  | _, _ => false

def checkBgp (maxLen : Nat) : Nat → Bytes → List Bytes → List SRec → Verdict
  | i, _, _, [] => .fail i "observation-ends-before-the-decoder-asked-for-more-or-failed"
  | i, buf, rest, r :: rs =>
      match r with
      | .panic => .fail i "panic"
      | .stall => .fail i "stall"
      | .msg n rem =>
          if !isFrame maxLen buf n then .fail i "message-is-not-the-frame-at-the-front-of-the-buffer"
          else if rem ≠ buf.length - n then .fail i "message-consumed-count-wrong"
          else checkBgp maxLen (i + 1) (buf.drop n) rest rs
      | .more rem =>
          if frameComplete buf then .fail i "need-more-although-a-complete-frame-is-buffered"
          else if rem ≠ buf.length then .fail i "need-more-consumed-bytes"
          else match rest with
            | [] => if rs.isEmpty then .ok else .fail (i + 1) "records-after-the-last-chunk"
            | ch :: rest' => checkBgp maxLen (i + 1) (buf ++ ch) rest' rs
      | .err _ _ => .fail i "error-record-without-notification-code"
      | .errc n rem code sub =>
          if n + rem ≠ buf.length then .fail i "error-consumed-count-wrong"
          else if !errClassOk maxLen buf code sub then .fail i "error-code-does-not-fit-the-message-type"
          else if rs.isEmpty then .ok else .fail (i + 1) "records-after-a-session-error"

def checkBgpCase (maxLen : Nat) (chunks : List Bytes) (recs : List SRec) : Verdict :=
  match chunks with
  | [] => if recs.isEmpty then .ok else .fail 0 "records-after-the-last-chunk"
  | ch :: rest => checkBgp maxLen 0 ch rest recs

/-! ### RTR: "a PDU whose declared length is available is consumed (8 ≤ n = declared length ≤ len) or rejected" -/

def declaredRtr (buf : Bytes) : Option Nat :=
  match buf[4]?, buf[5]?, buf[6]?, buf[7]? with
  | some a, some b, some c, some d => some (((a * 256 + b) * 256 + c) * 256 + d)
  | _, _, _, _ => none

def pduAvailable (buf : Bytes) : Bool :=
  match declaredRtr buf with
  | some d => d ≤ buf.length
  | none => false

def checkRtr : Nat → Bytes → List Bytes → List SRec → Verdict
  | i, _, _, [] => .fail i "observation-ends-before-the-decoder-asked-for-more-or-failed"
  | i, buf, rest, r :: rs =>
      match r with
      | .panic => .fail i "panic"
      | .stall => .fail i "stall"
      | .msg n rem =>
          if n < 8 then .fail i "rtr-pdu-consumed-less-than-a-header"
          else if declaredRtr buf ≠ some n then .fail i "rtr-pdu-consumed-is-not-its-declared-length"
          else if n > buf.length ∨ rem ≠ buf.length - n then .fail i "rtr-pdu-consumed-count-wrong"
          else checkRtr (i + 1) (buf.drop n) rest rs
      | .more rem =>
          if pduAvailable buf then .fail i "rtr-need-more-although-the-declared-pdu-is-buffered"
          else if rem ≠ buf.length then .fail i "need-more-consumed-bytes"
          else match rest with
            | [] => if rs.isEmpty then .ok else .fail (i + 1) "records-after-the-last-chunk"
            | ch :: rest' => checkRtr (i + 1) (buf ++ ch) rest' rs
      | .errc _ _ _ _ => .fail i "unexpected-record"
      | .err n rem =>
          if n + rem ≠ buf.length then .fail i "error-consumed-count-wrong"
          else if rs.isEmpty then .ok else .fail (i + 1) "records-after-a-session-error"

def checkRtrCase (chunks : List Bytes) (recs : List SRec) : Verdict :=
  match chunks with
  | [] => if recs.isEmpty then .ok else .fail 0 "records-after-the-last-chunk"
  | ch :: rest => checkRtr 0 ch rest recs

/-! ### BFD (datagrams): decoded, or rejected; never a panic; a decoded packet is a whole packet -/

inductive BObs where
  | decoded
  | rejected
  | panic
  deriving DecidableEq, Repr

def checkBfd (buf : Bytes) : BObs → Verdict
  | .panic => .fail 0 "panic"
  | .rejected => .ok
  | .decoded =>
      if 24 ≤ buf.length ∧ buf[3]? = some buf.length then .ok
      else .fail 0 "bfd-decoded-a-packet-whose-length-octet-disagrees"

/-! ### attribute bodies parsed lazily (TUNNEL_ENCAP, PREFIX_SID, BGP-LS): returns, without a panic -/

inductive AObs where
  | done
  | panic
  | stall
  deriving DecidableEq, Repr

def checkAttrBody : AObs → Verdict
  | .done => .ok
  | .panic => .fail 0 "panic"
  | .stall => .fail 0 "stall"

end Rbgp.Wire.Spec
