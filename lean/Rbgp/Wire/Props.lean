/-
  Rbgp.Wire.Props — C03, the readable statements.

  Everything here is about the MODEL (`Rbgp.Wire.Model`, `Rtr`, `Stream`) of packet/src/bgp.rs
  `PeerCodec::try_parse`/`parse_message`, packet/src/rpki.rs `RtrCodec::decode` and packet/src/bfd.rs
  `Message::decode`, for EVERY byte string, every negotiated codec (families, AddPath, 2- or 4-octet AS,
  extended message) and BOTH arithmetic profiles.  The NLRI decoders of the address families other than IPv4/IPv6
  unicast+multicast are a parameter `dec` with the single hypothesis `dec.NP` ("never panics").  Phase 2
  (`Rbgp.Wire.Nlri2`, `Nlri3`) instantiates it: `decP3 p rest` decodes VPNv4/VPNv6, labeled IPv4/IPv6 (with the MPLS
  label stack and the route distinguisher), RTC, SR-policy, EVPN and flowspec (+VPN) NLRI by transcription and is
  proved panic-free (`nlri_phase2_total`); only `rest` (MUP, BGP-LS) remains a hypothesis, explored on the real code.

  Proofs are corollaries of `Rbgp.Wire.Proofs` / `Rbgp.Wire.StreamProofs`.
-/
import Rbgp.Wire.StreamProofs
import Rbgp.Wire.Nlri3Proofs
import Rbgp.Wire.SessProofs
namespace Rbgp.Wire.Props
open Rbgp.Wire Rbgp.Wire.Spec

/-! ## 0. The reference checker accepts every run of the model -/

/-- BGP: for every codec, profile and every way the bytes arrive, the C03 checker accepts the records
    produced by the receive loop. -/
theorem check_run_ok_bgp (dec : HypDec) (hd : dec.NP) (hde : dec.E3) (p : Profile) (c : Codec) (chunks : List Bytes) :
    checkBgpCase c.maxLen chunks ((bgpStream dec p c [] chunks).map srecOf) = .ok :=
  check_bgp_ok hd hde p c chunks

/-- the error class alone: whenever `try_parse` fails, the NOTIFICATION code fits the frame at the front of the
    buffer (bad header length ⇒ 1/2; unknown type ⇒ 1/3; OPEN ⇒ code 2; UPDATE ⇒ code 3; ROUTE-REFRESH ⇒ code 7 or
    1/2; NOTIFICATION / KEEPALIVE ⇒ 1/2).  `dec.E3`: the decoders outside the model raise UPDATE errors only. -/
theorem tryParse_error_class (dec : HypDec) (hde : dec.E3) (p : Profile) (c : Codec) (src : Bytes) (n : Nat) (e : Notif)
    (h : tryParse dec p c src = .err n e) : errClassOk c.maxLen src e.code e.sub = true :=
  tryParse_err_class hde h

/-- the NLRI decoders transcribed in phase 2 (VPNv4/v6, labeled v4/v6 + MPLS label stack + RD, RTC, SR policy, EVPN
    types 1-5, flowspec v4/v6 and their VPN variants) never panic, in either profile; `rest` stands for the families
    still outside the model (MUP, BGP-LS) -/
theorem nlri_phase2_total (p : Profile) (rest : HypDec) (hr : rest.NP) : (decP3 p rest).NP :=
  decP3_NP p hr

/-- ... so the master theorem holds with them in place of the hypothesis -/
theorem check_run_ok_bgp_phase2 (rest : HypDec) (hr : rest.NP) (hre : rest.E3) (p : Profile) (c : Codec)
    (chunks : List Bytes) :
    checkBgpCase c.maxLen chunks ((bgpStream (decP3 p rest) p c [] chunks).map srecOf) = .ok :=
  check_bgp_ok (decP3_NP p hr) (decP3_E3 p hre) p c chunks

/-- the executable driver's decoder (`decP3 p noHypDec`) satisfies both hypotheses -/
theorem driver_dec_ok (p : Profile) : (decP3 p noHypDec).NP ∧ (decP3 p noHypDec).E3 :=
  ⟨decP3_NP p (fun _ _ _ _ => by simp [noHypDec]), decP3_E3 p noHypDec_E3⟩

/-- session stream (a live session task fed hostile bytes): the checker accepts every run of the session model
    (`Sess.runSess`: the read loop of `run_select` over `try_parse`, then the FSM's reaction to the message) -/
theorem check_run_ok_sess (rest : HypDec) (hr : rest.NP) (hre : rest.E3) (p : Profile) (c : Codec) (est : Bool)
    (chunks : List Bytes) (eof : Bool) :
    Sess.checkSess eof (Sess.runSess (decP3 p rest) p c est chunks eof) = .ok :=
  Sess.checkSess_run_ok (decP3 p rest) (decP3_NP p hr) (decP3_E3 p hre) p c est chunks eof

/-- RTR session stream (the real client loop fed hostile bytes): the checker accepts every run of the model -/
theorem check_run_ok_rtr_sess (chunks : List Bytes) (eof : Bool) :
    Sess.checkRtrSess eof (Sess.runRtrSess chunks eof) = .ok :=
  Sess.checkRtrSess_run_ok chunks eof

/-- the session checker rejects: a task that does not come back, a busy task, two NOTIFICATIONs, a NOTIFICATION
    without closing, a session kept after the peer closed, a grown receive buffer -/
theorem nonvacuous_sess :
    Sess.checkSess false ⟨.wedge, [], false⟩ = .fail 0 "session-task-did-not-come-back" ∧
    Sess.checkSess false ⟨.storm, [], false⟩ = .fail 0 "session-task-keeps-running-without-input" ∧
    Sess.checkSess false ⟨.closed, [(3, 1), (3, 1)], false⟩ = .fail 0 "more-than-one-notification" ∧
    Sess.checkSess false ⟨.up .established, [(3, 1)], false⟩ = .fail 0 "notification-sent-but-session-kept" ∧
    Sess.checkSess true ⟨.up .established, [], false⟩ = .fail 0 "session-kept-after-the-peer-closed" ∧
    Sess.checkSess false ⟨.up .established, [], true⟩ = .fail 0 "receive-buffer-grew-beyond-bound" ∧
    Sess.checkSess true ⟨.closed, [(1, 2)], false⟩ = .ok := by decide

/-- RTR -/
theorem check_run_ok_rtr (chunks : List Bytes) :
    checkRtrCase chunks ((rtrStream [] chunks).map rsrecOf) = .ok :=
  check_rtr_ok chunks

/-- BFD -/
theorem check_run_ok_bfd (b : Bytes) : checkBfd b (bobsOf (bfdDecode b)) = .ok :=
  check_bfd_ok b

/-! ## 1. `try_parse` never panics, in either profile -/

theorem tryParse_total (dec : HypDec) (hd : dec.NP) (p : Profile) (c : Codec) (src : Bytes) :
    tryParse dec p c src ≠ .panic :=
  tryParse_NP hd p c src

/-- `parse_message` on any buffer (not only a split frame) never panics either -/
theorem parseMessage_total (dec : HypDec) (hd : dec.NP) (p : Profile) (c : Codec) (buf : Bytes) :
    parseMessage dec p c buf ≠ .panic :=
  Out.NP_iff.mp (parseMessage_NP hd p c buf)

/-- below the capability level: `Capability::decode` with the `u8` / `u64` arithmetic of the source (`(len - 2) / 4`
    behind `len % 4 == 2`; `hostlen as u64 + 2`, `2 + hostlen + domainlen` in `u64`) never overflows in either
    profile and computes `capDecode` -/
theorem cap_decode_widths (p : Profile) (code : Nat) (rest : Bytes) (len : Nat) :
    capDecodeW p code rest len = .ok (capDecode code rest len) :=
  capDecodeW_eq p code rest len

/-- below the attribute level: `Attribute::decode` with every index of the source an explicit read (`b[pos + 1]`,
    `b[start + 1]`, `b[pos + 2]`, `b[2..]`) never reads out of range and computes `attrDecode` -/
theorem attr_decode_indexing (code : Nat) (data : Bytes) (len : Nat) (two : Bool) :
    attrDecodeW code data len two = .ok (attrDecode code data len two) :=
  attrDecodeW_eq code data len two

/-- the widths matter: the FQDN length check done in `u8` (`hostlen + 2 > len`) panics a debug build on host
    length 255 (and wraps to 1 in a release build, accepting a capability that is too short) -/
theorem fqdn_u8_sum_panics : addU8 .debug 255 2 = .panic ∧ addU8 .release 255 2 = .ok 1 := ⟨rfl, rfl⟩

/-! ## 2. a returned message consumed exactly the frame at the front of the buffer -/

theorem tryParse_progress (dec : HypDec) (p : Profile) (c : Codec) (src : Bytes) (n : Nat) (m : Msg)
    (h : tryParse dec p c src = .msg n m) :
    19 ≤ n ∧ n ≤ c.maxLen ∧ n ≤ src.length ∧ declared src = some n := by
  obtain ⟨_, h2, h3, h4, h5⟩ := tryParse_msg h
  exact ⟨h3, h4, h5, h2⟩

/-- an error removes nothing (bad header length) or exactly what `split_to` took -/
theorem tryParse_error_bounded (dec : HypDec) (p : Profile) (c : Codec) (src : Bytes) (n : Nat) (e : Notif)
    (h : tryParse dec p c src = .err n e) : n ≤ src.length :=
  tryParse_err h

/-! ## 3. a complete frame in the buffer is consumed or rejected, never left waiting -/

theorem frame_complete_decided (dec : HypDec) (p : Profile) (c : Codec) (src : Bytes)
    (h : frameComplete src = true) : tryParse dec p c src ≠ .more := by
  intro hm
  have := tryParse_more hm
  rw [h] at this
  cases this

/-! ## 4. the message sequence does not depend on the fragmentation of the stream -/

/-- Feeding any two fragmentations of the same byte string yields the same sequence of messages
    (and the same terminating error, if any). -/
theorem decode_stream_fragmentation (dec : HypDec) (p : Profile) (c : Codec) (chunks₁ chunks₂ : List Bytes)
    (h : chunks₁.flatten = chunks₂.flatten) :
    evs (bgpStream dec p c [] chunks₁) = evs (bgpStream dec p c [] chunks₂) := by
  rw [bgpStream_events p c chunks₁ [] (tryParse_nil p c), bgpStream_events p c chunks₂ [] (tryParse_nil p c), h]

/-- ... and it is the sequence obtained by decoding the whole string at once -/
theorem decode_stream_whole (dec : HypDec) (p : Profile) (c : Codec) (chunks : List Bytes) :
    evs (bgpStream dec p c [] chunks) = evs (drain dec p c chunks.flatten).1 := by
  simpa using bgpStream_events (dec := dec) p c chunks [] (tryParse_nil p c)

/-! ## 5. RTR -/

theorem rtr_decode_total (src : Bytes) : rtrDecode src ≠ .panic := (rtrDecode_spec src).1

/-- a decoded PDU consumed its declared length, at least a header, at most the buffer -/
theorem rtr_decode_progress (src : Bytes) (m : RtrMsg) (n : Nat) (h : rtrDecode src = .pdu m n) :
    8 ≤ n ∧ n ≤ src.length ∧ declaredRtr src = some n :=
  (rtrDecode_spec src).2.1 m n h

theorem rtr_no_zero_consume (src : Bytes) (m : RtrMsg) (n : Nat) (h : rtrDecode src = .pdu m n) : 0 < n := by
  have := (rtrDecode_spec src).2.1 m n h
  omega

/-- a PDU whose declared length is buffered is consumed or rejected, never left waiting -/
theorem rtr_complete_decided (src : Bytes) (h : pduAvailable src = true) : rtrDecode src ≠ .more := by
  intro hm
  have := (rtrDecode_spec src).2.2 hm
  rw [h] at this
  cases this

/-! ## 6. BFD -/

theorem bfd_decode_total (b : Bytes) : bfdDecode b ≠ .panic := by
  obtain ⟨r, hr, _⟩ := bfdDecode_spec b
  rw [hr]; simp

/-- a decoded control packet is a whole packet: the length octet is the datagram length -/
theorem bfd_decoded_is_whole (b : Bytes) (m : BfdMsg) (h : bfdDecode b = .ok (.ok m)) :
    24 ≤ b.length ∧ b[3]? = some b.length := by
  obtain ⟨r, hr, hs⟩ := bfdDecode_spec b
  rw [hr] at h
  exact hs m (by injection h)

/-! ## 7. Non-vacuity and the S6 witness -/

/-- the hypothesis on the parameter is satisfiable (this instance is the one the executable driver uses) -/
example : noHypDec.NP := fun _ _ _ _ => by simp [noHypDec]

def codecV4 : Codec := ⟨false, false, [(65537, false)]⟩

/-- KEEPALIVE, then the first 2 bytes of the next header -/
def keepalive : Bytes := [255,255,255,255,255,255,255,255,255,255,255,255,255,255,255,255, 0, 19, 4]

example : tryParse noHypDec .debug codecV4 keepalive = .msg 19 .keepalive := by decide
example : tryParse noHypDec .release codecV4 (keepalive ++ [255, 255]) = .msg 19 .keepalive := by decide
example : tryParse noHypDec .debug codecV4 (keepalive.take 18) = .more := by decide
example : frameComplete keepalive = true := by decide

/-- S6: the 23-byte UPDATE with `attr_len = 0xffff` -/
def s6 : Bytes := [255,255,255,255,255,255,255,255,255,255,255,255,255,255,255,255, 0, 23, 2, 0, 0, 255, 255]

/-- the pre-repair length check (`withdrawn_len + attr_len + 23` summed in `u16`) let it through and the
    attribute walk then panicked — in debug (the sum itself) and in release (cursor `unwrap` past the end) -/
theorem s6_old_check_panics_debug : tryParseWith (updateLensOld .debug) noHypDec .debug codecV4 s6 = .panic := by decide
theorem s6_old_check_panics_release : tryParseWith (updateLensOld .release) noHypDec .release codecV4 s6 = .panic := by decide

/-- with the repaired check it is rejected with UPDATE Message Error / Malformed Attribute List -/
theorem s6_repaired_rejects (p : Profile) : tryParse noHypDec p codecV4 s6 = .err 23 ⟨3, 1, []⟩ := by
  cases p <;> decide

/-- a PDU shorter than the RTR header is rejected, not "decoded" with zero bytes consumed (S8) -/
example : rtrDecode [1, 2, 0, 0, 0, 0, 0, 0] = .err := by decide
example : rtrDecode [1, 9, 0, 0, 0, 0, 0, 8] = .pdu (.unsupported 9) 8 := by decide
example : rtrDecode [1, 2, 0, 0, 0, 0, 0, 8, 1] = .pdu .resetQuery 8 := by decide

/-! ## phase 2 witnesses (GoBGP vectors of the repo's own tests) -/

/-- vpn.rs GOBGP_VPNV4_LABEL_STACK: labels 100, 200, RD 0:65000:100, 10.0.1.0/24 -/
example : decP2 .debug noHypDec FAM_VPN4 false true
    [0x88, 0x00, 0x06, 0x40, 0x00, 0x0c, 0x81, 0x00, 0x00, 0xfd, 0xe8, 0x00, 0x00, 0x00, 0x64, 0x0a, 0x00, 0x01] =
    .ok [⟨0, 24, [0, 0, 100, 0, 0, 200, 0x00, 0x00, 0xfd, 0xe8, 0x00, 0x00, 0x00, 0x64, 10, 0, 1, 0]⟩] := by rfl

/-- a label stack that never ends (no bottom-of-stack bit) is an error, not a panic -/
example : decP2 .release noHypDec FAM_MPLS4 false true [0x30, 0, 0, 0, 0, 0, 0] = .err ⟨3, 1, []⟩ := by rfl

/-- labeled.rs GOBGP_V4_UNREACH: the 3-byte compatibility field is skipped on withdraw -/
example : decP2 .debug noHypDec FAM_MPLS4 false false [0x30, 0x80, 0x00, 0x00, 0x0a, 0x00, 0x01] =
    .ok [⟨0, 24, [0, 0, 0, 10, 0, 1, 0]⟩] := by rfl

/-- evpn.rs GOBGP_TYPE1_WITH_LABEL -/
example : decP3 .debug noHypDec FAM_EVPN false true
    [0x01, 0x19, 0, 2, 0, 0, 0, 5, 0, 6, 0, 0, 0, 0, 0, 0, 0, 0, 0, 0, 0, 0, 0, 3, 0, 0, 0xc8] =
    .ok [⟨0, 1, [0, 2, 0, 0, 0, 5, 0, 6, 0, 0, 0, 0, 0, 0, 0, 0, 0, 0, 0, 0, 0, 3, 0, 0, 0xc8]⟩] := by rfl

/-- flowspec: destination prefix 10.0.0.0/24, protocol == 6 -/
example : decP3 .release noHypDec FAM_FS4 false true [0x08, 0x01, 0x18, 10, 0, 0, 0x03, 0x81, 0x06] =
    .ok [⟨0, 2, [1, 24, 10, 0, 0, 0, 3, 0x81, 0, 0, 0, 0, 0, 0, 0, 6]⟩] := by rfl

/-- a flowspec operator list without end-of-list bit runs to the end of the NLRI: an error, not a panic -/
example : decP3 .debug noHypDec FAM_FS4 false true [0x03, 0x03, 0x01, 0x06] = .err ⟨3, 1, []⟩ := by rfl

end Rbgp.Wire.Props
