/-
  Rbgp.Wire.Props — C03, the readable statements.

  Everything here is about the MODEL (`Rbgp.Wire.Model`, `Rtr`, `Stream`) of packet/src/bgp.rs
  `PeerCodec::try_parse`/`parse_message`, packet/src/rpki.rs `RtrCodec::decode` and packet/src/bfd.rs
  `Message::decode`, for EVERY byte string, every negotiated codec (families, AddPath, 2- or 4-octet AS,
  extended message) and BOTH arithmetic profiles.  The NLRI decoders of the address families that are not
  transcribed (everything except IPv4/IPv6 unicast+multicast) are a parameter `dec` with the single
  hypothesis `dec.NP` ("never panics"); those families are explored on the real code only.

  Proofs are corollaries of `Rbgp.Wire.Proofs` / `Rbgp.Wire.StreamProofs`.
-/
import Rbgp.Wire.StreamProofs
namespace Rbgp.Wire.Props
open Rbgp.Wire Rbgp.Wire.Spec

/-! ## 0. The reference checker accepts every run of the model -/

/-- BGP: for every codec, profile and every way the bytes arrive, the C03 checker accepts the records
    produced by the receive loop. -/
theorem check_run_ok_bgp (dec : HypDec) (hd : dec.NP) (p : Profile) (c : Codec) (chunks : List Bytes) :
    checkBgpCase c.maxLen chunks ((bgpStream dec p c [] chunks).map srecOf) = .ok :=
  check_bgp_ok hd p c chunks

/-- RTR -/
theorem check_run_ok_rtr (chunks : List Bytes) :
    checkRtrCase chunks ((rtrStream [] chunks).map rsrecOf) = .ok :=
  check_rtr_ok chunks

/-- BFD -/
theorem check_run_ok_bfd (b : Bytes) : checkBfd b (bobsOf (bfdDecode b)) = .ok :=
  check_bfd_ok b

/-! ## 1. `try_parse` never panics, in either profile -/

theorem tryParse_total (dec : HypDec) (hd : dec.NP) (p : Profile) (c : Codec) (src : Bytes) :
    tryParse dec p c src ≠ .panic :=
  tryParse_NP hd p c src

/-- `parse_message` on any buffer (not only a split frame) never panics either -/
theorem parseMessage_total (dec : HypDec) (hd : dec.NP) (p : Profile) (c : Codec) (buf : Bytes) :
    parseMessage dec p c buf ≠ .panic :=
  Out.NP_iff.mp (parseMessage_NP hd p c buf)

/-! ## 2. a returned message consumed exactly the frame at the front of the buffer -/

theorem tryParse_progress (dec : HypDec) (p : Profile) (c : Codec) (src : Bytes) (n : Nat) (m : Msg)
    (h : tryParse dec p c src = .msg n m) :
    19 ≤ n ∧ n ≤ c.maxLen ∧ n ≤ src.length ∧ declared src = some n := by
  obtain ⟨_, h2, h3, h4, h5⟩ := tryParse_msg h
  exact ⟨h3, h4, h5, h2⟩

/-- an error removes nothing (bad header length) or exactly what `split_to` took -/
theorem tryParse_error_bounded (dec : HypDec) (p : Profile) (c : Codec) (src : Bytes) (n : Nat) (e : Notif)
    (h : tryParse dec p c src = .err n e) : n ≤ src.length :=
  tryParse_err h

/-! ## 3. a complete frame in the buffer is consumed or rejected, never left waiting -/

theorem frame_complete_decided (dec : HypDec) (p : Profile) (c : Codec) (src : Bytes)
    (h : frameComplete src = true) : tryParse dec p c src ≠ .more := by
  intro hm
  have := tryParse_more hm
  rw [h] at this
  cases this

/-! ## 4. the message sequence does not depend on the fragmentation of the stream -/

/-- Feeding any two fragmentations of the same byte string yields the same sequence of messages
    (and the same terminating error, if any). -/
theorem decode_stream_fragmentation (dec : HypDec) (p : Profile) (c : Codec) (chunks₁ chunks₂ : List Bytes)
    (h : chunks₁.flatten = chunks₂.flatten) :
    evs (bgpStream dec p c [] chunks₁) = evs (bgpStream dec p c [] chunks₂) := by
  rw [bgpStream_events p c chunks₁ [] (tryParse_nil p c), bgpStream_events p c chunks₂ [] (tryParse_nil p c), h]

/-- ... and it is the sequence obtained by decoding the whole string at once -/
theorem decode_stream_whole (dec : HypDec) (p : Profile) (c : Codec) (chunks : List Bytes) :
    evs (bgpStream dec p c [] chunks) = evs (drain dec p c chunks.flatten).1 := by
  simpa using bgpStream_events (dec := dec) p c chunks [] (tryParse_nil p c)

/-! ## 5. RTR -/

theorem rtr_decode_total (src : Bytes) : rtrDecode src ≠ .panic := (rtrDecode_spec src).1

/-- a decoded PDU consumed its declared length, at least a header, at most the buffer -/
theorem rtr_decode_progress (src : Bytes) (m : RtrMsg) (n : Nat) (h : rtrDecode src = .pdu m n) :
    8 ≤ n ∧ n ≤ src.length ∧ declaredRtr src = some n :=
  (rtrDecode_spec src).2.1 m n h

theorem rtr_no_zero_consume (src : Bytes) (m : RtrMsg) (n : Nat) (h : rtrDecode src = .pdu m n) : 0 < n := by
  have := (rtrDecode_spec src).2.1 m n h
  omega

/-- a PDU whose declared length is buffered is consumed or rejected, never left waiting -/
theorem rtr_complete_decided (src : Bytes) (h : pduAvailable src = true) : rtrDecode src ≠ .more := by
  intro hm
  have := (rtrDecode_spec src).2.2 hm
  rw [h] at this
  cases this

/-! ## 6. BFD -/

theorem bfd_decode_total (b : Bytes) : bfdDecode b ≠ .panic := by
  obtain ⟨r, hr, _⟩ := bfdDecode_spec b
  rw [hr]; simp

/-- a decoded control packet is a whole packet: the length octet is the datagram length -/
theorem bfd_decoded_is_whole (b : Bytes) (m : BfdMsg) (h : bfdDecode b = .ok (.ok m)) :
    24 ≤ b.length ∧ b[3]? = some b.length := by
  obtain ⟨r, hr, hs⟩ := bfdDecode_spec b
  rw [hr] at h
  exact hs m (by injection h)

/-! ## 7. Non-vacuity and the S6 witness -/

/-- the hypothesis on the parameter is satisfiable (this instance is the one the executable driver uses) -/
example : noHypDec.NP := fun _ _ _ _ => by simp [noHypDec]

def codecV4 : Codec := ⟨false, false, [(65537, false)]⟩

/-- KEEPALIVE, then the first 2 bytes of the next header -/
def keepalive : Bytes := [255,255,255,255,255,255,255,255,255,255,255,255,255,255,255,255, 0, 19, 4]

example : tryParse noHypDec .debug codecV4 keepalive = .msg 19 .keepalive := by decide
example : tryParse noHypDec .release codecV4 (keepalive ++ [255, 255]) = .msg 19 .keepalive := by decide
example : tryParse noHypDec .debug codecV4 (keepalive.take 18) = .more := by decide
example : frameComplete keepalive = true := by decide

/-- S6: the 23-byte UPDATE with `attr_len = 0xffff` -/
def s6 : Bytes := [255,255,255,255,255,255,255,255,255,255,255,255,255,255,255,255, 0, 23, 2, 0, 0, 255, 255]

/-- the pre-repair length check (`withdrawn_len + attr_len + 23` summed in `u16`) let it through and the
    attribute walk then panicked — in debug (the sum itself) and in release (cursor `unwrap` past the end) -/
theorem s6_old_check_panics_debug : tryParseWith (updateLensOld .debug) noHypDec .debug codecV4 s6 = .panic := by decide
theorem s6_old_check_panics_release : tryParseWith (updateLensOld .release) noHypDec .release codecV4 s6 = .panic := by decide

/-- with the repaired check it is rejected with UPDATE Message Error / Malformed Attribute List -/
theorem s6_repaired_rejects (p : Profile) : tryParse noHypDec p codecV4 s6 = .err 23 ⟨3, 1, []⟩ := by
  cases p <;> decide

/-- a PDU shorter than the RTR header is rejected, not "decoded" with zero bytes consumed (S8) -/
example : rtrDecode [1, 2, 0, 0, 0, 0, 0, 0] = .err := by decide
example : rtrDecode [1, 9, 0, 0, 0, 0, 0, 8] = .pdu (.unsupported 9) 8 := by decide
example : rtrDecode [1, 2, 0, 0, 0, 0, 0, 8, 1] = .pdu .resetQuery 8 := by decide

end Rbgp.Wire.Props
