/- Term encoding of the C05 cases and observations.  Grammar = harness/pt/src/bin/c05.rs. -/
import Rbgp.Term
import Rbgp.Wire.Codec
import Rbgp.Wire.UpdateSpec
import Rbgp.Wire.E2E
namespace Rbgp.Wire.UCodec
open Rbgp Rbgp.Term Rbgp.Wire Rbgp.Wire.Codec

structure UCase where
  codec : Codec
  ebgp : Bool
  u : CUpdate
  cs : List Corr
  deriving Repr

def pfxOf? : Term → Option CPfx
  | .list [i, m, a] => do pure ⟨← asNat? i, ← asNat? m, ← asBytes? a⟩
  | _ => none

def pfxsOf? (name : String) : Term → Option (List CPfx)
  | .list (.atom n :: ps) => if n == name then ps.mapM pfxOf? else none
  | _ => none

def cattrOf? : Term → Option CAttr
  | .list [.atom "a", f, c, d] => do pure ⟨← asNat? f, ← asNat? c, ← bytesOf? d⟩
  | _ => none

def mprOf? : Term → Option (Option CMpReach)
  | .atom "none" => some none
  | .list (.atom "mpr" :: a :: s :: nh :: ps) => do
      pure (some ⟨← asNat? a, ← asNat? s, ← asBytes? nh, ← ps.mapM pfxOf?⟩)
  | _ => none

def mpuOf? : Term → Option (Option CMpUnreach)
  | .atom "none" => some none
  | .list (.atom "mpu" :: a :: s :: ps) => do
      pure (some ⟨← asNat? a, ← asNat? s, ← ps.mapM pfxOf?⟩)
  | _ => none

def updOf? : Term → Option CUpdate
  | .list [.atom "upd", wd, .list (.atom "attrs" :: as), mpr, mpu, nlri] => do
      pure ⟨← pfxsOf? "wd" wd, ← as.mapM cattrOf?, ← mprOf? mpr, ← mpuOf? mpu, ← pfxsOf? "nlri" nlri⟩
  | _ => none

def corrOf? : Term → Option Corr
  | .list [.atom "flags", i, f] => do pure (.flags (← asNat? i) (← asNat? f))
  | .list [.atom "data", i, d] => do pure (.data (← asNat? i) (← bytesOf? d))
  | .list [.atom "lenfield", i, l] => do pure (.lenfield (← asNat? i) (← asNat? l))
  | .list [.atom "dup", i, d] => do pure (.dup (← asNat? i) (← bytesOf? d))
  | .list [.atom "omit", i] => do pure (.omit (← asNat? i))
  | .list [.atom "trunc", k] => do pure (.trunc (← asNat? k))
  | .list [.atom "unknown", f, c, d] => do pure (.unknown (← asNat? f) (← asNat? c) (← bytesOf? d))
  | .list [.atom "nlribad", m] => do pure (.nlribad (← asNat? m))
  | _ => none

/-- `(c05 <codec> <ebgp> <upd> (corr <c>*))`; families must all be transcribed ones; sizes bounded so that
    both renderers stay within one frame -/
def ucaseOf? : Term → Option UCase
  | .list [.atom "c05", c, e, u, .list (.atom "corr" :: cs)] => do
      let (codec, allModelled) ← codecOf? c
      let ebgp ← asBool? e
      let upd ← updOf? u
      let corr ← cs.mapM corrOf?
      if allModelled then some ⟨codec, ebgp, upd, corr⟩ else none
  | _ => none

/-- numbers that end up in single octets / fixed-width fields must fit, or the two renderers could differ -/
def renderable (k : UCase) : Bool :=
  let pOk (p : CPfx) : Bool := p.id < 4294967296 && p.mask < 256 && p.addr.length ≤ 16
  k.u.wd.all pOk && k.u.nlri.all pOk
    && k.u.attrs.all (fun a => a.flags < 256 && a.code < 256 && a.data.length ≤ 4000)
    && (match k.u.mpr with
        | some m => m.afi < 65536 && m.safi < 256 && m.nh.length < 256 && m.nlri.all pOk
        | none => true)
    && (match k.u.mpu with
        | some m => m.afi < 65536 && m.safi < 256 && m.nlri.all pOk
        | none => true)
    && k.cs.all (fun c => match c with
        | .flags _ f => f < 256
        | .data _ d => d.length ≤ 4000
        | .lenfield _ l => l < 65536
        | .dup _ d => d.length ≤ 4000
        | .omit _ => true
        | .trunc k => k < 65536
        | .unknown f c d => f < 256 && c < 256 && d.length ≤ 4000
        | .nlribad m => m < 256)
    && k.u.attrs.length ≤ 64 && k.u.wd.length ≤ 64 && k.u.nlri.length ≤ 64 && k.cs.length ≤ 16
    && (match k.u.mpr with | some m => m.nlri.length ≤ 64 | none => true)
    && (match k.u.mpu with | some m => m.nlri.length ≤ 64 | none => true)

def vmsgT : VMsg → Term
  | .reach f nh e attrs => tag "reach" [nat f, nhT nh, list (e.map pnlriT), list (attrs.map attrT)]
  | .unreach f e => tag "unreach" [nat f, list (e.map pnlriT)]
  | .eor f => tag "eor" [nat f]
  | .other => sym "other"

def uresT : URes → Term
  | .ok msgs => tag "ok" (msgs.map vmsgT)
  | .reset e => tag "reset" [nat e.code, nat e.sub, bytes e.data]
  | .more => list [sym "more"]
  | .panic => list [sym "panic"]

def runCase (p : Profile) (k : UCase) : Term :=
  let bytes := render k.codec k.u k.cs
  tag "obs" [bytes_ bytes, uresT (runUpdate noHypDec p k.codec k.ebgp bytes)]
where bytes_ (b : Bytes) : Term := Term.bytes b

/-! ### parsing observations for the oracle -/

def pnlriOf? : Term → Option PNlri
  | .list [i, m, a] => do pure ⟨← asNat? i, ← asNat? m, ← asBytes? a⟩
  | _ => none

def attrOf? : Term → Option Attr
  | .list [c, f, .atom "val", v] => do pure ⟨← asNat? c, ← asNat? f, .val (← asNat? v)⟩
  | .list [c, f, .atom "bin", b] => do pure ⟨← asNat? c, ← asNat? f, .bin (← asBytes? b)⟩
  | .list [c, f, .atom "opq", b] => do pure ⟨← asNat? c, ← asNat? f, .opq (← asBytes? b)⟩
  | _ => none

def nhOf? : Term → Option (Option Bytes)
  | .atom "none" => some none
  | t => (asBytes? t).map some

def vmsgOf? : Term → Option VMsg
  | .list [.atom "reach", f, nh, .list es, .list as] => do
      pure (.reach (← asNat? f) (← nhOf? nh) (← es.mapM pnlriOf?) (← as.mapM attrOf?))
  | .list [.atom "unreach", f, .list es] => do pure (.unreach (← asNat? f) (← es.mapM pnlriOf?))
  | .list [.atom "eor", f] => do pure (.eor (← asNat? f))
  | .atom "other" => some .other
  | _ => none

def uresOf? : Term → Option URes
  | .list (.atom "ok" :: ms) => (ms.mapM vmsgOf?).map .ok
  | .list [.atom "reset", c, s, d] => do pure (.reset ⟨← asNat? c, ← asNat? s, ← asBytes? d⟩)
  | .list [.atom "more"] => some .more
  | .list [.atom "panic"] => some .panic
  | _ => none

def verdictStr : USpec.Verdict → String
  | .ok => "ok"
  | .fail c => s!"fail clause={c}"

def oracle (k : UCase) (obs : Term) : String :=
  match obs with
  | .list [.atom "obs", _, r] =>
      match uresOf? r with
      | some res => verdictStr (USpec.check k.codec k.ebgp k.u k.cs res)
      | none => "fail clause=unparsable-observation"
  | _ => "fail clause=unparsable-observation"

/-! ## end-to-end cases: `(e2e <kind> <pre> <c05 case> x<frame>)` -/

structure ECase where
  kind : E2E.Kind
  pre : Bool
  k : UCase
  bytes : Bytes
  deriving Repr

def kindOf? : Term → Option E2E.Kind
  | .atom "ebgp" => some .ebgp
  | .atom "ibgp" => some .ibgp
  | .atom "confed" => some .confed
  | _ => none

/-- what the daemon harness accepts: IPv4/IPv6 unicast / multicast only, the peer kind agrees with the case -/
def ecaseOf? : Term → Option ECase
  | .list [.atom "e2e", kd, pr, c, b] => do
      let kind ← kindOf? kd
      let pre ← asBool? pr
      let k ← ucaseOf? c
      let bytes ← bytesOf? b
      let famOk := k.codec.fams.all fun (f, _) => f == 65537 || f == 65538 || f == 131073 || f == 131074
      let pOk (p : CPfx) : Bool := p.id < 4294967296 && p.mask ≤ 128 && p.addr.length == (p.mask + 7) / 8
      let pfxOk := k.u.wd.all pOk && k.u.nlri.all pOk
        && (match k.u.mpr with | some m => m.nlri.all pOk | none => true)
        && (match k.u.mpu with | some m => m.nlri.all pOk | none => true)
      if famOk && pfxOk && renderable k && (k.ebgp == (kind == .ebgp)) && 19 ≤ bytes.length && bytes.length ≤ 65535
      then some ⟨kind, pre, k, bytes⟩ else none
  | _ => none

def ribLe (a b : E2E.RKey × List Attr) : Bool :=
  let ka := a.1
  let kb := b.1
  if ka.fam != kb.fam then ka.fam < kb.fam
  else if ka.addr != kb.addr then decide (ka.addr < kb.addr)
  else if ka.mask != kb.mask then ka.mask < kb.mask
  else ka.id ≤ kb.id

def ribInsertSorted (e : E2E.RKey × List Attr) : E2E.Rib → E2E.Rib
  | [] => [e]
  | x :: xs => if ribLe e x then e :: x :: xs else x :: ribInsertSorted e xs

def ribSort (r : E2E.Rib) : E2E.Rib := r.foldr ribInsertSorted []

def ribT (rib : E2E.Rib) : Term :=
  tag "rib" ((ribSort rib).map fun e =>
    tag "r" [nat e.1.fam, nat e.1.id, nat e.1.mask, Term.bytes e.1.addr, list (e.2.map attrT)])

def eobsT : E2E.EObs → Term
  | .up rib => tag "e2e-obs" [list [sym "up"], ribT rib]
  | .reset c s => tag "e2e-obs" [tag "reset" [nat c, nat s], tag "rib" []]
  | .panic => tag "e2e-obs" [list [sym "panic"], tag "rib" []]
  | .other => tag "e2e-obs" [list [sym "other"], tag "rib" []]

def runECase (p : Profile) (e : ECase) : Term :=
  eobsT (E2E.runE2E noHypDec p e.kind e.pre e.k.codec e.k.ebgp e.k.u e.bytes)

def ribEntryOf? : Term → Option (E2E.RKey × List Attr)
  | .list [.atom "r", f, i, m, a, .list attrs] => do
      pure (⟨← asNat? f, ← asNat? i, ← asNat? m, ← asBytes? a⟩, ← attrs.mapM attrOf?)
  | _ => none

def eobsOf? : Term → Option E2E.EObs
  | .list [.atom "e2e-obs", .list [.atom "up"], .list (.atom "rib" :: rs)] => (rs.mapM ribEntryOf?).map .up
  | .list [.atom "e2e-obs", .list [.atom "reset", c, s], _] => do pure (.reset (← asNat? c) (← asNat? s))
  | .list [.atom "e2e-obs", .list [.atom "panic"], _] => some .panic
  | _ => none

def oracleE (e : ECase) (obs : Term) : String :=
  match eobsOf? obs with
  | some o => verdictStr (E2E.checkE e.kind e.k.codec e.k.ebgp e.k.u e.k.cs e.bytes o)
  | none => "fail clause=unparsable-observation"

def statsE (e : ECase) (obs : Term) : String :=
  if !E2E.wfE e.kind e.k.codec e.k.ebgp e.k.u e.k.cs e.bytes then "e2e-skipped-not-wf=1"
  else
    let cls := USpec.allClasses e.k.codec e.k.u e.k.cs
    let kd := match e.kind with | .ebgp => "ebgp" | .ibgp => "ibgp" | .confed => "confed"
    let cl := if cls.contains .weak then "weak" else if cls.contains .taw || cls.contains .tawOrReset then "must-taw" else "other"
    let out := match eobsOf? obs with
      | some (.up rib) => if (E2E.fresh e.kind rib).isEmpty then "no-fresh-route" else "fresh-route"
      | some (.reset _ _) => "reset"
      | _ => "other"
    s!"e2e-judged=1 e2e-kind:{kd}=1 e2e-pre:{e.pre}=1 e2e-class:{cl}=1 e2e-outcome:{out}=1"

/-- evidence only: which clauses of the checker judged this case, and how the run ended -/
def stats (k : UCase) (obs : Term) : String :=
  if !USpec.wfCase k.codec k.u k.cs then "skipped-not-wf=1"
  else
    let cls := USpec.allClasses k.codec k.u k.cs
    let weak := cls.contains .weak
    let res := match obs with
      | .list [.atom "obs", _, r] => uresOf? r
      | _ => none
    let outcome := match res with
      | some (.reset _) => "outcome-reset=1"
      | some (.ok msgs) =>
          if !(USpec.reachMsgs msgs).isEmpty then "outcome-announced=1"
          else if msgs.isEmpty then "outcome-nothing=1" else "outcome-withdrawn=1"
      | _ => "outcome-other=1"
    let hasDisc := cls.any fun x => match x with | .discardOrTaw _ => true | _ => false
    let hasDup := cls.any fun x => match x with | .dup _ _ => true | _ => false
    let mustTaw := cls.contains .taw || cls.contains .tawOrReset
    let judged :=
      if weak then (if USpec.prefixMustTaw k.codec k.u k.cs then "judged-weak-prefix-taw=1" else "judged-weak-only=1")
      else if mustTaw then "judged-must-taw=1"
      else if hasDisc then
        (match res with
         | some (.ok msgs) =>
            if (USpec.reachMsgs msgs).isEmpty then "judged-discard-class-withdrawn=1" else "judged-discard-class-discarded=1"
         | _ => "judged-discard-class-reset=1")
      else if hasDup then "judged-dup=1"
      else "judged-clean=1"
    s!"judged=1 {judged} {outcome}" ++ (if hasDup then " has-dup=1" else "") ++ (if cls.contains .tawOrReset then " has-taw-or-reset=1" else "")

end Rbgp.Wire.UCodec
