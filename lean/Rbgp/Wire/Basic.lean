/-
  Rbgp.Wire.Basic — the outcome monad and byte-level primitives shared by the wire models
  (C03 decoders, C05 UPDATE handling).

  * `Out α = ok a | err e | panic`: what a Rust decoder call can do.  `err` carries the NOTIFICATION
    (code, subcode, data); `panic` is an `unwrap()`/index/overflow panic (an explicit outcome, never
    totalised away).
  * `Profile`: debug (overflow checks on: `+`/`-` on fixed-width integers panic) or release (they wrap).
  * reads over a byte list by position: `rd8/rd16/rd32` mirror `Cursor::read_uN().unwrap()` and
    `buf[i]` (panic when out of range), `slice` mirrors `&buf[a..b]`.
  Import-free (core only).
-/
namespace Rbgp.Wire

inductive Profile where
  | debug | release
  deriving DecidableEq, Repr, Inhabited

abbrev Bytes := List Nat

/-- NOTIFICATION content (`Notification::notification_code/subcode/data`). -/
structure Notif where
  code : Nat
  sub : Nat
  data : Bytes := []
  deriving DecidableEq, Repr, Inhabited

inductive Out (α : Type) where
  | ok (a : α)
  | err (e : Notif)
  | panic
  deriving Repr

namespace Out
@[inline] def bind {α β} (x : Out α) (f : α → Out β) : Out β :=
  match x with
  | .ok a => f a
  | .err e => .err e
  | .panic => .panic
instance : Monad Out where
  pure := .ok
  bind := Out.bind
end Out

@[simp] theorem Out.bind_ok {α β} (a : α) (f : α → Out β) : (Out.ok a >>= f) = f a := rfl
@[simp] theorem Out.bind_err {α β} (e : Notif) (f : α → Out β) : ((Out.err e : Out α) >>= f) = .err e := rfl
@[simp] theorem Out.bind_panic {α β} (f : α → Out β) : ((Out.panic : Out α) >>= f) = .panic := rfl
@[simp] theorem Out.pure_eq {α} (a : α) : (pure a : Out α) = .ok a := rfl

/-! ### fixed-width arithmetic -/

/-- `a + b` on `u16`. -/
def addU16 (p : Profile) (a b : Nat) : Out Nat :=
  if a + b < 65536 then .ok (a + b)
  else match p with
    | .debug => .panic
    | .release => .ok ((a + b) % 65536)

/-- `a + b` on `u8`. -/
def addU8 (p : Profile) (a b : Nat) : Out Nat :=
  if a + b < 256 then .ok (a + b)
  else match p with
    | .debug => .panic
    | .release => .ok ((a + b) % 256)

/-- `a - b` on `u8`. -/
def subU8 (p : Profile) (a b : Nat) : Out Nat :=
  if b ≤ a then .ok (a - b)
  else match p with
    | .debug => .panic
    | .release => .ok (a + 256 - b)

/-- `a + b` on `u64`. -/
def addU64 (p : Profile) (a b : Nat) : Out Nat :=
  if a + b < 18446744073709551616 then .ok (a + b)
  else match p with
    | .debug => .panic
    | .release => .ok ((a + b) % 18446744073709551616)

/-- `a - b` on `u64` (operands < 2^64). -/
def subU64 (p : Profile) (a b : Nat) : Out Nat :=
  if b ≤ a then .ok (a - b)
  else match p with
    | .debug => .panic
    | .release => .ok (a + 18446744073709551616 - b)

/-! ### reads -/

/-- `buf[i]` / `Cursor::read_u8().unwrap()` at position `i`. -/
def rd8 (b : Bytes) (i : Nat) : Out Nat :=
  match b[i]? with
  | some v => .ok v
  | none => .panic

def rd16 (b : Bytes) (i : Nat) : Out Nat := do
  let h ← rd8 b i
  let l ← rd8 b (i + 1)
  pure (h * 256 + l)

def rd32 (b : Bytes) (i : Nat) : Out Nat := do
  let a ← rd8 b i
  let b1 ← rd8 b (i + 1)
  let c ← rd8 b (i + 2)
  let d ← rd8 b (i + 3)
  pure (((a * 256 + b1) * 256 + c) * 256 + d)

/-- `&buf[s..e]` (panics unless `s ≤ e ≤ len`). -/
def slice (b : Bytes) (s e : Nat) : Out Bytes :=
  if s ≤ e ∧ e ≤ b.length then .ok ((b.drop s).take (e - s)) else .panic

/-- big-endian value of a byte list -/
def beVal : Bytes → Nat → Nat
  | [], acc => acc
  | x :: xs, acc => beVal xs (acc * 256 + x)

def be (b : Bytes) : Nat := beVal b 0

/-- `n.to_be_bytes()` for a 4-byte value -/
def be32Bytes (n : Nat) : Bytes :=
  [n / 16777216 % 256, n / 65536 % 256, n / 256 % 256, n % 256]

def be16Bytes (n : Nat) : Bytes := [n / 256 % 256, n % 256]

/-- pad with zeros to `n` bytes (fixed-size address arrays) -/
def padTo (b : Bytes) (n : Nat) : Bytes := b ++ List.replicate (n - b.length) 0

/-- a reader over "what is left" that fails (no panic) on a short read: `io::Read` + `map_err` / `?` -/
def takeN (b : Bytes) (n : Nat) : Option (Bytes × Bytes) :=
  if n ≤ b.length then some (b.take n, b.drop n) else none

end Rbgp.Wire
