/-
  Rbgp.Wire.E2E — C05, end-to-end half: the UPDATE of a case arrives on an established session whose Adj-RIB-In
  already holds OLD routes for the prefixes the UPDATE withdraws (and, when `pre`, for the ones it announces); what is
  observed is the Adj-RIB-In of the peer afterwards, or the session reset.

  MODEL (`runE2E`): the packet-level model (`runUpdate` = `try_parse` + `validate_message`) followed by the receive
  path of daemon/src/event/mod.rs as far as it touches the table: for every `Message` in order, `rx_update`: a Reach
  inserts each entry (replacing the route of the same prefix and path id), with LOCAL_PREF 100 added when an internal
  (iBGP) peer left it out (`inject_local_pref_if_absent`); an Unreach removes each entry.  The AS-loop and
  ORIGINATOR_ID / CLUSTER_LIST loop filters are not in the model: the harness configures AS numbers and router id that
  do not occur in the generated attributes, so that they never fire.

  SPEC (`checkE`): the byte-level classification of `USpec` read off the table: a route that is not an OLD one stands
  for "announced with these attributes", a prefix of the UPDATE that is not in the table for "withdrawn".
-/
import Rbgp.Wire.UpdateSpec
namespace Rbgp.Wire.E2E
open Rbgp.Wire Rbgp.Wire.USpec

inductive Kind where
  | ebgp
  | ibgp
  | confed
  deriving DecidableEq, Repr

structure RKey where
  fam : Nat
  id : Nat
  mask : Nat
  addr : Bytes
  deriving DecidableEq, Repr

abbrev Rib := List (RKey × List Attr)

def keyOf (fam : Nat) (p : PNlri) : RKey := ⟨fam, p.id, p.mask, p.addr⟩

def ribRemove (k : RKey) (r : Rib) : Rib := r.filter (fun e => e.1 ≠ k)
def ribInsert (k : RKey) (a : List Attr) (r : Rib) : Rib := (k, a) :: ribRemove k r

/-! ## the OLD routes -/

def be32 (n : Nat) : Bytes := [n / 16777216 % 256, n / 65536 % 256, n / 256 % 256, n % 256]

/-- attributes of the routes installed beforehand, as the table holds them (sorted by type code): ORIGIN IGP, the
    AS_PATH of the peer kind (four-octet form), MED 4242 (a value no generated UPDATE carries), LOCAL_PREF 100 from
    internal peers -/
def oldAttrs (kind : Kind) : List Attr :=
  let path : Bytes := match kind with
    | .ebgp => [2, 1] ++ be32 64888
    | .ibgp => []
    | .confed => [3, 1] ++ be32 64999
  [⟨1, 0x40, .val 0⟩, ⟨2, 0x40, .bin path⟩, ⟨4, 0x80, .val 4242⟩] ++
    (if kind = .ebgp then [] else [⟨5, 0x40, .val 100⟩])

/-- the prefixes of the UPDATE: (family, prefix) it withdraws / announces -/
def wKeys (u : CUpdate) : List RKey :=
  u.wd.map (fun p => keyOf FAM_IPV4 (padAddr p 4)) ++
    (match u.mpu with
     | some m => m.nlri.map fun p => keyOf (famKey m.afi m.safi) (padAddr p (if m.afi = 2 then 16 else 4))
     | none => [])

def aKeys (u : CUpdate) : List RKey :=
  u.nlri.map (fun p => keyOf FAM_IPV4 (padAddr p 4)) ++
    (match u.mpr with
     | some m => m.nlri.map fun p => keyOf (famKey m.afi m.safi) (padAddr p (if m.afi = 2 then 16 else 4))
     | none => [])

def initRib (kind : Kind) (pre : Bool) (u : CUpdate) : Rib :=
  (wKeys u ++ (if pre then aKeys u else [])).foldl (fun r k => ribInsert k (oldAttrs kind) r) []

/-! ## the receive path after `validate_message` -/

/-- insertion sort by type code (the table is listed with the attributes in this order) -/
def insertByCode (a : Attr) : List Attr → List Attr
  | [] => [a]
  | b :: bs => if a.code < b.code then a :: b :: bs else b :: insertByCode a bs

def sortByCode (l : List Attr) : List Attr := l.foldr insertByCode []

/-- `inject_local_pref_if_absent` (internal peers only), then the listing order -/
def canonAttrs (kind : Kind) (attrs : List Attr) : List Attr :=
  sortByCode (if kind = .ibgp ∧ ¬ attrs.any (·.code == 5) then ⟨5, 0x40, .val 100⟩ :: attrs else attrs)

/-- `rx_msg` / `rx_update` for one `Message` -/
def applyMsg (kind : Kind) (r : Rib) : VMsg → Rib
  | .reach fam _ entries attrs => entries.foldl (fun r p => ribInsert (keyOf fam p) (canonAttrs kind attrs) r) r
  | .unreach fam entries => entries.foldl (fun r p => ribRemove (keyOf fam p) r) r
  | _ => r

inductive EObs where
  | up (rib : Rib)
  | reset (code sub : Nat)
  | panic
  | other
  deriving Repr

/-- one end-to-end run: the frame arrives, the table afterwards (a reset drops the peer's routes) -/
def runE2E (dec : HypDec) (p : Profile) (kind : Kind) (pre : Bool) (c : Codec) (ebgp : Bool) (u : CUpdate)
    (bytes : Bytes) : EObs :=
  match runUpdate dec p c ebgp bytes with
  | .ok msgs => .up (msgs.foldl (applyMsg kind) (initRib kind pre u))
  | .reset e => .reset e.code e.sub
  | .more => .other
  | .panic => .panic

/-! ## the property on the table -/

/-- routes that are not OLD ones: installed by the UPDATE under test -/
def fresh (kind : Kind) (r : Rib) : Rib := r.filter (fun e => e.2 != oldAttrs kind)

def absent (k : RKey) (r : Rib) : Bool := r.all (fun e => e.1 != k)

/-- the table read as messages: a fresh route = announced with its attributes; a prefix of the UPDATE that is not in
    the table = withdrawn -/
def pseudoMsgs (kind : Kind) (u : CUpdate) (r : Rib) : List VMsg :=
  (fresh kind r).map (fun e => VMsg.reach e.1.fam none [⟨e.1.id, e.1.mask, e.1.addr⟩] e.2) ++
    ((wKeys u ++ aKeys u).filter (fun k => absent k r)).map (fun k => VMsg.unreach k.fam [⟨k.id, k.mask, k.addr⟩])

/-- an IPv4-unicast prefix withdrawn in the legacy field and announced again in MP_REACH of the same UPDATE: what
    "the withdrawal takes effect" means then is not defined by the property; such cases are not judged -/
def wdReannounced (u : CUpdate) : Bool :=
  match u.mpr with
  | some m =>
      famKey m.afi m.safi == FAM_IPV4 &&
        u.wd.any fun p => (m.nlri.map fun q => padAddr q 4).contains (padAddr p 4)
  | none => false

/-- cases the end-to-end checker judges -/
def wfE (kind : Kind) (c : Codec) (ebgp : Bool) (u : CUpdate) (cs : List Corr) (bytes : Bytes) : Bool :=
  wfCase c u cs && bytes == render c u cs && (ebgp == (kind == .ebgp)) && !wdReannounced u
    -- LOCAL_PREF is well-known: never in the discard class; the injected default LOCAL_PREF of an internal peer is
    -- not an attribute "believed" from the message, so duplicates of LOCAL_PREF are judged on external sessions only
    && (allClasses c u cs).all (fun k => match k with
          | .discardOrTaw code => code != 5
          | .dup code _ => ebgp || code != 5
          | _ => true)

def checkE (kind : Kind) (c : Codec) (ebgp : Bool) (u : CUpdate) (cs : List Corr) (bytes : Bytes) (obs : EObs) : Verdict :=
  if !wfE kind c ebgp u cs bytes then .ok
  else match obs with
    | .panic => .fail "panic"
    | .other => .fail "no-outcome-on-a-complete-frame"
    | .reset code sub => check c ebgp u cs (.reset ⟨code, sub, []⟩)
    | .up rib =>
        let msgs := pseudoMsgs kind u rib
        if (allClasses c u cs).contains .weak then
          -- the framing is damaged: only what does not depend on it
          if ebgp && (reachMsgs msgs).any (fun as => as.any fun a => a.code == 5 || a.code == 9 || a.code == 10) then
            .fail "ibgp-only-attribute-from-an-external-peer-believed"
          else if prefixMustTaw c u cs && !(reachMsgs msgs).isEmpty then
            .fail "route-announced-although-an-attribute-before-the-framing-damage-requires-treat-as-withdraw"
          else .ok
        else check c ebgp u cs (.ok msgs)

end Rbgp.Wire.E2E
