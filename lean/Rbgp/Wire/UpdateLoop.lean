/-
  Rbgp.Wire.UpdateLoop — C05: what the model does with a rendered case, part 2: the attribute loop over a block made
  of well-framed items (header lemma, block ending inside an item, the loop invariant `PInv`).
-/
import Rbgp.Wire.UpdateRender
set_option linter.unusedSimpArgs false
set_option linter.unusedVariables false
namespace Rbgp.Wire
open USpec

/-! ## one well-framed item at the cursor -/

/-- the length field says how long the value is, and can carry it -/
structure ItemOK (w : WItem) : Prop where
  len : w.lenField = w.data.length
  fit : w.flags &&& 0x10 ≠ 0 ∨ w.data.length ≤ 255
  lt : w.data.length < 65536

def hdrLen (w : WItem) : Nat := if w.flags &&& 0x10 ≠ 0 then 4 else 3

theorem renderItem_length (w : WItem) : (renderItem w).length = hdrLen w + w.data.length := by
  unfold renderItem attrHdr hdrLen
  split <;> simp [be16Bytes] <;> omega

theorem attrHeader_item {buf : Bytes} {attrEnd pos : Nat} {w : WItem} {rest : Bytes} (hw : ItemOK w)
    (hd : buf.drop pos = renderItem w ++ rest) (hfit : pos + (renderItem w).length ≤ attrEnd) :
    attrHeader buf attrEnd pos = .ok (.hdr w.flags w.code w.data.length (pos + hdrLen w)) ∧
    buf.drop (pos + hdrLen w) = w.data ++ rest := by
  rw [renderItem_length] at hfit
  unfold renderItem attrHdr at hd
  unfold hdrLen at *
  by_cases hext : w.flags &&& 0x10 ≠ 0
  · rw [if_pos hext] at hd hfit ⊢
    have hd' : buf.drop pos = w.flags :: w.code :: (be16Bytes w.lenField ++ (w.data ++ rest)) := by
      simpa using hd
    have h0 := rd8_of_drop hd'
    have hd1 : buf.drop (pos + 1) = w.code :: (be16Bytes w.lenField ++ (w.data ++ rest)) := by
      have := congrArg (List.drop 1) hd'
      rw [List.drop_drop] at this; simpa using this
    have h1 := rd8_of_drop hd1
    have hd2 : buf.drop (pos + 2) = be16Bytes w.lenField ++ (w.data ++ rest) := by
      have := congrArg (List.drop 1) hd1
      rw [List.drop_drop] at this; simpa using this
    have h2 : rd16 buf (pos + 2) = .ok w.data.length := by
      rw [← hw.len]; exact rd16_be16 (by rw [hw.len]; exact hw.lt) hd2
    have hd4 : buf.drop (pos + 4) = w.data ++ rest := by
      have := congrArg (List.drop 2) hd2
      rw [List.drop_drop] at this; simpa [be16Bytes] using this
    refine ⟨?_, hd4⟩
    unfold attrHeader
    rw [if_neg (by omega), h0, h1]
    simp only [Out.bind_ok]
    rw [if_pos hext, if_neg (by omega), h2]
    rfl
  · rw [if_neg hext] at hd hfit ⊢
    have hle : w.data.length ≤ 255 := by
      rcases hw.fit with h | h
      · exact absurd h hext
      · exact h
    have hd' : buf.drop pos = w.flags :: w.code :: (w.lenField % 256) :: (w.data ++ rest) := by
      simpa using hd
    have h0 := rd8_of_drop hd'
    have hd1 : buf.drop (pos + 1) = w.code :: (w.lenField % 256) :: (w.data ++ rest) := by
      have := congrArg (List.drop 1) hd'
      rw [List.drop_drop] at this; simpa using this
    have h1 := rd8_of_drop hd1
    have hd2 : buf.drop (pos + 2) = (w.lenField % 256) :: (w.data ++ rest) := by
      have := congrArg (List.drop 1) hd1
      rw [List.drop_drop] at this; simpa using this
    have h2 : rd8 buf (pos + 2) = .ok w.data.length := by
      have := rd8_of_drop hd2
      rw [this, hw.len]
      congr 1; omega
    have hd3 : buf.drop (pos + 3) = w.data ++ rest := by
      have := congrArg (List.drop 1) hd2
      rw [List.drop_drop] at this; simpa using this
    refine ⟨?_, hd3⟩
    unfold attrHeader
    rw [if_neg (by omega), h0, h1]
    simp only [Out.bind_ok]
    rw [if_neg hext, if_neg (by omega), h2]
    rfl

theorem renderItem_cons (w : WItem) : ∃ L, renderItem w = w.flags :: w.code :: L ∧
    ((w.flags &&& 0x10 ≠ 0 → L = be16Bytes w.lenField ++ w.data) ∧
     (¬ w.flags &&& 0x10 ≠ 0 → L = (w.lenField % 256) :: w.data)) := by
  unfold renderItem attrHdr
  by_cases h : w.flags &&& 0x10 ≠ 0
  · exact ⟨be16Bytes w.lenField ++ w.data, by simp [h], fun _ => rfl, fun h' => absurd h h'⟩
  · exact ⟨(w.lenField % 256) :: w.data, by simp [h], fun h' => absurd h' h, fun _ => rfl⟩

/-- the attribute block ends inside an item: the loop stops there and notes the truncation -/
theorem attrLoop_cut {two : Bool} {buf : Bytes} {attrEnd pos m : Nat} {wc : WItem} {post : Bytes} (hw : ItemOK wc)
    (hd : buf.drop pos = (renderItem wc).take m ++ post) (hm0 : 0 < m) (hm : m < (renderItem wc).length)
    (hend : attrEnd = pos + m) (fuel : Nat) (s : AState) (hs : s.pos = pos) :
    ∃ p', attrLoop two buf attrEnd (fuel + 1) s = .ok { s with pos := p', trunc := true } := by
  obtain ⟨L, hL, hLext, hLn⟩ := renderItem_cons wc
  rw [renderItem_length] at hm
  unfold attrLoop
  rw [hs, if_pos (by omega)]
  by_cases h1 : m < 2
  · -- only the flags octet is left
    unfold attrHeader
    rw [if_pos (by omega)]
    exact ⟨pos, rfl⟩
  · have hm2 : 2 ≤ m := by omega
    have htk : (renderItem wc).take m = wc.flags :: wc.code :: L.take (m - 2) := by
      rw [hL]
      have : m = (m - 2) + 1 + 1 := by omega
      rw [this]; simp
    rw [htk] at hd
    have hd' : buf.drop pos = wc.flags :: wc.code :: (L.take (m - 2) ++ post) := by simpa using hd
    have h0 := rd8_of_drop hd'
    have hd1 : buf.drop (pos + 1) = wc.code :: (L.take (m - 2) ++ post) := by
      have := congrArg (List.drop 1) hd'
      rw [List.drop_drop] at this; simpa using this
    have h1' := rd8_of_drop hd1
    have hd2 : buf.drop (pos + 2) = L.take (m - 2) ++ post := by
      have := congrArg (List.drop 1) hd1
      rw [List.drop_drop] at this; simpa using this
    unfold attrHeader
    rw [if_neg (by omega), h0, h1']
    simp only [Out.bind_ok]
    unfold hdrLen at hm
    by_cases hext : wc.flags &&& 0x10 ≠ 0
    · rw [if_pos hext] at hm ⊢
      by_cases h4 : m < 4
      · rw [if_pos (by omega)]
        exact ⟨pos + 2, rfl⟩
      · rw [if_neg (by omega)]
        have hLe := hLext hext
        have htk2 : L.take (m - 2) = be16Bytes wc.lenField ++ wc.data.take (m - 4) := by
          rw [hLe, List.take_append]
          have h2 : (be16Bytes wc.lenField).length = 2 := by simp [be16Bytes]
          rw [List.take_of_length_le (by omega), h2]
          have : m - 2 - 2 = m - 4 := by omega
          rw [this]
        rw [htk2] at hd2
        have h2 : rd16 buf (pos + 2) = .ok wc.data.length := by
          rw [← hw.len]
          exact rd16_be16 (by rw [hw.len]; exact hw.lt) (by simpa using hd2)
        rw [h2]
        simp only [Out.bind_ok]
        rw [if_pos (by omega)]
        exact ⟨pos + 2 + 2, rfl⟩
    · rw [if_neg hext] at hm ⊢
      by_cases h3 : m < 3
      · rw [if_pos (by omega)]
        exact ⟨pos + 2, rfl⟩
      · rw [if_neg (by omega)]
        have hLe := hLn hext
        have hle : wc.data.length ≤ 255 := by
          rcases hw.fit with h | h
          · exact absurd h hext
          · exact h
        have htk2 : L.take (m - 2) = (wc.lenField % 256) :: wc.data.take (m - 3) := by
          rw [hLe]
          have : m - 2 = (m - 3) + 1 := by omega
          rw [this]; simp
        rw [htk2] at hd2
        have h2 : rd8 buf (pos + 2) = .ok wc.data.length := by
          have := rd8_of_drop (b := buf) (i := pos + 2) (by simpa using hd2)
          rw [this, hw.len]; congr 1; omega
        rw [h2]
        simp only [Out.bind_ok]
        rw [if_pos (by omega)]
        exact ⟨pos + 2 + 1, rfl⟩

/-! ## what the attribute loop has done after a list of items -/

def firstOf (ps : List WItem) (code : Nat) : Option WItem := ps.find? (fun w => w.code == code)

def conflictW (w : WItem) : Bool :=
  match canonicalFlags w.code with
  | some c => flagsConflict w.flags c
  | none => false

def decodeW (two : Bool) (w : WItem) : Option AttrData := attrDecode w.code w.data w.data.length two

/-- `a` is what item `w` leaves in the attribute vector -/
def Stores (two : Bool) (w : WItem) (a : Attr) : Prop :=
  a.code = w.code ∧ a.flags = w.flags ∧
    (((canonicalFlags w.code).isSome ∧ conflictW w = false ∧ decodeW two w = some a.data) ∨
     (canonicalFlags w.code = none ∧ a.data = .opq w.data))

/-- item `w` is reported as an attribute error -/
def Flagged (two : Bool) (w : WItem) : Prop :=
  conflictW w = true ∨
  ((canonicalFlags w.code).isSome ∧ decodeW two w = none ∧ w.code ≠ 17 ∧ w.code ≠ 18) ∨
  (canonicalFlags w.code = none ∧ w.flags &&& 0x80 = 0)

structure PInv (two : Bool) (ps : List WItem) (s : AState) : Prop where
  seen : ∀ code, code ∈ s.seen ↔ ∃ w ∈ ps, w.code = code
  attrs : ∀ a ∈ s.attrs, ∃ w, firstOf ps a.code = some w ∧ Stores two w a
  errs : ∀ w code, firstOf ps code = some w → Flagged two w → (w.code, w.flags) ∈ s.errs
  mpr : s.mpReach = (firstOf ps 14).map (·.data)
  mpu : s.mpUnreach = (firstOf ps 15).map (·.data)
  nh : s.nexthop.isSome = true → (firstOf ps 3).isSome = true
  notrunc : s.trunc = false

theorem PInv.init (two : Bool) (pos : Nat) : PInv two [] { pos := pos } :=
  ⟨by simp, by simp, by simp [firstOf], by simp [firstOf], by simp [firstOf], by simp, rfl⟩

theorem firstOf_code {ps : List WItem} {code : Nat} {w : WItem} (h : firstOf ps code = some w) :
    w.code = code ∧ w ∈ ps := by
  unfold firstOf at h
  exact ⟨by simpa using List.find?_some h, List.mem_of_find?_eq_some h⟩

theorem firstOf_append_old {ps : List WItem} {w : WItem} {code : Nat} (h : ∃ w' ∈ ps, w'.code = code) :
    firstOf (ps ++ [w]) code = firstOf ps code := by
  unfold firstOf
  rw [List.find?_append]
  obtain ⟨w', hw', hc⟩ := h
  cases hf : ps.find? (fun w => w.code == code) with
  | some x => rfl
  | none =>
    exfalso
    rw [List.find?_eq_none] at hf
    exact hf w' hw' (by simp [hc])

theorem firstOf_append_ne {ps : List WItem} {w : WItem} {code : Nat} (h : w.code ≠ code) :
    firstOf (ps ++ [w]) code = firstOf ps code := by
  unfold firstOf
  rw [List.find?_append]
  cases ps.find? (fun w => w.code == code) with
  | some x => rfl
  | none => simp [h]

theorem firstOf_append_new {ps : List WItem} {w : WItem} (h : ¬ ∃ w' ∈ ps, w'.code = w.code) :
    firstOf (ps ++ [w]) w.code = some w := by
  unfold firstOf
  rw [List.find?_append]
  have : ps.find? (fun x => x.code == w.code) = none := by
    rw [List.find?_eq_none]
    intro x hx hc
    exact h ⟨x, hx, by simpa using hc⟩
  simp [this]

theorem firstOf_none_of_fresh {ps : List WItem} {code : Nat} (h : ¬ ∃ w' ∈ ps, w'.code = code) :
    firstOf ps code = none := by
  unfold firstOf
  rw [List.find?_eq_none]
  intro x hx hc
  exact h ⟨x, hx, by simpa using hc⟩

/-- an item whose type was already seen changes nothing -/
theorem PInv.skip {two : Bool} {ps : List WItem} {s : AState} {w : WItem} (hi : PInv two ps s)
    (hseen : ∃ w' ∈ ps, w'.code = w.code) (p' : Nat) : PInv two (ps ++ [w]) { s with pos := p' } := by
  have hf : ∀ code, firstOf (ps ++ [w]) code = firstOf ps code := by
    intro code
    by_cases hc : w.code = code
    · exact firstOf_append_old (hc ▸ hseen)
    · exact firstOf_append_ne hc
  refine ⟨?_, ?_, ?_, ?_, ?_, ?_, hi.notrunc⟩
  · intro code
    rw [show ({ s with pos := p' } : AState).seen = s.seen from rfl, hi.seen]
    constructor
    · rintro ⟨x, hx, hc⟩; exact ⟨x, List.mem_append_left _ hx, hc⟩
    · rintro ⟨x, hx, hc⟩
      simp only [List.mem_append, List.mem_singleton] at hx
      rcases hx with hx | rfl
      · exact ⟨x, hx, hc⟩
      · obtain ⟨w', hw', hc'⟩ := hseen
        exact ⟨w', hw', hc'.trans hc⟩
  · intro a ha; rw [hf]; exact hi.attrs a ha
  · intro x code hx; rw [hf] at hx; exact hi.errs x code hx
  · rw [hf]; exact hi.mpr
  · rw [hf]; exact hi.mpu
  · rw [hf]; exact hi.nh

/-- an item of a type seen for the first time: what the new state must satisfy -/
theorem PInv.fresh {two : Bool} {ps : List WItem} {s s' : AState} {w : WItem} (hi : PInv two ps s)
    (hfresh : ¬ ∃ w' ∈ ps, w'.code = w.code)
    (hseen : s'.seen = w.code :: s.seen) (htr : s'.trunc = s.trunc)
    (hA : ∀ a ∈ s'.attrs, a ∈ s.attrs ∨ Stores two w a)
    (hE : (∀ e ∈ s.errs, e ∈ s'.errs) ∧ (Flagged two w → (w.code, w.flags) ∈ s'.errs))
    (hM : s'.mpReach = if w.code = 14 then some w.data else s.mpReach)
    (hU : s'.mpUnreach = if w.code = 15 then some w.data else s.mpUnreach)
    (hN : s'.nexthop.isSome = true → s.nexthop.isSome = true ∨ w.code = 3) :
    PInv two (ps ++ [w]) s' := by
  have hnew := firstOf_append_new hfresh
  have hold : ∀ code, w.code ≠ code → firstOf (ps ++ [w]) code = firstOf ps code := fun code h => firstOf_append_ne h
  have hnone := firstOf_none_of_fresh hfresh
  refine ⟨?_, ?_, ?_, ?_, ?_, ?_, by rw [htr]; exact hi.notrunc⟩
  · intro code
    rw [hseen, List.mem_cons, hi.seen]
    constructor
    · rintro (rfl | ⟨x, hx, hc⟩)
      · exact ⟨w, by simp, rfl⟩
      · exact ⟨x, List.mem_append_left _ hx, hc⟩
    · rintro ⟨x, hx, hc⟩
      rw [List.mem_append, List.mem_singleton] at hx
      rcases hx with hx | rfl
      · exact Or.inr ⟨x, hx, hc⟩
      · exact Or.inl hc.symm
  · intro a ha
    rcases hA a ha with h | h
    · obtain ⟨w0, hw0, hst⟩ := hi.attrs a h
      have hne : w.code ≠ a.code := by
        intro heq
        rw [← heq, hnone] at hw0
        cases hw0
      exact ⟨w0, by rw [hold _ hne]; exact hw0, hst⟩
    · exact ⟨w, by rw [h.1]; exact hnew, h⟩
  · intro x code hx hfl
    by_cases hc : w.code = code
    · subst hc
      rw [hnew] at hx
      injection hx with hx; subst hx
      exact hE.2 hfl
    · rw [hold _ hc] at hx
      exact hE.1 _ (hi.errs x code hx hfl)
  · rw [hM]
    by_cases h14 : w.code = 14
    · rw [if_pos h14, ← h14, hnew]; rfl
    · rw [if_neg h14, hold _ h14]; exact hi.mpr
  · rw [hU]
    by_cases h15 : w.code = 15
    · rw [if_pos h15, ← h15, hnew]; rfl
    · rw [if_neg h15, hold _ h15]; exact hi.mpu
  · intro h
    rcases hN h with h1 | h3
    · have := hi.nh h1
      by_cases hc : w.code = 3
      · rw [← hc, hnew]; rfl
      · rw [hold _ hc]; exact this
    · rw [← h3, hnew]; rfl

theorem mem_seen_contains {l : List Nat} {c : Nat} : l.contains c = true ↔ c ∈ l := by simp

theorem attrStore_fields (two : Bool) (s : AState) (a : Attr) :
    (attrStore two s a).seen = s.seen ∧ (attrStore two s a).trunc = s.trunc ∧ (attrStore two s a).errs = s.errs ∧
    (attrStore two s a).pos = s.pos ∧
    (∀ x ∈ (attrStore two s a).attrs, x ∈ s.attrs ∨ (x = a ∧ a.code ≠ 14 ∧ a.code ≠ 15)) ∧
    (attrStore two s a).mpReach = (if a.code = 14 then a.binary else s.mpReach) ∧
    (attrStore two s a).mpUnreach = (if a.code = 15 then a.binary else s.mpUnreach) ∧
    ((attrStore two s a).nexthop.isSome = true → s.nexthop.isSome = true ∨ a.code = 3) := by
  unfold attrStore
  by_cases h14 : a.code = 14
  · rw [if_pos h14]
    exact ⟨rfl, rfl, rfl, rfl, fun x hx => Or.inl hx, by simp [h14], by simp [h14], fun h => Or.inl h⟩
  · rw [if_neg h14]
    by_cases h15 : a.code = 15
    · rw [if_pos h15]
      exact ⟨rfl, rfl, rfl, rfl, fun x hx => Or.inl hx, by simp [h14], by simp [h15], fun h => Or.inl h⟩
    · rw [if_neg h15]
      by_cases h3 : a.code = 3
      · rw [if_pos h3]
        exact ⟨rfl, rfl, rfl, rfl, fun x hx => Or.inl hx, by simp [h14], by simp [h15], fun _ => Or.inr h3⟩
      · rw [if_neg h3]
        by_cases h17 : (a.code = 17 ∨ a.code = 18) ∧ ¬ two = true
        · rw [if_pos h17]
          exact ⟨rfl, rfl, rfl, rfl, fun x hx => Or.inl hx, by simp [h14], by simp [h15], fun h => Or.inl h⟩
        · rw [if_neg h17]
          refine ⟨rfl, rfl, rfl, rfl, ?_, by simp [h14], by simp [h15], fun h => Or.inl h⟩
          intro x hx
          simp only [List.mem_append, List.mem_singleton] at hx
          rcases hx with hx | rfl
          · exact Or.inl hx
          · exact Or.inr ⟨rfl, h14, h15⟩

/-- the decoder falls through to the default arm for MP_REACH / MP_UNREACH -/
theorem attrDecode_mp {code : Nat} (h : code = 14 ∨ code = 15) (data : Bytes) (two : Bool) :
    attrDecode code data data.length two = some (.bin data) := by
  rcases h with rfl | rfl <;> simp [attrDecode]

/-- one item of a type not seen before, decoded -/
theorem attrDecoded_pinv {two : Bool} {buf : Bytes} {ps : List WItem} {s0 s : AState} {w : WItem} {pos : Nat}
    (hi : PInv two ps s0) (hfresh : ¬ ∃ w' ∈ ps, w'.code = w.code)
    (hcan : (canonicalFlags w.code).isSome = true)
    (hwin : (buf.drop pos).take w.data.length = w.data)
    (hs_seen : s.seen = w.code :: s0.seen) (hs_tr : s.trunc = s0.trunc) (hs_attrs : s.attrs = s0.attrs)
    (hs_mpr : s.mpReach = s0.mpReach) (hs_mpu : s.mpUnreach = s0.mpUnreach) (hs_nh : s.nexthop = s0.nexthop)
    (hs_errs : (∀ e ∈ s0.errs, e ∈ s.errs) ∧ (conflictW w = true → (w.code, w.flags) ∈ s.errs))
    (hmp : conflictW w = true → w.code = 14 ∨ w.code = 15) :
    PInv two (ps ++ [w]) (attrDecoded two buf s w.flags w.code w.data.length pos) ∧
    (attrDecoded two buf s w.flags w.code w.data.length pos).pos = pos + w.data.length := by
  unfold attrDecoded
  rw [hwin]
  cases hdec : attrDecode w.code w.data w.data.length two with
  | some d =>
    simp only
    obtain ⟨h1, h2, h3, h4, h5, h6, h7, h8⟩ := attrStore_fields two { s with pos := pos + w.data.length } ⟨w.code, w.flags, d⟩
    refine ⟨PInv.fresh hi hfresh (by rw [h1]; exact hs_seen) (by rw [h2]; exact hs_tr) ?_ ?_ ?_ ?_ ?_, h4⟩
    · intro a ha
      rcases h5 a ha with hx | ⟨rfl, hn14, hn15⟩
      · exact Or.inl (hs_attrs ▸ hx)
      · refine Or.inr ⟨rfl, rfl, Or.inl ⟨hcan, ?_, hdec⟩⟩
        cases hcw : conflictW w with
        | false => rfl
        | true => exact absurd (hmp hcw) (by simp only at hn14 hn15; omega)
    · rw [h3]
      refine ⟨hs_errs.1, ?_⟩
      rintro (hc | ⟨_, hnone, _, _⟩ | ⟨hcn, _⟩)
      · exact hs_errs.2 hc
      · unfold decodeW at hnone; rw [hdec] at hnone; cases hnone
      · rw [hcn] at hcan; cases hcan
    · rw [h6]
      simp only [Attr.binary]
      by_cases h14 : w.code = 14
      · have := attrDecode_mp (Or.inl h14) w.data two
        rw [this] at hdec; injection hdec with hdec; subst hdec
        simp [h14]
      · simp [h14, hs_mpr]
    · rw [h7]
      simp only [Attr.binary]
      by_cases h15 : w.code = 15
      · have := attrDecode_mp (Or.inr h15) w.data two
        rw [this] at hdec; injection hdec with hdec; subst hdec
        simp [h15]
      · simp [h15, hs_mpu]
    · intro h
      rcases h8 h with h | h
      · exact Or.inl (hs_nh ▸ h)
      · exact Or.inr h
  | none =>
    simp only
    have hnmp : w.code ≠ 14 ∧ w.code ≠ 15 := by
      constructor <;> intro hc
      · rw [attrDecode_mp (Or.inl hc)] at hdec; cases hdec
      · rw [attrDecode_mp (Or.inr hc)] at hdec; cases hdec
    have hncf : conflictW w = false := by
      cases hcw : conflictW w with
      | false => rfl
      | true => have := hmp hcw; omega
    split
    · rename_i h1718
      refine ⟨PInv.fresh hi hfresh hs_seen hs_tr (fun a ha => Or.inl (hs_attrs ▸ ha)) ?_ ?_ ?_ ?_, rfl⟩
      · refine ⟨fun e he => List.mem_append_left _ (hs_errs.1 e he), fun _ => ?_⟩
        simp
      · simp [hnmp.1, hs_mpr]
      · simp [hnmp.2, hs_mpu]
      · intro h; exact Or.inl (hs_nh ▸ h)
    · rename_i h1718
      refine ⟨PInv.fresh hi hfresh hs_seen hs_tr (fun a ha => Or.inl (hs_attrs ▸ ha)) ?_ ?_ ?_ ?_, rfl⟩
      · refine ⟨hs_errs.1, ?_⟩
        rintro (hc | ⟨_, _, h17, h18⟩ | ⟨hcn, _⟩)
        · rw [hncf] at hc; cases hc
        · exact absurd ⟨h17, h18⟩ h1718
        · rw [hcn] at hcan; cases hcan
      · simp [hnmp.1, hs_mpr]
      · simp [hnmp.2, hs_mpu]
      · intro h; exact Or.inl (hs_nh ▸ h)

theorem attrBody_pinv {two : Bool} {buf : Bytes} {ps : List WItem} {s : AState} {w : WItem} {pos : Nat}
    (hi : PInv two ps s) (hwin : (buf.drop pos).take w.data.length = w.data)
    (hlen : pos + w.data.length ≤ buf.length) :
    (∀ e, attrBody two buf s w.flags w.code w.data.length pos = .err e →
      (w.code = 14 ∨ w.code = 15) ∧ ∃ w' ∈ ps, w'.code = w.code) ∧
    (∀ s', attrBody two buf s w.flags w.code w.data.length pos = .ok s' →
      PInv two (ps ++ [w]) s' ∧ s'.pos = pos + w.data.length) := by
  unfold attrBody
  by_cases hseen : s.seen.contains w.code = true
  · have hex : ∃ w' ∈ ps, w'.code = w.code := (hi.seen w.code).mp (mem_seen_contains.mp hseen)
    rw [if_pos hseen]
    split
    · rename_i hmp
      exact ⟨fun e _ => ⟨hmp, hex⟩, fun s' h => by cases h⟩
    · refine ⟨(fun e h => by cases h), (fun s' h => ?_)⟩
      injection h with h; subst h
      exact ⟨hi.skip hex _, rfl⟩
  · rw [if_neg hseen]
    have hfresh : ¬ ∃ w' ∈ ps, w'.code = w.code := by
      intro hex
      exact hseen (mem_seen_contains.mpr ((hi.seen w.code).mpr hex))
    simp only
    cases hcan : canonicalFlags w.code with
    | some expected =>
      simp only
      rw [attrKnownW_eq]
      refine ⟨(fun e h => by cases h), (fun s' h => ?_)⟩
      injection h with h; subst h
      have hcw : conflictW w = flagsConflict w.flags expected := by simp [conflictW, hcan]
      unfold attrKnown
      by_cases hfc : flagsConflict w.flags expected = true
      · simp only [hfc, if_true, true_and]
        by_cases hmp : w.code ≠ 14 ∧ w.code ≠ 15
        · rw [if_pos hmp]
          refine ⟨PInv.fresh hi hfresh rfl rfl (fun a ha => Or.inl ha) ?_ ?_ ?_ (fun h => Or.inl h), rfl⟩
          · exact ⟨fun e he => List.mem_append_left _ he, fun _ => by simp⟩
          · simp [hmp.1]
          · simp [hmp.2]
        · rw [if_neg hmp]
          exact attrDecoded_pinv hi hfresh (by simp [hcan]) hwin rfl rfl rfl rfl rfl rfl
            ⟨fun e he => List.mem_append_left _ he, fun _ => by simp⟩ (fun _ => by omega)
      · simp only [hfc, if_false, false_and, Bool.false_eq_true]
        exact attrDecoded_pinv hi hfresh (by simp [hcan]) hwin rfl rfl rfl rfl rfl rfl
          ⟨fun e he => he, fun h => by rw [hcw] at h; exact absurd h hfc⟩
          (fun h => by rw [hcw] at h; exact absurd h hfc)
    | none =>
      simp only
      have hnmp : w.code ≠ 14 ∧ w.code ≠ 15 := by
        constructor <;> intro hc <;> rw [hc] at hcan <;> simp [canonicalFlags] at hcan
      have hcw : conflictW w = false := by simp [conflictW, hcan]
      unfold attrUnknown
      by_cases hopt : w.flags &&& 0x80 = 0
      · rw [if_pos hopt]
        refine ⟨(fun e h => by cases h), (fun s' h => ?_)⟩
        injection h with h; subst h
        refine ⟨PInv.fresh hi hfresh rfl rfl (fun a ha => Or.inl ha) ?_ ?_ ?_ (fun h => Or.inl h), rfl⟩
        · exact ⟨fun e he => List.mem_append_left _ he, fun _ => by simp⟩
        · simp [hnmp.1]
        · simp [hnmp.2]
      · rw [if_neg hopt]
        by_cases htr : w.flags &&& 0x40 ≠ 0
        · rw [if_pos htr, if_neg (by omega)]
          have hsl : slice buf pos (pos + w.data.length) = .ok w.data := by
            rw [slice_of_drop (by omega) hlen]
            have : pos + w.data.length - pos = w.data.length := by omega
            rw [this, hwin]
          rw [hsl]
          simp only [Out.bind_ok]
          refine ⟨(fun e h => by cases h), (fun s' h => ?_)⟩
          injection h with h; subst h
          refine ⟨PInv.fresh hi hfresh rfl rfl ?_ ?_ ?_ ?_ (fun h => Or.inl h), rfl⟩
          · intro a ha
            simp only [List.mem_append, List.mem_singleton] at ha
            rcases ha with ha | rfl
            · exact Or.inl ha
            · exact Or.inr ⟨rfl, rfl, Or.inr ⟨hcan, rfl⟩⟩
          · refine ⟨fun e he => he, ?_⟩
            rintro (hc | ⟨hsome, _⟩ | ⟨_, h80⟩)
            · rw [hcw] at hc; cases hc
            · rw [hcan] at hsome; cases hsome
            · exact absurd h80 hopt
          · simp [hnmp.1]
          · simp [hnmp.2]
        · rw [if_neg htr]
          refine ⟨(fun e h => by cases h), (fun s' h => ?_)⟩
          injection h with h; subst h
          refine ⟨PInv.fresh hi hfresh rfl rfl (fun a ha => Or.inl ha) ?_ ?_ ?_ (fun h => Or.inl h), rfl⟩
          · refine ⟨fun e he => he, ?_⟩
            rintro (hc | ⟨hsome, _⟩ | ⟨_, h80⟩)
            · rw [hcw] at hc; cases hc
            · rw [hcan] at hsome; cases hsome
            · exact absurd h80 hopt
          · simp [hnmp.1]
          · simp [hnmp.2]

/-- how the block ends: exactly after the last item, or `cutLen` bytes into another item -/
def CutOK (tail : Bytes) (cutLen : Nat) : Prop :=
  cutLen = 0 ∨ ∃ wc post, ItemOK wc ∧ tail = (renderItem wc).take cutLen ++ post ∧ cutLen < (renderItem wc).length

/-- the attribute loop over a block made of well-framed items (possibly ending inside one more item) -/
theorem attrLoop_items {two : Bool} {buf : Bytes} {attrEnd cutLen : Nat} {tail : Bytes}
    (hEnd : attrEnd ≤ buf.length) (hcut : CutOK tail cutLen) :
    ∀ (ws ps : List WItem) (pos : Nat) (s : AState) (fuel : Nat),
      (∀ w ∈ ws, ItemOK w) →
      buf.drop pos = ws.flatMap renderItem ++ tail →
      pos + (ws.flatMap renderItem).length + cutLen = attrEnd →
      s.pos = pos → PInv two ps s → attrEnd - pos < fuel →
      (∀ e, attrLoop two buf attrEnd fuel s = .err e →
        ∃ pre w post, ws = pre ++ w :: post ∧ (w.code = 14 ∨ w.code = 15) ∧ ∃ w' ∈ ps ++ pre, w'.code = w.code) ∧
      (∀ s', attrLoop two buf attrEnd fuel s = .ok s' →
        ∃ s1, PInv two (ps ++ ws) s1 ∧
          ((cutLen = 0 ∧ s' = s1 ∧ s1.pos = attrEnd) ∨ (cutLen ≠ 0 ∧ ∃ p', s' = { s1 with pos := p', trunc := true }))) := by
  intro ws
  induction ws with
  | nil =>
    intro ps pos s fuel _ hd hsum hs hi hf
    simp only [List.flatMap_nil, List.nil_append, List.length_nil, Nat.add_zero] at hd hsum
    match fuel with
    | 0 => omega
    | fuel + 1 =>
      rcases hcut with h0 | ⟨wc, post, hwc, htail, hlt⟩
      · subst h0
        have : ¬ s.pos < attrEnd := by omega
        unfold attrLoop
        rw [if_neg this]
        refine ⟨(fun e h => by cases h), (fun s' h => ?_)⟩
        injection h with h; subst h
        exact ⟨s, by simpa using hi, Or.inl ⟨rfl, rfl, by omega⟩⟩
      · by_cases hc0 : cutLen = 0
        · subst hc0
          have : ¬ s.pos < attrEnd := by omega
          unfold attrLoop
          rw [if_neg this]
          refine ⟨(fun e h => by cases h), (fun s' h => ?_)⟩
          injection h with h; subst h
          exact ⟨s, by simpa using hi, Or.inl ⟨rfl, rfl, by omega⟩⟩
        · obtain ⟨p', hp'⟩ := attrLoop_cut (two := two) (buf := buf) (attrEnd := attrEnd) (pos := pos) (m := cutLen) (post := post) hwc (by rw [hd, htail]) (by omega) hlt (by omega) fuel s hs
          rw [hp']
          refine ⟨(fun e h => by cases h), (fun s' h => ?_)⟩
          injection h with h; subst h
          exact ⟨s, by simpa using hi, Or.inr ⟨hc0, p', rfl⟩⟩
  | cons w rest ih =>
    intro ps pos s fuel hok hd hsum hs hi hf
    have hw := hok w (by simp)
    have hrest : ∀ x ∈ rest, ItemOK x := fun x hx => hok x (List.mem_cons_of_mem _ hx)
    simp only [List.flatMap_cons, List.append_assoc, List.length_append] at hd hsum
    have hrl := renderItem_length w
    obtain ⟨hhdr, hdata⟩ := attrHeader_item (attrEnd := attrEnd) hw hd (by omega)
    have hwin : (buf.drop (pos + hdrLen w)).take w.data.length = w.data := by
      rw [hdata]; simp
    match fuel with
    | 0 => omega
    | fuel + 1 =>
      unfold attrLoop
      have hh3 : 3 ≤ hdrLen w := by unfold hdrLen; split <;> omega
      rw [hs, if_pos (by omega), hhdr]
      simp only [Out.bind_ok]
      rw [if_neg (by omega)]
      obtain ⟨hberr, hbok⟩ := attrBody_pinv (two := two) (buf := buf) (pos := pos + hdrLen w) hi hwin (by omega)
      cases hb : attrBody two buf s w.flags w.code w.data.length (pos + hdrLen w) with
      | panic =>
        simp only [Out.bind_panic]
        exact ⟨(fun e h => by cases h), (fun s' h => by cases h)⟩
      | err e0 =>
        simp only [Out.bind_err]
        refine ⟨(fun e h => ?_), (fun s' h => by cases h)⟩
        obtain ⟨hmp, hex⟩ := hberr e0 hb
        exact ⟨[], w, rest, rfl, hmp, by simpa using hex⟩
      | ok s1 =>
        simp only [Out.bind_ok]
        obtain ⟨hi1, hpos1⟩ := hbok s1 hb
        have hd' : buf.drop (pos + (renderItem w).length) = rest.flatMap renderItem ++ tail := by
          have := congrArg (List.drop (renderItem w).length) hd
          rw [List.drop_drop, drop_app _ _ _ rfl] at this
          exact this
        obtain ⟨iherr, ihok⟩ := ih (ps ++ [w]) (pos + (renderItem w).length) s1 fuel hrest hd' (by omega)
          (by rw [hpos1, hrl]; omega) hi1 (by omega)
        refine ⟨(fun e h => ?_), (fun s' h => ?_)⟩
        · obtain ⟨pre, x, post, hr, hmp, w', hw', hc⟩ := iherr e h
          refine ⟨w :: pre, x, post, by rw [hr]; rfl, hmp, w', ?_, hc⟩
          simpa [List.append_assoc] using hw'
        · obtain ⟨s2, hi2, hfin⟩ := ihok s' h
          exact ⟨s2, by simpa [List.append_assoc] using hi2, hfin⟩

end Rbgp.Wire
