/-
  Rbgp.Wire.ErrClass — C03: the NOTIFICATION a `try_parse` error maps to has the error code the message type calls
  for (RFC 4271 §6.1-6.3, RFC 7313): a bad header length ⇒ (1, 2); an unknown type ⇒ (1, 3); inside an OPEN ⇒ code 2;
  inside an UPDATE ⇒ code 3; NOTIFICATION / KEEPALIVE ⇒ (1, 2) only; ROUTE-REFRESH ⇒ (1, 2) or code 7.
  `Out.EC P x`: if `x` is an error, the error satisfies `P`.
-/
import Rbgp.Wire.UpdateProofs
import Rbgp.Wire.Nlri3
set_option linter.unusedSimpArgs false
namespace Rbgp.Wire
open Spec

def Out.EC {α} (P : Notif → Prop) : Out α → Prop
  | .err e => P e
  | _ => True

@[simp] theorem Out.EC_ok {α} (P : Notif → Prop) (a : α) : (Out.ok a).EC P := trivial
@[simp] theorem Out.EC_panic {α} (P : Notif → Prop) : (Out.panic : Out α).EC P := trivial
@[simp] theorem Out.EC_err {α} (P : Notif → Prop) (e : Notif) : (Out.err e : Out α).EC P ↔ P e := Iff.rfl

theorem Out.EC_bind {α β} {P : Notif → Prop} {x : Out α} {f : α → Out β} :
    (x >>= f).EC P ↔ x.EC P ∧ ∀ a, x = .ok a → (f a).EC P := by
  cases x <;> simp [Out.EC]

theorem Out.EC_of_NE {α} {P : Notif → Prop} {x : Out α} (h : x.NE) : x.EC P := by
  cases x with
  | err e => exact absurd rfl (h e)
  | ok _ => trivial
  | panic => trivial

theorem Out.EC_mono {α} {P Q : Notif → Prop} {x : Out α} (hpq : ∀ e, P e → Q e) (h : x.EC P) : x.EC Q := by
  cases x with
  | err e => exact hpq e h
  | ok _ => trivial
  | panic => trivial

theorem Out.EC_elim {α} {P : Notif → Prop} {x : Out α} {e : Notif} (h : x.EC P) (he : x = .err e) : P e := by
  subst he; exact h

@[simp] theorem rd8_EC (P : Notif → Prop) (b : Bytes) (i : Nat) : (rd8 b i).EC P := Out.EC_of_NE (rd8_NE b i)
@[simp] theorem slice_EC (P : Notif → Prop) (b : Bytes) (s e : Nat) : (slice b s e).EC P := Out.EC_of_NE (slice_NE b s e)
@[simp] theorem rd16_EC (P : Notif → Prop) (b : Bytes) (i : Nat) : (rd16 b i).EC P := by
  unfold rd16; simp [Out.EC_bind, pure]
@[simp] theorem rd32_EC (P : Notif → Prop) (b : Bytes) (i : Nat) : (rd32 b i).EC P := by
  unfold rd32; simp [Out.EC_bind, pure]
@[simp] theorem subU64_EC (P : Notif → Prop) (p : Profile) (a b : Nat) : (subU64 p a b).EC P :=
  Out.EC_of_NE (subU64_NE p a b)

/-! ## OPEN: every error has code 2 (or is the header error handed in) -/

def isOpenErr (e : Notif) : Prop := e.code = 2

theorem capLoop_EC (p : Profile) (buf : Bytes) (opEnd : Nat) :
    ∀ fuel pos as4 caps, (capLoop p buf opEnd fuel pos as4 caps).EC isOpenErr := by
  intro fuel
  induction fuel with
  | zero => intro pos as4 caps; simp [capLoop]
  | succ fuel ih =>
    intro pos as4 caps
    unfold capLoop
    split
    · split
      · simp [isOpenErr, eOpenMalformed]
      · simp only [Out.EC_bind, rd8_EC, true_and]
        intro ct _ cl _
        split
        · simp [isOpenErr, eOpenMalformed]
        · rw [capDecodeW_eq]
          simp only [Out.bind_ok]
          split
          · exact ih _ _ _
          · simp [isOpenErr, eOpenMalformed]
    · simp

theorem paramLoop_EC (p : Profile) (buf : Bytes) (paramEnd : Nat) :
    ∀ fuel pos as4 caps, (paramLoop p buf paramEnd fuel pos as4 caps).EC isOpenErr := by
  intro fuel
  induction fuel with
  | zero => intro pos as4 caps; simp [paramLoop]
  | succ fuel ih =>
    intro pos as4 caps
    unfold paramLoop
    split
    · split
      · simp [isOpenErr, eOpenMalformed]
      · simp only [Out.EC_bind, rd8_EC, true_and]
        intro ty _ ln _
        split
        · simp [isOpenErr, eOpenMalformed]
        · split
          · simp only [Out.EC_bind]
            refine ⟨capLoop_EC p buf _ _ _ _ _, fun r _ => ?_⟩
            exact ih _ _ _
          · simp only [Out.EC_bind, slice_EC, true_and]
            intro d _
            simp [isOpenErr]
    · simp

theorem parseOpen_EC (p : Profile) (buf : Bytes) (hdr : Notif) :
    (parseOpen p buf hdr).EC (fun e => e = hdr ∨ isOpenErr e) := by
  unfold parseOpen
  split
  · simp
  · simp only [Out.EC_bind, rd8_EC, rd16_EC, rd32_EC, true_and]
    intro version _
    split
    · simp [isOpenErr]
    · simp only [Out.EC_bind, rd8_EC, rd16_EC, rd32_EC, true_and]
      intro asn _ hold _
      split
      · simp [isOpenErr]
      · simp only [Out.EC_bind, rd8_EC, rd16_EC, rd32_EC, true_and]
        intro rid _
        split
        · simp [isOpenErr]
        · simp only [Out.EC_bind, rd8_EC, rd16_EC, rd32_EC, true_and]
          intro plen _
          split
          · simp [isOpenErr, eOpenMalformed]
          · simp only [Out.EC_bind]
            refine ⟨Out.EC_mono (fun e h => Or.inr h) (paramLoop_EC p buf _ _ _ _ _), fun r _ => ?_⟩
            simp

/-! ## UPDATE: every error has code 3 (or is the header error handed in) -/

def isUpdErr (e : Notif) : Prop := e.code = 3

/-- the NLRI decoders of the families outside the model only raise UPDATE errors -/
def HypDec.E3 (dec : HypDec) : Prop := ∀ f a r b, (dec f a r b).EC isUpdErr

theorem updateLens_EC (buf : Bytes) : (updateLens buf).EC isUpdErr := by
  unfold updateLens
  simp only [Out.EC_bind, rd16_EC, true_and]
  intro wl _
  split
  · simp [isUpdErr, eMalformed]
  · split
    · split <;> simp [isUpdErr, eMalformed]
    · simp [isUpdErr, eMalformed]

theorem attrHeader_EC (P : Notif → Prop) (buf : Bytes) (attrEnd pos : Nat) : (attrHeader buf attrEnd pos).EC P := by
  unfold attrHeader
  split
  · simp
  · simp only [Out.EC_bind, rd8_EC, true_and]
    intro flags _ code _
    split
    · split
      · simp
      · simp only [Out.EC_bind, rd16_EC, true_and]; intro _ _; simp
    · split
      · simp
      · simp only [Out.EC_bind, rd8_EC, true_and]; intro _ _; simp

theorem attrBody_EC (two : Bool) (buf : Bytes) (s : AState) (flags code alen pos : Nat) :
    (attrBody two buf s flags code alen pos).EC isUpdErr := by
  unfold attrBody
  split
  · split <;> simp [isUpdErr, eMalformed]
  · simp only
    split
    · rw [attrKnownW_eq]; simp
    · unfold attrUnknown
      split
      · simp
      · split
        · split
          · simp [isUpdErr, eMalformed]
          · simp only [Out.EC_bind, slice_EC, true_and]; intro _ _; simp
        · simp

theorem attrLoop_EC (two : Bool) (buf : Bytes) (attrEnd : Nat) :
    ∀ fuel s, (attrLoop two buf attrEnd fuel s).EC isUpdErr := by
  intro fuel
  induction fuel with
  | zero => intro s; simp [attrLoop]
  | succ fuel ih =>
    intro s
    unfold attrLoop
    split
    · simp only [Out.EC_bind]
      refine ⟨attrHeader_EC _ _ _ _, fun h _ => ?_⟩
      split
      · simp
      · split
        · simp
        · simp only [Out.EC_bind]
          exact ⟨attrBody_EC _ _ _ _ _ _ _, fun s' _ => ih s'⟩
    · simp

theorem nlriLoop_EC (maxBits : Nat) (addpath : Bool) :
    ∀ fuel bs rem acc, (nlriLoop maxBits addpath fuel bs rem acc).EC isUpdErr := by
  intro fuel
  induction fuel with
  | zero => intro bs rem acc; simp [nlriLoop]
  | succ fuel ih =>
    intro bs rem acc
    unfold nlriLoop
    split
    · simp
    · split
      · simp [isUpdErr, eMalformed]
      · split
        · simp [isUpdErr, eMalformed]
        · simp only
          split
          · simp [isUpdErr, eMalformed]
          · split
            · simp [isUpdErr, eMalformed]
            · exact ih _ _ _

theorem decodeNlriList_EC {dec : HypDec} (hd : dec.E3) (fam : Nat) (ap r : Bool) (bs : Bytes) :
    (decodeNlriList dec fam ap r bs).EC isUpdErr := by
  unfold decodeNlriList
  split
  · exact nlriLoop_EC _ _ _ _ _ _
  · split
    · exact nlriLoop_EC _ _ _ _ _ _
    · exact hd _ _ _ _

theorem legacyReach_EC {dec : HypDec} (hd : dec.E3) (c : Codec) (buf : Bytes) (pos : Nat) :
    (legacyReach dec c buf pos).EC isUpdErr := by
  unfold legacyReach
  split
  · split
    · simp [isUpdErr, eMalformed]
    · simp only [Out.EC_bind, slice_EC, true_and]
      intro _ _; exact decodeNlriList_EC hd _ _ _ _
  · simp

theorem legacyUnreach_EC {dec : HypDec} (hd : dec.E3) (c : Codec) (buf : Bytes) (wl : Nat) :
    (legacyUnreach dec c buf wl).EC isUpdErr := by
  unfold legacyUnreach
  split
  · split
    · simp [isUpdErr, eMalformed]
    · simp only [Out.EC_bind, slice_EC, true_and]
      intro _ _; exact decodeNlriList_EC hd _ _ _ _
  · simp

theorem parseMpReach_EC {dec : HypDec} (hd : dec.E3) (c : Codec) (b : Bytes) :
    (parseMpReach dec c b).EC isUpdErr := by
  unfold parseMpReach
  split
  · simp [isUpdErr, eOptAttr]
  · simp only [Out.EC_bind, rd16_EC, rd8_EC, true_and]
    intro afi _ safi _
    split
    · simp [isUpdErr, eMalformed]
    · simp only [Out.EC_bind, rd8_EC, true_and]
      intro nhl _
      split
      · simp [isUpdErr, eOptAttr]
      · simp only [Out.EC_bind, rd8_EC, slice_EC, true_and]
        refine ⟨?_, fun nh _ _ _ rest _ => ⟨decodeNlriList_EC hd _ _ _ _, fun _ _ => by simp⟩⟩
        split
        · split <;> simp [isUpdErr, eOptAttr]
        · split
          · simp only [Out.EC_bind, slice_EC, true_and]; intro _ _; simp
          · split
            · simp only [Out.EC_bind, slice_EC, true_and]; intro _ _; simp
            · split
              · simp only [Out.EC_bind, slice_EC, true_and]; intro _ _ _ _; simp
              · simp [isUpdErr, eOptAttr]

theorem parseMpUnreach_EC {dec : HypDec} (hd : dec.E3) (c : Codec) (b : Bytes) :
    (parseMpUnreach dec c b).EC isUpdErr := by
  unfold parseMpUnreach
  split
  · simp [isUpdErr, eOptAttr]
  · simp only [Out.EC_bind, rd16_EC, rd8_EC, true_and]
    intro afi _ safi _
    split
    · simp [isUpdErr, eMalformed]
    · simp only [Out.EC_bind, slice_EC, true_and]
      intro rest _
      exact ⟨decodeNlriList_EC hd _ _ _ _, fun _ _ => by simp⟩

/-- a frame long enough to be an UPDATE only raises UPDATE errors -/
theorem parseUpdate_EC23 {dec : HypDec} (hd : dec.E3) (p : Profile) (c : Codec) (buf : Bytes) (hdr : Notif)
    (h23 : ¬ buf.length < 23) : (parseUpdateWith updateLens dec p c buf hdr).EC isUpdErr := by
  unfold parseUpdateWith
  rw [if_neg h23]
  simp only [Out.EC_bind]
  refine ⟨updateLens_EC buf, fun r _ => ⟨subU64_EC _ _ _ _, fun reachLen _ =>
    ⟨attrLoop_EC _ _ _ _ _, fun s _ => ?_⟩⟩⟩
  split
  · simp
  · simp only [Out.EC_bind]
    refine ⟨legacyReach_EC hd _ _ _, fun _ _ => ⟨legacyUnreach_EC hd _ _ _, fun _ _ => ⟨?_, fun _ _ => ⟨?_, fun _ _ => ?_⟩⟩⟩⟩
    · unfold mpReachOf
      split
      · simp only [Out.EC_bind]; exact ⟨parseMpReach_EC hd _ _, fun _ _ => by simp⟩
      · simp
    · unfold mpUnreachOf
      split
      · simp only [Out.EC_bind]; exact ⟨parseMpUnreach_EC hd _ _, fun _ _ => by simp⟩
      · simp
    · exact Out.EC_of_NE (assemble_NE _ _ _ _ _ _ _)

theorem parseUpdate_EC {dec : HypDec} (hd : dec.E3) (p : Profile) (c : Codec) (buf : Bytes) (hdr : Notif) :
    (parseUpdateWith updateLens dec p c buf hdr).EC (fun e => e = hdr ∨ isUpdErr e) := by
  by_cases h23 : buf.length < 23
  · unfold parseUpdateWith; rw [if_pos h23]; simp
  · exact Out.EC_mono (fun e h => Or.inr h) (parseUpdate_EC23 hd p c buf hdr h23)

/-! ## the class the checker asks for -/

theorem parseMessage_EC {dec : HypDec} (hd : dec.E3) (p : Profile) (c : Codec) (buf : Bytes) (h19 : 19 ≤ buf.length) :
    ∃ t, buf[18]? = some t ∧
      (parseMessageWith updateLens dec p c buf).EC (fun e => typeClassOk t e.code e.sub = true) := by
  have h18 : 18 < buf.length := by omega
  refine ⟨buf[18], by simp [h18], ?_⟩
  unfold parseMessageWith
  rw [if_neg (by omega)]
  have hr : rd8 buf 18 = .ok buf[18] := rd8_ok h18
  rw [hr]
  simp only [Out.bind_ok, Out.EC_bind, slice_EC, true_and]
  intro d _
  split
  · rename_i ht
    refine Out.EC_mono ?_ (parseOpen_EC p buf ⟨1, 2, d⟩)
    intro e he
    rcases he with rfl | he
    · simp [typeClassOk, ht]
    · simp only [isOpenErr] at he; simp [typeClassOk, ht, he]
  · split
    · rename_i _ ht
      refine Out.EC_mono ?_ (parseUpdate_EC hd p c buf ⟨1, 2, d⟩)
      intro e he
      rcases he with rfl | he
      · simp [typeClassOk, ht]
      · simp only [isUpdErr] at he; simp [typeClassOk, ht, he]
    · split
      · rename_i _ _ ht
        split
        · simp [typeClassOk, ht]
        · simp only [Out.EC_bind, rd8_EC, slice_EC, true_and]
          intro _ _ _ _ _ _; simp
      · split
        · rename_i _ _ _ ht
          split <;> simp [typeClassOk, ht]
        · split
          · rename_i _ _ _ _ ht
            split
            · simp [typeClassOk, ht]
            · split
              · simp [typeClassOk, ht]
              · simp only [Out.EC_bind, rd32_EC, true_and]; intro _ _; simp
          · rename_i h1 h2 h3 h4 h5
            simp only [Out.EC_err, typeClassOk]
            simp [h1, h2, h3, h4, h5]

/-- `try_parse`: the error code fits the header length / message type of the frame at the front of the buffer -/
theorem tryParse_err_class {dec : HypDec} (hd : dec.E3) {p : Profile} {c : Codec} {src : Bytes} {n : Nat} {e : Notif}
    (h : tryParse dec p c src = .err n e) : errClassOk c.maxLen src e.code e.sub = true := by
  unfold tryParse tryParseWith at h
  split at h
  · cases h
  · rename_i h19
    have h16 : 16 < src.length := by omega
    have h17 : 17 < src.length := by omega
    have h18 : 18 < src.length := by omega
    have hd16 : rd16 src 16 = .ok (src[16] * 256 + src[17]) := by
      unfold rd16; rw [rd8_ok h16, rd8_ok h17]; rfl
    have hdecl : declared src = some (src[16] * 256 + src[17]) := by
      unfold declared; simp [h16, h17]
    rw [hd16] at h
    cases hs : slice src 16 18 with
    | panic => rw [hs] at h; cases h
    | err e' => exact absurd hs (slice_NE _ _ _ e')
    | ok d =>
      rw [hs] at h
      simp only at h
      unfold errClassOk
      rw [hdecl]
      have e18 : src[18]? = some src[18] := by simp [h18]
      rw [e18]
      simp only
      split at h
      · rename_i hbad
        injection h with _ h; subst h
        rw [if_pos hbad]; rfl
      · rename_i hok
        rw [if_neg hok]
        split at h
        · cases h
        · rename_i hlen
          have hlen' : src[16] * 256 + src[17] ≤ src.length := by omega
          obtain ⟨t, ht, hec⟩ := parseMessage_EC hd p c (src.take (src[16] * 256 + src[17]))
            (by rw [List.length_take]; omega)
          have ht' : t = src[18] := by
            have : (src.take (src[16] * 256 + src[17]))[18]? = src[18]? := by
              rw [List.getElem?_take]; rw [if_pos (by omega)]
            rw [this, e18] at ht
            injection ht with ht; exact ht.symm
          subst ht'
          cases hpm : parseMessageWith updateLens dec p c (src.take (src[16] * 256 + src[17])) with
          | ok m => rw [hpm] at h; cases h
          | panic => rw [hpm] at h; cases h
          | err e' =>
            rw [hpm] at h hec
            injection h with _ h; subst h
            exact hec

/-! ## the decoders in the model raise UPDATE errors only -/

theorem noHypDec_E3 : noHypDec.E3 := fun _ _ _ _ => by simp [noHypDec, isUpdErr, eMalformed]

theorem labelStack_EC : ∀ fuel bs acc, (labelStack fuel bs acc).EC isUpdErr := by
  intro fuel
  induction fuel with
  | zero => intro bs acc; simp [labelStack]
  | succ fuel ih =>
    intro bs acc
    match bs with
    | [] => simp [labelStack, isUpdErr, eMalformed]
    | [_] => simp [labelStack, isUpdErr, eMalformed]
    | [_, _] => simp [labelStack, isUpdErr, eMalformed]
    | b0 :: b1 :: b2 :: rest =>
      simp only [labelStack]
      split
      · simp
      · exact ih _ _

theorem rdOf_EC (bs : Bytes) : (rdOf bs).EC isUpdErr := by
  unfold rdOf
  split
  · simp [isUpdErr, eMalformed]
  · split <;> simp [isUpdErr, eMalformed]

theorem prefixOf_EC (m pb : Nat) (bs : Bytes) : (prefixOf m pb bs).EC isUpdErr := by
  unfold prefixOf
  simp only
  split <;> simp [isUpdErr, eMalformed]

def OneE3 (one : Bytes → Nat → One) : Prop := ∀ bs len, (one bs len).EC isUpdErr

theorem vpnOne_E3 (p : Profile) (m : Nat) : OneE3 (vpnOne p m) := by
  intro bs len
  unfold vpnOne
  split
  · simp [isUpdErr, eMalformed]
  · split
    · simp [isUpdErr, eMalformed]
    · split
      · simp [isUpdErr, eMalformed]
      · simp only [Out.EC_bind]
        refine ⟨labelStack_EC _ _ _, fun r _ => ?_⟩
        split
        · simp [isUpdErr, eMalformed]
        · simp only [Out.EC_bind, subU64_EC, true_and]
          intro x _ y _
          split
          · simp [isUpdErr, eMalformed]
          · simp only [Out.EC_bind]
            exact ⟨rdOf_EC _, fun _ _ => ⟨prefixOf_EC _ _ _, fun _ _ => by simp⟩⟩

theorem labeledLabels_EC (r : Bool) (bs : Bytes) : (labeledLabels r bs).EC isUpdErr := by
  unfold labeledLabels
  split
  · simp only [Out.EC_bind]
    exact ⟨labelStack_EC _ _ _, fun _ _ => by simp⟩
  · split <;> simp [isUpdErr, eMalformed]

theorem labeledOne_E3 (p : Profile) (m : Nat) (r : Bool) : OneE3 (labeledOne p m r) := by
  intro bs len
  unfold labeledOne
  split
  · simp [isUpdErr, eMalformed]
  · split
    · simp [isUpdErr, eMalformed]
    · split
      · simp [isUpdErr, eMalformed]
      · simp only [Out.EC_bind]
        refine ⟨labeledLabels_EC _ _, fun x _ => ?_⟩
        split
        · simp [isUpdErr, eMalformed]
        · simp only [Out.EC_bind, subU64_EC, true_and]
          intro y _
          split
          · simp [isUpdErr, eMalformed]
          · simp only [Out.EC_bind]
            exact ⟨prefixOf_EC _ _ _, fun _ _ => by simp⟩

theorem rtcOne_E3 : OneE3 (fun bs _ => rtcOne bs) := by
  intro bs len
  simp only
  unfold rtcOne
  repeat' split
  all_goals simp [isUpdErr, eMalformed]

theorem srpOne_E3 : OneE3 (fun bs _ => srpOne bs) := by
  intro bs len
  simp only
  unfold srpOne
  repeat' split
  all_goals simp [isUpdErr, eMalformed]

theorem nlriLoop2_EC {one : Bytes → Nat → One} (h : OneE3 one) (ap : Bool) :
    ∀ fuel bs acc, (nlriLoop2 one ap fuel bs acc).EC isUpdErr := by
  intro fuel
  induction fuel with
  | zero => intro bs acc; simp [nlriLoop2]
  | succ fuel ih =>
    intro bs acc
    unfold nlriLoop2
    split
    · simp
    · split
      · simp [isUpdErr, eMalformed]
      · simp only [Out.EC_bind]
        exact ⟨h _ _, fun r _ => ih _ _⟩

theorem oneOf_E3 (p : Profile) (fam : Nat) (r : Bool) {one : Bytes → Nat → One} (h : oneOf p fam r = some one) :
    OneE3 one := by
  unfold oneOf at h
  split at h
  · injection h with h; subst h; exact vpnOne_E3 _ _
  split at h
  · injection h with h; subst h; exact vpnOne_E3 _ _
  split at h
  · injection h with h; subst h; exact labeledOne_E3 _ _ _
  split at h
  · injection h with h; subst h; exact labeledOne_E3 _ _ _
  split at h
  · injection h with h; subst h; exact rtcOne_E3
  split at h
  · injection h with h; subst h; exact srpOne_E3
  · cases h

theorem decP2_E3 (p : Profile) {rest : HypDec} (hr : rest.E3) : (decP2 p rest).E3 := by
  intro fam ap r bs
  unfold decP2
  split
  · rename_i one ho
    exact nlriLoop2_EC (oneOf_E3 p fam r ho) ap _ _ _
  · exact hr _ _ _ _

/-! ### the reader monad of `Nlri3` -/

def Rd.E3 {α} (f : Rd α) : Prop := ∀ bs, (f bs).EC isUpdErr

theorem Rd.E3.pure {α} (a : α) : (Pure.pure a : Rd α).E3 := fun bs => by simp [Pure.pure, Rd.pure]
theorem Rd.E3.fail {α} : (Rd.fail : Rd α).E3 := fun bs => by simp [Rd.fail, isUpdErr, eMalformed]
theorem Rd.E3.bind {α β} {f : Rd α} {g : α → Rd β} (hf : f.E3) (hg : ∀ a, (g a).E3) : (f >>= g).E3 := by
  intro bs
  simp only [Bind.bind, Rd.bind]
  have := hf bs
  cases hfb : f bs with
  | panic => simp
  | err e => rw [hfb] at this; simpa using this
  | ok v => obtain ⟨a, r⟩ := v; exact hg a r
theorem Rd.E3.ite {α} {c : Prop} [Decidable c] {t e : Rd α} (ht : t.E3) (he : e.E3) : (if c then t else e).E3 := by
  split
  · exact ht
  · exact he
theorem Rd.E3.u8 : Rd.u8.E3 := fun bs => by unfold Rd.u8; split <;> simp [isUpdErr, eMalformed]
theorem Rd.E3.take (n : Nat) : (Rd.take n).E3 := fun bs => by unfold Rd.take; split <;> simp [isUpdErr, eMalformed]
theorem Rd.E3.rd : Rd.rd.E3 := fun bs => rdOf_EC bs

macro "rd_e3" : tactic =>
  `(tactic| repeat (first
      | exact Rd.E3.u8 | exact Rd.E3.rd | exact Rd.E3.take _ | exact Rd.E3.fail | exact Rd.E3.pure _
      | apply Rd.E3.bind | apply Rd.E3.ite | intro _))

theorem evpnIp_E3 (l : Nat) (b : Bool) : (evpnIp l b).E3 := by unfold evpnIp; rd_e3
theorem evpnT1_E3 (l : Nat) : (evpnT1 l).E3 := by unfold evpnT1; rd_e3
theorem evpnT2_E3 (l : Nat) : (evpnT2 l).E3 := by
  unfold evpnT2
  apply Rd.E3.ite Rd.E3.fail
  apply Rd.E3.bind Rd.E3.rd; intro _
  apply Rd.E3.bind (Rd.E3.take _); intro _
  apply Rd.E3.bind (Rd.E3.take _); intro _
  apply Rd.E3.bind Rd.E3.u8; intro _
  apply Rd.E3.ite Rd.E3.fail
  apply Rd.E3.bind (Rd.E3.take _); intro _
  apply Rd.E3.bind Rd.E3.u8; intro _
  apply Rd.E3.bind (evpnIp_E3 _ _); intro _
  apply Rd.E3.bind (Rd.E3.take _); intro _
  rd_e3
theorem evpnT3_E3 (l : Nat) : (evpnT3 l).E3 := by
  unfold evpnT3
  apply Rd.E3.ite Rd.E3.fail
  apply Rd.E3.bind Rd.E3.rd; intro _
  apply Rd.E3.bind (Rd.E3.take _); intro _
  apply Rd.E3.bind Rd.E3.u8; intro _
  apply Rd.E3.bind (evpnIp_E3 _ _); intro _
  rd_e3
theorem evpnT4_E3 (l : Nat) : (evpnT4 l).E3 := by
  unfold evpnT4
  apply Rd.E3.ite Rd.E3.fail
  apply Rd.E3.bind Rd.E3.rd; intro _
  apply Rd.E3.bind (Rd.E3.take _); intro _
  apply Rd.E3.bind Rd.E3.u8; intro _
  apply Rd.E3.bind (evpnIp_E3 _ _); intro _
  rd_e3
theorem evpnT5_E3 (l : Nat) : (evpnT5 l).E3 := by unfold evpnT5; rd_e3

theorem evpnRd_E3 : evpnRd.E3 := by
  unfold evpnRd
  apply Rd.E3.bind Rd.E3.u8; intro t
  apply Rd.E3.bind Rd.E3.u8; intro l
  apply Rd.E3.bind
  · unfold evpnBody
    apply Rd.E3.ite (evpnT1_E3 _)
    apply Rd.E3.ite (evpnT2_E3 _)
    apply Rd.E3.ite (evpnT3_E3 _)
    apply Rd.E3.ite (evpnT4_E3 _)
    apply Rd.E3.ite (evpnT5_E3 _)
    exact Rd.E3.fail
  · intro _; exact Rd.E3.pure _

theorem oneOfRd_E3 {f : Rd (Nat × Bytes)} (h : f.E3) : OneE3 (fun bs _ => oneOfRd f bs) := by
  intro bs len
  simp only [oneOfRd]
  have := h bs
  cases hf : f bs with
  | panic => simp
  | err e => rw [hf] at this; simpa using this
  | ok v => obtain ⟨⟨m, c⟩, r⟩ := v; simp

theorem fsOp_E3 : fsOp.E3 := by unfold fsOp; rd_e3

theorem fsOps_E3 : ∀ fuel acc, (fsOps fuel acc).E3 := by
  intro fuel
  induction fuel with
  | zero => intro acc bs; simp [fsOps]
  | succ fuel ih =>
    intro acc
    unfold fsOps
    apply Rd.E3.bind fsOp_E3; intro op
    apply Rd.E3.ite (Rd.E3.pure _) (ih _)

theorem fsOpsRd_E3 : fsOpsRd.E3 := fun bs => fsOps_E3 _ _ bs

theorem fsPrefix_E3 (v6 : Bool) : (fsPrefix v6).E3 := by
  unfold fsPrefix
  apply Rd.E3.bind Rd.E3.u8; intro _
  apply Rd.E3.ite Rd.E3.fail
  apply Rd.E3.bind
  · apply Rd.E3.ite (Rd.E3.take _) (Rd.E3.pure _)
  intro _
  rd_e3

theorem fsComp_E3 (v6 : Bool) : (fsComp v6).E3 := by
  unfold fsComp
  apply Rd.E3.bind Rd.E3.u8; intro t
  apply Rd.E3.ite
  · apply Rd.E3.bind (fsPrefix_E3 _); intro _; exact Rd.E3.pure _
  · apply Rd.E3.ite
    · apply Rd.E3.bind fsOpsRd_E3; intro _; exact Rd.E3.pure _
    · exact Rd.E3.fail

theorem fsComps_EC (v6 : Bool) : ∀ fuel bs acc, (fsComps v6 fuel bs acc).EC isUpdErr := by
  intro fuel
  induction fuel with
  | zero => intro bs acc; simp [fsComps]
  | succ fuel ih =>
    intro bs acc
    match bs with
    | [] => simp [fsComps]
    | b :: bs' =>
      simp only [fsComps]
      have := fsComp_E3 v6 (b :: bs')
      cases hc : fsComp v6 (b :: bs') with
      | panic => simp
      | err e => rw [hc] at this; simpa using this
      | ok v => obtain ⟨c, r⟩ := v; exact ih _ _

theorem fsLen_E3 : fsLen.E3 := by unfold fsLen; rd_e3

theorem fsOne_E3 (v6 vpn : Bool) : OneE3 (fsOne v6 vpn) := by
  intro bs len
  unfold fsOne
  split
  · simp [isUpdErr, eMalformed]
  · have hl := fsLen_E3 bs
    cases hfl : fsLen bs with
    | panic => simp
    | err e => rw [hfl] at hl; simpa using hl
    | ok v =>
      obtain ⟨⟨nlriLen, hdr⟩, r1⟩ := v
      simp only
      split
      · simp [isUpdErr, eMalformed]
      · split
        · simp [isUpdErr, eMalformed]
        · split
          · have hrd := rdOf_EC (r1.take nlriLen)
            cases hr : rdOf (r1.take nlriLen) with
            | panic => simp
            | err e => rw [hr] at hrd; simpa using hrd
            | ok w =>
              obtain ⟨rd, buf1⟩ := w
              simp only
              have hc := fsComps_EC v6 (buf1.length + 1) buf1 []
              cases hcs : fsComps v6 (buf1.length + 1) buf1 [] with
              | panic => simp
              | err e => rw [hcs] at hc; simpa using hc
              | ok cs => simp
          · have hc := fsComps_EC v6 ((r1.take nlriLen).length + 1) (r1.take nlriLen) []
            cases hcs : fsComps v6 ((r1.take nlriLen).length + 1) (r1.take nlriLen) [] with
            | panic => simp
            | err e => rw [hcs] at hc; simpa using hc
            | ok cs => simp

theorem oneOf3_E3 (fam : Nat) {one : Bytes → Nat → One} (h : oneOf3 fam = some one) : OneE3 one := by
  unfold oneOf3 at h
  split at h
  · injection h with h; subst h; exact oneOfRd_E3 evpnRd_E3
  split at h
  · injection h with h; subst h; exact fsOne_E3 _ _
  split at h
  · injection h with h; subst h; exact fsOne_E3 _ _
  split at h
  · injection h with h; subst h; exact fsOne_E3 _ _
  split at h
  · injection h with h; subst h; exact fsOne_E3 _ _
  · cases h

theorem decE_E3 {rest : HypDec} (hr : rest.E3) : (decE rest).E3 := by
  intro fam ap r bs
  unfold decE
  split
  · rename_i one ho
    exact nlriLoop2_EC (oneOf3_E3 fam ho) ap _ _ _
  · exact hr _ _ _ _

theorem decP3_E3 (p : Profile) {rest : HypDec} (hr : rest.E3) : (decP3 p rest).E3 :=
  decP2_E3 p (decE_E3 hr)

end Rbgp.Wire
