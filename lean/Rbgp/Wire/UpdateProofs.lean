/-
  Rbgp.Wire.UpdateProofs — C05 lemmas: `validate_update` against the parsed-level reference checker,
  the attribute loop never both keeps and reports an attribute, finite classification tables.
-/
import Rbgp.Wire.Proofs
import Rbgp.Wire.UpdateSpec
set_option linter.unusedSimpArgs false
set_option linter.unusedVariables false
namespace Rbgp.Wire
open USpec

/-! ## finite tables (every attribute type code that has a class × all flag octets) -/

def knownCodes : List Nat := [1, 2, 3, 5, 6, 4, 9, 10, 14, 15, 26, 29, 7, 8, 16, 17, 18, 32, 40, 23]

theorem attrClass_none_of_not_known {code : Nat} (h : code ∉ knownCodes) : attrClass code = none := by
  simp only [knownCodes, List.mem_cons, List.mem_nil_iff, or_false, not_or] at h
  unfold attrClass
  rw [if_neg (by omega), if_neg (by omega), if_neg (by omega)]

theorem canonicalFlags_none_of_not_known {code : Nat} (h : code ∉ knownCodes) : canonicalFlags code = none := by
  simp only [knownCodes, List.mem_cons, List.mem_nil_iff, or_false, not_or] at h
  unfold canonicalFlags
  rw [if_neg (by omega), if_neg (by omega), if_neg (by omega)]

/-- the decoder's table of canonical flags is the property's table of attribute classes -/
theorem canonical_table_known : ∀ code ∈ knownCodes, (canonicalFlags code).map flagBits = attrClass code := by
  decide +kernel

theorem canonical_table (code : Nat) : (canonicalFlags code).map flagBits = attrClass code := by
  by_cases h : code ∈ knownCodes
  · exact canonical_table_known code h
  · rw [attrClass_none_of_not_known h, canonicalFlags_none_of_not_known h]; rfl

theorem flags_conflict_known : ∀ code ∈ knownCodes, ∀ flags, flags < 256 →
    (match canonicalFlags code with
     | some c => flagsConflict flags c
     | none => false) =
    (match attrClass code with
     | some cls => flagBits flags != cls
     | none => false) := by decide +kernel

/-- the decoder flags an attribute's Optional/Transitive bits exactly when they differ from its type's class -/
theorem flags_conflict_table (code flags : Nat) (hf : flags < 256) :
    (match canonicalFlags code with
     | some c => flagsConflict flags c
     | none => false) =
    (match attrClass code with
     | some cls => flagBits flags != cls
     | none => false) := by
  by_cases h : code ∈ knownCodes
  · exact flags_conflict_known code h flags hf
  · rw [attrClass_none_of_not_known h, canonicalFlags_none_of_not_known h]

theorem must_taw_known : ∀ code ∈ knownCodes, ∀ flags, flags < 256 →
    errMustTaw (code, flags) = true → errIsTaw (code, flags) = true := by decide +kernel

theorem must_taw_unknown : ∀ flags, flags < 256 →
    (flags / 128 % 2 == 0) = true → (!(decide (flags &&& 0x80 ≠ 0)) || decide (flags &&& 0x40 ≠ 0)) = true := by
  decide +kernel

/-- every recorded error that the property says needs treat-as-withdraw is classified so by `validate_update` -/
theorem must_taw_table (code flags : Nat) (hf : flags < 256)
    (h : errMustTaw (code, flags) = true) : errIsTaw (code, flags) = true := by
  by_cases hk : code ∈ knownCodes
  · exact must_taw_known code hk flags hf h
  · unfold errMustTaw at h
    simp only [attrClass_none_of_not_known hk] at h
    unfold errIsTaw
    simp only [canonicalFlags_none_of_not_known hk, Bool.false_or]
    exact must_taw_unknown flags hf h

/-! ## `validate_update` -/

theorem mem_withdrawnOut {msgs : List VMsg} {f : Nat} {e : List PNlri} (h : VMsg.unreach f e ∈ msgs) :
    ∀ p ∈ e, p ∈ withdrawnOut msgs f := by
  intro p hp
  unfold withdrawnOut
  simp only [List.mem_flatten, List.mem_map]
  exact ⟨e, ⟨.unreach f e, h, by simp⟩, hp⟩

theorem allIn_of_mem {want have_ : List PNlri} (h : ∀ p ∈ want, p ∈ have_) : allIn want have_ = true := by
  unfold allIn
  simp only [List.all_eq_true, List.contains_iff_mem]
  exact h

theorem mem_optList {α} {o : Option α} {a : α} : a ∈ optList o ↔ o = some a := by
  cases o <;> simp [optList, eq_comm]

/-- the treat-as-withdraw decision of `validate_update` -/
def tawDecision (reach mpReach : Option Reach) (attrs : List Attr) (errs : List (Nat × Nat)) : Bool :=
  missingMandatory reach mpReach attrs || errs.any errIsTaw

theorem validate_taw {ebgp : Bool} {reach mpReach : Option Reach} {unreach mpUnreach : Option Unreach}
    {attrs : List Attr} {errs : List (Nat × Nat)} (h : tawDecision reach mpReach attrs errs = true) :
    validateUpdate ebgp reach mpReach unreach mpUnreach attrs errs =
      ((optList reach ++ optList mpReach).map fun r => VMsg.unreach r.fam r.entries)
        ++ ((optList unreach ++ optList mpUnreach).map fun u => VMsg.unreach u.fam u.entries) := by
  unfold validateUpdate
  unfold tawDecision at h
  simp only [h, if_true]

theorem validate_no_taw {ebgp : Bool} {reach mpReach : Option Reach} {unreach mpUnreach : Option Unreach}
    {attrs : List Attr} {errs : List (Nat × Nat)} (h : tawDecision reach mpReach attrs errs = false) :
    validateUpdate ebgp reach mpReach unreach mpUnreach attrs errs =
      let attrs' := if ebgp then attrs.filter fun a => !(a.code == 5 || a.code == 9 || a.code == 10) else attrs
      (optList reach).map (fun r => VMsg.reach r.fam r.nh r.entries attrs')
        ++ (optList unreach).map (fun u => VMsg.unreach u.fam u.entries)
        ++ (optList mpReach).map (fun r => VMsg.reach r.fam r.nh r.entries attrs')
        ++ (optList mpUnreach).map (fun u => VMsg.unreach u.fam u.entries) := by
  unfold validateUpdate
  unfold tawDecision at h
  simp only [h, Bool.false_eq_true, if_false]

/-- withdrawals carried by the UPDATE are always passed on -/
theorem validate_withdrawals (ebgp : Bool) (reach mpReach : Option Reach) (unreach mpUnreach : Option Unreach)
    (attrs : List Attr) (errs : List (Nat × Nat)) :
    ∀ u ∈ optList unreach ++ optList mpUnreach,
      VMsg.unreach u.fam u.entries ∈ validateUpdate ebgp reach mpReach unreach mpUnreach attrs errs := by
  intro u hu
  cases ht : tawDecision reach mpReach attrs errs with
  | true =>
    rw [validate_taw ht]
    simp only [List.mem_append, List.mem_map]
    exact Or.inr ⟨u, by simpa using hu, rfl⟩
  | false =>
    rw [validate_no_taw ht]
    simp only [List.mem_append, List.mem_map] at hu ⊢
    rcases hu with hu | hu
    · exact Or.inl (Or.inl (Or.inr ⟨u, hu, rfl⟩))
    · exact Or.inr ⟨u, hu, rfl⟩

/-- under treat-as-withdraw no route is announced and every announced prefix is withdrawn -/
theorem validate_taw_no_reach {ebgp : Bool} {reach mpReach : Option Reach} {unreach mpUnreach : Option Unreach}
    {attrs : List Attr} {errs : List (Nat × Nat)} (h : tawDecision reach mpReach attrs errs = true) :
    reachMsgs (validateUpdate ebgp reach mpReach unreach mpUnreach attrs errs) = [] ∧
    ∀ r ∈ optList reach ++ optList mpReach,
      VMsg.unreach r.fam r.entries ∈ validateUpdate ebgp reach mpReach unreach mpUnreach attrs errs := by
  rw [validate_taw h]
  constructor
  · unfold reachMsgs
    simp only [List.filterMap_append, List.filterMap_map, List.append_eq_nil_iff, List.filterMap_eq_nil_iff]
    exact ⟨⟨fun _ _ => rfl, fun _ _ => rfl⟩, ⟨fun _ _ => rfl, fun _ _ => rfl⟩⟩
  · intro r hr
    simp only [List.mem_append, List.mem_map]
    exact Or.inl ⟨r, by simpa using hr, rfl⟩

/-- the attribute vector attached to announced routes -/
def keptAttrs (ebgp : Bool) (attrs : List Attr) : List Attr :=
  if ebgp then attrs.filter fun a => !(a.code == 5 || a.code == 9 || a.code == 10) else attrs

theorem validate_reach_attrs {ebgp : Bool} {reach mpReach : Option Reach} {unreach mpUnreach : Option Unreach}
    {attrs : List Attr} {errs : List (Nat × Nat)} :
    ∀ as ∈ reachMsgs (validateUpdate ebgp reach mpReach unreach mpUnreach attrs errs), as = keptAttrs ebgp attrs := by
  intro as has
  cases ht : tawDecision reach mpReach attrs errs with
  | true => rw [(validate_taw_no_reach (ebgp := ebgp) (unreach := unreach) (mpUnreach := mpUnreach) ht).1] at has; cases has
  | false =>
    rw [validate_no_taw ht] at has
    unfold reachMsgs at has
    simp only [List.filterMap_append, List.filterMap_map, List.mem_append, List.mem_filterMap, Function.comp] at has
    unfold keptAttrs
    rcases has with ((⟨_, _, h⟩ | ⟨_, _, h⟩) | ⟨_, _, h⟩) | ⟨_, _, h⟩ <;>
      simp only [Option.some.injEq, reduceCtorEq] at h <;> exact h.symm

/-- iBGP-only attributes are never attached to a route announced by an external peer -/
theorem validate_ebgp_filter {reach mpReach : Option Reach} {unreach mpUnreach : Option Unreach}
    {attrs : List Attr} {errs : List (Nat × Nat)} :
    ∀ as ∈ reachMsgs (validateUpdate true reach mpReach unreach mpUnreach attrs errs),
      ∀ a ∈ as, a.code ≠ 5 ∧ a.code ≠ 9 ∧ a.code ≠ 10 := by
  intro as has a ha
  rw [validate_reach_attrs as has] at ha
  simp only [keptAttrs, if_true, List.mem_filter, Bool.not_eq_true', Bool.or_eq_false_iff, beq_eq_false_iff_ne] at ha
  exact ⟨ha.2.1.1, ha.2.1.2, ha.2.2⟩

theorem mandatoryMissing_imp {reach mpReach : Option Reach} {attrs : List Attr}
    (h : mandatoryMissing reach mpReach attrs = true) : missingMandatory reach mpReach attrs = true := by
  unfold mandatoryMissing at h
  unfold missingMandatory hasCode
  simp only [Bool.and_eq_true, Bool.or_eq_true] at h ⊢
  refine ⟨h.1, ?_⟩
  rcases h.2 with (h2 | h2) | h2
  · exact Or.inl (Or.inl (Or.inl h2))
  · exact Or.inl (Or.inl (Or.inr h2))
  · exact Or.inl (Or.inr h2)

/-- master theorem (parsed level): the reference checker accepts what `validate_update` makes of ANY parse result
    whose error records are octets and which never both keeps and reports a discardable attribute
    (both hold for every output of the parser: `parse_update_invariants`) -/
theorem validate_check_ok (ebgp : Bool) (reach mpReach : Option Reach) (unreach mpUnreach : Option Unreach)
    (attrs : List Attr) (errs : List (Nat × Nat))
    (hb : ∀ e ∈ errs, e.2 < 256)
    (hd : ∀ e ∈ errs, errMustTaw e = false → ∀ a ∈ attrs, a.code ≠ e.1) :
    checkV ebgp reach mpReach unreach mpUnreach attrs errs
      (validateUpdate ebgp reach mpReach unreach mpUnreach attrs errs) = .ok := by
  unfold checkV
  have hw := validate_withdrawals ebgp reach mpReach unreach mpUnreach attrs errs
  have hwu : (optList unreach ++ optList mpUnreach).all (fun u =>
      allIn u.entries (withdrawnOut (validateUpdate ebgp reach mpReach unreach mpUnreach attrs errs) u.fam)) = true := by
    simp only [List.all_eq_true]
    intro u hu
    exact allIn_of_mem (mem_withdrawnOut (hw u hu))
  simp only [hwu, Bool.not_true, Bool.false_eq_true, if_false]
  -- eBGP filter
  have hebgp : (ebgp && (reachMsgs (validateUpdate ebgp reach mpReach unreach mpUnreach attrs errs)).any
      (fun as => as.any fun a => a.code == 5 || a.code == 9 || a.code == 10)) = false := by
    cases ebgp with
    | false => rfl
    | true =>
      simp only [Bool.true_and, List.any_eq_false, List.any_eq_true, not_exists, not_and]
      intro as has a ha
      have := validate_ebgp_filter as has a ha
      simp [this.1, this.2.1, this.2.2]
  simp only [hebgp, Bool.false_eq_true, if_false]
  split
  · rename_i hmust
    -- the property demands treat-as-withdraw: so does validate_update
    have ht : tawDecision reach mpReach attrs errs = true := by
      unfold tawDecision
      simp only [Bool.or_eq_true] at hmust ⊢
      rcases hmust with h | h
      · exact Or.inl (mandatoryMissing_imp h)
      · right
        simp only [List.any_eq_true] at h ⊢
        obtain ⟨e, he, hm⟩ := h
        exact ⟨e, he, must_taw_table e.1 e.2 (hb e he) hm⟩
    have hnr := validate_taw_no_reach (ebgp := ebgp) (unreach := unreach) (mpUnreach := mpUnreach) ht
    simp only [hnr.1, List.isEmpty_nil, Bool.not_true, Bool.false_eq_true, if_false]
    have hwr : (optList reach ++ optList mpReach).all (fun r =>
        allIn r.entries (withdrawnOut (validateUpdate ebgp reach mpReach unreach mpUnreach attrs errs) r.fam)) = true := by
      simp only [List.all_eq_true]
      intro r hr
      exact allIn_of_mem (mem_withdrawnOut (hnr.2 r hr))
    simp only [hwr, Bool.not_true, Bool.false_eq_true, if_false]
  · rename_i hmust
    -- no error requires treat-as-withdraw: reported attributes must not be attached to announced routes
    have hkept : (reachMsgs (validateUpdate ebgp reach mpReach unreach mpUnreach attrs errs)).any
        (fun as => as.any fun a => errs.any fun e => e.1 == a.code) = false := by
      simp only [List.any_eq_false, List.any_eq_true, not_exists, not_and, beq_iff_eq]
      intro as has a ha e he hcode
      rw [validate_reach_attrs as has] at ha
      have ha' : a ∈ attrs := by
        unfold keptAttrs at ha
        split at ha
        · exact (List.mem_filter.mp ha).1
        · exact ha
      have hnm : errMustTaw e = false := by
        simp only [Bool.or_eq_true, not_or, List.any_eq_true, not_exists, not_and] at hmust
        have := hmust.2 e he
        simpa using this
      exact hd e he hnm a ha' hcode.symm
    simp only [hkept, Bool.false_eq_true, if_false]

/-! ## the attribute loop never both keeps and reports an attribute -/

structure LoopInv (s : AState) : Prop where
  attrsSeen : ∀ a ∈ s.attrs, a.code ∈ s.seen
  errsSeen : ∀ e ∈ s.errs, e.1 ∈ s.seen
  disjoint : ∀ a ∈ s.attrs, ∀ e ∈ s.errs, a.code ≠ e.1
  errOctets : ∀ e ∈ s.errs, e.2 < 256

theorem LoopInv.init (pos : Nat) : LoopInv { pos := pos } :=
  ⟨by simp, by simp, by simp, by simp⟩

theorem attrStore_attrs (two : Bool) (s : AState) (a : Attr) :
    ((attrStore two s a).attrs = s.attrs ∨
      ((attrStore two s a).attrs = s.attrs ++ [a] ∧ a.code ≠ 14 ∧ a.code ≠ 15)) ∧
    (attrStore two s a).errs = s.errs ∧ (attrStore two s a).seen = s.seen := by
  unfold attrStore
  split
  · exact ⟨Or.inl rfl, rfl, rfl⟩
  · split
    · exact ⟨Or.inl rfl, rfl, rfl⟩
    · split
      · exact ⟨Or.inl rfl, rfl, rfl⟩
      · split
        · exact ⟨Or.inl rfl, rfl, rfl⟩
        · rename_i h14 h15 _ _
          exact ⟨Or.inr ⟨rfl, h14, h15⟩, rfl, rfl⟩

/-- precondition of handling attribute `code` for the first time -/
structure Fresh (s : AState) (code : Nat) : Prop where
  inv : LoopInv s
  seen : code ∈ s.seen
  noAttr : ∀ a ∈ s.attrs, a.code ≠ code
  errOnlyMp : ∀ e ∈ s.errs, e.1 = code → code = 14 ∨ code = 15

theorem attrDecoded_inv (two : Bool) (buf : Bytes) (s : AState) (flags code alen pos : Nat)
    (hf : Fresh s code) (hfl : flags < 256) : LoopInv (attrDecoded two buf s flags code alen pos) := by
  unfold attrDecoded
  split
  · rename_i d _
    have hst := attrStore_attrs two { s with pos := pos + alen } ⟨code, flags, d⟩
    obtain ⟨hattrs, herrs, hseen⟩ := hst
    rcases hattrs with ha | ⟨ha, h14, h15⟩
    · exact ⟨by rw [ha, hseen]; exact hf.inv.attrsSeen, by rw [herrs, hseen]; exact hf.inv.errsSeen,
        by rw [ha, herrs]; exact hf.inv.disjoint, by rw [herrs]; exact hf.inv.errOctets⟩
    · refine ⟨?_, by rw [herrs, hseen]; exact hf.inv.errsSeen, ?_, by rw [herrs]; exact hf.inv.errOctets⟩
      · rw [ha, hseen]
        intro a ha'
        simp only [List.mem_append, List.mem_singleton] at ha'
        rcases ha' with h | rfl
        · exact hf.inv.attrsSeen a h
        · exact hf.seen
      · rw [ha, herrs]
        intro a ha' e he
        simp only [List.mem_append, List.mem_singleton] at ha'
        rcases ha' with h | rfl
        · exact hf.inv.disjoint a h e he
        · intro heq
          have := hf.errOnlyMp e he heq.symm
          simp only at h14 h15
          omega
  · split
    · refine ⟨hf.inv.attrsSeen, ?_, ?_, ?_⟩
      · intro e he
        simp only [List.mem_append, List.mem_singleton] at he
        rcases he with h | rfl
        · exact hf.inv.errsSeen e h
        · exact hf.seen
      · intro a ha e he
        simp only [List.mem_append, List.mem_singleton] at he
        rcases he with h | rfl
        · exact hf.inv.disjoint a ha e h
        · exact hf.noAttr a ha
      · intro e he
        simp only [List.mem_append, List.mem_singleton] at he
        rcases he with h | rfl
        · exact hf.inv.errOctets e h
        · exact hfl
    · exact ⟨hf.inv.attrsSeen, hf.inv.errsSeen, hf.inv.disjoint, hf.inv.errOctets⟩

theorem Fresh.addErr {s : AState} {code flags : Nat} (hf : Fresh s code) (hfl : flags < 256) (hmp : code = 14 ∨ code = 15) :
    Fresh { s with errs := s.errs ++ [(code, flags)] } code := by
  refine ⟨⟨hf.inv.attrsSeen, ?_, ?_, ?_⟩, hf.seen, hf.noAttr, ?_⟩
  · intro e he
    simp only [List.mem_append, List.mem_singleton] at he
    rcases he with h | rfl
    · exact hf.inv.errsSeen e h
    · exact hf.seen
  · intro a ha e he
    simp only [List.mem_append, List.mem_singleton] at he
    rcases he with h | rfl
    · exact hf.inv.disjoint a ha e h
    · exact hf.noAttr a ha
  · intro e he
    simp only [List.mem_append, List.mem_singleton] at he
    rcases he with h | rfl
    · exact hf.inv.errOctets e h
    · exact hfl
  · intro e he _
    exact hmp

theorem attrKnown_inv (two : Bool) (buf : Bytes) (s : AState) (flags code alen pos expected : Nat)
    (hf : Fresh s code) (hfl : flags < 256) : LoopInv (attrKnown two buf s flags code alen pos expected) := by
  unfold attrKnown
  by_cases hfc : flagsConflict flags expected = true
  · simp only [hfc, if_true, true_and]
    split
    · -- skipped with an error record
      refine ⟨hf.inv.attrsSeen, ?_, ?_, ?_⟩
      · intro e he
        simp only [List.mem_append, List.mem_singleton] at he
        rcases he with h | rfl
        · exact hf.inv.errsSeen e h
        · exact hf.seen
      · intro a ha e he
        simp only [List.mem_append, List.mem_singleton] at he
        rcases he with h | rfl
        · exact hf.inv.disjoint a ha e h
        · exact hf.noAttr a ha
      · intro e he
        simp only [List.mem_append, List.mem_singleton] at he
        rcases he with h | rfl
        · exact hf.inv.errOctets e h
        · exact hfl
    · rename_i hmp
      have hmp' : code = 14 ∨ code = 15 := by omega
      exact attrDecoded_inv two buf _ flags code alen pos (hf.addErr hfl hmp') hfl
  · simp only [hfc, if_false, false_and, Bool.false_eq_true]
    exact attrDecoded_inv two buf s flags code alen pos hf hfl

theorem attrUnknown_inv (buf : Bytes) (s : AState) (flags code alen pos : Nat)
    (hf : Fresh s code) (hfl : flags < 256) (hnone : ∀ e ∈ s.errs, e.1 ≠ code) :
    ∀ s', attrUnknown buf s flags code alen pos = .ok s' → LoopInv s' := by
  intro s' h
  unfold attrUnknown at h
  split at h
  · injection h with h; subst h
    refine ⟨hf.inv.attrsSeen, ?_, ?_, ?_⟩
    · intro e he
      simp only [List.mem_append, List.mem_singleton] at he
      rcases he with h | rfl
      · exact hf.inv.errsSeen e h
      · exact hf.seen
    · intro a ha e he
      simp only [List.mem_append, List.mem_singleton] at he
      rcases he with h | rfl
      · exact hf.inv.disjoint a ha e h
      · exact hf.noAttr a ha
    · intro e he
      simp only [List.mem_append, List.mem_singleton] at he
      rcases he with h | rfl
      · exact hf.inv.errOctets e h
      · exact hfl
  · split at h
    · split at h
      · cases h
      · cases hs : slice buf pos (pos + alen) with
        | ok raw =>
          simp only [hs, Out.bind_ok] at h
          injection h with h; subst h
          refine ⟨?_, hf.inv.errsSeen, ?_, hf.inv.errOctets⟩
          · intro a ha
            simp only [List.mem_append, List.mem_singleton] at ha
            rcases ha with h | rfl
            · exact hf.inv.attrsSeen a h
            · exact hf.seen
          · intro a ha e he
            simp only [List.mem_append, List.mem_singleton] at ha
            rcases ha with h | rfl
            · exact hf.inv.disjoint a h e he
            · exact (hnone e he).symm
        | err e => simp [hs] at h
        | panic => simp [hs] at h
    · injection h with h; subst h
      exact ⟨hf.inv.attrsSeen, hf.inv.errsSeen, hf.inv.disjoint, hf.inv.errOctets⟩

theorem attrBody_inv (two : Bool) (buf : Bytes) (s : AState) (flags code alen pos : Nat)
    (hi : LoopInv s) (hfl : flags < 256) :
    ∀ s', attrBody two buf s flags code alen pos = .ok s' → LoopInv s' := by
  intro s' h
  unfold attrBody at h
  split at h
  · split at h
    · cases h
    · injection h with h; subst h
      exact ⟨hi.attrsSeen, hi.errsSeen, hi.disjoint, hi.errOctets⟩
  · rename_i hns
    have hns' : code ∉ s.seen := by simpa using hns
    have hnoErr : ∀ e ∈ s.errs, e.1 ≠ code := fun e he heq => hns' (heq ▸ hi.errsSeen e he)
    have hfresh : Fresh { s with seen := code :: s.seen } code := by
      refine ⟨⟨?_, ?_, hi.disjoint, hi.errOctets⟩, by simp, ?_, ?_⟩
      · intro a ha; exact List.mem_cons_of_mem _ (hi.attrsSeen a ha)
      · intro e he; exact List.mem_cons_of_mem _ (hi.errsSeen e he)
      · intro a ha heq; exact hns' (heq ▸ hi.attrsSeen a ha)
      · intro e he heq; exact absurd heq (hnoErr e he)
    simp only at h
    split at h
    · rw [attrKnownW_eq] at h
      injection h with h; subst h
      exact attrKnown_inv two buf _ flags code alen pos _ hfresh hfl
    · exact attrUnknown_inv buf _ flags code alen pos hfresh hfl hnoErr s' h

theorem rd8_lt {buf : Bytes} (hb : ∀ x ∈ buf, x < 256) {i v : Nat} (h : rd8 buf i = .ok v) : v < 256 := by
  unfold rd8 at h
  split at h
  · rename_i w hw
    injection h with h; subst h
    exact hb _ (List.mem_of_getElem? hw)
  · cases h

theorem attrHeader_flags {buf : Bytes} (hb : ∀ x ∈ buf, x < 256) {attrEnd pos f c alen p' : Nat}
    (h : attrHeader buf attrEnd pos = .ok (.hdr f c alen p')) : f < 256 := by
  unfold attrHeader at h
  split at h
  · cases h
  · cases h0 : rd8 buf pos with
    | ok fl =>
      have hfl := rd8_lt hb h0
      cases h1 : rd8 buf (pos + 1) with
      | ok cd =>
        simp only [h0, h1, Out.bind_ok] at h
        split at h
        · split at h
          · cases h
          · cases h2 : rd16 buf (pos + 2) with
            | ok al => simp only [h2, Out.bind_ok] at h; injection h with h; injection h with h; subst h; exact hfl
            | err e => simp [h2] at h
            | panic => simp [h2] at h
        · split at h
          · cases h
          · cases h2 : rd8 buf (pos + 2) with
            | ok al => simp only [h2, Out.bind_ok] at h; injection h with h; injection h with h; subst h; exact hfl
            | err e => simp [h2] at h
            | panic => simp [h2] at h
      | err e => simp [h0, h1] at h
      | panic => simp [h0, h1] at h
    | err e => simp [h0] at h
    | panic => simp [h0] at h

theorem attrLoop_inv (two : Bool) (buf : Bytes) (hb : ∀ x ∈ buf, x < 256) (attrEnd : Nat) :
    ∀ fuel (s : AState), LoopInv s → ∀ s', attrLoop two buf attrEnd fuel s = .ok s' → LoopInv s' := by
  intro fuel
  induction fuel with
  | zero => intro s _ s' h; simp [attrLoop] at h
  | succ fuel ih =>
    intro s hi s' h
    unfold attrLoop at h
    split at h
    · cases hh : attrHeader buf attrEnd s.pos with
      | ok hd =>
        simp only [hh, Out.bind_ok] at h
        cases hd with
        | brk pos =>
          injection h with h; subst h
          exact ⟨hi.attrsSeen, hi.errsSeen, hi.disjoint, hi.errOctets⟩
        | hdr flags code alen pos =>
          simp only at h
          split at h
          · injection h with h; subst h
            exact ⟨hi.attrsSeen, hi.errsSeen, hi.disjoint, hi.errOctets⟩
          · cases hbv : attrBody two buf s flags code alen pos with
            | ok s1 =>
              simp only [hbv, Out.bind_ok] at h
              exact ih s1 (attrBody_inv two buf s flags code alen pos hi (attrHeader_flags hb hh) s1 hbv) s' h
            | err e => simp [hbv] at h
            | panic => simp [hbv] at h
      | err e => simp [hh] at h
      | panic => simp [hh] at h
    · injection h with h; subst h; exact hi

/-! ## from the loop to the parse result -/

theorem bind_eq_ok {α β} {x : Out α} {f : α → Out β} {b : β} (h : (x >>= f) = .ok b) :
    ∃ a, x = .ok a ∧ f a = .ok b := by
  cases x with
  | ok a => exact ⟨a, rfl, h⟩
  | err e => cases h
  | panic => cases h

theorem reconcileAgg_codes {as4Agg : Option Attr} {l : List Attr} {r : Bool × List Attr}
    (h : reconcileAgg as4Agg l = .ok r) : ∀ a ∈ r.2, ∃ b ∈ l, b.code = a.code := by
  unfold reconcileAgg at h
  split at h
  · rename_i a4 agg he
    obtain ⟨asn, _, h⟩ := bind_eq_ok h
    split at h
    · obtain ⟨bin, _, h⟩ := bind_eq_ok h
      obtain ⟨l', hm, h⟩ := bind_eq_ok h
      injection h with h; subst h
      intro a ha
      rcases mapFirst_mem _ _ _ _ hm a ha with h1 | ⟨x, hx, hc, hfx⟩
      · exact ⟨a, h1, rfl⟩
      · injection hfx with hfx; subst hfx
        exact ⟨x, hx, rfl⟩
    · injection h with h; subst h
      exact fun a ha => ⟨a, ha, rfl⟩
  · injection h with h; subst h
    exact fun a ha => ⟨a, ha, rfl⟩

theorem reconcilePath_codes {as4Path : Option Attr} {l l' : List Attr}
    (h : reconcilePath as4Path l = .ok l') : ∀ a ∈ l', ∃ b ∈ l, b.code = a.code := by
  unfold reconcilePath at h
  split at h
  · injection h with h; subst h
    exact fun a ha => ⟨a, ha, rfl⟩
  · intro a ha
    rcases mapFirst_mem _ _ _ _ h a ha with h1 | ⟨x, hx, hc, hfx⟩
    · exact ⟨a, h1, rfl⟩
    · obtain ⟨p, _, hfx⟩ := bind_eq_ok hfx
      obtain ⟨p4, _, hfx⟩ := bind_eq_ok hfx
      obtain ⟨m, _, hfx⟩ := bind_eq_ok hfx
      injection hfx with hfx; subst hfx
      exact ⟨x, hx, rfl⟩

theorem reconcileAs4_codes {l l' : List Attr} (h : reconcileAs4 l = .ok l') :
    ∀ a ∈ l', ∃ b ∈ l, b.code = a.code := by
  unfold reconcileAs4 at h
  simp only at h
  obtain ⟨r, hr, h⟩ := bind_eq_ok h
  have r1 := removeFirst_spec 17 l
  have r2 := removeFirst_spec 18 (removeFirst 17 l).2
  have hagg := reconcileAgg_codes hr
  have lift : ∀ a ∈ r.2, ∃ b ∈ l, b.code = a.code := by
    intro a ha
    obtain ⟨b, hb, hc⟩ := hagg a ha
    exact ⟨b, r1.2 b (r2.2 b hb), hc⟩
  split at h
  · injection h with h; subst h; exact lift
  · intro a ha
    obtain ⟨b, hb, hc⟩ := reconcilePath_codes h a ha
    obtain ⟨b', hb', hc'⟩ := lift b hb
    exact ⟨b', hb', hc'.trans hc⟩

theorem assemble_update {two : Bool} {s : AState} {errs : List (Nat × Nat)} {reach unreach : List PNlri}
    {mr : Option (Nat × List PNlri × Option Bytes)} {mu : Option (Nat × List PNlri)}
    {r mr' : Option Reach} {u mu' : Option Unreach} {attrs : List Attr} {errs' : List (Nat × Nat)}
    (h : assemble two s errs reach unreach mr mu = .ok (.update r mr' u mu' attrs errs')) :
    errs' = errs ∧ ∀ a ∈ attrs, ∃ b ∈ s.attrs, b.code = a.code := by
  unfold assemble at h
  split at h
  · cases h
  · cases two with
    | false =>
      simp only [Bool.false_eq_true, if_false, Out.bind_ok] at h
      injection h with h; injection h with _ _ _ _ h5 h6
      subst h5 h6
      exact ⟨rfl, fun a ha => ⟨a, ha, rfl⟩⟩
    | true =>
      simp only [if_true] at h
      obtain ⟨l', hl, h⟩ := bind_eq_ok h
      injection h with h; injection h with _ _ _ _ h5 h6
      subst h5 h6
      exact ⟨rfl, reconcileAs4_codes hl⟩

theorem finalErrs_mem {s : AState} {reachLen attrEnd : Nat} {e : Nat × Nat}
    (h : e ∈ finalErrs s reachLen attrEnd) : e ∈ s.errs ∨ e = (1, 0x40) ∨ e = (3, 0x40) ∨ e = (0, 0) := by
  unfold finalErrs at h
  simp only at h
  repeat' split at h
  all_goals
    try simp only [List.mem_append, List.mem_singleton] at h
    first
      | exact Or.inl h
      | (rcases h with h | h <;> first | exact Or.inl h | (subst h; simp))
      | (rcases h with (h | h) | h <;> first | exact Or.inl h | (subst h; simp))
      | (rcases h with ((h | h) | h) | h <;> first | exact Or.inl h | (subst h; simp))

/-- every UPDATE the parser lets through satisfies the two side conditions of `validate_check_ok` -/
theorem parse_update_invariants {dec : HypDec} {p : Profile} {c : Codec} {buf : Bytes} {hdrErr : Notif}
    (hb : ∀ x ∈ buf, x < 256)
    {r mr : Option Reach} {u mu : Option Unreach} {attrs : List Attr} {errs : List (Nat × Nat)}
    (h : parseUpdateWith updateLens dec p c buf hdrErr = .ok (.update r mr u mu attrs errs)) :
    (∀ e ∈ errs, e.2 < 256) ∧ (∀ e ∈ errs, errMustTaw e = false → ∀ a ∈ attrs, a.code ≠ e.1) := by
  unfold parseUpdateWith at h
  split at h
  · cases h
  · obtain ⟨⟨wl, al⟩, _, h⟩ := bind_eq_ok h
    simp only at h
    obtain ⟨reachLen, _, h⟩ := bind_eq_ok h
    obtain ⟨s, hs, h⟩ := bind_eq_ok h
    have hinv := attrLoop_inv c.two buf hb (23 + wl + al) (buf.length + 1) _ (LoopInv.init (23 + wl)) s hs
    split at h
    · cases h
    · obtain ⟨reach, _, h⟩ := bind_eq_ok h
      obtain ⟨unreach, _, h⟩ := bind_eq_ok h
      obtain ⟨mpr, _, h⟩ := bind_eq_ok h
      obtain ⟨mpu, _, h⟩ := bind_eq_ok h
      obtain ⟨herrs, hattrs⟩ := assemble_update h
      subst herrs
      constructor
      · intro e he
        rcases finalErrs_mem he with h1 | rfl | rfl | rfl
        · exact hinv.errOctets e h1
        all_goals decide
      · intro e he hnm a ha
        rcases finalErrs_mem he with h1 | rfl | rfl | rfl
        · obtain ⟨b, hb', hc⟩ := hattrs a ha
          rw [← hc]
          exact hinv.disjoint b hb' e h1
        all_goals (exfalso; revert hnm; decide)

theorem parseOpen_is_open {p : Profile} {buf : Bytes} {hdrErr : Notif} {m : Msg} (h : parseOpen p buf hdrErr = .ok m) :
    ∃ a b c d, m = .open a b c d := by
  unfold parseOpen at h
  split at h
  · cases h
  · obtain ⟨v, _, h⟩ := bind_eq_ok h
    split at h
    · cases h
    · obtain ⟨asn, _, h⟩ := bind_eq_ok h
      obtain ⟨hold, _, h⟩ := bind_eq_ok h
      split at h
      · cases h
      · obtain ⟨rid, _, h⟩ := bind_eq_ok h
        split at h
        · cases h
        · obtain ⟨plen, _, h⟩ := bind_eq_ok h
          split at h
          · cases h
          · obtain ⟨⟨as4, caps⟩, _, h⟩ := bind_eq_ok h
            injection h with h
            exact ⟨_, _, _, _, h.symm⟩

theorem parseMessage_update {dec : HypDec} {p : Profile} {c : Codec} {buf : Bytes}
    {r mr : Option Reach} {u mu : Option Unreach} {attrs : List Attr} {errs : List (Nat × Nat)}
    (h : parseMessageWith updateLens dec p c buf = .ok (.update r mr u mu attrs errs)) :
    ∃ hdrErr, parseUpdateWith updateLens dec p c buf hdrErr = .ok (.update r mr u mu attrs errs) := by
  unfold parseMessageWith at h
  split at h
  · cases h
  · obtain ⟨code, _, h⟩ := bind_eq_ok h
    obtain ⟨d, _, h⟩ := bind_eq_ok h
    simp only at h
    split at h
    · obtain ⟨_, _, _, _, ho⟩ := parseOpen_is_open h
      cases ho
    · split at h
      · exact ⟨_, h⟩
      · split at h
        · split at h
          · cases h
          · obtain ⟨_, _, h⟩ := bind_eq_ok h
            obtain ⟨_, _, h⟩ := bind_eq_ok h
            obtain ⟨_, _, h⟩ := bind_eq_ok h
            cases h
        · split at h
          · split at h <;> cases h
          · split at h
            · split at h
              · cases h
              · split at h
                · cases h
                · obtain ⟨_, _, h⟩ := bind_eq_ok h
                  cases h
            · cases h

theorem take_bytes {src : Bytes} (hb : ∀ x ∈ src, x < 256) (n : Nat) : ∀ x ∈ src.take n, x < 256 :=
  fun x hx => hb x (List.mem_of_mem_take hx)

/-- packet-half master theorem: whatever bytes arrive, an UPDATE that `try_parse` returns is turned by
    `validate_message` into a `Message` list that the (parsed-level) C05 reference checker accepts -/
theorem update_validated_ok {dec : HypDec} {p : Profile} {c : Codec} {src : Bytes} (ebgp : Bool) {n : Nat}
    {r mr : Option Reach} {u mu : Option Unreach} {attrs : List Attr} {errs : List (Nat × Nat)}
    (hb : ∀ x ∈ src, x < 256)
    (h : tryParse dec p c src = .msg n (.update r mr u mu attrs errs)) :
    checkV ebgp r mr u mu attrs errs (validateMessage ebgp (.update r mr u mu attrs errs)) = .ok := by
  have hpm : parseMessageWith updateLens dec p c (src.take n) = .ok (.update r mr u mu attrs errs) := by
    unfold tryParse tryParseWith at h
    split at h
    · cases h
    · split at h
      · split at h
        · cases h
        · split at h
          · cases h
          · split at h
            · rename_i m hm
              injection h with h1 h2
              subst h1 h2
              exact hm
            · cases h
            · cases h
      · cases h
  obtain ⟨hdrErr, hpu⟩ := parseMessage_update hpm
  obtain ⟨h1, h2⟩ := parse_update_invariants (take_bytes hb n) hpu
  exact validate_check_ok ebgp r mr u mu attrs errs h1 h2

/-! ## a reset comes only from the framing of the attribute block, a repeated MP attribute, or the NLRI -/

/-- handling one attribute can end the session only for a second MP_REACH_NLRI / MP_UNREACH_NLRI -/
theorem attrBody_err {two : Bool} {buf : Bytes} {s : AState} {flags code alen pos attrEnd : Nat} {e : Notif}
    (hfit : pos + alen ≤ buf.length)
    (h : attrBody two buf s flags code alen pos = .err e) :
    (code = 14 ∨ code = 15) ∧ s.seen.contains code = true := by
  unfold attrBody at h
  split at h
  · rename_i hseen
    split at h
    · rename_i hmp; exact ⟨hmp, hseen⟩
    · cases h
  · simp only at h
    split at h
    · rw [attrKnownW_eq] at h; cases h
    · exfalso
      unfold attrUnknown at h
      split at h
      · cases h
      · split at h
        · split at h
          · omega
          · cases hs : slice buf pos (pos + alen) with
            | ok raw => simp [hs] at h
            | err e' => simp [slice] at hs; split at hs <;> cases hs
            | panic => simp [hs] at h
        · cases h

/-- "does not end the session" -/
def Out.NE {α} (x : Out α) : Prop := ∀ e, x ≠ .err e

theorem Out.NE_ok {α} (a : α) : (Out.ok a).NE := fun _ h => by cases h
theorem Out.NE_panic {α} : (Out.panic : Out α).NE := fun _ h => by cases h

theorem Out.NE_bind {α β} {x : Out α} {f : α → Out β} (hx : x.NE) (hf : ∀ a, (f a).NE) : (x >>= f).NE := by
  cases x with
  | ok a => exact hf a
  | err e => exact absurd rfl (hx e)
  | panic => exact Out.NE_panic

theorem rd8_NE (b : Bytes) (i : Nat) : (rd8 b i).NE := by
  unfold rd8; split
  · exact Out.NE_ok _
  · exact Out.NE_panic

theorem slice_NE (b : Bytes) (s e : Nat) : (slice b s e).NE := by
  unfold slice; split
  · exact Out.NE_ok _
  · exact Out.NE_panic

theorem countHops_NE (bin : Bytes) : ∀ fuel pos count, (countHops bin fuel pos count).NE := by
  intro fuel
  induction fuel with
  | zero => intro _ _; exact Out.NE_panic
  | succ fuel ih =>
    intro pos count
    unfold countHops
    split
    · exact Out.NE_bind (rd8_NE _ _) fun _ => Out.NE_bind (rd8_NE _ _) fun _ => ih _ _
    · exact Out.NE_ok _

theorem takePrefix_NE (bin : Bytes) : ∀ fuel n pos out, (takePrefix bin fuel n pos out).NE := by
  intro fuel
  induction fuel with
  | zero => intro _ _ _; exact Out.NE_panic
  | succ fuel ih =>
    intro n pos out
    unfold takePrefix
    split
    · refine Out.NE_bind (rd8_NE _ _) fun t => ?_
      split
      · refine Out.NE_bind (rd8_NE _ _) fun c => ?_
        simp only
        split
        · exact Out.NE_bind (slice_NE _ _ _) fun _ => ih _ _ _
        · split
          · exact Out.NE_bind (slice_NE _ _ _) fun _ => ih _ _ _
          · exact Out.NE_bind (slice_NE _ _ _) fun _ => ih _ _ _
      · exact Out.NE_ok _
    · exact Out.NE_ok _

theorem asPathReconcile_NE (a b : Bytes) : (asPathReconcile a b).NE := by
  unfold asPathReconcile
  refine Out.NE_bind (countHops_NE _ _ _ _) fun c1 => Out.NE_bind (countHops_NE _ _ _ _) fun c2 => ?_
  split
  · exact Out.NE_ok _
  · exact Out.NE_bind (takePrefix_NE _ _ _ _ _) fun _ => Out.NE_ok _

theorem binaryUnwrap_NE (a : Attr) : (binaryUnwrap a).NE := by
  unfold binaryUnwrap; split
  · exact Out.NE_ok _
  · exact Out.NE_panic

theorem mapFirst_NE (code : Nat) (f : Attr → Out Attr) (hf : ∀ a, (f a).NE) : ∀ l, (mapFirst code f l).NE := by
  intro l
  induction l with
  | nil => exact Out.NE_ok _
  | cons x xs ih =>
    unfold mapFirst
    split
    · exact Out.NE_bind (hf x) fun _ => Out.NE_ok _
    · exact Out.NE_bind ih fun _ => Out.NE_ok _

theorem reconcileAs4_NE (attrs : List Attr) : (reconcileAs4 attrs).NE := by
  unfold reconcileAs4
  simp only
  refine Out.NE_bind ?_ fun r => ?_
  · unfold reconcileAgg
    split
    · refine Out.NE_bind ?_ fun asn => ?_
      · unfold aggregatorAsn
        exact Out.NE_bind (binaryUnwrap_NE _) fun _ => Out.NE_bind (slice_NE _ _ _) fun _ => Out.NE_ok _
      · split
        · exact Out.NE_bind (binaryUnwrap_NE _) fun _ =>
            Out.NE_bind (mapFirst_NE _ _ (fun _ => Out.NE_ok _) _) fun _ => Out.NE_ok _
        · exact Out.NE_ok _
    · exact Out.NE_ok _
  · split
    · exact Out.NE_ok _
    · unfold reconcilePath
      split
      · exact Out.NE_ok _
      · exact mapFirst_NE _ _ (fun ap => Out.NE_bind (binaryUnwrap_NE _) fun _ =>
          Out.NE_bind (binaryUnwrap_NE _) fun _ => Out.NE_bind (asPathReconcile_NE _ _) fun _ => Out.NE_ok _) _

theorem assemble_NE (two : Bool) (s : AState) (errs : List (Nat × Nat)) (reach unreach : List PNlri)
    (mr : Option (Nat × List PNlri × Option Bytes)) (mu : Option (Nat × List PNlri)) :
    (assemble two s errs reach unreach mr mu).NE := by
  unfold assemble
  split
  · exact Out.NE_ok _
  · cases two with
    | false => simp only [Bool.false_eq_true, if_false, Out.bind_ok]; exact Out.NE_ok _
    | true => simp only [if_true]; exact Out.NE_bind (reconcileAs4_NE _) fun _ => Out.NE_ok _

theorem subU64_NE (p : Profile) (a b : Nat) : (subU64 p a b).NE := by
  unfold subU64
  split
  · exact Out.NE_ok _
  · cases p
    · exact Out.NE_panic
    · exact Out.NE_ok _

theorem bind_eq_err {α β} {x : Out α} {f : α → Out β} {e : Notif} (h : (x >>= f) = .err e) :
    x = .err e ∨ ∃ a, x = .ok a ∧ f a = .err e := by
  cases x with
  | ok a => exact Or.inr ⟨a, rfl, h⟩
  | err e' => left; injection h with h; rw [h]
  | panic => cases h

/-- where a session reset on an UPDATE can come from: the header length, the framing of the attribute block
    (section lengths), the attribute loop (a repeated MP attribute, see `attrBody_err`), or locating / parsing the
    NLRI (legacy fields or MP_REACH / MP_UNREACH payloads).  Never from `assemble` (End-of-RIB detection,
    AS4 reconciliation) and never from the value of any other attribute. -/
theorem update_reset_causes {dec : HypDec} {p : Profile} {c : Codec} {buf : Bytes} {hdrErr e : Notif}
    (h : parseUpdateWith updateLens dec p c buf hdrErr = .err e) :
    buf.length < 23 ∨ updateLens buf = .err e ∨
    ∃ wl al, updateLens buf = .ok (wl, al) ∧
      (attrLoop c.two buf (23 + wl + al) (buf.length + 1) { pos := 23 + wl } = .err e ∨
       ∃ s, attrLoop c.two buf (23 + wl + al) (buf.length + 1) { pos := 23 + wl } = .ok s ∧
         (legacyReach dec c buf (23 + wl + al) = .err e ∨ legacyUnreach dec c buf wl = .err e ∨
          mpReachOf dec c s.mpReach = .err e ∨ mpUnreachOf dec c s.mpUnreach = .err e)) := by
  unfold parseUpdateWith at h
  split at h
  · left; omega
  · right
    rcases bind_eq_err h with h | ⟨⟨wl, al⟩, hl, h⟩
    · exact Or.inl h
    · right
      refine ⟨wl, al, hl, ?_⟩
      simp only at h
      rcases bind_eq_err h with h | ⟨reachLen, _, h⟩
      · exact absurd h (subU64_NE _ _ _ e)
      · rcases bind_eq_err h with h | ⟨s, hs, h⟩
        · exact Or.inl h
        · right
          refine ⟨s, hs, ?_⟩
          split at h
          · cases h
          · rcases bind_eq_err h with h | ⟨reach, _, h⟩
            · exact Or.inl h
            · rcases bind_eq_err h with h | ⟨unreach, _, h⟩
              · exact Or.inr (Or.inl h)
              · rcases bind_eq_err h with h | ⟨mpr, _, h⟩
                · exact Or.inr (Or.inr (Or.inl h))
                · rcases bind_eq_err h with h | ⟨mpu, _, h⟩
                  · exact Or.inr (Or.inr (Or.inr h))
                  · exact absurd h (assemble_NE _ _ _ _ _ _ _ e)

/-- the attribute loop itself resets only through `attrBody`, i.e. only for a repeated MP attribute -/
theorem attrLoop_err {two : Bool} {buf : Bytes} {attrEnd : Nat} (hEnd : attrEnd ≤ buf.length) {e : Notif} :
    ∀ fuel (s : AState), attrLoop two buf attrEnd fuel s = .err e →
      ∃ s' flags code alen pos, attrBody two buf s' flags code alen pos = .err e ∧ (code = 14 ∨ code = 15) ∧
        s'.seen.contains code = true := by
  intro fuel
  induction fuel with
  | zero => intro s h; simp [attrLoop] at h
  | succ fuel ih =>
    intro s h
    unfold attrLoop at h
    split at h
    · rcases bind_eq_err h with h | ⟨hd, hh, h⟩
      · exfalso
        -- attrHeader never errs
        unfold attrHeader at h
        split at h
        · cases h
        · rcases bind_eq_err h with h | ⟨_, _, h⟩
          · exact rd8_NE _ _ e h
          · rcases bind_eq_err h with h | ⟨_, _, h⟩
            · exact rd8_NE _ _ e h
            · simp only at h
              split at h
              · split at h
                · cases h
                · rcases bind_eq_err h with h | ⟨_, _, h⟩
                  · unfold rd16 at h
                    rcases bind_eq_err h with h | ⟨_, _, h⟩
                    · exact rd8_NE _ _ e h
                    · rcases bind_eq_err h with h | ⟨_, _, h⟩
                      · exact rd8_NE _ _ e h
                      · cases h
                  · cases h
              · split at h
                · cases h
                · rcases bind_eq_err h with h | ⟨_, _, h⟩
                  · exact rd8_NE _ _ e h
                  · cases h
      · cases hd with
        | brk pos => cases h
        | hdr flags code alen pos =>
          simp only at h
          split at h
          · cases h
          · rename_i hfit
            rcases bind_eq_err h with h | ⟨s1, _, h⟩
            · have := attrBody_err (attrEnd := attrEnd) (by omega) h
              exact ⟨s, flags, code, alen, pos, h, this.1, this.2⟩
            · exact ih s1 h
    · cases h

end Rbgp.Wire
