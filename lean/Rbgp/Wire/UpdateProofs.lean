/-
  Rbgp.Wire.UpdateProofs — C05 lemmas: `validate_update` against the parsed-level reference checker,
  the attribute loop never both keeps and reports an attribute, finite classification tables.
-/
import Rbgp.Wire.Proofs
import Rbgp.Wire.UpdateSpec
set_option linter.unusedSimpArgs false
set_option linter.unusedVariables false
namespace Rbgp.Wire
open USpec

/-! ## finite tables (every attribute type code that has a class × all flag octets) -/

def knownCodes : List Nat := [1, 2, 3, 5, 6, 4, 9, 10, 14, 15, 26, 29, 7, 8, 16, 17, 18, 32, 40, 23]

theorem attrClass_none_of_not_known {code : Nat} (h : code ∉ knownCodes) : attrClass code = none := by
  simp only [knownCodes, List.mem_cons, List.mem_nil_iff, or_false, not_or] at h
  unfold attrClass
  rw [if_neg (by omega), if_neg (by omega), if_neg (by omega)]

theorem canonicalFlags_none_of_not_known {code : Nat} (h : code ∉ knownCodes) : canonicalFlags code = none := by
  simp only [knownCodes, List.mem_cons, List.mem_nil_iff, or_false, not_or] at h
  unfold canonicalFlags
  rw [if_neg (by omega), if_neg (by omega), if_neg (by omega)]

/-- the decoder's table of canonical flags is the property's table of attribute classes -/
theorem canonical_table_known : ∀ code ∈ knownCodes, (canonicalFlags code).map flagBits = attrClass code := by
  decide +kernel

theorem canonical_table (code : Nat) : (canonicalFlags code).map flagBits = attrClass code := by
  by_cases h : code ∈ knownCodes
  · exact canonical_table_known code h
  · rw [attrClass_none_of_not_known h, canonicalFlags_none_of_not_known h]; rfl

theorem flags_conflict_known : ∀ code ∈ knownCodes, ∀ flags, flags < 256 →
    (match canonicalFlags code with
     | some c => flagsConflict flags c
     | none => false) =
    (match attrClass code with
     | some cls => flagBits flags != cls
     | none => false) := by decide +kernel

/-- the decoder flags an attribute's Optional/Transitive bits exactly when they differ from its type's class -/
theorem flags_conflict_table (code flags : Nat) (hf : flags < 256) :
    (match canonicalFlags code with
     | some c => flagsConflict flags c
     | none => false) =
    (match attrClass code with
     | some cls => flagBits flags != cls
     | none => false) := by
  by_cases h : code ∈ knownCodes
  · exact flags_conflict_known code h flags hf
  · rw [attrClass_none_of_not_known h, canonicalFlags_none_of_not_known h]

theorem must_taw_known : ∀ code ∈ knownCodes, ∀ flags, flags < 256 →
    errMustTaw (code, flags) = true → errIsTaw (code, flags) = true := by decide +kernel

theorem must_taw_unknown : ∀ flags, flags < 256 →
    (flags / 128 % 2 == 0) = true → (!(decide (flags &&& 0x80 ≠ 0)) || decide (flags &&& 0x40 ≠ 0)) = true := by
  decide +kernel

/-- every recorded error that the property says needs treat-as-withdraw is classified so by `validate_update` -/
theorem must_taw_table (code flags : Nat) (hf : flags < 256)
    (h : errMustTaw (code, flags) = true) : errIsTaw (code, flags) = true := by
  by_cases hk : code ∈ knownCodes
  · exact must_taw_known code hk flags hf h
  · unfold errMustTaw at h
    simp only [attrClass_none_of_not_known hk] at h
    unfold errIsTaw
    simp only [canonicalFlags_none_of_not_known hk, Bool.false_or]
    exact must_taw_unknown flags hf h

/-! ## `validate_update` -/

theorem mem_withdrawnOut {msgs : List VMsg} {f : Nat} {e : List PNlri} (h : VMsg.unreach f e ∈ msgs) :
    ∀ p ∈ e, p ∈ withdrawnOut msgs f := by
  intro p hp
  unfold withdrawnOut
  simp only [List.mem_flatten, List.mem_map]
  exact ⟨e, ⟨.unreach f e, h, by simp⟩, hp⟩

theorem allIn_of_mem {want have_ : List PNlri} (h : ∀ p ∈ want, p ∈ have_) : allIn want have_ = true := by
  unfold allIn
  simp only [List.all_eq_true, List.contains_iff_mem]
  exact h

theorem mem_optList {α} {o : Option α} {a : α} : a ∈ optList o ↔ o = some a := by
  cases o <;> simp [optList, eq_comm]

/-- the treat-as-withdraw decision of `validate_update` -/
def tawDecision (reach mpReach : Option Reach) (attrs : List Attr) (errs : List (Nat × Nat)) : Bool :=
  missingMandatory reach mpReach attrs || errs.any errIsTaw

theorem validate_taw {ebgp : Bool} {reach mpReach : Option Reach} {unreach mpUnreach : Option Unreach}
    {attrs : List Attr} {errs : List (Nat × Nat)} (h : tawDecision reach mpReach attrs errs = true) :
    validateUpdate ebgp reach mpReach unreach mpUnreach attrs errs =
      ((optList reach ++ optList mpReach).map fun r => VMsg.unreach r.fam r.entries)
        ++ ((optList unreach ++ optList mpUnreach).map fun u => VMsg.unreach u.fam u.entries) := by
  unfold validateUpdate
  unfold tawDecision at h
  simp only [h, if_true]

theorem validate_no_taw {ebgp : Bool} {reach mpReach : Option Reach} {unreach mpUnreach : Option Unreach}
    {attrs : List Attr} {errs : List (Nat × Nat)} (h : tawDecision reach mpReach attrs errs = false) :
    validateUpdate ebgp reach mpReach unreach mpUnreach attrs errs =
      let attrs' := if ebgp then attrs.filter fun a => !(a.code == 5 || a.code == 9 || a.code == 10) else attrs
      (optList reach).map (fun r => VMsg.reach r.fam r.nh r.entries attrs')
        ++ (optList unreach).map (fun u => VMsg.unreach u.fam u.entries)
        ++ (optList mpReach).map (fun r => VMsg.reach r.fam r.nh r.entries attrs')
        ++ (optList mpUnreach).map (fun u => VMsg.unreach u.fam u.entries) := by
  unfold validateUpdate
  unfold tawDecision at h
  simp only [h, Bool.false_eq_true, if_false]

/-- withdrawals carried by the UPDATE are always passed on -/
theorem validate_withdrawals (ebgp : Bool) (reach mpReach : Option Reach) (unreach mpUnreach : Option Unreach)
    (attrs : List Attr) (errs : List (Nat × Nat)) :
    ∀ u ∈ optList unreach ++ optList mpUnreach,
      VMsg.unreach u.fam u.entries ∈ validateUpdate ebgp reach mpReach unreach mpUnreach attrs errs := by
  intro u hu
  cases ht : tawDecision reach mpReach attrs errs with
  | true =>
    rw [validate_taw ht]
    simp only [List.mem_append, List.mem_map]
    exact Or.inr ⟨u, by simpa using hu, rfl⟩
  | false =>
    rw [validate_no_taw ht]
    simp only [List.mem_append, List.mem_map] at hu ⊢
    rcases hu with hu | hu
    · exact Or.inl (Or.inl (Or.inr ⟨u, hu, rfl⟩))
    · exact Or.inr ⟨u, hu, rfl⟩

/-- under treat-as-withdraw no route is announced and every announced prefix is withdrawn -/
theorem validate_taw_no_reach {ebgp : Bool} {reach mpReach : Option Reach} {unreach mpUnreach : Option Unreach}
    {attrs : List Attr} {errs : List (Nat × Nat)} (h : tawDecision reach mpReach attrs errs = true) :
    reachMsgs (validateUpdate ebgp reach mpReach unreach mpUnreach attrs errs) = [] ∧
    ∀ r ∈ optList reach ++ optList mpReach,
      VMsg.unreach r.fam r.entries ∈ validateUpdate ebgp reach mpReach unreach mpUnreach attrs errs := by
  rw [validate_taw h]
  constructor
  · unfold reachMsgs
    simp only [List.filterMap_append, List.filterMap_map, List.append_eq_nil_iff, List.filterMap_eq_nil_iff]
    exact ⟨⟨fun _ _ => rfl, fun _ _ => rfl⟩, ⟨fun _ _ => rfl, fun _ _ => rfl⟩⟩
  · intro r hr
    simp only [List.mem_append, List.mem_map]
    exact Or.inl ⟨r, by simpa using hr, rfl⟩

/-- the attribute vector attached to announced routes -/
def keptAttrs (ebgp : Bool) (attrs : List Attr) : List Attr :=
  if ebgp then attrs.filter fun a => !(a.code == 5 || a.code == 9 || a.code == 10) else attrs

theorem validate_reach_attrs {ebgp : Bool} {reach mpReach : Option Reach} {unreach mpUnreach : Option Unreach}
    {attrs : List Attr} {errs : List (Nat × Nat)} :
    ∀ as ∈ reachMsgs (validateUpdate ebgp reach mpReach unreach mpUnreach attrs errs), as = keptAttrs ebgp attrs := by
  intro as has
  cases ht : tawDecision reach mpReach attrs errs with
  | true => rw [(validate_taw_no_reach (ebgp := ebgp) (unreach := unreach) (mpUnreach := mpUnreach) ht).1] at has; cases has
  | false =>
    rw [validate_no_taw ht] at has
    unfold reachMsgs at has
    simp only [List.filterMap_append, List.filterMap_map, List.mem_append, List.mem_filterMap, Function.comp] at has
    unfold keptAttrs
    rcases has with ((⟨_, _, h⟩ | ⟨_, _, h⟩) | ⟨_, _, h⟩) | ⟨_, _, h⟩ <;>
      simp only [Option.some.injEq, reduceCtorEq] at h <;> exact h.symm

/-- iBGP-only attributes are never attached to a route announced by an external peer -/
theorem validate_ebgp_filter {reach mpReach : Option Reach} {unreach mpUnreach : Option Unreach}
    {attrs : List Attr} {errs : List (Nat × Nat)} :
    ∀ as ∈ reachMsgs (validateUpdate true reach mpReach unreach mpUnreach attrs errs),
      ∀ a ∈ as, a.code ≠ 5 ∧ a.code ≠ 9 ∧ a.code ≠ 10 := by
  intro as has a ha
  rw [validate_reach_attrs as has] at ha
  simp only [keptAttrs, if_true, List.mem_filter, Bool.not_eq_true', Bool.or_eq_false_iff, beq_eq_false_iff_ne] at ha
  exact ⟨ha.2.1.1, ha.2.1.2, ha.2.2⟩

theorem mandatoryMissing_imp {reach mpReach : Option Reach} {attrs : List Attr}
    (h : mandatoryMissing reach mpReach attrs = true) : missingMandatory reach mpReach attrs = true := by
  unfold mandatoryMissing at h
  unfold missingMandatory hasCode
  simp only [Bool.and_eq_true, Bool.or_eq_true] at h ⊢
  refine ⟨h.1, ?_⟩
  rcases h.2 with (h2 | h2) | h2
  · exact Or.inl (Or.inl (Or.inl h2))
  · exact Or.inl (Or.inl (Or.inr h2))
  · exact Or.inl (Or.inr h2)

/-- master theorem (parsed level): the reference checker accepts what `validate_update` makes of ANY parse result
    whose error records are octets and which never both keeps and reports a discardable attribute
    (both hold for every output of the parser: `parse_update_invariants`) -/
theorem validate_check_ok (ebgp : Bool) (reach mpReach : Option Reach) (unreach mpUnreach : Option Unreach)
    (attrs : List Attr) (errs : List (Nat × Nat))
    (hb : ∀ e ∈ errs, e.2 < 256)
    (hd : ∀ e ∈ errs, errMustTaw e = false → ∀ a ∈ attrs, a.code ≠ e.1) :
    checkV ebgp reach mpReach unreach mpUnreach attrs errs
      (validateUpdate ebgp reach mpReach unreach mpUnreach attrs errs) = .ok := by
  unfold checkV
  have hw := validate_withdrawals ebgp reach mpReach unreach mpUnreach attrs errs
  have hwu : (optList unreach ++ optList mpUnreach).all (fun u =>
      allIn u.entries (withdrawnOut (validateUpdate ebgp reach mpReach unreach mpUnreach attrs errs) u.fam)) = true := by
    simp only [List.all_eq_true]
    intro u hu
    exact allIn_of_mem (mem_withdrawnOut (hw u hu))
  simp only [hwu, Bool.not_true, Bool.false_eq_true, if_false]
  -- eBGP filter
  have hebgp : (ebgp && (reachMsgs (validateUpdate ebgp reach mpReach unreach mpUnreach attrs errs)).any
      (fun as => as.any fun a => a.code == 5 || a.code == 9 || a.code == 10)) = false := by
    cases ebgp with
    | false => rfl
    | true =>
      simp only [Bool.true_and, List.any_eq_false, List.any_eq_true, not_exists, not_and]
      intro as has a ha
      have := validate_ebgp_filter as has a ha
      simp [this.1, this.2.1, this.2.2]
  simp only [hebgp, Bool.false_eq_true, if_false]
  split
  · rename_i hmust
    -- the property demands treat-as-withdraw: so does validate_update
    have ht : tawDecision reach mpReach attrs errs = true := by
      unfold tawDecision
      simp only [Bool.or_eq_true] at hmust ⊢
      rcases hmust with h | h
      · exact Or.inl (mandatoryMissing_imp h)
      · right
        simp only [List.any_eq_true] at h ⊢
        obtain ⟨e, he, hm⟩ := h
        exact ⟨e, he, must_taw_table e.1 e.2 (hb e he) hm⟩
    have hnr := validate_taw_no_reach (ebgp := ebgp) (unreach := unreach) (mpUnreach := mpUnreach) ht
    simp only [hnr.1, List.isEmpty_nil, Bool.not_true, Bool.false_eq_true, if_false]
    have hwr : (optList reach ++ optList mpReach).all (fun r =>
        allIn r.entries (withdrawnOut (validateUpdate ebgp reach mpReach unreach mpUnreach attrs errs) r.fam)) = true := by
      simp only [List.all_eq_true]
      intro r hr
      exact allIn_of_mem (mem_withdrawnOut (hnr.2 r hr))
    simp only [hwr, Bool.not_true, Bool.false_eq_true, if_false]
  · rename_i hmust
    -- no error requires treat-as-withdraw: reported attributes must not be attached to announced routes
    have hkept : (reachMsgs (validateUpdate ebgp reach mpReach unreach mpUnreach attrs errs)).any
        (fun as => as.any fun a => errs.any fun e => e.1 == a.code) = false := by
      simp only [List.any_eq_false, List.any_eq_true, not_exists, not_and, beq_iff_eq]
      intro as has a ha e he hcode
      rw [validate_reach_attrs as has] at ha
      have ha' : a ∈ attrs := by
        unfold keptAttrs at ha
        split at ha
        · exact (List.mem_filter.mp ha).1
        · exact ha
      have hnm : errMustTaw e = false := by
        simp only [Bool.or_eq_true, not_or, List.any_eq_true, not_exists, not_and] at hmust
        have := hmust.2 e he
        simpa using this
      exact hd e he hnm a ha' hcode.symm
    simp only [hkept, Bool.false_eq_true, if_false]

end Rbgp.Wire
