/-
  Rbgp.Wire.Nlri2 — C03 phase 2: the NLRI decoders of further address families, transcribed from
  packet/src/{vpn,labeled,mpls,rd,rtc,sr_policy}.rs (working tree; vpn.rs and labeled.rs with the label-stack bit
  length widened to `usize`).  They plug into the model as a `HypDec` (`decP2 p rest`): the families handled here are
  decoded by the transcription, every other family is passed on to `rest` (still a hypothesis).

  All these decoders read from the `BgpReader` over the WHOLE remaining NLRI field (they take no per-entry bound other
  than `len` = what is left), so a label stack without a bottom-of-stack bit runs on into the following entries until
  the field ends; every short read is an `io::Error`, mapped to `UpdateMalformedAttributeList` by `Nlri::decode`.

  What an entry decodes to is kept in a `PNlri` as (path id, mask-or-length-bits, canonical bytes):
    VPN      : mask = prefix bits;  bytes = label values (3 bytes each, 20-bit value) ++ RD (8) ++ address (4 / 16)
    labeled  : mask = prefix bits;  bytes = label values ++ address
    RTC      : mask = length bits (0 / 32 / 96);  bytes = origin AS (4) ++ route target (8) as present
    SR policy: mask = length bits (96 / 192);  bytes = distinguisher (4) ++ color (4) ++ endpoint (4 / 16)
  (the harness prints the decoded Rust values in the same form).
-/
import Rbgp.Wire.Model
namespace Rbgp.Wire

def FAM_VPN4 : Nat := 65664
def FAM_VPN6 : Nat := 131200
def FAM_MPLS4 : Nat := 65540
def FAM_MPLS6 : Nat := 131076
def FAM_RTC : Nat := 65668
def FAM_SRP4 : Nat := 65609
def FAM_SRP6 : Nat := 131145

/-- what one entry decodes to: (mask / length bits, canonical bytes, what is left of the field) -/
abbrev One := Out (Nat × Bytes × Bytes)

/-- `MplsLabelStack::decode`: `loop { read_exact(3); push(raw >> 4); if buf[2] & 1 != 0 { break } }` -/
def labelStack : Nat → Bytes → List Nat → Out (List Nat × Bytes)
  | 0, _, _ => .panic
  | fuel + 1, b0 :: b1 :: b2 :: rest, acc =>
      let v := (b0 * 65536 + b1 * 256 + b2) / 16
      if b2 % 2 = 1 then .ok ((v :: acc).reverse, rest) else labelStack fuel rest (v :: acc)
  | _ + 1, _, _ => .err eMalformed

def labelBytes (ls : List Nat) : Bytes := ls.flatMap fun v => [v / 65536 % 256, v / 256 % 256, v % 256]

/-- `read_exact(&mut rd_buf)` + `RouteDistinguisher::decode`: 8 bytes, type 0 / 1 / 2 -/
def rdOf (bs : Bytes) : Out (Bytes × Bytes) :=
  if bs.length < 8 then .err eMalformed
  else if be (bs.take 2) ≤ 2 then .ok (bs.take 8, bs.drop 8) else .err eMalformed

/-- `for b in addr.iter_mut().take(prefix_bytes) { *b = c.read_u8()? }` -/
def prefixOf (maxBits prefixBits : Nat) (bs : Bytes) : Out (Bytes × Bytes) :=
  let n := (prefixBits + 7) / 8
  if bs.length < n then .err eMalformed else .ok (padTo (bs.take n) (maxBits / 8), bs.drop n)

/-- `VpnV4Nlri::decode` / `VpnV6Nlri::decode` (`maxBits` = 32 / 128); `len` = bytes left.  The subtractions are the
    `usize` subtractions of the source (guarded by the comparison before them) -/
def vpnOne (p : Profile) (maxBits : Nat) (bs : Bytes) (len : Nat) : One :=
  if len < 12 then .err eMalformed
  else match bs with
    | [] => .err eMalformed
    | tb :: bs1 =>
        if tb < 88 then .err eMalformed
        else do
          let (labels, bs2) ← labelStack (bs1.length + 1) bs1 []
          let labelBits := labels.length * 3 * 8
          if tb < labelBits + 64 then .err eMalformed
          else do
            let x ← subU64 p tb labelBits
            let y ← subU64 p x 64
            let prefixBits := y % 256
            if prefixBits > maxBits then .err eMalformed
            else do
              let (rd, bs3) ← rdOf bs2
              let (addr, rest) ← prefixOf maxBits prefixBits bs3
              .ok (prefixBits, labelBytes labels ++ rd ++ addr, rest)

/-- the label part of `LabeledV4Nlri::decode`: (label values, their bit length, what is left) -/
def labeledLabels (isReach : Bool) (bs1 : Bytes) : Out (List Nat × Nat × Bytes) :=
  if isReach then do
    let (labels, bs2) ← labelStack (bs1.length + 1) bs1 []
    .ok (labels, labels.length * 3 * 8, bs2)
  else if bs1.length < 3 then .err eMalformed
  else .ok ([0], 24, bs1.drop 3)

/-- `LabeledV4Nlri::decode` / `LabeledV6Nlri::decode` -/
def labeledOne (p : Profile) (maxBits : Nat) (isReach : Bool) (bs : Bytes) (len : Nat) : One :=
  if len < 4 then .err eMalformed
  else match bs with
    | [] => .err eMalformed
    | tb :: bs1 =>
        if tb < 24 then .err eMalformed
        else do
          let (labels, labelBits, bs2) ← labeledLabels isReach bs1
          if tb < labelBits then .err eMalformed
          else do
            let y ← subU64 p tb labelBits
            let prefixBits := y % 256
            if prefixBits > maxBits then .err eMalformed
            else do
              let (addr, rest) ← prefixOf maxBits prefixBits bs2
              .ok (prefixBits, labelBytes labels ++ addr, rest)

/-- `RtcNlri::decode` -/
def rtcOne (bs : Bytes) : One :=
  match bs with
  | [] => .err eMalformed
  | lb :: r =>
      if lb = 0 then .ok (0, [], r)
      else if lb = 32 then (if r.length < 4 then .err eMalformed else .ok (32, r.take 4, r.drop 4))
      else if lb = 96 then (if r.length < 12 then .err eMalformed else .ok (96, r.take 12, r.drop 12))
      else .err eMalformed

/-- `SrPolicyNlri::decode` -/
def srpOne (bs : Bytes) : One :=
  match bs with
  | [] => .err eMalformed
  | lb :: r =>
      if r.length < 8 then .err eMalformed
      else if lb = 96 then (if r.length < 12 then .err eMalformed else .ok (96, r.take 12, r.drop 12))
      else if lb = 192 then (if r.length < 24 then .err eMalformed else .ok (192, r.take 24, r.drop 24))
      else .err eMalformed

/-- `decode_nlri_list` + `decode_nlri` around a per-family entry decoder -/
def nlriLoop2 (one : Bytes → Nat → One) (addpath : Bool) : Nat → Bytes → List PNlri → Out (List PNlri)
  | 0, _, _ => .panic
  | fuel + 1, bs, acc =>
      match bs with
      | [] => .ok acc.reverse
      | _ :: _ =>
          match pathId addpath bs bs.length with
          | none => .err eMalformed
          | some (id, bs1, len) => do
              let (mask, canon, rest) ← one bs1 len
              nlriLoop2 one addpath fuel rest (⟨id, mask, canon⟩ :: acc)

/-- the entry decoder of a family handled here -/
def oneOf (p : Profile) (fam : Nat) (isReach : Bool) : Option (Bytes → Nat → One) :=
  if fam = FAM_VPN4 then some (vpnOne p 32)
  else if fam = FAM_VPN6 then some (vpnOne p 128)
  else if fam = FAM_MPLS4 then some (labeledOne p 32 isReach)
  else if fam = FAM_MPLS6 then some (labeledOne p 128 isReach)
  else if fam = FAM_RTC then some (fun bs _ => rtcOne bs)
  else if fam = FAM_SRP4 ∨ fam = FAM_SRP6 then some (fun bs _ => srpOne bs)
  else none

/-- the model's NLRI decoders after phase 2: VPNv4/v6, labeled IPv4/IPv6, RTC, SR policy transcribed; the remaining
    families (EVPN, flowspec, MUP, BGP-LS) passed on to `rest` -/
def decP2 (p : Profile) (rest : HypDec) : HypDec := fun fam addpath isReach bs =>
  match oneOf p fam isReach with
  | some one => nlriLoop2 one addpath (bs.length + 1) bs []
  | none => rest fam addpath isReach bs

end Rbgp.Wire
