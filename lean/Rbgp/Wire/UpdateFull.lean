/-
  Rbgp.Wire.UpdateFull — C05: what the model does with a rendered case, part 5: the byte-level master theorem.
  For every codec, peer kind, valid UPDATE `u` and corruption list `cs` (`USpec.wfCase`), the byte-level reference
  checker `USpec.check` accepts what `try_parse` + `validate_message` (the model) make of `render c u cs`.

  Shape of the proof: the block of the rendered frame is split (by the truncation corruptions) into the items that
  stay, the one that is cut and the ones that are gone (`Split`, with the sources of every class the checker
  collects).  If the case carries the `weak` class only the unconditional clauses are demanded (`weak_obligations`).
  Otherwise every item that stays is well framed, the attribute loop runs through them (`nonweak_loop`), the NLRI
  fields and MP attributes decode to the prefixes of `u` (`nonweak_parse`), and each class of the checker is matched
  with what `validate_update` does (`Ctx.taw`, `Ctx.disc`, `Ctx.dup`).
-/
import Rbgp.Wire.UpdateRound
import Rbgp.Wire.ErrClass
set_option linter.unusedSimpArgs false
set_option linter.unusedVariables false
namespace Rbgp.Wire
open USpec

/-! ## what a well-formed case provides -/

theorem wf_parts {c : Codec} {u : CUpdate} {cs : List Corr} (h : wfCase c u cs = true) :
    wfLegacy c u = true ∧ wfMpr c u = true ∧ wfMpu c u = true ∧ wfAttrs c u = true ∧ wfCorr u cs = true ∧
    (render c u cs).length ≤ c.maxLen ∧ structOk c u cs = true ∧ octetsOk u cs = true := by
  simp only [wfCase, Bool.and_eq_true, decide_eq_true_eq] at h
  obtain ⟨⟨⟨⟨⟨⟨⟨⟨h1, h2⟩, h3⟩, h4⟩, h5⟩, h6⟩, h7⟩, h8⟩, _⟩ := h
  exact ⟨h1, h2, h3, h4, h5, h6, h7, h8⟩

theorem wfLegacy_wd {c : Codec} {u : CUpdate} (h : wfLegacy c u = true) :
    (u.wd = [] ∨ ∃ ap, negotiated c FAM_IPV4 = some ap ∧ ∀ p ∈ u.wd, pfxOk 32 ap p = true) ∧
    (u.nlri = [] ∨ ∃ ap, negotiated c FAM_IPV4 = some ap ∧ ∀ p ∈ u.nlri, pfxOk 32 ap p = true) := by
  unfold wfLegacy at h
  simp only [Bool.or_eq_true, Bool.and_eq_true, List.isEmpty_iff] at h
  rcases h with ⟨h1, h2⟩ | h
  · exact ⟨Or.inl h1, Or.inl h2⟩
  · cases hn : negotiated c FAM_IPV4 with
    | none => simp [hn] at h
    | some ap =>
      simp only [hn, Bool.and_eq_true, List.all_eq_true] at h
      exact ⟨Or.inr ⟨ap, rfl, h.1⟩, Or.inr ⟨ap, rfl, h.2⟩⟩

/-- what a cut item calls for -/
def cutCls (wc : WItem) : Cls :=
  if isMp wc.code then Cls.weak
  else match attrClass wc.code with
    | some _ => malformedCls wc.code
    | none => if wc.flags / 128 % 2 == 1 && wc.flags / 64 % 2 == 0 then Cls.discardOrTaw wc.code else Cls.taw

/-- where the classes collected by the checker's walk come from -/
theorem cutRev_conv (two ann leg : Bool) : ∀ (r : List WItem) (k : Nat) (x : Cls),
    x ∈ truncCls (r.map (sItemOf two ann leg)) k →
    (∃ w ∈ (cutRev r k).2.2, x ∈ itemCls two w) ∨
    (∃ w ∈ (cutRev r k).1, x = (sItemOf two ann leg w).gone) ∨
    (∃ wc m, (cutRev r k).2.1 = some (wc, m) ∧ (x = Cls.weak ∨ x = cutCls wc)) := by
  intro r
  induction r with
  | nil => intro k x hx; simp [truncCls] at hx
  | cons w rest ih =>
    intro k x hx
    unfold cutRev
    have hsz : (sItemOf two ann leg w).size = (renderItem w).length := rfl
    by_cases h0 : k = 0
    · subst h0
      simp only [if_true]
      left
      simp only [List.map_cons, truncCls, if_true, List.flatMap_cons, List.mem_append, List.mem_flatMap,
        List.mem_map] at hx
      rcases hx with hx | ⟨_, ⟨y, hy, rfl⟩, hx⟩
      · exact ⟨w, List.mem_cons_self .., by simpa [sItemOf] using hx⟩
      · exact ⟨y, List.mem_cons_of_mem _ hy, by simpa [sItemOf] using hx⟩
    · rw [if_neg h0]
      by_cases hge : k ≥ (renderItem w).length
      · rw [if_pos hge]
        simp only [List.map_cons] at hx
        rw [truncCls, if_neg h0, hsz, if_pos hge] at hx
        simp only [List.mem_cons] at hx
        rcases hx with rfl | hx
        · right; left; exact ⟨w, List.mem_cons_self .., rfl⟩
        · rcases ih _ x hx with ⟨y, hy, h⟩ | ⟨y, hy, h⟩ | h
          · left; exact ⟨y, hy, h⟩
          · right; left; exact ⟨y, List.mem_cons_of_mem _ hy, h⟩
          · right; right; exact h
      · rw [if_neg hge]
        simp only [List.map_cons] at hx
        rw [truncCls, if_neg h0, hsz, if_neg hge] at hx
        simp only [List.mem_append, List.mem_singleton, List.mem_flatMap, List.mem_map] at hx
        rcases hx with (hx | hx) | ⟨_, ⟨y, hy, rfl⟩, hx⟩
        · right; right
          refine ⟨w, _, rfl, Or.inl ?_⟩
          split at hx
          · simpa using hx
          · cases hx
        · right; right
          exact ⟨w, _, rfl, Or.inr hx⟩
        · left; exact ⟨y, hy, by simpa [sItemOf] using hx⟩

def cutItem : Option (WItem × Nat) → List WItem
  | some (w, _) => [w]
  | none => []

/-- the split of the block made by the truncation corruptions -/
structure Split (c : Codec) (u : CUpdate) (cs : List Corr) (kept : List WItem) (cut : Option (WItem × Nat))
    (removed : List WItem) : Prop where
  items : blockItems c u cs = kept ++ cutItem cut ++ removed
  bytes : blockBytes c u cs = kept.flatMap renderItem ++ cutBytesOf cut
  keptCls : ∀ w ∈ kept, ∀ x ∈ itemCls c.two w, x ∈ allClasses c u cs
  goneCls : ∀ w ∈ removed, (sItemOf c.two (announcesU u) (!u.nlri.isEmpty) w).gone ∈ allClasses c u cs
  cutFacts : ∀ wc m, cut = some (wc, m) →
    0 < m ∧ m < (renderItem wc).length ∧
    (Cls.weak ∈ itemCls c.two wc → Cls.weak ∈ allClasses c u cs) ∧
    (if isMp wc.code then Cls.weak
     else match attrClass wc.code with
       | some _ => malformedCls wc.code
       | none => if wc.flags / 128 % 2 == 1 && wc.flags / 64 % 2 == 0 then Cls.discardOrTaw wc.code else Cls.taw)
      ∈ allClasses c u cs
  srcs : ∀ x ∈ allClasses c u cs,
    (∃ i o, (i, o) ∈ idxFrom 0 (baseAttrs c u) ∧ (effAttr cs i o).present = false ∧
      x = USpec.goneCls (announcesU u) (!u.nlri.isEmpty) o.code) ∨
    x = Cls.weak ∨
    (∃ w ∈ kept, x ∈ itemCls c.two w) ∨
    (∃ w ∈ removed, x = (sItemOf c.two (announcesU u) (!u.nlri.isEmpty) w).gone) ∨
    (∃ wc m, cut = some (wc, m) ∧ x = cutCls wc)

theorem split_exists (c : Codec) (u : CUpdate) (cs : List Corr) :
    ∃ kept cut removed, Split c u cs kept cut removed := by
  let r := (blockItems c u cs).reverse
  let k := truncTotal cs
  have hb := cutRev_bytes r k
  obtain ⟨h1, h2, h3, h4⟩ := cutRev_spec c.two (announcesU u) (!u.nlri.isEmpty) r k
  have hrr : r.reverse = blockItems c u cs := List.reverse_reverse _
  have hcls : ∀ x, x ∈ truncCls (r.map (sItemOf c.two (announcesU u) (!u.nlri.isEmpty))) k → x ∈ allClasses c u cs := by
    intro x hx
    unfold allClasses
    simp only [List.mem_append]
    right
    have : (sItems c u cs (!u.nlri.isEmpty || u.mpr.isSome) (!u.nlri.isEmpty)).reverse =
        r.map (sItemOf c.two (announcesU u) (!u.nlri.isEmpty)) := by
      simp [sItems, r, List.map_reverse, announcesU]
    rw [this]
    exact hx
  have hrev : (sItems c u cs (!u.nlri.isEmpty || u.mpr.isSome) (!u.nlri.isEmpty)).reverse =
      r.map (sItemOf c.two (announcesU u) (!u.nlri.isEmpty)) := by
    simp [sItems, r, List.map_reverse, announcesU]
  refine ⟨(cutRev r k).2.2.reverse, (cutRev r k).2.1, (cutRev r k).1.reverse, ?_, ?_, ?_, ?_, ?_, ?_⟩
  · have := congrArg List.reverse h1
    rw [hrr] at this
    rw [this]
    cases (cutRev r k).2.1 with
    | none => simp [cutItem]
    | some x => obtain ⟨w, m⟩ := x; simp [cutItem]
  · have : blockBytes c u cs = (r.reverse.flatMap renderItem).take ((r.reverse.flatMap renderItem).length - k) := by
      rw [hrr]; rfl
    rw [this, hb]
  · intro w hw x hx
    exact hcls x (h2 w (by simpa using hw) x hx)
  · intro w hw
    exact hcls _ (h3 w (by simpa using hw))
  · intro wc m hc
    obtain ⟨a, b, c', d⟩ := h4 wc m hc
    exact ⟨a, b, fun h => hcls _ (c' h), hcls _ d⟩
  · intro x hx
    unfold allClasses at hx
    simp only [List.mem_append] at hx
    rcases hx with (hx | hx) | hx
    · left
      unfold omittedCls at hx
      simp only [List.mem_filterMap] at hx
      obtain ⟨⟨i, o⟩, hio, h⟩ := hx
      simp only at h
      split at h
      · cases h
      · rename_i hp
        injection h with h
        exact ⟨i, o, hio, by simpa using hp, by rw [← h]; simp [announcesU]⟩
    · right; left
      split at hx
      · simpa using hx
      · cases hx
    · rw [hrev] at hx
      rcases cutRev_conv _ _ _ r k x hx with ⟨w, hw, h⟩ | ⟨w, hw, h⟩ | ⟨wc, m, hc, h | h⟩
      · right; right; left; exact ⟨w, by simpa using hw, h⟩
      · right; right; right; left; exact ⟨w, by simpa using hw, h⟩
      · right; left; exact h
      · right; right; right; right; exact ⟨wc, m, hc, h⟩

/-- per-item facts provided by `structOk` -/
structure ItemFacts (c : Codec) (u : CUpdate) (w : WItem) : Prop where
  flags : w.flags < 256
  code : w.code < 256
  dlen : w.data.length < 65536
  kind : w.kind ≤ 2
  lenf : w.lenOv = false → w.lenField = w.data.length
  k0 : w.kind = 0 → attrClass w.code ≠ none
  k2 : w.kind = 2 → attrClass w.code = none
  mpr : w.kind = 0 → w.code = 14 → ∃ m, u.mpr = some m ∧ w.origData = (mprAttr c m).data
  mpu : w.kind = 0 → w.code = 15 → ∃ m, u.mpu = some m ∧ w.origData = (mpuAttr c m).data
  oct : ∀ x ∈ w.data, x < 256

theorem struct_items {c : Codec} {u : CUpdate} {cs : List Corr} (h : structOk c u cs = true) :
    (∀ w ∈ blockItems c u cs, ItemFacts c u w) ∧ firstOcc (blockItems c u cs) [] = true ∧
    dupOk none (blockItems c u cs) = true := by
  unfold structOk at h
  simp only [Bool.and_eq_true] at h
  obtain ⟨⟨⟨⟨⟨⟨⟨hall, hfo⟩, hdo⟩, _⟩, _⟩, _⟩, _⟩, _⟩ := h
  refine ⟨?_, hfo, hdo⟩
  intro w hw
  have := (List.all_eq_true.mp hall) w hw
  simp only [Bool.and_eq_true, Bool.or_eq_true, decide_eq_true_eq, bne_iff_ne, ne_eq, beq_iff_eq] at this
  obtain ⟨⟨⟨⟨⟨⟨⟨⟨⟨h1, h2⟩, h3⟩, h4⟩, h5⟩, h6⟩, h7⟩, h8⟩, h9⟩, h10⟩ := this
  refine ⟨h1, h2, h3, h4, ?_, ?_, ?_, ?_, ?_, ?_⟩
  · intro hl
    rcases h5 with h5 | h5
    · rw [hl] at h5; cases h5
    · exact h5
  · intro hk; rcases h6 with h6 | h6
    · exact absurd hk h6
    · exact h6
  · intro hk; rcases h7 with h7 | h7
    · exact absurd hk h7
    · exact h7
  · intro hk hc
    rcases h8 with (h8 | h8) | h8
    · exact absurd hk h8
    · exact absurd hc h8
    · cases hm : u.mpr with
      | none => simp [hm] at h8
      | some m => simp only [hm, beq_iff_eq] at h8; exact ⟨m, rfl, h8⟩
  · intro hk hc
    rcases h9 with (h9 | h9) | h9
    · exact absurd hk h9
    · exact absurd hc h9
    · cases hm : u.mpu with
      | none => simp [hm] at h9
      | some m => simp only [hm, beq_iff_eq] at h9; exact ⟨m, rfl, h9⟩
  · simpa [octets] using h10

/-- an item without the `weak` class is well framed -/
theorem itemOK_of_nonweak {c : Codec} {u : CUpdate} {two : Bool} {w : WItem} (hf : ItemFacts c u w)
    (hnw : Cls.weak ∉ itemCls two w) : ItemOK w := by
  have h1 : (w.lenOv || lenUnfit w.flags w.data.length) = false := by
    cases hc : (w.lenOv || lenUnfit w.flags w.data.length) with
    | false => rfl
    | true =>
      exfalso; apply hnw
      unfold itemCls
      simp [hc]
  simp only [Bool.or_eq_false_iff] at h1
  refine ⟨hf.lenf h1.1, ?_, hf.dlen⟩
  have := h1.2
  simp only [lenUnfit, extBit, Bool.and_eq_false_iff, Bool.not_eq_false', bne_iff_ne, ne_eq, decide_eq_false_iff_not] at this
  rcases this with h | h
  · exact Or.inl h
  · exact Or.inr (by omega)

theorem cutBytes_length {wc : WItem} {m : Nat} (h : m < (renderItem wc).length) :
    (cutBytesOf (some (wc, m))).length = m := by
  simp [cutBytesOf, List.length_take]; omega

/-- without the `weak` class the attribute loop runs through the kept items and notes a truncation exactly when an
    item is cut -/
theorem nonweak_loop {c : Codec} {u : CUpdate} {cs : List Corr} {kept removed : List WItem}
    {cut : Option (WItem × Nat)} {buf : Bytes}
    (hst : structOk c u cs = true) (hsp : Split c u cs kept cut removed)
    (hnw : Cls.weak ∉ allClasses c u cs)
    (hl : Layout c u cs buf) (hlen : buf.length = totalLen c u cs) :
    ∃ s1 s', PInv c.two kept s1 ∧
      attrLoop c.two buf (23 + (wdB c u).length + (blockBytes c u cs).length) (buf.length + 1)
        { pos := 23 + (wdB c u).length } = .ok s' ∧
      ((cut = none ∧ s' = s1 ∧ s1.pos = 23 + (wdB c u).length + (blockBytes c u cs).length) ∨
       (cut ≠ none ∧ ∃ p', s' = { s1 with pos := p', trunc := true })) := by
  obtain ⟨hfacts, hfo, hdo⟩ := struct_items hst
  have ht : totalLen c u cs = 23 + (wdB c u).length + (blockBytes c u cs).length + (legacyNlriBytes c u cs).length := rfl
  have hmem : ∀ w ∈ kept, w ∈ blockItems c u cs := by
    intro w hw; rw [hsp.items]; simp [hw]
  have hkOK : ∀ w ∈ kept, ItemOK w := fun w hw =>
    itemOK_of_nonweak (hfacts w (hmem w hw)) (fun h => hnw (hsp.keptCls w hw _ h))
  -- how the block ends
  have hcutOK : CutOK (cutBytesOf cut ++ legacyNlriBytes c u cs) (cutBytesOf cut).length := by
    cases hc : cut with
    | none => left; simp [cutBytesOf]
    | some x =>
      obtain ⟨wc, m⟩ := x
      obtain ⟨hm0, hm, hweak, _⟩ := hsp.cutFacts wc m hc
      have hwcmem : wc ∈ blockItems c u cs := by rw [hsp.items, hc]; simp [cutItem]
      have hwcOK := itemOK_of_nonweak (hfacts wc hwcmem) (fun h => hnw (hweak h))
      right
      refine ⟨wc, legacyNlriBytes c u cs, hwcOK, ?_, ?_⟩
      · rw [cutBytes_length hm]; rfl
      · rw [cutBytes_length hm]; exact hm
  have hd : buf.drop (23 + (wdB c u).length) =
      kept.flatMap renderItem ++ (cutBytesOf cut ++ legacyNlriBytes c u cs) := by
    rw [hl.dBlk, hsp.bytes, List.append_assoc]
  have hsum : 23 + (wdB c u).length + (kept.flatMap renderItem).length + (cutBytesOf cut).length =
      23 + (wdB c u).length + (blockBytes c u cs).length := by
    rw [hsp.bytes]; simp; omega
  have hEnd : 23 + (wdB c u).length + (blockBytes c u cs).length ≤ buf.length := by omega
  obtain ⟨herr, hok⟩ := attrLoop_items (two := c.two) (buf := buf)
    (attrEnd := 23 + (wdB c u).length + (blockBytes c u cs).length) hEnd hcutOK kept []
    (23 + (wdB c u).length) { pos := 23 + (wdB c u).length } (buf.length + 1) hkOK hd hsum rfl
    (PInv.init c.two _) (by omega)
  cases hres : attrLoop c.two buf (23 + (wdB c u).length + (blockBytes c u cs).length) (buf.length + 1)
      { pos := 23 + (wdB c u).length } with
  | panic =>
    exfalso
    have := (attrLoop_spec c.two buf _ (by omega) (buf.length + 1) { pos := 23 + (wdB c u).length }
      (by intro a ha; simp at ha) (by simp only; omega)).1
    rw [hres] at this
    exact this
  | err e =>
    exfalso
    obtain ⟨pre, w, post, hk, hmp, w', hw', hcode⟩ := herr e hres
    simp only [List.nil_append] at hw'
    have hwk : w ∈ kept := by rw [hk]; simp
    by_cases hkind : w.kind = 1
    · -- a duplicate of an MP attribute on the wire is `weak`
      apply hnw
      apply hsp.keptCls w hwk
      unfold itemCls
      have hmp' : isMp w.code = true := by
        rcases hmp with h | h <;> simp [isMp, h]
      simp [hkind, hmp']
    · have hitems : blockItems c u cs = pre ++ w :: (post ++ (cutItem cut ++ removed)) := by
        rw [hsp.items, hk]; simp
      exact (firstOcc_split _ _ hfo pre w _ hitems hkind).1 w' hw' hcode
  | ok s' =>
    obtain ⟨s1, hi, hfin⟩ := hok s' hres
    refine ⟨s1, s', by simpa using hi, rfl, ?_⟩
    rcases hfin with ⟨h0, h1, h2⟩ | ⟨h0, p', hp'⟩
    · left
      refine ⟨?_, h1, h2⟩
      cases hc : cut with
      | none => rfl
      | some x =>
        obtain ⟨wc, m⟩ := x
        obtain ⟨hm0, hm, _, _⟩ := hsp.cutFacts wc m hc
        rw [hc, cutBytes_length hm] at h0
        omega
    · right
      refine ⟨?_, p', hp'⟩
      intro hc
      rw [hc] at h0
      simp [cutBytesOf] at h0

theorem struct_mp {c : Codec} {u : CUpdate} {cs : List Corr} (h : structOk c u cs = true) :
    ((idxFrom 0 (baseAttrs c u)).any (fun (i, o) => o.code == 14 && (effAttr cs i o).present) = true →
      ∃ w ∈ blockItems c u cs, w.kind = 0 ∧ w.code = 14) ∧
    ((idxFrom 0 (baseAttrs c u)).any (fun (i, o) => o.code == 15 && (effAttr cs i o).present) = true →
      ∃ w ∈ blockItems c u cs, w.kind = 0 ∧ w.code = 15) ∧
    (∀ i o, (i, o) ∈ idxFrom 0 (baseAttrs c u) → (effAttr cs i o).present = false →
      ∀ w ∈ blockItems c u cs, w.code ≠ o.code) ∧
    (u.mpr.isSome = (idxFrom 0 (baseAttrs c u)).any fun (_, o) => o.code == 14) ∧
    (u.mpu.isSome = (idxFrom 0 (baseAttrs c u)).any fun (_, o) => o.code == 15) := by
  unfold structOk at h
  simp only [Bool.and_eq_true] at h
  obtain ⟨⟨⟨⟨⟨_, h4⟩, h5⟩, h6⟩, h7⟩, h8⟩ := h
  refine ⟨?_, ?_, ?_, by simpa using h7, by simpa using h8⟩
  · intro hp
    simp only [hp, Bool.not_true, Bool.false_or, List.any_eq_true, Bool.and_eq_true, beq_iff_eq] at h4
    obtain ⟨w, hw, hk, hc⟩ := h4
    exact ⟨w, hw, hk, hc⟩
  · intro hp
    simp only [hp, Bool.not_true, Bool.false_or, List.any_eq_true, Bool.and_eq_true, beq_iff_eq] at h5
    obtain ⟨w, hw, hk, hc⟩ := h5
    exact ⟨w, hw, hk, hc⟩
  · intro i o hio hpr w hw
    have := (List.all_eq_true.mp h6) (i, o) hio
    simp only [hpr, Bool.false_or, List.all_eq_true, bne_iff_ne, ne_eq] at this
    exact this w hw

theorem omitted_weak {c : Codec} {u : CUpdate} {cs : List Corr} {i : Nat} {o : RAttr}
    (hio : (i, o) ∈ idxFrom 0 (baseAttrs c u)) (hpr : (effAttr cs i o).present = false) (hmp : isMp o.code = true) :
    Cls.weak ∈ allClasses c u cs := by
  unfold allClasses
  simp only [List.mem_append]
  left; left
  unfold omittedCls
  simp only [List.mem_filterMap]
  exact ⟨(i, o), hio, by simp [hpr, goneCls, hmp]⟩

/-- the MP_REACH_NLRI the loop hands on is the one rendered from `u.mpr` (or none) -/
theorem nonweak_mpr {c : Codec} {u : CUpdate} {cs : List Corr} {kept removed : List WItem}
    {cut : Option (WItem × Nat)}
    (hst : structOk c u cs = true) (hsp : Split c u cs kept cut removed) (hnw : Cls.weak ∉ allClasses c u cs) :
    (u.mpr = none → firstOf kept 14 = none) ∧
    (∀ m, u.mpr = some m → ∃ w, firstOf kept 14 = some w ∧ w.data = (mprAttr c m).data) := by
  obtain ⟨hfacts, hfo, hdo⟩ := struct_items hst
  obtain ⟨hpres, _, homit, hiff, _⟩ := struct_mp hst
  have hmem : ∀ w ∈ kept, w ∈ blockItems c u cs := by
    intro w hw; rw [hsp.items]; simp [hw]
  -- every kept item of type 14 is the attribute of `u`, untouched
  have hkept14 : ∀ w ∈ kept, w.code = 14 → w.kind = 0 ∧ w.data = w.origData := by
    intro w hw hc
    have hf := hfacts w (hmem w hw)
    have hcls := hsp.keptCls w hw
    have hk : w.kind = 0 := by
      have := hf.kind
      rcases Nat.lt_or_ge w.kind 1 with h0 | h1
      · omega
      · exfalso
        rcases Nat.lt_or_ge w.kind 2 with h1' | h2
        · have hk1 : w.kind = 1 := by omega
          apply hnw; apply hcls
          unfold itemCls
          simp [hk1, isMp, hc]
        · have hk2 : w.kind = 2 := by omega
          have := hf.k2 hk2
          rw [hc] at this
          simp [attrClass] at this
    refine ⟨hk, ?_⟩
    cases hd : (w.data != w.origData) with
    | false => simpa using hd
    | true =>
      exfalso
      apply hnw; apply hcls
      unfold itemCls
      simp [hk, isMp, hc, hd]
  constructor
  · intro hnone
    unfold firstOf
    rw [List.find?_eq_none]
    intro w hw hc
    have hc' : w.code = 14 := by simpa using hc
    obtain ⟨hk, _⟩ := hkept14 w hw hc'
    obtain ⟨m, hm, _⟩ := (hfacts w (hmem w hw)).mpr hk hc'
    rw [hnone] at hm; cases hm
  · intro m hm
    -- the attribute is in `u`; it was not omitted (that would be `weak`), so it is on the wire
    have hany : (idxFrom 0 (baseAttrs c u)).any (fun (_, o) => o.code == 14) = true := by
      rw [← hiff, hm]; rfl
    simp only [List.any_eq_true, beq_iff_eq] at hany
    obtain ⟨⟨i, o⟩, hio, hoc⟩ := hany
    simp only at hoc
    have hpr : (effAttr cs i o).present = true := by
      cases hp : (effAttr cs i o).present with
      | true => rfl
      | false => exact absurd (omitted_weak hio hp (by simp [isMp, hoc])) hnw
    obtain ⟨w14, hw14, hk14, hc14⟩ := hpres (by
      simp only [List.any_eq_true, Bool.and_eq_true, beq_iff_eq]
      exact ⟨(i, o), hio, hoc, hpr⟩)
    -- it is among the kept items
    have hin : w14 ∈ kept := by
      rw [hsp.items] at hw14
      simp only [List.mem_append] at hw14
      rcases hw14 with (h | h) | h
      · exact h
      · exfalso
        cases hc : cut with
        | none => rw [hc] at h; simp [cutItem] at h
        | some x =>
          obtain ⟨wc, mm⟩ := x
          rw [hc] at h
          simp only [cutItem, List.mem_singleton] at h
          subst h
          obtain ⟨_, _, _, hcc⟩ := hsp.cutFacts w14 mm hc
          apply hnw
          simpa [isMp, hc14] using hcc
      · exfalso
        apply hnw
        have := hsp.goneCls w14 h
        simpa [sItemOf, hk14, goneCls, isMp, hc14] using this
    cases hf : firstOf kept 14 with
    | none =>
      exfalso
      unfold firstOf at hf
      rw [List.find?_eq_none] at hf
      exact hf w14 hin (by simp [hc14])
    | some w =>
      obtain ⟨hwc, hwk⟩ := firstOf_code hf
      obtain ⟨hk, hdat⟩ := hkept14 w hwk hwc
      obtain ⟨m', hm', horig⟩ := (hfacts w (hmem w hwk)).mpr hk hwc
      rw [hm] at hm'; injection hm' with hm'; subst hm'
      exact ⟨w, rfl, hdat.trans horig⟩

/-- the MP_UNREACH_NLRI the loop hands on is the one rendered from `u.mpu` (or none) -/
theorem nonweak_mpu {c : Codec} {u : CUpdate} {cs : List Corr} {kept removed : List WItem}
    {cut : Option (WItem × Nat)}
    (hst : structOk c u cs = true) (hsp : Split c u cs kept cut removed) (hnw : Cls.weak ∉ allClasses c u cs) :
    (u.mpu = none → firstOf kept 15 = none) ∧
    (∀ m, u.mpu = some m → ∃ w, firstOf kept 15 = some w ∧ w.data = (mpuAttr c m).data) := by
  obtain ⟨hfacts, hfo, hdo⟩ := struct_items hst
  obtain ⟨_, hpres, homit, _, hiff⟩ := struct_mp hst
  have hmem : ∀ w ∈ kept, w ∈ blockItems c u cs := by
    intro w hw; rw [hsp.items]; simp [hw]
  -- every kept item of type 15 is the attribute of `u`, untouched
  have hkeptU : ∀ w ∈ kept, w.code = 15 → w.kind = 0 ∧ w.data = w.origData := by
    intro w hw hc
    have hf := hfacts w (hmem w hw)
    have hcls := hsp.keptCls w hw
    have hk : w.kind = 0 := by
      have := hf.kind
      rcases Nat.lt_or_ge w.kind 1 with h0 | h1
      · omega
      · exfalso
        rcases Nat.lt_or_ge w.kind 2 with h1' | h2
        · have hk1 : w.kind = 1 := by omega
          apply hnw; apply hcls
          unfold itemCls
          simp [hk1, isMp, hc]
        · have hk2 : w.kind = 2 := by omega
          have := hf.k2 hk2
          rw [hc] at this
          simp [attrClass] at this
    refine ⟨hk, ?_⟩
    cases hd : (w.data != w.origData) with
    | false => simpa using hd
    | true =>
      exfalso
      apply hnw; apply hcls
      unfold itemCls
      simp [hk, isMp, hc, hd]
  constructor
  · intro hnone
    unfold firstOf
    rw [List.find?_eq_none]
    intro w hw hc
    have hc' : w.code = 15 := by simpa using hc
    obtain ⟨hk, _⟩ := hkeptU w hw hc'
    obtain ⟨m, hm, _⟩ := (hfacts w (hmem w hw)).mpu hk hc'
    rw [hnone] at hm; cases hm
  · intro m hm
    -- the attribute is in `u`; it was not omitted (that would be `weak`), so it is on the wire
    have hany : (idxFrom 0 (baseAttrs c u)).any (fun (_, o) => o.code == 15) = true := by
      rw [← hiff, hm]; rfl
    simp only [List.any_eq_true, beq_iff_eq] at hany
    obtain ⟨⟨i, o⟩, hio, hoc⟩ := hany
    simp only at hoc
    have hpr : (effAttr cs i o).present = true := by
      cases hp : (effAttr cs i o).present with
      | true => rfl
      | false => exact absurd (omitted_weak hio hp (by simp [isMp, hoc])) hnw
    obtain ⟨w15, hw15, hk15, hc15⟩ := hpres (by
      simp only [List.any_eq_true, Bool.and_eq_true, beq_iff_eq]
      exact ⟨(i, o), hio, hoc, hpr⟩)
    -- it is among the kept items
    have hin : w15 ∈ kept := by
      rw [hsp.items] at hw15
      simp only [List.mem_append] at hw15
      rcases hw15 with (h | h) | h
      · exact h
      · exfalso
        cases hc : cut with
        | none => rw [hc] at h; simp [cutItem] at h
        | some x =>
          obtain ⟨wc, mm⟩ := x
          rw [hc] at h
          simp only [cutItem, List.mem_singleton] at h
          subst h
          obtain ⟨_, _, _, hcc⟩ := hsp.cutFacts w15 mm hc
          apply hnw
          simpa [isMp, hc15] using hcc
      · exfalso
        apply hnw
        have := hsp.goneCls w15 h
        simpa [sItemOf, hk15, goneCls, isMp, hc15] using this
    cases hf : firstOf kept 15 with
    | none =>
      exfalso
      unfold firstOf at hf
      rw [List.find?_eq_none] at hf
      exact hf w15 hin (by simp [hc15])
    | some w =>
      obtain ⟨hwc, hwk⟩ := firstOf_code hf
      obtain ⟨hk, hdat⟩ := hkeptU w hwk hwc
      obtain ⟨m', hm', horig⟩ := (hfacts w (hmem w hwk)).mpu hk hwc
      rw [hm] at hm'; injection hm' with hm'; subst hm'
      exact ⟨w, rfl, hdat.trans horig⟩


/-! ## the parse result of a case without the `weak` class -/

def expReach (u : CUpdate) (nh : Option Bytes) : Option Reach :=
  if (u.nlri.map (padAddr · 4)).isEmpty then none else some ⟨FAM_IPV4, nh, u.nlri.map (padAddr · 4)⟩

def expUnreach (u : CUpdate) : Option Unreach :=
  if (u.wd.map (padAddr · 4)).isEmpty then none else some ⟨FAM_IPV4, u.wd.map (padAddr · 4)⟩

def expMpReach (u : CUpdate) : Option Reach :=
  match u.mpr with
  | some m => some ⟨famKey m.afi m.safi, nhFromBytes m.nh, m.nlri.map (padAddr · (if m.afi = 2 then 16 else 4))⟩
  | none => none

def expMpUnreach (u : CUpdate) : Option Unreach :=
  match u.mpu with
  | some m => some ⟨famKey m.afi m.safi, m.nlri.map (padAddr · (if m.afi = 2 then 16 else 4))⟩
  | none => none

theorem famBits_div {afi bits : Nat} (h : famBits afi = some bits) : bits / 8 = if afi = 2 then 16 else 4 := by
  unfold famBits at h
  split at h
  · rename_i h1; injection h with h; subst h; subst h1; rfl
  · split at h
    · rename_i h2; injection h with h; subst h; subst h2; rfl
    · cases h

theorem wfMpr_facts {c : Codec} {u : CUpdate} {m : CMpReach} (h : wfMpr c u = true) (hm : u.mpr = some m) :
    ∃ bits ap, famBits m.afi = some bits ∧ (m.safi = 1 ∨ m.safi = 2) ∧
      negotiated c (famKey m.afi m.safi) = some ap ∧ (∀ p ∈ m.nlri, pfxOk bits ap p = true) ∧ m.nlri ≠ [] ∧
      (m.nh.length = 4 ∨ m.nh.length = 16 ∨ m.nh.length = 32) := by
  unfold wfMpr at h
  rw [hm] at h
  simp only [Bool.and_eq_true, decide_eq_true_eq] at h
  obtain ⟨⟨hs1, hs2⟩, h⟩ := h
  cases hb : famBits m.afi with
  | none => simp [hb] at h
  | some bits =>
    cases hn : negotiated c (famKey m.afi m.safi) with
    | none => simp [hb, hn] at h
    | some ap =>
      simp only [hb, hn, Bool.and_eq_true, List.all_eq_true, Bool.not_eq_true', List.isEmpty_eq_false_iff] at h
      obtain ⟨⟨hall, hne⟩, hnh⟩ := h
      refine ⟨bits, ap, rfl, by omega, rfl, hall, hne, ?_⟩
      split at hnh
      · simp only [Bool.or_eq_true, beq_iff_eq] at hnh; omega
      · simp only [Bool.or_eq_true, beq_iff_eq] at hnh; omega

theorem wfMpu_facts {c : Codec} {u : CUpdate} {m : CMpUnreach} (h : wfMpu c u = true) (hm : u.mpu = some m) :
    ∃ bits ap, famBits m.afi = some bits ∧ (m.safi = 1 ∨ m.safi = 2) ∧
      negotiated c (famKey m.afi m.safi) = some ap ∧ (∀ p ∈ m.nlri, pfxOk bits ap p = true) ∧ m.nlri ≠ [] := by
  unfold wfMpu at h
  rw [hm] at h
  simp only [Bool.and_eq_true, decide_eq_true_eq] at h
  obtain ⟨⟨hs1, hs2⟩, h⟩ := h
  cases hb : famBits m.afi with
  | none => simp [hb] at h
  | some bits =>
    cases hn : negotiated c (famKey m.afi m.safi) with
    | none => simp [hb, hn] at h
    | some ap =>
      simp only [hb, hn, Bool.and_eq_true, List.all_eq_true, Bool.not_eq_true', List.isEmpty_eq_false_iff] at h
      exact ⟨bits, ap, rfl, by omega, rfl, h.1, h.2⟩

theorem nlri_pristine {c : Codec} {u : CUpdate} {cs : List Corr} (hnw : Cls.weak ∉ allClasses c u cs) :
    legacyNlriBytes c u cs = pfxsBytes (c.ap FAM_IPV4) u.nlri := by
  unfold legacyNlriBytes
  cases hb : nlriBad cs with
  | none => rfl
  | some m =>
    cases hn : u.nlri with
    | nil => simp [pfxsBytes]
    | cons q qs =>
      exfalso; apply hnw
      unfold allClasses
      simp [hb, hn]

theorem pfxsBytes_pos {ap : Bool} {l : List CPfx} (h : l ≠ []) : 0 < (pfxsBytes ap l).length := by
  cases l with
  | nil => exact absurd rfl h
  | cons q qs => simp [pfxsBytes, pfxBytes]; omega

/-- a case without the `weak` class parses into exactly the announced and withdrawn prefixes of `u`, with the
    attributes and error records that the loop invariant describes -/
theorem nonweak_parse {dec : HypDec} (hd : dec.NP) {p : Profile} {c : Codec} {u : CUpdate} {cs : List Corr}
    {kept removed : List WItem} {cut : Option (WItem × Nat)} {buf : Bytes} (hdr : Notif)
    (hwf : wfCase c u cs = true) (hsp : Split c u cs kept cut removed) (hnw : Cls.weak ∉ allClasses c u cs)
    (hl : Layout c u cs buf) (hlen : buf.length = totalLen c u cs) :
    ∃ s1 s' attrs, PInv c.two kept s1 ∧
      s'.errs = s1.errs ∧ s'.seen = s1.seen ∧
      ((s'.trunc = true ∨ s'.pos ≠ 23 + (wdB c u).length + (blockBytes c u cs).length) ↔ cut ≠ none) ∧
      parseUpdateWith updateLens dec p c buf hdr =
        .ok (.update (expReach u s1.nexthop) (expMpReach u) (expUnreach u) (expMpUnreach u) attrs
          (finalErrs s' (legacyNlriBytes c u cs).length (23 + (wdB c u).length + (blockBytes c u cs).length))) ∧
      (∀ a ∈ attrs, ∃ b ∈ s1.attrs, b.code = a.code) ∧
      (∀ a ∈ attrs, a.code ≠ 2 → a.code ≠ 7 → a ∈ s1.attrs) := by
  obtain ⟨hwl, hwmpr, hwmpu, hwattrs, hwcorr, hsize, hst, hoct⟩ := wf_parts hwf
  obtain ⟨hwd, hnl⟩ := wfLegacy_wd hwl
  have ht : totalLen c u cs = 23 + (wdB c u).length + (blockBytes c u cs).length + (legacyNlriBytes c u cs).length := rfl
  have hm := maxLen_le c
  have hrl := render_length c u cs
  have hmax : totalLen c u cs < 65536 := by omega
  obtain ⟨s1, s', hi, hloop, hfin⟩ := nonweak_loop hst hsp hnw hl hlen
  have hpr := nlri_pristine hnw
  obtain ⟨hmpr_none, hmpr_some⟩ := nonweak_mpr hst hsp hnw
  obtain ⟨hmpu_none, hmpu_some⟩ := nonweak_mpu hst hsp hnw
  -- fields of s' in terms of s1
  have hs'f : s'.errs = s1.errs ∧ s'.seen = s1.seen ∧ s'.attrs = s1.attrs ∧ s'.mpReach = s1.mpReach ∧
      s'.mpUnreach = s1.mpUnreach ∧ s'.nexthop = s1.nexthop := by
    rcases hfin with ⟨_, h1, _⟩ | ⟨_, p', hp'⟩
    · subst h1; exact ⟨rfl, rfl, rfl, rfl, rfl, rfl⟩
    · subst hp'; exact ⟨rfl, rfl, rfl, rfl, rfl, rfl⟩
  obtain ⟨he, hse, hat, hmr, hmu, hnh⟩ := hs'f
  have htrunc : (s'.trunc = true ∨ s'.pos ≠ 23 + (wdB c u).length + (blockBytes c u cs).length) ↔ cut ≠ none := by
    rcases hfin with ⟨h0, h1, h2⟩ | ⟨h0, p', hp'⟩
    · subst h1
      constructor
      · rintro (h | h)
        · rw [hi.notrunc] at h; cases h
        · exact absurd h2 h
      · intro h; exact absurd h0 h
    · subst hp'
      exact ⟨fun _ => h0, fun _ => Or.inl rfl⟩
  -- the MP attributes handed on
  have hmpReach : mpReachOf dec c s'.mpReach = .ok (match u.mpr with
      | some m => some (famKey m.afi m.safi, m.nlri.map (padAddr · (if m.afi = 2 then 16 else 4)), nhFromBytes m.nh)
      | none => none) := by
    rw [hmr, hi.mpr]
    cases hu : u.mpr with
    | none => rw [hmpr_none hu]; rfl
    | some m =>
      obtain ⟨w, hw, hdat⟩ := hmpr_some m hu
      obtain ⟨bits, ap, hb, hs, hneg, hok, _, hnhl⟩ := wfMpr_facts hwmpr hu
      rw [hw]
      simp only [Option.map_some, mpReachOf, hdat]
      rw [parseMpReach_render hb hs hneg hok hnhl, famBits_div hb]
      rfl
  have hmpUnreach : mpUnreachOf dec c s'.mpUnreach = .ok (match u.mpu with
      | some m => some (famKey m.afi m.safi, m.nlri.map (padAddr · (if m.afi = 2 then 16 else 4)))
      | none => none) := by
    rw [hmu, hi.mpu]
    cases hu : u.mpu with
    | none => rw [hmpu_none hu]; rfl
    | some m =>
      obtain ⟨w, hw, hdat⟩ := hmpu_some m hu
      obtain ⟨bits, ap, hb, hs, hneg, hok, _⟩ := wfMpu_facts hwmpu hu
      rw [hw]
      simp only [Option.map_some, mpUnreachOf, hdat]
      rw [parseMpUnreach_render hb hs hneg hok, famBits_div hb]
      rfl
  -- AS4 reconciliation succeeds on what the loop kept
  have hattrsOK : AttrsOK s'.attrs :=
    (attrLoop_spec c.two buf _ (by omega) (buf.length + 1) { pos := 23 + (wdB c u).length }
      (by intro a ha; simp at ha) (by simp only; omega)).2 s' hloop
  -- the message is not an End-of-RIB
  have hnotEor : ¬ ((legacyNlriBytes c u cs).length = 0 ∧ (blockBytes c u cs).length = 0 ∧ (wdB c u).length = 0) := by
    rintro ⟨h1, h2, h3⟩
    simp only [wfAttrs, Bool.and_eq_true, Bool.or_eq_true, Bool.not_eq_true', announcesU, List.isEmpty_eq_false_iff,
      List.isEmpty_iff] at hwattrs
    have hlast := hwattrs.2
    have hwd0 : u.wd = [] := by
      cases hu : u.wd with
      | nil => rfl
      | cons q qs => have := pfxsBytes_pos (ap := c.ap FAM_IPV4) (l := u.wd) (by simp [hu]); unfold wdB at h3; omega
    have hnl0 : u.nlri = [] := by
      cases hu : u.nlri with
      | nil => rfl
      | cons q qs =>
        have := pfxsBytes_pos (ap := c.ap FAM_IPV4) (l := u.nlri) (by simp [hu]); rw [hpr] at h1; omega
    have hblk : kept = [] := by
      have := hsp.bytes
      cases hk : kept with
      | nil => rfl
      | cons w ws =>
        exfalso
        rw [hk] at this
        have hl3 : 3 ≤ (renderItem w).length := by rw [renderItem_length]; unfold hdrLen; split <;> omega
        have : (blockBytes c u cs).length ≥ 3 := by rw [this]; simp; omega
        omega
    rcases hlast with (h | h) | h
    · rcases h with h | h
      · exact h hnl0
      · cases hu : u.mpr with
        | none => simp [hu] at h
        | some m =>
          obtain ⟨w, hw, _⟩ := hmpr_some m hu
          rw [hblk] at hw; simp [firstOf] at hw
    · exact h hwd0
    · cases hu : u.mpu with
      | none => simp [hu] at h
      | some m =>
        obtain ⟨w, hw, _⟩ := hmpu_some m hu
        rw [hblk] at hw; simp [firstOf] at hw
  -- run the parser
  have hlens := updateLens_layout hl hlen hmax
  have hsub : subU64 p buf.length (23 + (wdB c u).length + (blockBytes c u cs).length) =
      .ok (legacyNlriBytes c u cs).length := by
    unfold subU64; rw [if_pos (by omega)]; congr 1; omega
  have hreach := legacyReach_render (dec := dec) hl hlen hpr hnl
  have hunreach := legacyUnreach_render (dec := dec) hl hlen hwd
  -- AS4 reconciliation / attributes
  have hrec : ∃ attrs, (if c.two = true then reconcileAs4 s'.attrs else Out.ok s'.attrs) = .ok attrs ∧
      (∀ a ∈ attrs, ∃ b ∈ s1.attrs, b.code = a.code) ∧ (∀ a ∈ attrs, a.code ≠ 2 → a.code ≠ 7 → a ∈ s1.attrs) := by
    cases htwo : c.two with
    | false =>
      refine ⟨s'.attrs, by simp, ?_, ?_⟩
      · intro a ha; exact ⟨a, hat ▸ ha, rfl⟩
      · intro a ha _ _; exact hat ▸ ha
    | true =>
      obtain ⟨l', hl'⟩ := ok_of_NP_NE (reconcileAs4_NP hattrsOK) (reconcileAs4_NE s'.attrs)
      refine ⟨l', by simp [hl'], ?_, ?_⟩
      · intro a ha
        obtain ⟨b, hb, hc⟩ := reconcileAs4_codes hl' a ha
        exact ⟨b, hat ▸ hb, hc⟩
      · intro a ha h2 h7; exact hat ▸ reconcileAs4_keeps hl' a ha h2 h7
  obtain ⟨attrs, hrec, hcodes, hkeeps⟩ := hrec
  refine ⟨s1, s', attrs, hi, he, hse, htrunc, ?_, hcodes, hkeeps⟩
  unfold parseUpdateWith
  rw [if_neg (by omega), hlens]
  simp only [Out.bind_ok]
  rw [hsub]
  simp only [Out.bind_ok]
  rw [hloop]
  simp only [Out.bind_ok]
  rw [if_neg hnotEor, hreach, hunreach]
  simp only [Out.bind_ok]
  rw [hmpReach, hmpUnreach]
  simp only [Out.bind_ok]
  -- assemble
  unfold assemble
  have heor : eorFamily s'.attrs
      (finalErrs s' (legacyNlriBytes c u cs).length (23 + (wdB c u).length + (blockBytes c u cs).length))
      (u.nlri.map (padAddr · 4)) (u.wd.map (padAddr · 4))
      (match u.mpr with
        | some m => some (famKey m.afi m.safi, m.nlri.map (padAddr · (if m.afi = 2 then 16 else 4)), nhFromBytes m.nh)
        | none => none)
      (match u.mpu with
        | some m => some (famKey m.afi m.safi, m.nlri.map (padAddr · (if m.afi = 2 then 16 else 4)))
        | none => none) = none := by
    unfold eorFamily
    cases hu : u.mpu with
    | none => rfl
    | some m =>
      obtain ⟨_, _, _, _, _, _, hne⟩ := wfMpu_facts hwmpu hu
      have : (m.nlri.map (padAddr · (if m.afi = 2 then 16 else 4))).isEmpty = false := by
        cases hm' : m.nlri with
        | nil => exact absurd hm' hne
        | cons _ _ => rfl
      simp [this]
  rw [heor]
  simp only
  cases htwo : c.two with
  | false =>
    rw [htwo] at hrec
    simp only [Bool.false_eq_true, if_false] at hrec
    injection hrec with hrec
    subst hrec
    simp only [Bool.false_eq_true, if_false, Out.bind_ok, hnh]
    congr 2
    · cases hu : u.mpr with
      | none => simp [expMpReach, hu]
      | some m =>
        obtain ⟨_, _, _, _, _, _, hne, _⟩ := wfMpr_facts hwmpr hu
        have : (m.nlri.map (padAddr · (if m.afi = 2 then 16 else 4))).isEmpty = false := by
          cases hm' : m.nlri with
          | nil => exact absurd hm' hne
          | cons _ _ => rfl
        simp [expMpReach, hu, this]
    · cases hu : u.mpu with
      | none => simp [expMpUnreach, hu]
      | some m =>
        obtain ⟨_, _, _, _, _, _, hne⟩ := wfMpu_facts hwmpu hu
        have : (m.nlri.map (padAddr · (if m.afi = 2 then 16 else 4))).isEmpty = false := by
          cases hm' : m.nlri with
          | nil => exact absurd hm' hne
          | cons _ _ => rfl
        simp [expMpUnreach, hu, this]
  | true =>
    rw [htwo] at hrec
    simp only [if_true] at hrec
    simp only [if_true, hrec, Out.bind_ok, hnh]
    congr 2
    · cases hu : u.mpr with
      | none => simp [expMpReach, hu]
      | some m =>
        obtain ⟨_, _, _, _, _, _, hne, _⟩ := wfMpr_facts hwmpr hu
        have : (m.nlri.map (padAddr · (if m.afi = 2 then 16 else 4))).isEmpty = false := by
          cases hm' : m.nlri with
          | nil => exact absurd hm' hne
          | cons _ _ => rfl
        simp [expMpReach, hu, this]
    · cases hu : u.mpu with
      | none => simp [expMpUnreach, hu]
      | some m =>
        obtain ⟨_, _, _, _, _, _, hne⟩ := wfMpu_facts hwmpu hu
        have : (m.nlri.map (padAddr · (if m.afi = 2 then 16 else 4))).isEmpty = false := by
          cases hm' : m.nlri with
          | nil => exact absurd hm' hne
          | cons _ _ => rfl
        simp [expMpUnreach, hu, this]

/-! ## class analysis -/

theorem kept_first {c : Codec} {u : CUpdate} {cs : List Corr} {kept removed : List WItem}
    {cut : Option (WItem × Nat)} (hst : structOk c u cs = true) (hsp : Split c u cs kept cut removed)
    {w : WItem} (hw : w ∈ kept) (hk : w.kind ≠ 1) : firstOf kept w.code = some w := by
  obtain ⟨_, hfo, _⟩ := struct_items hst
  obtain ⟨pre, post, hkp⟩ := List.append_of_mem hw
  have hitems : blockItems c u cs = pre ++ w :: (post ++ (cutItem cut ++ removed)) := by
    rw [hsp.items, hkp]; simp
  exact firstOf_of_first hkp (firstOcc_split _ _ hfo pre w _ hitems hk).1

theorem removed_not_kept {c : Codec} {u : CUpdate} {cs : List Corr} {kept removed : List WItem}
    {cut : Option (WItem × Nat)} (hst : structOk c u cs = true) (hsp : Split c u cs kept cut removed)
    {w : WItem} (hw : w ∈ removed) (hk : w.kind ≠ 1) : ∀ x ∈ kept, x.code ≠ w.code := by
  obtain ⟨_, hfo, _⟩ := struct_items hst
  obtain ⟨pre, post, hkp⟩ := List.append_of_mem hw
  have hitems : blockItems c u cs = (kept ++ cutItem cut ++ pre) ++ w :: post := by
    rw [hsp.items, hkp]; simp
  intro x hx
  exact (firstOcc_split _ _ hfo _ w _ hitems hk).1 x (by simp [hx])

theorem finalErrs_sub {s : AState} {r a : Nat} {e : Nat × Nat} (h : e ∈ s.errs) : e ∈ finalErrs s r a := by
  unfold finalErrs
  simp only
  repeat' split
  all_goals simp [h]

theorem finalErrs_trunc {s : AState} {r a : Nat} (h : s.trunc = true ∨ s.pos ≠ a) : (0, 0) ∈ finalErrs s r a := by
  unfold finalErrs
  simp only
  rw [if_pos h]
  simp

theorem tawDecision_of_err {reach mpReach : Option Reach} {attrs : List Attr} {errs : List (Nat × Nat)}
    {e : Nat × Nat} (he : e ∈ errs) (ht : errIsTaw e = true) : tawDecision reach mpReach attrs errs = true := by
  unfold tawDecision
  simp only [Bool.or_eq_true, List.any_eq_true]
  exact Or.inr ⟨e, he, ht⟩

theorem high_bit : ∀ flags, flags < 256 → (flags / 128 % 2 == 0) = true → flags &&& 0x80 = 0 := by
  decide +kernel

/-- what the parser produced for a case without the `weak` class (the facts of `nonweak_parse`) -/
structure Ctx (c : Codec) (u : CUpdate) (cs : List Corr) (kept removed : List WItem) (cut : Option (WItem × Nat))
    (s1 s' : AState) (attrs : List Attr) (attrEnd : Nat) : Prop where
  wf : wfCase c u cs = true
  sp : Split c u cs kept cut removed
  nw : Cls.weak ∉ allClasses c u cs
  inv : PInv c.two kept s1
  errs : s'.errs = s1.errs
  trunc : (s'.trunc = true ∨ s'.pos ≠ attrEnd) ↔ cut ≠ none
  codes : ∀ a ∈ attrs, ∃ b ∈ s1.attrs, b.code = a.code
  keeps : ∀ a ∈ attrs, a.code ≠ 2 → a.code ≠ 7 → a ∈ s1.attrs

section
variable {c : Codec} {u : CUpdate} {cs : List Corr} {kept removed : List WItem} {cut : Option (WItem × Nat)}
  {s1 s' : AState} {attrs : List Attr} {attrEnd : Nat}

theorem Ctx.st (h : Ctx c u cs kept removed cut s1 s' attrs attrEnd) : structOk c u cs = true :=
  (wf_parts h.wf).2.2.2.2.2.2.1

theorem Ctx.facts (h : Ctx c u cs kept removed cut s1 s' attrs attrEnd) {w : WItem} (hw : w ∈ kept) :
    ItemFacts c u w :=
  (struct_items h.st).1 w (by rw [h.sp.items]; simp [hw])

theorem Ctx.attr_kept (h : Ctx c u cs kept removed cut s1 s' attrs attrEnd) {a : Attr} (ha : a ∈ attrs) :
    ∃ w ∈ kept, w.code = a.code := by
  obtain ⟨b, hb, hc⟩ := h.codes a ha
  obtain ⟨w, hw, _⟩ := h.inv.attrs b hb
  obtain ⟨h1, h2⟩ := firstOf_code hw
  exact ⟨w, h2, h1.trans hc⟩

/-- an item recorded as an attribute error that calls for treat-as-withdraw -/
theorem Ctx.flagged_taw (h : Ctx c u cs kept removed cut s1 s' attrs attrEnd) {w : WItem} (hw : w ∈ kept)
    (hk : w.kind ≠ 1) (hf : Flagged c.two w) (ht : errIsTaw (w.code, w.flags) = true) (reach mpReach : Option Reach)
    (r : Nat) : tawDecision reach mpReach attrs (finalErrs s' r attrEnd) = true := by
  have h1 := kept_first h.st h.sp hw hk
  have h2 := h.inv.errs w w.code h1 hf
  exact tawDecision_of_err (finalErrs_sub (by rw [h.errs]; exact h2)) ht

theorem Ctx.cut_taw (h : Ctx c u cs kept removed cut s1 s' attrs attrEnd) (hc : cut ≠ none)
    (reach mpReach : Option Reach) (r : Nat) : tawDecision reach mpReach attrs (finalErrs s' r attrEnd) = true :=
  tawDecision_of_err (finalErrs_trunc (h.trunc.mpr hc)) (by decide)

theorem conflict_of_mismatch {w : WItem} (hf : w.flags < 256) {cls : Bool × Bool} (hc : attrClass w.code = some cls)
    (hm : some (flagBits w.flags) ≠ attrClass w.code) : conflictW w = true := by
  have := flags_conflict_table w.code w.flags hf
  rw [hc] at this
  have hne : (flagBits w.flags != cls) = true := by
    simp only [bne_iff_ne, ne_eq]
    intro heq; apply hm; rw [hc, heq]
  unfold conflictW
  cases hcf : canonicalFlags w.code with
  | none => rw [hcf] at this; simp only at this; rw [hne] at this; cases this
  | some cf => rw [hcf] at this; simp only at this ⊢; rw [this, hne]

theorem errIsTaw_of_conflict {w : WItem} (h : conflictW w = true) : errIsTaw (w.code, w.flags) = true := by
  unfold conflictW at h
  unfold errIsTaw
  cases hcf : canonicalFlags w.code with
  | none => rw [hcf] at h; cases h
  | some cf => rw [hcf] at h; simp only at h ⊢; simp only [hcf, h, Bool.true_or]

theorem canonical_some {code : Nat} {cls : Bool × Bool} (h : attrClass code = some cls) :
    (canonicalFlags code).isSome = true := by
  have := canonical_table code
  rw [h] at this
  cases hc : canonicalFlags code with
  | none => rw [hc] at this; cases this
  | some _ => rfl

theorem canonical_none {code : Nat} (h : attrClass code = none) : canonicalFlags code = none := by
  have := canonical_table code
  rw [h] at this
  cases hc : canonicalFlags code with
  | none => rfl
  | some _ => rw [hc] at this; cases this

theorem known_of_class {code : Nat} {cls : Bool × Bool} (h : attrClass code = some cls) : code ∈ knownCodes := by
  by_cases hk : code ∈ knownCodes
  · exact hk
  · rw [attrClass_none_of_not_known hk] at h; cases h

theorem itemCls_cases {two : Bool} {w : WItem} {x : Cls} (hx : x ∈ itemCls two w) (hxw : x ≠ Cls.weak) :
    (w.kind = 0 ∧ isMp w.code = true ∧ some (flagBits w.flags) ≠ attrClass w.code ∧ x = Cls.tawOrReset) ∨
    (w.kind = 0 ∧ isMp w.code = false ∧ some (flagBits w.flags) ≠ attrClass w.code ∧ x = malformedCls w.code) ∨
    (w.kind = 0 ∧ isMp w.code = false ∧ validValue two w.code w.data = false ∧ x = malformedCls w.code) ∨
    (w.kind = 1 ∧ identityStored w.code = true ∧ w.data ≠ w.firstData ∧ x = Cls.dup w.code w.data) ∨
    (w.kind ≠ 0 ∧ w.kind ≠ 1 ∧ (w.flags / 128 % 2 == 0) = true ∧ x = Cls.taw) := by
  unfold itemCls at hx
  simp only [List.mem_append] at hx
  rcases hx with hx | hx
  · split at hx
    · simp only [List.mem_singleton] at hx; exact absurd hx hxw
    · cases hx
  · by_cases hk0 : w.kind = 0
    · rw [if_pos hk0] at hx
      by_cases hmp : isMp w.code = true
      · rw [if_pos hmp] at hx
        simp only [List.mem_append] at hx
        rcases hx with hx | hx
        · split at hx
          · simp only [List.mem_singleton] at hx; exact absurd hx hxw
          · cases hx
        · split at hx
          · rename_i hm
            simp only [List.mem_singleton] at hx
            exact Or.inl ⟨hk0, hmp, by simpa using hm, hx⟩
          · cases hx
      · rw [if_neg hmp] at hx
        simp only [List.mem_append] at hx
        rcases hx with hx | hx
        · split at hx
          · rename_i hm
            simp only [List.mem_singleton] at hx
            exact Or.inr (Or.inl ⟨hk0, by simpa using hmp, by simpa using hm, hx⟩)
          · cases hx
        · split at hx
          · rename_i hm
            simp only [List.mem_singleton] at hx
            exact Or.inr (Or.inr (Or.inl ⟨hk0, by simpa using hmp, by simpa using hm, hx⟩))
          · cases hx
    · rw [if_neg hk0] at hx
      by_cases hk1 : w.kind = 1
      · rw [if_pos hk1] at hx
        split at hx
        · simp only [List.mem_singleton] at hx; exact absurd hx hxw
        · split at hx
          · rename_i hm
            simp only [List.mem_singleton] at hx
            simp only [Bool.and_eq_true, bne_iff_ne, ne_eq] at hm
            exact Or.inr (Or.inr (Or.inr (Or.inl ⟨hk1, hm.1, hm.2, hx⟩)))
          · cases hx
      · rw [if_neg hk1] at hx
        split at hx
        · rename_i hm
          simp only [List.mem_singleton] at hx
          exact Or.inr (Or.inr (Or.inr (Or.inr ⟨hk0, hk1, hm, hx⟩)))
        · cases hx

theorem goneCls_cases {ann leg : Bool} {code : Nat} {x : Cls} (h : x = USpec.goneCls ann leg code)
    (hxw : x ≠ Cls.weak) (hxn : x ≠ Cls.none) :
    x = Cls.taw ∧ (((code = 1 ∨ code = 2) ∧ ann = true) ∨ (code = 3 ∧ leg = true)) := by
  unfold USpec.goneCls at h
  split at h
  · exact absurd h hxw
  · split at h
    · rename_i hc
      simp only [Bool.and_eq_true, Bool.or_eq_true, beq_iff_eq] at hc
      exact ⟨h, Or.inl hc⟩
    · split at h
      · rename_i hc
        simp only [Bool.and_eq_true, beq_iff_eq] at hc
        exact ⟨h, Or.inr hc⟩
      · exact absurd h hxn

theorem cutCls_cases {wc : WItem} {x : Cls} (h : x = cutCls wc) (hxw : x ≠ Cls.weak) :
    x = Cls.taw ∨ x = Cls.discardOrTaw wc.code := by
  unfold cutCls at h
  split at h
  · exact absurd h hxw
  · split at h
    · unfold malformedCls at h
      split at h
      · exact Or.inr h
      · exact Or.inl h
    · split at h
      · exact Or.inr h
      · exact Or.inl h

/-- a mandatory attribute that is not on the wire makes `validate_update` withdraw -/
theorem Ctx.gone_taw (h : Ctx c u cs kept removed cut s1 s' attrs attrEnd) {code : Nat}
    (hg : ((code = 1 ∨ code = 2) ∧ announcesU u = true) ∨ (code = 3 ∧ (!u.nlri.isEmpty) = true))
    (hno : ∀ x ∈ kept, x.code ≠ code) (errs : List (Nat × Nat)) :
    tawDecision (expReach u s1.nexthop) (expMpReach u) attrs errs = true := by
  unfold tawDecision
  simp only [Bool.or_eq_true]
  left
  have hnocode : hasCode attrs code = false := by
    unfold hasCode
    rw [List.any_eq_false]
    intro a ha hc
    obtain ⟨w, hw, hwc⟩ := h.attr_kept ha
    exact hno w hw (hwc.trans (by simpa using hc))
  unfold missingMandatory
  simp only [Bool.and_eq_true, Bool.or_eq_true, Bool.not_eq_true']
  rcases hg with ⟨hc, hann⟩ | ⟨hc, hleg⟩
  · constructor
    · unfold announcesU at hann
      simp only [Bool.or_eq_true, Bool.not_eq_true'] at hann
      rcases hann with hn | hm
      · left
        unfold expReach
        have : (u.nlri.map (padAddr · 4)).isEmpty = false := by
          cases hu : u.nlri with
          | nil => rw [hu] at hn; cases hn
          | cons _ _ => rfl
        simp [this]
      · right
        unfold expMpReach
        cases hu : u.mpr with
        | none => rw [hu] at hm; cases hm
        | some m => rfl
    · rcases hc with rfl | rfl
      · exact Or.inl (Or.inl (Or.inl hnocode))
      · exact Or.inl (Or.inl (Or.inr hnocode))
  · subst hc
    have hne : (u.nlri.map (padAddr · 4)).isEmpty = false := by
      cases hu : u.nlri with
      | nil => rw [hu] at hleg; cases hleg
      | cons _ _ => rfl
    have hnh : s1.nexthop.isNone = true := by
      cases hn : s1.nexthop with
      | none => rfl
      | some v =>
        exfalso
        have := h.inv.nh (by rw [hn]; rfl)
        cases hf : firstOf kept 3 with
        | none => rw [hf] at this; cases this
        | some w =>
          obtain ⟨h1, h2⟩ := firstOf_code hf
          exact hno w h2 h1
    constructor
    · left; unfold expReach; simp [hne]
    · left; right
      unfold expReach
      simp [hne, hnh]

/-- a class that demands treat-as-withdraw makes `validate_update` decide so -/
theorem Ctx.taw (h : Ctx c u cs kept removed cut s1 s' attrs attrEnd) {x : Cls} (hx : x ∈ allClasses c u cs)
    (ht : x = Cls.taw ∨ x = Cls.tawOrReset) (r : Nat) :
    tawDecision (expReach u s1.nexthop) (expMpReach u) attrs (finalErrs s' r attrEnd) = true := by
  have hxw : x ≠ Cls.weak := by rcases ht with rfl | rfl <;> simp
  have hxn : x ≠ Cls.none := by rcases ht with rfl | rfl <;> simp
  rcases h.sp.srcs x hx with ⟨i, o, hio, hpr, hg⟩ | hw | ⟨w, hw, hcls⟩ | ⟨w, hw, hg⟩ | ⟨wc, m, hc, _⟩
  · -- omitted
    obtain ⟨_, hcases⟩ := goneCls_cases hg hxw hxn
    obtain ⟨_, _, homit, _, _⟩ := struct_mp h.st
    refine h.gone_taw hcases ?_ _
    intro y hy
    exact homit i o hio hpr y (by rw [h.sp.items]; simp [hy])
  · exact absurd hw hxw
  · -- an item on the wire
    have hf := h.facts hw
    rcases itemCls_cases hcls hxw with ⟨hk, hmp, hm, _⟩ | ⟨hk, hmp, hm, _⟩ | ⟨hk, hmp, hv, hxm⟩ | ⟨_, _, _, hd⟩ | ⟨hk0, hk1, hfl, _⟩
    · cases hcl : attrClass w.code with
      | none => exact absurd hcl (hf.k0 hk)
      | some cls =>
        have hcw := conflict_of_mismatch hf.flags hcl hm
        exact h.flagged_taw hw (by omega) (Or.inl hcw) (errIsTaw_of_conflict hcw) _ _ _
    · cases hcl : attrClass w.code with
      | none => exact absurd hcl (hf.k0 hk)
      | some cls =>
        have hcw := conflict_of_mismatch hf.flags hcl hm
        exact h.flagged_taw hw (by omega) (Or.inl hcw) (errIsTaw_of_conflict hcw) _ _ _
    · cases hcl : attrClass w.code with
      | none => exact absurd hcl (hf.k0 hk)
      | some cls =>
        by_cases hcw : conflictW w = true
        · exact h.flagged_taw hw (by omega) (Or.inl hcw) (errIsTaw_of_conflict hcw) _ _ _
        · -- the value is malformed and the type is not discardable
          have hnd : discardable w.code = false := by
            cases hd : discardable w.code with
            | false => rfl
            | true =>
              exfalso
              rw [hxm] at ht
              unfold malformedCls at ht
              rw [if_pos hd] at ht
              rcases ht with ht | ht <;> cases ht
          have h1718 : w.code ≠ 17 ∧ w.code ≠ 18 := by
            unfold discardable at hnd
            simp only [Bool.or_eq_false_iff, beq_eq_false_iff_ne, ne_eq] at hnd
            exact ⟨hnd.1.2, hnd.2⟩
          have hdec : decodeW c.two w = none := invalid_decode_none (known_of_class hcl) hmp hv
          have hmust : errMustTaw (w.code, w.flags) = true := by
            unfold errMustTaw
            simp only [hcl, hnd, Bool.not_false]
          exact h.flagged_taw hw (by omega) (Or.inr (Or.inl ⟨canonical_some hcl, hdec, h1718.1, h1718.2⟩))
            (must_taw_table _ _ hf.flags hmust) _ _ _
    · rcases ht with rfl | rfl <;> cases hd
    · -- an unrecognised well-known attribute
      have hk2 : w.kind = 2 := by have := hf.kind; omega
      have hcl := hf.k2 hk2
      have hmust : errMustTaw (w.code, w.flags) = true := by
        unfold errMustTaw
        simp only [hcl, hfl]
      exact h.flagged_taw hw hk1 (Or.inr (Or.inr ⟨canonical_none hcl, high_bit _ hf.flags hfl⟩))
        (must_taw_table _ _ hf.flags hmust) _ _ _
  · -- an attribute lost to truncation
    by_cases hk : w.kind = 0
    · simp only [sItemOf, hk, if_true] at hg
      obtain ⟨_, hcases⟩ := goneCls_cases hg hxw hxn
      exact h.gone_taw hcases (removed_not_kept h.st h.sp hw (by omega)) _
    · simp only [sItemOf, hk, if_false] at hg
      exact absurd hg hxn
  · exact h.cut_taw (by rw [hc]; simp) _ _ _

theorem malformedCls_disc {code code' : Nat} (h : Cls.discardOrTaw code = malformedCls code') : code = code' := by
  unfold malformedCls at h
  split at h
  · injection h
  · cases h

/-- what the attribute vector holds for a type comes from the first item of that type -/
theorem Ctx.attr_first (h : Ctx c u cs kept removed cut s1 s' attrs attrEnd) {w : WItem} (hw : w ∈ kept)
    (hk : w.kind ≠ 1) {a : Attr} (ha : a ∈ s1.attrs) (hc : a.code = w.code) : Stores c.two w a := by
  obtain ⟨w0, hw0, hst⟩ := h.inv.attrs a ha
  have := kept_first h.st h.sp hw hk
  rw [hc, this] at hw0
  injection hw0 with hw0
  subst hw0
  exact hst

/-- a malformed attribute of a discardable type is not in the attribute vector (or the UPDATE is withdrawn) -/
theorem Ctx.disc (h : Ctx c u cs kept removed cut s1 s' attrs attrEnd) {code : Nat}
    (hx : Cls.discardOrTaw code ∈ allClasses c u cs) (r : Nat) :
    tawDecision (expReach u s1.nexthop) (expMpReach u) attrs (finalErrs s' r attrEnd) = true ∨
    ∀ a ∈ attrs, a.code ≠ code := by
  have hxw : Cls.discardOrTaw code ≠ Cls.weak := by simp
  have hxn : Cls.discardOrTaw code ≠ Cls.none := by simp
  rcases h.sp.srcs _ hx with ⟨i, o, hio, hpr, hg⟩ | hw | ⟨w, hw, hcls⟩ | ⟨w, hw, hg⟩ | ⟨wc, m, hc, _⟩
  · obtain ⟨h1, _⟩ := goneCls_cases hg hxw hxn
    cases h1
  · cases hw
  · right
    have hf := h.facts hw
    rcases itemCls_cases hcls hxw with ⟨_, _, _, hh⟩ | ⟨hk, hmp, hm, hxm⟩ | ⟨hk, hmp, hv, hxm⟩ | ⟨_, _, _, hh⟩ | ⟨_, _, _, hh⟩
    · cases hh
    · have hcode := malformedCls_disc hxm
      subst hcode
      intro a ha hac
      obtain ⟨b, hb, hbc⟩ := h.codes a ha
      have hst := h.attr_first hw (by omega) hb (hbc.trans hac)
      cases hcl : attrClass w.code with
      | none => exact absurd hcl (hf.k0 hk)
      | some cls =>
        have hcw := conflict_of_mismatch hf.flags hcl hm
        rcases hst.2.2 with ⟨_, h2, _⟩ | ⟨h2, _⟩
        · rw [hcw] at h2; cases h2
        · have := canonical_some hcl; rw [h2] at this; cases this
    · have hcode := malformedCls_disc hxm
      subst hcode
      intro a ha hac
      obtain ⟨b, hb, hbc⟩ := h.codes a ha
      have hst := h.attr_first hw (by omega) hb (hbc.trans hac)
      cases hcl : attrClass w.code with
      | none => exact absurd hcl (hf.k0 hk)
      | some cls =>
        have hdec : decodeW c.two w = none := invalid_decode_none (known_of_class hcl) hmp hv
        rcases hst.2.2 with ⟨_, _, h2⟩ | ⟨h2, _⟩
        · rw [hdec] at h2; cases h2
        · have := canonical_some hcl; rw [h2] at this; cases this
    · cases hh
    · cases hh
  · by_cases hk : w.kind = 0
    · simp only [sItemOf, hk, if_true] at hg
      obtain ⟨h1, _⟩ := goneCls_cases hg hxw hxn
      cases h1
    · simp only [sItemOf, hk, if_false] at hg
      cases hg
  · left
    exact h.cut_taw (by rw [hc]; simp) _ _ _

theorem identity_canonical : ∀ code ∈ [1, 4, 5, 9, 8, 10, 16, 32, 26], (canonicalFlags code).isSome = true ∧
    code ≠ 2 ∧ code ≠ 7 := by decide

/-- the second copy of an attribute is never what the route carries -/
theorem Ctx.dup (h : Ctx c u cs kept removed cut s1 s' attrs attrEnd) {code : Nat} {d : Bytes}
    (hx : Cls.dup code d ∈ allClasses c u cs) (attrs' : List Attr) (hsub : ∀ a ∈ attrs', a ∈ attrs) :
    believes attrs' code d = false := by
  have hxw : Cls.dup code d ≠ Cls.weak := by simp
  have hxn : Cls.dup code d ≠ Cls.none := by simp
  rcases h.sp.srcs _ hx with ⟨i, o, hio, hpr, hg⟩ | hw | ⟨w, hw, hcls⟩ | ⟨w, hw, hg⟩ | ⟨wc, m, hc, hcc⟩
  · obtain ⟨h1, _⟩ := goneCls_cases hg hxw hxn
    cases h1
  · cases hw
  · have hf := h.facts hw
    rcases itemCls_cases hcls hxw with ⟨_, _, _, hh⟩ | ⟨_, _, _, hh⟩ | ⟨_, _, _, hh⟩ | ⟨hk1, hid, hne, hh⟩ | ⟨_, _, _, hh⟩
    · cases hh
    · unfold malformedCls at hh; split at hh <;> cases hh
    · unfold malformedCls at hh; split at hh <;> cases hh
    · injection hh with hcode hd
      subst hcode; subst hd
      -- the first copy
      obtain ⟨_, _, hdo⟩ := struct_items h.st
      obtain ⟨pre, post, hkp⟩ := List.append_of_mem hw
      have hitems : blockItems c u cs = pre ++ w :: (post ++ (cutItem cut ++ removed)) := by
        rw [h.sp.items, hkp]; simp
      obtain ⟨p, hp, hpk, hpc, _, hpd⟩ := dupOk_split _ _ hdo pre w _ hitems hk1
      have hpin : p ∈ kept := by
        rcases hp with ⟨pre', hp⟩ | ⟨_, hp⟩
        · rw [hkp, hp]; simp
        · cases hp
      have hpf := h.facts hpin
      have hmem : w.code ∈ [1, 4, 5, 9, 8, 10, 16, 32, 26] := by
        simpa [identityStored] using hid
      obtain ⟨hcan, hn2, hn7⟩ := identity_canonical w.code hmem
      cases hb : believes attrs' w.code w.data with
      | false => rfl
      | true =>
        exfalso
        unfold believes at hb
        simp only [List.any_eq_true, Bool.and_eq_true, beq_iff_eq] at hb
        obtain ⟨a, ha, hac, hmatch⟩ := hb
        have ha1 : a ∈ s1.attrs := h.keeps a (hsub a ha) (by rw [hac]; exact hn2) (by rw [hac]; exact hn7)
        have hst := h.attr_first hpin hpk ha1 (hac.trans hpc.symm)
        have hdec : decodeW c.two p = some a.data := by
          rcases hst.2.2 with ⟨_, _, h2⟩ | ⟨h2, _⟩
          · exact h2
          · rw [hpc] at h2; rw [h2] at hcan; cases hcan
        unfold decodeW at hdec
        obtain ⟨hone, hoth⟩ := decode_identity (by rw [hpc]; exact hid) hdec
        apply hne
        rw [← hpd]
        by_cases h1 : w.code = 1
        · obtain ⟨v, hpv, hav⟩ := hone (hpc.trans h1)
          rw [hav] at hmatch
          simp only [h1, if_true, beq_iff_eq] at hmatch
          rw [hmatch, hpv]
        · rcases hoth (by rw [hpc]; exact h1) with hav | ⟨hl4, hav⟩
          · rw [hav] at hmatch
            simp only [beq_iff_eq] at hmatch
            exact hmatch.symm
          · rw [hav] at hmatch
            simp only [h1, if_false, Bool.and_eq_true, beq_iff_eq] at hmatch
            exact (be_inj4 hl4 hmatch.1 hpf.oct hf.oct hmatch.2).symm
    · cases hh
  · by_cases hk : w.kind = 0
    · simp only [sItemOf, hk, if_true] at hg
      obtain ⟨h1, _⟩ := goneCls_cases hg hxw hxn
      cases h1
    · simp only [sItemOf, hk, if_false] at hg
      cases hg
  · rcases cutCls_cases hcc hxw with hh | hh <;> cases hh

end
/-! ## attributes in front of framing damage (the `weak` cases) -/

theorem attrBody_errs_mono {two : Bool} {buf : Bytes} {s s' : AState} {flags code alen pos : Nat}
    (h : attrBody two buf s flags code alen pos = .ok s') : ∀ e ∈ s.errs, e ∈ s'.errs := by
  unfold attrBody at h
  split at h
  · split at h
    · cases h
    · injection h with h; subst h; exact fun e he => he
  · simp only at h
    split at h
    · rw [attrKnownW_eq] at h
      injection h with h; subst h
      intro e he
      unfold attrKnown
      simp only
      split
      · split <;> simp [he]
      · unfold attrDecoded
        split
        · rw [(attrStore_fields _ _ _).2.2.1]
          split <;> simp [he]
        · split <;> split <;> simp [he]
    · unfold attrUnknown at h
      split at h
      · injection h with h; subst h; intro e he; simp [he]
      · split at h
        · split at h
          · cases h
          · obtain ⟨raw, _, h⟩ := bind_eq_ok h
            injection h with h; subst h; exact fun e he => he
        · injection h with h; subst h; exact fun e he => he

theorem attrLoop_errs_mono {two : Bool} {buf : Bytes} {attrEnd : Nat} :
    ∀ fuel (s s' : AState), attrLoop two buf attrEnd fuel s = .ok s' → ∀ e ∈ s.errs, e ∈ s'.errs := by
  intro fuel
  induction fuel with
  | zero => intro s s' h; simp [attrLoop] at h
  | succ fuel ih =>
    intro s s' h
    unfold attrLoop at h
    split at h
    · obtain ⟨hd, _, h⟩ := bind_eq_ok h
      split at h
      · injection h with h; subst h; exact fun e he => he
      · split at h
        · injection h with h; subst h; exact fun e he => he
        · obtain ⟨s1, hb, h⟩ := bind_eq_ok h
          intro e he
          exact ih s1 s' h e (attrBody_errs_mono hb e he)
    · injection h with h; subst h; exact fun e he => he

/-- the attribute loop over well-framed items followed by ANY bytes: what the items leave in the error list stays -/
theorem attrLoop_prefix {two : Bool} {buf : Bytes} {attrEnd : Nat} {tail : Bytes} (hEnd : attrEnd ≤ buf.length) :
    ∀ (ws ps : List WItem) (pos : Nat) (s : AState) (fuel : Nat),
      (∀ w ∈ ws, ItemOK w) →
      buf.drop pos = ws.flatMap renderItem ++ tail →
      pos + (ws.flatMap renderItem).length ≤ attrEnd →
      s.pos = pos → PInv two ps s →
      ∀ s', attrLoop two buf attrEnd fuel s = .ok s' →
        ∃ s1, PInv two (ps ++ ws) s1 ∧ ∀ e ∈ s1.errs, e ∈ s'.errs := by
  intro ws
  induction ws with
  | nil =>
    intro ps pos s fuel _ _ _ _ hi s' h
    exact ⟨s, by simpa using hi, attrLoop_errs_mono fuel s s' h⟩
  | cons w rest ih =>
    intro ps pos s fuel hok hd hsum hs hi s' h
    have hw := hok w (by simp)
    have hrest : ∀ x ∈ rest, ItemOK x := fun x hx => hok x (List.mem_cons_of_mem _ hx)
    simp only [List.flatMap_cons, List.append_assoc, List.length_append] at hd hsum
    have hrl := renderItem_length w
    obtain ⟨hhdr, hdata⟩ := attrHeader_item (attrEnd := attrEnd) hw hd (by omega)
    have hwin : (buf.drop (pos + hdrLen w)).take w.data.length = w.data := by
      rw [hdata]; simp
    match fuel with
    | 0 => simp [attrLoop] at h
    | fuel + 1 =>
      unfold attrLoop at h
      have hh3 : 3 ≤ hdrLen w := by unfold hdrLen; split <;> omega
      rw [hs, if_pos (by omega), hhdr] at h
      simp only [Out.bind_ok] at h
      rw [if_neg (by omega)] at h
      obtain ⟨hberr, hbok⟩ := attrBody_pinv (two := two) (buf := buf) (pos := pos + hdrLen w) hi hwin (by omega)
      obtain ⟨s1, hb, h⟩ := bind_eq_ok h
      obtain ⟨hi1, hpos1⟩ := hbok s1 hb
      have hd' : buf.drop (pos + (renderItem w).length) = rest.flatMap renderItem ++ tail := by
        have := congrArg (List.drop (renderItem w).length) hd
        rw [List.drop_drop, drop_app _ _ _ rfl] at this
        exact this
      obtain ⟨s2, hi2, hm⟩ := ih (ps ++ [w]) (pos + (renderItem w).length) s1 fuel hrest hd' (by omega)
        (by rw [hpos1, hrl]; omega) hi1 s' h
      exact ⟨s2, by simpa [List.append_assoc] using hi2, hm⟩

/-- the sound prefix is a prefix of the items, lies inside the block, and none of its items is `weak` -/
theorem soundPrefix_spec (two : Bool) (L : Nat) : ∀ (items : List WItem) (used : Nat),
    ∃ rest, items = soundPrefix two L items used ++ rest ∧
      used + ((soundPrefix two L items used).flatMap renderItem).length ≤ max used L ∧
      ∀ w ∈ soundPrefix two L items used, Cls.weak ∉ itemCls two w := by
  intro items
  induction items with
  | nil => intro used; exact ⟨[], by simp [soundPrefix], by simp [soundPrefix]; omega, by simp [soundPrefix]⟩
  | cons w ws ih =>
    intro used
    unfold soundPrefix
    split
    · rename_i hc
      obtain ⟨rest, h1, h2, h3⟩ := ih (used + (renderItem w).length)
      refine ⟨rest, by rw [List.cons_append, ← h1], ?_, ?_⟩
      · simp only [List.flatMap_cons, List.length_append]
        have := hc.1
        omega
      · intro x hx
        simp only [List.mem_cons] at hx
        rcases hx with rfl | hx
        · simpa using hc.2
        · exact h3 x hx
    · exact ⟨w :: ws, by simp, by simp; omega, by simp⟩

/-- what a treat-as-withdraw class of an item says about the item (no `Ctx` needed) -/
theorem item_taw_flagged {c : Codec} {u : CUpdate} {two : Bool} {w : WItem} {x : Cls} (hf : ItemFacts c u w)
    (hcls : x ∈ itemCls two w) (ht : x = Cls.taw ∨ x = Cls.tawOrReset) :
    w.kind ≠ 1 ∧ Flagged two w ∧ errIsTaw (w.code, w.flags) = true := by
  have hxw : x ≠ Cls.weak := by rcases ht with rfl | rfl <;> simp
  rcases itemCls_cases hcls hxw with ⟨hk, hmp, hm, _⟩ | ⟨hk, hmp, hm, _⟩ | ⟨hk, hmp, hv, hxm⟩ | ⟨_, _, _, hd⟩ | ⟨hk0, hk1, hfl, _⟩
  · cases hcl : attrClass w.code with
    | none => exact absurd hcl (hf.k0 hk)
    | some cls =>
      have hcw := conflict_of_mismatch hf.flags hcl hm
      exact ⟨by omega, Or.inl hcw, errIsTaw_of_conflict hcw⟩
  · cases hcl : attrClass w.code with
    | none => exact absurd hcl (hf.k0 hk)
    | some cls =>
      have hcw := conflict_of_mismatch hf.flags hcl hm
      exact ⟨by omega, Or.inl hcw, errIsTaw_of_conflict hcw⟩
  · cases hcl : attrClass w.code with
    | none => exact absurd hcl (hf.k0 hk)
    | some cls =>
      by_cases hcw : conflictW w = true
      · exact ⟨by omega, Or.inl hcw, errIsTaw_of_conflict hcw⟩
      · have hnd : discardable w.code = false := by
          cases hd : discardable w.code with
          | false => rfl
          | true =>
            exfalso
            rw [hxm] at ht
            unfold malformedCls at ht
            rw [if_pos hd] at ht
            rcases ht with ht | ht <;> cases ht
        have h1718 : w.code ≠ 17 ∧ w.code ≠ 18 := by
          unfold discardable at hnd
          simp only [Bool.or_eq_false_iff, beq_eq_false_iff_ne, ne_eq] at hnd
          exact ⟨hnd.1.2, hnd.2⟩
        have hdec : decodeW two w = none := invalid_decode_none (known_of_class hcl) hmp hv
        have hmust : errMustTaw (w.code, w.flags) = true := by
          unfold errMustTaw
          simp only [hcl, hnd, Bool.not_false]
        exact ⟨by omega, Or.inr (Or.inl ⟨canonical_some hcl, hdec, h1718.1, h1718.2⟩),
          must_taw_table _ _ hf.flags hmust⟩
  · rcases ht with rfl | rfl <;> cases hd
  · have hk2 : w.kind = 2 := by have := hf.kind; omega
    have hcl := hf.k2 hk2
    have hmust : errMustTaw (w.code, w.flags) = true := by
      unfold errMustTaw
      simp only [hcl, hfl]
    exact ⟨hk1, Or.inr (Or.inr ⟨canonical_none hcl, high_bit _ hf.flags hfl⟩), must_taw_table _ _ hf.flags hmust⟩

/-- an attribute in front of the framing damage that demands treat-as-withdraw: no route is announced, however the
    rest of the block is framed -/
theorem weak_prefix_no_reach {dec : HypDec} {p : Profile} {c : Codec} {u : CUpdate} {cs : List Corr} {buf : Bytes}
    {hdr : Notif} {m : Msg} (ebgp : Bool)
    (hwf : wfCase c u cs = true) (hl : Layout c u cs buf) (hlen : buf.length = totalLen c u cs)
    (hp : prefixMustTaw c u cs = true)
    (h : parseUpdateWith updateLens dec p c buf hdr = .ok m) :
    reachMsgs (validateMessage ebgp m) = [] := by
  obtain ⟨_, _, _, _, _, hsize, hst, _⟩ := wf_parts hwf
  obtain ⟨hfacts, hfo, _⟩ := struct_items hst
  have ht : totalLen c u cs = 23 + (wdB c u).length + (blockBytes c u cs).length + (legacyNlriBytes c u cs).length := rfl
  have hmx := maxLen_le c
  have hrl := render_length c u cs
  have hlens := updateLens_layout hl hlen (by omega)
  -- the sound prefix and the item that demands treat-as-withdraw
  obtain ⟨rest, hitems, hinside, hnoweak⟩ :=
    soundPrefix_spec c.two (blockBytes c u cs).length (blockItems c u cs) 0
  generalize hpre : soundPrefix c.two (blockBytes c u cs).length (blockItems c u cs) 0 = pre at hitems hinside hnoweak
  unfold prefixMustTaw at hp
  rw [hpre] at hp
  simp only [List.any_eq_true, Bool.or_eq_true, beq_iff_eq] at hp
  obtain ⟨w, hwpre, x, hxcls, hxt⟩ := hp
  have hwitems : w ∈ blockItems c u cs := by rw [hitems]; simp [hwpre]
  obtain ⟨hk1, hflag, htaw⟩ := item_taw_flagged (hfacts w hwitems) hxcls hxt
  have hfirst : firstOf pre w.code = some w := by
    obtain ⟨p1, p2, hsplit⟩ := List.append_of_mem hwpre
    have : blockItems c u cs = p1 ++ w :: (p2 ++ rest) := by rw [hitems, hsplit]; simp
    exact firstOf_of_first hsplit (firstOcc_split _ _ hfo p1 w _ this hk1).1
  have hpreOK : ∀ y ∈ pre, ItemOK y := fun y hy =>
    itemOK_of_nonweak (hfacts y (by rw [hitems]; simp [hy])) (hnoweak y hy)
  -- the block starts with the rendered prefix
  have hplen : (pre.flatMap renderItem).length ≤ (blockBytes c u cs).length := by
    have := hinside; simp only [Nat.zero_add] at this; omega
  have hblock : ∃ t, blockBytes c u cs = pre.flatMap renderItem ++ t := by
    have hle : (blockBytes c u cs).length ≤
        ((blockItems c u cs).flatMap renderItem).length - truncTotal cs := by
      unfold blockBytes; exact List.length_take_le _ _
    have hn : (pre.flatMap renderItem).length ≤ ((blockItems c u cs).flatMap renderItem).length - truncTotal cs := by
      omega
    unfold blockBytes
    simp only
    rw [hitems] at hn ⊢
    simp only [List.flatMap_append] at hn ⊢
    refine ⟨(rest.flatMap renderItem).take
      ((pre.flatMap renderItem ++ rest.flatMap renderItem).length - truncTotal cs - (pre.flatMap renderItem).length), ?_⟩
    rw [List.take_append, List.take_of_length_le hn]
  obtain ⟨t, hblk⟩ := hblock
  have hd : buf.drop (23 + (wdB c u).length) = pre.flatMap renderItem ++ (t ++ legacyNlriBytes c u cs) := by
    rw [hl.dBlk, hblk, List.append_assoc]
  -- run the parser
  unfold parseUpdateWith at h
  rw [if_neg (by omega), hlens] at h
  simp only [Out.bind_ok] at h
  obtain ⟨reachLen, _, h⟩ := bind_eq_ok h
  obtain ⟨s', hloop, h⟩ := bind_eq_ok h
  obtain ⟨s1, hi1, hmono⟩ := attrLoop_prefix (two := c.two) (buf := buf)
    (attrEnd := 23 + (wdB c u).length + (blockBytes c u cs).length) (by omega) pre [] (23 + (wdB c u).length)
    { pos := 23 + (wdB c u).length } (buf.length + 1) hpreOK hd (by omega) rfl (PInv.init c.two _) s' hloop
  have herr1 : (w.code, w.flags) ∈ s1.errs := hi1.errs w w.code (by simpa using hfirst) hflag
  have herr' : (w.code, w.flags) ∈ s'.errs := hmono _ herr1
  split at h
  · injection h with h; subst h
    simp [validateMessage, reachMsgs]
  · obtain ⟨reach, _, h⟩ := bind_eq_ok h
    obtain ⟨unreach, _, h⟩ := bind_eq_ok h
    obtain ⟨mpr, _, h⟩ := bind_eq_ok h
    obtain ⟨mpu, _, h⟩ := bind_eq_ok h
    unfold assemble at h
    split at h
    · injection h with h; subst h
      simp [validateMessage, reachMsgs]
    · cases htwo : c.two with
      | false =>
        rw [htwo] at h
        simp only [Bool.false_eq_true, if_false, Out.bind_ok] at h
        injection h with h; subst h
        simp only [validateMessage]
        exact (validate_taw_no_reach (tawDecision_of_err (finalErrs_sub herr') htaw)).1
      | true =>
        rw [htwo] at h
        simp only [if_true] at h
        obtain ⟨attrs, _, h⟩ := bind_eq_ok h
        injection h with h; subst h
        simp only [validateMessage]
        exact (validate_taw_no_reach (tawDecision_of_err (finalErrs_sub herr') htaw)).1


/-! ## the checker's clauses -/

def annSets (u : CUpdate) : List (Nat × List PNlri) :=
  (FAM_IPV4, u.nlri.map (padAddr · 4)) ::
    (match u.mpr with
     | some m => [(famKey m.afi m.safi, m.nlri.map (padAddr · (if m.afi = 2 then 16 else 4)))]
     | none => [])

def wdSets (u : CUpdate) : List (Nat × List PNlri) :=
  match u.mpu with
  | some m => [(famKey m.afi m.safi, m.nlri.map (padAddr · (if m.afi = 2 then 16 else 4)))]
  | none => []

def setsWithdrawn (sets : List (Nat × List PNlri)) (msgs : List VMsg) : Bool :=
  sets.all fun x => allIn x.snd (withdrawnOut msgs x.fst)

def tawDone (u : CUpdate) (msgs : List VMsg) : Bool := (reachMsgs msgs).isEmpty && setsWithdrawn (annSets u) msgs

/-- sufficient conditions for the checker to accept a message list -/
theorem check_ok_msgs {c : Codec} {ebgp : Bool} {u : CUpdate} {cs : List Corr} {msgs : List VMsg}
    (hwf : wfCase c u cs = true)
    (h1 : (ebgp && (reachMsgs msgs).any
        (fun as => as.any fun a => a.code == 5 || a.code == 9 || a.code == 10)) = false)
    (h2 : allIn (u.wd.map (padAddr · 4)) (withdrawnOut msgs FAM_IPV4) = true)
    (h3 : Cls.weak ∉ allClasses c u cs →
      setsWithdrawn (wdSets u) msgs = true ∧
      ((Cls.taw ∈ allClasses c u cs ∨ Cls.tawOrReset ∈ allClasses c u cs) → tawDone u msgs = true) ∧
      (tawDone u msgs = true ∨
        ((∀ code, Cls.discardOrTaw code ∈ allClasses c u cs → ∀ as ∈ reachMsgs msgs, ∀ a ∈ as, a.code ≠ code) ∧
         (∀ code d, Cls.dup code d ∈ allClasses c u cs → ∀ as ∈ reachMsgs msgs, believes as code d = false))))
    (h4 : prefixMustTaw c u cs = true → reachMsgs msgs = []) :
    check c ebgp u cs (.ok msgs) = .ok := by
  unfold check
  simp only [hwf, Bool.not_true, Bool.false_eq_true, if_false]
  rw [if_neg (by rw [h1]; simp), if_neg (by rw [h2]; simp)]
  by_cases hweak : (allClasses c u cs).contains Cls.weak = true
  · rw [if_pos hweak]
    by_cases hp : prefixMustTaw c u cs = true
    · rw [h4 hp]; simp
    · simp [hp]
  · rw [if_neg hweak]
    have hnw : Cls.weak ∉ allClasses c u cs := by simpa using hweak
    obtain ⟨h3a, h3b, h3c⟩ := h3 hnw
    have e1 : ∀ (x : Verdict) (y : Verdict),
        (if (!setsWithdrawn (wdSets u) msgs) = true then x else y) = y := by
      intro x y; rw [h3a]; rfl
    refine Eq.trans (e1 _ _) ?_
    by_cases hm : ((allClasses c u cs).contains Cls.taw || (allClasses c u cs).contains Cls.tawOrReset) = true
    · rw [if_pos hm]
      have hd := h3b (by simpa using hm)
      unfold tawDone at hd
      simp only [Bool.and_eq_true] at hd
      rw [if_neg (by rw [hd.1]; simp)]
      have e2 : ∀ (x : Verdict) (y : Verdict),
          (if (!setsWithdrawn (annSets u) msgs) = true then x else y) = y := by
        intro x y; rw [hd.2]; rfl
      exact e2 _ _
    · rw [if_neg hm]
      have e3 : ∀ (x y : Verdict),
          (if ((allClasses c u cs).any fun k => match k with
              | Cls.discardOrTaw code => !tawDone u msgs && (reachMsgs msgs).any fun as => as.any fun a => a.code == code
              | _ => false) = true then x else y) = y := by
        intro x y
        rw [if_neg]
        intro h
        simp only [List.any_eq_true] at h
        obtain ⟨k, hk, hk2⟩ := h
        cases k <;> simp only [Bool.false_eq_true] at hk2
        rename_i code
        simp only [Bool.and_eq_true, Bool.not_eq_true', List.any_eq_true, beq_iff_eq] at hk2
        obtain ⟨hnd, as, has, a, ha, hac⟩ := hk2
        rcases h3c with hd | ⟨hdisc, _⟩
        · rw [hd] at hnd; cases hnd
        · exact hdisc code hk as has a ha hac
      refine Eq.trans (e3 _ _) ?_
      have e4 : ∀ (x y : Verdict),
          (if ((allClasses c u cs).any fun k => match k with
              | Cls.dup code d => !tawDone u msgs && (reachMsgs msgs).any fun as => believes as code d
              | _ => false) = true then x else y) = y := by
        intro x y
        rw [if_neg]
        intro h
        simp only [List.any_eq_true] at h
        obtain ⟨k, hk, hk2⟩ := h
        cases k <;> simp only [Bool.false_eq_true] at hk2
        rename_i code d
        simp only [Bool.and_eq_true, Bool.not_eq_true', List.any_eq_true] at hk2
        obtain ⟨hnd, as, has, hb⟩ := hk2
        rcases h3c with hd | ⟨_, hdup⟩
        · rw [hd] at hnd; cases hnd
        · rw [hdup code d hk as has] at hb; cases hb
      exact e4 _ _

theorem keptAttrs_sub (ebgp : Bool) (attrs : List Attr) : ∀ a ∈ keptAttrs ebgp attrs, a ∈ attrs := by
  intro a ha
  unfold keptAttrs at ha
  split at ha
  · exact (List.mem_filter.mp ha).1
  · exact ha

theorem tawDone_of_decision {ebgp : Bool} {u : CUpdate} {nh : Option Bytes} {un mun : Option Unreach}
    {attrs : List Attr} {errs : List (Nat × Nat)}
    (h : tawDecision (expReach u nh) (expMpReach u) attrs errs = true) :
    tawDone u (validateUpdate ebgp (expReach u nh) (expMpReach u) un mun attrs errs) = true := by
  obtain ⟨h1, h2⟩ := validate_taw_no_reach (ebgp := ebgp) (unreach := un) (mpUnreach := mun) h
  unfold tawDone
  rw [h1]
  simp only [List.isEmpty_nil, Bool.true_and]
  unfold setsWithdrawn annSets
  simp only [List.all_cons, Bool.and_eq_true]
  constructor
  · cases hu : u.nlri with
    | nil => simp [allIn]
    | cons q qs =>
      apply allIn_of_mem
      have hr : expReach u nh = some ⟨FAM_IPV4, nh, u.nlri.map (padAddr · 4)⟩ := by
        unfold expReach; simp [hu]
      have := h2 ⟨FAM_IPV4, nh, u.nlri.map (padAddr · 4)⟩ (by rw [hr]; simp [optList])
      rw [hu] at this
      exact mem_withdrawnOut this
  · cases hu : u.mpr with
    | none => simp
    | some m =>
      simp only [List.all_cons, List.all_nil, Bool.and_true]
      apply allIn_of_mem
      have hr : expMpReach u = some ⟨famKey m.afi m.safi, nhFromBytes m.nh,
          m.nlri.map (padAddr · (if m.afi = 2 then 16 else 4))⟩ := by
        unfold expMpReach; simp [hu]
      have := h2 ⟨famKey m.afi m.safi, nhFromBytes m.nh, m.nlri.map (padAddr · (if m.afi = 2 then 16 else 4))⟩
        (by rw [hr]; simp [optList])
      exact mem_withdrawnOut this

theorem wdSets_withdrawn (ebgp : Bool) (u : CUpdate) (r mr : Option Reach) (un : Option Unreach)
    (attrs : List Attr) (errs : List (Nat × Nat)) :
    setsWithdrawn (wdSets u) (validateUpdate ebgp r mr un (expMpUnreach u) attrs errs) = true := by
  unfold setsWithdrawn wdSets
  cases hu : u.mpu with
  | none => simp
  | some m =>
    simp only [List.all_cons, List.all_nil, Bool.and_true]
    apply allIn_of_mem
    have hr : expMpUnreach u = some ⟨famKey m.afi m.safi, m.nlri.map (padAddr · (if m.afi = 2 then 16 else 4))⟩ := by
      unfold expMpUnreach; simp [hu]
    have := validate_withdrawals ebgp r mr un (expMpUnreach u) attrs errs
      ⟨famKey m.afi m.safi, m.nlri.map (padAddr · (if m.afi = 2 then 16 else 4))⟩ (by rw [hr]; simp [optList])
    exact mem_withdrawnOut this

/-- what the packet-level proof establishes about the `Message` list of a run that is not a reset (the hypotheses of
    `check_ok_msgs`, and the shape of the list when the framing is intact); used again by the end-to-end half -/
structure OkFacts (c : Codec) (ebgp : Bool) (u : CUpdate) (cs : List Corr) (msgs : List VMsg) : Prop where
  h1 : (ebgp && (reachMsgs msgs).any
        (fun as => as.any fun a => a.code == 5 || a.code == 9 || a.code == 10)) = false
  h2 : allIn (u.wd.map (padAddr · 4)) (withdrawnOut msgs FAM_IPV4) = true
  h3 : Cls.weak ∉ allClasses c u cs →
      setsWithdrawn (wdSets u) msgs = true ∧
      ((Cls.taw ∈ allClasses c u cs ∨ Cls.tawOrReset ∈ allClasses c u cs) → tawDone u msgs = true) ∧
      (tawDone u msgs = true ∨
        ((∀ code, Cls.discardOrTaw code ∈ allClasses c u cs → ∀ as ∈ reachMsgs msgs, ∀ a ∈ as, a.code ≠ code) ∧
         (∀ code d, Cls.dup code d ∈ allClasses c u cs → ∀ as ∈ reachMsgs msgs, believes as code d = false)))
  h4 : prefixMustTaw c u cs = true → reachMsgs msgs = []
  shape : Cls.weak ∉ allClasses c u cs → ∃ nh attrs errs,
      msgs = validateUpdate ebgp (expReach u nh) (expMpReach u) (expUnreach u) (expMpUnreach u) attrs errs

theorem run_facts (dec : HypDec) (hd : dec.NP) (p : Profile) (c : Codec) (ebgp : Bool) (u : CUpdate)
    (cs : List Corr) (hwf : wfCase c u cs = true) :
    (∃ msgs, runUpdate dec p c ebgp (render c u cs) = .ok msgs ∧ OkFacts c ebgp u cs msgs) ∨
    (∃ e, runUpdate dec p c ebgp (render c u cs) = .reset e) := by
  obtain ⟨hwl, _, _, _, _, hsize, _, _⟩ := wf_parts hwf
  obtain ⟨hwd, _⟩ := wfLegacy_wd hwl
  have hl := render_layout c u cs
  have hlen := render_length c u cs
  have hm := maxLen_le c
  obtain ⟨d, htp⟩ := tryParse_layout (dec := dec) (p := p) hl hlen (by omega)
  have hnp := parseUpdate_NP hd p c (render c u cs) ⟨1, 2, d⟩
  obtain ⟨kept, cut, removed, hsp⟩ := split_exists c u cs
  unfold runUpdate
  rw [htp]
  cases hres : parseUpdateWith updateLens dec p c (render c u cs) ⟨1, 2, d⟩ with
  | panic => rw [hres] at hnp; exact absurd hnp (by simp [Out.NP])
  | err e => right; exact ⟨e, rfl⟩
  | ok m =>
    left
    refine ⟨validateMessage ebgp m, rfl, ?_⟩
    have hlens := updateLens_layout hl hlen (by omega)
    have hun := legacyUnreach_render (dec := dec) hl hlen hwd
    obtain ⟨h1, h2⟩ := weak_obligations ebgp hlens hun hres
    refine ⟨h1, h2, ?_, (fun hp => weak_prefix_no_reach ebgp hwf hl hlen hp hres), ?_⟩
    · intro hnw
      obtain ⟨s1, s', attrs, hinv, herrs, _, htrunc, hparse, hcodes, hkeeps⟩ :=
        nonweak_parse hd ⟨1, 2, d⟩ hwf hsp hnw hl hlen
      rw [hres] at hparse
      injection hparse with hparse
      subst hparse
      have hctx : Ctx c u cs kept removed cut s1 s' attrs (23 + (wdB c u).length + (blockBytes c u cs).length) :=
        ⟨hwf, hsp, hnw, hinv, herrs, htrunc, hcodes, hkeeps⟩
      simp only [validateMessage]
      refine ⟨wdSets_withdrawn _ _ _ _ _ _ _, ?_, ?_⟩
      · intro hmust
        apply tawDone_of_decision
        rcases hmust with hx | hx
        · exact hctx.taw hx (Or.inl rfl) _
        · exact hctx.taw hx (Or.inr rfl) _
      · cases htd : tawDecision (expReach u s1.nexthop) (expMpReach u) attrs
            (finalErrs s' (legacyNlriBytes c u cs).length (23 + (wdB c u).length + (blockBytes c u cs).length)) with
        | true => left; exact tawDone_of_decision htd
        | false =>
          right
          constructor
          · intro code hx as has a ha
            rw [validate_reach_attrs as has] at ha
            rcases hctx.disc hx (legacyNlriBytes c u cs).length with h | h
            · rw [htd] at h; cases h
            · exact h a (keptAttrs_sub _ _ a ha)
          · intro code dd hx as has
            rw [validate_reach_attrs as has]
            exact hctx.dup hx _ (keptAttrs_sub _ _)
    · intro hnw
      obtain ⟨s1, s', attrs, _, _, _, _, hparse, _, _⟩ :=
        nonweak_parse hd ⟨1, 2, d⟩ hwf hsp hnw hl hlen
      rw [hres] at hparse
      injection hparse with hparse
      subst hparse
      exact ⟨_, _, _, rfl⟩

/-- byte-level master theorem: the reference checker accepts what the model does with every rendered case -/
theorem check_run_ok (dec : HypDec) (hd : dec.NP) (hde : dec.E3) (p : Profile) (c : Codec) (ebgp : Bool) (u : CUpdate)
    (cs : List Corr) : USpec.check c ebgp u cs (runUpdate dec p c ebgp (render c u cs)) = .ok := by
  by_cases hwf : wfCase c u cs = true
  case neg => unfold check; simp [hwf]
  obtain ⟨hwl, _, _, _, _, hsize, _, _⟩ := wf_parts hwf
  obtain ⟨hwd, _⟩ := wfLegacy_wd hwl
  have hl := render_layout c u cs
  have hlen := render_length c u cs
  have hm := maxLen_le c
  obtain ⟨d, htp⟩ := tryParse_layout (dec := dec) (p := p) hl hlen (by omega)
  have hnp := parseUpdate_NP hd p c (render c u cs) ⟨1, 2, d⟩
  obtain ⟨kept, cut, removed, hsp⟩ := split_exists c u cs
  unfold runUpdate
  rw [htp]
  cases hres : parseUpdateWith updateLens dec p c (render c u cs) ⟨1, 2, d⟩ with
  | panic => rw [hres] at hnp; exact absurd hnp (by simp [Out.NP])
  | err e =>
    simp only
    have hcode : e.code = 3 := by
      have := parseUpdate_EC23 hde p c (render c u cs) ⟨1, 2, d⟩ (by rw [hlen]; unfold totalLen; omega)
      rw [hres] at this
      exact this
    by_cases hweak : Cls.weak ∈ allClasses c u cs
    · unfold check
      simp [hwf, hweak, hcode]
    · exfalso
      obtain ⟨_, _, _, _, _, _, _, hparse, _⟩ := nonweak_parse hd ⟨1, 2, d⟩ hwf hsp hweak hl hlen
      rw [hres] at hparse; cases hparse
  | ok m =>
    simp only
    have hlens := updateLens_layout hl hlen (by omega)
    have hun := legacyUnreach_render (dec := dec) hl hlen hwd
    obtain ⟨h1, h2⟩ := weak_obligations ebgp hlens hun hres
    refine check_ok_msgs hwf h1 h2 ?_ (fun hp => weak_prefix_no_reach ebgp hwf hl hlen hp hres)
    intro hnw
    obtain ⟨s1, s', attrs, hinv, herrs, _, htrunc, hparse, hcodes, hkeeps⟩ :=
      nonweak_parse hd ⟨1, 2, d⟩ hwf hsp hnw hl hlen
    rw [hres] at hparse
    injection hparse with hparse
    subst hparse
    have hctx : Ctx c u cs kept removed cut s1 s' attrs (23 + (wdB c u).length + (blockBytes c u cs).length) :=
      ⟨hwf, hsp, hnw, hinv, herrs, htrunc, hcodes, hkeeps⟩
    simp only [validateMessage]
    refine ⟨wdSets_withdrawn _ _ _ _ _ _ _, ?_, ?_⟩
    · intro hmust
      apply tawDone_of_decision
      rcases hmust with hx | hx
      · exact hctx.taw hx (Or.inl rfl) _
      · exact hctx.taw hx (Or.inr rfl) _
    · cases htd : tawDecision (expReach u s1.nexthop) (expMpReach u) attrs
          (finalErrs s' (legacyNlriBytes c u cs).length (23 + (wdB c u).length + (blockBytes c u cs).length)) with
      | true => left; exact tawDone_of_decision htd
      | false =>
        right
        constructor
        · intro code hx as has a ha
          rw [validate_reach_attrs as has] at ha
          rcases hctx.disc hx (legacyNlriBytes c u cs).length with h | h
          · rw [htd] at h; cases h
          · exact h a (keptAttrs_sub _ _ a ha)
        · intro code dd hx as has
          rw [validate_reach_attrs as has]
          exact hctx.dup hx _ (keptAttrs_sub _ _)

end Rbgp.Wire
