/-
  Rbgp.Wire.Update — C05 model: the shared receive-path model (`tryParse`) and `validate_message` /
  `validate_update` of packet/src/bgp.rs (RFC 7606 classification, conversion of reach into unreach,
  filtering of iBGP-only attributes from eBGP peers).
-/
import Rbgp.Wire.UpdateCase
namespace Rbgp.Wire

/-! ## `validate_message` / `validate_update` -/

/-- send-path `Message`s as far as C05 looks at them -/
inductive VMsg where
  | reach (fam : Nat) (nh : Option Bytes) (entries : List PNlri) (attrs : List Attr)
  | unreach (fam : Nat) (entries : List PNlri)
  | eor (fam : Nat)
  | other
  deriving DecidableEq, Repr, Inhabited

/-- an `AttributeError` that calls for treat-as-withdraw (as repaired): Optional/Transitive bits that conflict
    with the attribute type always do; otherwise `!optional || transitive` on the received flags -/
def errIsTaw (e : Nat × Nat) : Bool :=
  let flagsError : Bool := match canonicalFlags e.1 with
    | some c => flagsConflict e.2 c
    | none => false
  let optional : Bool := e.2 &&& 0x80 ≠ 0
  let transitive : Bool := e.2 &&& 0x40 ≠ 0
  flagsError || !optional || transitive

/-- the pre-repair rule: `!optional || transitive` on the RECEIVED flags only (kept for the witness) -/
def errIsTawOld (e : Nat × Nat) : Bool :=
  let optional : Bool := e.2 &&& 0x80 ≠ 0
  let transitive : Bool := e.2 &&& 0x40 ≠ 0
  !optional || transitive

def hasCode (attrs : List Attr) (code : Nat) : Bool := attrs.any fun a => a.code == code

def missingMandatory (reach mpReach : Option Reach) (attrs : List Attr) : Bool :=
  let mpMissingNh := match mpReach with
    | some r => r.nh.isNone && !isFlowspec r.fam
    | none => false
  (reach.isSome || mpReach.isSome) &&
    (!hasCode attrs 1 || !hasCode attrs 2
      || (match reach with | some r => r.nh.isNone | none => false)
      || mpMissingNh)

def optList {α} : Option α → List α
  | some a => [a]
  | none => []

def validateUpdate (ebgp : Bool) (reach mpReach : Option Reach) (unreach mpUnreach : Option Unreach)
    (attrs : List Attr) (errs : List (Nat × Nat)) : List VMsg :=
  let taw := missingMandatory reach mpReach attrs || errs.any errIsTaw
  if taw then
    ((optList reach ++ optList mpReach).map fun r => VMsg.unreach r.fam r.entries)
      ++ ((optList unreach ++ optList mpUnreach).map fun u => VMsg.unreach u.fam u.entries)
  else
    let attrs := if ebgp then attrs.filter fun a => !(a.code == 5 || a.code == 9 || a.code == 10) else attrs
    (optList reach).map (fun r => VMsg.reach r.fam r.nh r.entries attrs)
      ++ (optList unreach).map (fun u => VMsg.unreach u.fam u.entries)
      ++ (optList mpReach).map (fun r => VMsg.reach r.fam r.nh r.entries attrs)
      ++ (optList mpUnreach).map (fun u => VMsg.unreach u.fam u.entries)

def validateMessage (ebgp : Bool) : Msg → List VMsg
  | .update r mr u mu attrs errs => validateUpdate ebgp r mr u mu attrs errs
  | .eor f => [.eor f]
  | _ => [.other]

/-! ## one C05 run: render, `try_parse`, `validate_message` -/

inductive URes where
  | ok (msgs : List VMsg)
  | reset (e : Notif)
  | more
  | panic
  deriving DecidableEq, Repr

def runUpdate (dec : HypDec) (p : Profile) (c : Codec) (ebgp : Bool) (bytes : Bytes) : URes :=
  match tryParse dec p c bytes with
  | .msg _ m => .ok (validateMessage ebgp m)
  | .err _ e => .reset e
  | .more => .more
  | .panic => .panic

end Rbgp.Wire
