/-
  Rbgp.Wire.Update — C05 model: structured UPDATE + corruption list → bytes (`render`, the same algorithm as
  harness/pt/src/bin/c05.rs), the shared receive-path model (`tryParse`), and `validate_message` /
  `validate_update` of packet/src/bgp.rs (RFC 7606 classification, conversion of reach into unreach,
  filtering of iBGP-only attributes from eBGP peers).
-/
import Rbgp.Wire.Model
namespace Rbgp.Wire

/-! ## the case language: a valid UPDATE and the corruptions applied to it -/

/-- a prefix as written in a case: AddPath id, mask, exactly the significant address bytes -/
structure CPfx where
  id : Nat
  mask : Nat
  addr : Bytes
  deriving DecidableEq, Repr, Inhabited

structure CAttr where
  flags : Nat
  code : Nat
  data : Bytes
  deriving DecidableEq, Repr, Inhabited

structure CMpReach where
  afi : Nat
  safi : Nat
  nh : Bytes
  nlri : List CPfx
  deriving DecidableEq, Repr, Inhabited

structure CMpUnreach where
  afi : Nat
  safi : Nat
  nlri : List CPfx
  deriving DecidableEq, Repr, Inhabited

/-- the uncorrupted UPDATE -/
structure CUpdate where
  wd : List CPfx
  attrs : List CAttr
  mpr : Option CMpReach
  mpu : Option CMpUnreach
  nlri : List CPfx
  deriving DecidableEq, Repr, Inhabited

/-- the RFC 7606 ways of corrupting it; `i` indexes the rendered attribute list
    `attrs ++ [MP_REACH] ++ [MP_UNREACH]` -/
inductive Corr where
  | flags (i : Nat) (f : Nat)          -- replace the flags octet
  | data (i : Nat) (d : Bytes)         -- replace the value (length field follows): bad length / bad value
  | lenfield (i : Nat) (l : Nat)       -- length field only: the attribute block framing breaks
  | dup (i : Nat) (d : Bytes)          -- a second attribute of the same type right after it
  | omit (i : Nat)                     -- omission
  | trunc (k : Nat)                    -- the attribute block ends `k` bytes early
  | unknown (f c : Nat) (d : Bytes)    -- an unrecognised attribute appended to the block
  | nlribad (m : Nat)                  -- the first legacy NLRI prefix length octet becomes `m`
  deriving DecidableEq, Repr, Inhabited

/-! ## rendering -/

structure RAttr where
  flags : Nat
  code : Nat
  data : Bytes
  lenOverride : Option Nat := none
  present : Bool := true
  dup : Option Bytes := none
  deriving DecidableEq, Repr, Inhabited

def pfxBytes (addpath : Bool) (p : CPfx) : Bytes :=
  (if addpath then be32Bytes p.id else []) ++ [p.mask] ++ p.addr

def pfxsBytes (addpath : Bool) (l : List CPfx) : Bytes := (l.map (pfxBytes addpath)).flatten

def Codec.ap (c : Codec) (fam : Nat) : Bool := (c.addpath? fam).getD false

def mprAttr (c : Codec) (m : CMpReach) : RAttr :=
  let d := be16Bytes m.afi ++ [m.safi, m.nh.length] ++ m.nh ++ [0] ++ pfxsBytes (c.ap (famKey m.afi m.safi)) m.nlri
  { flags := if d.length > 255 then 0x90 else 0x80, code := 14, data := d }

def mpuAttr (c : Codec) (m : CMpUnreach) : RAttr :=
  let d := be16Bytes m.afi ++ [m.safi] ++ pfxsBytes (c.ap (famKey m.afi m.safi)) m.nlri
  { flags := if d.length > 255 then 0x90 else 0x80, code := 15, data := d }

def baseAttrs (c : Codec) (u : CUpdate) : List RAttr :=
  (u.attrs.map fun a => ({ flags := a.flags, code := a.code, data := a.data } : RAttr))
    ++ (match u.mpr with | some m => [mprAttr c m] | none => [])
    ++ (match u.mpu with | some m => [mpuAttr c m] | none => [])

def modifyAt (i : Nat) (f : RAttr → RAttr) : List RAttr → List RAttr
  | [] => []
  | a :: as => match i with
    | 0 => f a :: as
    | i + 1 => a :: modifyAt i f as

def applyCorr (l : List RAttr) : Corr → List RAttr
  | .flags i f => modifyAt i (fun a => { a with flags := f }) l
  | .data i d => modifyAt i (fun a => { a with data := d }) l
  | .lenfield i n => modifyAt i (fun a => { a with lenOverride := some n }) l
  | .dup i d => modifyAt i (fun a => { a with dup := some d }) l
  | .omit i => modifyAt i (fun a => { a with present := false }) l
  | .unknown f c d => l ++ [{ flags := f, code := c, data := d }]
  | .trunc _ => l
  | .nlribad _ => l

def attrHdr (flags code len : Nat) : Bytes :=
  if flags &&& 0x10 ≠ 0 then [flags, code] ++ be16Bytes len else [flags, code, len % 256]

def renderAttr (a : RAttr) : Bytes :=
  if !a.present then []
  else
    attrHdr a.flags a.code (a.lenOverride.getD a.data.length) ++ a.data ++
      (match a.dup with
       | some d => attrHdr a.flags a.code d.length ++ d
       | none => [])

def truncTotal (cs : List Corr) : Nat :=
  cs.foldl (fun acc c => match c with | .trunc k => acc + k | _ => acc) 0

def nlriBad (cs : List Corr) : Option Nat :=
  cs.foldl (fun acc c => match c with | .nlribad m => some m | _ => acc) none

/-- the UPDATE frame for `(u, cs)` under codec `c` -/
def render (c : Codec) (u : CUpdate) (cs : List Corr) : Bytes :=
  let attrs := cs.foldl applyCorr (baseAttrs c u)
  let block := (attrs.map renderAttr).flatten
  let block := block.take (block.length - truncTotal cs)
  let wd := pfxsBytes (c.ap FAM_IPV4) u.wd
  let nlri := pfxsBytes (c.ap FAM_IPV4) u.nlri
  let nlri := match nlriBad cs, nlri with
    | some m, _ :: rest => (if c.ap FAM_IPV4 then nlri.take 4 ++ [m] ++ nlri.drop 5 else m :: rest)
    | _, _ => nlri
  let total := 23 + wd.length + block.length + nlri.length
  List.replicate 16 255 ++ be16Bytes total ++ [2] ++ be16Bytes wd.length ++ wd ++ be16Bytes block.length ++ block ++ nlri

/-! ## `validate_message` / `validate_update` -/

/-- send-path `Message`s as far as C05 looks at them -/
inductive VMsg where
  | reach (fam : Nat) (nh : Option Bytes) (entries : List PNlri) (attrs : List Attr)
  | unreach (fam : Nat) (entries : List PNlri)
  | eor (fam : Nat)
  | other
  deriving DecidableEq, Repr, Inhabited

/-- an `AttributeError` that calls for treat-as-withdraw (as repaired): Optional/Transitive bits that conflict
    with the attribute type always do; otherwise `!optional || transitive` on the received flags -/
def errIsTaw (e : Nat × Nat) : Bool :=
  let flagsError : Bool := match canonicalFlags e.1 with
    | some c => flagsConflict e.2 c
    | none => false
  let optional : Bool := e.2 &&& 0x80 ≠ 0
  let transitive : Bool := e.2 &&& 0x40 ≠ 0
  flagsError || !optional || transitive

/-- the pre-repair rule: `!optional || transitive` on the RECEIVED flags only (kept for the witness) -/
def errIsTawOld (e : Nat × Nat) : Bool :=
  let optional : Bool := e.2 &&& 0x80 ≠ 0
  let transitive : Bool := e.2 &&& 0x40 ≠ 0
  !optional || transitive

def hasCode (attrs : List Attr) (code : Nat) : Bool := attrs.any fun a => a.code == code

def missingMandatory (reach mpReach : Option Reach) (attrs : List Attr) : Bool :=
  let mpMissingNh := match mpReach with
    | some r => r.nh.isNone && !isFlowspec r.fam
    | none => false
  (reach.isSome || mpReach.isSome) &&
    (!hasCode attrs 1 || !hasCode attrs 2
      || (match reach with | some r => r.nh.isNone | none => false)
      || mpMissingNh)

def optList {α} : Option α → List α
  | some a => [a]
  | none => []

def validateUpdate (ebgp : Bool) (reach mpReach : Option Reach) (unreach mpUnreach : Option Unreach)
    (attrs : List Attr) (errs : List (Nat × Nat)) : List VMsg :=
  let taw := missingMandatory reach mpReach attrs || errs.any errIsTaw
  if taw then
    ((optList reach ++ optList mpReach).map fun r => VMsg.unreach r.fam r.entries)
      ++ ((optList unreach ++ optList mpUnreach).map fun u => VMsg.unreach u.fam u.entries)
  else
    let attrs := if ebgp then attrs.filter fun a => !(a.code == 5 || a.code == 9 || a.code == 10) else attrs
    (optList reach).map (fun r => VMsg.reach r.fam r.nh r.entries attrs)
      ++ (optList unreach).map (fun u => VMsg.unreach u.fam u.entries)
      ++ (optList mpReach).map (fun r => VMsg.reach r.fam r.nh r.entries attrs)
      ++ (optList mpUnreach).map (fun u => VMsg.unreach u.fam u.entries)

def validateMessage (ebgp : Bool) : Msg → List VMsg
  | .update r mr u mu attrs errs => validateUpdate ebgp r mr u mu attrs errs
  | .eor f => [.eor f]
  | _ => [.other]

/-! ## one C05 run: render, `try_parse`, `validate_message` -/

inductive URes where
  | ok (msgs : List VMsg)
  | reset (e : Notif)
  | more
  | panic
  deriving DecidableEq, Repr

def runUpdate (dec : HypDec) (p : Profile) (c : Codec) (ebgp : Bool) (bytes : Bytes) : URes :=
  match tryParse dec p c bytes with
  | .msg _ m => .ok (validateMessage ebgp m)
  | .err _ e => .reset e
  | .more => .more
  | .panic => .panic

end Rbgp.Wire
