/- Rbgp.Wire.UpdateProps — C05 statements (being filled in). -/
import Rbgp.Wire.UpdateSpec
namespace Rbgp.Wire.UProps
end Rbgp.Wire.UProps
