/-
  Rbgp.Wire.UpdateProps — C05 (packet half), the readable statements.

  Everything here is about the MODEL of packet/src/bgp.rs: the UPDATE arm of `parse_message`
  (`Rbgp.Wire.Model`, shared with C03) and `validate_message` / `validate_update` (`Rbgp.Wire.Update`),
  for every byte string, codec, profile and peer kind.

  What is proved: (1) whatever UPDATE the parser returns, `validate_update` turns it into a `Message` list that
  the parsed-level reference checker `USpec.checkV` (written from the property text over the recorded attribute
  errors) accepts; (2) the pieces that statement rests on, as separate readable theorems; (3) finite
  classification tables over all attribute type codes and all flag octets; (4) a session reset can only come from
  the section lengths, a repeated MP attribute or the NLRI.
  (5) byte level (`check_run_ok_full`, proof in `Rbgp.Wire.UpdateFull`): for every valid UPDATE and corruption list
  of the case language (`USpec.wfCase`), the byte-level reference checker `USpec.check` accepts what the model makes
  of the rendered bytes.
  What is NOT proved: anything about families other than IPv4/IPv6 unicast/multicast in the case language; the
  end-to-end half (RIB contents after `rx_msg`) is out of scope of this version.
-/
import Rbgp.Wire.UpdateFull
import Rbgp.Wire.E2EProofs
namespace Rbgp.Wire.UProps
open Rbgp.Wire Rbgp.Wire.USpec

/-! ## 0. The reference checker accepts every UPDATE the model lets through -/

/-- packet-half master theorem -/
theorem update_validated_ok (dec : HypDec) (p : Profile) (c : Codec) (src : Bytes) (ebgp : Bool) (n : Nat)
    (r mr : Option Reach) (u mu : Option Unreach) (attrs : List Attr) (errs : List (Nat × Nat))
    (hb : ∀ x ∈ src, x < 256)
    (h : tryParse dec p c src = .msg n (.update r mr u mu attrs errs)) :
    checkV ebgp r mr u mu attrs errs (validateMessage ebgp (.update r mr u mu attrs errs)) = .ok :=
  Rbgp.Wire.update_validated_ok ebgp hb h

/-- the same for `validate_update` alone, for ANY parse result with the two parser invariants -/
theorem validate_check_ok (ebgp : Bool) (reach mpReach : Option Reach) (unreach mpUnreach : Option Unreach)
    (attrs : List Attr) (errs : List (Nat × Nat))
    (hb : ∀ e ∈ errs, e.2 < 256)
    (hd : ∀ e ∈ errs, errMustTaw e = false → ∀ a ∈ attrs, a.code ≠ e.1) :
    checkV ebgp reach mpReach unreach mpUnreach attrs errs
      (validateUpdate ebgp reach mpReach unreach mpUnreach attrs errs) = .ok :=
  Rbgp.Wire.validate_check_ok ebgp reach mpReach unreach mpUnreach attrs errs hb hd

/-- byte-level master theorem: for EVERY codec, profile, peer kind, valid UPDATE `u` and corruption list `cs`, the
    byte-level reference checker `USpec.check` (valid UPDATE + RFC 7606 corruptions ↦ allowed outcomes) accepts what
    the model (`try_parse`, then `validate_message`) makes of the rendered bytes.  `dec` stands for the NLRI decoders
    of families other than IPv4/IPv6 unicast/multicast, which a `wfCase` case does not use. -/
theorem check_run_ok_full (dec : HypDec) (hd : dec.NP) (hde : dec.E3) (p : Profile) (c : Codec) (ebgp : Bool)
    (u : CUpdate) (cs : List Corr) : USpec.check c ebgp u cs (runUpdate dec p c ebgp (render c u cs)) = .ok :=
  Rbgp.Wire.check_run_ok dec hd hde p c ebgp u cs

/-! ## 1. treat-as-withdraw: no route announced, every announced prefix withdrawn -/

theorem taw_no_reach (ebgp : Bool) (reach mpReach : Option Reach) (unreach mpUnreach : Option Unreach)
    (attrs : List Attr) (errs : List (Nat × Nat))
    (h : missingMandatory reach mpReach attrs = true ∨ ∃ e ∈ errs, errIsTaw e = true) :
    reachMsgs (validateUpdate ebgp reach mpReach unreach mpUnreach attrs errs) = [] ∧
    ∀ r ∈ optList reach ++ optList mpReach,
      VMsg.unreach r.fam r.entries ∈ validateUpdate ebgp reach mpReach unreach mpUnreach attrs errs := by
  apply validate_taw_no_reach
  unfold tawDecision
  rcases h with h | ⟨e, he, ht⟩
  · simp [h]
  · simp only [Bool.or_eq_true, List.any_eq_true]
    exact Or.inr ⟨e, he, ht⟩

/-- ... and treat-as-withdraw is chosen whenever the property requires it (type-based class of the error) -/
theorem must_taw_is_taw (code flags : Nat) (hf : flags < 256) (h : errMustTaw (code, flags) = true) :
    errIsTaw (code, flags) = true :=
  must_taw_table code flags hf h

/-! ## 2. withdrawals in the same message still take effect -/

theorem withdrawals_preserved (ebgp : Bool) (reach mpReach : Option Reach) (unreach mpUnreach : Option Unreach)
    (attrs : List Attr) (errs : List (Nat × Nat)) :
    ∀ u ∈ optList unreach ++ optList mpUnreach,
      VMsg.unreach u.fam u.entries ∈ validateUpdate ebgp reach mpReach unreach mpUnreach attrs errs :=
  validate_withdrawals ebgp reach mpReach unreach mpUnreach attrs errs

/-! ## 3. attribute discard: a reported attribute is never attached to an announced route -/

/-- the attribute loop keeps an attribute or reports it, never both (per type code) -/
theorem discard_removes_attr (two : Bool) (buf : Bytes) (hb : ∀ x ∈ buf, x < 256) (attrEnd fuel pos : Nat)
    (s : AState) (h : attrLoop two buf attrEnd fuel { pos := pos } = .ok s) :
    ∀ a ∈ s.attrs, ∀ e ∈ s.errs, a.code ≠ e.1 :=
  (attrLoop_inv two buf hb attrEnd fuel _ (LoopInv.init pos) s h).disjoint

/-- ... and this survives AS4 reconciliation and the error records added after the loop -/
theorem discard_removes_attr_parsed (dec : HypDec) (p : Profile) (c : Codec) (buf : Bytes) (hdrErr : Notif)
    (hb : ∀ x ∈ buf, x < 256)
    (r mr : Option Reach) (u mu : Option Unreach) (attrs : List Attr) (errs : List (Nat × Nat))
    (h : parseUpdate dec p c buf hdrErr = .ok (.update r mr u mu attrs errs)) :
    ∀ e ∈ errs, errMustTaw e = false → ∀ a ∈ attrs, a.code ≠ e.1 :=
  (parse_update_invariants hb h).2

/-- every announced route carries the parsed attributes minus the iBGP-only ones for an external peer -/
theorem reach_attrs (ebgp : Bool) (reach mpReach : Option Reach) (unreach mpUnreach : Option Unreach)
    (attrs : List Attr) (errs : List (Nat × Nat)) :
    ∀ as ∈ reachMsgs (validateUpdate ebgp reach mpReach unreach mpUnreach attrs errs), as = keptAttrs ebgp attrs :=
  validate_reach_attrs

/-! ## 4. iBGP-only attributes from an external peer are dropped -/

theorem ebgp_filters_ibgp_attrs (reach mpReach : Option Reach) (unreach mpUnreach : Option Unreach)
    (attrs : List Attr) (errs : List (Nat × Nat)) :
    ∀ as ∈ reachMsgs (validateUpdate true reach mpReach unreach mpUnreach attrs errs),
      ∀ a ∈ as, a.code ≠ 5 ∧ a.code ≠ 9 ∧ a.code ≠ 10 :=
  validate_ebgp_filter

/-! ## 5. classification tables: every attribute type code × every flag octet -/

/-- the decoder's canonical flags are the property's attribute classes -/
theorem classification_table_types (code : Nat) : (canonicalFlags code).map flagBits = attrClass code :=
  canonical_table code

/-- the property's classes are, row by row, those of the documents that define each attribute type (`rfcTable`:
    RFC 4271, 1997, 4456, 4760, 4360, 6793, 9012, 7311, 9552, 8092, 8669); codes outside the table have no class -/
theorem rfcTable_known : ∀ x ∈ rfcTable, x.1 ∈ knownCodes := by decide

theorem classification_table_rfc (code : Nat) : attrClass code = rfcClass code := by
  by_cases hk : code ∈ knownCodes
  · revert code; decide
  · rw [attrClass_none_of_not_known hk]
    have : rfcTable.find? (·.1 == code) = none := by
      rw [List.find?_eq_none]
      intro x hx heq
      have h1 := rfcTable_known x hx
      have h2 : x.1 = code := by simpa using heq
      exact hk (h2 ▸ h1)
    unfold rfcClass
    rw [this]; rfl

/-- wrong Optional/Transitive bits are detected exactly when they differ from the type's class -/
theorem classification_table_flags (code flags : Nat) (hf : flags < 256) :
    (match canonicalFlags code with
     | some c => flagsConflict flags c
     | none => false) =
    (match attrClass code with
     | some cls => flagBits flags != cls
     | none => false) :=
  flags_conflict_table code flags hf

/-- and every error the property classifies as treat-as-withdraw is classified so (all codes, all flag octets) -/
theorem classification_table (code flags : Nat) (hf : flags < 256) :
    errMustTaw (code, flags) = true → errIsTaw (code, flags) = true :=
  must_taw_table code flags hf

/-! ## 6. a session reset only when the NLRI cannot be located or parsed -/

theorem reset_only_if_nlri_unlocatable (dec : HypDec) (p : Profile) (c : Codec) (buf : Bytes) (hdrErr e : Notif)
    (h : parseUpdate dec p c buf hdrErr = .err e) :
    buf.length < 23 ∨ updateLens buf = .err e ∨
    ∃ wl al, updateLens buf = .ok (wl, al) ∧
      (attrLoop c.two buf (23 + wl + al) (buf.length + 1) { pos := 23 + wl } = .err e ∨
       ∃ s, attrLoop c.two buf (23 + wl + al) (buf.length + 1) { pos := 23 + wl } = .ok s ∧
         (legacyReach dec c buf (23 + wl + al) = .err e ∨ legacyUnreach dec c buf wl = .err e ∨
          mpReachOf dec c s.mpReach = .err e ∨ mpUnreachOf dec c s.mpUnreach = .err e)) :=
  update_reset_causes h

/-- inside the attribute loop only a second MP_REACH_NLRI / MP_UNREACH_NLRI resets -/
theorem attr_loop_reset_only_duplicate_mp (two : Bool) (buf : Bytes) (attrEnd : Nat) (hEnd : attrEnd ≤ buf.length)
    (e : Notif) (fuel : Nat) (s : AState) (h : attrLoop two buf attrEnd fuel s = .err e) :
    ∃ s' flags code alen pos, attrBody two buf s' flags code alen pos = .err e ∧ (code = 14 ∨ code = 15) ∧
      s'.seen.contains code = true :=
  attrLoop_err hEnd fuel s h

/-! ## 7. Non-vacuity and witnesses -/

set_option maxRecDepth 20000

def codecV4 : Codec := ⟨false, false, [(65537, false)]⟩

/-- ORIGIN, empty AS_PATH, NEXT_HOP 10.0.0.1, COMMUNITIES, NLRI 10/8 -/
def uOk : CUpdate :=
  { wd := [], attrs := [⟨0x40, 1, [0]⟩, ⟨0x40, 2, []⟩, ⟨0x40, 3, [10, 0, 0, 1]⟩, ⟨0xc0, 8, [255, 255, 255, 1]⟩],
    mpr := none, mpu := none, nlri := [⟨0, 8, [10]⟩] }

/-- uncorrupted: announced with all attributes -/
example : runUpdate noHypDec .debug codecV4 false (render codecV4 uOk []) =
    .ok [.reach 65537 (some [10, 0, 0, 1]) [⟨0, 8, [10, 0, 0, 0]⟩]
          [⟨1, 0x40, .val 0⟩, ⟨2, 0x40, .bin []⟩, ⟨8, 0xc0, .bin [255, 255, 255, 1]⟩]] := by decide

/-- COMMUNITIES sent with flags "optional non-transitive": treat-as-withdraw (was: attribute discard) -/
example : runUpdate noHypDec .debug codecV4 false (render codecV4 uOk [.flags 3 0x80]) =
    .ok [.unreach 65537 [⟨0, 8, [10, 0, 0, 0]⟩]] := by decide
example : errIsTawOld (8, 0x80) = false ∧ errMustTaw (8, 0x80) = true ∧ errIsTaw (8, 0x80) = true := by decide

/-- NEXT_HOP of 16 bytes: treat-as-withdraw (was: believed as an IPv6 next hop) -/
example : runUpdate noHypDec .release codecV4 true
    (render codecV4 uOk [.data 2 [10, 0, 0, 1, 4, 5, 6, 7, 8, 9, 10, 11, 12, 13, 14, 15]]) =
    .ok [.unreach 65537 [⟨0, 8, [10, 0, 0, 0]⟩]] := by decide

/-- the byte-level checker accepts these runs and rejects the pre-repair outcome -/
example : USpec.check codecV4 false uOk [.flags 3 0x80]
    (runUpdate noHypDec .debug codecV4 false (render codecV4 uOk [.flags 3 0x80])) = .ok := by decide
example : USpec.check codecV4 false uOk [.flags 3 0x80]
    (.ok [.reach 65537 (some [10, 0, 0, 1]) [⟨0, 8, [10, 0, 0, 0]⟩] [⟨1, 0x40, .val 0⟩, ⟨2, 0x40, .bin []⟩]]) =
    .fail "route-announced-although-an-attribute-error-requires-treat-as-withdraw" := by decide

/-- the hypotheses of `update_validated_ok` are satisfiable by a message with a recorded (discard-class) error:
    MED of 3 bytes -/
def uMed : CUpdate := { uOk with attrs := uOk.attrs ++ [⟨0x80, 4, [0, 0, 0, 5]⟩] }
theorem nonvacuous_discard :
    tryParse noHypDec .debug codecV4 (render codecV4 uMed [.data 4 [0, 0, 5]]) =
      .msg 52 (.update (some ⟨65537, some [10, 0, 0, 1], [⟨0, 8, [10, 0, 0, 0]⟩]⟩) none none none
        [⟨1, 0x40, .val 0⟩, ⟨2, 0x40, .bin []⟩, ⟨8, 0xc0, .bin [255, 255, 255, 1]⟩] [(4, 0x80)]) := by decide

/-- `check_run_ok_full` is not vacuous: cases of each kind are well formed (so the checker judges them), and the
    checker rejects wrong outcomes for them (a route announced although treat-as-withdraw is required; a malformed
    MED kept; the second copy of a duplicated MED believed; a reset although the NLRI can be located) -/
theorem nonvacuous_full :
    wfCase codecV4 uOk [.flags 3 0x80] = true ∧ wfCase codecV4 uMed [.data 4 [0, 0, 5]] = true ∧
    wfCase codecV4 uMed [.dup 4 [0, 0, 0, 6]] = true ∧ wfCase codecV4 uOk [.trunc 3] = true ∧
    wfCase codecV4 uOk [.omit 0, .unknown 0x40 77 [1]] = true ∧
    USpec.check codecV4 false uOk [.flags 3 0x80]
      (.ok [.reach 65537 (some [10, 0, 0, 1]) [⟨0, 8, [10, 0, 0, 0]⟩] [⟨1, 0x40, .val 0⟩, ⟨2, 0x40, .bin []⟩]]) =
      .fail "route-announced-although-an-attribute-error-requires-treat-as-withdraw" ∧
    USpec.check codecV4 false uMed [.data 4 [0, 0, 5]]
      (.ok [.reach 65537 (some [10, 0, 0, 1]) [⟨0, 8, [10, 0, 0, 0]⟩]
        [⟨1, 0x40, .val 0⟩, ⟨2, 0x40, .bin []⟩, ⟨4, 0x80, .val 5⟩]]) =
      .fail "malformed-attribute-kept-on-an-announced-route" ∧
    USpec.check codecV4 false uMed [.dup 4 [0, 0, 0, 6]]
      (.ok [.reach 65537 (some [10, 0, 0, 1]) [⟨0, 8, [10, 0, 0, 0]⟩]
        [⟨1, 0x40, .val 0⟩, ⟨2, 0x40, .bin []⟩, ⟨4, 0x80, .val 6⟩]]) =
      .fail "duplicate-attribute-believed-instead-of-the-first" ∧
    USpec.check codecV4 false uOk [.flags 3 0x80] (.reset ⟨3, 4, []⟩) =
      .fail "session-reset-although-the-nlri-can-be-located-and-parsed" := by decide

/-- the clause for cases with damaged framing is not vacuous: ORIGIN with wrong flags in front of a COMMUNITIES
    attribute whose length field is off; announcing the route is rejected, a reset or a withdraw is accepted -/
theorem nonvacuous_weak_prefix :
    wfCase codecV4 uOk [.flags 0 0x80, .lenfield 3 5] = true ∧
    (allClasses codecV4 uOk [.flags 0 0x80, .lenfield 3 5]).contains .weak = true ∧
    prefixMustTaw codecV4 uOk [.flags 0 0x80, .lenfield 3 5] = true ∧
    USpec.check codecV4 false uOk [.flags 0 0x80, .lenfield 3 5]
      (.ok [.reach 65537 (some [10, 0, 0, 1]) [⟨0, 8, [10, 0, 0, 0]⟩] [⟨2, 0x40, .bin []⟩]]) =
      .fail "route-announced-although-an-attribute-before-the-framing-damage-requires-treat-as-withdraw" ∧
    USpec.check codecV4 false uOk [.flags 0 0x80, .lenfield 3 5] (.reset ⟨3, 1, []⟩) = .ok ∧
    USpec.check codecV4 false uOk [.flags 0 0x80, .lenfield 3 5] (.reset ⟨2, 0, []⟩) =
      .fail "session-reset-with-a-notification-that-is-not-an-update-error" := by decide

/-! ## 7. end to end: the table after the real receive path -/

/-- end-to-end master theorem: for every peer kind, every choice of routes installed beforehand, every codec, valid
    UPDATE and corruption list, the checker on the Adj-RIB-In (`E2E.checkE`: the byte-level classification read off the
    table: a route that is not an OLD one = announced with its attributes, a prefix of the UPDATE not in the table =
    withdrawn) accepts the end-to-end model (`E2E.runE2E`: `try_parse`, `validate_message`, then `rx_update`'s inserts
    and removals, with the LOCAL_PREF an internal peer left out added) -/
theorem check_e2e_ok (dec : HypDec) (hd : dec.NP) (hde : dec.E3) (p : Profile) (kind : E2E.Kind) (pre : Bool)
    (c : Codec) (ebgp : Bool) (u : CUpdate) (cs : List Corr) (bytes : Bytes) :
    E2E.checkE kind c ebgp u cs bytes (E2E.runE2E dec p kind pre c ebgp u bytes) = .ok :=
  E2E.checkE_run_ok dec hd hde p kind pre c ebgp u cs bytes

/-- the end-to-end checker judges and rejects: COMMUNITIES with wrong flags from an external peer, routes installed
    beforehand.  Keeping the old route, installing the new one, or (for a clean UPDATE with a withdrawal) keeping the
    withdrawn prefix are all rejected; removing the announced prefix is accepted. -/
theorem nonvacuous_e2e :
    let bs := render codecV4 uOk [.flags 3 0x80]
    let k : E2E.RKey := ⟨65537, 0, 8, [10, 0, 0, 0]⟩
    E2E.wfE .ibgp codecV4 false uOk [.flags 3 0x80] bs = true ∧
    E2E.checkE .ibgp codecV4 false uOk [.flags 3 0x80] bs (.up []) = .ok ∧
    E2E.checkE .ibgp codecV4 false uOk [.flags 3 0x80] bs (.up [(k, E2E.oldAttrs .ibgp)]) =
      .fail "announced-prefix-neither-withdrawn-nor-session-reset" ∧
    E2E.checkE .ibgp codecV4 false uOk [.flags 3 0x80] bs
        (.up [(k, [⟨1, 0x40, .val 0⟩, ⟨2, 0x40, .bin []⟩, ⟨5, 0x40, .val 100⟩])]) =
      .fail "route-announced-although-an-attribute-error-requires-treat-as-withdraw" ∧
    E2E.checkE .ebgp codecV4 true { uOk with wd := [⟨0, 24, [10, 9, 9]⟩] } []
        (render codecV4 { uOk with wd := [⟨0, 24, [10, 9, 9]⟩] } [])
        (.up [(⟨65537, 0, 24, [10, 9, 9, 0]⟩, E2E.oldAttrs .ebgp)]) =
      .fail "withdrawal-in-the-same-message-lost" := by decide

end Rbgp.Wire.UProps
