/- Term encoding of the wire cases and observations (C03 / C05 drivers).  Grammar = harness/pt/src/wire.rs. -/
import Rbgp.Term
import Rbgp.Wire.Stream
import Rbgp.Wire.Nlri3
import Rbgp.Wire.Sess
import Rbgp.Wire.Spec
namespace Rbgp.Wire.Codec
open Rbgp Rbgp.Term Rbgp.Wire

/-! ## cases -/

inductive Case where
  | bgp (c : Codec) (chunks : List Bytes)
  | xbgp (c : Codec) (chunks : List Bytes)
  | rtr (chunks : List Bytes)
  | bfd (b : Bytes)
  | xattr (kind : String) (b : Bytes)
  | sess (c : Codec) (est : Bool) (chunks : List Bytes) (eof : Bool)
  | rtrs (chunks : List Bytes) (eof : Bool)
  deriving Repr

def profileOf? : String → Option Profile
  | "debug" => some .debug
  | "release" => some .release
  | _ => none

/-- families whose NLRI decoder is in the model: IPv4/IPv6 unicast+multicast; phase 2: labeled (4), VPN (128),
    SR policy (73), flowspec (133, 134), RTC (1/132), EVPN (25/70) -/
def modelledFam (afi safi : Nat) : Bool :=
  ((afi == 1 || afi == 2)
      && (safi == 1 || safi == 2 || safi == 4 || safi == 128 || safi == 73 || safi == 133 || safi == 134))
    || (afi == 1 && safi == 132) || (afi == 25 && safi == 70)

def distinctKeys : List Nat → Bool
  | [] => true
  | k :: ks => !ks.contains k && distinctKeys ks

/-- `(codec <ext> <two> (fams (<afi> <safi> <addpath>)*))`; second component: all families transcribed -/
def codecOf? : Term → Option (Codec × Bool)
  | .list [.atom "codec", e, t, .list (.atom "fams" :: fs)] => do
      let ext ← asBool? e
      let two ← asBool? t
      let fams ← fs.mapM fun f =>
        match f with
        | .list [a, s, p] => do
            let afi ← asNat? a
            let safi ← asNat? s
            let ap ← asBool? p
            if afi > 65535 ∨ safi > 255 then none else some (afi, safi, ap)
        | _ => none
      if !distinctKeys (fams.map fun (a, s, _) => famKey a s) then none
      else some (⟨ext, two, fams.map fun (a, s, p) => (famKey a s, p)⟩, fams.all fun (a, s, _) => modelledFam a s)
  | _ => none

/-- a byte string: one atom `x<hex>` or a list of such atoms (concatenated; long strings are split) -/
def bytesOf? : Term → Option Bytes
  | .atom s => asBytes? (.atom s)
  | .list l => (l.mapM asBytes?).map List.flatten

def chunksOf? : Term → Option (List Bytes)
  | .list (.atom "chunks" :: cs) => cs.mapM bytesOf?
  | _ => none

/-! ### session cases (conventions of harness/common/c03_sess.rs) -/

def sessFamily (afi safi : Nat) : Bool :=
  ((afi == 1 || afi == 2) && (safi == 1 || safi == 2 || safi == 4 || safi == 128)) || (afi == 25 && safi == 70)

def be16B (n : Nat) : Bytes := [n / 256 % 256, n % 256]

/-- the optional parameters of the OPEN that negotiates codec `c` -/
def canonParams (c : Codec) : Bytes :=
  let mp : Bytes := c.fams.flatMap fun (k, _) => [1, 4] ++ be16B (k / 65536) ++ [0, k % 65536 % 256]
  let as4 : Bytes := if c.two then [] else [65, 4, 0, 0, 64888 / 256, 64888 % 256]
  let apf := c.fams.filter (·.2)
  let ap : Bytes := if apf.isEmpty then [] else
    [69, apf.length * 4 % 256] ++ apf.flatMap fun (k, _) => be16B (k / 65536) ++ [k % 65536 % 256, 2]
  let ext : Bytes := if c.ext then [6, 0] else []
  let caps := mp ++ as4 ++ ap ++ ext
  [(caps.length + 2) % 256, 2, caps.length % 256] ++ caps

def preAdmissible (c : Codec) (all : Bytes) : Bool :=
  if all.length < 19 || all[18]? != some 1 then true
  else
    let l := all[16]?.getD 0 * 256 + all[17]?.getD 0
    if l < 19 || l > 4096 || l > all.length || l < 29 then true
    else (all.drop 28).take (l - 28) == canonParams c

def sessCaseOf? (c ph ch e : Term) : Option Case := do
  let (codec, _) ← codecOf? c
  let est ← match ph with
    | .atom "est" => some true
    | .atom "pre" => some false
    | _ => none
  let chunks ← chunksOf? ch
  let eof ← asBool? e
  let famOk := codec.fams.all fun (k, _) => sessFamily (k / 65536) (k % 65536)
  if famOk && !codec.fams.isEmpty && codec.fams.length ≤ 8 && chunks.length ≤ 40
      && (est || preAdmissible codec chunks.flatten)
  then some (.sess codec est chunks eof) else none

def caseOf? : Term → Option Case
  | .list [.atom "bgp", c, ch] => do
      let (codec, allModelled) ← codecOf? c
      let chunks ← chunksOf? ch
      if allModelled then some (.bgp codec chunks) else none
  | .list [.atom "xbgp", c, ch] => do
      let (codec, _) ← codecOf? c
      let chunks ← chunksOf? ch
      some (.xbgp codec chunks)
  | .list [.atom "rtr", ch] => (chunksOf? ch).map .rtr
  | .list [.atom "bfd", b] => (bytesOf? b).map .bfd
  | .list [.atom "sess", c, ph, ch, e] => sessCaseOf? c ph ch e
  | .list [.atom "rtrs", ch, e] => do
      let chunks ← chunksOf? ch
      let eof ← asBool? e
      if chunks.length ≤ 64 then some (.rtrs chunks eof) else none
  | .list [.atom "xattr", .atom k, b] =>
      if k == "tunnel" || k == "psid" || k == "ls" then (bytesOf? b).map (.xattr k) else none
  | _ => none

/-! ## observations (printing) -/

def pnlriT (n : PNlri) : Term := list [nat n.id, nat n.mask, bytes n.addr]
def nhT : Option Bytes → Term
  | none => sym "none"
  | some b => bytes b

def attrT (a : Attr) : Term :=
  match a.data with
  | .val v => list [nat a.code, nat a.flags, sym "val", nat v]
  | .bin b => list [nat a.code, nat a.flags, sym "bin", bytes b]
  | .opq b => list [nat a.code, nat a.flags, sym "opq", bytes b]

def capT : Cap → Term
  | .mp f => tag "mp" [nat f]
  | .rr => sym "rr"
  | .enh l => tag "enh" (l.map fun (f, a) => list [nat f, nat a])
  | .extmsg => sym "extmsg"
  | .gr fl t l => tag "gr" [nat fl, nat t, list (l.map fun (f, x) => list [nat f, nat x])]
  | .as4 n => tag "as4" [nat n]
  | .addpath l => tag "addpath" (l.map fun (f, m) => list [nat f, nat m])
  | .err => sym "err"
  | .llgr l => tag "llgr" (l.map fun (f, fl, t) => list [nat f, nat fl, nat t])
  | .fqdn => sym "fqdn"
  | .unk c b => tag "unk" [nat c, bytes b]

def reachT : Option Reach → Term
  | none => sym "none"
  | some r => list [nat r.fam, nhT r.nh, list (r.entries.map pnlriT)]
def unreachT : Option Unreach → Term
  | none => sym "none"
  | some r => list [nat r.fam, list (r.entries.map pnlriT)]

def msgT : Msg → Term
  | .open a h r caps => tag "open" [nat a, nat h, nat r, list (caps.map capT)]
  | .update r mr u mu attrs errs =>
      tag "update" [reachT r, reachT mr, unreachT u, unreachT mu, list (attrs.map attrT),
                    list (errs.map fun (c, f) => list [nat c, nat f])]
  | .eor f => tag "eor" [nat f]
  | .notif c s d => tag "notif" [nat c, nat s, bytes d]
  | .keepalive => sym "keepalive"
  | .refresh f => tag "refresh" [nat f]

def recT : Rec → Term
  | .msg n rem m => tag "msg" [nat n, nat rem, msgT m]
  | .more rem => tag "more" [nat rem]
  | .err e n rem => tag "err" [nat e.code, nat e.sub, bytes e.data, nat n, nat rem]
  | .panic => list [sym "panic"]
  | .stall => list [sym "stall"]

def rtrMsgT : RtrMsg → Term
  | .serialNotify s n => tag "serial-notify" [nat s, nat n]
  | .serialQuery s n => tag "serial-query" [nat s, nat n]
  | .resetQuery => sym "reset-query"
  | .cacheResponse s => tag "cache-response" [nat s]
  | .prefix f m ml a asn => tag "prefix" [nat f, nat m, nat ml, bytes a, nat asn]
  | .endOfData s n a b c => tag "end-of-data" [nat s, nat n, nat a, nat b, nat c]
  | .cacheReset => sym "cache-reset"
  | .errorReport c => tag "error-report" [nat c]
  | .unsupported t => tag "unsupported" [nat t]

def rrecT : RRec → Term
  | .pdu n rem m => tag "pdu" [nat n, nat rem, rtrMsgT m]
  | .more rem => tag "more" [nat rem]
  | .err n rem => tag "err" [nat n, nat rem]
  | .panic => list [sym "panic"]
  | .stall => list [sym "stall"]

def bfdT : Out (Except BfdErr BfdMsg) → Term
  | .ok (.ok m) => tag "bfd" [nat m.diag, nat m.state, bool m.poll, bool m.final, bool m.cpi, bool m.demand,
      nat m.mult, nat m.myDisc, nat m.yourDisc, nat m.minTx, nat m.minRx, nat m.minEchoRx]
  | .ok (.error e) =>
      tag "bfd-err" [match e with
        | .badLength n => tag "bad-length" [nat n]
        | .badVersion v => tag "bad-version" [nat v]
        | .badState v => tag "bad-state" [nat v]
        | .badDiag v => tag "bad-diag" [nat v]
        | .io => sym "io"]
  | _ => list [sym "panic"]

def sstateT : Sess.SState → Term
  | .opensent => sym "opensent"
  | .openconfirm => sym "openconfirm"
  | .established => sym "established"

def sobsT (o : Sess.SObs) : Term :=
  let st := match o.status with
    | .up s => tag "up" [sstateT s]
    | .closed => list [sym "closed"]
    | .panic => list [sym "panic"]
    | .wedge => list [sym "wedge"]
    | .storm => list [sym "storm"]
  tag "sess-obs" ([st, tag "notifs" (o.notifs.map fun (a, b) => list [nat a, nat b])] ++
    (if o.capExceeded then [sym "cap-exceeded"] else []))

def robsT (o : Sess.RObs) : Term :=
  let st := match o.status with
    | .done => "done" | .waiting => "waiting" | .panic => "panic" | .wedge => "wedge" | .storm => "storm"
  tag "rtrs-obs" [list [sym st], nat o.rx]

def robsOf? : Term → Option Sess.RObs
  | .list [.atom "rtrs-obs", .list [.atom st], n] => do
      let status ← match st with
        | "done" => some Sess.RStatus.done | "waiting" => some .waiting | "panic" => some .panic
        | "wedge" => some .wedge | "storm" => some .storm | _ => none
      pure ⟨status, ← asNat? n⟩
  | _ => none

def sobsOf? : Term → Option Sess.SObs
  | .list (.atom "sess-obs" :: st :: .list (.atom "notifs" :: ns) :: rest) => do
      let status ← match st with
        | .list [.atom "up", .atom "opensent"] => some (Sess.Status.up .opensent)
        | .list [.atom "up", .atom "openconfirm"] => some (Sess.Status.up .openconfirm)
        | .list [.atom "up", .atom "established"] => some (Sess.Status.up .established)
        | .list [.atom "closed"] => some .closed
        | .list [.atom "panic"] => some .panic
        | .list [.atom "wedge"] => some .wedge
        | .list [.atom "storm"] => some .storm
        | _ => none
      let notifs ← ns.mapM fun n => match n with
        | .list [a, b] => do pure ((← asNat? a), (← asNat? b))
        | _ => none
      pure ⟨status, notifs, rest == [.atom "cap-exceeded"]⟩
  | _ => none

/-- the model's observation of a case -/
def runCase (p : Profile) : Case → Term
  | .bgp c chunks => tag "obs" ((bgpStream (decP3 p noHypDec) p c [] chunks).map recT)
  | .xbgp _ _ => list [sym "hyp"]
  | .xattr _ _ => list [sym "hyp"]
  | .sess c est chunks eof => sobsT (Sess.runSess (decP3 p noHypDec) p c est chunks eof)
  | .rtrs chunks eof => robsT (Sess.runRtrSess chunks eof)
  | .rtr chunks => tag "obs" ((rtrStream [] chunks).map rrecT)
  | .bfd b => tag "obs" [bfdT (bfdDecode b)]

/-! ## observations (parsing, for the oracle) -/

open Spec in
def srecOf? : Term → Option SRec
  | .list [.atom "panic"] => some .panic
  | .list [.atom "stall"] => some .stall
  | .list [.atom "msg", n, r, _] => do pure (.msg (← asNat? n) (← asNat? r))
  | .list [.atom "pdu", n, r, _] => do pure (.msg (← asNat? n) (← asNat? r))
  | .list [.atom "more", r] => do pure (.more (← asNat? r))
  | .list [.atom "err", c, sc, _, n, r] => do pure (.errc (← asNat? n) (← asNat? r) (← asNat? c) (← asNat? sc))
  | .list [.atom "err", n, r] => do pure (.err (← asNat? n) (← asNat? r))
  | _ => none

def verdictStr : Spec.Verdict → String
  | .ok => "ok"
  | .fail i c => s!"fail idx={i} clause={c}"

/-- the C03 oracle: judge an observation (of the real code or of the model) against the spec -/
def oracle (c : Case) (obs : Term) : String :=
  match c, obs with
  | .bgp codec chunks, .list (.atom "obs" :: rs) =>
      match rs.mapM srecOf? with
      | some recs => verdictStr (Spec.checkBgpCase codec.maxLen chunks recs)
      | none => "fail idx=0 clause=unparsable-observation"
  | .rtr chunks, .list (.atom "obs" :: rs) =>
      match rs.mapM srecOf? with
      | some recs => verdictStr (Spec.checkRtrCase chunks recs)
      | none => "fail idx=0 clause=unparsable-observation"
  | .bfd b, .list [.atom "obs", .list (.atom "bfd" :: _)] => verdictStr (Spec.checkBfd b .decoded)
  | .bfd b, .list [.atom "obs", .list (.atom "bfd-err" :: _)] => verdictStr (Spec.checkBfd b .rejected)
  | .bfd b, .list [.atom "obs", .list [.atom "panic"]] => verdictStr (Spec.checkBfd b .panic)
  | .xbgp codec chunks, .list (.atom "obs" :: rs) =>
      -- impl-only exploration of the hypothesis-backed NLRI decoders: same structural judgement
      match rs.mapM srecOf? with
      | some recs => verdictStr (Spec.checkBgpCase codec.maxLen chunks recs)
      | none => "fail idx=0 clause=unparsable-observation"
  | .rtrs _ eof, o =>
      match robsOf? o with
      | some ro => verdictStr (Sess.checkRtrSess eof ro)
      | none => "fail idx=0 clause=unparsable-observation"
  | .sess _ _ _ eof, o =>
      match sobsOf? o with
      | some so => verdictStr (Sess.checkSess eof so)
      | none => "fail idx=0 clause=unparsable-observation"
  | .xattr _ _, .list [.atom "obs", .list [.atom "done"]] => verdictStr (Spec.checkAttrBody .done)
  | .xattr _ _, .list [.atom "obs", .list [.atom "panic"]] => verdictStr (Spec.checkAttrBody .panic)
  | .xattr _ _, .list [.atom "obs", .list [.atom "stall"]] => verdictStr (Spec.checkAttrBody .stall)
  | _, _ => "fail idx=0 clause=unparsable-observation"

/-- evidence only: case kind and, for errors, the NOTIFICATION class that was judged -/
def stats (c : Case) (obs : Term) : String :=
  let kind := match c with
    | .bgp _ _ => "bgp" | .xbgp _ _ => "xbgp" | .rtr _ => "rtr" | .bfd _ => "bfd" | .xattr k _ => s!"xattr-{k}"
    | .sess _ est _ eof => s!"sess-{if est then "est" else "pre"}{if eof then "-eof" else ""}"
    | .rtrs _ eof => s!"rtrs{if eof then "-eof" else ""}"
  let errs := match obs with
    | .list (.atom "obs" :: rs) =>
        rs.filterMap fun (r : Term) => match r with
          | .list [.atom "err", .atom code, .atom sub, _, _, _] => some s!"err-class:{kind}:{code}/{sub}=1"
          | .list [.atom "err", _, _] => some s!"err:{kind}=1"
          | .list (.atom "msg" :: _) => some s!"msg:{kind}=1"
          | .list (.atom "pdu" :: _) => some s!"pdu:{kind}=1"
          | _ => none
    | _ => []
  let sess := match c, sobsOf? obs with
    | .sess _ _ _ _, some so =>
        [match so.status with
          | .up st => s!"sess-outcome:up-{match st with | .opensent => "opensent" | .openconfirm => "openconfirm" | .established => "established"}=1"
          | .closed => if so.notifs.isEmpty then "sess-outcome:closed-silently=1" else s!"sess-outcome:closed-notif-{(so.notifs.headD (0,0)).1}=1"
          | _ => "sess-outcome:bad=1"]
    | .rtrs _ _, _ =>
        (match robsOf? obs with
         | some ro => [s!"rtrs-outcome:{match ro.status with | .done => "done" | .waiting => "waiting" | _ => "bad"}=1"]
         | none => [])
    | _, _ => []
  " ".intercalate (s!"judged:{kind}=1" :: errs.eraseDups ++ sess)

end Rbgp.Wire.Codec
