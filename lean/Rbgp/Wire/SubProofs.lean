/-
  Rbgp.Wire.SubProofs — C03: the sub-decoders of `Capability::decode` and `Attribute::decode` written with the
  fixed-width arithmetic and the indexing of the source (`capDecodeW`, `attrDecodeW`) never panic, in either profile,
  and compute what the list-style definitions (`capDecode`, `attrDecode`) say.  So "never panics" below the
  capability / attribute level is a theorem about the guards and the widths, not a property of the notation.
-/
import Rbgp.Wire.Model
namespace Rbgp.Wire

/-! ## reads at a position vs. the rest of the list -/

theorem rd8_drop {b : Bytes} {i x : Nat} {r : Bytes} (h : b.drop i = x :: r) : rd8 b i = .ok x := by
  unfold rd8
  have : b[i]? = some x := by
    have := congrArg (·[0]?) h
    simpa using this
  rw [this]

theorem drop_succ_of_drop {b : Bytes} {i x : Nat} {r : Bytes} (h : b.drop i = x :: r) : b.drop (i + 1) = r := by
  have : b.drop (i + 1) = (b.drop i).drop 1 := by rw [List.drop_drop]
  rw [this, h]; rfl

theorem drop_add_of_drop {b : Bytes} {i : Nat} (k : Nat) : b.drop (i + k) = (b.drop i).drop k := by
  rw [List.drop_drop]

theorem drop_length_cons {b : Bytes} {i : Nat} (h : i < b.length) : ∃ x r, b.drop i = x :: r := by
  cases hd : b.drop i with
  | nil => simp at hd; omega
  | cons x r => exact ⟨x, r, rfl⟩

/-! ## capabilities -/

theorem capGrW_eq (p : Profile) (rest : Bytes) (len : Nat) : capGrW p rest len = .ok (capGr rest len) := by
  unfold capGrW capGr
  split
  · rfl
  · rename_i h
    split
    · rfl
    · have : 2 ≤ len := by omega
      unfold subU8
      rw [if_pos this]
      rfl

theorem addU64_ok {p : Profile} {a b : Nat} (h : a + b < 18446744073709551616) : addU64 p a b = .ok (a + b) := by
  unfold addU64; rw [if_pos h]

theorem capFqdnW_eq (p : Profile) (rest : Bytes) (len : Nat) : capFqdnW p rest len = .ok (capFqdn rest len) := by
  unfold capFqdnW capFqdn
  split
  · rfl
  · split
    · rfl
    · rename_i hostlen rest1
      by_cases hh : hostlen ≥ 256
      · rw [if_pos hh, if_pos (Or.inl hh)]
      · rw [if_neg hh, addU64_ok (by omega)]
        simp only [Out.bind_ok]
        by_cases hs : hostlen + 2 > len
        · rw [if_pos hs, if_pos (Or.inr hs)]
        · rw [if_neg hs, if_neg (by omega)]
          split
          · rfl
          · split
            · rfl
            · rename_i domainlen rest3 _
              by_cases hd : domainlen ≥ 256
              · rw [if_pos hd, if_pos (Or.inl hd)]
              · rw [if_neg hd, addU64_ok (by omega)]
                simp only [Out.bind_ok]
                rw [addU64_ok (by omega)]
                simp only [Out.bind_ok]
                by_cases hs2 : 2 + hostlen + domainlen > len
                · rw [if_pos hs2, if_pos (Or.inr hs2)]
                · rw [if_neg hs2, if_neg (by omega)]
                  split <;> rfl

/-- the capability decoder with the source's fixed-width arithmetic never overflows and is `capDecode` -/
theorem capDecodeW_eq (p : Profile) (code : Nat) (rest : Bytes) (len : Nat) :
    capDecodeW p code rest len = .ok (capDecode code rest len) := by
  unfold capDecodeW
  split
  · rename_i h; subst h; rw [capGrW_eq]; rfl
  · split
    · rename_i h; subst h; rw [capFqdnW_eq]; rfl
    · rfl

/-! ## attributes -/

theorem widenW_eq (b : Bytes) : ∀ (n start : Nat), start + n * 2 ≤ b.length →
    widenW b start n = .ok (widen ((b.drop start).take (n * 2))) := by
  intro n
  induction n with
  | zero => intro start _; simp [widenW, widen]
  | succ n ih =>
    intro start h
    obtain ⟨x, r, hx⟩ := drop_length_cons (b := b) (i := start) (by omega)
    have hr : b.drop (start + 1) = r := drop_succ_of_drop hx
    obtain ⟨y, r2, hy⟩ := drop_length_cons (b := b) (i := start + 1) (by omega)
    have hr2 : b.drop (start + 2) = r2 := drop_succ_of_drop hy
    unfold widenW
    rw [rd8_drop hx, rd8_drop hy]
    simp only [Out.bind_ok]
    rw [ih (start + 2) (by omega)]
    simp only [Out.bind_ok]
    rw [hx]
    rw [hr] at hy
    subst hy
    rw [hr2]
    have e : (n + 1) * 2 = n * 2 + 2 := by omega
    rw [e]
    simp [List.take_succ_cons, widen]

theorem asPathUpW_eq (b : Bytes) : ∀ (fuel pos : Nat) (out : Bytes), pos ≤ b.length → b.length - pos < fuel →
    asPathUpW b fuel pos out = .ok (asPathUp fuel (b.drop pos) out) := by
  intro fuel
  induction fuel with
  | zero => intro pos out _ h; omega
  | succ fuel ih =>
    intro pos out hp hf
    unfold asPathUpW
    by_cases hlt : pos < b.length
    · rw [if_pos hlt]
      obtain ⟨t, r, ht⟩ := drop_length_cons hlt
      by_cases h2 : pos + 2 > b.length
      · rw [if_pos h2]
        have : r = [] := by
          have := congrArg List.length ht
          simp at this
          cases r with
          | nil => rfl
          | cons _ _ => simp at this; omega
        subst this
        rw [ht]; simp [asPathUp]
      · rw [if_neg h2]
        have hr : b.drop (pos + 1) = r := drop_succ_of_drop ht
        obtain ⟨c, r2, hc⟩ := drop_length_cons (b := b) (i := pos + 1) (by omega)
        have hr2 : b.drop (pos + 2) = r2 := drop_succ_of_drop hc
        rw [rd8_drop ht, rd8_drop hc]
        simp only [Out.bind_ok]
        rw [hr] at hc; subst hc
        rw [ht]
        unfold asPathUp
        by_cases hbad : (!segTypeOk t || c == 0) = true
        · rw [if_pos hbad, if_pos hbad]
        · rw [if_neg hbad, if_neg hbad]
          have hr2len : r2.length = b.length - (pos + 2) := by rw [← hr2]; simp
          by_cases hend : pos + 2 + c * 2 > b.length
          · rw [if_pos hend, if_pos (by omega)]
          · rw [if_neg hend, if_neg (by omega)]
            rw [widenW_eq b c (pos + 2) (by omega)]
            simp only [Out.bind_ok]
            rw [ih (pos + 2 + c * 2) _ (by omega) (by omega)]
            rw [hr2, drop_add_of_drop (c * 2), hr2]
    · rw [if_neg hlt]
      have : b.drop pos = [] := by simp; omega
      rw [this]
      simp [asPathUp]

theorem asPathOkW_eq (b : Bytes) : ∀ (fuel pos : Nat), pos ≤ b.length → b.length - pos < fuel →
    asPathOkW b fuel pos = .ok (asPathOk true fuel (b.drop pos)) := by
  intro fuel
  induction fuel with
  | zero => intro pos _ h; omega
  | succ fuel ih =>
    intro pos hp hf
    unfold asPathOkW
    by_cases hlt : pos < b.length
    · rw [if_pos hlt]
      obtain ⟨t, r, ht⟩ := drop_length_cons hlt
      by_cases h2 : pos + 2 > b.length
      · rw [if_pos h2]
        have : r = [] := by
          have := congrArg List.length ht
          simp at this
          cases r with
          | nil => rfl
          | cons _ _ => simp at this; omega
        subst this
        rw [ht]; simp [asPathOk]
      · rw [if_neg h2]
        have hr : b.drop (pos + 1) = r := drop_succ_of_drop ht
        obtain ⟨c, r2, hc⟩ := drop_length_cons (b := b) (i := pos + 1) (by omega)
        have hr2 : b.drop (pos + 2) = r2 := drop_succ_of_drop hc
        rw [rd8_drop ht, rd8_drop hc]
        simp only [Out.bind_ok]
        rw [hr] at hc; subst hc
        rw [ht]
        unfold asPathOk
        simp only [Bool.true_and]
        by_cases hbad : (!segTypeOk t || c == 0) = true
        · rw [if_pos hbad, if_pos hbad]
        · rw [if_neg hbad, if_neg hbad]
          have hr2len : r2.length = b.length - (pos + 2) := by rw [← hr2]; simp
          by_cases hend : pos + 2 + c * 4 > b.length
          · rw [if_pos hend, if_pos (by omega)]
          · rw [if_neg hend, if_neg (by omega)]
            rw [ih (pos + 2 + c * 4) (by omega) (by omega)]
            rw [drop_add_of_drop (c * 4), hr2]
    · rw [if_neg hlt]
      have : b.drop pos = [] := by simp; omega
      rw [this]
      simp [asPathOk]

theorem aigpOkW_eq (b : Bytes) : ∀ (fuel pos : Nat), pos ≤ b.length → b.length - pos < fuel →
    aigpOkW b fuel pos = .ok (aigpOk fuel (b.drop pos)) := by
  intro fuel
  induction fuel with
  | zero => intro pos _ h; omega
  | succ fuel ih =>
    intro pos hp hf
    unfold aigpOkW
    by_cases hlt : pos < b.length
    · rw [if_pos hlt]
      obtain ⟨t, r, ht⟩ := drop_length_cons hlt
      have hrlen : r.length + 1 = b.length - pos := by
        have := congrArg List.length ht; simp at this; omega
      by_cases h3 : pos + 3 > b.length
      · rw [if_pos h3, ht]
        unfold aigpOk
        match r, hrlen with
        | [], _ => rfl
        | [_], _ => rfl
        | _ :: _ :: _, h => simp at h; omega
      · rw [if_neg h3]
        have hr : b.drop (pos + 1) = r := drop_succ_of_drop ht
        obtain ⟨lh, r2, hlh⟩ := drop_length_cons (b := b) (i := pos + 1) (by omega)
        have hr2 : b.drop (pos + 2) = r2 := drop_succ_of_drop hlh
        obtain ⟨ll, r3, hll⟩ := drop_length_cons (b := b) (i := pos + 2) (by omega)
        have hr3 : b.drop (pos + 3) = r3 := drop_succ_of_drop hll
        rw [rd8_drop hlh, rd8_drop hll]
        simp only [Out.bind_ok]
        rw [hr] at hlh; subst hlh
        rw [hr2] at hll; subst hll
        rw [ht]
        unfold aigpOk
        simp only
        have hr3len : r3.length = b.length - (pos + 3) := by rw [← hr3]; simp
        by_cases hbad : lh * 256 + ll < 3 ∨ pos + (lh * 256 + ll) > b.length
        · rw [if_pos hbad, if_pos (by omega)]
        · rw [if_neg hbad, if_neg (by omega)]
          rw [ih (pos + (lh * 256 + ll)) (by omega) (by omega)]
          have e : pos + (lh * 256 + ll) = pos + 3 + (lh * 256 + ll - 3) := by omega
          rw [e, drop_add_of_drop, hr3]
    · rw [if_neg hlt]
      have : b.drop pos = [] := by simp; omega
      rw [this]
      simp [aigpOk]

/-- `Attribute::decode` with explicit indexing never reads out of range and is `attrDecode` -/
theorem attrDecodeW_eq (code : Nat) (data : Bytes) (len : Nat) (two : Bool) :
    attrDecodeW code data len two = .ok (attrDecode code data len two) := by
  unfold attrDecodeW attrDecode
  by_cases hl : data.length ≠ len
  · rw [if_pos hl, if_pos hl]
  · rw [if_neg hl, if_neg hl]
    have hlen : data.length = len := by omega
    by_cases h2 : code = 2
    · subst h2
      simp only [if_true, Nat.reduceEqDiff, if_false, or_self]
      unfold decAsPathW decAsPath
      cases two with
      | true =>
        simp only [if_true]
        rw [asPathUpW_eq data _ 0 [] (by omega) (by omega)]
        simp
      | false =>
        simp only [Bool.false_eq_true, if_false]
        rw [asPathOkW_eq data _ 0 (by omega) (by omega)]
        simp
    · rw [if_neg h2]
      by_cases h7 : code = 7
      · subst h7
        simp only [if_true, Nat.reduceEqDiff, if_false, or_self]
        unfold decAggregatorW decAggregator
        by_cases hb : len ≠ 6 ∧ len ≠ 8
        · rw [if_pos hb, if_pos hb]
        · rw [if_neg hb, if_neg hb]
          by_cases h6 : len = 6
          · rw [if_pos h6, if_pos h6]
            match data, hlen with
            | [a, b, c, d, e, f], _ =>
              simp [rd8, slice, Out.bind_ok]
            | [], h => simp at h; omega
            | [_], h => simp at h; omega
            | [_, _], h => simp at h; omega
            | [_, _, _], h => simp at h; omega
            | [_, _, _, _], h => simp at h; omega
            | [_, _, _, _, _], h => simp at h; omega
            | _ :: _ :: _ :: _ :: _ :: _ :: _ :: _, h => simp at h; omega
          · rw [if_neg h6, if_neg h6]
      · rw [if_neg h7]
        by_cases h17 : code = 17
        · subst h17
          simp only [if_true, Nat.reduceEqDiff, if_false, or_self]
          unfold decAs4PathW decAs4Path
          split
          · rfl
          · rw [asPathOkW_eq data _ 0 (by omega) (by omega)]
            simp
        · rw [if_neg h17]
          by_cases h26 : code = 26
          · subst h26
            simp only [if_true, Nat.reduceEqDiff, if_false, or_self]
            unfold decAigpW decAigp
            rw [aigpOkW_eq data _ 0 (by omega) (by omega)]
            simp
          · -- the remaining arms read through the cursor only
            rw [if_neg h26]

theorem attrDecodedW_eq (two : Bool) (buf : Bytes) (s : AState) (flags code alen pos : Nat) :
    attrDecodedW two buf s flags code alen pos = .ok (attrDecoded two buf s flags code alen pos) := by
  unfold attrDecodedW attrDecoded
  rw [attrDecodeW_eq]
  simp only [Out.bind_ok]
  split
  · rfl
  · split <;> rfl

theorem attrKnownW_eq (two : Bool) (buf : Bytes) (s : AState) (flags code alen pos expected : Nat) :
    attrKnownW two buf s flags code alen pos expected = .ok (attrKnown two buf s flags code alen pos expected) := by
  unfold attrKnownW attrKnown
  simp only
  split
  · rfl
  · exact attrDecodedW_eq ..

end Rbgp.Wire
