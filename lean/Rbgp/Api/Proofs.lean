/-
  Rbgp.Api.Proofs — lemmas for C17 (see Props.lean for the readable statements).
-/
import Rbgp.Api.Model
import Rbgp.Api.Spec
namespace Rbgp.Api
open Rbgp.Api.Spec

/-! ## lists -/

theorem snoc_induction {α} {P : List α → Prop} (hnil : P [])
    (hsnoc : ∀ l x, P l → P (l ++ [x])) : ∀ l, P l := by
  have h : ∀ l : List α, P l.reverse := by
    intro l
    induction l with
    | nil => simpa using hnil
    | cons x l ih => simpa using hsnoc _ x ih
  intro l
  simpa using h l.reverse

/-! ## big-endian fields -/

theorem beN_length (k n : Nat) : (beN k n).length = k := by
  induction k generalizing n with
  | zero => rfl
  | succ k ih => simp [beN, ih]

theorem beN_lt (k n : Nat) : ∀ b ∈ beN k n, b < 256 := by
  induction k generalizing n with
  | zero => simp [beN]
  | succ k ih =>
      intro b hb
      simp only [beN, List.mem_append, List.mem_singleton] at hb
      rcases hb with hb | hb
      · exact ih _ b hb
      · omega

theorem ofBe_append (a b : Bytes) : ofBe (a ++ b) = ofBe a * 256 ^ b.length + ofBe b := by
  unfold ofBe
  induction b using snoc_induction with
  | hnil => simp
  | hsnoc bs x ih =>
      rw [← List.append_assoc, List.foldl_append, List.foldl_append]
      simp only [List.foldl_cons, List.foldl_nil, List.length_append, List.length_singleton]
      rw [List.foldl_append] at ih
      rw [ih, Nat.pow_succ]
      rw [Nat.add_mul, Nat.mul_assoc, Nat.add_assoc]
      simp [List.foldl_append]

theorem ofBe_singleton (x : Nat) : ofBe [x] = x := by simp [ofBe]

theorem ofBe_beN (k n : Nat) : ofBe (beN k n) = n % 256 ^ k := by
  induction k generalizing n with
  | zero => simp [beN, ofBe, Nat.mod_one]
  | succ k ih =>
      simp only [beN]
      rw [ofBe_append, ih, ofBe_singleton]
      simp only [List.length_singleton, Nat.pow_one]
      rw [Nat.pow_succ]
      have h := Nat.mod_mul_right_div_self n 256 (256 ^ k)
      -- n % (256 * 256^k) = 256 * (n/256 % 256^k) + n % 256
      have h2 : n % (256 ^ k * 256) = (n / 256 % 256 ^ k) * 256 + n % 256 := by
        rw [Nat.mul_comm (256 ^ k) 256, Nat.mod_mul, Nat.mul_comm, Nat.add_comm]
      omega

theorem ofBe_lt (bs : Bytes) (h : ∀ b ∈ bs, b < 256) : ofBe bs < 256 ^ bs.length := by
  induction bs using snoc_induction with
  | hnil => simp [ofBe]
  | hsnoc bs x ih =>
      rw [ofBe_append, ofBe_singleton]
      simp only [List.length_append, List.length_singleton, Nat.pow_succ]
      have hx : x < 256 := h x (by simp)
      have := ih (fun b hb => h b (by simp [hb]))
      have : (ofBe bs + 1) * 256 ≤ 256 ^ bs.length * 256 := Nat.mul_le_mul_right _ this
      omega

theorem beN_ofBe (bs : Bytes) (h : ∀ b ∈ bs, b < 256) : beN bs.length (ofBe bs) = bs := by
  induction bs using snoc_induction with
  | hnil => simp [beN]
  | hsnoc bs x ih =>
      have hx : x < 256 := h x (by simp)
      have hbs : ∀ b ∈ bs, b < 256 := fun b hb => h b (by simp [hb])
      simp only [List.length_append, List.length_singleton, beN]
      rw [ofBe_append, ofBe_singleton]
      simp only [List.length_singleton, Nat.pow_one]
      have h1 : (ofBe bs * 256 + x) / 256 = ofBe bs := by omega
      have h2 : (ofBe bs * 256 + x) % 256 = x := by omega
      rw [h1, h2, ih hbs]

theorem beN_ofBe' (k : Nat) (bs : Bytes) (hk : bs.length = k) (h : ∀ b ∈ bs, b < 256) :
    beN k (ofBe bs) = bs := by
  subst hk; exact beN_ofBe bs h

/-! ## chunked values -/

def AllB (bs : Bytes) : Prop := ∀ b ∈ bs, b < 256

theorem allB_of_isBytes {bs : Bytes} (h : Rbgp.Api.isBytes bs = true) : AllB bs := by
  intro b hb
  simp only [Rbgp.Api.isBytes, List.all_eq_true, decide_eq_true_eq] at h
  exact h b hb

theorem AllB.take {bs : Bytes} (h : AllB bs) (n : Nat) : AllB (bs.take n) :=
  fun b hb => h b (List.mem_of_mem_take hb)
theorem AllB.drop {bs : Bytes} (h : AllB bs) (n : Nat) : AllB (bs.drop n) :=
  fun b hb => h b (List.mem_of_mem_drop hb)
theorem AllB.tail {x : Nat} {bs : Bytes} (h : AllB (x :: bs)) : AllB bs :=
  fun b hb => h b (List.mem_cons_of_mem _ hb)
theorem AllB.head {x : Nat} {bs : Bytes} (h : AllB (x :: bs)) : x < 256 := h x (by simp)
theorem AllB.append {a b : Bytes} (ha : AllB a) (hb : AllB b) : AllB (a ++ b) := by
  intro x hx
  rcases List.mem_append.mp hx with h | h
  · exact ha x h
  · exact hb x h

theorem exists_four {bs : Bytes} (h : 4 ≤ bs.length) : ∃ a b c d rest, bs = a :: b :: c :: d :: rest := by
  match bs, h with
  | a :: b :: c :: d :: rest, _ => exact ⟨a, b, c, d, rest, rfl⟩

theorem u32s_length (n : Nat) (bs : Bytes) (h : n * 4 ≤ bs.length) : (u32s n bs).length = n := by
  induction n generalizing bs with
  | zero => simp [u32s]
  | succ n ih =>
      obtain ⟨a, b, c, d, rest, rfl⟩ := exists_four (bs := bs) (by omega)
      simp only [u32s, List.length_cons]
      rw [ih rest (by simp only [List.length_cons] at h; omega)]

theorem u32s_flatMap (n : Nat) (bs : Bytes) (h : n * 4 ≤ bs.length) (hb : AllB bs) :
    (u32s n bs).flatMap (beN 4) = bs.take (n * 4) := by
  induction n generalizing bs with
  | zero => simp [u32s]
  | succ n ih =>
      obtain ⟨a, b, c, d, rest, rfl⟩ := exists_four (bs := bs) (by omega)
      have hr : AllB rest := hb.tail.tail.tail.tail
      have h4 : beN 4 (ofBe [a, b, c, d]) = [a, b, c, d] :=
        beN_ofBe' 4 [a, b, c, d] rfl (fun x hx => hb x (by
          simp only [List.mem_cons, List.not_mem_nil, or_false] at hx
          rcases hx with h | h | h | h <;> simp [h]))
      simp only [u32s, List.flatMap_cons, h4]
      rw [ih rest (by simp only [List.length_cons] at h; omega) hr]
      have : (n + 1) * 4 = n * 4 + 4 := by omega
      rw [this]
      simp [List.take_succ_cons]

theorem u32s_lt (n : Nat) (bs : Bytes) (hb : AllB bs) : ∀ x ∈ u32s n bs, x < 4294967296 := by
  induction n generalizing bs with
  | zero => simp [u32s]
  | succ n ih =>
      match bs, hb with
      | [], _ => simp [u32s]
      | [_], _ => simp [u32s]
      | [_, _], _ => simp [u32s]
      | [_, _, _], _ => simp [u32s]
      | a :: b :: c :: d :: rest, hb =>
          intro x hx
          simp only [u32s, List.mem_cons] at hx
          rcases hx with hx | hx
          · subst hx
            have := ofBe_lt [a, b, c, d] (fun x hx => hb x (by
              simp only [List.mem_cons, List.not_mem_nil, or_false] at hx
              rcases hx with h | h | h | h <;> simp [h]))
            simpa using this
          · exact ih rest hb.tail.tail.tail.tail x hx

/-! ## AS_PATH walks -/

def encSeg (s : Nat × List Nat) : Bytes := [s.1 % 256, s.2.length % 256] ++ s.2.flatMap (beN 4)

theorem asPathToSegs_spec (bs : Bytes) (h : segsOk bs = true) (hb : AllB bs) :
    ∃ segs, asPathToSegs bs = .ok segs ∧ segs.flatMap encSeg = bs ∧
      ∀ s ∈ segs, (1 ≤ s.1 ∧ s.1 ≤ 4) ∧ s.2.length ≤ 255 := by
  fun_induction segsOk bs with
  | case1 => exact ⟨[], by simp [asPathToSegs], rfl, by simp⟩
  | case2 => simp at h
  | case3 t l rest hc ih =>
      obtain ⟨ht1, ht4, hl⟩ := hc
      have hrest : AllB rest := hb.tail.tail
      have hl256 : l < 256 := hb.tail.head
      have ht256 : t < 256 := hb.head
      obtain ⟨segs, h1, h2, h3⟩ := ih h (hrest.drop _)
      refine ⟨(t, u32s l rest) :: segs, ?_, ?_, ?_⟩
      · rw [asPathToSegs]; simp [hl, h1, Out.map]
      · simp only [List.flatMap_cons, encSeg, h2]
        rw [u32s_length l rest hl, u32s_flatMap l rest hl hrest]
        rw [Nat.mod_eq_of_lt ht256, Nat.mod_eq_of_lt hl256]
        simp [List.take_append_drop]
      · intro s hs
        rcases List.mem_cons.mp hs with rfl | hs
        · refine ⟨⟨ht1, ht4⟩, ?_⟩
          simp only [u32s_length l rest hl]; omega
        · exact h3 s hs
  | case4 t l rest hc => simp at h

theorem segments_eq (bs : Bytes) : Spec.segments bs = segsOk bs := by
  fun_induction segsOk bs with
  | case1 => simp [Spec.segments]
  | case2 => simp [Spec.segments]
  | case3 t l rest hc ih => rw [Spec.segments]; simp [hc, ih]
  | case4 t l rest hc => rw [Spec.segments]; simp [hc]

theorem segmentsNonEmpty_eq (bs : Bytes) : Spec.segmentsNonEmpty bs = segs4Ok bs := by
  fun_induction segs4Ok bs with
  | case1 => simp [Spec.segmentsNonEmpty]
  | case2 => simp [Spec.segmentsNonEmpty]
  | case3 t l rest hc ih => rw [Spec.segmentsNonEmpty]; simp [hc, ih]
  | case4 t l rest hc => rw [Spec.segmentsNonEmpty]; simp [hc]

theorem flatMap_beN4_length (ns : List Nat) : (ns.flatMap (beN 4)).length = ns.length * 4 := by
  induction ns with
  | nil => rfl
  | cons n ns ih => simp [List.flatMap_cons, beN_length, ih]; omega

theorem flatMap_beN_allB (k : Nat) (ns : List Nat) : AllB (ns.flatMap (beN k)) := by
  intro b hb
  rcases List.mem_flatMap.mp hb with ⟨n, _, hn⟩
  exact beN_lt k n b hn

theorem segsOk_enc (segs : List (Nat × List Nat))
    (h : ∀ s ∈ segs, (1 ≤ s.1 ∧ s.1 ≤ 4) ∧ s.2.length ≤ 255) : segsOk (segs.flatMap encSeg) = true := by
  induction segs with
  | nil => simp [segsOk]
  | cons s tl ih =>
      obtain ⟨⟨h1, h4⟩, hl⟩ := h s (by simp)
      have ht : s.1 % 256 = s.1 := Nat.mod_eq_of_lt (by omega)
      have hlen : s.2.length % 256 = s.2.length := Nat.mod_eq_of_lt (by omega)
      simp only [List.flatMap_cons, encSeg, ht, hlen, List.cons_append, List.nil_append, List.append_assoc]
      rw [segsOk]
      have hp : (s.2.flatMap (beN 4)).length = s.2.length * 4 := flatMap_beN4_length _
      have hle : s.2.length * 4 ≤ (s.2.flatMap (beN 4) ++ tl.flatMap encSeg).length := by
        rw [List.length_append, hp]; omega
      simp only [h1, h4, hle, and_self, if_true]
      rw [← hp, List.drop_left]
      exact ih (fun s hs => h s (List.mem_cons_of_mem _ hs))

theorem encSeg_allB (segs : List (Nat × List Nat)) : AllB (segs.flatMap encSeg) := by
  intro b hb
  rcases List.mem_flatMap.mp hb with ⟨s, _, hs⟩
  simp only [encSeg, List.cons_append, List.nil_append, List.mem_cons] at hs
  rcases hs with rfl | rfl | hs
  · exact Nat.mod_lt _ (by omega)
  · exact Nat.mod_lt _ (by omega)
  · exact flatMap_beN_allB 4 _ b hs

/-- consumers of a well-formed AS_PATH value never hit an `unwrap`/`unreachable!` -/
theorem asPathLengthLoop_ok (bs : Bytes) (acc : Nat) (h : segsOk bs = true) :
    ∃ n, asPathLengthLoop bs acc = .ok n := by
  fun_induction segsOk bs generalizing acc with
  | case1 => exact ⟨acc, by simp [asPathLengthLoop]⟩
  | case2 => simp at h
  | case3 t l rest hc ih =>
      obtain ⟨ht1, ht4, _⟩ := hc
      rw [asPathLengthLoop]
      have : t = 1 ∨ t = 2 ∨ t = 3 ∨ t = 4 := by omega
      rcases this with rfl | rfl | rfl | rfl <;> simp <;> exact ih _ h
  | case4 t l rest hc => simp at h

theorem asPathOriginLoop_ok (bs : Bytes) (st : Nat × Nat × Nat) (h : segsOk bs = true) :
    ∃ r, asPathOriginLoop bs st = .ok r := by
  fun_induction segsOk bs generalizing st with
  | case1 => exact ⟨st, by simp [asPathOriginLoop]⟩
  | case2 => simp at h
  | case3 t l rest hc ih =>
      obtain ⟨_, _, hl⟩ := hc
      rw [asPathOriginLoop]
      simp only [hl, if_true]
      exact ih _ h
  | case4 t l rest hc => simp at h

theorem downgrade2_ok (bs : Bytes) (h : segsOk bs = true) : ∃ r, downgrade2 bs = .ok r := by
  fun_induction segsOk bs with
  | case1 => exact ⟨[], by simp [downgrade2]⟩
  | case2 => simp at h
  | case3 t l rest hc ih =>
      obtain ⟨_, _, hl⟩ := hc
      obtain ⟨r, hr⟩ := ih h
      rw [downgrade2]
      simp [hl, hr, Out.map]
  | case4 t l rest hc => simp at h

theorem hasWide_ok (bs : Bytes) (h : segsOk bs = true) : ∃ r, hasWide bs = .ok r := by
  fun_induction segsOk bs with
  | case1 => exact ⟨false, by simp [hasWide]⟩
  | case2 => simp at h
  | case3 t l rest hc ih =>
      obtain ⟨_, _, hl⟩ := hc
      obtain ⟨r, hr⟩ := ih h
      rw [hasWide]
      simp only [hl, if_true, hr]
      split <;> simp
  | case4 t l rest hc => simp at h

theorem stripConfed_ok (bs : Bytes) (h : segsOk bs = true) : ∃ r, stripConfed bs = .ok r := by
  fun_induction segsOk bs with
  | case1 => exact ⟨[], by simp [stripConfed]⟩
  | case2 => simp at h
  | case3 t l rest hc ih =>
      obtain ⟨_, _, hl⟩ := hc
      obtain ⟨r, hr⟩ := ih h
      rw [stripConfed]
      simp only [hl, if_true, hr]
      split <;> simp [Out.map]
  | case4 t l rest hc => simp at h

/-! ## the `Out` monad -/

@[simp] theorem Out.bind_ok' {α β} (a : α) (f : α → Out β) : (Out.ok a >>= f) = f a := rfl
@[simp] theorem Out.bind_err' {α β} (f : α → Out β) : ((Out.err : Out α) >>= f) = Out.err := rfl
@[simp] theorem Out.bind_panic' {α β} (f : α → Out β) : ((Out.panic : Out α) >>= f) = Out.panic := rfl
@[simp] theorem Out.pure_eq {α} (a : α) : (pure a : Out α) = Out.ok a := rfl
@[simp] theorem Out.map_ok {α β} (f : α → β) (a : α) : Out.map f (Out.ok a) = Out.ok (f a) := rfl
@[simp] theorem Out.void_ok {α} (a : α) : (Out.ok a).void = Out.ok () := rfl
@[simp] theorem unwrapO_some {α} (a : α) : unwrapO (some a) = Out.ok a := rfl
@[simp] theorem unwrapO_none {α} : unwrapO (none : Option α) = Out.panic := rfl
@[simp] theorem okOr_some {α} (a : α) : okOr (some a) = Out.ok a := rfl
@[simp] theorem okOr_none {α} : okOr (none : Option α) = Out.err := rfl
@[simp] theorem okOrErr_eq {α} (o : Option α) : okOrErr o = okOr o := rfl

/-! ## more chunk lemmas -/

theorem chunksN_flatten (k n : Nat) (bs : Bytes) : (chunksN k n bs).flatten = bs.take (n * k) := by
  induction n generalizing bs with
  | zero => simp [chunksN]
  | succ n ih =>
      simp only [chunksN, List.flatten_cons, ih]
      have : (n + 1) * k = k + n * k := by rw [Nat.add_mul]; omega
      rw [this, List.take_add]

theorem chunksN_length (k n : Nat) (bs : Bytes) (h : n * k ≤ bs.length) :
    ∀ c ∈ chunksN k n bs, c.length = k := by
  induction n generalizing bs with
  | zero => simp [chunksN]
  | succ n ih =>
      intro c hc
      have hk : (n + 1) * k = n * k + k := by rw [Nat.add_mul]; omega
      simp only [chunksN, List.mem_cons] at hc
      rcases hc with rfl | hc
      · simp only [List.length_take]; omega
      · exact ih (bs.drop k) (by simp only [List.length_drop]; omega) c hc

theorem mapM_map_some {α β} (f : α → β) (g : β → Option α) (l : List α)
    (h : ∀ c ∈ l, g (f c) = some c) : (l.map f).mapM g = some l := by
  induction l with
  | nil => rfl
  | cons x xs ih =>
      have hx := h x (by simp)
      have hxs := ih (fun c hc => h c (List.mem_cons_of_mem _ hc))
      simp [List.mapM_cons, hx, hxs]

theorem take_full {α} (l : List α) (n : Nat) (h : l.length ≤ n) : l.take n = l :=
  List.take_of_length_le h

theorem triples_flatMap (n : Nat) (bs : Bytes) (h : n * 12 ≤ bs.length) (hb : AllB bs) :
    (triples n bs).flatMap (fun t => beN 4 t.1 ++ beN 4 t.2.1 ++ beN 4 t.2.2) = bs.take (n * 12) := by
  induction n generalizing bs with
  | zero => simp [triples]
  | succ n ih =>
      have hlen : 12 ≤ bs.length := by omega
      simp only [triples, List.flatMap_cons]
      rw [ih (bs.drop 12) (by simp only [List.length_drop]; omega) (hb.drop _)]
      have e1 : beN 4 (ofBe (bs.take 4)) = bs.take 4 :=
        beN_ofBe' 4 _ (by simp only [List.length_take]; omega) (hb.take _)
      have e2 : beN 4 (ofBe ((bs.drop 4).take 4)) = (bs.drop 4).take 4 :=
        beN_ofBe' 4 _ (by simp only [List.length_take, List.length_drop]; omega) ((hb.drop _).take _)
      have e3 : beN 4 (ofBe ((bs.drop 8).take 4)) = (bs.drop 8).take 4 :=
        beN_ofBe' 4 _ (by simp only [List.length_take, List.length_drop]; omega) ((hb.drop _).take _)
      rw [e1, e2, e3]
      have hk : (n + 1) * 12 = 4 + (4 + (4 + n * 12)) := by omega
      rw [hk, List.take_add, List.take_add, List.take_add]
      simp [List.drop_drop, List.append_assoc]

/-! ## round trip `attr_from_api (attr_to_api a) = a` -/

@[simp] theorem need_eq_none (c : Bool) (s : String) (k : Option String) :
    need c s k = none ↔ c = true ∧ k = none := by
  unfold need; cases c <;> simp

/-- flags are exactly the RFC flags of the attribute's code (recognised codes only) -/
def flagsCanon (a : Attribute) : Prop := ∀ f, canonicalFlags a.code = some f → a.flags = f

/-- `attr_from_api (attr_to_api a) = Ok(a)` for the code with repairs `fx` -/
def RT (fx : Fixes) (a : Attribute) : Prop := ∃ x, toApi fx a = .ok x ∧ fromApi fx x = .ok a

theorem any_false_of_forall {α} (l : List α) (p : α → Bool) (h : ∀ x ∈ l, p x = false) : l.any p = false := by
  simp only [List.any_eq_false]
  intro x hx; simp [h x hx]

theorem specBytes_allB {bs : Bytes} (h : Spec.isBytes bs = true) : AllB bs := by
  intro b hb
  simp only [Spec.isBytes, List.all_eq_true, decide_eq_true_eq] at h
  exact h b hb

theorem rt_val (code flags v : Nat) (hcode : code = 1 ∨ code = 4 ∨ code = 5 ∨ code = 9)
    (hwf : WF ⟨code, flags, .val v⟩) (hc : flagsCanon ⟨code, flags, .val v⟩) :
    RT current ⟨code, flags, .val v⟩ := by
  rcases hcode with rfl | rfl | rfl | rfl
  · have hf : flags = 0x40 := hc 0x40 (by simp [canonicalFlags])
    subst hf
    simp [WF, wfClause, classOf, valClause] at hwf
    refine ⟨.origin v, by simp [toApi, Attribute.value], ?_⟩
    simp [fromApi, current, newWithValue, canonicalFlags]; omega
  · have hf : flags = 0x80 := hc 0x80 (by simp [canonicalFlags])
    subst hf
    exact ⟨.med v, by simp [toApi, Attribute.value], by simp [fromApi, newWithValue, canonicalFlags]⟩
  · have hf : flags = 0x40 := hc 0x40 (by simp [canonicalFlags])
    subst hf
    exact ⟨.localPref v, by simp [toApi, Attribute.value], by simp [fromApi, newWithValue, canonicalFlags]⟩
  · have hf : flags = 0x80 := hc 0x80 (by simp [canonicalFlags])
    subst hf
    exact ⟨.originatorId (.ip4 v), by simp [toApi, Attribute.value],
      by simp [fromApi, AStr.parse4, newWithValue, canonicalFlags]⟩

theorem rt_aspath (flags : Nat) (b : Bytes) (hwf : WF ⟨2, flags, .bin b⟩)
    (hc : flagsCanon ⟨2, flags, .bin b⟩) : RT current ⟨2, flags, .bin b⟩ := by
  have hf : flags = 0x40 := hc 0x40 (by simp [canonicalFlags])
  subst hf
  simp [WF, wfClause, classOf, binClause] at hwf
  obtain ⟨_, hbytes, hseg⟩ := hwf
  rw [segments_eq] at hseg
  obtain ⟨segs, h1, h2, h3⟩ := asPathToSegs_spec b hseg (specBytes_allB hbytes)
  refine ⟨.asPath segs, by simp [toApi, Attribute.binary, h1], ?_⟩
  have hany : segs.any (fun s => !(decide (1 ≤ s.1 ∧ s.1 ≤ 4)) || decide (s.2.length > 255)) = false := by
    apply any_false_of_forall
    intro s hs
    obtain ⟨⟨a1, a4⟩, al⟩ := h3 s hs
    simp [a1, a4]; omega
  simp only [fromApi, current, hany]
  rw [show (segs.flatMap fun s => [s.1 % 256, s.2.length % 256] ++ s.2.flatMap (beN 4)) = b from h2]
  simp [newWithBin, canonicalFlags]

theorem rt_atomic (flags : Nat) (b : Bytes) (hwf : WF ⟨6, flags, .bin b⟩)
    (hc : flagsCanon ⟨6, flags, .bin b⟩) : RT current ⟨6, flags, .bin b⟩ := by
  have hf : flags = 0x40 := hc 0x40 (by simp [canonicalFlags])
  subst hf
  simp [WF, wfClause, classOf, binClause] at hwf
  obtain ⟨_, _, hlen⟩ := hwf
  subst hlen
  exact ⟨.atomicAggregate, by simp [toApi], by simp [fromApi, newWithBin, canonicalFlags]⟩

theorem rt_aggregator (flags : Nat) (b : Bytes) (hwf : WF ⟨7, flags, .bin b⟩)
    (hc : flagsCanon ⟨7, flags, .bin b⟩) : RT current ⟨7, flags, .bin b⟩ := by
  have hf : flags = 0xC0 := hc 0xC0 (by simp [canonicalFlags])
  subst hf
  simp [WF, wfClause, classOf, binClause] at hwf
  obtain ⟨_, hbytes, hlen⟩ := hwf
  have hb := specBytes_allB hbytes
  refine ⟨.aggregator (ofBe (b.take 4)) (.ip4 (ofBe (b.drop 4))), by simp [toApi, Attribute.binary, hlen], ?_⟩
  have e1 : beN 4 (ofBe (b.take 4)) = b.take 4 :=
    beN_ofBe' 4 _ (by simp only [List.length_take]; omega) (hb.take _)
  have e2 : beN 4 (ofBe (b.drop 4)) = b.drop 4 :=
    beN_ofBe' 4 _ (by simp only [List.length_drop]; omega) (hb.drop _)
  simp [fromApi, AStr.parse4, e1, e2, newWithBin, canonicalFlags]

theorem rt_u32list (code flags : Nat) (b : Bytes) (hcode : code = 8 ∨ code = 10)
    (hwf : WF ⟨code, flags, .bin b⟩) (hc : flagsCanon ⟨code, flags, .bin b⟩) :
    RT current ⟨code, flags, .bin b⟩ := by
  rcases hcode with rfl | rfl
  · have hf : flags = 0xC0 := hc 0xC0 (by simp [canonicalFlags])
    subst hf
    simp [WF, wfClause, classOf, binClause] at hwf
    obtain ⟨_, hbytes, hlen⟩ := hwf
    have hb := specBytes_allB hbytes
    refine ⟨.communities (u32s (b.length / 4) b), by simp [toApi, Attribute.binary], ?_⟩
    have h4 : b.length / 4 * 4 = b.length := by omega
    have := u32s_flatMap (b.length / 4) b (by omega) hb
    rw [h4, List.take_length] at this
    simp [fromApi, this, newWithBin, canonicalFlags]
  · have hf : flags = 0x80 := hc 0x80 (by simp [canonicalFlags])
    subst hf
    simp [WF, wfClause, classOf, binClause] at hwf
    obtain ⟨_, hbytes, hlen⟩ := hwf
    have hb := specBytes_allB hbytes
    refine ⟨.clusterList ((u32s (b.length / 4) b).map .ip4), by simp [toApi, Attribute.binary], ?_⟩
    have h4 : b.length / 4 * 4 = b.length := by omega
    have := u32s_flatMap (b.length / 4) b (by omega) hb
    rw [h4, List.take_length] at this
    have hm : ((u32s (b.length / 4) b).map AStr.ip4).mapM AStr.parse4 = some (u32s (b.length / 4) b) :=
      mapM_map_some _ _ _ (fun c _ => rfl)
    simp [fromApi, hm, this, newWithBin, canonicalFlags]

theorem rt_large (flags : Nat) (b : Bytes) (hwf : WF ⟨32, flags, .bin b⟩)
    (hc : flagsCanon ⟨32, flags, .bin b⟩) : RT current ⟨32, flags, .bin b⟩ := by
  have hf : flags = 0xC0 := hc 0xC0 (by simp [canonicalFlags])
  subst hf
  simp [WF, wfClause, classOf, binClause] at hwf
  obtain ⟨_, hbytes, hlen⟩ := hwf
  have hb := specBytes_allB hbytes
  refine ⟨.largeCommunities (triples (b.length / 12) b), by simp [toApi, Attribute.binary], ?_⟩
  have h12 : b.length / 12 * 12 = b.length := by omega
  have := triples_flatMap (b.length / 12) b (by omega) hb
  rw [h12, List.take_length] at this
  simp only [fromApi]
  rw [this]
  simp [newWithBin, canonicalFlags]

theorem writeExtcom_show (c : Bytes) (hlen : c.length = 8) :
    writeExtcom (showExtcom current c) = some c := by
  unfold showExtcom
  simp only [current, if_true]
  split
  · assumption
  · match c, hlen with
    | ty :: rest, hlen => simp [writeExtcom, hlen]

theorem rt_extcom (flags : Nat) (b : Bytes) (hwf : WF ⟨16, flags, .bin b⟩)
    (hc : flagsCanon ⟨16, flags, .bin b⟩) : RT current ⟨16, flags, .bin b⟩ := by
  have hf : flags = 0xC0 := hc 0xC0 (by simp [canonicalFlags])
  subst hf
  simp [WF, wfClause, classOf, binClause] at hwf
  obtain ⟨_, hbytes, hlen⟩ := hwf
  refine ⟨.extCommunities ((chunksN 8 (b.length / 8) b).map (showExtcom current)),
    by simp [toApi, Attribute.binary], ?_⟩
  have h8 : b.length / 8 * 8 = b.length := by omega
  have hm : ((chunksN 8 (b.length / 8) b).map (showExtcom current)).mapM writeExtcom
      = some (chunksN 8 (b.length / 8) b) :=
    mapM_map_some _ _ _ (fun c hcm => writeExtcom_show c (chunksN_length 8 _ b (by omega) c hcm))
  have hfl := chunksN_flatten 8 (b.length / 8) b
  rw [h8, List.take_length] at hfl
  simp [fromApi, hm, hfl, newWithBin, canonicalFlags]

/-- codes that reach the last (`Unknown`) arm of `attr_to_api` and are stored by the decoder -/
def rawCode (code : Nat) : Prop :=
  code ≠ 1 ∧ code ≠ 2 ∧ code ≠ 3 ∧ code ≠ 4 ∧ code ≠ 5 ∧ code ≠ 6 ∧ code ≠ 7 ∧ code ≠ 8 ∧ code ≠ 9 ∧
  code ≠ 10 ∧ code ≠ 16 ∧ code ≠ 32 ∧ code ≠ 17 ∧ code ≠ 18 ∧ code ≠ 23 ∧ code ≠ 29 ∧ code ≠ 40

theorem rt_known_raw (code flags : Nat) (d : Data) (hcode : code = 14 ∨ code = 15 ∨ code = 26)
    (hwf : WF ⟨code, flags, d⟩) (hc : flagsCanon ⟨code, flags, d⟩) : RT current ⟨code, flags, d⟩ := by
  rcases hcode with rfl | rfl | rfl <;>
  · have hf : flags = 0x80 := hc 0x80 (by simp [canonicalFlags])
    subst hf
    cases d with
    | val v => simp [WF, wfClause, classOf, valClause] at hwf
    | raw b => simp [WF, wfClause, classOf] at hwf
    | bin b =>
        exact ⟨.unknown 0x80 _ b, by simp [toApi, Attribute.binary],
          by simp [fromApi, current, canonicalFlags, typedCode]⟩

theorem rt_unknown (code flags : Nat) (d : Data) (hr : rawCode code) (h14 : code ≠ 14) (h15 : code ≠ 15)
    (h26 : code ≠ 26) (hwf : WF ⟨code, flags, d⟩) : RT current ⟨code, flags, d⟩ := by
  obtain ⟨n1, n2, n3, n4, n5, n6, n7, n8, n9, n10, n16, n32, n17, n18, n23, n29, n40⟩ := hr
  have hcf : canonicalFlags code = none := by simp [canonicalFlags, *]
  have hcl : classOf code = none := by simp [classOf, *]
  simp only [WF, wfClause, hcl, need_eq_none, Bool.and_eq_true, decide_eq_true_eq] at hwf
  obtain ⟨⟨hcode, hflags⟩, hd⟩ := hwf
  cases d with
  | val v => simp at hd
  | bin b => simp at hd
  | raw b =>
      simp only [need_eq_none, Bool.and_eq_true, beq_iff_eq, and_true] at hd
      obtain ⟨⟨ho, ht⟩, _⟩ := hd
      refine ⟨.unknown flags code b, by simp [toApi, Attribute.binary, *], ?_⟩
      have hmod : code % 256 = code := Nat.mod_eq_of_lt hcode
      have hnot : ¬ (code > 255 ∨ flags > 255) := by omega
      simp [fromApi, current, hmod, hnot, hcf, ho, ht]

/-- what the decoder stores: never NEXT_HOP / MP_* (consumed by the UPDATE parser) nor AS4_* (discarded
    on a four-octet-AS session) -/
def storable (code : Nat) : Prop := code ≠ 3 ∧ code ≠ 14 ∧ code ≠ 15 ∧ code ≠ 17 ∧ code ≠ 18

/-- **round trip**: every well-formed stored attribute of a modelled code whose flags byte is the
    canonical one is converted to its API form without panic and converted back to itself. -/
theorem roundtrip_attr (a : Attribute) (hwf : WF a) (hm : modelledCode a.code = true)
    (hs : a.code ≠ 3 ∧ a.code ≠ 17 ∧ a.code ≠ 18) (hc : flagsCanon a) : RT current a := by
  obtain ⟨code, flags, d⟩ := a
  simp only [modelledCode, decide_eq_true_eq] at hm
  obtain ⟨m23, m29, m40⟩ := hm
  obtain ⟨s3, s17, s18⟩ := hs
  simp only at s3 s17 s18 m23 m29 m40
  by_cases h1 : code = 1 ∨ code = 4 ∨ code = 5 ∨ code = 9
  · cases d with
    | val v => exact rt_val code flags v h1 hwf hc
    | bin b => rcases h1 with rfl | rfl | rfl | rfl <;> simp [WF, wfClause, classOf, binClause] at hwf
    | raw b => rcases h1 with rfl | rfl | rfl | rfl <;> simp [WF, wfClause, classOf] at hwf
  by_cases h2 : code = 2 ∨ code = 6 ∨ code = 7 ∨ code = 8 ∨ code = 10 ∨ code = 16 ∨ code = 32
  · cases d with
    | val v =>
        rcases h2 with rfl | rfl | rfl | rfl | rfl | rfl | rfl <;>
          simp [WF, wfClause, classOf, valClause] at hwf
    | raw b =>
        rcases h2 with rfl | rfl | rfl | rfl | rfl | rfl | rfl <;> simp [WF, wfClause, classOf] at hwf
    | bin b =>
        rcases h2 with rfl | rfl | rfl | rfl | rfl | rfl | rfl
        · exact rt_aspath flags b hwf hc
        · exact rt_atomic flags b hwf hc
        · exact rt_aggregator flags b hwf hc
        · exact rt_u32list 8 flags b (Or.inl rfl) hwf hc
        · exact rt_u32list 10 flags b (Or.inr rfl) hwf hc
        · exact rt_extcom flags b hwf hc
        · exact rt_large flags b hwf hc
  by_cases h3 : code = 14 ∨ code = 15 ∨ code = 26
  · exact rt_known_raw code flags d h3 hwf hc
  · have hr : rawCode code := by unfold rawCode; omega
    exact rt_unknown code flags d hr (by omega) (by omega) (by omega) hwf

end Rbgp.Api
