/-
  Rbgp.Api.Proofs — lemmas for C17 (see Props.lean for the readable statements).
-/
import Rbgp.Api.Model
import Rbgp.Api.Spec
namespace Rbgp.Api
open Rbgp.Api.Spec

/-! ## lists -/

theorem snoc_induction {α} {P : List α → Prop} (hnil : P [])
    (hsnoc : ∀ l x, P l → P (l ++ [x])) : ∀ l, P l := by
  have h : ∀ l : List α, P l.reverse := by
    intro l
    induction l with
    | nil => simpa using hnil
    | cons x l ih => simpa using hsnoc _ x ih
  intro l
  simpa using h l.reverse

/-! ## big-endian fields -/

theorem beN_length (k n : Nat) : (beN k n).length = k := by
  induction k generalizing n with
  | zero => rfl
  | succ k ih => simp [beN, ih]

theorem beN_lt (k n : Nat) : ∀ b ∈ beN k n, b < 256 := by
  induction k generalizing n with
  | zero => simp [beN]
  | succ k ih =>
      intro b hb
      simp only [beN, List.mem_append, List.mem_singleton] at hb
      rcases hb with hb | hb
      · exact ih _ b hb
      · omega

theorem ofBe_append (a b : Bytes) : ofBe (a ++ b) = ofBe a * 256 ^ b.length + ofBe b := by
  unfold ofBe
  induction b using snoc_induction with
  | hnil => simp
  | hsnoc bs x ih =>
      rw [← List.append_assoc, List.foldl_append, List.foldl_append]
      simp only [List.foldl_cons, List.foldl_nil, List.length_append, List.length_singleton]
      rw [List.foldl_append] at ih
      rw [ih, Nat.pow_succ]
      rw [Nat.add_mul, Nat.mul_assoc, Nat.add_assoc]

theorem ofBe_singleton (x : Nat) : ofBe [x] = x := by simp [ofBe]

theorem ofBe_beN (k n : Nat) : ofBe (beN k n) = n % 256 ^ k := by
  induction k generalizing n with
  | zero => simp [beN, ofBe, Nat.mod_one]
  | succ k ih =>
      simp only [beN]
      rw [ofBe_append, ih, ofBe_singleton]
      simp only [List.length_singleton, Nat.pow_one]
      rw [Nat.pow_succ]
      have h := Nat.mod_mul_right_div_self n 256 (256 ^ k)
      -- n % (256 * 256^k) = 256 * (n/256 % 256^k) + n % 256
      have h2 : n % (256 ^ k * 256) = (n / 256 % 256 ^ k) * 256 + n % 256 := by
        rw [Nat.mul_comm (256 ^ k) 256, Nat.mod_mul, Nat.mul_comm, Nat.add_comm]
      omega

theorem ofBe_lt (bs : Bytes) (h : ∀ b ∈ bs, b < 256) : ofBe bs < 256 ^ bs.length := by
  induction bs using snoc_induction with
  | hnil => simp [ofBe]
  | hsnoc bs x ih =>
      rw [ofBe_append, ofBe_singleton]
      simp only [List.length_append, List.length_singleton, Nat.pow_one, Nat.pow_succ]
      have hx : x < 256 := h x (by simp)
      have := ih (fun b hb => h b (by simp [hb]))
      have : (ofBe bs + 1) * 256 ≤ 256 ^ bs.length * 256 := Nat.mul_le_mul_right _ this
      omega

theorem beN_ofBe (bs : Bytes) (h : ∀ b ∈ bs, b < 256) : beN bs.length (ofBe bs) = bs := by
  induction bs using snoc_induction with
  | hnil => simp [beN]
  | hsnoc bs x ih =>
      have hx : x < 256 := h x (by simp)
      have hbs : ∀ b ∈ bs, b < 256 := fun b hb => h b (by simp [hb])
      simp only [List.length_append, List.length_singleton, beN]
      rw [ofBe_append, ofBe_singleton]
      simp only [List.length_singleton, Nat.pow_one]
      have h1 : (ofBe bs * 256 + x) / 256 = ofBe bs := by omega
      have h2 : (ofBe bs * 256 + x) % 256 = x := by omega
      rw [h1, h2, ih hbs]

theorem beN_ofBe' (k : Nat) (bs : Bytes) (hk : bs.length = k) (h : ∀ b ∈ bs, b < 256) :
    beN k (ofBe bs) = bs := by
  subst hk; exact beN_ofBe bs h

end Rbgp.Api
