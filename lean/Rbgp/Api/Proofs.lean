/-
  Rbgp.Api.Proofs — lemmas for C17 (see Props.lean for the readable statements).
-/
import Rbgp.Api.Model
import Rbgp.Api.Spec
namespace Rbgp.Api
open Rbgp.Api.Spec

/-! ## lists -/

theorem snoc_induction {α} {P : List α → Prop} (hnil : P [])
    (hsnoc : ∀ l x, P l → P (l ++ [x])) : ∀ l, P l := by
  have h : ∀ l : List α, P l.reverse := by
    intro l
    induction l with
    | nil => simpa using hnil
    | cons x l ih => simpa using hsnoc _ x ih
  intro l
  simpa using h l.reverse

/-! ## big-endian fields -/

theorem beN_length (k n : Nat) : (beN k n).length = k := by
  induction k generalizing n with
  | zero => rfl
  | succ k ih => simp [beN, ih]

theorem beN_lt (k n : Nat) : ∀ b ∈ beN k n, b < 256 := by
  induction k generalizing n with
  | zero => simp [beN]
  | succ k ih =>
      intro b hb
      simp only [beN, List.mem_append, List.mem_singleton] at hb
      rcases hb with hb | hb
      · exact ih _ b hb
      · omega

theorem ofBe_append (a b : Bytes) : ofBe (a ++ b) = ofBe a * 256 ^ b.length + ofBe b := by
  unfold ofBe
  induction b using snoc_induction with
  | hnil => simp
  | hsnoc bs x ih =>
      rw [← List.append_assoc, List.foldl_append, List.foldl_append]
      simp only [List.foldl_cons, List.foldl_nil, List.length_append, List.length_singleton]
      rw [List.foldl_append] at ih
      rw [ih, Nat.pow_succ]
      rw [Nat.add_mul, Nat.mul_assoc, Nat.add_assoc]
      simp [List.foldl_append]

theorem ofBe_singleton (x : Nat) : ofBe [x] = x := by simp [ofBe]

theorem ofBe_beN (k n : Nat) : ofBe (beN k n) = n % 256 ^ k := by
  induction k generalizing n with
  | zero => simp [beN, ofBe, Nat.mod_one]
  | succ k ih =>
      simp only [beN]
      rw [ofBe_append, ih, ofBe_singleton]
      simp only [List.length_singleton, Nat.pow_one]
      rw [Nat.pow_succ]
      have h := Nat.mod_mul_right_div_self n 256 (256 ^ k)
      -- n % (256 * 256^k) = 256 * (n/256 % 256^k) + n % 256
      have h2 : n % (256 ^ k * 256) = (n / 256 % 256 ^ k) * 256 + n % 256 := by
        rw [Nat.mul_comm (256 ^ k) 256, Nat.mod_mul, Nat.mul_comm, Nat.add_comm]
      omega

theorem ofBe_lt (bs : Bytes) (h : ∀ b ∈ bs, b < 256) : ofBe bs < 256 ^ bs.length := by
  induction bs using snoc_induction with
  | hnil => simp [ofBe]
  | hsnoc bs x ih =>
      rw [ofBe_append, ofBe_singleton]
      simp only [List.length_append, List.length_singleton, Nat.pow_succ]
      have hx : x < 256 := h x (by simp)
      have := ih (fun b hb => h b (by simp [hb]))
      have : (ofBe bs + 1) * 256 ≤ 256 ^ bs.length * 256 := Nat.mul_le_mul_right _ this
      omega

theorem beN_ofBe (bs : Bytes) (h : ∀ b ∈ bs, b < 256) : beN bs.length (ofBe bs) = bs := by
  induction bs using snoc_induction with
  | hnil => simp [beN]
  | hsnoc bs x ih =>
      have hx : x < 256 := h x (by simp)
      have hbs : ∀ b ∈ bs, b < 256 := fun b hb => h b (by simp [hb])
      simp only [List.length_append, List.length_singleton, beN]
      rw [ofBe_append, ofBe_singleton]
      simp only [List.length_singleton, Nat.pow_one]
      have h1 : (ofBe bs * 256 + x) / 256 = ofBe bs := by omega
      have h2 : (ofBe bs * 256 + x) % 256 = x := by omega
      rw [h1, h2, ih hbs]

theorem beN_ofBe' (k : Nat) (bs : Bytes) (hk : bs.length = k) (h : ∀ b ∈ bs, b < 256) :
    beN k (ofBe bs) = bs := by
  subst hk; exact beN_ofBe bs h

/-! ## chunked values -/

def AllB (bs : Bytes) : Prop := ∀ b ∈ bs, b < 256

theorem allB_of_isBytes {bs : Bytes} (h : Rbgp.Api.isBytes bs = true) : AllB bs := by
  intro b hb
  simp only [Rbgp.Api.isBytes, List.all_eq_true, decide_eq_true_eq] at h
  exact h b hb

theorem AllB.take {bs : Bytes} (h : AllB bs) (n : Nat) : AllB (bs.take n) :=
  fun b hb => h b (List.mem_of_mem_take hb)
theorem AllB.drop {bs : Bytes} (h : AllB bs) (n : Nat) : AllB (bs.drop n) :=
  fun b hb => h b (List.mem_of_mem_drop hb)
theorem AllB.tail {x : Nat} {bs : Bytes} (h : AllB (x :: bs)) : AllB bs :=
  fun b hb => h b (List.mem_cons_of_mem _ hb)
theorem AllB.head {x : Nat} {bs : Bytes} (h : AllB (x :: bs)) : x < 256 := h x (by simp)
theorem AllB.append {a b : Bytes} (ha : AllB a) (hb : AllB b) : AllB (a ++ b) := by
  intro x hx
  rcases List.mem_append.mp hx with h | h
  · exact ha x h
  · exact hb x h

theorem exists_four {bs : Bytes} (h : 4 ≤ bs.length) : ∃ a b c d rest, bs = a :: b :: c :: d :: rest := by
  match bs, h with
  | a :: b :: c :: d :: rest, _ => exact ⟨a, b, c, d, rest, rfl⟩

theorem u32s_length (n : Nat) (bs : Bytes) (h : n * 4 ≤ bs.length) : (u32s n bs).length = n := by
  induction n generalizing bs with
  | zero => simp [u32s]
  | succ n ih =>
      obtain ⟨a, b, c, d, rest, rfl⟩ := exists_four (bs := bs) (by omega)
      simp only [u32s, List.length_cons]
      rw [ih rest (by simp only [List.length_cons] at h; omega)]

theorem u32s_flatMap (n : Nat) (bs : Bytes) (h : n * 4 ≤ bs.length) (hb : AllB bs) :
    (u32s n bs).flatMap (beN 4) = bs.take (n * 4) := by
  induction n generalizing bs with
  | zero => simp [u32s]
  | succ n ih =>
      obtain ⟨a, b, c, d, rest, rfl⟩ := exists_four (bs := bs) (by omega)
      have hr : AllB rest := hb.tail.tail.tail.tail
      have h4 : beN 4 (ofBe [a, b, c, d]) = [a, b, c, d] :=
        beN_ofBe' 4 [a, b, c, d] rfl (fun x hx => hb x (by
          simp only [List.mem_cons, List.not_mem_nil, or_false] at hx
          rcases hx with h | h | h | h <;> simp [h]))
      simp only [u32s, List.flatMap_cons, h4]
      rw [ih rest (by simp only [List.length_cons] at h; omega) hr]
      have : (n + 1) * 4 = n * 4 + 4 := by omega
      rw [this]
      simp [List.take_succ_cons]

theorem u32s_lt (n : Nat) (bs : Bytes) (hb : AllB bs) : ∀ x ∈ u32s n bs, x < 4294967296 := by
  induction n generalizing bs with
  | zero => simp [u32s]
  | succ n ih =>
      match bs, hb with
      | [], _ => simp [u32s]
      | [_], _ => simp [u32s]
      | [_, _], _ => simp [u32s]
      | [_, _, _], _ => simp [u32s]
      | a :: b :: c :: d :: rest, hb =>
          intro x hx
          simp only [u32s, List.mem_cons] at hx
          rcases hx with hx | hx
          · subst hx
            have := ofBe_lt [a, b, c, d] (fun x hx => hb x (by
              simp only [List.mem_cons, List.not_mem_nil, or_false] at hx
              rcases hx with h | h | h | h <;> simp [h]))
            simpa using this
          · exact ih rest hb.tail.tail.tail.tail x hx

/-! ## AS_PATH walks -/

def encSeg (s : Nat × List Nat) : Bytes := [s.1 % 256, s.2.length % 256] ++ s.2.flatMap (beN 4)

theorem asPathToSegs_spec (bs : Bytes) (h : segsOk bs = true) (hb : AllB bs) :
    ∃ segs, asPathToSegs bs = .ok segs ∧ segs.flatMap encSeg = bs ∧
      ∀ s ∈ segs, (1 ≤ s.1 ∧ s.1 ≤ 4) ∧ 1 ≤ s.2.length ∧ s.2.length ≤ 255 := by
  fun_induction segsOk bs with
  | case1 => exact ⟨[], by simp [asPathToSegs], rfl, by simp⟩
  | case2 => simp at h
  | case3 t l rest hc ih =>
      obtain ⟨ht1, ht4, hl0, hl⟩ := hc
      have hrest : AllB rest := hb.tail.tail
      have hl256 : l < 256 := hb.tail.head
      have ht256 : t < 256 := hb.head
      obtain ⟨segs, h1, h2, h3⟩ := ih h (hrest.drop _)
      refine ⟨(t, u32s l rest) :: segs, ?_, ?_, ?_⟩
      · rw [asPathToSegs]; simp [hl, h1, Out.map]
      · simp only [List.flatMap_cons, encSeg, h2]
        rw [u32s_length l rest hl, u32s_flatMap l rest hl hrest]
        rw [Nat.mod_eq_of_lt ht256, Nat.mod_eq_of_lt hl256]
        simp [List.take_append_drop]
      · intro s hs
        rcases List.mem_cons.mp hs with rfl | hs
        · refine ⟨⟨ht1, ht4⟩, ?_⟩
          simp only [u32s_length l rest hl]; omega
        · exact h3 s hs
  | case4 t l rest hc => simp at h

theorem segments_eq (bs : Bytes) : Spec.segments bs = segsOk bs := by
  fun_induction segsOk bs with
  | case1 => simp [Spec.segments]
  | case2 => simp [Spec.segments]
  | case3 t l rest hc ih => rw [Spec.segments]; simp [hc, ih]
  | case4 t l rest hc => rw [Spec.segments]; simp [hc]

theorem segmentsNonEmpty_eq (bs : Bytes) : Spec.segmentsNonEmpty bs = segs4Ok bs := by
  fun_induction segs4Ok bs with
  | case1 => simp [Spec.segmentsNonEmpty]
  | case2 => simp [Spec.segmentsNonEmpty]
  | case3 t l rest hc ih => rw [Spec.segmentsNonEmpty]; simp [hc, ih]
  | case4 t l rest hc => rw [Spec.segmentsNonEmpty]; simp [hc]

theorem aigpTlvs_eq (bs : Bytes) : Spec.aigpTlvs bs = aigpOk bs := by
  fun_induction aigpOk bs with
  | case1 => simp [Spec.aigpTlvs]
  | case2 => simp [Spec.aigpTlvs]
  | case3 => simp [Spec.aigpTlvs]
  | case4 t l1 l2 rest hc ih => rw [Spec.aigpTlvs]; simp [hc, ih]
  | case5 t l1 l2 rest hc => rw [Spec.aigpTlvs]; simp [hc]

theorem flatMap_beN4_length (ns : List Nat) : (ns.flatMap (beN 4)).length = ns.length * 4 := by
  induction ns with
  | nil => rfl
  | cons n ns ih => simp [List.flatMap_cons, beN_length, ih]; omega

theorem flatMap_beN_allB (k : Nat) (ns : List Nat) : AllB (ns.flatMap (beN k)) := by
  intro b hb
  rcases List.mem_flatMap.mp hb with ⟨n, _, hn⟩
  exact beN_lt k n b hn

theorem segsOk_enc (segs : List (Nat × List Nat))
    (h : ∀ s ∈ segs, (1 ≤ s.1 ∧ s.1 ≤ 4) ∧ 1 ≤ s.2.length ∧ s.2.length ≤ 255) :
    segsOk (segs.flatMap encSeg) = true := by
  induction segs with
  | nil => simp [segsOk]
  | cons s tl ih =>
      obtain ⟨⟨h1, h4⟩, hl1, hl⟩ := h s (by simp)
      have ht : s.1 % 256 = s.1 := Nat.mod_eq_of_lt (by omega)
      have hlen : s.2.length % 256 = s.2.length := Nat.mod_eq_of_lt (by omega)
      simp only [List.flatMap_cons, encSeg, ht, hlen, List.cons_append, List.nil_append, List.append_assoc]
      rw [segsOk]
      have hp : (s.2.flatMap (beN 4)).length = s.2.length * 4 := flatMap_beN4_length _
      have hle : s.2.length * 4 ≤ (s.2.flatMap (beN 4) ++ tl.flatMap encSeg).length := by
        rw [List.length_append, hp]; omega
      have hne : s.2.length ≠ 0 := by omega
      simp only [h1, h4, hle, hne, ne_eq, not_false_eq_true, and_self, if_true]
      rw [← hp, List.drop_left]
      exact ih (fun s hs => h s (List.mem_cons_of_mem _ hs))

theorem encSeg_allB (segs : List (Nat × List Nat)) : AllB (segs.flatMap encSeg) := by
  intro b hb
  rcases List.mem_flatMap.mp hb with ⟨s, _, hs⟩
  simp only [encSeg, List.cons_append, List.nil_append, List.mem_cons] at hs
  rcases hs with rfl | rfl | hs
  · exact Nat.mod_lt _ (by omega)
  · exact Nat.mod_lt _ (by omega)
  · exact flatMap_beN_allB 4 _ b hs

/-- consumers of a well-formed AS_PATH value never hit an `unwrap`/`unreachable!` -/
theorem asPathLengthLoop_ok (bs : Bytes) (acc : Nat) (h : segsOk bs = true) :
    ∃ n, asPathLengthLoop bs acc = .ok n := by
  fun_induction segsOk bs generalizing acc with
  | case1 => exact ⟨acc, by simp [asPathLengthLoop]⟩
  | case2 => simp at h
  | case3 t l rest hc ih =>
      obtain ⟨ht1, ht4, _⟩ := hc
      rw [asPathLengthLoop]
      have : t = 1 ∨ t = 2 ∨ t = 3 ∨ t = 4 := by omega
      rcases this with rfl | rfl | rfl | rfl <;> simp <;> exact ih _ h
  | case4 t l rest hc => simp at h

theorem asPathOriginLoop_ok (bs : Bytes) (st : Nat × Nat × Nat) (h : segsOk bs = true) :
    ∃ r, asPathOriginLoop bs st = .ok r := by
  fun_induction segsOk bs generalizing st with
  | case1 => exact ⟨st, by simp [asPathOriginLoop]⟩
  | case2 => simp at h
  | case3 t l rest hc ih =>
      obtain ⟨_, _, hl⟩ := hc
      rw [asPathOriginLoop]
      simp only [hl, if_true]
      exact ih _ h
  | case4 t l rest hc => simp at h

theorem downgrade2_ok (bs : Bytes) (h : segsOk bs = true) : ∃ r, downgrade2 bs = .ok r := by
  fun_induction segsOk bs with
  | case1 => exact ⟨[], by simp [downgrade2]⟩
  | case2 => simp at h
  | case3 t l rest hc ih =>
      obtain ⟨_, _, hl⟩ := hc
      obtain ⟨r, hr⟩ := ih h
      rw [downgrade2]
      simp [hl, hr, Out.map]
  | case4 t l rest hc => simp at h

theorem hasWide_ok (bs : Bytes) (h : segsOk bs = true) : ∃ r, hasWide bs = .ok r := by
  fun_induction segsOk bs with
  | case1 => exact ⟨false, by simp [hasWide]⟩
  | case2 => simp at h
  | case3 t l rest hc ih =>
      obtain ⟨_, _, hl⟩ := hc
      obtain ⟨r, hr⟩ := ih h
      rw [hasWide]
      simp only [hl, if_true, hr]
      split <;> simp
  | case4 t l rest hc => simp at h

theorem stripConfed_ok (bs : Bytes) (h : segsOk bs = true) : ∃ r, stripConfed bs = .ok r := by
  fun_induction segsOk bs with
  | case1 => exact ⟨[], by simp [stripConfed]⟩
  | case2 => simp at h
  | case3 t l rest hc ih =>
      obtain ⟨_, _, hl⟩ := hc
      obtain ⟨r, hr⟩ := ih h
      rw [stripConfed]
      simp only [hl, if_true, hr]
      split <;> simp [Out.map]
  | case4 t l rest hc => simp at h

/-! ## the `Out` monad -/

@[simp] theorem Out.bind_ok' {α β} (a : α) (f : α → Out β) : (Out.ok a >>= f) = f a := rfl
@[simp] theorem Out.bind_err' {α β} (f : α → Out β) : ((Out.err : Out α) >>= f) = Out.err := rfl
@[simp] theorem Out.bind_panic' {α β} (f : α → Out β) : ((Out.panic : Out α) >>= f) = Out.panic := rfl
@[simp] theorem Out.pure_eq {α} (a : α) : (pure a : Out α) = Out.ok a := rfl
@[simp] theorem Out.map_ok {α β} (f : α → β) (a : α) : Out.map f (Out.ok a) = Out.ok (f a) := rfl
@[simp] theorem Out.void_ok {α} (a : α) : (Out.ok a).void = Out.ok () := rfl
@[simp] theorem unwrapO_some {α} (a : α) : unwrapO (some a) = Out.ok a := rfl
@[simp] theorem unwrapO_none {α} : unwrapO (none : Option α) = Out.panic := rfl
@[simp] theorem okOr_some {α} (a : α) : okOr (some a) = Out.ok a := rfl
@[simp] theorem okOr_none {α} : okOr (none : Option α) = Out.err := rfl
@[simp] theorem okOrErr_eq {α} (o : Option α) : okOrErr o = okOr o := rfl

/-! ## more chunk lemmas -/

theorem chunksN_flatten (k n : Nat) (bs : Bytes) : (chunksN k n bs).flatten = bs.take (n * k) := by
  induction n generalizing bs with
  | zero => simp [chunksN]
  | succ n ih =>
      simp only [chunksN, List.flatten_cons, ih]
      have : (n + 1) * k = k + n * k := by rw [Nat.add_mul]; omega
      rw [this, List.take_add]

theorem chunksN_length (k n : Nat) (bs : Bytes) (h : n * k ≤ bs.length) :
    ∀ c ∈ chunksN k n bs, c.length = k := by
  induction n generalizing bs with
  | zero => simp [chunksN]
  | succ n ih =>
      intro c hc
      have hk : (n + 1) * k = n * k + k := by rw [Nat.add_mul]; omega
      simp only [chunksN, List.mem_cons] at hc
      rcases hc with rfl | hc
      · simp only [List.length_take]; omega
      · exact ih (bs.drop k) (by simp only [List.length_drop]; omega) c hc

theorem mapM_map_some {α β} (f : α → β) (g : β → Option α) (l : List α)
    (h : ∀ c ∈ l, g (f c) = some c) : (l.map f).mapM g = some l := by
  induction l with
  | nil => rfl
  | cons x xs ih =>
      have hx := h x (by simp)
      have hxs := ih (fun c hc => h c (List.mem_cons_of_mem _ hc))
      simp [List.mapM_cons, hx, hxs]

theorem take_full {α} (l : List α) (n : Nat) (h : l.length ≤ n) : l.take n = l :=
  List.take_of_length_le h

theorem triples_flatMap (n : Nat) (bs : Bytes) (h : n * 12 ≤ bs.length) (hb : AllB bs) :
    (triples n bs).flatMap (fun t => beN 4 t.1 ++ beN 4 t.2.1 ++ beN 4 t.2.2) = bs.take (n * 12) := by
  induction n generalizing bs with
  | zero => simp [triples]
  | succ n ih =>
      have hlen : 12 ≤ bs.length := by omega
      simp only [triples, List.flatMap_cons]
      rw [ih (bs.drop 12) (by simp only [List.length_drop]; omega) (hb.drop _)]
      have e1 : beN 4 (ofBe (bs.take 4)) = bs.take 4 :=
        beN_ofBe' 4 _ (by simp only [List.length_take]; omega) (hb.take _)
      have e2 : beN 4 (ofBe ((bs.drop 4).take 4)) = (bs.drop 4).take 4 :=
        beN_ofBe' 4 _ (by simp only [List.length_take, List.length_drop]; omega) ((hb.drop _).take _)
      have e3 : beN 4 (ofBe ((bs.drop 8).take 4)) = (bs.drop 8).take 4 :=
        beN_ofBe' 4 _ (by simp only [List.length_take, List.length_drop]; omega) ((hb.drop _).take _)
      rw [e1, e2, e3]
      have hk : (n + 1) * 12 = 4 + (4 + (4 + n * 12)) := by omega
      rw [hk, List.take_add, List.take_add, List.take_add]
      simp [List.drop_drop, List.append_assoc]

/-! ## round trip `attr_from_api (attr_to_api a) = a` -/

@[simp] theorem need_eq_none (c : Bool) (s : String) (k : Option String) :
    need c s k = none ↔ c = true ∧ k = none := by
  unfold need; cases c <;> simp

/-- flags are exactly the RFC flags of the attribute's code (recognised codes only) -/
def flagsCanon (a : Attribute) : Prop := ∀ f, canonicalFlags a.code = some f → a.flags = f

/-- `attr_from_api (attr_to_api a) = Ok(a)` for the code with repairs `fx` -/
def RT (fx : Fixes) (a : Attribute) : Prop :=
  ∃ x, toApi fx a = .ok x ∧ x.strict = true ∧ fromApi0 fx x = .ok a

theorem any_false_of_forall {α} (l : List α) (p : α → Bool) (h : ∀ x ∈ l, p x = false) : l.any p = false := by
  simp only [List.any_eq_false]
  intro x hx; simp [h x hx]

theorem specBytes_allB {bs : Bytes} (h : Spec.isBytes bs = true) : AllB bs := by
  intro b hb
  simp only [Spec.isBytes, Bool.and_eq_true, List.all_eq_true, decide_eq_true_eq] at h
  exact h.1 b hb

theorem specBytes_len {bs : Bytes} (h : Spec.isBytes bs = true) : bs.length ≤ 65508 := by
  simp only [Spec.isBytes, Bool.and_eq_true, List.all_eq_true, decide_eq_true_eq] at h
  exact h.2

theorem rt_val (code flags v : Nat) (hcode : code = 1 ∨ code = 4 ∨ code = 5 ∨ code = 9)
    (hwf : WF ⟨code, flags, .val v⟩) (hc : flagsCanon ⟨code, flags, .val v⟩) :
    RT current ⟨code, flags, .val v⟩ := by
  rcases hcode with rfl | rfl | rfl | rfl
  · have hf : flags = 0x40 := hc 0x40 (by simp [canonicalFlags])
    subst hf
    simp [WF, wfClause, classOf, valClause] at hwf
    refine ⟨.origin v, by simp [toApi, Attribute.value], by simp [ApiAttr.strict], ?_⟩
    simp [fromApi0, current, newWithValue, canonicalFlags]; omega
  · have hf : flags = 0x80 := hc 0x80 (by simp [canonicalFlags])
    subst hf
    exact ⟨.med v, by simp [toApi, Attribute.value], by simp [ApiAttr.strict], by simp [fromApi0, newWithValue, canonicalFlags]⟩
  · have hf : flags = 0x40 := hc 0x40 (by simp [canonicalFlags])
    subst hf
    exact ⟨.localPref v, by simp [toApi, Attribute.value], by simp [ApiAttr.strict], by simp [fromApi0, newWithValue, canonicalFlags]⟩
  · have hf : flags = 0x80 := hc 0x80 (by simp [canonicalFlags])
    subst hf
    exact ⟨.originatorId (.ip4 v), by simp [toApi, Attribute.value], by simp [ApiAttr.strict],
      by simp [fromApi0, AStr.parse4, newWithValue, canonicalFlags]⟩

theorem rt_aspath (flags : Nat) (b : Bytes) (hwf : WF ⟨2, flags, .bin b⟩)
    (hc : flagsCanon ⟨2, flags, .bin b⟩) : RT current ⟨2, flags, .bin b⟩ := by
  have hf : flags = 0x40 := hc 0x40 (by simp [canonicalFlags])
  subst hf
  simp [WF, wfClause, classOf, binClause] at hwf
  obtain ⟨_, hbytes, hseg⟩ := hwf
  rw [segments_eq] at hseg
  obtain ⟨segs, h1, h2, h3⟩ := asPathToSegs_spec b hseg (specBytes_allB hbytes)
  have hstrict : (ApiAttr.asPath segs).strict = true := by
    simp only [ApiAttr.strict, List.all_eq_true, decide_eq_true_eq]
    intro s hs
    have := (h3 s hs).2.1
    omega
  refine ⟨.asPath segs, by simp [toApi, Attribute.binary, h1], hstrict, ?_⟩
  have hany : segs.any (fun s => !(decide (1 ≤ s.1 ∧ s.1 ≤ 4)) || decide (s.2.length > 255)) = false := by
    apply any_false_of_forall
    intro s hs
    obtain ⟨⟨a1, a4⟩, al1, al⟩ := h3 s hs
    simp [a1, a4]; omega
  simp only [fromApi0, current, hany]
  rw [show (segs.flatMap fun s => [s.1 % 256, s.2.length % 256] ++ s.2.flatMap (beN 4)) = b from h2]
  simp [newWithBin, canonicalFlags]

theorem rt_atomic (flags : Nat) (b : Bytes) (hwf : WF ⟨6, flags, .bin b⟩)
    (hc : flagsCanon ⟨6, flags, .bin b⟩) : RT current ⟨6, flags, .bin b⟩ := by
  have hf : flags = 0x40 := hc 0x40 (by simp [canonicalFlags])
  subst hf
  simp [WF, wfClause, classOf, binClause] at hwf
  obtain ⟨_, _, hlen⟩ := hwf
  subst hlen
  exact ⟨.atomicAggregate, by simp [toApi], by simp [ApiAttr.strict], by simp [fromApi0, newWithBin, canonicalFlags]⟩

theorem rt_aggregator (flags : Nat) (b : Bytes) (hwf : WF ⟨7, flags, .bin b⟩)
    (hc : flagsCanon ⟨7, flags, .bin b⟩) : RT current ⟨7, flags, .bin b⟩ := by
  have hf : flags = 0xC0 := hc 0xC0 (by simp [canonicalFlags])
  subst hf
  simp [WF, wfClause, classOf, binClause] at hwf
  obtain ⟨_, hbytes, hlen⟩ := hwf
  have hb := specBytes_allB hbytes
  refine ⟨.aggregator (ofBe (b.take 4)) (.ip4 (ofBe (b.drop 4))), by simp [toApi, Attribute.binary, hlen], by simp [ApiAttr.strict], ?_⟩
  have e1 : beN 4 (ofBe (b.take 4)) = b.take 4 :=
    beN_ofBe' 4 _ (by simp only [List.length_take]; omega) (hb.take _)
  have e2 : beN 4 (ofBe (b.drop 4)) = b.drop 4 :=
    beN_ofBe' 4 _ (by simp only [List.length_drop]; omega) (hb.drop _)
  simp [fromApi0, AStr.parse4, e1, e2, newWithBin, canonicalFlags]

theorem rt_u32list (code flags : Nat) (b : Bytes) (hcode : code = 8 ∨ code = 10)
    (hwf : WF ⟨code, flags, .bin b⟩) (hc : flagsCanon ⟨code, flags, .bin b⟩) :
    RT current ⟨code, flags, .bin b⟩ := by
  rcases hcode with rfl | rfl
  · have hf : flags = 0xC0 := hc 0xC0 (by simp [canonicalFlags])
    subst hf
    simp [WF, wfClause, classOf, binClause] at hwf
    obtain ⟨_, hbytes, hlen⟩ := hwf
    have hb := specBytes_allB hbytes
    refine ⟨.communities (u32s (b.length / 4) b), by simp [toApi, Attribute.binary], by simp [ApiAttr.strict], ?_⟩
    have h4 : b.length / 4 * 4 = b.length := by omega
    have := u32s_flatMap (b.length / 4) b (by omega) hb
    rw [h4, List.take_length] at this
    simp [fromApi0, this, newWithBin, canonicalFlags]
  · have hf : flags = 0x80 := hc 0x80 (by simp [canonicalFlags])
    subst hf
    simp [WF, wfClause, classOf, binClause] at hwf
    obtain ⟨_, hbytes, hlen⟩ := hwf
    have hb := specBytes_allB hbytes
    refine ⟨.clusterList ((u32s (b.length / 4) b).map .ip4), by simp [toApi, Attribute.binary], by simp [ApiAttr.strict], ?_⟩
    have h4 : b.length / 4 * 4 = b.length := by omega
    have := u32s_flatMap (b.length / 4) b (by omega) hb
    rw [h4, List.take_length] at this
    have hm : ((u32s (b.length / 4) b).map AStr.ip4).mapM AStr.parse4 = some (u32s (b.length / 4) b) :=
      mapM_map_some _ _ _ (fun c _ => rfl)
    simp [fromApi0, hm, this, newWithBin, canonicalFlags]

theorem rt_large (flags : Nat) (b : Bytes) (hwf : WF ⟨32, flags, .bin b⟩)
    (hc : flagsCanon ⟨32, flags, .bin b⟩) : RT current ⟨32, flags, .bin b⟩ := by
  have hf : flags = 0xC0 := hc 0xC0 (by simp [canonicalFlags])
  subst hf
  simp [WF, wfClause, classOf, binClause] at hwf
  obtain ⟨_, hbytes, hlen⟩ := hwf
  have hb := specBytes_allB hbytes
  refine ⟨.largeCommunities (triples (b.length / 12) b), by simp [toApi, Attribute.binary], by simp [ApiAttr.strict], ?_⟩
  have h12 : b.length / 12 * 12 = b.length := by omega
  have := triples_flatMap (b.length / 12) b (by omega) hb
  rw [h12, List.take_length] at this
  simp only [fromApi0]
  rw [this]
  simp [newWithBin, canonicalFlags]

theorem writeExtcom_show (c : Bytes) (hlen : c.length = 8) :
    writeExtcom (showExtcom current c) = some c := by
  unfold showExtcom
  simp only [current, if_true]
  split
  · assumption
  · match c, hlen with
    | ty :: rest, hlen => simp [writeExtcom, hlen]

theorem readExtcom_strict (c : Bytes) (h : c.length = 8) : (readExtcom c).strict = true := by
  match c, h with
  | [t, s, b2, b3, b4, b5, b6, b7], _ =>
      simp only [readExtcom]
      repeat' split
      all_goals (simp [ExtCom.strict] <;> omega)

theorem showExtcom_strict (c : Bytes) (h : c.length = 8) : (showExtcom current c).strict = true := by
  unfold showExtcom
  simp only [current, if_true]
  split
  · exact readExtcom_strict c h
  · match c, h with
    | ty :: rest, _ => simp [ExtCom.strict]

theorem rt_extcom (flags : Nat) (b : Bytes) (hwf : WF ⟨16, flags, .bin b⟩)
    (hc : flagsCanon ⟨16, flags, .bin b⟩) : RT current ⟨16, flags, .bin b⟩ := by
  have hf : flags = 0xC0 := hc 0xC0 (by simp [canonicalFlags])
  subst hf
  simp [WF, wfClause, classOf, binClause] at hwf
  obtain ⟨_, hbytes, hlen⟩ := hwf
  have h8 : b.length / 8 * 8 = b.length := by omega
  have hstrict : (ApiAttr.extCommunities ((chunksN 8 (b.length / 8) b).map (showExtcom current))).strict
      = true := by
    simp only [ApiAttr.strict, List.all_eq_true, List.mem_map]
    rintro e ⟨c, hcm, rfl⟩
    exact showExtcom_strict c (chunksN_length 8 _ b (by omega) c hcm)
  refine ⟨.extCommunities ((chunksN 8 (b.length / 8) b).map (showExtcom current)),
    by simp [toApi, Attribute.binary], hstrict, ?_⟩
  have hm : ((chunksN 8 (b.length / 8) b).map (showExtcom current)).mapM writeExtcom
      = some (chunksN 8 (b.length / 8) b) :=
    mapM_map_some _ _ _ (fun c hcm => writeExtcom_show c (chunksN_length 8 _ b (by omega) c hcm))
  have hfl := chunksN_flatten 8 (b.length / 8) b
  rw [h8, List.take_length] at hfl
  simp [fromApi0, hm, hfl, newWithBin, canonicalFlags]

/-- codes that reach the last (`Unknown`) arm of `attr_to_api` and are stored by the decoder -/
def rawCode (code : Nat) : Prop :=
  code ≠ 1 ∧ code ≠ 2 ∧ code ≠ 3 ∧ code ≠ 4 ∧ code ≠ 5 ∧ code ≠ 6 ∧ code ≠ 7 ∧ code ≠ 8 ∧ code ≠ 9 ∧
  code ≠ 10 ∧ code ≠ 16 ∧ code ≠ 32 ∧ code ≠ 17 ∧ code ≠ 18 ∧ code ≠ 23 ∧ code ≠ 29 ∧ code ≠ 40

theorem rt_known_raw (code flags : Nat) (d : Data) (hcode : code = 14 ∨ code = 15 ∨ code = 26)
    (hwf : WF ⟨code, flags, d⟩) (hc : flagsCanon ⟨code, flags, d⟩) : RT current ⟨code, flags, d⟩ := by
  have hf : flags = 0x80 := hc 0x80 (by rcases hcode with rfl | rfl | rfl <;> simp [canonicalFlags])
  subst hf
  cases d with
  | val v => rcases hcode with rfl | rfl | rfl <;> simp [WF, wfClause, classOf, valClause] at hwf
  | raw b => rcases hcode with rfl | rfl | rfl <;> simp [WF, wfClause, classOf] at hwf
  | bin b =>
      refine ⟨.unknown 0x80 code b, ?_, ?_, ?_⟩
      · rcases hcode with rfl | rfl | rfl <;> simp [toApi, Attribute.binary]
      · rcases hcode with rfl | rfl | rfl <;> simp [ApiAttr.strict, canonicalFlags]
      · rcases hcode with rfl | rfl | rfl
        · simp [fromApi0, current, canonicalFlags, typedCode]
        · simp [fromApi0, current, canonicalFlags, typedCode]
        · simp [WF, wfClause, classOf, binClause, aigpTlvs_eq] at hwf
          simp [fromApi0, current, canonicalFlags, typedCode, hwf.2.2]

theorem rt_unknown (code flags : Nat) (d : Data) (hr : rawCode code) (h14 : code ≠ 14) (h15 : code ≠ 15)
    (h26 : code ≠ 26) (hwf : WF ⟨code, flags, d⟩) : RT current ⟨code, flags, d⟩ := by
  obtain ⟨n1, n2, n3, n4, n5, n6, n7, n8, n9, n10, n16, n32, n17, n18, n23, n29, n40⟩ := hr
  have hcf : canonicalFlags code = none := by simp [canonicalFlags, *]
  have hcl : classOf code = none := by simp [classOf, *]
  simp only [WF, wfClause, hcl, need_eq_none, Bool.and_eq_true, decide_eq_true_eq] at hwf
  obtain ⟨⟨hcode, hflags⟩, hd⟩ := hwf
  cases d with
  | val v => simp at hd
  | bin b => simp at hd
  | raw b =>
      simp only [need_eq_none, Bool.and_eq_true, beq_iff_eq, and_true] at hd
      obtain ⟨⟨ho, ht⟩, _⟩ := hd
      have hmod : code % 256 = code := Nat.mod_eq_of_lt hcode
      refine ⟨.unknown flags code b, by simp [toApi, Attribute.binary, *],
        by simp [ApiAttr.strict, hmod, hcf], ?_⟩
      have hnot : ¬ (code > 255 ∨ flags > 255) := by omega
      simp [fromApi0, current, hmod, hnot, hcf, ho, ht]

/-- what the decoder stores: never NEXT_HOP / MP_* (consumed by the UPDATE parser) nor AS4_* (discarded
    on a four-octet-AS session) -/
def storable (code : Nat) : Prop := code ≠ 3 ∧ code ≠ 14 ∧ code ≠ 15 ∧ code ≠ 17 ∧ code ≠ 18

/-- **round trip**: every well-formed stored attribute of a modelled code whose flags byte is the
    canonical one is converted to its API form without panic and converted back to itself. -/
theorem roundtrip_attr (a : Attribute) (hwf : WF a) (hm : modelledCode a.code = true)
    (hs : a.code ≠ 3 ∧ a.code ≠ 17 ∧ a.code ≠ 18) (hc : flagsCanon a) : RT current a := by
  obtain ⟨code, flags, d⟩ := a
  simp only [modelledCode, decide_eq_true_eq] at hm
  obtain ⟨m23, m29, m40⟩ := hm
  obtain ⟨s3, s17, s18⟩ := hs
  simp only at s3 s17 s18 m23 m29 m40
  by_cases h1 : code = 1 ∨ code = 4 ∨ code = 5 ∨ code = 9
  · cases d with
    | val v => exact rt_val code flags v h1 hwf hc
    | bin b => rcases h1 with rfl | rfl | rfl | rfl <;> simp [WF, wfClause, classOf, binClause] at hwf
    | raw b => rcases h1 with rfl | rfl | rfl | rfl <;> simp [WF, wfClause, classOf] at hwf
  by_cases h2 : code = 2 ∨ code = 6 ∨ code = 7 ∨ code = 8 ∨ code = 10 ∨ code = 16 ∨ code = 32
  · cases d with
    | val v =>
        rcases h2 with rfl | rfl | rfl | rfl | rfl | rfl | rfl <;>
          simp [WF, wfClause, classOf, valClause] at hwf
    | raw b =>
        rcases h2 with rfl | rfl | rfl | rfl | rfl | rfl | rfl <;> simp [WF, wfClause, classOf] at hwf
    | bin b =>
        rcases h2 with rfl | rfl | rfl | rfl | rfl | rfl | rfl
        · exact rt_aspath flags b hwf hc
        · exact rt_atomic flags b hwf hc
        · exact rt_aggregator flags b hwf hc
        · exact rt_u32list 8 flags b (Or.inl rfl) hwf hc
        · exact rt_u32list 10 flags b (Or.inr rfl) hwf hc
        · exact rt_extcom flags b hwf hc
        · exact rt_large flags b hwf hc
  by_cases h3 : code = 14 ∨ code = 15 ∨ code = 26
  · exact rt_known_raw code flags d h3 hwf hc
  · have hr : rawCode code := by unfold rawCode; omega
    exact rt_unknown code flags d hr (by omega) (by omega) (by omega) hwf

/-! ## the wire decoder establishes `WF` -/

theorem allB_specBytes {bs : Bytes} (h : AllB bs) (hl : bs.length ≤ 65508) : Spec.isBytes bs = true := by
  simp only [Spec.isBytes, Bool.and_eq_true, List.all_eq_true, decide_eq_true_eq]
  exact ⟨h, hl⟩

def dataClause (code : Nat) : Data → Option String
  | .raw _ => some "recognised-attribute-opaque"
  | .val v => valClause code v
  | .bin bs => binClause code bs

theorem decodeData_wf (code : Nat) (bs : Bytes) (d : Data) (hb : AllB bs) (hlen : bs.length ≤ 65508)
    (h : decodeData code bs = some d) : dataClause code d = none := by
  have hbs := allB_specBytes hb hlen
  by_cases h1 : code = 1
  · subst h1
    simp only [decodeData, if_true] at h
    match bs, h with
    | [v], h =>
        simp only [] at h
        split at h
        · simp at h
        · simp only [Option.some.injEq] at h; subst h
          simp [dataClause, valClause]; omega
  by_cases h4 : code = 4 ∨ code = 5 ∨ code = 9
  · have hlen : bs.length = 4 ∧ d = .val (ofBe bs) := by
      rcases h4 with rfl | rfl | rfl <;> (simp [decodeData] at h; exact ⟨h.1, h.2.symm⟩)
    obtain ⟨hl, rfl⟩ := hlen
    have := ofBe_lt bs hb
    rw [hl] at this
    rcases h4 with rfl | rfl | rfl <;> simp [dataClause, valClause] <;> omega
  by_cases h2 : code = 2
  · subst h2
    simp [decodeData] at h
    obtain ⟨hs, rfl⟩ := h
    simp [dataClause, binClause, hbs, segments_eq, hs]
  by_cases h6 : code = 6
  · subst h6
    simp [decodeData] at h
    obtain ⟨hs, rfl⟩ := h
    simp [dataClause, binClause, Spec.isBytes]
  by_cases h7 : code = 7
  · subst h7
    simp [decodeData] at h
    split at h
    · rename_i h6'
      obtain ⟨_, h⟩ := h
      simp only [Option.some.injEq] at h; subst h
      have hb' : AllB (beN 4 (ofBe (List.take 2 bs)) ++ List.drop 2 bs) :=
        AllB.append (beN_lt 4 _) (hb.drop _)
      simp [dataClause, binClause, allB_specBytes hb' (by simp [beN_length]; omega), beN_length, h6']
    · rename_i h6'
      obtain ⟨hs, h⟩ := h
      simp only [Option.some.injEq] at h; subst h
      simp [dataClause, binClause, hbs, hs h6']
  by_cases h8 : code = 8 ∨ code = 10 ∨ code = 16 ∨ code = 32 ∨ code = 18
  · rcases h8 with rfl | rfl | rfl | rfl | rfl <;>
    · simp [decodeData] at h
      obtain ⟨hs, rfl⟩ := h
      simp [dataClause, binClause, hbs, hs]
  by_cases h17 : code = 17
  · subst h17
    simp [decodeData] at h
    obtain ⟨⟨hl2, hl6⟩, hs, rfl⟩ := h
    simp [dataClause, binClause, hbs, segmentsNonEmpty_eq, hs, hl2]; omega
  by_cases h3 : code = 3
  · subst h3
    simp [decodeData] at h
    obtain ⟨hs, rfl⟩ := h
    simp [dataClause, binClause, hbs, hs]
  by_cases h26 : code = 26
  · subst h26
    simp [decodeData] at h
    obtain ⟨hs, rfl⟩ := h
    simp [dataClause, binClause, hbs, aigpTlvs_eq, hs]
  · have hd : d = .bin bs := by
      have : ¬ (code = 4 ∨ code = 5 ∨ code = 9) := h4
      have h810 : ¬ (code = 8 ∨ code = 10) := by omega
      have h16 : code ≠ 16 := by omega
      have h32 : code ≠ 32 := by omega
      have h18 : code ≠ 18 := by omega
      simp [decodeData, *] at h
      exact h.symm
    subst hd
    have h810 : ¬ (code = 8 ∨ code = 10) := by omega
    have h1459 : ¬ (code = 1 ∨ code = 4 ∨ code = 5 ∨ code = 9) := by omega
    have h16 : code ≠ 16 := by omega
    have h32 : code ≠ 32 := by omega
    have h18 : code ≠ 18 := by omega
    simp [dataClause, binClause, hbs, *]

theorem wfClause_known (a : Attribute) (cls : Nat) (hcl : classOf a.code = some cls) :
    wfClause a = need (decide (a.code < 256) && decide (a.flags < 256)) "code-or-flags-out-of-range"
      (need (flagsOk cls a.flags) "flag-class-wrong" (dataClause a.code a.data)) := by
  unfold wfClause
  rw [hcl]
  cases a.data <;> rfl

theorem canon_class (code f : Nat) (h : canonicalFlags code = some f) :
    ∃ cls, classOf code = some cls ∧ ∀ flags, classBits flags = classBits f → flagsOk cls flags = true := by
  unfold canonicalFlags at h
  split at h
  · rename_i hc
    simp only [Option.some.injEq] at h; subst h
    refine ⟨1, ?_, ?_⟩
    · rcases hc with rfl | rfl | rfl | rfl | rfl <;> simp [classOf]
    · intro flags hf; simp only [classBits] at hf; simp [flagsOk]; omega
  · split at h
    · rename_i hc
      simp only [Option.some.injEq] at h; subst h
      refine ⟨2, ?_, ?_⟩
      · rcases hc with rfl | rfl | rfl | rfl | rfl | rfl | rfl <;> simp [classOf]
      · intro flags hf; simp only [classBits] at hf; simp [flagsOk]; omega
    · split at h
      · rename_i hc
        simp only [Option.some.injEq] at h; subst h
        refine ⟨3, ?_, ?_⟩
        · rcases hc with rfl | rfl | rfl | rfl | rfl | rfl | rfl | rfl <;> simp [classOf]
        · intro flags hf; simp only [classBits] at hf; simp [flagsOk]; omega
      · simp at h

theorem canon_none_class (code : Nat) (h : canonicalFlags code = none) : classOf code = none := by
  unfold canonicalFlags at h
  split at h
  · simp at h
  · split at h
    · simp at h
    · split at h
      · simp at h
      · rename_i h1 h2 h3
        simp only [classOf, List.mem_cons, List.not_mem_nil, or_false]
        rw [if_neg (by omega), if_neg (by omega), if_neg (by omega)]

/-- **decode_wf**: whatever the UPDATE parser stores satisfies the structural invariants `WF`,
    carries the wire flags verbatim, and is never NEXT_HOP / MP_* / AS4_*. -/
theorem decode_wf (code flags : Nat) (bs : Bytes) (a : Attribute) (hc : code < 256) (hf : flags < 256)
    (hb : AllB bs) (hlen : bs.length ≤ 65508) (h : decodeAttr code flags bs = .stored a) :
    WF a ∧ a.code = code ∧ a.flags = flags ∧
      (code ≠ 3 ∧ code ≠ 14 ∧ code ≠ 15 ∧ code ≠ 17 ∧ code ≠ 18) := by
  unfold decodeAttr at h
  split at h
  · rename_i expected hcan
    obtain ⟨cls, hcl, hfl⟩ := canon_class code expected hcan
    split at h
    · simp at h
    · rename_i hbits
      split at h
      · rename_i d hd
        split at h
        · simp at h
        · split at h
          · simp at h
          · rename_i n1 n2
            simp only [Decoded.stored.injEq] at h; subst h
            refine ⟨?_, rfl, rfl, by omega⟩
            simp only [WF]
            rw [wfClause_known _ cls hcl]
            simp only [need_eq_none, Bool.and_eq_true, decide_eq_true_eq]
            exact ⟨⟨hc, hf⟩, hfl flags (by simpa using hbits), decodeData_wf code bs d hb hlen hd⟩
      · split at h <;> simp at h
  · rename_i hcan
    have hcl := canon_none_class code hcan
    split at h
    · simp at h
    · rename_i hopt
      split at h
      · rename_i htr
        simp only [Decoded.stored.injEq] at h; subst h
        refine ⟨?_, rfl, rfl, ?_⟩
        · simp only [WF, wfClause, hcl, need_eq_none, Bool.and_eq_true, decide_eq_true_eq, beq_iff_eq]
          refine ⟨⟨hc, hf⟩, ⟨⟨?_, ?_⟩, allB_specBytes hb hlen⟩, trivial⟩ <;> omega
        · simp only [canonicalFlags] at hcan
          split at hcan
          · simp at hcan
          · split at hcan
            · simp at hcan
            · split at hcan
              · simp at hcan
              · omega
      · simp at h

/-! ## what `attr_from_api` accepts is well-formed -/

theorem canon_lt (code f : Nat) (h : canonicalFlags code = some f) : code < 256 ∧ f < 256 := by
  unfold canonicalFlags at h
  split at h
  · simp only [Option.some.injEq] at h; omega
  · split at h
    · simp only [Option.some.injEq] at h; omega
    · split at h
      · simp only [Option.some.injEq] at h; omega
      · simp at h

/-- a value built by `Attribute::new_with_bin` / `new_with_value` is well-formed as soon as its data is -/
theorem wf_canon (code f : Nat) (d : Data) (hcan : canonicalFlags code = some f)
    (hd : dataClause code d = none) : WF ⟨code, f, d⟩ ∧ flagsCanon ⟨code, f, d⟩ := by
  obtain ⟨cls, hcl, hfl⟩ := canon_class code f hcan
  obtain ⟨h1, h2⟩ := canon_lt code f hcan
  refine ⟨?_, ?_⟩
  · simp only [WF]
    rw [wfClause_known _ cls hcl]
    simp only [need_eq_none, Bool.and_eq_true, decide_eq_true_eq]
    exact ⟨⟨h1, h2⟩, hfl f rfl, hd⟩
  · intro f' hf'
    simp only at hf'
    rw [hcan] at hf'
    simp only [Option.some.injEq] at hf'
    exact hf'

theorem modelIsBytes_allB {bs : Bytes} (h : Rbgp.Api.isBytes bs = true) : AllB bs := allB_of_isBytes h

theorem flatMap_len4 (l : List Nat) : (l.flatMap (beN 4)).length % 4 = 0 := by
  rw [flatMap_beN4_length]; omega

theorem ite_bind_eq_some {α} (b v : Nat) (f : Nat → Option α) (c : α) :
    ((if b < v then none else some v).bind f = some c) ↔ (v ≤ b ∧ f v = some c) := by
  split
  · simp; omega
  · simp; omega

theorem parse4_bind_eq_some {α} (s : AStr) (f : Nat → Option α) (c : α) :
    (s.parse4.bind f = some c) ↔ ∃ n, s = .ip4 n ∧ f n = some c := by
  cases s <;> simp [AStr.parse4]

theorem AllB.cons {x : Nat} {l : Bytes} (hx : x < 256) (hl : AllB l) : AllB (x :: l) := by
  intro b hb
  rcases List.mem_cons.mp hb with rfl | hb
  · exact hx
  · exact hl b hb

theorem boolBit_lt (b : Bool) (v : Nat) (h : v < 200) : boolBit b v < 200 := by
  unfold boolBit; split <;> omega
theorem boolBit_le (b : Bool) (v : Nat) : boolBit b v ≤ v := by
  unfold boolBit; split <;> omega

theorem writeExtcom_len (e : ExtCom) (c : Bytes) (hr : e.inRange = true) (h : writeExtcom e = some c) :
    c.length = 8 ∧ AllB c := by
  cases e with
  | missing => simp [writeExtcom] at h
  | other => simp [writeExtcom] at h
  | unknown ty v =>
      simp only [writeExtcom] at h
      split at h
      · simp at h
      · rename_i hl
        simp only [Option.some.injEq] at h; subst h
        simp only [ExtCom.inRange, Bool.and_eq_true] at hr
        exact ⟨by omega, modelIsBytes_allB hr.2⟩
  | twoOctetAs t sub a la =>
      simp [writeExtcom, ensure, ite_bind_eq_some] at h
      obtain ⟨h1, h2, rfl⟩ := h
      have := boolBit_lt (!t) 64 (by omega)
      exact ⟨by simp [beN_length], AllB.cons (by omega) (AllB.cons (by omega) (AllB.append (beN_lt _ _) (beN_lt _ _)))⟩
  | ipv4 t sub addr la =>
      simp [writeExtcom, ensure, ite_bind_eq_some, parse4_bind_eq_some] at h
      obtain ⟨h1, n, rfl, h2, rfl⟩ := h
      have := boolBit_lt (!t) 64 (by omega)
      exact ⟨by simp [beN_length], AllB.cons (by omega) (AllB.cons (by omega) (AllB.append (beN_lt _ _) (beN_lt _ _)))⟩
  | fourOctetAs t sub a la =>
      simp [writeExtcom, ensure, ite_bind_eq_some] at h
      obtain ⟨h1, h2, rfl⟩ := h
      have := boolBit_lt (!t) 64 (by omega)
      exact ⟨by simp [beN_length], AllB.cons (by omega) (AllB.cons (by omega) (AllB.append (beN_lt _ _) (beN_lt _ _)))⟩
  | mup sub a b =>
      simp [writeExtcom, ensure, ite_bind_eq_some] at h
      obtain ⟨h1, h2, rfl⟩ := h
      exact ⟨by simp [beN_length], AllB.cons (by omega) (AllB.cons (by omega) (AllB.append (beN_lt _ _) (beN_lt _ _)))⟩
  | trafficRate a r =>
      simp [writeExtcom, ensure, ite_bind_eq_some] at h
      obtain ⟨h1, rfl⟩ := h
      exact ⟨by simp [beN_length], AllB.cons (by omega) (AllB.cons (by omega) (AllB.append (beN_lt _ _) (beN_lt _ _)))⟩
  | trafficAction t s =>
      simp [writeExtcom] at h
      subst h
      have h1 := boolBit_le t 1
      have h2 := boolBit_le s 2
      refine ⟨rfl, ?_⟩
      intro b hb
      simp only [List.mem_cons, List.not_mem_nil, or_false] at hb
      rcases hb with rfl | rfl | rfl | rfl | rfl | rfl | rfl | rfl <;> omega
  | redirect2 a l =>
      simp [writeExtcom, ensure, ite_bind_eq_some] at h
      obtain ⟨h1, rfl⟩ := h
      exact ⟨by simp [beN_length], AllB.cons (by omega) (AllB.cons (by omega) (AllB.append (beN_lt _ _) (beN_lt _ _)))⟩
  | trafficRemark d =>
      simp [writeExtcom] at h
      subst h
      refine ⟨rfl, ?_⟩
      intro b hb
      simp only [List.mem_cons, List.not_mem_nil, or_false] at hb
      rcases hb with rfl | rfl | rfl | rfl | rfl | rfl | rfl | rfl <;> omega
  | redirectIp4 addr l =>
      simp [writeExtcom, ensure, ite_bind_eq_some, parse4_bind_eq_some] at h
      obtain ⟨n, rfl, h2, rfl⟩ := h
      exact ⟨by simp [beN_length], AllB.cons (by omega) (AllB.cons (by omega) (AllB.append (beN_lt _ _) (beN_lt _ _)))⟩
  | redirect4 a l =>
      simp [writeExtcom, ensure, ite_bind_eq_some] at h
      obtain ⟨h1, rfl⟩ := h
      exact ⟨by simp [beN_length], AllB.cons (by omega) (AllB.cons (by omega) (AllB.append (beN_lt _ _) (beN_lt _ _)))⟩
theorem binClause_c8 (bs : Bytes) (hb : Spec.isBytes bs = true) (hl : bs.length % 4 = 0) :
    binClause 8 bs = none := by simp [binClause, hb, hl]
theorem binClause_c10 (bs : Bytes) (hb : Spec.isBytes bs = true) (hl : bs.length % 4 = 0) :
    binClause 10 bs = none := by simp [binClause, hb, hl]
theorem binClause_c16 (bs : Bytes) (hb : Spec.isBytes bs = true) (hl : bs.length % 8 = 0) :
    binClause 16 bs = none := by simp [binClause, hb, hl]
theorem binClause_c32 (bs : Bytes) (hb : Spec.isBytes bs = true) (hl : bs.length % 12 = 0) :
    binClause 32 bs = none := by simp [binClause, hb, hl]
theorem binClause_c7 (bs : Bytes) (hb : Spec.isBytes bs = true) (hl : bs.length = 8) :
    binClause 7 bs = none := by simp [binClause, hb, hl]
theorem binClause_c2 (bs : Bytes) (hb : Spec.isBytes bs = true) (hs : segsOk bs = true) :
    binClause 2 bs = none := by simp [binClause, hb, segments_eq, hs]
theorem binClause_c3 (bs : Bytes) (hb : Spec.isBytes bs = true) (hl : bs.length = 4 ∨ bs.length = 16) :
    binClause 3 bs = none := by
  simp [binClause, hb, hl]

theorem flatMap3_len (l : List (Nat × Nat × Nat)) :
    (l.flatMap fun t => beN 4 t.1 ++ beN 4 t.2.1 ++ beN 4 t.2.2).length % 12 = 0 := by
  induction l with
  | nil => rfl
  | cons t ts ih =>
      rw [List.flatMap_cons, List.length_append]
      simp only [List.length_append, beN_length]
      omega

theorem mapM_some_forall {α β} (f : α → Option β) (P : β → Prop) (l : List α) (cs : List β)
    (h : l.mapM f = some cs) (hp : ∀ e ∈ l, ∀ c, f e = some c → P c) : ∀ c ∈ cs, P c := by
  induction l generalizing cs with
  | nil => simp at h; subst h; simp
  | cons e es ih =>
      simp only [List.mapM_cons, Option.bind_eq_bind, Option.pure_def] at h
      cases hfe : f e with
      | none => simp [hfe] at h
      | some x =>
          cases hes : es.mapM f with
          | none => simp [hfe, hes] at h
          | some xs =>
              simp [hfe, hes] at h
              subst h
              intro c hc
              rcases List.mem_cons.mp hc with rfl | hc
              · exact hp e (by simp) _ hfe
              · exact ih xs hes (fun e' he' => hp e' (List.mem_cons_of_mem _ he')) c hc

theorem flatten_len8 (cs : List Bytes) (h : ∀ c ∈ cs, c.length = 8 ∧ AllB c) :
    cs.flatten.length % 8 = 0 ∧ AllB cs.flatten := by
  induction cs with
  | nil => exact ⟨rfl, by intro b hb; simp at hb⟩
  | cons c cs ih =>
      obtain ⟨h1, h2⟩ := ih (fun c' hc' => h c' (List.mem_cons_of_mem _ hc'))
      obtain ⟨hc1, hc2⟩ := h c (by simp)
      refine ⟨?_, ?_⟩
      · simp only [List.flatten_cons, List.length_append]; omega
      · simp only [List.flatten_cons]; exact AllB.append hc2 h2

theorem mpCarrier_allB (afi safi : Nat) (nh : Bytes) (hs : safi < 256) (hn : AllB nh) (hl : nh.length < 256) :
    AllB (mpCarrier afi safi nh) := by
  unfold mpCarrier
  refine AllB.append (AllB.append (AllB.append (beN_lt 2 afi) ?_) hn) ?_
  · intro b hb
    simp only [List.mem_cons, List.mem_nil_iff, or_false] at hb
    rcases hb with rfl | rfl <;> assumption
  · intro b hb
    simp only [List.mem_singleton] at hb; subst hb; omega

/-- the carrier built for a typed MP_REACH message consists of octets -/
theorem mpReachValue_ok (fam : Option (Nat × Nat)) (nhs : List AStr) (b : Bytes)
    (h : mpReachValue current fam nhs = some b) : AllB b := by
  unfold mpReachValue at h
  cases fam with
  | none => simp at h
  | some p =>
      obtain ⟨afi, safi⟩ := p
      simp only at h
      split at h
      · simp at h
      · have hs : safi % 256 < 256 := Nat.mod_lt _ (by omega)
        cases nhs with
        | nil =>
            simp only at h
            split at h
            · simp only [Option.some.injEq] at h; subst h
              exact mpCarrier_allB _ _ [] hs (by intro b hb; simp at hb) (by simp)
            · simp at h
        | cons s rest =>
            simp only at h
            cases s with
            | ip4 n =>
                simp only [AStr.parse4, Option.some.injEq] at h; subst h
                exact mpCarrier_allB _ _ _ hs (beN_lt 4 n) (by simp [beN_length])
            | ip6 n =>
                simp only [AStr.parse4, AStr.parse6, Option.some.injEq] at h; subst h
                exact mpCarrier_allB _ _ _ hs (beN_lt 16 n) (by simp [beN_length])
            | bad k => simp [AStr.parse4, AStr.parse6] at h

/-- **from_api_wf**: whatever `attr_from_api` accepts satisfies the invariants of wire-decoded values,
    and carries the canonical flags of its code. -/
theorem from_api_wf (x : ApiAttr) (a : Attribute) (hr : x.inRange = true)
    (h : fromApi0 current x = .ok a) (hsz : a.valueLen ≤ maxAttrValue) (hst : x.strict = true) :
    WF a ∧ flagsCanon a := by
  cases x with
  | missing => simp [fromApi0] at h
  | other => simp [fromApi0] at h
  | origin o =>
      simp only [fromApi0, current] at h
      split at h
      · simp at h
      · rename_i ho
        have ho' : o ≤ 2 := by simp at ho; omega
        simp [newWithValue, canonicalFlags] at h; subst h
        exact wf_canon 1 0x40 _ (by simp [canonicalFlags]) (by simp [dataClause, valClause]; omega)
  | med m =>
      simp [fromApi0, newWithValue, canonicalFlags] at h; subst h
      simp only [ApiAttr.inRange, u32, decide_eq_true_eq] at hr
      exact wf_canon 4 0x80 _ (by simp [canonicalFlags]) (by simp [dataClause, valClause]; omega)
  | localPref m =>
      simp [fromApi0, newWithValue, canonicalFlags] at h; subst h
      simp only [ApiAttr.inRange, u32, decide_eq_true_eq] at hr
      exact wf_canon 5 0x40 _ (by simp [canonicalFlags]) (by simp [dataClause, valClause]; omega)
  | atomicAggregate =>
      simp [fromApi0, newWithBin, canonicalFlags] at h; subst h
      exact wf_canon 6 0x40 _ (by simp [canonicalFlags]) (by simp [dataClause, binClause, Spec.isBytes])
  | nextHop s =>
      simp only [fromApi0, current] at h
      cases s with
      | ip4 n =>
          simp [AStr.parse4, newWithBin, canonicalFlags] at h; subst h
          exact wf_canon 3 0x40 _ (by simp [canonicalFlags])
            (binClause_c3 _ (allB_specBytes (beN_lt 4 n) hsz) (Or.inl (beN_length 4 n)))
      | ip6 n =>
          simp [AStr.parse4, AStr.parse6, newWithBin, canonicalFlags] at h; subst h
          exact wf_canon 3 0x40 _ (by simp [canonicalFlags])
            (binClause_c3 _ (allB_specBytes (beN_lt 16 n) hsz) (Or.inr (beN_length 16 n)))
      | bad k => simp [AStr.parse4, AStr.parse6] at h
  | aggregator asn addr =>
      simp only [fromApi0] at h
      cases addr with
      | ip4 n =>
          simp [AStr.parse4, newWithBin, canonicalFlags] at h; subst h
          exact wf_canon 7 0xC0 _ (by simp [canonicalFlags])
            (binClause_c7 _ (allB_specBytes (AllB.append (beN_lt 4 asn) (beN_lt 4 n)) hsz)
              (by simp [beN_length]))
      | ip6 n => simp [AStr.parse4] at h
      | bad k => simp [AStr.parse4] at h
  | communities l =>
      simp [fromApi0, newWithBin, canonicalFlags] at h; subst h
      exact wf_canon 8 0xC0 _ (by simp [canonicalFlags])
        (binClause_c8 _ (allB_specBytes (flatMap_beN_allB 4 l) hsz) (flatMap_len4 l))
  | originatorId s =>
      simp only [fromApi0] at h
      cases s with
      | ip4 n =>
          simp [AStr.parse4, newWithValue, canonicalFlags] at h; subst h
          simp only [ApiAttr.inRange, AStr.inRange, u32, decide_eq_true_eq] at hr
          exact wf_canon 9 0x80 _ (by simp [canonicalFlags]) (by simp [dataClause, valClause]; omega)
      | ip6 n => simp [AStr.parse4] at h
      | bad k => simp [AStr.parse4] at h
  | clusterList ids =>
      simp only [fromApi0] at h
      split at h
      · simp at h
      · rename_i l hl
        simp [newWithBin, canonicalFlags] at h; subst h
        exact wf_canon 10 0x80 _ (by simp [canonicalFlags])
          (binClause_c10 _ (allB_specBytes (flatMap_beN_allB 4 l) hsz) (flatMap_len4 l))
  | largeCommunities l =>
      simp only [fromApi0, okOrErr_eq, newWithBin, canonicalFlags] at h
      simp at h; subst h
      have hb : AllB (l.flatMap fun t => beN 4 t.1 ++ beN 4 t.2.1 ++ beN 4 t.2.2) := by
        intro b hb
        rcases List.mem_flatMap.mp hb with ⟨t, _, ht⟩
        simp only [List.mem_append] at ht
        rcases ht with (ht | ht) | ht <;> exact beN_lt 4 _ b ht
      have e : (l.flatMap fun t => beN 4 t.1 ++ (beN 4 t.2.1 ++ beN 4 t.2.2))
          = (l.flatMap fun t => beN 4 t.1 ++ beN 4 t.2.1 ++ beN 4 t.2.2) := by
        simp only [List.append_assoc]
      rw [e]
      exact wf_canon 32 0xC0 _ (by simp [canonicalFlags])
        (binClause_c32 _ (allB_specBytes hb hsz) (flatMap3_len l))
  | mpReach fam nhs =>
      simp only [fromApi0] at h
      cases hv : mpReachValue current fam nhs with
      | none => simp [hv] at h
      | some b =>
          simp [hv, newWithBin, canonicalFlags] at h; subst h
          have hb := mpReachValue_ok fam nhs b hv
          exact wf_canon 14 0x80 _ (by simp [canonicalFlags])
            (by simp [dataClause, binClause, allB_specBytes hb hsz])
  | extCommunities l =>
      simp only [fromApi0] at h
      split at h
      · simp at h
      · rename_i cs hcs
        simp [newWithBin, canonicalFlags] at h; subst h
        simp only [ApiAttr.inRange, List.all_eq_true] at hr
        have hall : ∀ c ∈ cs, c.length = 8 ∧ AllB c :=
          mapM_some_forall writeExtcom _ l cs hcs (fun e he c hc => writeExtcom_len e c (hr e he) hc)
        obtain ⟨h8, hb⟩ := flatten_len8 cs hall
        exact wf_canon 16 0xC0 _ (by simp [canonicalFlags])
          (binClause_c16 _ (allB_specBytes hb hsz) h8)
  | asPath segs =>
      simp only [fromApi0, current] at h
      split at h
      · simp at h
      · rename_i hany
        simp [newWithBin, canonicalFlags] at h; subst h
        have hsegs : ∀ s ∈ segs, (1 ≤ s.1 ∧ s.1 ≤ 4) ∧ 1 ≤ s.2.length ∧ s.2.length ≤ 255 := by
          intro s hs
          simp only [true_and, List.any_eq_true, not_exists, not_and, Bool.or_eq_true,
            Bool.not_eq_true', decide_eq_false_iff_not, decide_eq_true_eq, not_or] at hany
          have := hany s hs
          simp only [ApiAttr.strict, List.all_eq_true, decide_eq_true_eq] at hst
          have := hst s hs
          omega
        have hok := segsOk_enc segs hsegs
        have hb := encSeg_allB segs
        exact wf_canon 2 0x40 _ (by simp [canonicalFlags])
          (by
            have e : (segs.flatMap fun s => s.1 % 256 :: s.2.length % 256 :: s.2.flatMap (beN 4))
                = segs.flatMap encSeg := rfl
            rw [e]
            exact binClause_c2 _ (allB_specBytes hb hsz) hok)
  | unknown f t v =>
      simp only [fromApi0, current, if_true] at h
      split at h
      · simp at h
      · rename_i hlt
        have ht : t % 256 = t := Nat.mod_eq_of_lt (by omega)
        rw [ht] at h
        simp only [ApiAttr.inRange, Bool.and_eq_true] at hr
        have hv := allB_specBytes (modelIsBytes_allB hr.2)
        split at h
        · rename_i fl hcan
          split at h
          · simp at h
          · rename_i hty
            simp only [typedCode, decide_eq_true_eq, not_or] at hty
            obtain ⟨n1, n2, n3, n4, n5, n6, n7, n8, n9, n10, n16, n32, n23, n29, n17, n18⟩ := hty
            split at h
            · simp at h
            · rename_i haigp
              simp only [Out.ok.injEq] at h; subst h
              have hv := hv hsz
              exact wf_canon t fl _ hcan (by
                have a1 : ¬ (t = 1 ∨ t = 4 ∨ t = 5 ∨ t = 9) := by omega
                have a2 : ¬ (t = 8 ∨ t = 10) := by omega
                by_cases h26 : t = 26
                · subst h26
                  have : aigpOk v = true := by
                    cases hh : aigpOk v with
                    | true => rfl
                    | false => exact absurd ⟨rfl, hh⟩ haigp
                  simp [dataClause, binClause, hv, aigpTlvs_eq, this]
                · simp [dataClause, binClause, hv, *])
        · rename_i hcan
          split at h
          · rename_i hbits
            simp only [Out.ok.injEq] at h; subst h
            have hv := hv hsz
            have hcl := canon_none_class t hcan
            refine ⟨?_, ?_⟩
            · simp only [WF, wfClause, hcl, need_eq_none, Bool.and_eq_true, decide_eq_true_eq, beq_iff_eq]
              exact ⟨⟨by omega, by omega⟩, ⟨⟨hbits.1, hbits.2⟩, hv⟩, trivial⟩
            · intro f' hf'; simp only at hf'; rw [hcan] at hf'; simp at hf'
          · simp at h

/-! ## consumers never panic on well-formed values -/

theorem wf_class (a : Attribute) (h : WF a) :
    (∃ cls, classOf a.code = some cls ∧ dataClause a.code a.data = none) ∨
    (classOf a.code = none ∧ ∃ b, a.data = .raw b) := by
  cases hcl : classOf a.code with
  | some cls =>
      left
      simp only [WF] at h
      rw [wfClause_known a cls hcl] at h
      simp only [need_eq_none] at h
      exact ⟨cls, rfl, h.2.2⟩
  | none =>
      right
      simp only [WF, wfClause, hcl, need_eq_none] at h
      refine ⟨rfl, ?_⟩
      cases hd : a.data with
      | raw b => exact ⟨b, rfl⟩
      | val v => rw [hd] at h; simp at h
      | bin b => rw [hd] at h; simp at h

theorem wf_val_of_code (a : Attribute) (h : WF a) (hc : a.code = 1 ∨ a.code = 4 ∨ a.code = 5 ∨ a.code = 9) :
    ∃ v, a.data = .val v := by
  rcases wf_class a h with ⟨cls, _, hd⟩ | ⟨hcl, _⟩
  · cases hdat : a.data with
    | val v => exact ⟨v, rfl⟩
    | raw b => rw [hdat] at hd; simp [dataClause] at hd
    | bin b =>
        rw [hdat] at hd
        rcases hc with hc | hc | hc | hc <;> simp [dataClause, binClause, hc] at hd
  · rcases hc with hc | hc | hc | hc <;> simp [classOf, hc] at hcl

theorem wf_binary_of_code (a : Attribute) (h : WF a)
    (hc : ¬ (a.code = 1 ∨ a.code = 4 ∨ a.code = 5 ∨ a.code = 9)) : ∃ b, a.binary = some b := by
  rcases wf_class a h with ⟨cls, _, hd⟩ | ⟨_, b, hb⟩
  · cases hdat : a.data with
    | val v =>
        rw [hdat] at hd
        have h1 : a.code ≠ 1 := by omega
        have h4 : ¬ (a.code = 4 ∨ a.code = 5 ∨ a.code = 9) := by omega
        simp [dataClause, valClause, h1, h4] at hd
    | raw b => exact ⟨b, by simp [Attribute.binary, hdat]⟩
    | bin b => exact ⟨b, by simp [Attribute.binary, hdat]⟩
  · exact ⟨b, by simp [Attribute.binary, hb]⟩

theorem wf_aspath (a : Attribute) (h : WF a) (hc : a.code = 2) : ∃ b, a.data = .bin b ∧ segsOk b = true := by
  rcases wf_class a h with ⟨cls, _, hd⟩ | ⟨hcl, _⟩
  · cases hdat : a.data with
    | val v => rw [hdat] at hd; simp [dataClause, valClause, hc] at hd
    | raw b => rw [hdat] at hd; simp [dataClause] at hd
    | bin b =>
        rw [hdat] at hd
        simp [dataClause, binClause, hc, segments_eq] at hd
        exact ⟨b, rfl, hd.2⟩
  · simp [classOf, hc] at hcl

theorem wf_aggregator (a : Attribute) (h : WF a) (hc : a.code = 7) : ∃ b, a.data = .bin b ∧ b.length = 8 := by
  rcases wf_class a h with ⟨cls, _, hd⟩ | ⟨hcl, _⟩
  · cases hdat : a.data with
    | val v => rw [hdat] at hd; simp [dataClause, valClause, hc] at hd
    | raw b => rw [hdat] at hd; simp [dataClause] at hd
    | bin b =>
        rw [hdat] at hd
        simp [dataClause, binClause, hc] at hd
        exact ⟨b, rfl, hd.2⟩
  · simp [classOf, hc] at hcl

theorem encodeAttr_ok (a : Attribute) (h : WF a) : ∃ b, encodeAttr a = .ok b := by
  unfold encodeAttr
  by_cases h1 : a.code = 1
  · obtain ⟨v, hv⟩ := wf_val_of_code a h (Or.inl h1)
    simp [h1, Attribute.value, hv]
  · by_cases h4 : a.code = 4 ∨ a.code = 5 ∨ a.code = 9
    · obtain ⟨v, hv⟩ := wf_val_of_code a h (Or.inr h4)
      simp [h1, h4, Attribute.value, hv]
    · obtain ⟨b, hb⟩ := wf_binary_of_code a h (by omega)
      simp [h1, h4, hb]

theorem asPathLength_ok (a : Attribute) (h : WF a) (hc : a.code = 2) : ∃ n, asPathLength a = .ok n := by
  obtain ⟨b, hb, hs⟩ := wf_aspath a h hc
  obtain ⟨n, hn⟩ := asPathLengthLoop_ok b 0 hs
  exact ⟨n, by simp [asPathLength, hc, Attribute.binary, hb, hn]⟩

theorem asPathOrigin_ok (a : Attribute) (h : WF a) (hc : a.code = 2) : ∃ r, asPathOrigin a = .ok r := by
  obtain ⟨b, hb, hs⟩ := wf_aspath a h hc
  obtain ⟨r, hr⟩ := asPathOriginLoop_ok b (0, 0, 0) hs
  unfold asPathOrigin
  simp only [Attribute.binary, hb, unwrapO_some, Out.bind_ok']
  split
  · exact ⟨none, rfl⟩
  · simp [hr]

theorem asPathPrepend_ok (a : Attribute) (asn : Nat) (h : WF a) (hc : a.code = 2) :
    ∃ a', asPathPrepend a asn = .ok a' ∧ ∃ b, a'.binary = some b := by
  obtain ⟨b, hb, hs⟩ := wf_aspath a h hc
  unfold asPathPrepend
  simp only [hc, ne_eq, not_true_eq_false, if_false, Attribute.binary, hb, unwrapO_some, Out.bind_ok']
  match b, hs with
  | [], _ => exact ⟨_, rfl, _, rfl⟩
  | [x], hs => simp [segsOk] at hs
  | t :: l :: rest, _ =>
      simp only [Out.pure_eq]
      split
      · exact ⟨_, rfl, t :: (l + 1) :: (beN 4 asn ++ rest), rfl⟩
      · exact ⟨_, rfl, 2 :: 1 :: (beN 4 asn ++ t :: l :: rest), rfl⟩

theorem encode2_ok (a : Attribute) (h : WF a) : ∃ r, encode2 a = .ok r := by
  unfold encode2
  by_cases h2 : a.code = 2
  · obtain ⟨b, hb, hs⟩ := wf_aspath a h h2
    obtain ⟨d, hd⟩ := downgrade2_ok b hs
    obtain ⟨w, hw⟩ := hasWide_ok b hs
    obtain ⟨s, hs'⟩ := stripConfed_ok b hs
    rw [if_pos h2]
    simp only [Attribute.binary, hb, unwrapO_some, Out.bind_ok', hd, hw]
    have e1 : ∃ x, encodeAttr { a with data := .bin d } = .ok x := by
      simp [encodeAttr, h2, Attribute.binary]
    obtain ⟨x, hx⟩ := e1
    simp only [hx, Out.bind_ok']
    cases w with
    | false => exact ⟨x, by simp⟩
    | true =>
        simp only [if_true, hs', Out.bind_ok']
        have e2 : ∃ y, encodeAttr { code := 17, flags := 0xC0, data := .bin s } = .ok y := by
          simp [encodeAttr, Attribute.binary]
        obtain ⟨y, hy⟩ := e2
        exact ⟨x ++ y, by simp [hy]⟩
  · by_cases h7 : a.code = 7
    · obtain ⟨b, hb, hl⟩ := wf_aggregator a h h7
      rw [if_neg h2, if_pos h7]
      simp only [Attribute.binary, hb, unwrapO_some, Out.bind_ok']
      have hlt : ¬ b.length < 8 := by omega
      rw [if_neg hlt]
      have e1 : ∀ bin, ∃ x, encodeAttr { a with data := .bin bin } = .ok x := by
        intro bin; simp [encodeAttr, h7, Attribute.binary]
      obtain ⟨x, hx⟩ := e1 (beN 2 (if ofBe (b.take 4) > 65535 then 23456 else ofBe (b.take 4)) ++ (b.drop 4).take 4)
      simp only [hx, Out.bind_ok']
      split
      · have e2 : ∃ y, encodeAttr { code := 18, flags := 0xC0, data := .bin b } = .ok y := by
          simp [encodeAttr, Attribute.binary]
        obtain ⟨y, hy⟩ := e2
        exact ⟨x ++ y, by simp [hy]⟩
      · exact ⟨x, by simp⟩
    · rw [if_neg h2, if_neg h7]
      exact encodeAttr_ok a h

theorem wf_originIgp : WF originIgp := by
  simp [WF, wfClause, originIgp, classOf, flagsOk, valClause]

theorem wf_baseAsPath : WF baseAsPath := by
  simp [WF, wfClause, baseAsPath, classOf, flagsOk, binClause, Spec.isBytes, beN, Spec.segments]

theorem pathAttrs_wf (a : Attribute) (h : WF a) : ∀ x ∈ pathAttrs a, WF x := by
  intro x hx
  simp only [pathAttrs, List.mem_append, List.mem_singleton] at hx
  rcases hx with (rfl | hx) | hx
  · exact h
  · split at hx
    · simp at hx
    · simp only [List.mem_singleton] at hx; subst hx; exact wf_originIgp
  · split at hx
    · simp at hx
    · simp only [List.mem_singleton] at hx; subst hx; exact wf_baseAsPath

theorem findCode_some (c : Nat) (L : List Attribute) (x : Attribute) (h : findCode c L = some x) :
    x ∈ L ∧ x.code = c := by
  unfold findCode at h
  have := List.find?_some h
  exact ⟨List.mem_of_find?_eq_some h, by simpa using this⟩

theorem needVal_ok (c : Nat) (hc : c = 1 ∨ c = 4 ∨ c = 5 ∨ c = 9) (L : List Attribute)
    (h : ∀ x ∈ L, WF x) : needVal c L = .ok () := by
  unfold needVal
  cases hf : findCode c L with
  | none => rfl
  | some x =>
      obtain ⟨hm, hcx⟩ := findCode_some c L x hf
      obtain ⟨v, hv⟩ := wf_val_of_code x (h x hm) (by rw [hcx]; exact hc)
      simp [Attribute.value, hv]

theorem needLen_ok (L : List Attribute) (h : ∀ x ∈ L, WF x) : needLen L = .ok () := by
  unfold needLen
  cases hf : findCode 2 L with
  | none => rfl
  | some x =>
      obtain ⟨hm, hcx⟩ := findCode_some 2 L x hf
      obtain ⟨n, hn⟩ := asPathLength_ok x (h x hm) hcx
      simp [hn]

theorem cmpUse_ok (L : List Attribute) (h : ∀ x ∈ L, WF x) : cmpUse L = .ok () := by
  unfold cmpUse
  simp [needVal_ok 5 (by omega) L h, needLen_ok L h, needVal_ok 1 (by omega) L h,
    needVal_ok 9 (by omega) L h]

theorem polUse_ok (L : List Attribute) (h : ∀ x ∈ L, WF x) : ∃ b, polUse L = .ok b := by
  unfold polUse
  cases hf : findCode 2 L with
  | none => exact ⟨_, rfl⟩
  | some x =>
      obtain ⟨hm, hcx⟩ := findCode_some 2 L x hf
      obtain ⟨n, hn⟩ := asPathLength_ok x (h x hm) hcx
      obtain ⟨a', ha', b, hb⟩ := asPathPrepend_ok x 65000 (h x hm) hcx
      exact ⟨b, by simp [hn, ha', hb]⟩

theorem sumAll_ok {α} (f : α → Out Bytes) (L : List α) (h : ∀ x ∈ L, ∃ b, f x = .ok b) :
    ∃ n, sumAll f L = .ok n := by
  induction L with
  | nil => exact ⟨0, rfl⟩
  | cons x xs ih =>
      obtain ⟨b, hb⟩ := h x (by simp)
      obtain ⟨n, hn⟩ := ih (fun y hy => h y (List.mem_cons_of_mem _ hy))
      exact ⟨b.length + n, by simp [sumAll, hb, hn]⟩

theorem msgUse_no_panic (f : Attribute → Out Bytes) (L : List Attribute) (h : ∀ x ∈ L, ∃ b, f x = .ok b) :
    msgUse f L ≠ .panic := by
  obtain ⟨n, hn⟩ := sumAll_ok f L h
  unfold msgUse
  rw [hn]
  simp only
  split <;> simp

/-- **wf_safe**: a well-formed attribute stored in a path never makes best-path comparison, policy
    evaluation, `as_path_length`/`as_path_origin` or either UPDATE encoder panic. -/
@[simp] theorem isPanic_ok {α} (a : α) : (Out.ok a).isPanic = false := rfl
@[simp] theorem isPanic_err {α} : (Out.err : Out α).isPanic = false := rfl
@[simp] theorem isPanic_panic {α} : (Out.panic : Out α).isPanic = true := rfl

theorem isPanic_false_of_ne {α} (o : Out α) (h : o ≠ .panic) : o.isPanic = false := by
  cases o <;> simp [Out.isPanic] at h ⊢

theorem wf_safe (a : Attribute) (h : WF a) : (useOf a).noPanic = true := by
  have hall := pathAttrs_wf a h
  obtain ⟨e, he⟩ := encodeAttr_ok a h
  obtain ⟨p, hp⟩ := polUse_ok _ hall
  have hc := cmpUse_ok _ hall
  have h4 := isPanic_false_of_ne _
    (msgUse_no_panic encodeAttr _ (fun x hx => encodeAttr_ok x (hall x hx)))
  have h2 := isPanic_false_of_ne _
    (msgUse_no_panic encode2 _ (fun x hx => encode2_ok x (hall x hx)))
  unfold useOf Use.noPanic
  by_cases h2c : a.code = 2
  · obtain ⟨n, hn⟩ := asPathLength_ok a h h2c
    obtain ⟨r, hr⟩ := asPathOrigin_ok a h h2c
    simp [he, hp, hc, h4, h2, h2c, hn, hr]
  · simp [he, hp, hc, h4, h2, h2c]

/-! ## NLRI -/

theorem rd_roundtrip (rd : Rd) (h : rdOk rd = true) : rdFromApi (rdToApi rd) = some rd := by
  cases rd <;> simp [rdOk] at h <;> simp [rdToApi, rdFromApi, AStr.parse4] <;> omega

theorem map_mod_id (ls : List Nat) (h : ∀ l ∈ ls, l < 1048576) : ls.map (· % 1048576) = ls := by
  induction ls with
  | nil => rfl
  | cons x xs ih =>
      simp only [List.map_cons]
      rw [Nat.mod_eq_of_lt (h x (by simp)), ih (fun l hl => h l (List.mem_cons_of_mem _ hl))]

/-- **roundtrip_nlri** -/
theorem roundtrip_nlri (n : Nlri) (h : WFN n) : netFromApi0 current (nlriToApi n) = .ok n := by
  cases n with
  | v4 a m =>
      simp [WFN, nlriClause, prefixClause] at h
      simp [nlriToApi, netFromApi0]; omega
  | v6 a m =>
      simp [WFN, nlriClause, prefixClause] at h
      simp [nlriToApi, netFromApi0]; omega
  | lv4 ls a m =>
      simp [WFN, nlriClause, prefixClause, labelsOk] at h
      obtain ⟨h1, h2, hz, ⟨h3, h4⟩, h5⟩ := h
      simp only [nlriToApi, netFromApi0, map_mod_id ls h4, current]
      rw [if_neg (by intro hc; obtain ⟨_, hc⟩ := hc; omega), Nat.mod_eq_of_lt (by omega)]
  | lv6 ls a m =>
      simp [WFN, nlriClause, prefixClause, labelsOk] at h
      obtain ⟨h1, h2, hz, ⟨h3, h4⟩, h5⟩ := h
      simp only [nlriToApi, netFromApi0, map_mod_id ls h4, current]
      rw [if_neg (by intro hc; obtain ⟨_, hc⟩ := hc; omega), Nat.mod_eq_of_lt (by omega)]
  | vpn4 ls rd a m =>
      simp [WFN, nlriClause, prefixClause, labelsOk] at h
      obtain ⟨h1, h2, hz, ⟨⟨h3, h4⟩, h5⟩, h6⟩ := h
      simp only [nlriToApi, netFromApi0, map_mod_id ls h4, current, rd_roundtrip rd h6]
      rw [if_neg (by intro hc; obtain ⟨_, hc⟩ := hc; omega), Nat.mod_eq_of_lt (by omega)]
  | vpn6 ls rd a m =>
      simp [WFN, nlriClause, prefixClause, labelsOk] at h
      obtain ⟨h1, h2, hz, ⟨⟨h3, h4⟩, h5⟩, h6⟩ := h
      simp only [nlriToApi, netFromApi0, map_mod_id ls h4, current, rd_roundtrip rd h6]
      rw [if_neg (by intro hc; obtain ⟨_, hc⟩ := hc; omega), Nat.mod_eq_of_lt (by omega)]

/-- the listed form of a well-formed prefix is an exact message -/
theorem nlriToApi_strict (n : Nlri) (h : WFN n) : (nlriToApi n).strict = true := by
  cases n with
  | v4 a m =>
      simp [WFN, nlriClause, prefixClause, hostOctetsZero] at h
      simp [nlriToApi, ApiNlri.strict, hostBitsClear, h.2.2]
  | v6 a m =>
      simp [WFN, nlriClause, prefixClause, hostOctetsZero] at h
      simp [nlriToApi, ApiNlri.strict, hostBitsClear, h.2.2]
  | lv4 ls a m =>
      simp [WFN, nlriClause, prefixClause, hostOctetsZero, labelsOk] at h
      obtain ⟨h1, h2, hz, ⟨h3, h4⟩, h5⟩ := h
      simp [nlriToApi, ApiNlri.strict, hostBitsClear, hz]; exact h4
  | lv6 ls a m =>
      simp [WFN, nlriClause, prefixClause, hostOctetsZero, labelsOk] at h
      obtain ⟨h1, h2, hz, ⟨h3, h4⟩, h5⟩ := h
      simp [nlriToApi, ApiNlri.strict, hostBitsClear, hz]; exact h4
  | vpn4 ls rd a m =>
      simp [WFN, nlriClause, prefixClause, hostOctetsZero, labelsOk] at h
      obtain ⟨h1, h2, hz, ⟨⟨h3, h4⟩, h5⟩, h6⟩ := h
      simp [nlriToApi, ApiNlri.strict, hostBitsClear, hz]; exact h4
  | vpn6 ls rd a m =>
      simp [WFN, nlriClause, prefixClause, hostOctetsZero, labelsOk] at h
      obtain ⟨h1, h2, hz, ⟨⟨h3, h4⟩, h5⟩, h6⟩ := h
      simp [nlriToApi, ApiNlri.strict, hostBitsClear, hz]; exact h4

theorem pow4 : (256 : Nat) ^ 4 = 2 ^ 32 := by decide
theorem pow16 : (256 : Nat) ^ 16 = 2 ^ 128 := by decide

theorem replicate_allB (n : Nat) : AllB (List.replicate n 0) := by
  intro b hb
  have := List.eq_of_mem_replicate hb
  omega

theorem padAddr_lt (w : Nat) (bs : Bytes) (hb : AllB bs) (hl : bs.length ≤ w) : padAddr w bs < 256 ^ w := by
  unfold padAddr
  have h := ofBe_lt (bs ++ List.replicate (w - bs.length) 0) (AllB.append hb (replicate_allB _))
  have hlen : (bs ++ List.replicate (w - bs.length) 0).length = w := by
    simp only [List.length_append, List.length_replicate]; omega
  rw [hlen] at h
  exact h

theorem ofBe_zeros (k : Nat) : ofBe (List.replicate k 0) = 0 := by
  induction k with
  | zero => rfl
  | succ k ih =>
      rw [List.replicate_succ, show (0 :: List.replicate k 0) = [0] ++ List.replicate k 0 from rfl,
        ofBe_append, ih]
      simp [ofBe]

theorem pow256 (k : Nat) : 2 ^ (k * 8) = 256 ^ k := by
  rw [Nat.mul_comm, Nat.pow_mul]

theorem padAddr_zero (w : Nat) (bs : Bytes) : padAddr w bs % 2 ^ ((w - bs.length) * 8) = 0 := by
  unfold padAddr
  rw [ofBe_append, ofBe_zeros, List.length_replicate, pow256]
  simp

/-- once its three conditions hold, `prefixClause` is transparent -/
theorem prefixClause_ok (w a m : Nat) (rest : Option String) (h1 : m ≤ w * 8) (h2 : a < 2 ^ (w * 8))
    (hz : hostOctetsZero w a m = true) : prefixClause w a m rest = rest := by
  simp [prefixClause, need, h1, h2, hz]

theorem ceil8_le (w bits : Nat) (h : bits ≤ w * 8) : ceil8 bits ≤ w := by
  unfold ceil8; omega

theorem decPrefix_ok (w bits : Nat) (bs : Bytes) (a : Nat) (rest : Bytes) (hb : AllB bs)
    (h : decPrefix w bits bs = .ok (a, rest)) :
    bits ≤ w * 8 ∧ a < 2 ^ (w * 8) ∧ hostOctetsZero w a bits = true ∧ AllB rest := by
  unfold decPrefix at h
  split at h
  · simp at h
  · rename_i hc
    simp only [Out.ok.injEq, Prod.mk.injEq] at h
    obtain ⟨rfl, rfl⟩ := h
    have hle : bits ≤ w * 8 := by omega
    have hc8 := ceil8_le w bits hle
    have htl : (bs.take (ceil8 bits)).length = ceil8 bits := by
      simp only [List.length_take]; omega
    refine ⟨hle, ?_, ?_, hb.drop _⟩
    · rw [pow256]; exact padAddr_lt w _ (hb.take _) (by omega)
    · have := padAddr_zero w (bs.take (ceil8 bits))
      rw [htl] at this
      simp only [hostOctetsZero, decide_eq_true_eq]
      exact this

theorem label_lt (a b c : Nat) (hb : AllB [a, b, c]) : ofBe [a, b, c] / 16 < 1048576 := by
  have := ofBe_lt [a, b, c] hb
  simp only [List.length_cons, List.length_nil] at this
  omega

theorem decLabels_ok : ∀ (bs : Bytes) (ls : List Nat) (rest : Bytes), AllB bs →
    decLabels bs = some (ls, rest) → labelsOk ls = true ∧ AllB rest
  | [], _, _, _, h => by simp [decLabels] at h
  | [_], _, _, _, h => by simp [decLabels] at h
  | [_, _], _, _, _, h => by simp [decLabels] at h
  | a :: b :: c :: tl, ls, rest, hb, h => by
      have h3 : AllB [a, b, c] := fun x hx => hb x (by
        simp only [List.mem_cons, List.not_mem_nil, or_false] at hx
        rcases hx with h | h | h <;> simp [h])
      have hl := label_lt a b c h3
      have htl : AllB tl := hb.tail.tail.tail
      by_cases hbos : c % 2 = 1
      · simp only [decLabels, hbos, if_true, Option.some.injEq, Prod.mk.injEq] at h
        obtain ⟨rfl, rfl⟩ := h
        refine ⟨?_, htl⟩
        simp only [labelsOk, List.length_singleton, List.all_cons, List.all_nil, Bool.and_true,
          Bool.and_eq_true, decide_eq_true_eq]
        omega
      · simp only [decLabels, hbos, if_false] at h
        cases hd : decLabels tl with
        | none => simp [hd] at h
        | some r =>
            obtain ⟨ls', rest'⟩ := r
            simp only [hd, Option.map_some, Option.some.injEq, Prod.mk.injEq] at h
            obtain ⟨rfl, rfl⟩ := h
            obtain ⟨h1, h2⟩ := decLabels_ok tl ls' rest' htl hd
            refine ⟨?_, h2⟩
            simp only [labelsOk, Bool.and_eq_true, decide_eq_true_eq, List.all_eq_true] at h1 ⊢
            refine ⟨by simp, ?_⟩
            intro x hx
            rcases List.mem_cons.mp hx with rfl | hx
            · omega
            · exact h1.2 x hx
theorem decRd_ok (bs : Bytes) (rd : Rd) (hb : AllB bs) (h : decRd bs = some rd) : rdOk rd = true := by
  unfold decRd at h
  match bs, hb, h with
  | [t0, t1, a, b, c, d, e, f], hb, h =>
      have m : ∀ x ∈ [t0, t1, a, b, c, d, e, f], x < 256 := hb
      have h2 : ∀ x y, x ∈ [t0, t1, a, b, c, d, e, f] → y ∈ [t0, t1, a, b, c, d, e, f] → ofBe [x, y] < 65536 := by
        intro x y hx hy
        have := ofBe_lt [x, y] (fun z hz => by
          simp only [List.mem_cons, List.not_mem_nil, or_false] at hz
          rcases hz with rfl | rfl
          · exact m _ hx
          · exact m _ hy)
        simpa using this
      have h4 : ∀ x y z w, x ∈ [t0, t1, a, b, c, d, e, f] → y ∈ [t0, t1, a, b, c, d, e, f] →
          z ∈ [t0, t1, a, b, c, d, e, f] → w ∈ [t0, t1, a, b, c, d, e, f] → ofBe [x, y, z, w] < 4294967296 := by
        intro x y z w hx hy hz hw
        have := ofBe_lt [x, y, z, w] (fun v hv => by
          simp only [List.mem_cons, List.not_mem_nil, or_false] at hv
          rcases hv with rfl | rfl | rfl | rfl
          · exact m _ hx
          · exact m _ hy
          · exact m _ hz
          · exact m _ hw)
        simpa using this
      simp only at h
      split at h
      · simp only [Option.some.injEq] at h; subst h
        simp only [rdOk, Bool.and_eq_true, decide_eq_true_eq]
        exact ⟨h2 a b (by simp) (by simp), h4 c d e f (by simp) (by simp) (by simp) (by simp)⟩
      · split at h
        · simp only [Option.some.injEq] at h; subst h
          simp only [rdOk, Bool.and_eq_true, decide_eq_true_eq]
          exact ⟨h4 a b c d (by simp) (by simp) (by simp) (by simp), h2 e f (by simp) (by simp)⟩
        · split at h
          · simp only [Option.some.injEq] at h; subst h
            simp only [rdOk, Bool.and_eq_true, decide_eq_true_eq]
            exact ⟨h4 a b c d (by simp) (by simp) (by simp) (by simp), h2 e f (by simp) (by simp)⟩
          · simp at h

theorem decodePlain_ok (w : Nat) (bs : Bytes) (a m : Nat) (rest : Bytes) (hb : AllB bs)
    (h : decodePlain w bs = .ok (a, m, rest)) :
    m ≤ w * 8 ∧ a < 2 ^ (w * 8) ∧ hostOctetsZero w a m = true ∧ AllB rest := by
  unfold decodePlain at h
  match bs, hb, h with
  | bits :: tl, hb, h =>
      simp only at h
      cases hp : decPrefix w bits tl with
      | ok r =>
          obtain ⟨a', rest'⟩ := r
          simp only [hp, Out.ok.injEq, Prod.mk.injEq] at h
          obtain ⟨rfl, rfl, rfl⟩ := h
          exact decPrefix_ok w _ tl _ _ hb.tail hp
      | err => simp [hp] at h
      | panic => simp [hp] at h

theorem decodeLabeled_ok (w : Nat) (bs : Bytes) (ls : List Nat) (a m : Nat) (rest : Bytes) (hb : AllB bs)
    (h : decodeLabeled w bs = .ok (ls, a, m, rest)) :
    m ≤ w * 8 ∧ a < 2 ^ (w * 8) ∧ hostOctetsZero w a m = true ∧ labelsOk ls = true ∧
      ls.length * 24 + m ≤ 255 ∧ AllB rest := by
  unfold decodeLabeled at h
  match bs, hb, h with
  | total :: tl, hb, h =>
      simp only at h
      split at h
      · simp at h
      · cases hd : decLabels tl with
        | none => simp [hd] at h
        | some r =>
            obtain ⟨ls', rest'⟩ := r
            simp only [hd] at h
            split at h
            · simp at h
            · rename_i hge
              obtain ⟨hl, hr⟩ := decLabels_ok tl ls' rest' hb.tail hd
              cases hp : decPrefix w (total - ls'.length * 24) rest' with
              | ok r2 =>
                  obtain ⟨a', rest''⟩ := r2
                  simp only [hp, Out.ok.injEq, Prod.mk.injEq] at h
                  obtain ⟨rfl, rfl, rfl, rfl⟩ := h
                  obtain ⟨p1, p2, pz, p3⟩ := decPrefix_ok w _ rest' _ _ hr hp
                  have ht : total < 256 := hb.head
                  refine ⟨p1, p2, pz, hl, ?_, p3⟩
                  omega
              | err => simp [hp] at h
              | panic => simp [hp] at h

theorem decodeVpn_ok (w : Nat) (bs : Bytes) (ls : List Nat) (rd : Rd) (a m : Nat) (rest : Bytes)
    (hb : AllB bs) (h : decodeVpn w bs = .ok (ls, rd, a, m, rest)) :
    m ≤ w * 8 ∧ a < 2 ^ (w * 8) ∧ hostOctetsZero w a m = true ∧ labelsOk ls = true ∧
      ls.length * 24 + 64 + m ≤ 255 ∧ rdOk rd = true ∧ AllB rest := by
  unfold decodeVpn at h
  match bs, hb, h with
  | total :: tl, hb, h =>
      simp only at h
      split at h
      · simp at h
      · cases hd : decLabels tl with
        | none => simp [hd] at h
        | some r =>
            obtain ⟨ls', rest'⟩ := r
            simp only [hd] at h
            obtain ⟨hl, hr⟩ := decLabels_ok tl ls' rest' hb.tail hd
            split at h
            · simp at h
            · rename_i hge
              split at h
              · simp at h
              · cases hrd : decRd (rest'.take 8) with
                | none => simp [hrd] at h
                | some rd' =>
                    simp only [hrd] at h
                    cases hp : decPrefix w (total - ls'.length * 24 - 64) (rest'.drop 8) with
                    | ok r2 =>
                        obtain ⟨a', rest''⟩ := r2
                        simp only [hp, Out.ok.injEq, Prod.mk.injEq] at h
                        obtain ⟨rfl, rfl, rfl, rfl, rfl⟩ := h
                        obtain ⟨p1, p2, pz, p3⟩ := decPrefix_ok w _ _ _ _ (hr.drop _) hp
                        have ht : total < 256 := hb.head
                        refine ⟨p1, p2, pz, hl, ?_, decRd_ok _ _ (hr.take _) hrd, p3⟩
                        omega
                    | err => simp [hp] at h
                    | panic => simp [hp] at h

/-- **decode_wf (NLRI)**: a prefix produced by the wire decoders satisfies `WFN`. -/
theorem decodeOne_wf (f : Fam) (bs : Bytes) (n : Nlri) (rest : Bytes) (hb : AllB bs)
    (h : decodeOne f bs = .ok (n, rest)) : WFN n ∧ AllB rest := by
  cases f with
  | v4 =>
      simp only [decodeOne] at h
      cases hd : decodePlain 4 bs with
      | ok r =>
          obtain ⟨a, m, rest'⟩ := r
          simp only [hd, Out.map_ok, Out.ok.injEq, Prod.mk.injEq] at h
          obtain ⟨rfl, rfl⟩ := h
          obtain ⟨h1, h2, hz, h3⟩ := decodePlain_ok 4 bs a m rest' hb hd
          exact ⟨by simp only [WFN, nlriClause]; exact prefixClause_ok 4 a m none h1 h2 hz, h3⟩
      | err => simp [hd, Out.map] at h
      | panic => simp [hd, Out.map] at h
  | v6 =>
      simp only [decodeOne] at h
      cases hd : decodePlain 16 bs with
      | ok r =>
          obtain ⟨a, m, rest'⟩ := r
          simp only [hd, Out.map_ok, Out.ok.injEq, Prod.mk.injEq] at h
          obtain ⟨rfl, rfl⟩ := h
          obtain ⟨h1, h2, hz, h3⟩ := decodePlain_ok 16 bs a m rest' hb hd
          exact ⟨by simp only [WFN, nlriClause]; exact prefixClause_ok 16 a m none h1 h2 hz, h3⟩
      | err => simp [hd, Out.map] at h
      | panic => simp [hd, Out.map] at h
  | lv4 =>
      simp only [decodeOne] at h
      cases hd : decodeLabeled 4 bs with
      | ok r =>
          obtain ⟨ls, a, m, rest'⟩ := r
          simp only [hd, Out.map_ok, Out.ok.injEq, Prod.mk.injEq] at h
          obtain ⟨rfl, rfl⟩ := h
          obtain ⟨h1, h2, hz, h3, h4, h5⟩ := decodeLabeled_ok 4 bs ls a m rest' hb hd
          refine ⟨?_, h5⟩
          simp only [WFN, nlriClause]
          rw [prefixClause_ok 4 a m _ h1 h2 hz]
          simp [h3, h4]
      | err => simp [hd, Out.map] at h
      | panic => simp [hd, Out.map] at h
  | lv6 =>
      simp only [decodeOne] at h
      cases hd : decodeLabeled 16 bs with
      | ok r =>
          obtain ⟨ls, a, m, rest'⟩ := r
          simp only [hd, Out.map_ok, Out.ok.injEq, Prod.mk.injEq] at h
          obtain ⟨rfl, rfl⟩ := h
          obtain ⟨h1, h2, hz, h3, h4, h5⟩ := decodeLabeled_ok 16 bs ls a m rest' hb hd
          refine ⟨?_, h5⟩
          simp only [WFN, nlriClause]
          rw [prefixClause_ok 16 a m _ h1 h2 hz]
          simp [h3, h4]
      | err => simp [hd, Out.map] at h
      | panic => simp [hd, Out.map] at h
  | vpn4 =>
      simp only [decodeOne] at h
      cases hd : decodeVpn 4 bs with
      | ok r =>
          obtain ⟨ls, rd, a, m, rest'⟩ := r
          simp only [hd, Out.map_ok, Out.ok.injEq, Prod.mk.injEq] at h
          obtain ⟨rfl, rfl⟩ := h
          obtain ⟨h1, h2, hz, h3, h4, h5, h6⟩ := decodeVpn_ok 4 bs ls rd a m rest' hb hd
          refine ⟨?_, h6⟩
          simp only [WFN, nlriClause]
          rw [prefixClause_ok 4 a m _ h1 h2 hz]
          simp [h3, h4, h5]
      | err => simp [hd, Out.map] at h
      | panic => simp [hd, Out.map] at h
  | vpn6 =>
      simp only [decodeOne] at h
      cases hd : decodeVpn 16 bs with
      | ok r =>
          obtain ⟨ls, rd, a, m, rest'⟩ := r
          simp only [hd, Out.map_ok, Out.ok.injEq, Prod.mk.injEq] at h
          obtain ⟨rfl, rfl⟩ := h
          obtain ⟨h1, h2, hz, h3, h4, h5, h6⟩ := decodeVpn_ok 16 bs ls rd a m rest' hb hd
          refine ⟨?_, h6⟩
          simp only [WFN, nlriClause]
          rw [prefixClause_ok 16 a m _ h1 h2 hz]
          simp [h3, h4, h5]
      | err => simp [hd, Out.map] at h
      | panic => simp [hd, Out.map] at h
theorem rdFromApi_ok (r : ApiRd) (rd : Rd) (hr : r.inRange = true) (h : rdFromApi r = some rd) :
    rdOk rd = true := by
  cases r with
  | missing => simp [rdFromApi] at h
  | twoOctet a b =>
      simp only [rdFromApi] at h
      split at h
      · simp at h
      · simp only [Option.some.injEq] at h; subst h
        simp only [ApiRd.inRange, u32, Bool.and_eq_true, decide_eq_true_eq] at hr
        simp only [rdOk, Bool.and_eq_true, decide_eq_true_eq]; omega
  | ip4 a b =>
      cases a with
      | ip4 n =>
          simp only [rdFromApi, AStr.parse4] at h
          split at h
          · simp at h
          · simp only [Option.some.injEq] at h; subst h
            simp only [ApiRd.inRange, AStr.inRange, u32, Bool.and_eq_true, decide_eq_true_eq] at hr
            simp only [rdOk, Bool.and_eq_true, decide_eq_true_eq]; omega
      | ip6 n => simp [rdFromApi, AStr.parse4] at h
      | bad k => simp [rdFromApi, AStr.parse4] at h
  | fourOctet a b =>
      simp only [rdFromApi] at h
      split at h
      · simp at h
      · simp only [Option.some.injEq] at h; subst h
        simp only [ApiRd.inRange, u32, Bool.and_eq_true, decide_eq_true_eq] at hr
        simp only [rdOk, Bool.and_eq_true, decide_eq_true_eq]; omega

theorem labels_mod_ok (labels : List Nat) (h : (labels.map (· % 1048576)).length ≠ 0) :
    labelsOk (labels.map (· % 1048576)) = true := by
  simp only [labelsOk, Bool.and_eq_true, decide_eq_true_eq, List.all_eq_true]
  refine ⟨by omega, ?_⟩
  intro x hx
  rcases List.mem_map.mp hx with ⟨y, _, rfl⟩
  exact Nat.mod_lt _ (by omega)

theorem host_of_strict (w a m : Nat) (h : hostBitsClear w a m = true) : hostOctetsZero w a m = true := by
  simpa [hostBitsClear, hostOctetsZero] using h

/-- **from_api_wf (NLRI)**: whatever `net_from_api` accepts (modelled kinds) satisfies `WFN`. -/
theorem nlri_from_api_wf (x : ApiNlri) (n : Nlri) (hr : x.inRange = true) (hst : x.strict = true)
    (h : netFromApi0 current x = .ok n) : WFN n := by
  cases x with
  | missing => simp [netFromApi0] at h
  | other => simp [netFromApi0] at h
  | «prefix» s len =>
      cases s with
      | ip4 a =>
          simp only [netFromApi0] at h
          split at h
          · simp at h
          · rename_i hc
            simp only [Out.ok.injEq] at h; subst h
            simp only [ApiNlri.inRange, AStr.inRange, u32, Bool.and_eq_true, decide_eq_true_eq] at hr
            simp only [WFN, nlriClause]
            exact prefixClause_ok 4 a len none (by omega) (by omega)
              (host_of_strict 4 a len (by simpa [ApiNlri.strict] using hst))
      | ip6 a =>
          simp only [netFromApi0] at h
          split at h
          · simp at h
          · rename_i hc
            simp only [Out.ok.injEq] at h; subst h
            simp only [ApiNlri.inRange, AStr.inRange, u32, Bool.and_eq_true, decide_eq_true_eq] at hr
            simp only [WFN, nlriClause]
            exact prefixClause_ok 16 a len none (by omega) (by omega)
              (host_of_strict 16 a len (by simpa [ApiNlri.strict] using hst))
      | bad k => simp [netFromApi0] at h
  | labeled labels len s =>
      cases s with
      | bad k => simp [netFromApi0] at h
      | ip4 a =>
          simp only [netFromApi0, current, true_and] at h
          split at h
          · simp at h
          · rename_i hc
            simp only [Out.ok.injEq] at h; subst h
            simp only [ApiNlri.inRange, AStr.inRange, u32, Bool.and_eq_true, decide_eq_true_eq] at hr
            simp only [ApiNlri.strict, Bool.and_eq_true] at hst
            have hm : len % 256 = len := Nat.mod_eq_of_lt (by omega)
            have hl := labels_mod_ok labels (by omega)
            simp only [WFN, nlriClause, hm]
            rw [prefixClause_ok 4 a len _ (by omega) (by omega) (host_of_strict 4 a len hst.2)]
            simp only [hl, need_eq_none, Bool.and_eq_true, decide_eq_true_eq, Bool.true_and, and_true]
            omega
      | ip6 a =>
          simp only [netFromApi0, current, true_and] at h
          split at h
          · simp at h
          · rename_i hc
            simp only [Out.ok.injEq] at h; subst h
            simp only [ApiNlri.inRange, AStr.inRange, u32, Bool.and_eq_true, decide_eq_true_eq] at hr
            simp only [ApiNlri.strict, Bool.and_eq_true] at hst
            have hm : len % 256 = len := Nat.mod_eq_of_lt (by omega)
            have hl := labels_mod_ok labels (by omega)
            simp only [WFN, nlriClause, hm]
            rw [prefixClause_ok 16 a len _ (by omega) (by omega) (host_of_strict 16 a len hst.2)]
            simp only [hl, need_eq_none, Bool.and_eq_true, decide_eq_true_eq, Bool.true_and, and_true]
            omega
  | vpn labels rd len s =>
      simp only [netFromApi0] at h
      cases rd with
      | none => simp at h
      | some r =>
          simp only at h
          cases hrd : rdFromApi r with
          | none => simp [hrd] at h
          | some rd' =>
              simp only [hrd] at h
              simp only [ApiNlri.inRange, u32, Bool.and_eq_true, decide_eq_true_eq] at hr
              have hrdok := rdFromApi_ok r rd' hr.1.1.2 hrd
              cases s with
              | bad k => simp at h
              | ip4 a =>
                  simp only [current, true_and] at h
                  split at h
                  · simp at h
                  · rename_i hc
                    simp only [Out.ok.injEq] at h; subst h
                    have ha := hr.2
                    simp only [AStr.inRange, u32, decide_eq_true_eq] at ha
                    simp only [ApiNlri.strict, Bool.and_eq_true] at hst
                    have hm : len % 256 = len := Nat.mod_eq_of_lt (by omega)
                    have hl := labels_mod_ok labels (by omega)
                    simp only [WFN, nlriClause, hm]
                    rw [prefixClause_ok 4 a len _ (by omega) (by omega) (host_of_strict 4 a len hst.2)]
                    simp only [hl, hrdok, need_eq_none, Bool.and_eq_true, decide_eq_true_eq, Bool.true_and,
                      and_true]
                    omega
              | ip6 a =>
                  simp only [current, true_and] at h
                  split at h
                  · simp at h
                  · rename_i hc
                    simp only [Out.ok.injEq] at h; subst h
                    have ha := hr.2
                    simp only [AStr.inRange, decide_eq_true_eq] at ha
                    simp only [ApiNlri.strict, Bool.and_eq_true] at hst
                    have hm : len % 256 = len := Nat.mod_eq_of_lt (by omega)
                    have hl := labels_mod_ok labels (by omega)
                    simp only [WFN, nlriClause, hm]
                    rw [prefixClause_ok 16 a len _ (by omega) (by omega) (host_of_strict 16 a len hst.2)]
                    simp only [hl, hrdok, need_eq_none, Bool.and_eq_true, decide_eq_true_eq, Bool.true_and,
                      and_true]
                    omega

theorem wfn_parts (w a m : Nat) (rest : Option String) (h : prefixClause w a m rest = none) :
    m ≤ w * 8 ∧ rest = none := by
  simp only [prefixClause, need_eq_none, decide_eq_true_eq] at h
  exact ⟨h.1, h.2.2.2⟩

/-- **wf_safe_encode (NLRI)**: `Nlri::encode` of a well-formed prefix does not panic and writes the prefix. -/
theorem nlri_encode_ok (n : Nlri) (h : WFN n) : ∃ b, encodeNlri n = .ok b ∧ b ≠ [] := by
  cases n with
  | v4 a m =>
      obtain ⟨h1, _⟩ := wfn_parts 4 a m none h
      have : ¬ ceil8 m > 4 := by unfold ceil8; omega
      simp [encodeNlri, encPrefix, this]
  | v6 a m =>
      obtain ⟨h1, _⟩ := wfn_parts 16 a m none h
      have : ¬ ceil8 m > 16 := by unfold ceil8; omega
      simp [encodeNlri, encPrefix, this]
  | lv4 ls a m =>
      obtain ⟨h1, h2⟩ := wfn_parts 4 a m _ h
      simp only [need_eq_none, Bool.and_eq_true, decide_eq_true_eq] at h2
      have : ¬ ceil8 m > 4 := by unfold ceil8; omega
      have h3 : ¬ ls.length * 24 + m > 255 := by omega
      simp [encodeNlri, encPrefix, this, h3]
  | lv6 ls a m =>
      obtain ⟨h1, h2⟩ := wfn_parts 16 a m _ h
      simp only [need_eq_none, Bool.and_eq_true, decide_eq_true_eq] at h2
      have : ¬ ceil8 m > 16 := by unfold ceil8; omega
      have h3 : ¬ ls.length * 24 + m > 255 := by omega
      simp [encodeNlri, encPrefix, this, h3]
  | vpn4 ls rd a m =>
      obtain ⟨h1, h2⟩ := wfn_parts 4 a m _ h
      simp only [need_eq_none, Bool.and_eq_true, decide_eq_true_eq] at h2
      have : ¬ ceil8 m > 4 := by unfold ceil8; omega
      have h3 : ¬ ls.length * 24 + 64 + m > 255 := by omega
      simp [encodeNlri, encPrefix, this, h3]
  | vpn6 ls rd a m =>
      obtain ⟨h1, h2⟩ := wfn_parts 16 a m _ h
      simp only [need_eq_none, Bool.and_eq_true, decide_eq_true_eq] at h2
      have : ¬ ceil8 m > 16 := by unfold ceil8; omega
      have h3 : ¬ ls.length * 24 + 64 + m > 255 := by omega
      simp [encodeNlri, encPrefix, this, h3]

/-! ## the reference checker accepts every run of the model -/

theorem crashed_none (u : Use) (h : u.noPanic = true) : crashed u = none := by
  obtain ⟨len, origin, enc, cmp, pol, m4, m2⟩ := u
  simp only [Use.noPanic, Bool.and_eq_true, Bool.not_eq_true'] at h
  obtain ⟨⟨⟨⟨⟨⟨h1, h2⟩, h3⟩, h4⟩, h5⟩, h6⟩, h7⟩ := h
  have e3 : enc ≠ .panic := by cases enc <;> simp [Out.isPanic] at h3 ⊢
  have e4 : cmp ≠ .panic := by cases cmp <;> simp [Out.isPanic] at h4 ⊢
  have e5 : pol ≠ .panic := by cases pol <;> simp [Out.isPanic] at h5 ⊢
  have e6 : m4 ≠ .panic := by cases m4 <;> simp [Out.isPanic] at h6 ⊢
  have e7 : m2 ≠ .panic := by cases m2 <;> simp [Out.isPanic] at h7 ⊢
  unfold crashed
  rcases len with _ | (_ | _ | _) <;> rcases origin with _ | (_ | _ | _) <;>
    simp_all [Out.isPanic]

/-! ### the exactness / size wrapper around the conversion -/

theorem fromApi_ok (x : ApiAttr) (a : Attribute) (h : fromApi current x = .ok a) :
    x.strict = true ∧ fromApi0 current x = .ok a ∧ a.valueLen ≤ maxAttrValue := by
  unfold fromApi at h
  split at h
  · simp at h
  · rename_i hs
    have hst : x.strict = true := by
      cases hx : x.strict with
      | true => rfl
      | false => exact absurd ⟨rfl, hx⟩ hs
    cases h0 : fromApi0 current x with
    | ok a' =>
        simp only [h0] at h
        split at h
        · simp at h
        · rename_i hsz
          simp only [Out.ok.injEq] at h; subst h
          refine ⟨hst, rfl, ?_⟩
          have : ¬ (a'.valueLen > maxAttrValue) := fun hgt => hsz ⟨rfl, hgt⟩
          omega
    | err => simp [h0] at h
    | panic => simp [h0] at h

theorem fromApi_of (x : ApiAttr) (a : Attribute) (hst : x.strict = true) (h0 : fromApi0 current x = .ok a)
    (hsz : a.valueLen ≤ maxAttrValue) : fromApi current x = .ok a := by
  unfold fromApi
  rw [if_neg (by simp [hst])]
  simp only [h0]
  rw [if_neg (by intro hc; have := hc.2; omega)]

theorem wf_valueLen (a : Attribute) (h : WF a) : a.valueLen ≤ maxAttrValue := by
  rcases wf_class a h with ⟨cls, _, hd⟩ | ⟨hcl, b, hb⟩
  · cases hdat : a.data with
    | val v => simp [Attribute.valueLen, hdat, maxAttrValue]
    | raw b => rw [hdat] at hd; simp [dataClause] at hd
    | bin b =>
        rw [hdat] at hd
        simp only [dataClause, binClause, need_eq_none] at hd
        simpa [Attribute.valueLen, hdat, maxAttrValue] using specBytes_len hd.1
  · simp only [WF, wfClause, hcl, need_eq_none, hb, Bool.and_eq_true] at h
    simpa [Attribute.valueLen, hb, maxAttrValue] using specBytes_len h.2.1.2

/-- the statement of the round trip on the real entry point -/
def RTreal (a : Attribute) : Prop := ∃ x, toApi current a = .ok x ∧ fromApi current x = .ok a

theorem rtreal_of_rt (a : Attribute) (hwf : WF a) (h : RT current a) : RTreal a := by
  obtain ⟨x, h1, hst, h0⟩ := h
  exact ⟨x, h1, fromApi_of x a hst h0 (wf_valueLen a hwf)⟩

theorem netFromApi_ok (x : ApiNlri) (n : Nlri) (h : netFromApi current x = .ok n) :
    x.strict = true ∧ netFromApi0 current x = .ok n := by
  unfold netFromApi at h
  split at h
  · simp at h
  · rename_i hs
    refine ⟨?_, h⟩
    cases hx : x.strict with
    | true => rfl
    | false => exact absurd ⟨rfl, hx⟩ hs

theorem netFromApi_of (x : ApiNlri) (hst : x.strict = true) : netFromApi current x = netFromApi0 current x := by
  unfold netFromApi
  rw [if_neg (by simp [hst])]

/-- a value that is well-formed, round-trips and is stored in the model's observation passes `checkAttr` -/
theorem checkAttr_ok (stream : String) (a : Attribute) (hwf : WF a) (hrt : RT current a) :
    checkAttr stream (attrObs current a) = .ok := by
  obtain ⟨x, hx1, hx2⟩ := rtreal_of_rt a hwf hrt
  have hc := crashed_none (useOf a) (wf_safe a hwf)
  simp only [checkAttr, attrObs, hx1, hx2]
  simp only [WF] at hwf
  simp [hwf, seq, roundTrip, hc]

theorem rt_nexthop (b : Bytes) (hb : AllB b) (hl : b.length = 4 ∨ b.length = 16) :
    RT current ⟨3, 0x40, .bin b⟩ := by
  rcases hl with hl | hl
  · refine ⟨.nextHop (.ip4 (ofBe (b.take 4))), by simp [toApi, Attribute.binary, hl], by simp [ApiAttr.strict], ?_⟩
    have e : beN 4 (ofBe (b.take 4)) = b := by
      rw [List.take_of_length_le (by omega)]; exact beN_ofBe' 4 b hl hb
    simp [fromApi0, AStr.parse4, e, newWithBin, canonicalFlags]
  · refine ⟨.nextHop (.ip6 (ofBe b)), by simp [toApi, Attribute.binary, hl], by simp [ApiAttr.strict], ?_⟩
    have e : beN 16 (ofBe b) = b := beN_ofBe' 16 b hl hb
    simp [fromApi0, AStr.parse4, AStr.parse6, e, newWithBin, canonicalFlags]

/-- codes `attr_from_api` can produce, and the shape of an accepted NEXT_HOP -/
theorem from_api_code (x : ApiAttr) (a : Attribute) (h : fromApi0 current x = .ok a) :
    a.code ≠ 17 ∧ a.code ≠ 18 ∧
      (a.code = 3 → ∃ b, a = ⟨3, 0x40, .bin b⟩ ∧ AllB b ∧ (b.length = 4 ∨ b.length = 16)) := by
  cases x with
  | missing => simp [fromApi0] at h
  | other => simp [fromApi0] at h
  | origin o =>
      simp only [fromApi0] at h
      split at h
      · simp at h
      · simp [newWithValue, canonicalFlags] at h; subst h; simp
  | med m => simp [fromApi0, newWithValue, canonicalFlags] at h; subst h; simp
  | localPref m => simp [fromApi0, newWithValue, canonicalFlags] at h; subst h; simp
  | atomicAggregate => simp [fromApi0, newWithBin, canonicalFlags] at h; subst h; simp
  | nextHop s =>
      simp only [fromApi0, current] at h
      cases s with
      | ip4 n =>
          simp [AStr.parse4, newWithBin, canonicalFlags] at h; subst h
          exact ⟨by simp, by simp, fun _ => ⟨_, rfl, beN_lt 4 n, Or.inl (beN_length 4 n)⟩⟩
      | ip6 n =>
          simp [AStr.parse4, AStr.parse6, newWithBin, canonicalFlags] at h; subst h
          exact ⟨by simp, by simp, fun _ => ⟨_, rfl, beN_lt 16 n, Or.inr (beN_length 16 n)⟩⟩
      | bad k => simp [AStr.parse4, AStr.parse6] at h
  | aggregator asn addr =>
      simp only [fromApi0] at h
      cases addr with
      | ip4 n => simp [AStr.parse4, newWithBin, canonicalFlags] at h; subst h; simp
      | ip6 n => simp [AStr.parse4] at h
      | bad k => simp [AStr.parse4] at h
  | communities l => simp [fromApi0, newWithBin, canonicalFlags] at h; subst h; simp
  | originatorId s =>
      simp only [fromApi0] at h
      cases s with
      | ip4 n => simp [AStr.parse4, newWithValue, canonicalFlags] at h; subst h; simp
      | ip6 n => simp [AStr.parse4] at h
      | bad k => simp [AStr.parse4] at h
  | clusterList ids =>
      simp only [fromApi0] at h
      split at h
      · simp at h
      · simp [newWithBin, canonicalFlags] at h; subst h; simp
  | largeCommunities l => simp [fromApi0, newWithBin, canonicalFlags] at h; subst h; simp
  | extCommunities l =>
      simp only [fromApi0] at h
      split at h
      · simp at h
      · simp [newWithBin, canonicalFlags] at h; subst h; simp
  | mpReach fam nhs =>
      simp only [fromApi0] at h
      split at h
      · simp at h
      · simp [newWithBin, canonicalFlags] at h; subst h; simp
  | asPath segs =>
      simp only [fromApi0] at h
      split at h
      · simp at h
      · simp [newWithBin, canonicalFlags] at h; subst h; simp
  | unknown f t v =>
      simp only [fromApi0, current, if_true] at h
      split at h
      · simp at h
      · rename_i hlt
        have ht : t % 256 = t := Nat.mod_eq_of_lt (by omega)
        rw [ht] at h
        split at h
        · split at h
          · simp at h
          · rename_i hty
            simp only [typedCode, decide_eq_true_eq, not_or] at hty
            obtain ⟨n1, n2, n3, n4, n5, n6, n7, n8, n9, n10, n16, n32, n23, n29, n17, n18⟩ := hty
            split at h
            · simp at h
            · simp only [Out.ok.injEq] at h; subst h
              exact ⟨n17, n18, fun h3 => absurd h3 n3⟩
        · rename_i hcan
          split at h
          · simp only [Out.ok.injEq] at h; subst h
            refine ⟨?_, ?_, ?_⟩ <;> (intro h3; simp only at h3; subst h3; simp [canonicalFlags] at hcan)
          · simp at h
theorem from_api_rt (x : ApiAttr) (a : Attribute) (hr : x.inRange = true)
    (h : fromApi current x = .ok a) (hm : modelledCode a.code = true) : WF a ∧ flagsCanon a ∧ RT current a := by
  obtain ⟨hst, h0, hsz⟩ := fromApi_ok x a h
  obtain ⟨hwf, hfc⟩ := from_api_wf x a hr h0 hsz hst
  obtain ⟨n17, n18, h3⟩ := from_api_code x a h0
  refine ⟨hwf, hfc, ?_⟩
  by_cases hc3 : a.code = 3
  · obtain ⟨b, rfl, hb, hl⟩ := h3 hc3
    exact rt_nexthop b hb hl
  · exact roundtrip_attr a hwf hm ⟨hc3, n17, n18⟩ hfc

theorem roundtrip_nlri_real (n : Nlri) (h : WFN n) : netFromApi current (nlriToApi n) = .ok n := by
  rw [netFromApi_of _ (nlriToApi_strict n h)]
  exact roundtrip_nlri n h

theorem checkNlri_ok (stream : String) (n : Nlri) (h : WFN n) :
    checkNlri stream (nlriObs current n) = .ok := by
  obtain ⟨b, hb, hne⟩ := nlri_encode_ok n h
  have hrt := roundtrip_nlri_real n h
  simp only [WFN] at h
  cases b with
  | nil => exact absurd rfl hne
  | cons b0 bt => simp [checkNlri, nlriObs, h, hrt, hb, seq]

theorem checkAll_ok (stream : String) (l : List Nlri) (h : ∀ n ∈ l, WFN n) :
    checkAll stream (l.map (nlriObs current)) = .ok := by
  induction l with
  | nil => rfl
  | cons n ns ih =>
      simp only [List.map_cons, checkAll, checkNlri_ok stream n (h n (by simp)), seq]
      exact ih (fun m hm => h m (List.mem_cons_of_mem _ hm))

theorem decodeList_wf (f : Fam) (fuel : Nat) (bs : Bytes) (l : List Nlri) (hb : AllB bs)
    (h : decodeList f fuel bs = .ok l) : ∀ n ∈ l, WFN n := by
  induction fuel generalizing bs l with
  | zero =>
      cases bs with
      | nil => simp [decodeList] at h; subst h; simp
      | cons b tl => simp [decodeList] at h
  | succ fuel ih =>
      cases bs with
      | nil => simp [decodeList] at h; subst h; simp
      | cons b tl =>
          simp only [decodeList] at h
          cases hd : decodeOne f (b :: tl) with
          | ok r =>
              obtain ⟨n, rest⟩ := r
              simp only [hd] at h
              cases hl : decodeList f fuel rest with
              | ok l' =>
                  simp only [hl, Out.map_ok, Out.ok.injEq] at h; subst h
                  obtain ⟨hwf, hrest⟩ := decodeOne_wf f (b :: tl) n rest hb hd
                  intro m hm
                  rcases List.mem_cons.mp hm with rfl | hm
                  · exact hwf
                  · exact ih rest l' hrest hl m hm
              | err => simp [hl, Out.map] at h
              | panic => simp [hl, Out.map] at h
          | err => simp [hd] at h
          | panic => simp [hd] at h

/-- `attr_from_api` never panics (every fallible step is an `Err`) -/
theorem fromApi0_no_panic (x : ApiAttr) : fromApi0 current x ≠ .panic := by
  intro hf
  cases x <;> simp [fromApi0, newWithBin, newWithValue, canonicalFlags] at hf <;>
    (repeat' (split at hf)) <;> simp_all

theorem fromApi_no_panic (x : ApiAttr) : fromApi current x ≠ .panic := by
  unfold fromApi
  split
  · simp
  · cases h0 : fromApi0 current x with
    | ok a => simp only; split <;> simp
    | err => simp
    | panic => exact absurd h0 (fromApi0_no_panic x)

/-- `net_from_api` never panics (modelled kinds) -/
theorem netFromApi0_no_panic (x : ApiNlri) : netFromApi0 current x ≠ .panic := by
  intro hf
  cases x <;> simp [netFromApi0] at hf <;> (repeat' (split at hf)) <;> simp_all

theorem decPrefix_no_panic (w bits : Nat) (bs : Bytes) : decPrefix w bits bs ≠ .panic := by
  unfold decPrefix; split <;> simp

theorem decodePlain_no_panic (w : Nat) (bs : Bytes) : decodePlain w bs ≠ .panic := by
  unfold decodePlain
  cases bs with
  | nil => simp
  | cons b tl =>
      simp only
      cases hp : decPrefix w b tl with
      | ok r => obtain ⟨a, r'⟩ := r; simp
      | err => simp
      | panic => exact absurd hp (decPrefix_no_panic _ _ _)

theorem decodeLabeled_no_panic (w : Nat) (bs : Bytes) : decodeLabeled w bs ≠ .panic := by
  unfold decodeLabeled
  cases bs with
  | nil => simp
  | cons total tl =>
      simp only
      split
      · simp
      · cases hd : decLabels tl with
        | none => simp
        | some r =>
            obtain ⟨ls, rest'⟩ := r
            simp only
            split
            · simp
            · cases hp : decPrefix w (total - ls.length * 24) rest' with
              | ok r => obtain ⟨a, r'⟩ := r; simp
              | err => simp
              | panic => exact absurd hp (decPrefix_no_panic _ _ _)

theorem decodeVpn_no_panic (w : Nat) (bs : Bytes) : decodeVpn w bs ≠ .panic := by
  unfold decodeVpn
  cases bs with
  | nil => simp
  | cons total tl =>
      simp only
      split
      · simp
      · cases hd : decLabels tl with
        | none => simp
        | some r =>
            obtain ⟨ls, rest'⟩ := r
            simp only
            split
            · simp
            · split
              · simp
              · cases hrd : decRd (rest'.take 8) with
                | none => simp
                | some rd =>
                    simp only
                    cases hp : decPrefix w (total - ls.length * 24 - 64) (rest'.drop 8) with
                    | ok r => obtain ⟨a, r'⟩ := r; simp
                    | err => simp
                    | panic => exact absurd hp (decPrefix_no_panic _ _ _)

theorem map_no_panic {α β} (f : α → β) (o : Out α) (h : o ≠ .panic) : o.map f ≠ .panic := by
  cases o <;> simp [Out.map] at h ⊢

theorem decodeOne_no_panic (f : Fam) (bs : Bytes) : decodeOne f bs ≠ .panic := by
  cases f <;> simp only [decodeOne]
  · exact map_no_panic _ _ (decodePlain_no_panic 4 bs)
  · exact map_no_panic _ _ (decodePlain_no_panic 16 bs)
  · exact map_no_panic _ _ (decodeLabeled_no_panic 4 bs)
  · exact map_no_panic _ _ (decodeLabeled_no_panic 16 bs)
  · exact map_no_panic _ _ (decodeVpn_no_panic 4 bs)
  · exact map_no_panic _ _ (decodeVpn_no_panic 16 bs)

theorem decodeList_no_panic (f : Fam) (fuel : Nat) (bs : Bytes) : decodeList f fuel bs ≠ .panic := by
  induction fuel generalizing bs with
  | zero => cases bs <;> simp [decodeList]
  | succ fuel ih =>
      cases bs with
      | nil => simp [decodeList]
      | cons b tl =>
          simp only [decodeList]
          cases hd : decodeOne f (b :: tl) with
          | ok r =>
              obtain ⟨n, rest⟩ := r
              simp only
              exact map_no_panic _ _ (ih rest)
          | err => simp
          | panic => exact absurd hd (decodeOne_no_panic _ _)

theorem netFromApi_no_panic (x : ApiNlri) : netFromApi current x ≠ .panic := by
  unfold netFromApi
  split
  · simp
  · exact netFromApi0_no_panic x

theorem rd_listed (r : ApiRd) (rd : Rd) (h : rdFromApi r = some rd) : rdToApi rd = r := by
  cases r with
  | missing => simp [rdFromApi] at h
  | twoOctet a b =>
      simp only [rdFromApi] at h
      split at h
      · simp at h
      · simp only [Option.some.injEq] at h; subst h; rfl
  | ip4 a b =>
      cases a with
      | ip4 n =>
          simp only [rdFromApi, AStr.parse4] at h
          split at h
          · simp at h
          · simp only [Option.some.injEq] at h; subst h; rfl
      | ip6 n => simp [rdFromApi, AStr.parse4] at h
      | bad k => simp [rdFromApi, AStr.parse4] at h
  | fourOctet a b =>
      simp only [rdFromApi] at h
      split at h
      · simp at h
      · simp only [Option.some.injEq] at h; subst h; rfl

theorem nlri_listed_same (x : ApiNlri) (n : Nlri) (hr : x.inRange = true) (hst : x.strict = true)
    (h : netFromApi0 current x = .ok n) : nlriToApi n = x := by
  cases x with
  | missing => simp [netFromApi0] at h
  | other => simp [netFromApi0] at h
  | «prefix» s len =>
      cases s with
      | ip4 a =>
          simp only [netFromApi0] at h
          split at h
          · simp at h
          · simp only [Out.ok.injEq] at h; subst h; rfl
      | ip6 a =>
          simp only [netFromApi0] at h
          split at h
          · simp at h
          · simp only [Out.ok.injEq] at h; subst h; rfl
      | bad k => simp [netFromApi0] at h
  | labeled labels len s =>
      cases s with
      | bad k => simp [netFromApi0] at h
      | ip4 a =>
          simp only [netFromApi0, current, true_and] at h
          split at h
          · simp at h
          · rename_i hc
            simp only [Out.ok.injEq] at h; subst h
            simp only [ApiNlri.strict, Bool.and_eq_true, List.all_eq_true, decide_eq_true_eq] at hst
            have hm : len % 256 = len := Nat.mod_eq_of_lt (by omega)
            simp [nlriToApi, hm, map_mod_id labels hst.1]
      | ip6 a =>
          simp only [netFromApi0, current, true_and] at h
          split at h
          · simp at h
          · rename_i hc
            simp only [Out.ok.injEq] at h; subst h
            simp only [ApiNlri.strict, Bool.and_eq_true, List.all_eq_true, decide_eq_true_eq] at hst
            have hm : len % 256 = len := Nat.mod_eq_of_lt (by omega)
            simp [nlriToApi, hm, map_mod_id labels hst.1]
  | vpn labels rd len s =>
      simp only [netFromApi0] at h
      cases rd with
      | none => simp at h
      | some r =>
          simp only at h
          cases hrd : rdFromApi r with
          | none => simp [hrd] at h
          | some rd' =>
              simp only [hrd] at h
              have hrl := rd_listed r rd' hrd
              cases s with
              | bad k => simp at h
              | ip4 a =>
                  simp only [current, true_and] at h
                  split at h
                  · simp at h
                  · rename_i hc
                    simp only [Out.ok.injEq] at h; subst h
                    simp only [ApiNlri.strict, Bool.and_eq_true, List.all_eq_true, decide_eq_true_eq] at hst
                    have hm : len % 256 = len := Nat.mod_eq_of_lt (by omega)
                    simp [nlriToApi, hm, map_mod_id labels hst.1, hrl]
              | ip6 a =>
                  simp only [current, true_and] at h
                  split at h
                  · simp at h
                  · rename_i hc
                    simp only [Out.ok.injEq] at h; subst h
                    simp only [ApiNlri.strict, Bool.and_eq_true, List.all_eq_true, decide_eq_true_eq] at hst
                    have hm : len % 256 = len := Nat.mod_eq_of_lt (by omega)
                    simp [nlriToApi, hm, map_mod_id labels hst.1, hrl]

/-! ## "listed with the same content": `attr_to_api (attr_from_api x)` against `x` -/

theorem ofBe_beN_u32 (n : Nat) (h : n < 4294967296) : ofBe (beN 4 n) = n := by
  rw [ofBe_beN]; exact Nat.mod_eq_of_lt (by simpa using h)

theorem u32s_inv (l : List Nat) (rest : Bytes) (h : ∀ x ∈ l, x < 4294967296) :
    u32s l.length (l.flatMap (beN 4) ++ rest) = l := by
  induction l with
  | nil => simp [u32s]
  | cons x xs ih =>
      have hx := h x (by simp)
      have h4 : beN 4 x = [x / 16777216 % 256, x / 65536 % 256, x / 256 % 256, x % 256] := by
        simp [beN, Nat.div_div_eq_div_mul]
      have hv := ofBe_beN_u32 x hx
      rw [h4] at hv
      simp only [List.flatMap_cons, h4, List.length_cons, List.cons_append, List.nil_append, u32s, hv]
      rw [ih (fun y hy => h y (List.mem_cons_of_mem _ hy))]

theorem u32s_inv' (l : List Nat) (h : ∀ x ∈ l, x < 4294967296) :
    u32s ((l.flatMap (beN 4)).length / 4) (l.flatMap (beN 4)) = l := by
  have := u32s_inv l [] h
  rw [List.append_nil] at this
  rw [flatMap_beN4_length]
  have e : l.length * 4 / 4 = l.length := by omega
  rw [e]; exact this

theorem asPathToSegs_enc (segs : List (Nat × List Nat))
    (h : ∀ s ∈ segs, (1 ≤ s.1 ∧ s.1 ≤ 4) ∧ 1 ≤ s.2.length ∧ s.2.length ≤ 255 ∧ ∀ x ∈ s.2, x < 4294967296) :
    asPathToSegs (segs.flatMap encSeg) = .ok segs := by
  induction segs with
  | nil => simp [asPathToSegs]
  | cons s tl ih =>
      obtain ⟨⟨h1, h4⟩, hl1, hl, hx⟩ := h s (by simp)
      have ht : s.1 % 256 = s.1 := Nat.mod_eq_of_lt (by omega)
      have hlen : s.2.length % 256 = s.2.length := Nat.mod_eq_of_lt (by omega)
      simp only [List.flatMap_cons, encSeg, ht, hlen, List.cons_append, List.nil_append]
      rw [asPathToSegs]
      have hp : (s.2.flatMap (beN 4)).length = s.2.length * 4 := flatMap_beN4_length _
      have hle : s.2.length * 4 ≤ (s.2.flatMap (beN 4) ++ tl.flatMap encSeg).length := by
        rw [List.length_append, hp]; omega
      simp only [hle, if_true]
      rw [u32s_inv s.2 _ hx]
      have hd : (s.2.flatMap (beN 4) ++ tl.flatMap encSeg).drop (s.2.length * 4) = tl.flatMap encSeg := by
        rw [← hp, List.drop_left]
      rw [hd, ih (fun s' hs' => h s' (List.mem_cons_of_mem _ hs'))]
      rfl
theorem beN2_eq (a : Nat) (h : a ≤ 65535) : ∃ x y, beN 2 a = [x, y] ∧ ofBe [x, y] = a := by
  refine ⟨a / 256 % 256, a % 256, by simp [beN], ?_⟩
  have := ofBe_beN 2 a
  simp only [beN, List.nil_append, List.cons_append] at this
  rw [this]; exact Nat.mod_eq_of_lt (by omega)

theorem beN4_eq (a : Nat) (h : a < 4294967296) : ∃ x y z w, beN 4 a = [x, y, z, w] ∧ ofBe [x, y, z, w] = a := by
  refine ⟨a / 16777216 % 256, a / 65536 % 256, a / 256 % 256, a % 256, by simp [beN, Nat.div_div_eq_div_mul], ?_⟩
  have := ofBe_beN_u32 a h
  simpa [beN, Nat.div_div_eq_div_mul] using this

theorem boolBit_cases (b : Bool) (v : Nat) : (b = true ∧ boolBit b v = v) ∨ (b = false ∧ boolBit b v = 0) := by
  cases b <;> simp [boolBit]

/-- a typed extended community that `write_extcom` accepts is read back as itself -/
theorem readExtcom_write (e : ExtCom) (c : Bytes) (hr : e.inRange = true) (hs : e.strict = true)
    (hw : writeExtcom e = some c) (hty : ∀ ty v, e ≠ .unknown ty v) : readExtcom c = e := by
  cases e with
  | missing => simp [writeExtcom] at hw
  | other => simp [writeExtcom] at hw
  | unknown ty v => exact absurd rfl (hty ty v)
  | twoOctetAs t sub a la =>
      simp [writeExtcom, ensure, ite_bind_eq_some] at hw
      obtain ⟨h1, h2, rfl⟩ := hw
      simp only [ExtCom.inRange, u32, Bool.and_eq_true, decide_eq_true_eq] at hr
      obtain ⟨x, y, e2, v2⟩ := beN2_eq a h2
      obtain ⟨p, q, r, w, e4, v4⟩ := beN4_eq la hr.2
      rw [e2, e4]
      cases t <;> simp [readExtcom, boolBit, v2, v4]
  | ipv4 t sub addr la =>
      simp [writeExtcom, ensure, ite_bind_eq_some, parse4_bind_eq_some] at hw
      obtain ⟨h1, n, rfl, h2, rfl⟩ := hw
      simp only [ExtCom.inRange, AStr.inRange, u32, Bool.and_eq_true, decide_eq_true_eq] at hr
      obtain ⟨x, y, e2, v2⟩ := beN2_eq la h2
      obtain ⟨p, q, r, w, e4, v4⟩ := beN4_eq n hr.1.2
      rw [e2, e4]
      cases t <;> simp [readExtcom, boolBit, v2, v4]
  | fourOctetAs t sub a la =>
      simp [writeExtcom, ensure, ite_bind_eq_some] at hw
      obtain ⟨h1, h2, rfl⟩ := hw
      simp only [ExtCom.inRange, u32, Bool.and_eq_true, decide_eq_true_eq] at hr
      obtain ⟨x, y, e2, v2⟩ := beN2_eq la h2
      obtain ⟨p, q, r, w, e4, v4⟩ := beN4_eq a hr.1.2
      rw [e2, e4]
      cases t <;> simp [readExtcom, boolBit, v2, v4]
  | mup sub a b =>
      simp [writeExtcom, ensure, ite_bind_eq_some] at hw
      obtain ⟨h1, h2, rfl⟩ := hw
      simp only [ExtCom.inRange, u32, Bool.and_eq_true, decide_eq_true_eq] at hr
      obtain ⟨x, y, e2, v2⟩ := beN2_eq a h2
      obtain ⟨p, q, r, w, e4, v4⟩ := beN4_eq b hr.2
      rw [e2, e4]
      simp [readExtcom, v2, v4]
  | trafficRate a rt =>
      simp [writeExtcom, ensure, ite_bind_eq_some] at hw
      obtain ⟨h1, rfl⟩ := hw
      simp only [ExtCom.inRange, u32, Bool.and_eq_true, decide_eq_true_eq] at hr
      obtain ⟨x, y, e2, v2⟩ := beN2_eq a h1
      obtain ⟨p, q, r, w, e4, v4⟩ := beN4_eq rt hr.2
      rw [e2, e4]
      simp [readExtcom, v2, v4]
  | trafficAction t sm =>
      simp [writeExtcom] at hw
      subst hw
      cases t <;> cases sm <;> simp [readExtcom, boolBit]
  | redirect2 a l =>
      simp [writeExtcom, ensure, ite_bind_eq_some] at hw
      obtain ⟨h1, rfl⟩ := hw
      simp only [ExtCom.inRange, u32, Bool.and_eq_true, decide_eq_true_eq] at hr
      obtain ⟨x, y, e2, v2⟩ := beN2_eq a h1
      obtain ⟨p, q, r, w, e4, v4⟩ := beN4_eq l hr.2
      rw [e2, e4]
      simp [readExtcom, v2, v4]
  | trafficRemark d =>
      simp [writeExtcom] at hw
      subst hw
      simp only [ExtCom.strict, decide_eq_true_eq] at hs
      have : d % 64 = d := Nat.mod_eq_of_lt (by omega)
      simp [readExtcom, this]
  | redirectIp4 addr l =>
      simp [writeExtcom, ensure, ite_bind_eq_some, parse4_bind_eq_some] at hw
      obtain ⟨n, rfl, h2, rfl⟩ := hw
      simp only [ExtCom.inRange, AStr.inRange, u32, Bool.and_eq_true, decide_eq_true_eq] at hr
      obtain ⟨x, y, e2, v2⟩ := beN2_eq l h2
      obtain ⟨p, q, r, w, e4, v4⟩ := beN4_eq n hr.1
      rw [e2, e4]
      simp [readExtcom, v2, v4]
  | redirect4 a l =>
      simp [writeExtcom, ensure, ite_bind_eq_some] at hw
      obtain ⟨h1, rfl⟩ := hw
      simp only [ExtCom.inRange, u32, Bool.and_eq_true, decide_eq_true_eq] at hr
      obtain ⟨x, y, e2, v2⟩ := beN2_eq l h1
      obtain ⟨p, q, r, w, e4, v4⟩ := beN4_eq a hr.1
      rw [e2, e4]
      simp [readExtcom, v2, v4]
theorem readExtcom_unknown (c : Bytes) (hl : c.length = 8) (ty : Nat) (v : Bytes)
    (h : readExtcom c = .unknown ty v) : v = c ∧ ∃ rest, c = ty :: rest := by
  match c, hl with
  | [t, s, b2, b3, b4, b5, b6, b7], _ =>
      simp only [readExtcom] at h
      repeat' split at h
      all_goals (first | (simp at h; done) | (simp only [ExtCom.unknown.injEq] at h; obtain ⟨rfl, rfl⟩ := h; exact ⟨rfl, _, rfl⟩))

theorem sameExtcom_refl_typed (e : ExtCom) (hty : ∀ ty v, e ≠ .unknown ty v) : sameExtcom e e = true := by
  cases e <;> first | (simp [sameExtcom]; done) | exact absurd rfl (hty _ _)

theorem show_same (e : ExtCom) (c : Bytes) (hr : e.inRange = true) (hs : e.strict = true)
    (hw : writeExtcom e = some c) : sameExtcom e (showExtcom current c) = true := by
  have hlen := (writeExtcom_len e c hr hw).1
  by_cases hu : ∃ ty v, e = .unknown ty v
  · obtain ⟨ty, v, rfl⟩ := hu
    simp only [writeExtcom] at hw
    split at hw
    · simp at hw
    · simp only [Option.some.injEq] at hw; subst hw
      have hhead : ∃ rest, v = ty :: rest := by
        match v, hlen with
        | b :: rest, _ =>
            simp only [ExtCom.strict, decide_eq_true_eq] at hs
            exact ⟨rest, by rw [hs]⟩
      obtain ⟨rest, rfl⟩ := hhead
      unfold showExtcom
      simp only [current, if_true]
      split
      · cases hre : readExtcom (ty :: rest) with
        | unknown ty' v' =>
            obtain ⟨hv, rest', hc⟩ := readExtcom_unknown _ hlen ty' v' hre
            simp only [List.cons.injEq] at hc
            simp [sameExtcom, hv, hc.1]
        | _ => simp [sameExtcom]
      · simp [sameExtcom]
  · have hty : ∀ ty v, e ≠ .unknown ty v := fun ty v he => hu ⟨ty, v, he⟩
    have hre := readExtcom_write e c hr hs hw hty
    unfold showExtcom
    simp only [current, if_true, hre, hw]
    exact sameExtcom_refl_typed e hty

theorem chunksN_flatten_inv (cs : List Bytes) (h : ∀ c ∈ cs, c.length = 8) :
    chunksN 8 (cs.flatten.length / 8) cs.flatten = cs := by
  induction cs with
  | nil => simp [chunksN]
  | cons c cs ih =>
      have hc := h c (by simp)
      have hrest := ih (fun c' hc' => h c' (List.mem_cons_of_mem _ hc'))
      have hlen : (c :: cs).flatten.length / 8 = cs.flatten.length / 8 + 1 := by
        simp only [List.flatten_cons, List.length_append, hc]; omega
      rw [hlen]
      simp only [chunksN, List.flatten_cons]
      have e1 : (c ++ cs.flatten).take 8 = c := by rw [← hc, List.take_left]
      have e2 : (c ++ cs.flatten).drop 8 = cs.flatten := by rw [← hc, List.drop_left]
      rw [e1, e2, hrest]

theorem mapM_show_same (l : List ExtCom) (cs : List Bytes) (hr : ∀ e ∈ l, e.inRange = true)
    (hs : ∀ e ∈ l, e.strict = true) (h : l.mapM writeExtcom = some cs) :
    sameExtcoms l (cs.map (showExtcom current)) = true ∧ ∀ c ∈ cs, c.length = 8 := by
  induction l generalizing cs with
  | nil => simp at h; subst h; simp [sameExtcoms]
  | cons e es ih =>
      simp only [List.mapM_cons, Option.bind_eq_bind, Option.pure_def] at h
      cases hfe : writeExtcom e with
      | none => simp [hfe] at h
      | some c =>
          cases hes : es.mapM writeExtcom with
          | none => simp [hfe, hes] at h
          | some cs' =>
              simp [hfe, hes] at h
              subst h
              obtain ⟨i1, i2⟩ := ih cs' (fun e' he' => hr e' (List.mem_cons_of_mem _ he'))
                (fun e' he' => hs e' (List.mem_cons_of_mem _ he')) hes
              refine ⟨?_, ?_⟩
              · simp only [List.map_cons, sameExtcoms, Bool.and_eq_true]
                exact ⟨show_same e c (hr e (by simp)) (hs e (by simp)) hfe, i1⟩
              · intro c' hc'
                rcases List.mem_cons.mp hc' with rfl | hc'
                · exact (writeExtcom_len e _ (hr e (by simp)) hfe).1
                · exact i2 c' hc'
def enc3 (t : Nat × Nat × Nat) : Bytes := beN 4 t.1 ++ beN 4 t.2.1 ++ beN 4 t.2.2

theorem triples_inv (l : List (Nat × Nat × Nat)) (rest : Bytes)
    (h : ∀ t ∈ l, t.1 < 4294967296 ∧ t.2.1 < 4294967296 ∧ t.2.2 < 4294967296) :
    triples l.length (l.flatMap enc3 ++ rest) = l := by
  induction l with
  | nil => simp [triples]
  | cons t ts ih =>
      obtain ⟨h1, h2, h3⟩ := h t (by simp)
      obtain ⟨a, b, c⟩ := t
      simp only at h1 h2 h3
      obtain ⟨x1, x2, x3, x4, e1, v1⟩ := beN4_eq a h1
      obtain ⟨y1, y2, y3, y4, e2, v2⟩ := beN4_eq b h2
      obtain ⟨z1, z2, z3, z4, e3', v3⟩ := beN4_eq c h3
      simp only [List.flatMap_cons, enc3, e1, e2, e3', List.length_cons, triples, List.cons_append,
        List.nil_append, List.take, List.drop, v1, v2, v3]
      rw [ih (fun t' ht' => h t' (List.mem_cons_of_mem _ ht'))]

theorem flatMap_enc3_length (l : List (Nat × Nat × Nat)) : (l.flatMap enc3).length = l.length * 12 := by
  induction l with
  | nil => rfl
  | cons t ts ih => simp only [List.flatMap_cons, List.length_append, enc3, beN_length, ih, List.length_cons]; omega

theorem mapM_parse4_eq (ids : List AStr) (l : List Nat) (h : ids.mapM AStr.parse4 = some l) :
    ids = l.map AStr.ip4 := by
  induction ids generalizing l with
  | nil => simp at h; subst h; rfl
  | cons s ss ih =>
      simp only [List.mapM_cons, Option.bind_eq_bind, Option.pure_def] at h
      cases s with
      | ip4 n =>
          cases hss : ss.mapM AStr.parse4 with
          | none => simp [AStr.parse4, hss] at h
          | some l' =>
              simp [AStr.parse4, hss] at h
              subst h
              simp [ih l' hss]
      | ip6 n => simp [AStr.parse4] at h
      | bad k => simp [AStr.parse4] at h

theorem toApi_c2 (f : Nat) (b : Bytes) :
    toApi current ⟨2, f, .bin b⟩ = (asPathToSegs b).bind fun segs => .ok (.asPath segs) := by
  simp [toApi, Attribute.binary]; rfl
theorem toApi_c7 (f : Nat) (b : Bytes) (h : b.length = 8) :
    toApi current ⟨7, f, .bin b⟩ = .ok (.aggregator (ofBe (b.take 4)) (.ip4 (ofBe (b.drop 4)))) := by
  simp [toApi, Attribute.binary, h]
theorem toApi_c8 (f : Nat) (b : Bytes) :
    toApi current ⟨8, f, .bin b⟩ = .ok (.communities (u32s (b.length / 4) b)) := by
  simp [toApi, Attribute.binary]
theorem toApi_c10 (f : Nat) (b : Bytes) :
    toApi current ⟨10, f, .bin b⟩ = .ok (.clusterList ((u32s (b.length / 4) b).map .ip4)) := by
  simp [toApi, Attribute.binary]
theorem toApi_c32 (f : Nat) (b : Bytes) :
    toApi current ⟨32, f, .bin b⟩ = .ok (.largeCommunities (triples (b.length / 12) b)) := by
  simp [toApi, Attribute.binary]
theorem toApi_c16 (f : Nat) (b : Bytes) :
    toApi current ⟨16, f, .bin b⟩ =
      .ok (.extCommunities ((chunksN 8 (b.length / 8) b).map (showExtcom current))) := by
  simp [toApi, Attribute.binary]

/-- a typed MP_REACH message with at most one next hop (the carrier holds one: further ones are dropped,
    the open finding `listed-lacks-further-next-hops`) -/
def oneNextHop : ApiAttr → Prop
  | .mpReach _ nhs => nhs.length ≤ 1
  | _ => True

/-- **listed with the same content**: what `attr_to_api` shows for an accepted value is the message that
    was sent (up to the two documented re-presentations of `Spec.sameListed`). -/
theorem listed_same (x : ApiAttr) (a : Attribute) (y : ApiAttr) (hr : x.inRange = true) (h1 : oneNextHop x)
    (h : fromApi current x = .ok a) (hy : toApi current a = .ok y) : sameListed x y = true := by
  obtain ⟨hst, h0, hsz⟩ := fromApi_ok x a h
  cases x with
  | mpReach fam nhs =>
      simp only [fromApi0] at h0
      cases hv : mpReachValue current fam nhs with
      | none => simp [hv] at h0
      | some b =>
          simp [hv, newWithBin, canonicalFlags] at h0; subst h0
          simp [toApi, Attribute.binary] at hy; subst hy
          unfold mpReachValue at hv
          cases fam with
          | none => simp at hv
          | some p =>
              obtain ⟨afi, safi⟩ := p
              simp only [current, true_and] at hv
              split at hv
              · simp at hv
              · rename_i hle
                have ha : afi % 65536 = afi := Nat.mod_eq_of_lt (by omega)
                have hs : safi % 256 = safi := Nat.mod_eq_of_lt (by omega)
                rw [ha, hs] at hv
                simp only [oneNextHop] at h1
                match nhs, h1, hv with
                | [], _, hv =>
                    simp only at hv
                    split at hv
                    · simp only [Option.some.injEq] at hv; subst hv
                      simp [sameListed, mpCarrier]
                    · simp at hv
                | [s], _, hv =>
                    cases s with
                    | ip4 n =>
                        simp only [AStr.parse4, Option.some.injEq] at hv; subst hv
                        simp [sameListed, mpCarrier, AStr.parse4, beN_length]
                    | ip6 n =>
                        simp only [AStr.parse4, AStr.parse6, Option.some.injEq] at hv; subst hv
                        simp [sameListed, mpCarrier, AStr.parse4, AStr.parse6, beN_length]
                    | bad k => simp [AStr.parse4, AStr.parse6] at hv
                | _ :: _ :: _, h1, _ => simp at h1
  | missing => simp [fromApi0] at h0
  | other => simp [fromApi0] at h0
  | origin o =>
      simp only [fromApi0] at h0
      split at h0
      · simp at h0
      · simp [newWithValue, canonicalFlags] at h0; subst h0
        simp [toApi, Attribute.value] at hy; subst hy; simp [sameListed]
  | med m =>
      simp [fromApi0, newWithValue, canonicalFlags] at h0; subst h0
      simp [toApi, Attribute.value] at hy; subst hy; simp [sameListed]
  | localPref m =>
      simp [fromApi0, newWithValue, canonicalFlags] at h0; subst h0
      simp [toApi, Attribute.value] at hy; subst hy; simp [sameListed]
  | atomicAggregate =>
      simp [fromApi0, newWithBin, canonicalFlags] at h0; subst h0
      simp [toApi] at hy; subst hy; simp [sameListed]
  | nextHop s =>
      simp only [fromApi0, current] at h0
      simp only [ApiAttr.inRange, AStr.inRange, u32, decide_eq_true_eq] at hr
      cases s with
      | ip4 n =>
          simp [AStr.parse4, newWithBin, canonicalFlags] at h0; subst h0
          simp only [AStr.inRange, u32, decide_eq_true_eq] at hr
          have : ofBe ((beN 4 n).take 4) = n := by
            rw [List.take_of_length_le (by simp [beN_length])]; exact ofBe_beN_u32 n hr
          simp [toApi, Attribute.binary, beN_length, this] at hy; subst hy; simp [sameListed]
      | ip6 n =>
          simp [AStr.parse4, AStr.parse6, newWithBin, canonicalFlags] at h0; subst h0
          simp only [AStr.inRange, decide_eq_true_eq] at hr
          have : ofBe (beN 16 n) = n := by
            rw [ofBe_beN, pow16]; exact Nat.mod_eq_of_lt hr
          simp [toApi, Attribute.binary, beN_length, this] at hy; subst hy; simp [sameListed]
      | bad k => simp [AStr.parse4, AStr.parse6] at h0
  | aggregator asn addr =>
      simp only [fromApi0] at h0
      simp only [ApiAttr.inRange, u32, Bool.and_eq_true, decide_eq_true_eq] at hr
      cases addr with
      | ip4 n =>
          simp [AStr.parse4, newWithBin, canonicalFlags] at h0; subst h0
          have hn := hr.2
          simp only [AStr.inRange, u32, decide_eq_true_eq] at hn
          obtain ⟨x1, x2, x3, x4, e1, v1⟩ := beN4_eq asn hr.1
          obtain ⟨y1, y2, y3, y4, e2, v2⟩ := beN4_eq n hn
          rw [e1, e2] at hy
          rw [toApi_c7 _ _ rfl] at hy
          simp only [List.cons_append, List.nil_append, List.take, List.drop, v1, v2, Out.ok.injEq] at hy
          subst hy; simp [sameListed]
      | ip6 n => simp [AStr.parse4] at h0
      | bad k => simp [AStr.parse4] at h0
  | communities l =>
      simp [fromApi0, newWithBin, canonicalFlags] at h0; subst h0
      simp only [ApiAttr.inRange, List.all_eq_true, u32, decide_eq_true_eq] at hr
      rw [toApi_c8, u32s_inv' l hr] at hy
      simp only [Out.ok.injEq] at hy
      subst hy; simp [sameListed]
  | originatorId s =>
      simp only [fromApi0] at h0
      cases s with
      | ip4 n =>
          simp [AStr.parse4, newWithValue, canonicalFlags] at h0; subst h0
          simp [toApi, Attribute.value] at hy; subst hy; simp [sameListed]
      | ip6 n => simp [AStr.parse4] at h0
      | bad k => simp [AStr.parse4] at h0
  | clusterList ids =>
      simp only [fromApi0] at h0
      split at h0
      · simp at h0
      · rename_i l hl
        simp [newWithBin, canonicalFlags] at h0; subst h0
        have hids := mapM_parse4_eq ids l hl
        subst hids
        simp only [ApiAttr.inRange, List.all_eq_true, List.mem_map] at hr
        have hl32 : ∀ x ∈ l, x < 4294967296 := by
          intro x hx
          have := hr (.ip4 x) ⟨x, hx, rfl⟩
          simpa [AStr.inRange, u32] using this
        rw [toApi_c10, u32s_inv' l hl32] at hy
        simp only [Out.ok.injEq] at hy
        subst hy; simp [sameListed]
  | largeCommunities l =>
      simp only [fromApi0, okOrErr_eq, newWithBin, canonicalFlags] at h0
      simp at h0; subst h0
      simp only [ApiAttr.inRange, List.all_eq_true, u32, Bool.and_eq_true, decide_eq_true_eq] at hr
      have e : (l.flatMap fun t => beN 4 t.1 ++ (beN 4 t.2.1 ++ beN 4 t.2.2)) = l.flatMap enc3 := by
        congr 1
      have e12 : l.length * 12 / 12 = l.length := by omega
      have hinv := triples_inv l [] (fun t ht => ⟨(hr t ht).1.1, (hr t ht).1.2, (hr t ht).2⟩)
      rw [List.append_nil] at hinv
      rw [e, toApi_c32, flatMap_enc3_length, e12, hinv] at hy
      simp only [Out.ok.injEq] at hy
      subst hy; simp [sameListed]
  | extCommunities l =>
      simp only [fromApi0] at h0
      split at h0
      · simp at h0
      · rename_i cs hcs
        simp [newWithBin, canonicalFlags] at h0; subst h0
        simp only [ApiAttr.inRange, List.all_eq_true] at hr
        simp only [ApiAttr.strict, List.all_eq_true] at hst
        obtain ⟨hsame, hlens⟩ := mapM_show_same l cs hr hst hcs
        rw [toApi_c16, chunksN_flatten_inv cs hlens] at hy
        simp only [Out.ok.injEq] at hy
        subst hy
        simpa [sameListed] using hsame
  | asPath segs =>
      simp only [fromApi0, current] at h0
      split at h0
      · simp at h0
      · rename_i hany
        simp [newWithBin, canonicalFlags] at h0; subst h0
        simp only [ApiAttr.inRange, List.all_eq_true, Bool.and_eq_true, u32, decide_eq_true_eq] at hr
        simp only [ApiAttr.strict, List.all_eq_true, decide_eq_true_eq] at hst
        have hsegs : ∀ s ∈ segs, (1 ≤ s.1 ∧ s.1 ≤ 4) ∧ 1 ≤ s.2.length ∧ s.2.length ≤ 255 ∧
            ∀ x ∈ s.2, x < 4294967296 := by
          intro s hs
          simp only [true_and, List.any_eq_true, not_exists, not_and, Bool.or_eq_true,
            Bool.not_eq_true', decide_eq_false_iff_not, decide_eq_true_eq, not_or] at hany
          have h1 := hany s hs
          have h2 := hst s hs
          exact ⟨by omega, by omega, by omega, (hr s hs).2⟩
        have e : (segs.flatMap fun s => s.1 % 256 :: s.2.length % 256 :: s.2.flatMap (beN 4))
            = segs.flatMap encSeg := rfl
        rw [e, toApi_c2, asPathToSegs_enc segs hsegs] at hy
        simp only [Out.bind, Out.ok.injEq] at hy
        subst hy; simp [sameListed]
  | unknown f t v =>
      simp only [fromApi0, current, if_true] at h0
      split at h0
      · simp at h0
      · rename_i hlt
        have ht : t % 256 = t := Nat.mod_eq_of_lt (by omega)
        rw [ht] at h0
        simp only [ApiAttr.strict, ht] at hst
        split at h0
        · rename_i fl hcan
          split at h0
          · simp at h0
          · rename_i hty
            simp only [typedCode, decide_eq_true_eq, not_or] at hty
            obtain ⟨n1, n2, n3, n4, n5, n6, n7, n8, n9, n10, n16, n32, n23, n29, n17, n18⟩ := hty
            split at h0
            · simp at h0
            · simp only [Out.ok.injEq] at h0; subst h0
              simp only [hcan, Bool.or_eq_true, decide_eq_true_eq] at hst
              simp only [toApi, Attribute.binary, unwrapO_some, Out.bind_ok', Out.pure_eq] at hy
              simp [*] at hy
              subst hy
              simp only [sameListed, Bool.and_eq_true, decide_eq_true_eq, Bool.or_eq_true, true_and]
              omega
        · rename_i hcan
          split at h0
          · simp only [Out.ok.injEq] at h0; subst h0
            have hne : ∀ k, canonicalFlags k ≠ none → t ≠ k := by
              intro k hk htk; subst htk; exact hk hcan
            simp only [toApi, Attribute.binary, unwrapO_some, Out.bind_ok', Out.pure_eq] at hy
            have c1 := hne 1 (by simp [canonicalFlags]); have c2 := hne 2 (by simp [canonicalFlags])
            have c3 := hne 3 (by simp [canonicalFlags]); have c4 := hne 4 (by simp [canonicalFlags])
            have c5 := hne 5 (by simp [canonicalFlags]); have c6 := hne 6 (by simp [canonicalFlags])
            have c7 := hne 7 (by simp [canonicalFlags]); have c8 := hne 8 (by simp [canonicalFlags])
            have c9 := hne 9 (by simp [canonicalFlags]); have c10 := hne 10 (by simp [canonicalFlags])
            have c16 := hne 16 (by simp [canonicalFlags]); have c32 := hne 32 (by simp [canonicalFlags])
            simp [*] at hy
            subst hy
            simp [sameListed]
          · simp at h0

theorem checkListed_ok0 (x : ApiAttr) (a : Attribute) (hr : x.inRange = true) (h1 : oneNextHop x)
    (h : fromApi current x = .ok a) : checkListed x (attrObs current a) = .ok := by
  unfold checkListed attrObs
  simp only
  cases hy : toApi current a with
  | ok y => simp [listed_same x a y hr h1 h hy]
  | err => rfl
  | panic => rfl

theorem checkListed_ok (x : ApiAttr) (a : Attribute) (hr : x.inRange = true) (h1 : oneNextHop x)
    (h : fromApi current x = .ok a) (_hm : modelledCode a.code = true) :
    checkListed x (attrObs current a) = .ok := checkListed_ok0 x a hr h1 h

/-! ## AddPath then ListPath -/

/-- the attribute type code a message kind is stored under -/
def codeOf : ApiAttr → Nat
  | .missing => 0 | .other => 0
  | .unknown _ t _ => t
  | .origin _ => 1 | .asPath _ => 2 | .nextHop _ => 3 | .med _ => 4 | .localPref _ => 5
  | .atomicAggregate => 6 | .aggregator .. => 7 | .communities _ => 8 | .originatorId _ => 9
  | .clusterList _ => 10 | .largeCommunities _ => 32 | .extCommunities _ => 16 | .mpReach .. => 14

theorem from_api_codeOf (x : ApiAttr) (a : Attribute) (h : fromApi0 current x = .ok a) : a.code = codeOf x := by
  cases x with
  | missing => simp [fromApi0] at h
  | other => simp [fromApi0] at h
  | origin o =>
      simp only [fromApi0] at h
      split at h
      · simp at h
      · simp [newWithValue, canonicalFlags] at h; subst h; rfl
  | med m => simp [fromApi0, newWithValue, canonicalFlags] at h; subst h; rfl
  | localPref m => simp [fromApi0, newWithValue, canonicalFlags] at h; subst h; rfl
  | atomicAggregate => simp [fromApi0, newWithBin, canonicalFlags] at h; subst h; rfl
  | nextHop s =>
      simp only [fromApi0, current] at h
      cases s with
      | ip4 n => simp [AStr.parse4, newWithBin, canonicalFlags] at h; subst h; rfl
      | ip6 n => simp [AStr.parse4, AStr.parse6, newWithBin, canonicalFlags] at h; subst h; rfl
      | bad k => simp [AStr.parse4, AStr.parse6] at h
  | aggregator asn addr =>
      simp only [fromApi0] at h
      cases addr with
      | ip4 n => simp [AStr.parse4, newWithBin, canonicalFlags] at h; subst h; rfl
      | ip6 n => simp [AStr.parse4] at h
      | bad k => simp [AStr.parse4] at h
  | communities l => simp [fromApi0, newWithBin, canonicalFlags] at h; subst h; rfl
  | originatorId s =>
      simp only [fromApi0] at h
      cases s with
      | ip4 n => simp [AStr.parse4, newWithValue, canonicalFlags] at h; subst h; rfl
      | ip6 n => simp [AStr.parse4] at h
      | bad k => simp [AStr.parse4] at h
  | clusterList ids =>
      simp only [fromApi0] at h
      split at h
      · simp at h
      · simp [newWithBin, canonicalFlags] at h; subst h; rfl
  | largeCommunities l => simp [fromApi0, newWithBin, canonicalFlags] at h; subst h; rfl
  | extCommunities l =>
      simp only [fromApi0] at h
      split at h
      · simp at h
      · simp [newWithBin, canonicalFlags] at h; subst h; rfl
  | mpReach fam nhs =>
      simp only [fromApi0] at h
      split at h
      · simp at h
      · simp [newWithBin, canonicalFlags] at h; subst h; rfl
  | asPath segs =>
      simp only [fromApi0] at h
      split at h
      · simp at h
      · simp [newWithBin, canonicalFlags] at h; subst h; rfl
  | unknown f t v =>
      simp only [fromApi0, current, if_true] at h
      split at h
      · simp at h
      · rename_i hlt
        have ht : t % 256 = t := Nat.mod_eq_of_lt (by omega)
        rw [ht] at h
        split at h
        · split at h
          · simp at h
          · split at h
            · simp at h
            · simp only [Out.ok.injEq] at h; subst h; rfl
        · split at h
          · simp only [Out.ok.injEq] at h; subst h; rfl
          · simp at h

/-- message kinds that `local_path` stores (it consumes NEXT_HOP / MP_REACH and drops ORIGINATOR_ID,
    CLUSTER_LIST, MP_UNREACH) -/
def kept (x : ApiAttr) : Prop := codeOf x ≠ 3 ∧ codeOf x ≠ 9 ∧ codeOf x ≠ 10 ∧ codeOf x ≠ 14 ∧ codeOf x ≠ 15

theorem kept_one (x : ApiAttr) (h : kept x) : oneNextHop x := by
  cases x <;> simp [oneNextHop]
  simp [kept, codeOf] at h

theorem keepAttrs_id (as : List Attribute)
    (h : ∀ a ∈ as, a.code ≠ 3 ∧ a.code ≠ 9 ∧ a.code ≠ 10 ∧ a.code ≠ 14 ∧ a.code ≠ 15) : keepAttrs as = .ok as := by
  induction as with
  | nil => rfl
  | cons a rest ih =>
      obtain ⟨h3, h9, h10, h14, h15⟩ := h a (by simp)
      simp only [keepAttrs, h14, if_false]
      rw [if_neg (by omega), ih (fun b hb => h b (List.mem_cons_of_mem _ hb))]
      rfl

/-- element-wise relation between two lists of the same length -/
inductive Zip2 {α β} (R : α → β → Prop) : List α → List β → Prop where
  | nil : Zip2 R [] []
  | cons {a b l₁ l₂} : R a b → Zip2 R l₁ l₂ → Zip2 R (a :: l₁) (b :: l₂)

/-- sent messages and what is listed for them correspond one to one -/
theorem convert_list (xs : List ApiAttr) (as : List Attribute) (hr : ∀ x ∈ xs, x.inRange = true)
    (h1 : ∀ x ∈ xs, oneNextHop x) (hc : convertAll current xs = .ok as) (hm : ∀ a ∈ as, modelledCode a.code = true) :
    ∃ ys, listAttrs current as = .ok ys ∧ Zip2 (fun x y => sameListed x y = true) xs ys ∧
      (∀ a ∈ as, ∃ x ∈ xs, a.code = codeOf x) := by
  induction xs generalizing as with
  | nil =>
      simp only [convertAll, Out.ok.injEq] at hc; subst hc
      exact ⟨[], rfl, Zip2.nil, by simp⟩
  | cons x rest ih =>
      simp only [convertAll] at hc
      cases hx : fromApi current x with
      | ok a =>
          simp only [hx] at hc
          cases hrest : convertAll current rest with
          | ok as' =>
              simp only [hrest, Out.map_ok, Out.ok.injEq] at hc; subst hc
              have hma : modelledCode a.code = true := hm a (by simp)
              obtain ⟨hwf, hfc, hrt⟩ := from_api_rt x a (hr x (by simp)) hx hma
              obtain ⟨y, hy, _⟩ := rtreal_of_rt a hwf hrt
              obtain ⟨ys, hl, hf, hcodes⟩ := ih as' (fun z hz => hr z (List.mem_cons_of_mem _ hz))
                (fun z hz => h1 z (List.mem_cons_of_mem _ hz)) hrest
                (fun b hb => hm b (List.mem_cons_of_mem _ hb))
              refine ⟨y :: ys, by simp [listAttrs, hy, hl], ?_, ?_⟩
              · exact Zip2.cons (listed_same x a y (hr x (by simp)) (h1 x (by simp)) hx hy) hf
              · intro b hb
                rcases List.mem_cons.mp hb with rfl | hb
                · exact ⟨x, by simp, from_api_codeOf x b (fromApi_ok x b hx).2.1⟩
                · obtain ⟨z, hz, hzc⟩ := hcodes b hb
                  exact ⟨z, List.mem_cons_of_mem _ hz, hzc⟩
          | err => simp [hrest, Out.map] at hc
          | panic => simp [hrest, Out.map] at hc
      | err => simp [hx] at hc
      | panic => simp [hx] at hc

theorem forall2_left {α β} {R : α → β → Prop} {l₁ : List α} {l₂ : List β} (h : Zip2 R l₁ l₂) :
    (∀ x ∈ l₁, ∃ y ∈ l₂, R x y) ∧ (∀ y ∈ l₂, ∃ x ∈ l₁, R x y) := by
  induction h with
  | nil => simp
  | cons hxy _ ih =>
      refine ⟨?_, ?_⟩
      · intro x hx
        rcases List.mem_cons.mp hx with rfl | hx
        · exact ⟨_, by simp, hxy⟩
        · obtain ⟨y, hy, hr⟩ := ih.1 x hx
          exact ⟨y, List.mem_cons_of_mem _ hy, hr⟩
      · intro y hy
        rcases List.mem_cons.mp hy with rfl | hy
        · exact ⟨_, by simp, hxy⟩
        · obtain ⟨x, hx, hr⟩ := ih.2 y hy
          exact ⟨x, List.mem_cons_of_mem _ hx, hr⟩

theorem listAttrs_append (as bs : List Attribute) (ys zs : List ApiAttr)
    (h1 : listAttrs current as = .ok ys) (h2 : listAttrs current bs = .ok zs) :
    listAttrs current (as ++ bs) = .ok (ys ++ zs) := by
  induction as generalizing ys with
  | nil => simp only [listAttrs, Out.ok.injEq] at h1; subst h1; simpa using h2
  | cons a rest ih =>
      simp only [listAttrs] at h1
      cases ha : toApi current a with
      | ok y =>
          simp only [ha] at h1
          cases hr : listAttrs current rest with
          | ok ys' =>
              simp only [hr, Out.map_ok, Out.ok.injEq] at h1; subst h1
              simp [listAttrs, ha, ih ys' hr]
          | err => simp [hr, Out.map] at h1
          | panic => simp [hr, Out.map] at h1
      | err => simp [ha] at h1
      | panic => simp [ha] at h1

theorem keepAttrs_no_panic (as : List Attribute) : keepAttrs as ≠ .panic := by
  induction as with
  | nil => simp [keepAttrs]
  | cons a rest ih =>
      simp only [keepAttrs]
      split
      · cases a.binary with
        | none => simp
        | some b =>
            simp only
            split
            · split
              · exact ih
              · simp
            · simp
      · split
        · exact ih
        · exact map_no_panic _ _ ih

theorem convertAll_no_panic (xs : List ApiAttr) : convertAll current xs ≠ .panic := by
  induction xs with
  | nil => simp [convertAll]
  | cons x rest ih =>
      simp only [convertAll]
      cases hx : fromApi current x with
      | ok a => simp only; exact map_no_panic _ _ ih
      | err => simp
      | panic => exact absurd hx (fromApi_no_panic x)

/-- when no consumed / dropped kind is sent, ListPath shows every attribute that was added, and beyond them
    only the mandatory defaults -/
theorem wf_emptyAsPath : WF emptyAsPath := by
  simp [WF, wfClause, emptyAsPath, classOf, flagsOk, binClause, Spec.isBytes, Spec.segments]

theorem convertAll_wf (xs : List ApiAttr) (as : List Attribute) (hr : ∀ x ∈ xs, x.inRange = true)
    (hc : convertAll current xs = .ok as) (hm : ∀ a ∈ as, modelledCode a.code = true) : ∀ a ∈ as, WF a := by
  induction xs generalizing as with
  | nil => simp only [convertAll, Out.ok.injEq] at hc; subst hc; simp
  | cons x rest ih =>
      simp only [convertAll] at hc
      cases hx : fromApi current x with
      | ok a =>
          simp only [hx] at hc
          cases hrest : convertAll current rest with
          | ok as' =>
              simp only [hrest, Out.map_ok, Out.ok.injEq] at hc; subst hc
              intro b hb
              rcases List.mem_cons.mp hb with rfl | hb
              · exact (from_api_rt x b (hr x (by simp)) hx (hm b (by simp))).1
              · exact ih as' (fun z hz => hr z (List.mem_cons_of_mem _ hz)) hrest
                  (fun c hc' => hm c (List.mem_cons_of_mem _ hc')) b hb
          | err => simp [hrest, Out.map] at hc
          | panic => simp [hrest, Out.map] at hc
      | err => simp [hx] at hc
      | panic => simp [hx] at hc

theorem checkPath_ok' (sent : List ApiAttr) (stored : List Attribute) (hr : ∀ x ∈ sent, x.inRange = true)
    (hk : ∀ x ∈ sent, kept x) (hl : localPath current sent = .ok stored)
    (hm : ∀ a ∈ stored, modelledCode a.code = true) :
    ∃ ys, listAttrs current stored = .ok ys ∧ checkPath sent ys = .ok ∧ ∀ a ∈ stored, WF a := by
  unfold localPath at hl
  cases hc : convertAll current sent with
  | err => simp [hc] at hl
  | panic => simp [hc] at hl
  | ok as =>
      simp only [hc] at hl
      -- nothing is consumed or dropped
      have hcodes0 : ∀ a ∈ as, ∃ x ∈ sent, a.code = codeOf x := by
        clear hl hm
        induction sent generalizing as with
        | nil => simp only [convertAll, Out.ok.injEq] at hc; subst hc; simp
        | cons x rest ih =>
            simp only [convertAll] at hc
            cases hx : fromApi current x with
            | ok a =>
                simp only [hx] at hc
                cases hrest : convertAll current rest with
                | ok as' =>
                    simp only [hrest, Out.map_ok, Out.ok.injEq] at hc; subst hc
                    intro b hb
                    rcases List.mem_cons.mp hb with rfl | hb
                    · exact ⟨x, by simp, from_api_codeOf x b (fromApi_ok x b hx).2.1⟩
                    · obtain ⟨z, hz, hzc⟩ := ih (fun z hz => hr z (List.mem_cons_of_mem _ hz))
                        (fun z hz => hk z (List.mem_cons_of_mem _ hz)) as' hrest b hb
                      exact ⟨z, List.mem_cons_of_mem _ hz, hzc⟩
                | err => simp [hrest, Out.map] at hc
                | panic => simp [hrest, Out.map] at hc
            | err => simp [hx] at hc
            | panic => simp [hx] at hc
      have hkeep : keepAttrs as = .ok as := by
        apply keepAttrs_id
        intro a ha
        obtain ⟨x, hx, hcx⟩ := hcodes0 a ha
        have := hk x hx
        unfold kept at this
        omega
      simp only [hkeep, Out.ok.injEq] at hl
      -- the stored vector is `as` followed by the defaults that were missing
      have hsub : ∀ a ∈ as, a ∈ stored := by
        intro a ha; subst hl
        split <;> split <;> simp [ha]
      have hmas : ∀ a ∈ as, modelledCode a.code = true := fun a ha => hm a (hsub a ha)
      obtain ⟨ys, hlist, hf, _⟩ := convert_list sent as hr (fun x hx => kept_one x (hk x hx)) hc hmas
      obtain ⟨hleft, hright⟩ := forall2_left hf
      have ho : listAttrs current [originIgp] = .ok [.origin 0] := by
        simp [listAttrs, toApi, originIgp, Attribute.value]
      have hp : listAttrs current [emptyAsPath] = .ok [.asPath []] := by
        simp [listAttrs, toApi, emptyAsPath, Attribute.binary, asPathToSegs]
      -- the listed vector: ys followed by the listed defaults
      have hdef : ∃ zs, listAttrs current stored = .ok (ys ++ zs) ∧ ∀ z ∈ zs, z = .origin 0 ∨ z = .asPath [] := by
        subst hl
        by_cases h1 : (as.any fun a => decide (a.code = 1)) = true
        · rw [if_pos h1]
          by_cases h2 : (as.any fun a => decide (a.code = 2)) = true
          · rw [if_pos h2]
            exact ⟨[], by simpa using hlist, by simp⟩
          · rw [if_neg h2]
            exact ⟨[.asPath []], listAttrs_append as _ ys _ hlist hp, by simp⟩
        · rw [if_neg h1]
          have hlo := listAttrs_append as _ ys _ hlist ho
          by_cases h2 : ((as ++ [originIgp]).any fun a => decide (a.code = 2)) = true
          · rw [if_pos h2]
            exact ⟨[.origin 0], hlo, by simp⟩
          · rw [if_neg h2]
            have := listAttrs_append (as ++ [originIgp]) _ (ys ++ [.origin 0]) _ hlo hp
            exact ⟨[.origin 0, .asPath []], by simpa using this, by simp⟩
      have hwfS : ∀ a ∈ stored, WF a := by
        have hwfas := convertAll_wf sent as hr hc hmas
        subst hl
        intro a ha
        by_cases h1 : (as.any fun a => decide (a.code = 1)) = true
        · rw [if_pos h1] at ha
          by_cases h2 : (as.any fun a => decide (a.code = 2)) = true
          · rw [if_pos h2] at ha; exact hwfas a ha
          · rw [if_neg h2] at ha
            rcases List.mem_append.mp ha with ha | ha
            · exact hwfas a ha
            · simp only [List.mem_singleton] at ha; subst ha; exact wf_emptyAsPath
        · rw [if_neg h1] at ha
          by_cases h2 : ((as ++ [originIgp]).any fun a => decide (a.code = 2)) = true
          · rw [if_pos h2] at ha
            rcases List.mem_append.mp ha with ha | ha
            · exact hwfas a ha
            · simp only [List.mem_singleton] at ha; subst ha; exact wf_originIgp
          · rw [if_neg h2] at ha
            rcases List.mem_append.mp ha with ha | ha
            · rcases List.mem_append.mp ha with ha | ha
              · exact hwfas a ha
              · simp only [List.mem_singleton] at ha; subst ha; exact wf_originIgp
            · simp only [List.mem_singleton] at ha; subst ha; exact wf_emptyAsPath
      obtain ⟨zs, hstored, hzs⟩ := hdef
      refine ⟨ys ++ zs, hstored, ?_, hwfS⟩
      unfold checkPath
      have hfind : sent.find? (fun x => !((ys ++ zs).any (sameListed x))) = none := by
        rw [List.find?_eq_none]
        intro x hx
        obtain ⟨y, hy, hs⟩ := hleft x hx
        simp only [Bool.not_eq_true, Bool.not_eq_false', List.any_eq_true]
        exact ⟨y, List.mem_append_left _ hy, hs⟩
      rw [hfind]
      have hall : (ys ++ zs).all (fun y => sent.any (fun x => sameListed x y) || y = .origin 0 || y = .asPath []) = true := by
        rw [List.all_eq_true]
        intro y hy
        rcases List.mem_append.mp hy with hy | hy
        · obtain ⟨x, hx, hs⟩ := hright y hy
          have : sent.any (fun x => sameListed x y) = true := List.any_eq_true.mpr ⟨x, hx, hs⟩
          simp [this]
        · rcases hzs y hy with rfl | rfl <;> simp
      simp [hall]

theorem checkPath_ok (sent : List ApiAttr) (stored : List Attribute) (hr : ∀ x ∈ sent, x.inRange = true)
    (hk : ∀ x ∈ sent, kept x) (hl : localPath current sent = .ok stored)
    (hm : ∀ a ∈ stored, modelledCode a.code = true) :
    ∃ ys, listAttrs current stored = .ok ys ∧ checkPath sent ys = .ok := by
  obtain ⟨ys, h1, h2, _⟩ := checkPath_ok' sent stored hr hk hl hm
  exact ⟨ys, h1, h2⟩

/-- `RpkiTable::validate` does not panic on a stored path -/
theorem rpkiOrigin_ok (stored : List Attribute) (h : ∀ a ∈ stored, WF a) : ∃ o, rpkiOrigin stored = .ok o := by
  unfold rpkiOrigin
  cases hf : findCode 2 stored with
  | none => exact ⟨_, rfl⟩
  | some p =>
      obtain ⟨hm, hc⟩ := findCode_some 2 stored p hf
      obtain ⟨b, hb, _⟩ := wf_aspath p (h p hm) hc
      obtain ⟨r, hr⟩ := asPathOrigin_ok p (h p hm) hc
      simp only [hr, Out.bind_ok']
      cases r with
      | some asn => exact ⟨_, rfl⟩
      | none => simp only [Attribute.binary, hb, unwrapO_some, Out.bind_ok']; exact ⟨_, rfl⟩

/-- with no VRP installed, the state shown for an IPv4 / IPv6 route is NotFound (RFC 6811) -/
theorem rpkiShown_nil (n : Nlri) (sent : List ApiAttr) (stored : List Attribute) (h : ∀ a ∈ stored, WF a) :
    ∃ v, rpkiShown [] n stored = .ok v ∧ checkRpki (nlriToApi n) sent [] v = .ok := by
  obtain ⟨o, ho⟩ := rpkiOrigin_ok stored h
  cases n with
  | v4 a m =>
      exact ⟨some .notFound, by simp [rpkiShown, ho, rpkiState], by
        simp [nlriToApi, checkRpki, rpkiExpected, shownName]⟩
  | v6 a m =>
      exact ⟨some .notFound, by simp [rpkiShown, ho, rpkiState], by
        simp [nlriToApi, checkRpki, shownName]⟩
  | lv4 ls a m => exact ⟨none, rfl, by simp [nlriToApi, checkRpki]⟩
  | lv6 ls a m => exact ⟨none, rfl, by simp [nlriToApi, checkRpki]⟩
  | vpn4 ls rd a m => exact ⟨none, rfl, by simp [nlriToApi, checkRpki]⟩
  | vpn6 ls rd a m => exact ⟨none, rfl, by simp [nlriToApi, checkRpki]⟩

/-- inputs on which the property is claimed for the code as it is now.
    * `attrWire`: the flags byte is the RFC one for the code.  Any other flags byte (PARTIAL, EXTENDED
      LENGTH on a short value, unused low bits) is stored verbatim by the decoder but not carried by the
      typed API messages — the open finding `roundtrip-flags-differ` /
      `roundtrip-noncanonical-flags-rejected`, see `Props.flags_not_carried`.
    * API cases: the scalar fields are within their protobuf widths; a typed MP_REACH message has at most one
      next hop (further ones are dropped: the open finding `listed-lacks-further-next-hops`).
    * `grpc` (AddPath then ListPath): no attribute that `local_path` consumes or drops is sent
      (NEXT_HOP / raw MP_REACH, ORIGINATOR_ID, CLUSTER_LIST, raw MP_UNREACH) — ListPath does not show
      them: the open findings `listed-path-lacks-*`; the global table (not a VRF); and no VRP is installed: the state shown is then
      NotFound (the validation state against VRPs is RFC 6811's and property C12's subject: here it is
      only cross-checked on the real handlers against `Spec.rpkiExpected`). -/
def caseOk : Case → Prop
  | .attrWire code flags _ => ∀ f, canonicalFlags code = some f → flags = f
  | .attrApi x => x.inRange = true ∧ oneNextHop x
  | .nlriWire _ bs => AllB bs
  | .nlriApi x => x.inRange = true
  | .grpc x attrs vrps vrf =>
      x.inRange = true ∧ (∀ a ∈ attrs, a.inRange = true) ∧ (∀ a ∈ attrs, kept a) ∧ vrps = [] ∧ vrf = false
  | .explore _ => True

/-- **master theorem**: the reference checker written from the property text accepts every run of the
    model of the current code. -/
theorem check_run_ok (c : Case) (h : caseOk c) : Spec.check c (run current c) = .ok := by
  cases c with
  | attrWire code flags bs =>
      simp only [run]
      cases hok : wireCaseOk code flags bs with
      | false => rfl
      | true =>
        simp only [Bool.not_true, Bool.false_eq_true, if_false]
        simp only [wireCaseOk, Bool.and_eq_true, decide_eq_true_eq, List.all_eq_true, Bool.or_eq_true] at hok
        obtain ⟨⟨⟨⟨⟨⟨⟨hm, _⟩, _⟩, hc⟩, hf⟩, hb⟩, hlen⟩, _⟩ := hok
        cases hd : decodeAttr code flags bs with
        | stored a =>
            obtain ⟨hwf, hcode, hflags, hs⟩ := decode_wf code flags bs a hc hf hb hlen hd
            have hfc : flagsCanon a := by
              intro f hf'; rw [hcode] at hf'; rw [hflags]; exact h f hf'
            have hrt := roundtrip_attr a hwf (by rw [hcode]; exact hm) (by rw [hcode]; omega) hfc
            exact checkAttr_ok "decoded" a hwf hrt
        | rejected => rfl
        | dropped => rfl
  | attrApi x =>
      simp only [run]
      cases hf : fromApi current x with
      | ok a =>
          simp only
          split
          · rename_i hm
            obtain ⟨hwf, hfc, hrt⟩ := from_api_rt x a h.1 hf hm
            simp only [Spec.check, checkAttr_ok "accepted" a hwf hrt, seq]
            exact checkListed_ok x a h.1 h.2 hf hm
          · rfl
      | err => rfl
      | panic => exact absurd hf (fromApi_no_panic x)
  | nlriWire f bs =>
      simp only [run]
      split
      · rfl
      · cases hd : decodeList f bs.length bs with
        | ok l =>
            simp only
            split
            · rfl
            · exact checkAll_ok "decoded" l (decodeList_wf f _ bs l h hd)
        | err => rfl
        | panic => exact absurd hd (decodeList_no_panic _ _ _)
  | nlriApi x =>
      simp only [run]
      cases hf : netFromApi current x with
      | ok n =>
          obtain ⟨hst, h0⟩ := netFromApi_ok x n hf
          have hwf := nlri_from_api_wf x n h hst h0
          simp only [Spec.check, List.map_cons, List.map_nil, checkAll, checkNlri_ok "accepted" n hwf, seq]
          simp only [nlriObs, nlri_listed_same x n h hst h0, if_true]
      | err => rfl
      | panic => exact absurd hf (netFromApi_no_panic x)
  | grpc x attrs vrps vrf =>
      obtain ⟨hx, hr, hk, rfl, rfl⟩ := h
      simp only [run]
      cases hf : netFromApi current x with
      | ok n =>
          obtain ⟨hst, h0⟩ := netFromApi_ok x n hf
          simp only
          cases hl : localPath current attrs with
          | ok stored =>
              simp only [Bool.false_and, Bool.false_eq_true, if_false]
              split
              · rename_i hm
                simp only [List.all_eq_true] at hm
                obtain ⟨ys, hys, hcp, hwfs⟩ := checkPath_ok' attrs stored hr hk hl hm
                obtain ⟨v, hv, hck⟩ := rpkiShown_nil n attrs stored hwfs
                rw [nlri_listed_same x n hx hst h0] at hck
                simp only [hys, hv, Spec.check, nlri_listed_same x n hx hst h0, if_true, hcp, seq, hck, Bool.false_eq_true,
                  if_false]
              · rfl
          | err => rfl
          | panic =>
              exfalso
              unfold localPath at hl
              cases hc : convertAll current attrs with
              | ok as =>
                  simp only [hc] at hl
                  cases hkp : keepAttrs as with
                  | ok k => simp [hkp] at hl
                  | err => simp [hkp] at hl
                  | panic =>
                      exact absurd hkp (keepAttrs_no_panic as)
              | err => simp [hc] at hl
              | panic => exact absurd hc (convertAll_no_panic attrs)
      | err => rfl
      | panic => exact absurd hf (netFromApi_no_panic x)
  | explore k => rfl

end Rbgp.Api
